#!/bin/bash
# tools/seedcheck.sh <seed dir (patch.diff, demo/run.sh, meta.json)> <ID> [tier] [worktree]
# Confirms a seeded change (applies, builds, suite passes, demo fails with / passes without), then runs the check against it.
sd=$1; id=$2; tier=${3:-quick}; wt=${4:-/tmp/wtseed}
export GOFLAGS=-mod=mod GOPROXY=off GOSUMDB=off GOTOOLCHAIN=local
[ -d "$wt" ] || git -C /repo worktree add -q --detach "$wt" HEAD
git -C "$wt" checkout -q --detach "$(git -C /repo rev-parse HEAD)"; git -C "$wt" checkout -q -- .; git -C "$wt" clean -fdq
echo "== seed $sd for $id"
( cd "$wt" && bash "$sd/demo/run.sh" "$wt" >/tmp/seed_demo_clean.log 2>&1 ); echo "demo without patch: rc=$?"
git -C "$wt" clean -fdq; git -C "$wt" checkout -q -- .
git -C "$wt" apply "$sd/patch.diff" || { echo "APPLY FAILED"; exit 3; }
( cd "$wt" && go build ./... ) || { echo "BUILD FAILED"; exit 3; }
if [ -z "$SKIP_SUITE" ]; then
( cd "$wt" && go test -vet=off -count=1 ./... 2>&1 | grep -E "^--- FAIL" | grep -v "TestTryWriteCSV" ) > /tmp/seed_suite.$$.log; echo "suite failures other than TestTryWriteCSV: $(grep -c . /tmp/seed_suite.$$.log)"; head -5 /tmp/seed_suite.$$.log; rm -f /tmp/seed_suite.$$.log
fi
( cd "$wt" && bash "$sd/demo/run.sh" "$wt" >/tmp/seed_demo_patched.log 2>&1 ); echo "demo with patch: rc=$?"
git -C "$wt" clean -fdq
out=$(VERIF_REPO=$wt timeout 3000 /verif/check $id $tier 2>&1); rc=$?
echo "check $id $tier against seed: rc=$rc violations=$(echo "$out" | grep -c '^VIOLATION')"
echo "$out" | grep -m3 "violation:" | cut -c1-300
git -C "$wt" checkout -q -- .; git -C "$wt" clean -fdq
