// mut: a small mutation generator for Go source (standard library only).
//
//	mut gen <repo root> <relative file> <out dir>
//
// writes one mutated copy of the file per mutation site into <out dir>/<slug>/<n>.go and appends a JSON line per mutant
// ({"id","file","line","op","desc","path"}) to <out dir>/index.jsonl. The mutated copies are meant to be compiled through
// `go build -overlay`, so /repo itself is never modified.
//
// Operators (each is the kind of slip a refactor makes): relational boundary (< <=, > >=), equality flip, arithmetic swap,
// logical swap, integer literal +-1, negated condition, dropped statement (call, assignment, inc/dec, defer, continue/break,
// bare return), slice/index off by one, dropped Lock/Unlock pair, dropped else branch, swapped adjacent statements is NOT
// generated (too many non-compiling results).
package main

import (
	"bytes"
	"encoding/json"
	"fmt"
	"go/ast"
	"go/parser"
	"go/printer"
	"go/token"
	"os"
	"path/filepath"
	"strconv"
	"strings"
)

type mutant struct {
	ID   string `json:"id"`
	File string `json:"file"`
	Line int    `json:"line"`
	Op   string `json:"op"`
	Desc string `json:"desc"`
	Path string `json:"path"`
}

type site struct {
	line  int
	op    string
	desc  string
	apply func() (undo func())
}

func main() {
	if len(os.Args) != 5 || os.Args[1] != "gen" {
		fmt.Fprintln(os.Stderr, "usage: mut gen <repo root> <relative file> <out dir>")
		os.Exit(2)
	}
	root, rel, out := os.Args[2], os.Args[3], os.Args[4]
	src, err := os.ReadFile(filepath.Join(root, rel))
	if err != nil {
		panic(err)
	}
	fset := token.NewFileSet()
	f, err := parser.ParseFile(fset, rel, src, parser.ParseComments)
	if err != nil {
		panic(err)
	}
	sites := collect(fset, f)
	slug := strings.NewReplacer("/", "_", ".go", "").Replace(rel)
	dir := filepath.Join(out, slug)
	os.MkdirAll(dir, 0o755)
	idx, err := os.OpenFile(filepath.Join(out, "index.jsonl"), os.O_APPEND|os.O_CREATE|os.O_WRONLY, 0o644)
	if err != nil {
		panic(err)
	}
	defer idx.Close()
	orig := render(fset, f)
	n := 0
	for _, s := range sites {
		undo := s.apply()
		txt := render(fset, f)
		undo()
		if bytes.Equal(txt, orig) {
			continue
		}
		n++
		p := filepath.Join(dir, fmt.Sprintf("%d.go", n))
		os.WriteFile(p, txt, 0o644)
		b, _ := json.Marshal(mutant{ID: fmt.Sprintf("%s#%d", slug, n), File: rel, Line: s.line, Op: s.op, Desc: s.desc, Path: p})
		idx.Write(append(b, '\n'))
	}
	fmt.Printf("%s: %d mutants\n", rel, n)
}

func render(fset *token.FileSet, f *ast.File) []byte {
	var b bytes.Buffer
	(&printer.Config{Mode: printer.UseSpaces | printer.TabIndent, Tabwidth: 8}).Fprint(&b, fset, f)
	return b.Bytes()
}

func exprStr(fset *token.FileSet, e ast.Node) string {
	var b bytes.Buffer
	printer.Fprint(&b, fset, e)
	s := strings.Join(strings.Fields(b.String()), " ")
	if len(s) > 90 {
		s = s[:90] + "…"
	}
	return s
}

var relSwap = map[token.Token][]token.Token{
	token.LSS: {token.LEQ}, token.LEQ: {token.LSS}, token.GTR: {token.GEQ}, token.GEQ: {token.GTR},
	token.EQL: {token.NEQ}, token.NEQ: {token.EQL},
	token.ADD: {token.SUB}, token.SUB: {token.ADD}, token.MUL: {token.QUO}, token.QUO: {token.MUL}, token.REM: {token.QUO},
	token.LAND: {token.LOR}, token.LOR: {token.LAND},
	token.SHL: {token.SHR}, token.SHR: {token.SHL},
}

var assignSwap = map[token.Token]token.Token{token.ADD_ASSIGN: token.SUB_ASSIGN, token.SUB_ASSIGN: token.ADD_ASSIGN}

func collect(fset *token.FileSet, f *ast.File) []site {
	var sites []site
	add := func(pos token.Pos, op, desc string, apply func() func()) {
		sites = append(sites, site{line: fset.Position(pos).Line, op: op, desc: desc, apply: apply})
	}
	// statement lists: deletions and lock-pair removal
	var visitList func(list *[]ast.Stmt)
	visitList = func(list *[]ast.Stmt) {
		for i := range *list {
			i := i
			st := (*list)[i]
			del := func(op string) {
				add(st.Pos(), op, "delete: "+exprStr(fset, st), func() func() {
					old := (*list)[i]
					(*list)[i] = &ast.EmptyStmt{Semicolon: old.Pos(), Implicit: false}
					return func() { (*list)[i] = old }
				})
			}
			switch s := st.(type) {
			case *ast.ExprStmt:
				if _, ok := s.X.(*ast.CallExpr); ok {
					str := exprStr(fset, s)
					if strings.HasPrefix(str, "panic(") || strings.Contains(str, "verifhook.") {
						break
					}
					del("del-call")
				}
			case *ast.AssignStmt:
				if s.Tok != token.DEFINE {
					del("del-assign")
				}
				if t, ok := assignSwap[s.Tok]; ok {
					add(s.Pos(), "assign-op", fmt.Sprintf("%s -> %s in: %s", s.Tok, t, exprStr(fset, s)), func() func() {
						old := s.Tok
						s.Tok = t
						return func() { s.Tok = old }
					})
				}
			case *ast.IncDecStmt:
				del("del-incdec")
			case *ast.DeferStmt:
				del("del-defer")
			case *ast.BranchStmt:
				if s.Tok == token.CONTINUE || s.Tok == token.BREAK {
					del("del-branch")
				}
			case *ast.ReturnStmt:
				if len(s.Results) == 0 {
					del("del-return")
				}
			case *ast.SendStmt:
				// dropping a send is a blatant loss; skip
			}
		}
	}
	ast.Inspect(f, func(n ast.Node) bool {
		switch x := n.(type) {
		case *ast.GenDecl:
			if x.Tok == token.IMPORT {
				return false
			}
		case *ast.BlockStmt:
			visitList(&x.List)
		case *ast.CaseClause:
			visitList(&x.Body)
		case *ast.CommClause:
			visitList(&x.Body)
		case *ast.BinaryExpr:
			for _, t := range relSwap[x.Op] {
				t := t
				add(x.OpPos, "binop", fmt.Sprintf("%s -> %s in: %s", x.Op, t, exprStr(fset, x)), func() func() {
					old := x.Op
					x.Op = t
					return func() { x.Op = old }
				})
			}
		case *ast.BasicLit:
			if x.Kind == token.INT {
				v, err := strconv.ParseInt(x.Value, 0, 64)
				if err == nil && v >= 0 && v <= 4096 {
					for _, d := range []int64{1, -1} {
						nv := v + d
						if nv < 0 {
							continue
						}
						add(x.Pos(), "intlit", fmt.Sprintf("%d -> %d", v, nv), func() func() {
							old := x.Value
							x.Value = strconv.FormatInt(nv, 10)
							return func() { x.Value = old }
						})
					}
				}
			}
		case *ast.IfStmt:
			add(x.Cond.Pos(), "neg-cond", "negate: if "+exprStr(fset, x.Cond), func() func() {
				old := x.Cond
				x.Cond = &ast.UnaryExpr{Op: token.NOT, X: &ast.ParenExpr{X: old}}
				return func() { x.Cond = old }
			})
			if x.Else != nil {
				add(x.Else.Pos(), "del-else", "drop else of: if "+exprStr(fset, x.Cond), func() func() {
					old := x.Else
					x.Else = nil
					return func() { x.Else = old }
				})
			}
		case *ast.ForStmt:
			if x.Cond != nil {
				// loop bound handled through binop
			}
		case *ast.SliceExpr:
			if x.Low != nil {
				add(x.Low.Pos(), "slice-low", "low+1 in: "+exprStr(fset, x), func() func() {
					old := x.Low
					x.Low = &ast.BinaryExpr{X: &ast.ParenExpr{X: old}, Op: token.ADD, Y: &ast.BasicLit{Kind: token.INT, Value: "1"}}
					return func() { x.Low = old }
				})
			}
			if x.High != nil {
				add(x.High.Pos(), "slice-high", "high-1 in: "+exprStr(fset, x), func() func() {
					old := x.High
					x.High = &ast.BinaryExpr{X: &ast.ParenExpr{X: old}, Op: token.SUB, Y: &ast.BasicLit{Kind: token.INT, Value: "1"}}
					return func() { x.High = old }
				})
			}
		case *ast.UnaryExpr:
			if x.Op == token.NOT {
				// drop a negation: !x -> x   (represented as a paren expr swap through parent is awkward; use double negation instead)
			}
		case *ast.FuncDecl:
			if x.Body != nil {
				lockPairs(fset, x, add)
			}
		}
		return true
	})
	return sites
}

// lockPairs: remove every X.Lock()/X.Unlock() (and RLock/RUnlock, incl. deferred) on the same receiver expression inside one function.
func lockPairs(fset *token.FileSet, fn *ast.FuncDecl, add func(token.Pos, string, string, func() func())) {
	type ref struct {
		list *[]ast.Stmt
		i    int
	}
	byRecv := map[string][]ref{}
	var walk func(list *[]ast.Stmt)
	isLockCall := func(e ast.Expr) (string, bool) {
		c, ok := e.(*ast.CallExpr)
		if !ok {
			return "", false
		}
		se, ok := c.Fun.(*ast.SelectorExpr)
		if !ok {
			return "", false
		}
		switch se.Sel.Name {
		case "Lock", "Unlock", "RLock", "RUnlock":
			return exprStr(fset, se.X), true
		}
		return "", false
	}
	walk = func(list *[]ast.Stmt) {
		for i, st := range *list {
			switch s := st.(type) {
			case *ast.ExprStmt:
				if r, ok := isLockCall(s.X); ok {
					byRecv[r] = append(byRecv[r], ref{list, i})
				}
			case *ast.DeferStmt:
				if r, ok := isLockCall(s.Call); ok {
					byRecv[r] = append(byRecv[r], ref{list, i})
				}
			}
		}
	}
	ast.Inspect(fn.Body, func(n ast.Node) bool {
		switch x := n.(type) {
		case *ast.BlockStmt:
			walk(&x.List)
		case *ast.CaseClause:
			walk(&x.Body)
		case *ast.CommClause:
			walk(&x.Body)
		}
		return true
	})
	for r, refs := range byRecv {
		if len(refs) < 2 {
			continue
		}
		refs := refs
		add(fn.Pos(), "del-lockpair", fmt.Sprintf("drop all Lock/Unlock on %s in func %s", r, fn.Name.Name), func() func() {
			olds := make([]ast.Stmt, len(refs))
			for k, rf := range refs {
				olds[k] = (*rf.list)[rf.i]
				(*rf.list)[rf.i] = &ast.EmptyStmt{Semicolon: olds[k].Pos()}
			}
			return func() {
				for k, rf := range refs {
					(*rf.list)[rf.i] = olds[k]
				}
			}
		})
	}
}
