module mut

go 1.23
