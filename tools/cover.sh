#!/bin/bash
# tools/cover.sh <ID> [tier]: which statements of the property's anchor files does the check's workload actually execute?
# A measuring aid, not a check: builds a coverage-instrumented copy of the property's vh binary and of the CLI (fixed flags:
# -cover -coverpkg=rare/...), runs every shard of the tier once with GOCOVERDIR set, and prints, per anchor file, the
# percentage of statements reached and the line ranges never reached. Results go to .work/cover/<ID>/; nothing is written
# to evidence/ or replays/. Runtime monitoring says nothing about code the workload never drives; this shows where that is.
set -e
cd "$(dirname "$0")/.."
id=$1; tier=${2:-quick}
export GOFLAGS=-mod=mod GOPROXY=off GOSUMDB=off GOTOOLCHAIN=local
w=$PWD/.work/cover/$id; rm -rf "$w"; mkdir -p "$w/bin" "$w/cov" "$w/out"
mine=prop_$(echo "$id" | tr A-Z a-z).go
python3 - "$w/ovl.json" "$mine" <<'E'
import glob, json, os, sys
h = os.path.join(os.getcwd(), "harness", "cmd", "vh")
json.dump({"Replace": {f: "" for f in glob.glob(h + "/prop_c*.go") if os.path.basename(f) != sys.argv[2]}}, open(sys.argv[1], "w"))
E
(cd harness && go build -tags verif -cover -coverpkg=verifharness/cmd/vh,rare/... -overlay="$w/ovl.json" -o "$w/bin/vh" ./cmd/vh)
(cd /repo && go build -tags verif -cover -coverpkg=rare/... -o "$w/bin/rare" .)
export GOCOVERDIR=$w/cov
for s in 0 1 2 3 4 5 6 7; do
  ( cd "$w/out" && timeout -s QUIT 1500 "$w/bin/vh" "$id" --tier "$tier" --seed "${VERIF_SEED:-1}" --shard $s/8 --out "$w/out" --flavour plain \
      --known "$PWD/../../../../known_findings.json" --rare "$w/bin/rare" --rare-race "$w/bin/rare" >"$w/out/s$s.out" 2>"$w/out/s$s.err" ) &
done
wait
go tool covdata textfmt -i="$w/cov" -o "$w/profile.txt"
python3 - "$id" "$w/profile.txt" <<'E'
import collections, json, sys
pid, prof = sys.argv[1], sys.argv[2]
anch = [json.loads(l) for l in open("properties.jsonl") if json.loads(l)["id"] == pid][0]["anchors"]["files"]
blocks = collections.defaultdict(dict)
for l in open(prof):
    if l.startswith("mode:"): continue
    loc, n, c = l.rsplit(" ", 2)
    f, rng = loc.split(":")
    f = f.replace("rare/", "", 1)
    k = rng
    blocks[f][k] = (int(n), max(int(c), blocks[f].get(k, (0, 0))[1]))
for f in anch:
    b = blocks.get(f)
    if not b:
        print("%-55s (no statements / not Go)" % f); continue
    tot = sum(n for n, c in b.values()); hit = sum(n for n, c in b.values() if c)
    miss = sorted((int(k.split(".")[0]), int(k.split(",")[1].split(".")[0])) for k, (n, c) in b.items() if not c)
    print("%-55s %5.1f%%  unreached: %s" % (f, 100.0 * hit / max(tot, 1), " ".join("%d-%d" % m if m[0] != m[1] else str(m[0]) for m in miss)))
E
[ -n "$KEEP" ] || rm -rf "$w/bin" "$w/cov" "$w/out"
