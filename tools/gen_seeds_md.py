#!/usr/bin/env python3
import json, glob, os
print("| seed | property | what was changed | needs, to manifest | result |")
print("|---|---|---|---|---|")
for d in sorted(glob.glob('/verif/seeded/*')):
    m = json.load(open(os.path.join(d, 'meta.json')))
    c = m.get('confirmed_by_lead', {})
    def cut(s, n): 
        s = (s or '').replace('|', '\\|').replace('\n', ' ')
        return s if len(s) <= n else s[:n-1] + '…'
    print("| %s | %s | %s | %s | %s: %s |" % (os.path.basename(d), m.get('property'), cut(m.get('title') or m.get('what_changed'), 140), cut(m.get('needs_to_manifest'), 200), c.get('check_result'), cut(c.get('detail'), 260)))
