#!/bin/bash
# tools/seedbatch.sh <ID> <round dir e.g. /tmp/advout/C13r3> [worktree]: seedcheck every k in the round dir
id=$1; d=$2; wt=${3:-/tmp/wtseed-$id}
for k in $(ls "$d" | grep -E '^[0-9]+$'); do bash /verif/tools/seedcheck.sh "$d/$k" "$id" quick "$wt"; done
git -C /repo worktree remove --force "$wt" 2>/dev/null
