#!/usr/bin/env python3
"""Thin orchestrator: build vh (+ rare) from /repo's working tree, fan out shard
children, merge their results, classify crashes/hangs by isolated re-run, count
race reports, write evidence/<ID>.json and replays, print the verdict lines.

Exit codes: 0 held on what was observed; 1 violation (VIOLATION line printed);
2 inconclusive or build failure (never a VIOLATION line).
"""
import fcntl, hashlib, json, os, re, shutil, subprocess, sys, time
from concurrent.futures import ThreadPoolExecutor

VERIF = os.path.dirname(os.path.dirname(os.path.abspath(__file__)))
REPO = os.environ.get("VERIF_REPO", "/repo")
BUILD = os.path.join(VERIF, ".build")
WORK = os.path.join(VERIF, ".work")
HARNESS = os.path.join(VERIF, "harness")
# Mutation testing: VERIF_OVERLAY=<json file {"Replace": {"/repo/pkg/x.go": "/scratch/mutant.go"}}> builds the harness and the CLI
# against /repo with those files replaced (go build -overlay), in a build directory of its own; evidence and replays of
# such runs (and of VERIF_REPO runs) go to .work/alt-results/, never to evidence/ or replays/.
OVERLAY = os.environ.get("VERIF_OVERLAY")
ALT = bool(OVERLAY) or os.path.realpath(REPO) != "/repo"

ENV = dict(os.environ)
ENV.update({"GOFLAGS": "-mod=mod", "GOPROXY": "off", "GOSUMDB": "off", "GOTOOLCHAIN": "local",
            "CGO_ENABLED": ENV.get("CGO_ENABLED", "1")})

# Per-property plan. flavours: list of (flavour, shards, parallel) per tier.
# 'cli' means the rare binary is needed; 'cli_race' the race-instrumented one too.
def plan(pid, tier):
    P = {
        "C01": dict(quick=[("plain", 8, 8)], thorough=[("plain", 16, 16), ("race", 8, 8)], cli=True),
        "C02": dict(quick=[("plain", 8, 8)], thorough=[("plain", 16, 16), ("race", 8, 8), ("asan", 4, 4)], cli=True),
        "C03": dict(quick=[("plain", 8, 8)], thorough=[("plain", 16, 16)], cli=True),
        "C04": dict(quick=[("plain", 8, 8)], thorough=[("plain", 16, 16)]),
        "C05": dict(quick=[("race", 8, 8)], thorough=[("race", 16, 16)], cli=True, cli_race=True),
        "C06": dict(quick=[("plain", 8, 8)], thorough=[("plain", 16, 16)], cli=True),
        "C07": dict(quick=[("plain", 8, 8)], thorough=[("plain", 16, 16)]),
        "C08": dict(quick=[("plain", 8, 8)], thorough=[("plain", 16, 16)], cli=True, vmem_kb=6 * 1024 * 1024),
        "C09": dict(quick=[("plain", 8, 8)], thorough=[("plain", 16, 16)], cli=True),
        "C10": dict(quick=[("plain", 8, 8)], thorough=[("plain", 16, 16), ("race", 4, 4)], cli=True),
        "C11": dict(quick=[("plain", 8, 8)], thorough=[("plain", 16, 16)]),
        "C12": dict(quick=[("plain", 8, 8)], thorough=[("plain", 16, 16), ("asan", 4, 4)], cli=True),
        "C13": dict(quick=[("plain", 8, 8)], thorough=[("plain", 16, 16)], cli=True),
        "C14": dict(quick=[("plain", 8, 8)], thorough=[("plain", 16, 16)], cli=True),
        "C15": dict(quick=[("plain", 8, 4)], thorough=[("plain", 16, 6), ("race", 4, 4)], cli=True),
        "C16": dict(quick=[("plain", 8, 8)], thorough=[("plain", 16, 16), ("race", 4, 4)], cli=True),
        "C17": dict(quick=[("plain", 8, 8)], thorough=[("plain", 16, 16), ("race", 4, 4)]),
        "C18": dict(quick=[("plain", 8, 8)], thorough=[("plain", 16, 16)]),
        "C19": dict(quick=[("plain", 8, 8)], thorough=[("plain", 16, 16)]),
        "C20": dict(quick=[("plain", 8, 8)], thorough=[("plain", 16, 16)], cli=True),
    }
    p = P[pid]
    return p[tier], p


def log(*a):
    print(*a, flush=True)


# ------------------------------------------------------------------ build

def sh(cmd, cwd, env=None, timeout=1800):
    return subprocess.run(cmd, cwd=cwd, env=env or ENV, stdout=subprocess.PIPE, stderr=subprocess.STDOUT,
                          timeout=timeout, text=True)


def build(pid, flavours, need_cli, need_cli_race):
    global BUILD
    modfile = []
    if os.path.realpath(REPO) != "/repo":
        # mutant testing: build against another checkout without touching /repo or harness/go.mod
        tagdir = hashlib.sha256(os.path.realpath(REPO).encode()).hexdigest()[:10]
        BUILD = os.path.join(VERIF, ".build", "alt-" + tagdir)
        os.makedirs(BUILD, exist_ok=True)
        gm = open(os.path.join(HARNESS, "go.mod")).read().replace("replace rare => /repo", "replace rare => " + os.path.realpath(REPO))
        open(os.path.join(BUILD, "go.mod"), "w").write(gm)
        shutil.copy(os.path.join(HARNESS, "go.sum"), os.path.join(BUILD, "go.sum"))
        modfile = ["-modfile=" + os.path.join(BUILD, "go.mod")]
    extra_overlay = {}
    if OVERLAY:
        BUILD = os.path.join(VERIF, ".build", "ovl-" + hashlib.sha256(os.path.realpath(OVERLAY).encode()).hexdigest()[:12])
        extra_overlay = json.load(open(OVERLAY)).get("Replace", {})
    os.makedirs(BUILD, exist_ok=True)
    lock = open(os.path.join(BUILD, "lock"), "w")
    fcntl.flock(lock, fcntl.LOCK_EX)
    try:
        tag = "%d" % os.getpid()
        outs = {}
        jobs = []
        # one binary per property: every other cmd/vh/prop_c*.go is hidden through a build
        # overlay, so a property package that does not compile cannot break another check
        import glob
        mine = "prop_" + pid.lower() + ".go"
        overlay = {f: "" for f in glob.glob(os.path.join(HARNESS, "cmd", "vh", "prop_c*.go")) if os.path.basename(f) != mine}
        ovl = os.path.join(BUILD, "overlay-%s-%s.json" % (pid, tag))
        overlay.update(extra_overlay)
        json.dump({"Replace": overlay}, open(ovl, "w"))
        climod = ["-overlay=" + os.path.realpath(OVERLAY)] if OVERLAY else []
        modfile = modfile + ["-overlay=" + ovl]
        for fl in sorted(set(flavours)):
            flag = {"plain": [], "race": ["-race"], "asan": ["-asan"]}[fl]
            dst = os.path.join(BUILD, "vh-" + fl + "-" + pid)
            jobs.append((["go", "build", "-tags", "verif"] + modfile + flag + ["-o", dst + "." + tag, "./cmd/vh"], HARNESS, dst))
            outs["vh-" + fl] = dst
        if need_cli:
            dst = os.path.join(BUILD, "rare")
            jobs.append((["go", "build", "-tags", "verif"] + climod + ["-o", dst + "." + tag, "."], REPO, dst))
            outs["rare"] = dst
        if need_cli_race:
            dst = os.path.join(BUILD, "rare-race")
            jobs.append((["go", "build", "-tags", "verif", "-race"] + climod + ["-o", dst + "." + tag, "."], REPO, dst))
            outs["rare-race"] = dst
        with ThreadPoolExecutor(max_workers=4) as ex:
            results = list(ex.map(lambda j: (j, sh(j[0], j[1])), jobs))
        for (cmd, cwd, dst), r in results:
            if r.returncode != 0:
                log("BUILD-FAILED", " ".join(cmd))
                log(r.stdout[-4000:])
                return None
            os.replace(dst + "." + tag, dst)
        try:
            os.remove(ovl)
        except OSError:
            pass
        return outs
    finally:
        fcntl.flock(lock, fcntl.LOCK_UN)
        lock.close()


# ------------------------------------------------------------------ shards

def run_child(vh, pid, tier, seed, shard, shards, out, flavour, bins, timeout_s, vmem_kb=None, replay=None, name=None):
    name = name or ("%s-%d" % (flavour, shard))
    cmd = [vh, pid, "--tier", tier, "--seed", str(seed), "--shard", "%d/%d" % (shard, shards),
           "--out", out, "--flavour", flavour, "--known", os.path.join(VERIF, "known_findings.json")]
    if "rare" in bins:
        cmd += ["--rare", bins["rare"]]
    if "rare-race" in bins:
        cmd += ["--rare-race", bins["rare-race"]]
    if replay:
        cmd += ["--replay", replay]
    env = dict(ENV)
    env["VERIF_SEED"] = str(seed)
    if flavour == "race":
        env["GORACE"] = "halt_on_error=0 log_path=%s/racelog history_size=3" % out
    if flavour == "asan":
        env["ASAN_OPTIONS"] = "halt_on_error=1:abort_on_error=0:detect_leaks=0:log_path=%s/asanlog" % out
    full = ["timeout", "-s", "QUIT", "-k", "20", str(timeout_s)] + cmd
    if vmem_kb:
        full = ["bash", "-c", "ulimit -v %d; exec \"$@\"" % vmem_kb, "bash"] + full
    so = open(os.path.join(out, name + ".out"), "w")
    se = open(os.path.join(out, name + ".err"), "w")
    t0 = time.time()
    rc = subprocess.call(full, cwd=out, env=env, stdout=so, stderr=se)
    so.close(); se.close()
    return rc, time.time() - t0


def tail(path, n=60):
    try:
        with open(path, errors="replace") as f:
            return "".join(f.readlines()[-n:])
    except OSError:
        return ""


def last_journal_case(out, shard):
    p = os.path.join(out, "journal-%d.jsonl" % shard)
    last = None
    try:
        with open(p, errors="replace") as f:
            for line in f:
                if line.strip():
                    last = line
    except OSError:
        return None
    if last is None:
        return None
    try:
        return json.loads(last)
    except ValueError:
        return None


RACE_RE = re.compile(r"^WARNING: DATA RACE", re.M)


def parse_race_logs(out):
    """Return list of (fingerprint, text) for de-duplicated race blocks that have a rare/ frame."""
    blocks = []
    for fn in sorted(os.listdir(out)):
        if not fn.startswith("racelog"):
            continue
        txt = open(os.path.join(out, fn), errors="replace").read()
        parts = txt.split("==================")
        for p in parts:
            if "WARNING: DATA RACE" in p:
                blocks.append(p)
    seen = {}
    total = 0
    for b in blocks:
        total += 1
        # split into access stanzas; take the outermost-most rare/ frame pair: first rare frame of each of the two accesses
        stanzas = re.split(r"\n\n", b.strip())
        tops = []
        for st in stanzas[:2]:
            fr = None
            for m in re.finditer(r"^\s+(\S+)\(\)\n\s+(\S+):(\d+)", st, re.M):
                fn_, file_ = m.group(1), m.group(2)
                if file_.startswith(REPO + "/") or fn_.startswith("rare/"):
                    fr = re.sub(r"\.func\d+(\.\d+)*$", "", fn_)
                    break
            tops.append(fr)
        if not any(tops):
            continue  # no rare frame in the two accesses: harness/runtime-internal, not judged
        fp = "race:" + "|".join(sorted(t or "?" for t in tops))
        if fp not in seen:
            seen[fp] = b.strip()[:6000]
    return total, seen


def main():
    args = sys.argv[1:]
    if len(args) < 2:
        log("usage: orchestrate.py <ID> quick|thorough | <ID> --replay <path>")
        return 2
    pid = args[0]
    replay = None
    if args[1] == "--replay":
        replay = os.path.abspath(args[2])
        tier = "quick"
        try:
            tier = json.load(open(replay)).get("tier", "quick")
        except Exception:
            pass
    else:
        tier = args[1]
    if not replay and os.environ.get("VERIF_TIER") in ("quick", "thorough"):
        tier = os.environ["VERIF_TIER"]
    tier = os.environ.get("VERIF_TIER_OVERRIDE", tier)
    seed = int(os.environ.get("VERIF_SEED", "1") or "1")
    t_start = time.time()
    flav, p = plan(pid, tier)
    if replay:
        fl = "plain"
        try:
            fl = json.load(open(replay)).get("flavour", "plain")
        except Exception:
            pass
        flav = [(fl, 1, 1)]
    bins = build(pid, [f for f, _, _ in flav], p.get("cli", False), p.get("cli_race", False))
    if bins is None:
        return 2
    os.makedirs(WORK, exist_ok=True)
    out_root = os.path.join(WORK, "%s-%s-%d-%d" % (pid, tier, os.getpid(), int(time.time())))
    os.makedirs(out_root)
    child_timeout = int(os.environ.get("VERIF_CHILD_TIMEOUT", "1500" if tier == "quick" else "7200"))

    merged = dict(evaluations=0, nontrivial=set(), samples=[], counters={}, sets={}, violations=[], known=[],
                  inconclusive=[], notes=[], flavours=[], race_blocks=0, shards=0)
    try:
        for flavour, shards, par in flav:
            out = os.path.join(out_root, flavour)
            os.makedirs(out)
            vh = bins["vh-" + flavour]
            merged["flavours"].append(flavour)
            if replay:
                jobs = [(0, 1)]
            else:
                jobs = [(i, shards) for i in range(shards)]
            def one(j):
                return j, run_child(vh, pid, tier, seed, j[0], j[1], out, flavour, bins, child_timeout,
                                    p.get("vmem_kb"), replay)
            with ThreadPoolExecutor(max_workers=par) as ex:
                rcs = list(ex.map(one, jobs))
            for (shard, nsh), (rc, dur) in rcs:
                merged["shards"] += 1
                res = None
                rp = os.path.join(out, "result-%d.json" % shard)
                if os.path.exists(rp):
                    try:
                        res = json.load(open(rp))
                    except ValueError:
                        res = None
                if res:
                    merge(merged, res)
                completed = bool(res and res.get("completed"))
                if completed and rc == 0:
                    continue
                if completed and rc != 0 and flavour == "race" and rc == 66:
                    continue  # race detector exit code; blocks are counted from the logs
                # the child died: classify by isolated re-run of the last journalled case
                errtail = tail(os.path.join(out, "%s-%d.err" % (flavour, shard)), 80)
                if rc == 97:
                    kind = "hang"
                    cs = None
                    try:
                        cs = json.load(open(os.path.join(out, "hangcase-%d.json" % shard)))["case"]
                    except Exception:
                        cs = last_journal_case(out, shard)
                elif rc == 124 or rc == 137:
                    kind = "timeout"
                    cs = last_journal_case(out, shard)
                else:
                    kind = "crash"
                    cs = last_journal_case(out, shard)
                if cs is None:
                    merged["inconclusive"].append("%s shard %d ended rc=%d with no journalled case: %s" % (flavour, shard, rc, errtail[-400:]))
                    continue
                if replay:
                    repro = True  # we are already the isolated re-run
                    rtail = errtail
                else:
                    rdir = os.path.join(out, "repro-%d" % shard)
                    os.makedirs(rdir)
                    rfile = os.path.join(rdir, "case.json")
                    json.dump({"case": cs}, open(rfile, "w"))
                    rrc, _ = run_child(vh, pid, tier, seed, 0, 1, rdir, flavour, bins, 300, p.get("vmem_kb"), rfile, name="repro")
                    rres = None
                    try:
                        rres = json.load(open(os.path.join(rdir, "result-0.json")))
                    except Exception:
                        pass
                    if rres:
                        merge(merged, rres, count=False)
                    rtail = tail(os.path.join(rdir, "repro.err"), 80)
                    if kind == "hang" or kind == "timeout":
                        repro = rrc in (97, 124, 137)
                    else:
                        repro = rrc != 0 and not (rres and rres.get("completed"))
                if repro:
                    what = {"hang": "non-termination", "timeout": "non-termination (child timeout)", "crash": "fatal crash"}[kind]
                    first = ""
                    for ln in rtail.splitlines():
                        if ln.startswith("panic:") or ln.startswith("fatal error:") or "ERROR: AddressSanitizer" in ln:
                            first = ln.strip()
                            break
                    fp = "%s:%s" % (kind, hashlib.sha256(json.dumps(cs, sort_keys=True).encode()).hexdigest()[:12])
                    merged["violations"].append(dict(fingerprint=fp, message="%s reproduced in an isolated child: %s" % (what, first),
                                                     case=cs, stderr_tail=rtail[-3000:], flavour=flavour))
                else:
                    merged["inconclusive"].append("%s shard %d: %s (rc=%d) did not reproduce in isolation" % (flavour, shard, kind, rc))
            if flavour == "race":
                total, seen = parse_race_logs(out)
                for sub in os.listdir(out):
                    if sub.startswith("repro-"):
                        t2, s2 = parse_race_logs(os.path.join(out, sub))
                        total += t2
                        seen.update(s2)
                merged["race_blocks"] += total
                known = load_known(pid)
                for fp, text in sorted(seen.items()):
                    k = [x for x in known if x.get("status") == "known" and x.get("fingerprint") == fp]
                    if k:
                        merged["known"].append(dict(fingerprint=fp, known=k[0].get("what", ""), message="race report", case=None))
                    else:
                        merged["violations"].append(dict(fingerprint=fp, message="Go race detector report with a rare/ frame",
                                                         case={"race_report": text}, flavour="race"))
        return finish(pid, tier, seed, merged, t_start, replay)
    finally:
        if os.environ.get("VERIF_KEEP_WORK") != "1":
            shutil.rmtree(out_root, ignore_errors=True)


def load_known(pid):
    import glob
    out = []
    for f in [os.path.join(VERIF, "known_findings.json")] + sorted(glob.glob(os.path.join(VERIF, "known.d", "*.json"))):
        try:
            out += [k for k in json.load(open(f)) if k.get("property") == pid]
        except Exception:
            pass
    return out


def merge(m, res, count=True):
    if count:
        m["evaluations"] += res.get("evaluations", 0)
    m["nontrivial"].update(res.get("nontrivial") or [])
    for s in res.get("samples") or []:
        if len(m["samples"]) < 8:
            m["samples"].append(s)
    for k, v in (res.get("counters") or {}).items():
        if k.startswith("max_"):
            m["counters"][k] = max(m["counters"].get(k, 0), v)
        elif k.startswith("min_"):
            m["counters"][k] = min(m["counters"].get(k, v), v)
        else:
            m["counters"][k] = m["counters"].get(k, 0) + v
    for k, v in (res.get("sets") or {}).items():
        m["sets"].setdefault(k, set()).update(v)
    for v in res.get("violations") or []:
        if not any(e["fingerprint"] == v["fingerprint"] for e in m["violations"]):
            v["flavour"] = res.get("flavour", "plain")
            m["violations"].append(v)
    for v in res.get("known_hits") or []:
        if not any(e["fingerprint"] == v["fingerprint"] for e in m["known"]):
            m["known"].append(v)
    m["inconclusive"].extend(res.get("inconclusive") or [])
    for n in res.get("notes") or []:
        if n not in m["notes"] and len(m["notes"]) < 40:
            m["notes"].append(n)


RULES = {}


def finish(pid, tier, seed, m, t_start, replay):
    meta = {}
    try:
        meta = json.load(open(os.path.join(VERIF, "tools", "rules.json"))).get(pid, {})
    except Exception:
        pass
    viol = m["violations"][:12]
    resdir = VERIF
    if ALT and not os.environ.get("VERIF_ALT_WRITES_EVIDENCE"):
        resdir = os.path.join(WORK, "alt-results")
    os.makedirs(os.path.join(resdir, "replays"), exist_ok=True)
    lines = []
    for v in viol:
        h = hashlib.sha256(v["fingerprint"].encode()).hexdigest()[:10]
        path = os.path.join(resdir, "replays", "%s-%s.json" % (pid, h))
        json.dump(dict(property=pid, tier=tier, seed=seed, fingerprint=v["fingerprint"], message=v["message"],
                       flavour=v.get("flavour", "plain"), case=v.get("case"), stderr_tail=v.get("stderr_tail")),
                  open(path, "w"), indent=1, default=str)
        lines.append((v, path))
    # thresholds: a check that watched nothing must not say "held"
    mins = meta.get("min_counters", {})
    if not replay:
        for k, need in mins.items():
            need = need.get(tier, 0) if isinstance(need, dict) else need
            got = m["counters"].get(k, 0)
            if k.startswith("set:"):
                got = len(m["sets"].get(k[4:], ()))
            if got < need:
                m["inconclusive"].append("observed-too-little: %s=%d < %d" % (k, got, need))
    distinct = len(m["nontrivial"])
    if not replay:
        cov = dict(evaluations=max(m["evaluations"], 0), distinct_nontrivial=distinct,
                   rule=meta.get("rule", "see DESIGN.md section 4 for this property"),
                   samples=m["samples"] or ["(no sample recorded)"],
                   counters=m["counters"],
                   distinct_sets={k: len(v) for k, v in m["sets"].items()},
                   sanitizer_flavours=m["flavours"], race_report_blocks=m["race_blocks"],
                   shards=m["shards"], inconclusive=m["inconclusive"][:20],
                   known_findings=[k["fingerprint"] for k in m["known"]],
                   notes=m["notes"])
        ev = dict(property_id=pid, tier=tier, seed=seed, level="exploration", coverage=cov,
                  assumptions=meta.get("assumptions", []), wall_s=round(time.time() - t_start, 2), violations=len(viol))
        os.makedirs(os.path.join(resdir, "evidence"), exist_ok=True)
        tmp = os.path.join(resdir, "evidence", ".%s.json.%d" % (pid, os.getpid()))
        json.dump(ev, open(tmp, "w"), indent=1, default=str)
        os.replace(tmp, os.path.join(resdir, "evidence", "%s.json" % pid))
    for k in m["known"]:
        log("KNOWN-FINDING: property=%s %s [%s]" % (pid, k.get("known") or k.get("message"), k["fingerprint"]))
    log("%s %s seed=%d: %d evaluations, %d distinct non-trivial, %d shards, flavours=%s, race blocks=%d, %.1fs" % (
        pid, tier, seed, m["evaluations"], distinct, m["shards"], ",".join(m["flavours"]), m["race_blocks"], time.time() - t_start))
    keys = sorted(m["counters"])
    if keys:
        log("  observed: " + ", ".join("%s=%d" % (k, m["counters"][k]) for k in keys))
    if m["sets"]:
        log("  distinct: " + ", ".join("%s=%d" % (k, len(v)) for k, v in sorted(m["sets"].items())))
    if viol:
        for v, path in lines:
            log("  violation: %s :: %s" % (v["fingerprint"], (v["message"] or "")[:600]))
            log("VIOLATION property=%s replay=%s" % (pid, path))
        return 1
    if m["inconclusive"]:
        for r in m["inconclusive"][:10]:
            log("INCONCLUSIVE %s" % r)
        return 2
    if not replay and (m["evaluations"] < 1 or distinct < 2):
        log("INCONCLUSIVE observed-too-little: evaluations=%d distinct=%d" % (m["evaluations"], distinct))
        return 2
    log("HELD property=%s on everything explored" % pid)
    return 0


if __name__ == "__main__":
    sys.exit(main())
