#!/bin/bash
# tools/seedregress.sh [seed ids...]: apply every kept seed to a scratch worktree and run its property's quick check
# against it (VERIF_REPO); prints one line per seed. A seed recorded as caught must make the check exit 1.
cd "$(dirname "$0")/.." || exit 2
export GOFLAGS=-mod=mod GOPROXY=off GOSUMDB=off GOTOOLCHAIN=local
wt=/tmp/wtreg.$$
git -C /repo worktree add -q --detach "$wt" HEAD || exit 3
seeds="$@"; [ -z "$seeds" ] && seeds=$(ls seeded)
ok=0; bad=0
for s in $seeds; do
  id=${s%%-*}
  want=$(python3 -c "import json;print(json.load(open('seeded/$s/meta.json'))['confirmed_by_lead']['check_result'])")
  git -C "$wt" checkout -q -- .; git -C "$wt" clean -fdq
  git -C "$wt" apply "$PWD/seeded/$s/patch.diff" || { echo "$s APPLY-FAILED"; bad=$((bad+1)); continue; }
  out=$(VERIF_REPO=$wt timeout 3000 ./check $id quick 2>&1); rc=$?
  v=$(echo "$out" | grep -c '^VIOLATION')
  if [ "$want" = caught ] && [ $rc -ne 1 ]; then echo "$s REGRESSION want=caught rc=$rc"; bad=$((bad+1));
  else echo "$s want=$want rc=$rc violations=$v"; ok=$((ok+1)); fi
done
git -C /repo worktree remove --force "$wt"
rm -rf .build/alt-*
echo "seedregress: $ok as recorded, $bad not"
[ $bad -eq 0 ]
