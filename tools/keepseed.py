#!/usr/bin/env python3
"""keepseed.py <adv out dir/k> <seed id e.g. C04-1> <check result: caught|missed> <detail...>
Copies a confirmed seeded change into /verif/seeded/<seed id>/ and records what was run."""
import json, os, shutil, sys
src, sid, result = sys.argv[1], sys.argv[2], sys.argv[3]
detail = " ".join(sys.argv[4:])
dst = os.path.join("/verif/seeded", sid)
shutil.rmtree(dst, ignore_errors=True)
os.makedirs(dst)
shutil.copy(os.path.join(src, "patch.diff"), dst)
shutil.copytree(os.path.join(src, "demo"), os.path.join(dst, "demo"))
meta = json.load(open(os.path.join(src, "meta.json")))
pid = sid.split("-")[0]
meta["property"] = pid
meta["breaks_property"] = pid
meta["confirmed_by_lead"] = {
    "ran": ["tools/seedcheck.sh %s %s  (scratch worktree of /repo HEAD: demo passes unpatched; git apply patch.diff; go build ./...; go test -vet=off -count=1 ./... (only TestTryWriteCSV fails, as on the unchanged tree); demo fails patched; VERIF_REPO=<worktree> ./check %s quick)" % (src, pid, pid)],
    "check_result": result, "detail": detail}
json.dump(meta, open(os.path.join(dst, "meta.json"), "w"), indent=1)
print("kept", dst)
