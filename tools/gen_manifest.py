#!/usr/bin/env python3
"""Writes MANIFEST.json and tools/rules.json from one table. A property is claimed
only when its id is in BUILT (its check exists, is silent on the unchanged tree
and fired on seeded breaks)."""
import json, os, subprocess, sys

VERIF = os.path.dirname(os.path.dirname(os.path.abspath(__file__)))
BUILT = [l.strip() for l in open(os.path.join(VERIF, "tools", "built.txt")) if l.strip() and not l.startswith("#")]

T = {
 "C01": dict(
  technique="runtime monitoring: exactly-once / conservation oracle over self-identifying lines + sequential reference, across config lattice and delay schedules; Go race detector in thorough",
  text="Runs the real batchers+extractor (in process and as the CLI) on generated corpora whose lines carry their own id and class; an exactly-once multiset oracle, the three counters, BatchStart continuity and a sequential one-line-at-a-time reference decide every run. Held = on the executions observed (configs, chunkings, interleaving signatures listed in evidence).",
  note="Trusts Go regexp and the harness' 12-line reference splitter; interleavings are those the scheduler and injected delays produced.",
  rule="case = (corpus, matcher/extract/ignore, batch, workers, readers, buffer, delay profile, reader chunking); non-trivial when the corpus has >=2 classes of lines and >=2 batches; distinct by hash of all of these",
  mins={"batches_observed": {"quick": 500, "thorough": 5000}}),
 "C02": dict(
  technique="runtime monitoring: hold-and-recheck snapshot monitor on no-copy views + reference captures (Go regexp / reference dissect); checkptr via -race and ASan in thorough",
  text="Every emitted Match is held until the channel is drained (GC forced, garbage allocated), then source, line number, text and every capture are compared with line ids and with the leftmost match of an independent matcher; order checked for 1 reader x 1 worker; CLI filter output compared byte-wise after SGR stripping.",
  note="Trusts Go regexp as the reference for leftmost-match semantics; PCRE2 build not covered (tag off).",
  rule="case = (corpus incl. lines >128KiB, matcher kind+pattern, config, consumer hold mode, time-flush pauses); non-trivial when >=1 match with >=2 groups was held across a later buffer regrowth or batch; distinct by hash",
  mins={"matches_held": {"quick": 2000, "thorough": 20000}}),
 "C03": dict(
  technique="runtime monitoring: differential CLI runs (reference aggregation by construction + metamorphic identity across tuning flags/GOMAXPROCS/file division/arrival timing of piped input), CSV parsed back with encoding/csv",
  text="The real binary is run 7+ ways per generated corpus; CSV, snapshot and exit status must equal the harness' independently computed aggregation and be identical across variants.",
  note="Status footer line (rate, file counter) is cut before comparison; analyze compared numerically when order can vary.",
  rule="case = (aggregator command, corpus with hostile keys, variant set); non-trivial when the corpus has >=2 keys and >=2 variants ran; distinct by hash of command+corpus",
  mins={"cli_runs": {"quick": 100, "thorough": 1000}}),
 "C04": dict(
  technique="runtime monitoring: scripted hostile io.Reader + independent splitter oracle + snapshot-stability monitor on every returned slice; dense small box enumerated completely, random beyond",
  text="Both scanners run against every string of length <=5 (7 thorough) over {a,LF,CR} x every chunking x buffer sizes 1..8 x every terminal result position, and against random streams up to 512 KiB with stalls and (n>0,err) reads; token sequence, error-callback count and byte-stability of every handed-out slice are judged per run.",
  note="Trusts the 12-line reference splitter; a reader that returns (0,nil) forever is outside the property.",
  rule="case = (stream bytes, Read() partition incl. stalls and terminal error, buffer size, scanner kind); non-trivial when the stream contains a newline and is delivered in >=2 reads; distinct by hash of the whole tuple",
  mins={"tokens_checked": {"quick": 100000, "thorough": 1000000}, "error_cases": {"quick": 1000, "thorough": 10000}}),
 "C05": dict(
  technique="Go race detector on harness and CLI builds under stretched schedules + sample/render exclusion monitor + offline event-log checker (ordering, completeness, monotone snapshots) + termination watchdog + porcupine on the object pool",
  text="The race-instrumented pipeline and CLI run with many readers/workers for several render ticks with delays injected at hook points between critical sections; a CAS-based monitor wraps Aggregator.Sample and the render callback; the recorded event log is checked offline; histories of the object pool are checked for linearizability.",
  note="A clean race-detector run means no race on these runs. Termination is decided as bounded progress after end of input.",
  rule="case = (pipeline config, corpus, delay schedule / CLI command); non-trivial when >=1 intermediate render had samples before and after it; distinct by hash of config+schedule+observed interleaving signature",
  mins={"intermediate_renders_between_samples": {"quick": 20, "thorough": 200}}),
 "C06": dict(
  technique="runtime monitoring: CLI runs over generated directory trees and argument vectors with injected single-input faults (missing, EISDIR, truncated/corrupt gzip, strace read-error injection in both tiers, unopenable followed paths); mention-count multiset and exit-status oracle",
  text="The real binary reads generated trees through every argument form; output lines name their source and line, so once-per-mention, faithful decoding, isolation of a failing input and the exit-status function are decided per run.",
  note="Permission faults cannot be produced (root); compress/gzip is trusted for the prefix a damaged member yields.",
  rule="case = (tree, argument vector, flags, fault); non-trivial when >=2 inputs are read and (a fault is present or a non-literal argument form is used); distinct by hash",
  mins={"cli_runs": {"quick": 100, "thorough": 1000}}),
 "C07": dict(
  technique="runtime monitoring: reference fold compared after every prefix of generated sample histories; permutation invariance; trim predicates",
  text="Aggregators are driven with every history up to length 4 (5 thorough) over a tiny hostile alphabet and random histories up to 5000 samples; every public accessor is compared with a naive fold after every prefix.",
  note="Numerical comparisons use big.Float two-pass reference with 1e-9 relative tolerance.",
  rule="case = (aggregator, sample history, permutation / trim predicate); non-trivial when the history has >=2 samples and >=2 distinct keys or increments; distinct by hash",
  mins={"prefix_checks": {"quick": 20000, "thorough": 200000}}),
 "C08": dict(
  technique="runtime monitoring: recover() + journal-before-run + isolated-child crash attribution over function x arity x boundary-value space, nesting and malformed templates",
  text="Every builtin at every arity with boundary arguments (as constants and through groups), nested trees and malformed templates are compiled (optimised and not) and evaluated under recover(); fatal errors are attributed through the on-disk journal and reproduced alone.",
  note="Size-like arguments avoid the band whose only effect is a legitimately huge allocation; children run under ulimit -v.",
  rule="case = (template, optimise flag, context); non-trivial when the template contains >=1 call and compiled; distinct by hash of template+context",
  mins={"evaluated": {"quick": 50000, "thorough": 500000}}),
 "C09": dict(
  technique="runtime monitoring: escape round trip + probe-function tree serialisation oracle over printed syntax variants; error-class oracle on mutations",
  text="Strings over the full rune range are escaped and must evaluate to themselves; expression trees are printed in every admissible layout and evaluated with harness-registered probe functions whose output serialises the tree as parsed; mutated templates must yield the matching compile error.",
  note="Escapes inside braces are not judged (undocumented).",
  rule="case = (string | tree+layout | mutation); non-trivial when the string has >=1 escaped rune or the tree has >=1 call; distinct by template text",
  mins={"templates": {"quick": 20000, "thorough": 200000}}),
 "C10": dict(
  technique="runtime monitoring: differential evaluation optimised vs unoptimised, funcs-file call vs inlined body (tree-level and text-level layouts with escapes and arbitrary continuation points), CLI call vs inline under global flags, concurrent vs sequential (race flavour in thorough), clock keywords bracketed by harness clock readings",
  text="Generated templates over deterministic helpers are compiled both ways and evaluated on the same contexts; generated funcs files are loaded and each call compared with the substituted body; 16 goroutines share one compiled expression.",
  note="The unoptimised / inlined form is the reference; helpers with file-system side effects excluded.",
  rule="case = (template, context) or (funcs file layout, call site, context); non-trivial when the template has >=1 call with a constant sub-expression or the call passes >=1 argument; distinct by hash",
  mins={"comparisons": {"quick": 20000, "thorough": 200000}}),
 "C11": dict(
  technique="runtime monitoring: reference-model / documented-law oracle per helper over boundary-dense argument values, constants and group-supplied",
  text="Each documented helper is evaluated through BuildKey on hundreds to thousands of argument tuples and compared with a law or a small reference written from docs/usage/expressions.md.",
  note="Inputs whose documentation is ambiguous are not judged (listed in DESIGN 4/C11).",
  rule="case = (helper, argument tuple, constant|dynamic); non-trivial when all arguments are present; distinct by rendered template+context",
  mins={"comparisons": {"quick": 20000, "thorough": 200000}}),
 "C12": dict(
  technique="runtime monitoring: reference dissect oracle + ignore-case laws + snapshot stability of returned index slices across pool refills; ASan in thorough",
  text="Generated (pattern, line) pairs are matched by the real dissect and a 40-line reference; returned index slices are held across >3x1024 matches and re-checked.",
  note="Instances are used sequentially (documented as not thread-safe).",
  rule="case = (pattern, ignore-case, line); non-trivial when the pattern has >=1 token and the line matches or nearly matches; distinct by pattern+line",
  mins={"pairs": {"quick": 20000, "thorough": 500000}}),
 "C13": dict(
  technique="runtime monitoring: permutation-invariance and strict-weak-order axiom oracles on the real sorters (fresh and reused), CLI row order on shuffled corpora",
  text="Key sets from hostile pools are sorted from many initial permutations through helpers.BuildSorter; all must agree; axioms over all triples of a pool; semantic reference orders for value/numeric/contextual/date.",
  note="No particular order is demanded among keys the documentation does not rank.",
  rule="case = (sort mode, key/value set, permutation set); non-trivial when the set has >=3 keys; distinct by mode+sorted key set",
  mins={"sorts": {"quick": 5000, "thorough": 50000}}),
 "C14": dict(
  technique="runtime monitoring: structural screen oracles over VirtualTerm output for generated aggregator states, scaler laws over int64 triples, formatter purity/meaning laws (shadow formatter inside renderer cases), end-to-end --format wiring on the CLI, hang evidence by stack sampling",
  text="Renderers are driven with states from sample histories (zero/negative/huge/equal values, hostile keys, limits 0..n) under colour/unicode on/off; output lines are parsed and judged structurally; scaler monotonicity/bounds over dense triples.",
  note="Glyph choice and colours are not judged.",
  rule="case = (renderer, state history, limits, scale, colour/unicode); non-trivial when the state has >=2 keys/cells; distinct by hash",
  mins={"renders": {"quick": 2000, "thorough": 20000}}),
 "C15": dict(
  technique="runtime monitoring: history + executable model (self-describing appended chunks vs delivered stream), bounded-progress watchdog with lost-wake-up evidence (reader level) and structural no-goroutine-left evidence (batch level), delay hooks in the notify/poll loops",
  text="A writer performs generated append/pause/remove/re-create histories against the real follow readers (notify and poll) with slow consumers and injected delays; the delivered byte stream must equal the model at quiescence.",
  note="Eventually = delivered within the watchdog after the history ends; expiry alone is inconclusive.",
  rule="case = (reader kind, reopen, tail, history, consumer/delay schedule); non-trivial when the history has >=2 appends; distinct by hash",
  mins={"histories": {"quick": 60, "thorough": 600}}),
 "C16": dict(
  technique="runtime monitoring: encoding/json validity + faithfulness oracle over generated captures, repeated-evaluation determinism (race flavour in thorough)",
  text="Matches with hostile capture texts go through the real extractor with {.}, {#}, {.#}; output must be one valid JSON object whose members decode to the captures; repeated evaluation must be identical.",
  note="Member order is not judged, only stability.",
  rule="case = (regex with named groups, line); non-trivial when >=1 capture needs escaping or looks numeric/boolean; distinct by line+regex",
  mins={"matches": {"quick": 10000, "thorough": 100000}}),
 "C17": dict(
  technique="runtime monitoring: reference list model over NUL-split BuildKey output; pooled sub-context isolation under concurrent evaluators (race flavour in thorough)",
  text="Generated lists, delimiters, indices and sub-expressions are evaluated by the real helpers and compared with Go-slice references; concurrent evaluators with distinct named keys detect a leaked pooled context.",
  note="Empty list and single empty element are one class (encoding cannot distinguish).",
  rule="case = (helper, list, delimiter/indices/sub-expression); non-trivial when the list has >=2 elements; distinct by template+context",
  mins={"comparisons": {"quick": 20000, "thorough": 200000}}),
 "C18": dict(
  technique="runtime monitoring: Go time package as independent calendar oracle at all month/quarter/year/ISO-week/DST breakpoints x zones; parse-format round trips",
  text="timeformat/timeattr/buckettime/time/duration helpers are evaluated at boundary-dense instants in 7 zones and compared with fields computed from the integer instant.",
  note="Trusts Go's time package and the host tzdata; auto-detected formats not judged.",
  rule="case = (helper, unix second, format/bucket/attr, zone); non-trivial always (each is a distinct calendar query); distinct by tuple",
  mins={"comparisons": {"quick": 50000, "thorough": 500000}}),
 "C19": dict(
  technique="runtime monitoring: independent precedence-climbing evaluator as oracle over all short token sequences and random trees; constant<->variable metamorphic check; recover() for crashes",
  text="Every reference-grammatical token sequence up to 5 (7) tokens and random deeper trees are compiled by stdmath and through {! }, evaluated under 6 bindings and compared bit-wise (NaN-aware) with the reference; malformed formulas must be rejected.",
  note="Shift/bit operators are mixed with other levels only through parentheses (precedence undocumented).",
  rule="case = (formula, binding); non-trivial when the formula has >=1 binary operator; distinct by formula text",
  mins={"formulas": {"quick": 5000, "thorough": 100000}}),
 "C20": dict(
  technique="runtime monitoring: VT100-subset emulator interprets the bytes the real TermWriter wrote; expected screen model; end-to-end on a pty, a pipe and a regular-file sink (both tiers)",
  text="Generated update histories are written through the real TermWriter/BufferedTerm with stdout redirected; the emulator's final screen, cursor position and visibility are compared with the model; width trimming judged on every written line.",
  note="Needs the verif-only VerifSetTermSize hook; emulator is lenient on pending-wrap.",
  rule="case = (width, trim, history of (line,text) updates); non-trivial when >=2 updates hit the same line or a text exceeds the width; distinct by hash",
  mins={"histories": {"quick": 2000, "thorough": 20000}}),
}

checks = []
rules = {}
na = []
for pid in sorted(T):
    t = T[pid]
    rules[pid] = dict(rule=t["rule"], min_counters=t["mins"], assumptions=[t["note"]])
    if pid not in BUILT:
        na.append(dict(property_id=pid, reason="runtime-monitoring check designed (DESIGN.md section 4) but not yet built and validated in this tree; not claimed until it is"))
        continue
    checks.append(dict(
        property_id=pid,
        quick_cmd="./check %s quick" % pid,
        thorough_cmd="./check %s thorough" % pid,
        evidence_file="/verif/evidence/%s.json" % pid,
        replay_cmd_template="./check %s --replay {path}" % pid,
        engine="vh",
        level_claimed=dict(category="exploration", text=t["text"], design_ref="DESIGN.md section 4, " + pid),
        level_note=t["note"],
        technique=t["technique"]))

hooks_commits = subprocess.run(["git", "-C", "/repo", "log", "--format=%H %s"], capture_output=True, text=True).stdout.splitlines()
hook_shas = [l.split()[0] for l in hooks_commits if l.split(" ", 1)[1].startswith("verif:")]

manifest = dict(
    version=1,
    setup_cmd="./setup.sh",
    hooks=dict(guard="verif", enable="go build -tags verif (harness: cd /verif/harness && go build -tags verif ./cmd/vh; CLI: cd /repo && go build -tags verif .)",
               baseline_off_cmd="cd /repo && GOFLAGS=-mod=mod go test -json -vet=off -count=1 -timeout 25m ./...",
               source_commits=hook_shas, add_only=True),
    engines=[dict(name="vh", path="harness/cmd/vh", serves_properties=[c["property_id"] for c in checks],
                  kind_free_text="multi-call Go harness: seeded workload generators + runtime monitors (exactly-once, snapshot stability, exclusion, event-log checkers, reference models) run against the real packages and CLI; Go race detector / ASan flavours; porcupine for pool histories; orchestrated by tools/orchestrate.py")],
    checks=checks,
    notes="Verdicts are three-valued: exit 0 held on what was observed, exit 1 VIOLATION with replay, exit 2 INCONCLUSIVE/BUILD-FAILED. known_findings.json lists recorded defects (KNOWN-FINDING lines) and fixed ones.",
    not_applicable=na)
json.dump(manifest, open(os.path.join(VERIF, "MANIFEST.json"), "w"), indent=1)
json.dump(rules, open(os.path.join(VERIF, "tools", "rules.json"), "w"), indent=1)
print("claimed:", [c["property_id"] for c in checks], "not claimed:", [n["property_id"] for n in na])
