#!/bin/bash
# tools/seedsuite.sh <seed dir> [worktree]: apply patch on a scratch worktree and run the repo suite; prints failures other than TestTryWriteCSV
sd=$1; wt=${2:-/tmp/wtsuite}
export GOFLAGS=-mod=mod GOPROXY=off GOSUMDB=off GOTOOLCHAIN=local
[ -d "$wt" ] || git -C /repo worktree add -q --detach "$wt" HEAD
git -C "$wt" checkout -q --detach "$(git -C /repo rev-parse HEAD)"; git -C "$wt" checkout -q -- .; git -C "$wt" clean -fdq
git -C "$wt" apply "$sd/patch.diff" || { echo "$sd APPLY FAILED"; exit 3; }
f=$( cd "$wt" && go test -vet=off -count=1 ./... 2>&1 | grep -E "^--- FAIL|^FAIL|build failed" | grep -v "TestTryWriteCSV\|^FAIL	rare/cmd/helpers\|^FAIL$" )
echo "$sd suite: $( [ -z "$f" ] && echo PASS || echo "FAILURES: $f")"
git -C "$wt" checkout -q -- .; git -C "$wt" clean -fdq
