#!/usr/bin/env python3
"""Mechanical mutation sweep: how many small, suite-passing changes to the anchored files do the quick checks catch?

  tools/mutsweep.py --props C04,C07 [--per-prop 30] [--seed 1] [--jobs 3] [--name run1] [--tier quick]

For every selected property: generate all mutants (tools/mut) of its anchor files, draw a seeded sample stratified by
file, drop those that do not compile or that the repository's own suite already kills, and run every check whose property
anchors the mutated file against the rest (go build -overlay: /repo is never modified). Results are appended to
/verif/mutation/<name>.jsonl; scratch lives under /tmp/mutwork/<name> and .build/ovl-* and is removed as it goes.

A mutant that survives every relevant check is either equivalent (no behaviour change a property speaks about) or a gap;
the triage is manual and recorded in mutation/TRIAGE.md.
"""
import argparse, collections, hashlib, json, os, random, shutil, signal, subprocess, sys, threading, time
from concurrent.futures import ThreadPoolExecutor

VERIF = os.path.dirname(os.path.dirname(os.path.abspath(__file__)))
REPO = "/repo"
ENV = dict(os.environ, GOFLAGS="-mod=mod", GOPROXY="off", GOSUMDB="off", GOTOOLCHAIN="local")
lock = threading.Lock()


def props():
    out = {}
    for l in open(os.path.join(VERIF, "properties.jsonl")):
        p = json.loads(l)
        out[p["id"]] = [f for f in p["anchors"]["files"] if f.endswith(".go") and os.path.exists(os.path.join(REPO, f))]
    return out


def rss_tree_kb(pid):
    tot = 0
    try:
        kids = subprocess.run(["ps", "-o", "rss=", "-g", str(os.getpgid(pid))], stdout=subprocess.PIPE, text=True).stdout.split()
        tot = sum(int(k) for k in kids)
    except Exception:
        pass
    return tot


def run(cmd, cwd, env, timeout, memcap_kb=None):
    """Run in its own process group; kill the group on timeout or when its RSS exceeds memcap. Returns (rc, output tail)."""
    p = subprocess.Popen(cmd, cwd=cwd, env=env, stdout=subprocess.PIPE, stderr=subprocess.STDOUT, text=True, errors="replace", start_new_session=True)
    killed = []

    def watch():
        t0 = time.time()
        while p.poll() is None:
            time.sleep(2)
            if time.time() - t0 > timeout:
                killed.append("timeout")
            elif memcap_kb and rss_tree_kb(p.pid) > memcap_kb:
                killed.append("memcap")
            if killed:
                try:
                    os.killpg(p.pid, signal.SIGKILL)
                except OSError:
                    pass
                return
    th = threading.Thread(target=watch, daemon=True)
    th.start()
    out = p.communicate()[0]
    if killed:
        return "killed-" + killed[0], out[-3000:]
    return p.returncode, out[-6000:]


def main():
    ap = argparse.ArgumentParser()
    ap.add_argument("--props", required=True)
    ap.add_argument("--per-prop", type=int, default=30)
    ap.add_argument("--seed", type=int, default=1)
    ap.add_argument("--jobs", type=int, default=3)
    ap.add_argument("--filter-jobs", type=int, default=4)
    ap.add_argument("--name", default="run")
    ap.add_argument("--tier", default="quick")
    ap.add_argument("--only-file", default=None, help="restrict to mutants of this relative file")
    ap.add_argument("--ops", default=None, help="comma list of operators to keep")
    ap.add_argument("--exclude-from", default=None, help="comma list of earlier result files (mutation/<name>.jsonl) whose mutants are not drawn again")
    ap.add_argument("--extra", default=None, help="supporting files no property anchors: 'file=C14,C03;file2=C11' (added to those properties' file lists)")
    a = ap.parse_args()
    P = props()
    if a.extra:
        for item in a.extra.split(";"):
            f, ps = item.split("=")
            for pid in ps.split(","):
                if f not in P[pid]:
                    P[pid].append(f)
    sel = a.props.split(",") if a.props != "all" else sorted(P)
    work = "/tmp/mutwork/" + a.name
    shutil.rmtree(work, ignore_errors=True)
    os.makedirs(work + "/gen")
    os.makedirs(os.path.join(VERIF, "mutation"), exist_ok=True)
    resfile = os.path.join(VERIF, "mutation", a.name + ".jsonl")
    done = set()
    if os.path.exists(resfile):
        for l in open(resfile):
            try:
                done.add(json.loads(l)["id"])
            except Exception:
                pass
    mutbin = os.path.join(VERIF, ".build", "mut")
    os.makedirs(os.path.dirname(mutbin), exist_ok=True)
    subprocess.check_call(["go", "build", "-o", mutbin, "."], cwd=os.path.join(VERIF, "tools", "mut"), env=ENV)
    files = sorted({f for pid in sel for f in P[pid]})
    if a.only_file:
        files = [f for f in files if f in a.only_file.split(",")]
    for f in files:
        subprocess.check_call([mutbin, "gen", REPO, f, work + "/gen"], stdout=subprocess.DEVNULL)
    allm = [json.loads(l) for l in open(work + "/gen/index.jsonl")]
    if a.ops:
        keep = set(a.ops.split(","))
        allm = [m for m in allm if m["op"] in keep]
    if a.exclude_from:
        seen = set()
        for nm in a.exclude_from.split(","):
            for l in open(os.path.join(VERIF, "mutation", nm + ".jsonl")):
                try:
                    seen.add(json.loads(l)["id"])
                except Exception:
                    pass
        allm = [m for m in allm if m["id"] not in seen]
    byfile = collections.defaultdict(list)
    for m in allm:
        byfile[m["file"]].append(m)
    file2props = collections.defaultdict(list)
    for pid, fs in P.items():
        for f in fs:
            file2props[f].append(pid)
    # stratified seeded sample per property
    chosen = {}
    for pid in sel:
        rnd = random.Random("%d/%s" % (a.seed, pid))
        fs = [f for f in P[pid] if f in byfile]
        if a.only_file:
            fs = [f for f in fs if f in a.only_file.split(",")]
        if not fs:
            continue
        pools = {f: rnd.sample(byfile[f], len(byfile[f])) for f in fs}
        n = 0
        while n < a.per_prop and any(pools.values()):
            for f in fs:
                if pools[f] and n < a.per_prop:
                    m = pools[f].pop()
                    if m["id"] not in chosen:
                        chosen[m["id"]] = m
                        n += 1
    todo = [m for m in chosen.values() if m["id"] not in done]
    print("generated %d mutants in %d files; sampled %d; %d to do" % (len(allm), len(byfile), len(chosen), len(todo)), flush=True)

    def emit(rec):
        with lock:
            with open(resfile, "a") as fh:
                fh.write(json.dumps(rec) + "\n")
            print(json.dumps(rec)[:400], flush=True)

    # stage 1: compile + repository suite
    def filt(m):
        ovl = os.path.join(work, "ovl-" + hashlib.sha256(m["id"].encode()).hexdigest()[:12] + ".json")
        json.dump({"Replace": {os.path.join(REPO, m["file"]): m["path"]}}, open(ovl, "w"))
        m["overlay"] = ovl
        rc, out = run(["go", "build", "-overlay=" + ovl, "./..."], REPO, ENV, 600)
        if rc != 0:
            m["stage1"] = "no-compile"
            return m
        rc, out = run(["go", "vet", "-overlay=" + ovl, "./" + os.path.dirname(m["file"])], REPO, ENV, 600)
        # vet findings are not a filter (the suite runs with -vet=off); only recorded
        m["vet"] = "clean" if rc == 0 else "complains"
        rc, out = run(["go", "test", "-overlay=" + ovl, "-vet=off", "-p", "4", "-timeout", "150s", "./..."], REPO, ENV, 900, 16 * 1024 * 1024)
        subprocess.run(["find", REPO, "-name", "-", "-type", "f", "-not", "-path", "*/.git/*", "-delete"])
        fails = [l for l in out.splitlines() if l.startswith("--- FAIL") or l.startswith("FAIL\t") or l.startswith("panic:")]
        fails = [l for l in fails if "TestTryWriteCSV" not in l and l.strip() != "FAIL\trare/cmd/helpers" and not l.startswith("FAIL\trare/cmd/helpers\t")]
        if rc == 0 or not fails:
            m["stage1"] = "suite-pass"
        else:
            m["stage1"] = "suite-kill"
            m["suite_fail"] = fails[:3]
        return m

    def check(m):
        res = {}
        bdir = os.path.join(VERIF, ".build", "ovl-" + hashlib.sha256(os.path.realpath(m["overlay"]).encode()).hexdigest()[:12])
        for pid in file2props[m["file"]]:
            env = dict(ENV, VERIF_OVERLAY=m["overlay"], VERIF_CHILD_TIMEOUT="400")
            t0 = time.time()
            rc, out = run([os.path.join(VERIF, "check"), pid, a.tier], VERIF, env, 2400, 14 * 1024 * 1024)
            first = ""
            for l in out.splitlines():
                if "violation:" in l:
                    first = l.strip()[:300]
                    break
            if not first and rc not in (0, 1):
                first = " | ".join(out.splitlines()[-3:])[:300]
            res[pid] = dict(rc=rc, s=round(time.time() - t0), first=first)
        shutil.rmtree(bdir, ignore_errors=True)
        return res

    with ThreadPoolExecutor(max_workers=a.filter_jobs) as fx, ThreadPoolExecutor(max_workers=a.jobs) as cx:
        futs = []
        for m in fx.map(filt, todo):
            if m["stage1"] != "suite-pass":
                emit(dict(id=m["id"], file=m["file"], line=m["line"], op=m["op"], desc=m["desc"], stage1=m["stage1"], suite_fail=m.get("suite_fail")))
                continue
            futs.append((m, cx.submit(check, m)))
        for m, fu in futs:
            res = fu.result()
            killed = [p for p, r in res.items() if r["rc"] == 1]
            status = "killed" if killed else ("survived" if all(r["rc"] == 0 for r in res.values()) else "unclear")
            emit(dict(id=m["id"], file=m["file"], line=m["line"], op=m["op"], desc=m["desc"], stage1=m["stage1"], vet=m.get("vet"),
                      status=status, killed_by=killed, checks=res))
    shutil.rmtree(work, ignore_errors=True)
    shutil.rmtree(os.path.join(VERIF, ".work", "alt-results"), ignore_errors=True)
    summarize(resfile)


def summarize(resfile):
    recs = [json.loads(l) for l in open(resfile)]
    c = collections.Counter()
    for r in recs:
        c[r.get("status") or r["stage1"]] += 1
    print("SUMMARY", dict(c))
    for r in recs:
        if r.get("status") in ("survived", "unclear"):
            print("  %s %s %s:%d %s :: %s" % (r["status"], r["id"], r["file"], r["line"], r["op"], r["desc"]))


if __name__ == "__main__":
    if len(sys.argv) > 2 and sys.argv[1] == "--summarize":
        summarize(sys.argv[2])
    else:
        main()
