#!/usr/bin/env python3
"""markfixed.py <property> <fingerprint> <commit>: move a known.d entry (or a known entry of known_findings.json)
to known_findings.json with status fixed."""
import json, sys, os, glob
pid, fp, commit = sys.argv[1:4]
main = '/verif/known_findings.json'
allk = json.load(open(main))
found = None
for f in sorted(glob.glob('/verif/known.d/*.json')):
    try: lst = json.load(open(f))
    except Exception: continue
    keep = []
    for e in lst:
        if e.get('property') == pid and e.get('fingerprint') == fp and found is None:
            found = e
        else:
            keep.append(e)
    if len(keep) != len(lst):
        if keep: json.dump(keep, open(f, 'w'), indent=1, ensure_ascii=False)
        else: os.remove(f)
for e in allk:
    if e.get('property') == pid and e.get('fingerprint') == fp and e.get('status') == 'known':
        found = e; allk.remove(e); break
if found is None:
    print("NOT FOUND", pid, fp); sys.exit(1)
found['status'] = 'fixed'
found['commit'] = commit
w = found.get('witness')
found['record'] = "fixed: property=%s %s %s" % (pid, commit, found.get('what', fp))
allk.append(found)
json.dump(allk, open(main, 'w'), indent=1, ensure_ascii=False)
print("fixed", pid, fp, commit)
