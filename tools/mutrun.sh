#!/bin/bash
# tools/mutrun.sh <worktree> <diffdir> <ID> [tier]  : apply each diff to the scratch worktree, run the check against it, report
wt=$1; dd=$2; id=$3; tier=${4:-quick}
for d in "$dd"/*.diff; do
  git -C "$wt" checkout -q -- . ; git -C "$wt" apply "$d" || { echo "$(basename $d): APPLY-FAILED"; continue; }
  out=$(VERIF_REPO=$wt timeout 1500 /verif/check $id $tier 2>&1); rc=$?
  first=$(echo "$out" | grep -m1 "violation:" | cut -c1-220)
  echo "$(basename $d .diff): rc=$rc $(echo "$out" | grep -c '^VIOLATION') violations; $first"
done
git -C "$wt" checkout -q -- .
