#!/usr/bin/env python3
"""mkadv.py <ID> <round> [N] : create a scratch worktree /tmp/adv/<ID>r<round> of /repo HEAD and print the adversary prompt
(filled from tools/adversary_prompt.txt and properties.jsonl) for a sub-agent. Output dir: /tmp/advout/<ID>r<round>."""
import json, subprocess, sys, os
pid, rnd = sys.argv[1], sys.argv[2]
n = sys.argv[3] if len(sys.argv) > 3 else "3"
extra = sys.argv[4] if len(sys.argv) > 4 else ""
p = [json.loads(l) for l in open('/verif/properties.jsonl') if json.loads(l)['id'] == pid][0]
wt = "/tmp/adv/%sr%s" % (pid, rnd); out = "/tmp/advout/%sr%s" % (pid, rnd)
os.makedirs("/tmp/adv", exist_ok=True); os.makedirs(out, exist_ok=True)
if not os.path.isdir(wt):
    subprocess.check_call(["git", "-C", "/repo", "worktree", "add", "-q", "--detach", wt, "HEAD"])
t = open('/verif/tools/adversary_prompt.txt').read()
a = p.get('anchors') or {}
t = (t.replace('__WT__', wt).replace('__ID__', pid).replace('__TITLE__', p['title']).replace('__STATEMENT__', p['statement'])
      .replace('__QUANT__', json.dumps(p.get('quantified_over') or p.get('quantifier') or a.get('quantified_over') or "all inputs / schedules the statement mentions"))
      .replace('__FILES__', ", ".join(a.get('files', []))).replace('__N__', n).replace('__OUT__', out))
if extra: t += "\n\nADDITIONAL STEER: " + extra + "\n"
print(t)
