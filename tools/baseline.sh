#!/bin/bash
# Runs the repository suite with the verif guard OFF and compares with BASELINE.json's stable_pass list.
export GOFLAGS=-mod=mod GOPROXY=off GOSUMDB=off GOTOOLCHAIN=local
out=$(mktemp)
(cd /repo && go test -json -vet=off -count=1 -timeout 25m ./... > "$out" 2>/dev/null)
python3 - "$out" <<'PY'
import json,sys
passed=set(); failed=set()
for l in open(sys.argv[1]):
    try: e=json.loads(l)
    except ValueError: continue
    if e.get('Test') and e.get('Action') in('pass','fail'):
        k=e['Package']+'::'+e['Test']
        (passed if e['Action']=='pass' else failed).add(k)
base=set(json.load(open('/root/.vp/BASELINE.json'))['stable_pass'])
missing=sorted(base-passed)
print('baseline stable_pass=%d passed_now=%d missing=%d failed_now=%d'%(len(base),len(passed),len(missing),len(failed)))
for m in missing[:20]: print('  MISSING',m)
for f in sorted(failed)[:20]: print('  FAILED',f)
sys.exit(1 if missing else 0)
PY
rc=$?; rm -f "$out"; exit $rc
