#!/usr/bin/env python3
"""Prints a markdown table of known_findings.json (+ known.d) for DESIGN.md."""
import json, glob
rows = json.load(open('/verif/known_findings.json'))
for f in sorted(glob.glob('/verif/known.d/*.json')):
    try: rows += json.load(open(f))
    except Exception: pass
rows.sort(key=lambda e: (e['property'], e['status'], e['fingerprint']))
print("| prop | status | fingerprint | commit | what |")
print("|---|---|---|---|---|")
for e in rows:
    print("| %s | %s | `%s` | %s | %s |" % (e['property'], e['status'], e['fingerprint'], e.get('commit', ''), (e.get('what', '') or '').replace('|', '\\|')[:260]))
