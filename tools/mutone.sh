#!/bin/bash
# tools/mutone.sh <relative file> <line> <op> <desc substring> <ID>... : build that one mutant and run the given quick checks against it
f=$1; line=$2; op=$3; pat=$4; shift 4
export GOFLAGS=-mod=mod GOPROXY=off GOSUMDB=off GOTOOLCHAIN=local
d=/tmp/mutone.$$; rm -rf $d; mkdir -p $d
/verif/.build/mut gen /repo "$f" $d >/dev/null
p=$(python3 - "$d" "$line" "$op" "$pat" <<'PY'
import json,sys
d,line,op,pat=sys.argv[1:5]
for l in open(d+'/index.jsonl'):
    r=json.loads(l)
    if r['line']==int(line) and r['op']==op and pat in r['desc']:
        print(r['path']); break
PY
)
[ -z "$p" ] && { echo "mutant not found"; rm -rf $d; exit 3; }
echo "{\"Replace\":{\"/repo/$f\":\"$p\"}}" > $d/o.json
for id in "$@"; do
  out=$(VERIF_OVERLAY=$d/o.json VERIF_CHILD_TIMEOUT=400 timeout 2400 /verif/check $id quick 2>&1); rc=$?
  echo "$id rc=$rc $(echo "$out" | grep -m1 'violation:\|^INCONCLUSIVE\|BUILD-FAILED' | cut -c1-260)"
done
rm -rf $d /verif/.build/ovl-*
