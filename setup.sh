#!/bin/bash
# MANIFEST.setup_cmd: offline; warms the Go build cache for every flavour the checks use.
cd "$(dirname "$0")" || exit 1
export GOFLAGS=-mod=mod GOPROXY=off GOSUMDB=off GOTOOLCHAIN=local
mkdir -p .build .work evidence replays
set -e
(cd harness && go build -tags verif -o ../.build/vh-all-plain ./cmd/vh) &
(cd /repo && go build -tags verif -o /verif/.build/rare .) &
wait
(cd harness && go build -tags verif -race -o ../.build/vh-all-race ./cmd/vh) &
(cd /repo && go build -tags verif -race -o /verif/.build/rare-race .) &
wait
(cd harness && go build -tags verif -asan -o ../.build/vh-all-asan ./cmd/vh) || echo "asan flavour unavailable (only used by thorough tiers)"
rm -f .build/vh-all-*
echo setup ok
