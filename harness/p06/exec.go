package p06

import (
	"bytes"
	"fmt"
	"os"
	"os/exec"
	"regexp"
	"strconv"
	"strings"
	"syscall"
	"time"
)

// result of one spawned process.
type result struct {
	stdout, stderr []byte
	code           int
	timedOut       bool
	stuck          bool   // timed out AND stuck-state evidence was gathered
	evidence       string // goroutine dump excerpt
	startErr       error
}

const spawnLimit = 300 * time.Second

// spawn runs argv[0] with argv[1:] in dir. stdin == nil means /dev/null;
// otherwise the bytes are fed through a pipe in the given chunk sizes.
// probeStuck: on expiry of the limit gather stuck-state evidence (CPU time not
// advancing over 3 s, then a SIGQUIT goroutine dump in which every goroutine
// with a rare/ frame is blocked).
func spawn(argv []string, dir string, env []string, stdin []byte, chunks []int, probeStuck bool, limit time.Duration) result {
	return spawnFrom(argv, dir, env, stdin, chunks, "", probeStuck, limit)
}

// spawnFrom: stdinPath != "" redirects standard input from that path (a file, or a directory: read(0) then fails with EISDIR).
func spawnFrom(argv []string, dir string, env []string, stdin []byte, chunks []int, stdinPath string, probeStuck bool, limit time.Duration) result {
	var res result
	cmd := exec.Command(argv[0], argv[1:]...)
	if stdinPath != "" {
		f, err := os.Open(stdinPath)
		if err != nil {
			res.startErr = err
			return res
		}
		defer f.Close()
		cmd.Stdin = f
		stdin = nil
	}
	cmd.Dir = dir
	cmd.Env = env
	cmd.SysProcAttr = &syscall.SysProcAttr{Setpgid: true}
	var so, se bytes.Buffer
	cmd.Stdout, cmd.Stderr = &so, &se
	var pw interface {
		Write([]byte) (int, error)
		Close() error
	}
	if stdin != nil {
		p, err := cmd.StdinPipe()
		if err != nil {
			res.startErr = err
			return res
		}
		pw = p
	}
	if err := cmd.Start(); err != nil {
		res.startErr = err
		return res
	}
	if pw != nil {
		go func() {
			pos := 0
			for _, n := range chunks {
				if pos >= len(stdin) {
					break
				}
				if n > len(stdin)-pos {
					n = len(stdin) - pos
				}
				if n < 0 {
					time.Sleep(time.Duration(-n) * time.Millisecond) // a quiet period on stdin (shapes arrival only)
					continue
				}
				if n == 0 {
					continue
				}
				if _, err := pw.Write(stdin[pos : pos+n]); err != nil {
					pw.Close()
					return
				}
				pos += n
			}
			if pos < len(stdin) {
				pw.Write(stdin[pos:])
			}
			pw.Close()
		}()
	}
	done := make(chan error, 1)
	go func() { done <- cmd.Wait() }()
	var werr error
	select {
	case werr = <-done:
	case <-time.After(limit):
		res.timedOut = true
		pid := cmd.Process.Pid
		if probeStuck {
			t1 := cpuTicks(pid)
			time.Sleep(3 * time.Second)
			t2 := cpuTicks(pid)
			quiet := t1 >= 0 && t2 >= 0 && t2-t1 <= 1
			cmd.Process.Signal(syscall.SIGQUIT)
			select {
			case <-done:
			case <-time.After(20 * time.Second):
				syscall.Kill(-pid, syscall.SIGKILL)
				<-done
			}
			dump := se.String()
			if quiet {
				if ok, ex := allRareGoroutinesBlocked(dump); ok {
					res.stuck = true
					res.evidence = ex
				}
			}
		} else {
			syscall.Kill(-pid, syscall.SIGKILL)
			<-done
		}
		res.stdout, res.stderr = so.Bytes(), se.Bytes()
		return res
	}
	res.stdout, res.stderr = so.Bytes(), se.Bytes()
	if ee, ok := werr.(*exec.ExitError); ok {
		res.code = ee.ExitCode()
	} else if werr != nil {
		res.startErr = werr
	}
	return res
}

// cpuTicks = utime+stime of the whole process (clock ticks), -1 when unreadable.
func cpuTicks(pid int) int64 {
	b, err := os.ReadFile(fmt.Sprintf("/proc/%d/stat", pid))
	if err != nil {
		return -1
	}
	s := string(b)
	i := strings.LastIndexByte(s, ')')
	if i < 0 {
		return -1
	}
	f := strings.Fields(s[i+1:])
	if len(f) < 13 {
		return -1
	}
	u, e1 := strconv.ParseInt(f[11], 10, 64)
	k, e2 := strconv.ParseInt(f[12], 10, 64)
	if e1 != nil || e2 != nil {
		return -1
	}
	return u + k
}

var goroHead = regexp.MustCompile(`(?m)^goroutine \d+ (?:gp=\S+ m=\S+ (?:mp=\S+ )?)?\[([^\]]+)\]:$`)

// allRareGoroutinesBlocked inspects a SIGQUIT dump: at least one goroutine has a
// rare/ frame and every such goroutine waits on a channel / lock / wait group.
func allRareGoroutinesBlocked(dump string) (bool, string) {
	blocks := strings.Split(dump, "\n\n")
	seen := 0
	var ex []string
	for _, b := range blocks {
		b = strings.TrimSpace(b)
		m := goroHead.FindStringSubmatch(b)
		if m == nil {
			continue
		}
		if !strings.Contains(b, "\nrare/") && !strings.Contains(b, "\nmain.") {
			continue
		}
		state := m[1]
		if i := strings.IndexByte(state, ','); i >= 0 {
			state = state[:i]
		}
		switch state {
		case "chan send", "chan receive", "select", "semacquire", "sync.WaitGroup.Wait", "sync.Mutex.Lock",
			"sync.Cond.Wait", "chan send (nil chan)", "chan receive (nil chan)", "select (no cases)":
			seen++
			if len(ex) < 6 {
				// header + the rare frames (function line and its file:line)
				lines := strings.Split(b, "\n")
				keep := []string{lines[0]}
				for i := 1; i < len(lines) && len(keep) < 9; i++ {
					if strings.HasPrefix(lines[i], "rare/") || strings.HasPrefix(lines[i], "main.") {
						keep = append(keep, lines[i])
						if i+1 < len(lines) {
							keep = append(keep, lines[i+1])
						}
					}
				}
				ex = append(ex, strings.Join(keep, "\n"))
			}
		default:
			return false, ""
		}
	}
	if seen == 0 {
		return false, ""
	}
	return true, strings.Join(ex, "\n\n")
}

// ---------------------------------------------------------------- strace log

type sev struct {
	kind string // read | inj | seek
	n    int
}

var (
	reReadRet = regexp.MustCompile(`(?:\bread\(|<\.\.\. read resumed>).*\)\s+=\s+(-?\d+)`)
	reSeekRet = regexp.MustCompile(`(?:\blseek\(|<\.\.\. lseek resumed>).*\)\s+=\s+(-?\d+)`)
)

// parseStrace extracts, in completion order, the reads (bytes returned), the
// injected failures and the lseeks on the traced path.
func parseStrace(log []byte) []sev {
	var out []sev
	for _, ln := range strings.Split(string(log), "\n") {
		if strings.Contains(ln, "<unfinished ...>") {
			continue
		}
		if m := reReadRet.FindStringSubmatch(ln); m != nil {
			if strings.Contains(ln, "(INJECTED)") {
				out = append(out, sev{kind: "inj"})
				continue
			}
			n, _ := strconv.Atoi(m[1])
			if n >= 0 {
				out = append(out, sev{kind: "read", n: n})
			} else {
				out = append(out, sev{kind: "inj"}) // a genuine failure of the traced file
			}
			continue
		}
		if m := reSeekRet.FindStringSubmatch(ln); m != nil {
			out = append(out, sev{kind: "seek"})
		}
	}
	return out
}
