// Package p06 decides C06: named inputs are each read once, decoded faithfully,
// and failures are reported (CLI only: the real binary over generated trees).
package p06

import (
	"bytes"
	"compress/gzip"
	"encoding/json"
	"fmt"
	"io"
	"os"
	"path/filepath"
	"regexp"
	"sort"
	"strconv"
	"strings"
	"time"

	"verifharness/internal/ref"
	"verifharness/internal/reg"
	"verifharness/internal/run"
)

func init() { reg.Register("C06", Run) }

// fingerprints of the genuine defects this check found (see notes/C06.md)
const (
	fpBadPattern = "glob:malformed-pattern-dropped"
	fpDoubleStar = "glob:doublestar-nested-dirs"
	fpProbeEIO   = "gunzip-probe:io-error-read-as-plain"
)

// Case is what is journalled / replayed: generator coordinates.
type Case struct {
	Kind  string `json:"kind"` // gen | sweep | stdin | strace | pinned
	Index int    `json:"index"`
	Seed  uint64 `json:"seed"`
	Tier  string `json:"tier"`
	Name  string `json:"name,omitempty"`
}

// runSpec is one invocation of the binary.
type runSpec struct {
	Cmd       string    `json:"cmd"`   // filter | histo
	Match     string    `json:"match"` // filter: "", "K", "none"
	Recursive bool      `json:"recursive"`
	Gunzip    bool      `json:"gunzip"`
	Readers   int       `json:"readers"`
	Batch     int       `json:"batch"`
	Workers   int       `json:"workers"`
	Procs     int       `json:"gomaxprocs"`
	Points    string    `json:"points,omitempty"`
	Args      []argSpec `json:"args"`
	Stdin     bool      `json:"stdin"`
	Dash      bool      `json:"dash"` // stdin named explicitly with "-"
	// StdinFrom: standard input is redirected from this path of the tree ("." = the tree's root directory, so that the
	// first read fails with EISDIR; a file: its bytes, and under strace the fault below hits the reads of fd 0)
	StdinFrom string `json:"stdin_from,omitempty"`
	// strace fault (thorough): read K (and, if Persistent, all later ones) on Target fails with EIO
	Target     string `json:"target,omitempty"`
	When       int    `json:"when,omitempty"`
	Persistent bool   `json:"persistent,omitempty"`
	// CSV: histo also exports its counts (-o FILE, next to the tree, not inside it): the exit status is still the scan's
	CSV bool `json:"csv,omitempty"`
}

const filterExtract = "{src}:{line}:{0}"
const histoRegex = `^(F\d+) \d+ (\S+)`

var histoRe = regexp.MustCompile(histoRegex)

func (s *runSpec) argv(root string) []string {
	a := []string{"--nocolor", "--nf", s.Cmd}
	switch s.Cmd {
	case "filter":
		switch s.Match {
		case "K":
			a = append(a, "-m", ".*K.*")
		case "none":
			a = append(a, "-m", "ZZNOMATCHZZ")
		}
		a = append(a, "-e", filterExtract)
	case "histo":
		a = append(a, "-m", histoRegex, "-e", "{1}", "-e", "{2}")
		if s.CSV {
			a = append(a, []string{"-o", "--csv"}[len(s.Args)%2], strings.TrimRight(root, "/")+".export.csv")
		}
	}
	if s.Recursive {
		a = append(a, "-R")
	}
	if s.Gunzip {
		a = append(a, "-z")
	}
	if s.Readers > 0 {
		a = append(a, "--readers", strconv.Itoa(s.Readers))
	}
	if s.Batch > 0 {
		a = append(a, "--batch", strconv.Itoa(s.Batch))
	}
	if s.Workers > 0 {
		a = append(a, "--workers", strconv.Itoa(s.Workers))
	}
	if s.Stdin {
		if s.Dash {
			a = append(a, "-")
		}
		return a
	}
	for _, x := range s.Args {
		a = append(a, x.String())
	}
	return a
}

// ---------------------------------------------------------------- reference decoding

// deliver = the bytes an input hands to the line splitter, and whether the
// stream ends in a failure. With -z a file that compress/gzip accepts as gzip
// is decompressed (all members); whatever it yields before failing on damaged
// data is the delivered prefix. Anything else is read from its first byte.
func deliver(raw []byte, gunzip bool) ([]byte, bool) {
	if !gunzip {
		return raw, false
	}
	zr, err := gzip.NewReader(bytes.NewReader(raw))
	if err != nil {
		return raw, false
	}
	data, err := io.ReadAll(zr)
	return data, err != nil
}

// fillLines: without a failure every line counts; in front of a failure the
// newline-terminated lines must be delivered, the unterminated rest may be.
func fillLines(m *mention, data []byte, failed bool) {
	m.err = m.err || failed
	if !failed {
		m.lines = ref.SplitLines(data)
		return
	}
	cut := bytes.LastIndexByte(data, '\n') + 1
	m.lines = ref.SplitLines(data[:cut])
	if cut < len(data) {
		m.frag = data[cut:]
	}
}

// ---------------------------------------------------------------- running and judging

type env struct {
	c           *run.Ctx
	cs          Case
	t           *tree
	root        string
	fpo         string          // fingerprint override (witnesses of known defects) ...
	fpoC        map[string]bool // ... for these violation classes only
	ri          int             // run index inside the case
	quietPauses int
	// last expectation computed by judge (pinned cases cross-check it by hand)
	lastWantCode, lastR int
}

func (e *env) fail(class, msg string, spec *runSpec) {
	fp := ""
	if e.fpo != "" && e.fpoC[class] {
		fp = e.fpo
	}
	if fp == "" {
		fp = class + ":" + run.Hash64(e.cs.Kind, e.cs.Name, strconv.Itoa(e.cs.Index), strconv.FormatUint(e.cs.Seed, 10), e.cs.Tier, strconv.Itoa(e.ri))
	}
	argv := spec.argv(e.root)
	e.c.Violation(fp, fmt.Sprintf("%s: %s [run %d of case %s/%d/%s; rare %s]", class, msg, e.ri, e.cs.Kind, e.cs.Index, e.cs.Name, quoteArgs(argv)), e.cs)
}

func quoteArgs(a []string) string {
	var q []string
	for _, s := range a {
		q = append(q, strconv.Quote(s))
	}
	s := strings.Join(q, " ")
	if len(s) > 900 {
		s = s[:900] + "…"
	}
	return s
}

// expand models the whole argument vector. ok=false: some argument is outside
// what the documentation decides (the caller regenerates / skips).
func (e *env) expand(spec *runSpec, stdin []byte) ([]mention, bool) {
	if spec.Stdin {
		m := mention{src: "<stdin>", isFile: true}
		fillLines(&m, stdin, false)
		return []mention{m}, true
	}
	badLiteral := !e.c.KnownActive(fpBadPattern) || e.fpo == fpBadPattern
	var all []mention
	for _, a := range spec.Args {
		ms, st := e.t.expandArg(a, spec.Recursive, spec.Gunzip, badLiteral)
		if st != expOK {
			return nil, false
		}
		all = append(all, ms...)
	}
	return all, true
}

// halt: a run did not terminate; the shard stops generating further cases.
var halt bool

var summaryRe = regexp.MustCompile(`Matched: (\d+) / (\d+)`)

// exec runs one spec and judges it against mentions. unjudged: sources whose
// delivered lines are not judged (only their effect on the exit status is).
func (e *env) exec(spec *runSpec, stdin []byte, mentions []mention, unjudged map[string]bool, forceErr bool) {
	c := e.c
	e.ri++
	argv := append([]string{c.RareBin}, spec.argv(e.root)...)
	envv := append(os.Environ(), "GOTRACEBACK=all", "VERIF_POINTS="+spec.Points, "VERIF_SEED="+strconv.FormatUint(e.cs.Seed, 10))
	if spec.Procs > 0 {
		envv = append(envv, "GOMAXPROCS="+strconv.Itoa(spec.Procs))
	}
	var chunks []int
	var in []byte
	if spec.Stdin {
		in = stdin
		if in == nil {
			in = []byte{}
		}
		r := run.NewRand(e.cs.Seed, "C06chunks", e.cs.Index, e.ri)
		quiet := r.Intn(2) == 0 // stdin is batched with a 250 ms flush timer: pauses longer than that, then bursts
		for pos := 0; pos < len(in); {
			n := []int{1, 7, 100, 4096, 70000, 1 << 20}[r.Intn(6)]
			if quiet && pos > 0 && len(chunks) < 40 && r.Intn(2) == 0 && e.quietPauses < 3 {
				chunks = append(chunks, -320)
				e.quietPauses++
				c.Count("stdin_quiet_periods", 1)
			}
			chunks = append(chunks, n)
			pos += n
		}
		e.quietPauses = 0
	}
	res := spawn(argv, e.root, envv, in, chunks, true, spawnLimit)
	e.judge(spec, mentions, unjudged, forceErr, res)
}

func (e *env) judge(spec *runSpec, mentions []mention, unjudged map[string]bool, forceErr bool, res result) {
	c := e.c
	if res.startErr != nil {
		c.Inconclusive("cannot run rare: " + res.startErr.Error())
		return
	}
	if res.timedOut {
		halt = true // every further run of this shard could take as long: stop after reporting
		if res.stuck {
			e.fail("no-termination", fmt.Sprintf("rare did not exit within %v; its CPU time did not advance over 3 s and every goroutine with a rare/ frame is blocked:\n%s", spawnLimit, res.evidence), spec)
		} else {
			c.Inconclusive(fmt.Sprintf("rare did not finish within %v and no stuck-state evidence was found (case %s/%d run %d)", spawnLimit, e.cs.Kind, e.cs.Index, e.ri))
		}
		return
	}
	serr := string(res.stderr)
	if strings.Contains(serr, "panic:") || strings.Contains(serr, "fatal error:") || res.code > 2 || res.code < 0 {
		e.fail("crash", fmt.Sprintf("rare crashed (exit %d): %s", res.code, run.Q(tail(serr, 1200))), spec)
		return
	}

	// ---- expectations
	matches := func(line []byte) bool {
		switch spec.Cmd {
		case "histo":
			return histoRe.Match(line)
		default:
			switch spec.Match {
			case "K":
				return bytes.IndexByte(line, 'K') >= 0
			case "none":
				return bytes.Contains(line, []byte("ZZNOMATCHZZ"))
			}
			return true
		}
	}
	parseErr := func(line []byte) bool {
		m := histoRe.FindSubmatch(line)
		if m == nil {
			return false
		}
		// histo joins its -e values with NUL and the counter takes the second NUL-separated field as the increment,
		// so a captured NUL byte (binary input: a stored-block gzip file read without -z) ends the increment text
		inc := m[2]
		if i := bytes.IndexByte(inc, 0); i >= 0 {
			inc = inc[:i]
		}
		_, err := strconv.ParseInt(string(inc), 10, 64)
		return err != nil
	}
	want := map[string]int{}     // output line -> times
	optional := map[string]int{} // output line -> additional times tolerated
	goodSrc := map[string]bool{}
	anyErr := forceErr
	var R, M, P, Ropt, Mopt int
	inputs := 0
	for _, m := range mentions {
		if m.err {
			anyErr = true
		} else {
			goodSrc[m.src] = true
		}
		if m.isFile {
			inputs++
		}
		if unjudged[m.src] {
			continue
		}
		for i, l := range m.lines {
			R++
			if matches(l) {
				M++
				want[fmt.Sprintf("%s:%d:%s", m.src, i+1, l)]++
				if spec.Cmd == "histo" && parseErr(l) {
					P++
				}
			}
		}
		if m.frag != nil {
			Ropt++
			f := m.frag
			for _, v := range [][]byte{f, bytes.TrimSuffix(f, []byte("\r"))} {
				if matches(v) {
					optional[fmt.Sprintf("%s:%d:%s", m.src, len(m.lines)+1, v)]++
				}
			}
			if matches(f) {
				Mopt++
			}
		}
	}
	hasUnjudged := len(unjudged) > 0

	// ---- output lines (filter only)
	if spec.Cmd == "filter" {
		got := map[string]int{}
		out := res.stdout
		if len(out) > 0 && out[len(out)-1] == '\n' {
			out = out[:len(out)-1]
		}
		if len(out) > 0 {
			for _, l := range bytes.Split(out, []byte("\n")) {
				k := string(l)
				i := strings.IndexByte(k, ':')
				if i < 0 {
					got[k]++
					continue
				}
				src := k[:i]
				if unjudged[filepath.Clean(src)] {
					continue
				}
				if src != "<stdin>" {
					src = filepath.Clean(src)
				}
				got[src+k[i:]]++
			}
		}
		keys := make([]string, 0, len(want))
		for k := range want {
			keys = append(keys, k)
		}
		sort.Strings(keys)
		bad := 0
		for _, k := range keys {
			g, w := got[k], want[k]
			if g >= w && g <= w+optional[k] {
				continue
			}
			if bad++; bad > 2 {
				break
			}
			src := k[:strings.IndexByte(k, ':')]
			switch {
			case g < w && anyErr && goodSrc[src]:
				e.fail("good-input-incomplete", fmt.Sprintf("line %s of a readable input was output %d times, expected %d, in a run where another input fails", run.Q(k), g, w), spec)
			case spec.Stdin:
				e.fail("stdin", fmt.Sprintf("stdin line %s was output %d times, expected %d (stdout head %s)", run.Q(k), g, w, run.Q(head(string(res.stdout), 200))), spec)
			case spec.Gunzip && !goodSrc[src]:
				e.fail("damaged-gzip-prefix", fmt.Sprintf("line %s (decoded by compress/gzip in front of the damage) was output %d times, expected %d", run.Q(k), g, w), spec)
			default:
				e.fail("mention-count", fmt.Sprintf("line %s was output %d times, expected %d (= number of times its input is named by the arguments)", run.Q(k), g, w), spec)
			}
		}
		gkeys := make([]string, 0, len(got))
		for k := range got {
			gkeys = append(gkeys, k)
		}
		sort.Strings(gkeys)
		for _, k := range gkeys {
			if want[k] > 0 {
				continue
			}
			if got[k] <= optional[k] {
				continue
			}
			if bad++; bad > 3 {
				break
			}
			e.fail("spurious-line", fmt.Sprintf("output line %s (x%d) is no line of any named input as it should be decoded (-z=%v)", run.Q(k), got[k], spec.Gunzip), spec)
		}
		c.Count("lines_judged", int64(R))
	}

	// ---- summary
	blob := string(res.stderr) + "\n" + string(res.stdout)
	if sm := summaryRe.FindAllStringSubmatch(blob, -1); len(sm) == 0 {
		e.fail("no-summary", "no 'Matched: M / R' summary: stderr "+run.Q(tail(serr, 300)), spec)
	} else if !hasUnjudged {
		last := sm[len(sm)-1]
		gm, _ := strconv.Atoi(last[1])
		gr, _ := strconv.Atoi(last[2])
		if gr < R || gr > R+Ropt || gm < M || gm > M+Mopt {
			e.fail("summary", fmt.Sprintf("summary says Matched: %d / %d; the named inputs hold %d matching of %d lines (+%d/+%d in front of a failure)", gm, gr, M, R, Mopt, Ropt), spec)
		}
	}

	// ---- exit status
	wantCode := 0
	why := "some line matched, no error"
	switch {
	case anyErr:
		wantCode, why = 2, "an input cannot be opened or fails while being read"
	case spec.Cmd == "histo" && P > 0:
		wantCode, why = 2, fmt.Sprintf("%d increments are not numbers", P)
	case M == 0:
		wantCode, why = 1, "nothing matched"
	}
	e.lastWantCode, e.lastR = wantCode, R
	if res.code != wantCode && !(hasUnjudged && !anyErr) {
		cls := "exit-status"
		if anyErr {
			cls = "read-error-not-reported"
		}
		e.fail(cls, fmt.Sprintf("exit status %d, expected %d (%s); stderr %s", res.code, wantCode, why, run.Q(tail(serr, 400))), spec)
	}

	// ---- bookkeeping
	c.Count("cli_runs", 1)
	c.Count(fmt.Sprintf("exit:%d", res.code), 1)
	c.Count("cmd:"+spec.Cmd, 1)
	if spec.CSV {
		c.Count("histo_runs_with_csv_export", 1)
	}
	c.Count("mentions", int64(len(mentions)))
	c.Max("max_inputs_in_a_run", int64(len(mentions)))
	if spec.Gunzip {
		c.Count("gunzip_runs", 1)
	}
	if spec.Recursive {
		c.Count("recursive_runs", 1)
	}
	faults := 0
	for _, m := range mentions {
		if m.fault != "" {
			c.Count("fault:"+m.fault, 1)
			faults++
		}
		if m.frag != nil {
			c.Count("failures_after_data", 1)
		}
	}
	if forceErr {
		faults++
	}
	if faults > 0 {
		c.Count("runs_with_fault", 1)
	}
	nonLiteral := spec.Stdin
	for _, a := range spec.Args {
		c.Count("form:"+a.Form, 1)
		if a.Form == "glob" || a.Form == "walk" || a.Form == "dup" {
			nonLiteral = true
		}
	}
	if spec.Stdin {
		c.Count("form:stdin", 1)
	}
	if inputs >= 2 && (faults > 0 || nonLiteral) {
		b, _ := json.Marshal(spec)
		c.Nontrivial(e.cs.Kind, strconv.Itoa(e.cs.Index), e.cs.Name, string(b))
	}
}

func tail(s string, n int) string {
	if len(s) > n {
		return s[len(s)-n:]
	}
	return s
}

func head(s string, n int) string {
	if len(s) > n {
		return s[:n]
	}
	return s
}

// ---------------------------------------------------------------- Run

func Run(c *run.Ctx) {
	if c.RareBin == "" {
		c.Inconclusive("no rare binary: C06 is a CLI check")
		return
	}
	if c.Replay != nil {
		var cs Case
		if json.Unmarshal(c.Replay, &cs) == nil && cs.Kind != "" {
			one(c, cs)
		} else {
			c.Inconclusive("bad replay case")
		}
		return
	}
	followMissing(c)
	followPresent(c)
	idx := 0
	for _, nm := range pinnedNames {
		if c.Mine(idx) && !halt {
			one(c, Case{Kind: "pinned", Name: nm, Seed: c.Seed, Tier: c.Tier})
		}
		idx++
	}
	type plan struct {
		kind string
		n    int
	}
	plans := []plan{
		{"gen", c.N(88, 2200)},
		{"sweep", c.N(14, 150)},
		{"stdin", c.N(14, 140)},
		{"strace", c.N(8, 150)},
	}
	for _, p := range plans {
		for i := 0; i < p.n; i++ {
			if c.Mine(idx) {
				one(c, Case{Kind: p.kind, Index: i, Seed: c.Seed, Tier: c.Tier})
				if c.Violations() >= 6 || halt {
					return
				}
			}
			idx++
		}
		c.Checkpoint()
	}
}

func one(c *run.Ctx, cs Case) {
	c.Begin(cs, 3600*time.Second)
	defer c.End()
	root := filepath.Join(c.WorkDir, "t")
	os.RemoveAll(root)
	if c.Replay == nil || os.Getenv("VERIF_KEEP_WORK") != "1" { // a replay may keep its tree for inspection
		defer os.RemoveAll(root)
	}
	e := &env{c: c, cs: cs, root: root}
	r := run.NewRand(cs.Seed, "C06", cs.Kind, cs.Index)
	thorough := cs.Tier == "thorough"
	switch cs.Kind {
	case "pinned":
		runPinned(e, cs.Name)
	case "gen":
		e.t = genTree(r, treeOpts{maxFiles: pick(thorough, 24, 14), allowBad: !c.KnownActive(fpBadPattern)})
		if err := e.t.materialise(root); err != nil {
			c.Inconclusive("materialise: " + err.Error())
			return
		}
		for k := 0; k < 2 && !halt; k++ {
			spec, ms := genSpec(e, r)
			if spec == nil {
				continue
			}
			e.exec(spec, nil, ms, nil, false)
			if cs.Index < 2 && k == 0 {
				c.Sample(map[string]any{"kind": "gen", "files": len(e.t.files), "dirs": len(e.t.dirs), "argv": spec.argv(root), "mentions": len(ms)})
			}
		}
	case "sweep":
		runSweep(e, r, thorough)
	case "stdin":
		runStdin(e, r)
	case "strace":
		runStrace(e, r)
	}
}

func pick(b bool, x, y int) int {
	if b {
		return x
	}
	return y
}

// ---------------------------------------------------------------- generators of argument vectors

var pointsPool = []string{"", "", "batch.beforeSend=sleep:300us:p0.3", "files.afterSourceCount=sleep:1ms:p0.5,batch.beforeSendLast=sleep:1ms:p0.5",
	"files.beforeClose=sleep:2ms,batch.beforeSend=yield"}

func baseSpec(r *run.Rand) *runSpec {
	s := &runSpec{Cmd: "filter"}
	switch r.Intn(10) {
	case 0, 1:
		s.Match = "K"
	case 2:
		s.Match = "none"
	case 3, 4:
		s.Cmd = "histo"
	}
	s.Gunzip = r.Intn(2) == 0
	s.CSV = s.Cmd == "histo" && r.Intn(2) == 0
	s.Readers = []int{0, 1, 1, 2, 3, 4, 8}[r.Intn(7)]
	s.Batch = []int{0, 1, 2, 3, 7, 50, 1000}[r.Intn(7)]
	s.Workers = []int{0, 1, 2, 4}[r.Intn(4)]
	s.Procs = []int{0, 1, 2, 4, 8}[r.Intn(5)]
	s.Points = pointsPool[r.Intn(len(pointsPool))]
	return s
}

func prefixFor(r *run.Rand, root string) string {
	switch r.Intn(6) {
	case 0:
		return "./"
	case 1:
		if !hasMeta(root) {
			return root + "/"
		}
	}
	return ""
}

// globFor derives a pattern from the entries of a directory.
func globFor(r *run.Rand, t *tree, dir string) string {
	n := t.byPath[dir]
	if n == nil || len(n.kids) == 0 {
		return join(dir, "*")
	}
	k := n.kids[r.Intn(len(n.kids))]
	name := []rune(k.name)
	var pat string
	switch r.Intn(8) {
	case 0:
		pat = "*"
	case 1:
		if i := strings.LastIndexByte(k.name, '.'); i > 0 {
			pat = "*" + k.name[i:]
		} else {
			pat = "*"
		}
	case 2:
		pat = string(name[:1]) + "*"
	case 3:
		i := r.Intn(len(name))
		pat = string(name[:i]) + "?" + string(name[i+1:])
	case 4:
		other := n.kids[r.Intn(len(n.kids))].name
		pat = "[" + string(name[:1]) + string([]rune(other)[:1]) + "]*"
	case 5:
		pat = "[a-c]*"
	case 6:
		pat = "*" + string(name[len(name)-1:])
	default:
		pat = string(name[:1]) + "*" + string(name[len(name)-1:])
	}
	p := join(dir, pat)
	// sometimes a wildcard in a directory segment
	if dir != "" && r.Intn(4) == 0 {
		segs := strings.Split(dir, "/")
		i := r.Intn(len(segs))
		rs := []rune(segs[i])
		segs[i] = string(rs[:1]) + "*"
		p = strings.Join(segs, "/") + "/" + pat
	}
	return p
}

// genSpec builds one argument vector over the tree of e. It regenerates
// arguments the model cannot decide; (nil, nil) when none could be built.
func genSpec(e *env, r *run.Rand) (*runSpec, []mention) {
	t := e.t
	for attempt := 0; attempt < 20; attempt++ {
		s := baseSpec(r)
		s.Recursive = r.Intn(3) == 0
		n := r.Range(1, 6)
		var args []argSpec
		// deliberate failing arguments: none in about half of the runs, else one or two
		budget := []int{0, 0, 0, 1, 1, 1, 2}[r.Intn(7)]
		clean := budget == 0
		for len(args) < n {
			a := argSpec{Prefix: prefixFor(r, e.root)}
			k := r.Intn(16)
			if k >= 10 && k <= 14 && !(s.Recursive && k <= 11) {
				if budget == 0 {
					k = r.Intn(10)
				} else {
					budget--
				}
			}
			switch k {
			case 0, 1, 2, 3, 4:
				a.Rel, a.Form = t.files[r.Intn(len(t.files))], "path"
			case 5:
				if len(args) > 0 {
					a = args[r.Intn(len(args))]
					if a.Form == "path" {
						a.Form = "dup"
					}
				} else {
					a.Rel, a.Form = t.files[r.Intn(len(t.files))], "path"
				}
			case 6, 7, 8, 9:
				dir := ""
				if len(t.dirs) > 0 && r.Intn(4) != 0 {
					dir = t.dirs[r.Intn(len(t.dirs))]
				}
				a.Rel, a.Form = globFor(r, t, dir), "glob"
			case 10, 11:
				// a directory: walked with -R, a failing input without
				if len(t.dirs) == 0 || r.Intn(8) == 0 {
					a.Rel = "."
					a.Prefix = ""
				} else {
					a.Rel = t.dirs[r.Intn(len(t.dirs))]
				}
				a.Form = "dir"
				if s.Recursive {
					a.Form = "walk"
					if r.Intn(3) == 0 && a.Rel != "." {
						a.Suffix = "/"
					}
				}
			case 12:
				a.Rel, a.Form = join(pickDir(r, t), r.Pick([]string{"missing.log", "no such file", "gone.gz"})), "missing"
			case 13:
				a.Rel, a.Form = join(pickDir(r, t), r.Pick([]string{"*.nomatch", "zz?q", "[xyz]none*"})), "dangling"
			case 14:
				a = argSpec{Special: "procmem", Form: "procmem"}
			default:
				a.Rel, a.Form = t.files[r.Intn(len(t.files))], "path"
			}
			ms, st := t.expandArg(a, s.Recursive, s.Gunzip, !e.c.KnownActive(fpBadPattern))
			if st != expOK {
				continue
			}
			if clean {
				// keep runs without a deliberate fault free of accidental ones (a wildcard matching a directory)
				acc := false
				for _, m := range ms {
					if m.fault == "eisdir" || m.fault == "missing" {
						acc = true
					}
				}
				if acc {
					continue
				}
			}
			args = append(args, a)
		}
		s.Args = args
		ms, ok := e.expand(s, nil)
		if !ok {
			continue
		}
		if len(ms) > 400 {
			continue
		}
		return s, ms
	}
	return nil, nil
}

func pickDir(r *run.Rand, t *tree) string {
	if len(t.dirs) == 0 || r.Intn(3) == 0 {
		return ""
	}
	return t.dirs[r.Intn(len(t.dirs))]
}

// ---------------------------------------------------------------- sweep: one failing input at every position

func runSweep(e *env, r *run.Rand, thorough bool) {
	c := e.c
	t := newTree()
	e.t = t
	nGood := r.Range(3, pick(thorough, 12, 6))
	dirs := []string{"", t.addDir("", "d1"), t.addDir("d1", "my dir")}
	var good []argSpec
	for i := 0; i < nGood; i++ {
		var kind string
		var raw []byte
		id := t.nextID + 1
		switch r.Intn(5) {
		case 0:
			kind, raw = "gz", gz(r, randText(r, id, false))
		case 1:
			kind, raw = "plain", randText(r, id, true) // several batches: still streaming when the fault happens
		default:
			kind, raw = "plain", randText(r, id, false)
		}
		rel := t.addFile(dirs[r.Intn(len(dirs))], fmt.Sprintf("g%d.log", i), kind, raw)
		good = append(good, argSpec{Rel: rel, Form: "path"})
	}
	base := baseSpec(r)
	base.Recursive = false
	base.Readers = r.Range(1, 3)
	var fault argSpec
	fk := r.Intn(7)
	switch fk {
	case 0:
		fault = argSpec{Rel: "d1/missing.log", Form: "missing"}
	case 1:
		fault = argSpec{Rel: "d1", Form: "dir"}
	case 2:
		fault = argSpec{Special: "procmem", Form: "procmem"}
	case 3:
		fault = argSpec{Rel: "d1/*.nomatch", Form: "dangling"}
	case 4, 5:
		z := gz(r, randText(r, 999, r.Intn(3) == 0))
		cut := r.Range(10, len(z)-1)
		if r.Intn(4) == 0 {
			cut = len(z) - r.Range(1, 8)
		}
		rel := t.addFile("d1", "trunc.log.gz", "gztrunc", z[:cut])
		fault = argSpec{Rel: rel, Form: "path"}
		base.Gunzip = true
	default:
		z := gz(r, randText(r, 999, false))
		z[len(z)-r.Range(1, 8)] ^= 0x21
		rel := t.addFile("", "corrupt.gz", "gzcorrupt", z)
		fault = argSpec{Rel: rel, Form: "path"}
		base.Gunzip = true
	}
	if err := t.materialise(e.root); err != nil {
		c.Inconclusive("materialise: " + err.Error())
		return
	}
	for pos := 0; pos <= nGood && !halt; pos++ {
		s := *base
		s.Args = nil
		s.Args = append(s.Args, good[:pos]...)
		s.Args = append(s.Args, fault)
		s.Args = append(s.Args, good[pos:]...)
		ms, ok := e.expand(&s, nil)
		if !ok {
			c.Inconclusive("sweep: model cannot decide its own arguments")
			return
		}
		e.exec(&s, nil, ms, nil, false)
		c.Count("sweep_positions", 1)
	}
}

// ---------------------------------------------------------------- stdin

func runStdin(e *env, r *run.Rand) {
	e.t = newTree()
	if err := e.t.materialise(e.root); err != nil {
		e.c.Inconclusive("materialise: " + err.Error())
		return
	}
	s := baseSpec(r)
	s.Gunzip = false // -z with stdin is refused by the CLI
	s.Stdin = true
	s.Dash = r.Bool()
	s.Recursive = false
	var data []byte
	switch r.Intn(8) {
	case 0:
		data = []byte{}
	case 1:
		data = randText(r, 1, true)
	default:
		data = randText(r, 1, false)
	}
	ms, _ := e.expand(s, data)
	e.exec(s, data, ms, nil, false)

	// standard input that fails while being read: a directory on fd 0 (read gives EISDIR). It is one input like any
	// other: counted as a read error, exit status 2, nothing delivered.
	s2 := *s
	s2.StdinFrom = "."
	s2.Dash = !s.Dash
	argv := append([]string{e.c.RareBin}, s2.argv(e.root)...)
	e.ri++
	res := spawnFrom(argv, e.root, append(os.Environ(), "GOTRACEBACK=all", "VERIF_POINTS="), nil, nil, e.root, true, spawnLimit)
	e.judge(&s2, []mention{{src: "<stdin>", isFile: true, err: true, fault: "eisdir"}}, nil, true, res)
	e.c.Count("stdin_failing_runs", 1)
}

// ---------------------------------------------------------------- strace: EIO injected into the reads of one input

func runStrace(e *env, r *run.Rand) {
	c := e.c
	t := newTree()
	e.t = t
	d := t.addDir("", "logs")
	nGood := r.Range(2, 5)
	var args []argSpec
	for i := 0; i < nGood; i++ {
		id := t.nextID + 1
		kind, raw := "plain", randText(r, id, r.Intn(3) == 0)
		if r.Intn(3) == 0 {
			kind, raw = "gz", gz(r, raw)
		}
		rel := t.addFile([]string{"", d}[r.Intn(2)], fmt.Sprintf("g%d.log", i), kind, raw)
		args = append(args, argSpec{Rel: rel, Form: "path"})
	}
	s := baseSpec(r)
	s.Recursive = false
	s.Points = ""
	// the target: big enough for several reads
	id := t.nextID + 1
	var rel string
	mode := r.Intn(3) // 0 plain without -z, 1 gzip with -z, 2 plain with -z (probe, seek back)
	viaStdin := r.Intn(4) == 0 // the failing input is standard input (redirected from the target file)
	if viaStdin {
		mode = 0
	}
	switch mode {
	case 0:
		s.Gunzip = false
		txt := genText(r, id, textOpts{lines: r.Range(6000, 14000), lineBytes: r.Range(20, 50), noTrail: r.Bool()})
		rel = t.addFile(d, "target.log", "plain", txt)
	case 1:
		s.Gunzip = true
		txt := genText(r, id, textOpts{lines: r.Range(600, 2500), lineBytes: r.Range(20, 40)})
		rel = t.addFile(d, "target.log.gz", "gz", gz(r, txt))
	default:
		s.Gunzip = true
		txt := genText(r, id, textOpts{lines: r.Range(6000, 12000), lineBytes: r.Range(20, 50)})
		rel = t.addFile(d, "target.txt", "plain", txt)
	}
	// K within the number of read() calls the target needs (128 KiB per read, 4 KiB through gzip's bufio)
	size := len(t.byPath[rel].raw)
	reads := size/(128*1024) + 2
	if mode == 1 {
		reads = size/4096 + 2
		if reads > 8 {
			reads = 8
		}
	}
	s.When = r.Range(1, reads)
	if k2 := r.Range(1, reads); k2 < s.When {
		s.When = k2 // strace counts invocations per thread and Go moves the reader between threads: low K fire more reliably
	}
	s.Persistent = r.Intn(3) != 0
	if s.Gunzip && s.When == 1 && !s.Persistent && c.KnownActive(fpProbeEIO) {
		s.Persistent = true // the transient failure of the probe read is the known defect: pinned witness only
	}
	pos := r.Intn(len(args) + 1)
	targ := argSpec{Rel: rel, Form: "path"}
	args = append(args[:pos:pos], append([]argSpec{targ}, args[pos:]...)...)
	s.Args = args
	s.Target = rel
	if viaStdin {
		s.Args, s.Stdin, s.StdinFrom, s.Dash = nil, true, rel, r.Bool()
	}
	if err := t.materialise(e.root); err != nil {
		c.Inconclusive("materialise: " + err.Error())
		return
	}
	e.straceRun(s)
}

// straceRun runs spec under strace with the fault on s.Target and judges it with
// the prefix the strace log says was handed out. Returns the event pattern.
func (e *env) straceRun(s *runSpec) (pattern string) {
	c := e.c
	e.ri++
	ms, ok := e.expand(s, nil)
	if s.StdinFrom != "" {
		m := mention{src: "<stdin>", rel: s.Target, isFile: true}
		fillLines(&m, e.t.byPath[s.Target].raw, false)
		ms, ok = []mention{m}, true
	}
	if !ok {
		c.Inconclusive("strace: model cannot decide its own arguments")
		return ""
	}
	logf := filepath.Join(e.c.WorkDir, "strace.log")
	os.Remove(logf)
	defer os.Remove(logf)
	when := strconv.Itoa(s.When)
	if s.Persistent {
		when += "+"
	}
	abs := filepath.Join(e.root, filepath.FromSlash(s.Target))
	argv := []string{"strace", "-f", "-qq", "-o", logf, "-P", abs, "-e", "trace=read,lseek", "-e", "signal=none",
		"-e", "inject=read:error=EIO:when=" + when, c.RareBin}
	argv = append(argv, s.argv(e.root)...)
	envv := append(os.Environ(), "GOTRACEBACK=all", "VERIF_POINTS=")
	if s.Procs > 0 {
		envv = append(envv, "GOMAXPROCS="+strconv.Itoa(s.Procs))
	}
	stdinPath := ""
	if s.StdinFrom != "" {
		stdinPath = abs
		c.Count("strace_stdin_runs", 1)
	}
	res := spawnFrom(argv, e.root, envv, nil, nil, stdinPath, false, spawnLimit)
	if res.startErr != nil {
		if !c.Thorough() {
			// the quick tier's other fault classes do not need a tracer: note it, do not void the run
			c.Count("strace_unavailable", 1)
			c.Note("cannot run strace (fault injection at arbitrary read offsets skipped): " + res.startErr.Error())
			return ""
		}
		c.Inconclusive("cannot run strace: " + res.startErr.Error())
		return ""
	}
	if res.timedOut {
		c.Inconclusive("rare under strace did not finish within the limit")
		return ""
	}
	logb, err := os.ReadFile(logf)
	if err != nil {
		c.Inconclusive("strace wrote no log: " + err.Error() + " stderr " + run.Q(tail(string(res.stderr), 300)))
		return ""
	}
	evs := parseStrace(logb)
	// strace's own messages are not rare's
	var keep [][]byte
	for _, l := range bytes.Split(res.stderr, []byte("\n")) {
		if !bytes.HasPrefix(l, []byte("strace:")) {
			keep = append(keep, l)
		}
	}
	res.stderr = bytes.Join(keep, []byte("\n"))

	raw := e.t.byPath[s.Target].raw
	src := filepath.Clean(s.Target)
	if s.StdinFrom != "" {
		src = "<stdin>"
	}
	ti := -1
	for i := range ms {
		if ms[i].rel == s.Target {
			if ti >= 0 {
				c.Inconclusive("strace: target named twice")
				return ""
			}
			ti = i
		}
	}
	if ti < 0 {
		c.Inconclusive("strace: target not among the mentions")
		return ""
	}
	// what happened to the target
	lastSeek, firstInj := -1, -1
	for i, ev := range evs {
		if ev.kind == "seek" {
			lastSeek = i
		}
		if ev.kind == "inj" && firstInj < 0 {
			firstInj = i
		}
	}
	unjudged := map[string]bool{}
	forceErr := false
	fpo := ""
	switch {
	case firstInj < 0:
		pattern = "no-injection" // K beyond the number of reads: the plain model applies
	case lastSeek >= 0 && firstInj < lastSeek:
		// the -z probe read failed, rare went back to byte 0
		injAfter, okAfter := false, false
		for _, ev := range evs[lastSeek+1:] {
			if ev.kind == "inj" {
				injAfter = true
				break
			}
			if ev.kind == "read" {
				okAfter = true
			}
		}
		_ = okAfter
		m := mention{src: src, rel: s.Target, isFile: true, err: true, fault: "eio"}
		if injAfter && sumReads(evs[lastSeek+1:]) == 0 {
			pattern = "probe-failed-then-failed"
		} else {
			// the file failed while being read (the probe), then was readable: the
			// statement asks for a read error; its delivered lines are not judged
			pattern = "probe-failed-then-readable"
			unjudged[src] = true
			fpo = fpProbeEIO
		}
		ms[ti] = m
		forceErr = true
	default:
		n := sumReads(evs[lastSeek+1:]) // after a seek back to byte 0 the file is read again from its start
		if n > len(raw) {
			c.Inconclusive("strace log reports more bytes than the file holds")
			return ""
		}
		m := mention{src: src, rel: s.Target, isFile: true, err: true, fault: "eio"}
		data := raw[:n]
		if n == 0 {
			pattern = "failed-before-any-byte"
		} else if s.Gunzip && lastSeek < 0 {
			// gzip accepted: decode the compressed prefix
			d, _ := deliver(data, true)
			if _, err := gzip.NewReader(bytes.NewReader(data)); err != nil {
				c.Inconclusive("strace: compressed prefix shorter than a gzip header")
				return ""
			}
			data = d
			pattern = "gzip-prefix"
		} else if lastSeek >= 0 {
			pattern = "plain-after-probe-prefix"
		} else {
			pattern = "plain-prefix"
		}
		fillLines(&m, data, true)
		ms[ti] = m
		forceErr = true
	}
	save, saveC := e.fpo, e.fpoC
	if fpo != "" {
		e.fpo, e.fpoC = fpo, map[string]bool{"read-error-not-reported": true}
	}
	e.judge(s, ms, unjudged, forceErr, res)
	e.fpo, e.fpoC = save, saveC
	c.Count("strace_runs", 1)
	c.Count("strace:"+pattern, 1)
	return pattern
}

func sumReads(evs []sev) int {
	n := 0
	for _, ev := range evs {
		if ev.kind == "inj" {
			break
		}
		if ev.kind == "read" {
			n += ev.n
		}
	}
	return n
}
