package p06

import (
	"bytes"
	"context"
	"fmt"
	"os"
	"os/exec"
	"path/filepath"
	"strings"
	"time"

	"verifharness/internal/run"
)

// followMissing: "an input that cannot be opened ... is counted as a read error and makes the exit
// status 2" also holds for the follow batcher (-f): a path that does not exist cannot be followed
// (without -F there is nothing to wait for), the run ends and exits 2. With a second, existing input the
// run keeps following that one, so only the all-missing shapes are run here; the other clauses of follow
// mode belong to C15.
func followMissing(c *run.Ctx) {
	if c.Shard != 0 {
		return
	}
	dir, err := os.MkdirTemp(c.WorkDir, "follow")
	if err != nil {
		c.Inconclusive("scratch dir: " + err.Error())
		return
	}
	defer os.RemoveAll(dir)
	shapes := [][]string{
		{"filter", "-f", "MISSING"},
		{"filter", "-f", "--poll", "MISSING"},
		{"filter", "-f", "--tail", "MISSING"},
		{"histo", "-f", "-e", "{0}", "MISSING"},
		{"filter", "-f", "MISSING", "MISSING2"},
	}
	for i, sh := range shapes {
		args := []string{"--nocolor"}
		for _, a := range sh {
			switch a {
			case "MISSING":
				a = filepath.Join(dir, "does-not-exist.log")
			case "MISSING2":
				a = filepath.Join(dir, "nor-this.log")
			}
			args = append(args, a)
		}
		cs := Case{Kind: "follow-missing", Index: i, Seed: c.Seed, Tier: c.Tier}
		c.Begin(cs, 5*time.Minute)
		ctx, cancel := context.WithTimeout(context.Background(), 120*time.Second)
		cmd := exec.CommandContext(ctx, c.RareBin, args...)
		var so, se bytes.Buffer
		cmd.Stdout, cmd.Stderr = &so, &se
		cmd.Stdin = nil
		err := cmd.Run()
		timedOut := ctx.Err() != nil
		cancel()
		c.End()
		c.Count("cli_runs", 1)
		c.Count("follow_missing_runs", 1)
		if timedOut {
			c.Inconclusive(fmt.Sprintf("rare %s did not end within 120 s (no stuck-state evidence is taken here)", strings.Join(sh, " ")))
			continue
		}
		code := 0
		if ee, ok := err.(*exec.ExitError); ok {
			code = ee.ExitCode()
		} else if err != nil {
			c.Inconclusive("cannot run rare: " + err.Error())
			continue
		}
		if strings.Contains(se.String(), "panic:") {
			c.Violation("crash:follow-missing", fmt.Sprintf("rare %s crashed: %s", strings.Join(sh, " "), tail(se.String(), 1200)), cs)
			continue
		}
		if code != 2 {
			c.Violation("read-error-not-reported:follow-missing:"+run.Hash64(strings.Join(sh, " ")), fmt.Sprintf("rare %s (the path does not exist): exit status %d, expected 2 (an input that cannot be opened is a read error); stderr %s",
				strings.Join(sh, " "), code, run.Q(tail(se.String(), 400))), cs)
		}
	}
}
