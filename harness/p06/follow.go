package p06

import (
	"bytes"
	"context"
	"fmt"
	"os"
	"os/exec"
	"path/filepath"
	"strings"
	"sync"
	"time"

	"verifharness/internal/run"
)

// followMissing: "an input that cannot be opened ... is counted as a read error and makes the exit
// status 2" also holds for the follow batcher (-f): a path that does not exist cannot be followed
// (without -F there is nothing to wait for), the run ends and exits 2. With a second, existing input the
// run keeps following that one, so only the all-missing shapes are run here; the other clauses of follow
// mode belong to C15.
func followMissing(c *run.Ctx) {
	if c.Shard != 0 {
		return
	}
	dir, err := os.MkdirTemp(c.WorkDir, "follow")
	if err != nil {
		c.Inconclusive("scratch dir: " + err.Error())
		return
	}
	defer os.RemoveAll(dir)
	shapes := [][]string{
		{"filter", "-f", "MISSING"},
		{"filter", "-f", "--poll", "MISSING"},
		{"filter", "-f", "--tail", "MISSING"},
		{"histo", "-f", "-e", "{0}", "MISSING"},
		{"filter", "-f", "MISSING", "MISSING2"},
	}
	for i, sh := range shapes {
		args := []string{"--nocolor"}
		for _, a := range sh {
			switch a {
			case "MISSING":
				a = filepath.Join(dir, "does-not-exist.log")
			case "MISSING2":
				a = filepath.Join(dir, "nor-this.log")
			}
			args = append(args, a)
		}
		cs := Case{Kind: "follow-missing", Index: i, Seed: c.Seed, Tier: c.Tier}
		c.Begin(cs, 5*time.Minute)
		ctx, cancel := context.WithTimeout(context.Background(), 120*time.Second)
		cmd := exec.CommandContext(ctx, c.RareBin, args...)
		var so, se bytes.Buffer
		cmd.Stdout, cmd.Stderr = &so, &se
		cmd.Stdin = nil
		err := cmd.Run()
		timedOut := ctx.Err() != nil
		cancel()
		c.End()
		c.Count("cli_runs", 1)
		c.Count("follow_missing_runs", 1)
		if timedOut {
			c.Inconclusive(fmt.Sprintf("rare %s did not end within 120 s (no stuck-state evidence is taken here)", strings.Join(sh, " ")))
			continue
		}
		code := 0
		if ee, ok := err.(*exec.ExitError); ok {
			code = ee.ExitCode()
		} else if err != nil {
			c.Inconclusive("cannot run rare: " + err.Error())
			continue
		}
		if strings.Contains(se.String(), "panic:") {
			c.Violation("crash:follow-missing", fmt.Sprintf("rare %s crashed: %s", strings.Join(sh, " "), tail(se.String(), 1200)), cs)
			continue
		}
		if code != 2 {
			c.Violation("read-error-not-reported:follow-missing:"+run.Hash64(strings.Join(sh, " ")), fmt.Sprintf("rare %s (the path does not exist): exit status %d, expected 2 (an input that cannot be opened is a read error); stderr %s",
				strings.Join(sh, " "), code, run.Q(tail(se.String(), 400))), cs)
		}
	}
}

// followPresent: the other side of the same clause - following a file that CAN be opened is not a read error. The file
// is followed (-f, with and without --tail and --poll), lines are appended until one of them comes out (so the follower
// is known to be running), the file is removed, plain follow ends the stream, and the exit status is the scan's: 0 when
// a line matched, 1 when the pattern matches nothing. Never 2.
func followPresent(c *run.Ctx) {
	if c.Shard != 0 {
		return
	}
	dir, err := os.MkdirTemp(c.WorkDir, "followp")
	if err != nil {
		c.Inconclusive("scratch dir: " + err.Error())
		return
	}
	defer os.RemoveAll(dir)
	type shape struct {
		flags   []string
		match   string
		wantOut bool
	}
	shapes := []shape{
		{[]string{"-f"}, "line", true}, {[]string{"-f", "--tail"}, "line", true}, {[]string{"-f", "--poll"}, "line", true},
		{[]string{"-f", "--poll", "--tail"}, "line", true}, {[]string{"-f"}, "ZZNOMATCHZZ", false}, {[]string{"-f", "--tail"}, "ZZNOMATCHZZ", false},
	}
	for i, sh := range shapes {
		path := filepath.Join(dir, fmt.Sprintf("present%d.log", i))
		if err := os.WriteFile(path, []byte("line 0\nline 1\n"), 0o644); err != nil {
			c.Inconclusive("scratch file: " + err.Error())
			return
		}
		args := append([]string{"--nocolor", "filter", "-m", sh.match, "--batch", "1"}, sh.flags...)
		args = append(args, path)
		cs := Case{Kind: "follow-present", Index: i, Seed: c.Seed, Tier: c.Tier}
		c.Begin(cs, 5*time.Minute)
		ctx, cancel := context.WithTimeout(context.Background(), 180*time.Second)
		cmd := exec.CommandContext(ctx, c.RareBin, args...)
		var so, se syncBuf
		cmd.Stdout, cmd.Stderr = &so, &se
		if err := cmd.Start(); err != nil {
			cancel()
			c.End()
			c.Inconclusive("cannot run rare: " + err.Error())
			continue
		}
		done := make(chan error, 1)
		go func() { done <- cmd.Wait() }()
		// wait until the follower holds the file open (its /proc fd table names the path): removing the file before
		// that would be the follow-missing case, not this one
		opened := false
		for k := 0; k < 1200 && !opened; k++ {
			if ents, err := os.ReadDir(fmt.Sprintf("/proc/%d/fd", cmd.Process.Pid)); err == nil {
				for _, e := range ents {
					if l, err := os.Readlink(fmt.Sprintf("/proc/%d/fd/%s", cmd.Process.Pid, e.Name())); err == nil && l == path {
						opened = true
					}
				}
			}
			if !opened {
				time.Sleep(50 * time.Millisecond)
			}
		}
		// append until the follower shows a line appended after its start (or, when nothing can match, for a fixed number of appends)
		f, _ := os.OpenFile(path, os.O_APPEND|os.O_WRONLY, 0o644)
		seen := false
		for k := 0; opened && k < 1200 && !seen; k++ {
			fmt.Fprintf(f, "line appended %d\n", k)
			time.Sleep(50 * time.Millisecond)
			if sh.wantOut {
				seen = strings.Contains(so.String(), "line appended")
			} else if k >= 12 {
				break
			}
		}
		f.Close()
		os.Remove(path)
		var werr error
		select {
		case werr = <-done:
		case <-ctx.Done():
			werr = <-done
		}
		timedOut := ctx.Err() != nil
		cancel()
		c.End()
		c.Count("cli_runs", 1)
		c.Count("follow_present_runs", 1)
		what := "rare " + strings.Join(args[:len(args)-1], " ") + " FILE"
		if timedOut {
			c.Note(what + " did not end within 180 s after the file was removed (C15 owns that clause; not judged here)")
			continue
		}
		if !opened {
			c.Note(what + ": the follower did not open the file within 60 s (load); not judged")
			continue
		}
		if sh.wantOut && !seen {
			c.Note(what + ": no appended line came out within 60 s of appends (C15 owns delivery; the exit status is not judged)")
			continue
		}
		code := 0
		if ee, ok := werr.(*exec.ExitError); ok {
			code = ee.ExitCode()
		} else if werr != nil {
			c.Inconclusive("cannot run rare: " + werr.Error())
			continue
		}
		if strings.Contains(se.String(), "panic:") {
			c.Violation("crash:follow-present", what+" crashed: "+tail(se.String(), 1200), cs)
			continue
		}
		want := 1
		if sh.wantOut {
			want = 0
		}
		if code != want {
			c.Violation("exit-status:follow-present:"+run.Hash64(strings.Join(args[:len(args)-1], " ")), fmt.Sprintf("%s (the file exists, is followed and is then removed; no input failed): exit status %d, expected %d; stderr %s",
				what, code, want, run.Q(tail(se.String(), 400))), cs)
		}
	}
}

type syncBuf struct {
	mu sync.Mutex
	b  bytes.Buffer
}

func (s *syncBuf) Write(p []byte) (int, error) { s.mu.Lock(); defer s.mu.Unlock(); return s.b.Write(p) }
func (s *syncBuf) String() string             { s.mu.Lock(); defer s.mu.Unlock(); return s.b.String() }
