package p06

import (
	"fmt"
	"os"
	"strings"

	"verifharness/internal/run"
)

// Hand-written shapes that are always executed. Each run states the exit status
// and the number of lines read by hand; the model must agree with them (a
// disagreement is a defect of this check and reported as inconclusive).

var pinnedNames = []string{
	"same-path-twice", "walk-depth-4", "dir-without-R", "missing-among-good", "all-fail",
	"gunzip-kinds", "gunzip-damaged", "exit-precedence", "glob-forms", "meta-names", "stdin-forms",
	"malformed-pattern", "probe-eio",
}

type prun struct {
	spec     runSpec
	stdin    []byte
	wantCode int
	wantR    int // lines read by inputs that are judged; -1 = not stated
}

func text(id, n int) []byte {
	var b []byte
	for i := 1; i <= n; i++ {
		b = append(b, fmt.Sprintf("F%d %d 1 K line\n", id, i)...)
	}
	return b
}

func paths(rels ...string) []argSpec {
	var a []argSpec
	for _, r := range rels {
		a = append(a, argSpec{Rel: r, Form: "path"})
	}
	return a
}

func runPinned(e *env, name string) {
	c := e.c
	r := run.NewRand(uint64(99), "C06pinned", name)
	t := newTree()
	e.t = t
	var runs []prun
	filter := func(args []argSpec) runSpec { return runSpec{Cmd: "filter", Args: args, Readers: 2, Batch: 2} }
	switch name {
	case "same-path-twice":
		t.addFile("", "a.log", "plain", text(1, 3))
		t.addFile("", "b.log", "plain", text(2, 2))
		s := filter(paths("a.log", "a.log", "b.log"))
		s.Args = append(s.Args, argSpec{Prefix: "./", Rel: "a.log", Form: "dup"}, argSpec{Rel: "*.log", Form: "glob"})
		runs = append(runs, prun{spec: s, wantCode: 0, wantR: 3*4 + 2*2})
	case "walk-depth-4":
		t.addDir("", "d1")
		t.addDir("d1", "d2")
		t.addDir("d1/d2", "d 3")
		t.addDir("d1/d2/d 3", "d[4]")
		t.addDir("d1", "emptydir")
		t.addFile("d1", "top.log", "plain", text(1, 2))
		t.addFile("d1", ".hidden", "plain", text(2, 1))
		t.addFile("d1/d2", "empty", "empty", nil)
		t.addFile("d1/d2/d 3", "mid.txt", "plain", []byte("F3 1 1 no newline at end"))
		t.addFile("d1/d2/d 3/d[4]", "deep.log", "plain", text(4, 5))
		t.addFile("", "outside.log", "plain", text(5, 7))
		s := filter([]argSpec{{Rel: "d1", Form: "walk"}})
		s.Recursive = true
		runs = append(runs, prun{spec: s, wantCode: 0, wantR: 2 + 1 + 0 + 1 + 5})
		s2 := filter([]argSpec{{Rel: "d1/d2", Suffix: "/", Form: "walk"}, {Rel: "outside.log", Form: "path"}, {Rel: "d1/emptydir", Form: "walk"}})
		s2.Recursive = true
		runs = append(runs, prun{spec: s2, wantCode: 0, wantR: 0 + 1 + 5 + 7})
		s3 := filter([]argSpec{{Rel: "d1/emptydir", Form: "walk"}})
		s3.Recursive = true
		runs = append(runs, prun{spec: s3, wantCode: 1, wantR: 0})
	case "dir-without-R":
		t.addDir("", "d1")
		t.addFile("d1", "in.log", "plain", text(1, 2))
		t.addFile("", "a.log", "plain", text(2, 3))
		t.addFile("", "b.log", "plain", text(3, 1200))
		s := filter([]argSpec{{Rel: "a.log", Form: "path"}, {Rel: "d1", Form: "dir"}, {Rel: "b.log", Form: "path"}})
		runs = append(runs, prun{spec: s, wantCode: 2, wantR: 3 + 1200})
		z := s
		z.Gunzip = true
		runs = append(runs, prun{spec: z, wantCode: 2, wantR: 3 + 1200})
	case "missing-among-good":
		for i := 1; i <= 5; i++ {
			t.addFile("", fmt.Sprintf("g%d.log", i), "plain", text(i, 400*i))
		}
		for pos := 0; pos <= 5; pos++ {
			var a []argSpec
			for i := 1; i <= 5; i++ {
				if i-1 == pos {
					a = append(a, argSpec{Rel: "nope.log", Form: "missing"})
				}
				a = append(a, argSpec{Rel: fmt.Sprintf("g%d.log", i), Form: "path"})
			}
			if pos == 5 {
				a = append(a, argSpec{Rel: "nope.log", Form: "missing"})
			}
			s := filter(a)
			s.Readers = 1 + pos%2
			s.Batch = 100
			runs = append(runs, prun{spec: s, wantCode: 2, wantR: 400 * 15})
		}
	case "all-fail":
		t.addDir("", "d1")
		s := filter([]argSpec{{Rel: "nope.log", Form: "missing"}, {Rel: "d1", Form: "dir"}, {Special: "procmem", Form: "procmem"}, {Rel: "*.nomatch", Form: "dangling"}})
		s.Readers = 1
		runs = append(runs, prun{spec: s, wantCode: 2, wantR: 0})
		h := s
		h.Cmd = "histo"
		runs = append(runs, prun{spec: h, wantCode: 2, wantR: 0})
	case "gunzip-kinds":
		t.addFile("", "plain.log", "plain", text(1, 300)) // larger than the 4 KiB the probe consumes
		t.addFile("", "one.gz", "gz", gz(r, text(2, 4)))
		t.addFile("", "multi.gz", "gzmulti", append(gz(r, text(3, 2)), gz(r, []byte("F3 3 1 third\nF3 4 1 K"))...))
		t.addFile("", "empty", "empty", nil)
		t.addFile("", "tiny", "tiny", []byte("ab\ncd"))
		t.addFile("", "magic", "magic", append([]byte{0x1f, 0x8b, 'x'}, text(6, 3)...))
		s := filter(paths("plain.log", "one.gz", "multi.gz", "empty", "tiny", "magic"))
		s.Gunzip = true
		runs = append(runs, prun{spec: s, wantCode: 0, wantR: 300 + 4 + 4 + 0 + 2 + 3})
		s1 := s
		s1.Readers, s1.Batch = 1, 1000
		runs = append(runs, prun{spec: s1, wantCode: 0, wantR: 300 + 4 + 4 + 0 + 2 + 3})
		// without -z compressed files are read as they are: only the plain ones are stated by hand
		s2 := filter(paths("plain.log", "empty", "tiny"))
		runs = append(runs, prun{spec: s2, wantCode: 0, wantR: 302})
	case "gunzip-damaged":
		t.addFile("", "good1.log", "plain", text(1, 2500))
		z := gz(r, text(2, 50))
		t.addFile("", "trunc.gz", "gztrunc", z[:len(z)-6])
		zc := gz(r, text(3, 50))
		zc[len(zc)-7] ^= 0x40
		t.addFile("", "crc.gz", "gzcorrupt", zc)
		t.addFile("", "good2.gz", "gz", gz(r, text(4, 700)))
		for _, rd := range []int{1, 3} {
			s := filter(paths("good1.log", "trunc.gz", "good2.gz"))
			s.Gunzip, s.Readers = true, rd
			runs = append(runs, prun{spec: s, wantCode: 2, wantR: -1})
			s2 := filter(paths("crc.gz", "good1.log", "good2.gz"))
			s2.Gunzip, s2.Readers = true, rd
			runs = append(runs, prun{spec: s2, wantCode: 2, wantR: 50 + 2500 + 700})
		}
	case "exit-precedence":
		t.addFile("", "nums.log", "plain", []byte("F1 1 3 a\nF1 2 4 K\n"))
		t.addFile("", "bad.log", "plain", []byte("F2 1 abc a\nF2 2 5 b\n"))
		t.addFile("", "other.log", "plain", []byte("not the shape histo looks for\n"))
		mk := func(cmd, match string, rels ...string) runSpec {
			s := filter(nil)
			s.Cmd, s.Match = cmd, match
			for _, x := range rels {
				if x == "nope" {
					s.Args = append(s.Args, argSpec{Rel: "nope", Form: "missing"})
				} else {
					s.Args = append(s.Args, argSpec{Rel: x, Form: "path"})
				}
			}
			return s
		}
		runs = append(runs,
			prun{spec: mk("filter", "", "nums.log"), wantCode: 0, wantR: 2},
			prun{spec: mk("filter", "K", "nums.log"), wantCode: 0, wantR: 2},
			prun{spec: mk("filter", "none", "nums.log"), wantCode: 1, wantR: 2},
			prun{spec: mk("filter", "none", "nums.log", "nope"), wantCode: 2, wantR: 2},
			prun{spec: mk("filter", "", "nope", "nums.log"), wantCode: 2, wantR: 2},
			prun{spec: mk("histo", "", "nums.log"), wantCode: 0, wantR: 2},
			prun{spec: mk("histo", "", "nums.log", "bad.log"), wantCode: 2, wantR: 4},
			prun{spec: mk("histo", "", "other.log"), wantCode: 1, wantR: 1},
			prun{spec: mk("histo", "", "other.log", "nope"), wantCode: 2, wantR: 1},
			prun{spec: mk("histo", "", "bad.log", "nope"), wantCode: 2, wantR: 2},
		)
	case "glob-forms":
		t.addDir("", "d1")
		t.addDir("", "d2")
		t.addFile("", "a1.log", "plain", text(1, 1))
		t.addFile("", "a2.log", "plain", text(2, 2))
		t.addFile("", "b1.log", "plain", text(3, 3))
		t.addFile("", "c1.txt", "plain", text(4, 4))
		t.addFile("d1", "x.log", "plain", text(5, 5))
		t.addFile("d2", "x.log", "plain", text(6, 6))
		t.addFile("d2", "y.log", "plain", text(7, 7))
		g := func(rels ...string) []argSpec {
			var a []argSpec
			for _, x := range rels {
				a = append(a, argSpec{Rel: x, Form: "glob"})
			}
			return a
		}
		runs = append(runs,
			prun{spec: filter(g("*.log")), wantCode: 0, wantR: 6},
			prun{spec: filter(g("a?.log")), wantCode: 0, wantR: 3},
			prun{spec: filter(g("[ab]1.log")), wantCode: 0, wantR: 4},
			prun{spec: filter(g("[a-c]1.*")), wantCode: 0, wantR: 8},
			prun{spec: filter(g("*/x.log")), wantCode: 0, wantR: 11},
			prun{spec: filter(g("d?/*.log", "a1.log")), wantCode: 0, wantR: 19},
			prun{spec: filter(g("d2/*", "*.nomatch")), wantCode: 2, wantR: 13},
			prun{spec: filter(g("d*")), wantCode: 2, wantR: 0}, // matches two directories: read as files they fail
		)
	case "meta-names":
		t.addFile("", "c[1].log", "plain", text(1, 2))
		t.addFile("", "s*r.log", "plain", text(2, 3))
		t.addFile("", "sxr.log", "plain", text(3, 4))
		t.addFile("", "my file.log", "plain", text(4, 5))
		t.addFile("", "q?.log", "plain", text(5, 6))
		runs = append(runs,
			prun{spec: filter(paths("c[1].log")), wantCode: 0, wantR: 2},         // matches nothing as a pattern: the literal file
			prun{spec: filter(paths("s*r.log")), wantCode: 0, wantR: 7},          // a pattern: both files
			prun{spec: filter(paths("my file.log", "q?.log")), wantCode: 0, wantR: 11}, // q?.log matches itself
		)
	case "stdin-forms":
		d := text(1, 3)
		s := runSpec{Cmd: "filter", Stdin: true}
		runs = append(runs, prun{spec: s, stdin: d, wantCode: 0, wantR: 3})
		s.Dash = true
		runs = append(runs, prun{spec: s, stdin: d, wantCode: 0, wantR: 3})
		s.Match = "none"
		runs = append(runs, prun{spec: s, stdin: d, wantCode: 1, wantR: 3})
		runs = append(runs, prun{spec: runSpec{Cmd: "filter", Stdin: true, Dash: true}, stdin: []byte{}, wantCode: 1, wantR: 0})
	case "malformed-pattern":
		// KNOWN DEFECT witness (regression case once fixed): a path that is not a well-formed
		// pattern is neither read nor counted as a read error
		e.fpo, e.fpoC = fpBadPattern, map[string]bool{"mention-count": true, "summary": true, "read-error-not-reported": true, "exit-status": true}
		t.addFile("", "a[.log", "plain", text(1, 2))
		t.addFile("", "x.log", "plain", text(2, 3))
		runs = append(runs,
			prun{spec: filter([]argSpec{{Rel: "a[.log", Form: "badpat"}, {Rel: "x.log", Form: "path"}}), wantCode: 0, wantR: 5},
			prun{spec: filter([]argSpec{{Rel: "nosuch[.log", Form: "badpat"}}), wantCode: 2, wantR: 0},
		)
	case "doublestar":
		runDoubleStar(e)
		return
	case "probe-eio":
		runProbeEIO(e, r)
		return
	}
	if err := t.materialise(e.root); err != nil {
		c.Inconclusive("materialise: " + err.Error())
		return
	}
	for i := range runs {
		if halt {
			return
		}
		p := &runs[i]
		ms, ok := e.expand(&p.spec, p.stdin)
		if !ok {
			c.Inconclusive(fmt.Sprintf("pinned %s run %d: the model cannot decide a hand-written argument", name, i))
			continue
		}
		e.lastWantCode, e.lastR = -1, -1
		e.exec(&p.spec, p.stdin, ms, nil, false)
		if e.lastWantCode >= 0 && (e.lastWantCode != p.wantCode || (p.wantR >= 0 && e.lastR != p.wantR)) {
			c.Inconclusive(fmt.Sprintf("self-check: pinned %s run %d: model expects exit %d / %d lines, stated by hand %d / %d",
				name, i, e.lastWantCode, e.lastR, p.wantCode, p.wantR))
		}
		c.Count("pinned_runs", 1)
	}
}

// runDoubleStar: docs/usage/input.md: "rare <aggregator> path/**/*.log — In this
// case, all *.log files in any nested directory under path/ will be read."
// KNOWN DEFECT witness: files more than one level below path/ are not read.
func runDoubleStar(e *env) {
	t := e.t
	// the promise is judged only while the documentation shipped inside the binary makes it
	d := spawn([]string{e.c.RareBin, "--nocolor", "docs", "input"}, e.c.WorkDir, os.Environ(), nil, nil, false, spawnLimit)
	doc := strings.Join(strings.Fields(string(d.stdout)), " ")
	if d.startErr != nil || d.timedOut || !strings.Contains(doc, "path/**/*.log") || !strings.Contains(doc, "in any nested directory under") {
		e.c.Note("doublestar: `rare docs input` does not promise that path/**/*.log reads every nested directory: not judged")
		return
	}
	t.addDir("", "path")
	t.addDir("path", "a")
	t.addDir("path/a", "b")
	t.addDir("path/a/b", "c")
	t.addDir("path", "d")
	t.addFile("path/a", "one.log", "plain", text(1, 2))
	t.addFile("path/a/b", "two.log", "plain", text(2, 3))
	t.addFile("path/a/b/c", "three.log", "plain", text(3, 4))
	t.addFile("path/d", "four.log", "plain", text(4, 5))
	t.addFile("path/d", "skip.txt", "plain", text(5, 6))
	if err := t.materialise(e.root); err != nil {
		e.c.Inconclusive("materialise: " + err.Error())
		return
	}
	e.fpo, e.fpoC = fpDoubleStar, map[string]bool{"mention-count": true, "summary": true}
	s := runSpec{Cmd: "filter", Readers: 2, Args: []argSpec{{Rel: "path/**/*.log", Form: "glob"}}}
	var ms []mention
	for _, f := range []string{"path/a/one.log", "path/a/b/two.log", "path/a/b/c/three.log", "path/d/four.log"} {
		ms = append(ms, t.mentionFile(f, f, false))
	}
	e.exec(&s, nil, ms, nil, false)
	e.c.Count("pinned_runs", 1)
}

// runProbeEIO (thorough tier, needs strace): with -z the first read of a gzip
// file fails once with EIO; the statement asks for a read error (exit 2).
// KNOWN DEFECT witness: the failure is taken for "not gzip", the compressed
// bytes are delivered as text and the exit status is 0.
func runProbeEIO(e *env, r *run.Rand) {
	c := e.c
	if c.Tier != "thorough" {
		return
	}
	t := e.t
	t.addFile("", "good.log", "plain", text(1, 3))
	t.addFile("", "target.gz", "gz", gz(r, text(2, 40)))
	if err := t.materialise(e.root); err != nil {
		c.Inconclusive("materialise: " + err.Error())
		return
	}
	for try := 0; try < 8; try++ {
		s := runSpec{Cmd: "filter", Gunzip: true, Readers: 1, Procs: 1, Args: paths("good.log", "target.gz"),
			Target: "target.gz", When: 1, Persistent: false}
		pat := e.straceRun(&s)
		c.Count("pinned_runs", 1)
		if pat == "probe-failed-then-readable" || pat == "" || pat == "failed-before-any-byte" {
			return // the defect shown / inconclusive / (fixed tree) the failed probe is final
		}
		// strace counts invocations per thread: when the retry ran on another thread it failed again
	}
	c.Note("probe-eio witness: the transient pattern (probe read fails, re-read succeeds) was not produced in 8 attempts")
}
