package p06

import (
	"bytes"
	"compress/gzip"
	"fmt"
	"os"
	"path/filepath"
	"sort"
	"strings"

	"verifharness/internal/run"
)

// ---------------------------------------------------------------- tree model

type node struct {
	name string
	dir  bool
	kids []*node // directories only, in creation order
	raw  []byte  // bytes on disk (files only)
	kind string  // plain | empty | tiny | gz | gzmulti | gztrunc | gzcorrupt | gzgarbage | magic
	id   int
}

type tree struct {
	root   *node
	byPath map[string]*node // "" = root, "a/b" ...
	files  []string         // rel paths of files, creation order
	dirs   []string         // rel paths of directories (without root), creation order
	nextID int
}

func newTree() *tree {
	t := &tree{root: &node{dir: true}, byPath: map[string]*node{}}
	t.byPath[""] = t.root
	return t
}

func join(dir, name string) string {
	if dir == "" {
		return name
	}
	return dir + "/" + name
}

func (t *tree) addDir(parent, name string) string {
	p := t.byPath[parent]
	for _, k := range p.kids {
		if k.name == name {
			return join(parent, name)
		}
	}
	n := &node{name: name, dir: true}
	p.kids = append(p.kids, n)
	rel := join(parent, name)
	t.byPath[rel] = n
	t.dirs = append(t.dirs, rel)
	return rel
}

// addFile returns "" when the name is already taken in that directory.
func (t *tree) addFile(parent, name, kind string, raw []byte) string {
	p := t.byPath[parent]
	for _, k := range p.kids {
		if k.name == name {
			return ""
		}
	}
	t.nextID++
	n := &node{name: name, raw: raw, kind: kind, id: t.nextID}
	p.kids = append(p.kids, n)
	rel := join(parent, name)
	t.byPath[rel] = n
	t.files = append(t.files, rel)
	return rel
}

// filesBelow lists every regular file below a directory (any depth).
func (t *tree) filesBelow(rel string) []string {
	var out []string
	var walk func(rel string, n *node)
	walk = func(rel string, n *node) {
		for _, k := range n.kids {
			kr := join(rel, k.name)
			if k.dir {
				walk(kr, k)
			} else {
				out = append(out, kr)
			}
		}
	}
	if n := t.byPath[rel]; n != nil && n.dir {
		walk(rel, n)
	}
	return out
}

func (t *tree) materialise(root string) error {
	if err := os.MkdirAll(root, 0o755); err != nil {
		return err
	}
	for _, d := range t.dirs {
		if err := os.MkdirAll(filepath.Join(root, filepath.FromSlash(d)), 0o755); err != nil {
			return err
		}
	}
	for _, f := range t.files {
		if err := os.WriteFile(filepath.Join(root, filepath.FromSlash(f)), t.byPath[f].raw, 0o644); err != nil {
			return err
		}
	}
	return nil
}

// ---------------------------------------------------------------- content

type textOpts struct {
	lines     int
	crlf      bool
	blanks    bool
	noTrail   bool
	badIncs   bool // some increments are not numbers (parse errors in histo)
	noK       bool // no line carries the K tag
	longLine  int  // >0: one line padded to that many bytes
	lineBytes int  // payload size
	align     int  // >0: every line, terminator included, is exactly this many bytes (a divisor of the 128 KiB read buffer)
}

// genText writes self-identifying lines "F<id> <n> <inc> <payload>".
func genText(r *run.Rand, id int, o textOpts) []byte {
	var b bytes.Buffer
	eol := "\n"
	if o.crlf {
		eol = "\r\n"
	}
	longAt := -1
	if o.longLine > 0 && o.lines > 0 {
		longAt = r.Intn(o.lines)
	}
	for n := 1; n <= o.lines; n++ {
		if o.blanks && r.Intn(7) == 0 {
			b.WriteString(eol)
			continue
		}
		inc := fmt.Sprint(r.Range(1, 9))
		if o.badIncs && r.Intn(3) == 0 {
			inc = r.Pick([]string{"abc", "x7", "12q"})
		}
		pl := o.lineBytes
		if pl <= 0 {
			pl = r.Range(0, 24)
		}
		if n-1 == longAt {
			pl = o.longLine
		}
		if o.align > 0 {
			pl = o.align - len(fmt.Sprintf("F%d %d %s ", id, n, inc)) - len(eol)
			if pl < 0 {
				pl = 0
			}
		}
		pay := r.Bytes(pl, []byte("abcdefghijklmnopqrstuvwxyz0123456789 _-"))
		if !o.noK && r.Bool() {
			if len(pay) == 0 {
				pay = []byte("K")
			} else {
				pay[r.Intn(len(pay))] = 'K'
			}
		}
		fmt.Fprintf(&b, "F%d %d %s %s", id, n, inc, pay)
		if n < o.lines || !o.noTrail {
			b.WriteString(eol)
		}
	}
	return b.Bytes()
}

func randText(r *run.Rand, id int, big bool) []byte {
	o := textOpts{crlf: r.Intn(6) == 0, blanks: r.Intn(4) == 0, noTrail: r.Intn(4) == 0,
		badIncs: r.Intn(7) == 0, noK: r.Intn(4) == 0}
	switch r.Intn(10) {
	case 0:
		o.lines = 1
	case 1, 2, 3:
		o.lines = r.Range(2, 6)
	case 4, 5, 6:
		o.lines = r.Range(7, 60)
	case 7:
		o.lines = r.Range(900, 2600) // beyond the default batch of 1000
	case 8:
		o.lines = r.Range(3, 30)
		o.longLine = r.Range(130*1024, 200*1024) // longer than the 128 KiB read-ahead buffer
	case 9:
		if r.Intn(3) == 0 {
			// fixed-width records: a newline falls on the last byte of every completely filled 128 KiB read buffer
			o.lines, o.align = r.Range(2100, 4500), []int{32, 64, 128}[r.Intn(3)]
			o.blanks, o.noTrail, o.badIncs = false, false, false
		} else {
			o.lines = r.Range(1, 12)
		}
	default:
		o.lines = r.Range(1, 12)
	}
	if big {
		o.lines = r.Range(4000, 9000)
		o.lineBytes = r.Range(30, 60)
	}
	return genText(r, id, o)
}

func gz(r *run.Rand, data []byte) []byte {
	var b bytes.Buffer
	lvl := []int{gzip.BestSpeed, gzip.DefaultCompression, gzip.BestCompression, gzip.NoCompression, gzip.HuffmanOnly}[r.Intn(5)]
	w, _ := gzip.NewWriterLevel(&b, lvl)
	if r.Intn(3) == 0 {
		w.Name = "orig.log"
	}
	if r.Intn(5) == 0 {
		w.Comment = "generated"
	}
	w.Write(data)
	w.Close()
	return b.Bytes()
}

// genFileContent picks a kind and produces the bytes on disk.
func genFileContent(r *run.Rand, id int) (kind string, raw []byte) {
	switch r.Intn(20) {
	case 0:
		return "empty", nil
	case 1:
		// fewer than 10 bytes: shorter than a gzip header
		s := r.Pick([]string{"a", "a\n", "ab\ncd", "K\n\nK\n", "\n", "F 1 1 K", "\r\n", "x y z\n"})
		return "tiny", []byte(s)
	case 2, 3, 4:
		return "gz", gz(r, randText(r, id, false))
	case 5:
		txt := randText(r, id, false)
		parts := r.Range(2, 3)
		var out []byte
		for p := 0; p < parts; p++ {
			lo, hi := len(txt)*p/parts, len(txt)*(p+1)/parts
			out = append(out, gz(r, txt[lo:hi])...) // a cut may fall inside a line: members concatenate
		}
		return "gzmulti", out
	case 6:
		z := gz(r, randText(r, id, false))
		var cut int
		switch r.Intn(4) {
		case 0:
			cut = r.Range(1, 9) // inside the fixed header
		case 1:
			cut = len(z) - r.Range(1, 8) // inside the trailer
		default:
			cut = r.Range(10, len(z)-1)
		}
		if cut < 1 {
			cut = 1
		}
		if cut >= len(z) {
			cut = len(z) - 1
		}
		return "gztrunc", z[:cut]
	case 7:
		z := gz(r, randText(r, id, false))
		if r.Bool() {
			// damage the CRC / size trailer
			z[len(z)-r.Range(1, 8)] ^= 0x5a
		} else if len(z) > 40 {
			z[r.Range(20, len(z)-9)] ^= byte(1 << r.Intn(8))
		} else {
			z[len(z)-1] ^= 0x01
		}
		return "gzcorrupt", z
	case 8:
		if r.Intn(3) == 0 {
			return "gzgarbage", append(gz(r, randText(r, id, false)), []byte("trailing garbage\n")...)
		}
		// looks like gzip for two bytes, then is not
		return "magic", append([]byte{0x1f, 0x8b, 'x'}, randText(r, id, false)...)
	default:
		return "plain", randText(r, id, false)
	}
}

// ---------------------------------------------------------------- tree generator

type treeOpts struct {
	maxFiles int
	allowBad bool // names with an unclosed '[' (malformed glob patterns)
}

var dirNames = []string{"d1", "d2", "d3", "logs", "my dir", "d[1]", "q?d", "s*d", ".hid", "é", "sub"}
var fileBases = []string{"a", "b", "c", "app", "web", "x1", "x2", "db 1", "c[1]", "c1", "v[ab]", "va", "s*r", "sxr",
	"q?x", "qzx", "x]y", ".dot", "日本", "it's", "r(1)", "m&m", "a-b", "A", "access", "error"}
var fileExts = []string{".log", ".log", ".txt", ".gz", ".log.gz", "", ".1"}
var badBases = []string{"a[", "k[z", "[open"}

func genTree(r *run.Rand, o treeOpts) *tree {
	t := newTree()
	var build func(rel string, depth int)
	build = func(rel string, depth int) {
		nf := r.Range(0, 4)
		if depth == 0 {
			nf = r.Range(1, 4)
		}
		for i := 0; i < nf && len(t.files) < o.maxFiles; i++ {
			base := fileBases[r.Intn(len(fileBases))]
			if o.allowBad && r.Intn(12) == 0 {
				base = badBases[r.Intn(len(badBases))]
			}
			name := base + fileExts[r.Intn(len(fileExts))]
			kind, raw := genFileContent(r, t.nextID+1)
			t.addFile(rel, name, kind, raw)
		}
		if depth >= 4 {
			return
		}
		nd := 0
		switch depth {
		case 0:
			nd = r.Range(1, 3)
		case 1:
			nd = r.Range(0, 2)
		default:
			nd = r.Range(0, 1)
		}
		for i := 0; i < nd; i++ {
			dn := dirNames[r.Intn(len(dirNames))]
			if o.allowBad && r.Intn(25) == 0 {
				dn = "b[d"
			}
			if t.byPath[join(rel, dn)] != nil {
				continue
			}
			d := t.addDir(rel, dn)
			build(d, depth+1)
		}
	}
	build("", 0)
	for len(t.files) < 3 {
		kind, raw := genFileContent(r, t.nextID+1)
		t.addFile("", fmt.Sprintf("fill%d.log", len(t.files)), kind, raw)
	}
	return t
}

// ---------------------------------------------------------------- glob reference
//
// Written from the usual meaning of shell-style patterns, per path segment:
// '*' any run of characters, '?' exactly one character, '[abc]' / '[a-c]' one
// character of the set, everything else itself; a separator is never matched by
// a wildcard. Constructs whose meaning differs between glob dialects (negated
// sets, escapes, sets starting with ']' or '-', "**") are reported as
// unsupported so the generator can stay away from them.

const (
	patOK = iota
	patBad
	patUnsupported
)

type rng struct{ lo, hi rune }
type segTok struct {
	kind int // 0 literal, 1 star, 2 one, 3 set
	lit  rune
	set  []rng
}

func hasMeta(s string) bool { return strings.ContainsAny(s, "*?[") }

func parseSeg(p string) ([]segTok, int) {
	rs := []rune(p)
	var out []segTok
	for i := 0; i < len(rs); i++ {
		switch rs[i] {
		case '\\':
			return nil, patUnsupported
		case '*':
			if i+1 < len(rs) && rs[i+1] == '*' {
				return nil, patUnsupported
			}
			out = append(out, segTok{kind: 1})
		case '?':
			out = append(out, segTok{kind: 2})
		case '[':
			j := i + 1
			for j < len(rs) && rs[j] != ']' {
				j++
			}
			if j >= len(rs) {
				return nil, patBad // unclosed set
			}
			body := rs[i+1 : j]
			if len(body) == 0 || body[0] == '^' || body[0] == '!' || body[0] == '-' || body[len(body)-1] == '-' {
				return nil, patUnsupported
			}
			var set []rng
			for k := 0; k < len(body); k++ {
				if body[k] == '\\' || body[k] == '[' {
					return nil, patUnsupported
				}
				if k+2 < len(body) && body[k+1] == '-' {
					if body[k+2] < body[k] {
						return nil, patUnsupported
					}
					set = append(set, rng{body[k], body[k+2]})
					k += 2
				} else if body[k] == '-' {
					return nil, patUnsupported
				} else {
					set = append(set, rng{body[k], body[k]})
				}
			}
			out = append(out, segTok{kind: 3, set: set})
			i = j
		default:
			out = append(out, segTok{kind: 0, lit: rs[i]})
		}
	}
	return out, patOK
}

func matchToks(toks []segTok, name []rune) bool {
	if len(toks) == 0 {
		return len(name) == 0
	}
	t := toks[0]
	switch t.kind {
	case 1:
		for k := 0; k <= len(name); k++ {
			if matchToks(toks[1:], name[k:]) {
				return true
			}
		}
		return false
	case 2:
		return len(name) > 0 && matchToks(toks[1:], name[1:])
	case 3:
		if len(name) == 0 {
			return false
		}
		for _, g := range t.set {
			if name[0] >= g.lo && name[0] <= g.hi {
				return matchToks(toks[1:], name[1:])
			}
		}
		return false
	default:
		return len(name) > 0 && name[0] == t.lit && matchToks(toks[1:], name[1:])
	}
}

// matchSeg: dotStrict = a leading '.' of the name must be matched by a literal '.'.
func matchSeg(toks []segTok, name string, dotStrict bool) bool {
	if dotStrict && strings.HasPrefix(name, ".") && (len(toks) == 0 || toks[0].kind != 0 || toks[0].lit != '.') {
		return false
	}
	return matchToks(toks, []rune(name))
}

// glob expands a relative pattern over the tree model.
func (t *tree) glob(rel string, dotStrict bool) ([]string, int) {
	segs := strings.Split(rel, "/")
	type fr struct {
		rel string
		n   *node
	}
	front := []fr{{"", t.root}}
	// validate the whole pattern first
	parsed := make([][]segTok, len(segs))
	for i, s := range segs {
		if s == "" || s == "." || s == ".." {
			return nil, patUnsupported
		}
		if hasMeta(s) {
			tk, st := parseSeg(s)
			if st != patOK {
				return nil, st
			}
			parsed[i] = tk
		} else if strings.Contains(s, "\\") {
			return nil, patUnsupported
		}
	}
	for i, s := range segs {
		var next []fr
		for _, f := range front {
			if !f.n.dir {
				continue
			}
			for _, k := range f.n.kids {
				ok := false
				if parsed[i] == nil {
					ok = k.name == s
				} else {
					ok = matchSeg(parsed[i], k.name, dotStrict)
				}
				if ok {
					next = append(next, fr{join(f.rel, k.name), k})
				}
			}
		}
		front = next
	}
	var out []string
	for _, f := range front {
		out = append(out, f.rel)
	}
	sort.Strings(out)
	return out, patOK
}

// ---------------------------------------------------------------- arguments

// argSpec is one command-line input argument: Prefix + Rel + Suffix.
type argSpec struct {
	Prefix  string `json:"prefix,omitempty"` // "", "./" or "<root>/"
	Rel     string `json:"rel"`              // path or pattern relative to the tree root ("." = the root)
	Suffix  string `json:"suffix,omitempty"` // "" or "/"
	Special string `json:"special,omitempty"` // "procmem": /proc/self/mem
	Form    string `json:"form"`             // path | dup | glob | dir | walk | missing | dangling | procmem | badpat
}

func (a argSpec) String() string {
	if a.Special == "procmem" {
		return "/proc/self/mem"
	}
	return a.Prefix + a.Rel + a.Suffix
}

// mention is one expected open+read of an input.
type mention struct {
	src    string   // expected {src}, cleaned
	rel    string   // tree path ("" when not a tree file)
	lines  [][]byte // lines that must be delivered
	frag   []byte   // unterminated bytes in front of a failure: may or may not be delivered
	err    bool     // counts as a read error
	isFile bool
	fault  string // "", missing, eisdir, eio, gzip
}

const (
	expOK = iota
	expAmbiguous
)

// expandArg models one argument: -R on a directory walks it; otherwise the
// argument is a pattern whose matches are read, or, with no match, the
// literal path. status expAmbiguous = the documentation does not decide
// (dot files against wildcards, -R with a pattern that matches a directory,
// unsupported pattern syntax).
func (t *tree) expandArg(a argSpec, recursive, gunzip bool, badLiteral bool) ([]mention, int) {
	if a.Special == "procmem" {
		return []mention{{src: "/proc/self/mem", err: true, fault: "eio"}}, expOK
	}
	srcOf := func(rel string) string {
		if rel == "" {
			rel = "."
		}
		return filepath.Clean(a.Prefix + rel)
	}
	rel := a.Rel
	if rel == "." {
		rel = ""
	}
	if n := t.byPath[rel]; recursive && n != nil && n.dir {
		var out []mention
		for _, f := range t.filesBelow(rel) {
			out = append(out, t.mentionFile(f, srcOf(f), gunzip))
		}
		return out, expOK
	}
	if rel == "" {
		return []mention{{src: srcOf(""), err: true, fault: "eisdir"}}, expOK
	}
	m1, st := t.glob(rel, false)
	if st == patUnsupported {
		return nil, expAmbiguous
	}
	if st == patBad {
		if !badLiteral {
			return nil, expAmbiguous
		}
		m1 = nil // a malformed pattern can only be meant literally
	} else {
		m2, _ := t.glob(rel, true)
		if len(m1) != len(m2) {
			return nil, expAmbiguous
		}
	}
	if len(m1) == 0 {
		m1 = []string{rel} // literal fallback
	}
	var out []mention
	for _, p := range m1 {
		n := t.byPath[p]
		switch {
		case n == nil:
			out = append(out, mention{src: srcOf(p), err: true, fault: "missing"})
		case n.dir:
			if recursive {
				return nil, expAmbiguous
			}
			out = append(out, mention{src: srcOf(p), rel: p, err: true, fault: "eisdir"})
		default:
			out = append(out, t.mentionFile(p, srcOf(p), gunzip))
		}
	}
	return out, expOK
}

func (t *tree) mentionFile(rel, src string, gunzip bool) mention {
	n := t.byPath[rel]
	data, failed := deliver(n.raw, gunzip)
	m := mention{src: src, rel: rel, isFile: true}
	fillLines(&m, data, failed)
	if failed {
		m.fault = "gzip"
	}
	return m
}
