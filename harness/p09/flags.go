package p09

import (
	"bytes"
	"context"
	"errors"
	"fmt"
	"os"
	"os/exec"
	"path/filepath"
	"strings"
	"time"

	"verifharness/internal/run"
)

// "Unterminated or empty statements and unknown functions are reported as compile errors" - wherever the command line
// takes a template, not only in `rare expression`: every template-valued flag of the scanning commands, alone and next
// to a well-formed template of the same flag, in either order. A malformed template that is accepted silently turns
// into <Err:..> text at run time (truthy in an ignore rule: every line dropped).
var malformedTemplates = []struct{ t, why string }{
	{"{", "unterminated"}, {"abc {upper {0}", "unterminated"}, {"{}", "empty"}, {"{ }", "empty"}, {"{sumi 1 {}}", "empty"},
	{"{nosuchfunction 1}", "unknown function"}, {"x{upper {nosuchfunction {0}}}", "unknown function"},
}

type flagSite struct {
	name string
	args func(t string) []string // command line with template t at the site
}

var flagSites = []flagSite{
	{"filter -e", func(t string) []string { return []string{"filter", "-m", `(\w+) (\d+)`, "-e", t} }},
	{"filter -i (only rule)", func(t string) []string { return []string{"filter", "-m", `(\w+) (\d+)`, "-i", t} }},
	{"filter -i (first of two)", func(t string) []string { return []string{"filter", "-m", `(\w+) (\d+)`, "-i", t, "-i", "{eq {2} 2}"} }},
	{"filter -i (last of two)", func(t string) []string { return []string{"filter", "-m", `(\w+) (\d+)`, "-i", "{eq {2} 2}", "-i", t} }},
	{"filter -i (middle of three)", func(t string) []string {
		return []string{"filter", "-m", `(\w+) (\d+)`, "-i", "{eq {2} 2}", "-i", t, "-i", "{eq {1} zzz}"}
	}},
	{"histo -e", func(t string) []string { return []string{"histo", "-m", `(\w+) (\d+)`, "-e", t} }},
	{"histo -e (first of two)", func(t string) []string { return []string{"histo", "-m", `(\w+) (\d+)`, "-e", t, "-e", "{2}"} }},
	{"histo -e (second of two)", func(t string) []string { return []string{"histo", "-m", `(\w+) (\d+)`, "-e", "{1}", "-e", t} }},
	{"table -e", func(t string) []string { return []string{"table", "-m", `(\w+) (\d+)`, "-e", t} }},
	{"analyze -e", func(t string) []string { return []string{"analyze", "-m", `(\w+) (\d+)`, "-e", t} }},
	{"reduce -g", func(t string) []string {
		return []string{"reduce", "-m", `(\w+) (\d+)`, "-g", t, "-a", "n={sumi {.} 1}"}
	}},
	{"reduce -g (second of two)", func(t string) []string {
		return []string{"reduce", "-m", `(\w+) (\d+)`, "-g", "k={1}", "-g", "j=" + t, "-a", "n={sumi {.} 1}"}
	}},
	{"reduce -a", func(t string) []string { return []string{"reduce", "-m", `(\w+) (\d+)`, "-g", "{1}", "-a", "n=" + t} }},
	{"reduce -a (first of two)", func(t string) []string {
		return []string{"reduce", "-m", `(\w+) (\d+)`, "-g", "{1}", "-a", "n=" + t, "-a", "m={sumi {.} 1}"}
	}},
	{"reduce --sort", func(t string) []string {
		return []string{"reduce", "-m", `(\w+) (\d+)`, "-g", "{1}", "-a", "n={sumi {.} 1}", "--sort", t}
	}},
}

func (h *harness) flagTemplates() {
	c := h.c
	if c.RareBin == "" {
		return
	}
	dir := filepath.Join(c.WorkDir, "flags")
	os.MkdirAll(dir, 0o755)
	defer os.RemoveAll(dir)
	in := filepath.Join(dir, "in.log")
	os.WriteFile(in, []byte("alpha 1\nbeta 2\nalpha 3\n"), 0o644)
	idx := 0
	for si, site := range flagSites {
		for mi, m := range malformedTemplates {
			idx++
			if !c.Mine(idx) {
				continue
			}
			cs := &Case{Kind: "cli-flag", Template: m.t, Expected: fmt.Sprintf("%d/%d", si, mi)}
			c.Begin(cs, 60*time.Second)
			h.runFlag(site, m.t, m.why, in, cs)
			c.End()
		}
	}
}

func runRare(c *run.Ctx, args []string) (exit int, stderr string, err error) {
	ctx, cancel := context.WithTimeout(context.Background(), 30*time.Second)
	defer cancel()
	cmd := exec.CommandContext(ctx, c.RareBin, args...)
	cmd.Env = []string{"HOME=" + c.WorkDir, "PATH=/usr/bin:/bin", "NO_COLOR=1"}
	var so, se bytes.Buffer
	cmd.Stdout, cmd.Stderr = &so, &se
	if e := cmd.Run(); e != nil {
		var ee *exec.ExitError
		if errors.As(e, &ee) && ctx.Err() == nil && ee.ExitCode() >= 0 {
			return ee.ExitCode(), se.String() + "\n[stdout] " + so.String(), nil
		}
		return 0, "", e
	}
	return 0, se.String() + "\n[stdout] " + so.String(), nil
}

func (h *harness) runFlag(site flagSite, t, why, in string, cs *Case) {
	c := h.c
	// sanity of the site itself: with a well-formed template the scan runs and prints its summary (whatever the exit status)
	good := append(append([]string{"--nocolor"}, site.args("{2}")...), in)
	if exit, se, err := runRare(c, good); err != nil || !strings.Contains(se, "Matched:") {
		c.Inconclusive(fmt.Sprintf("flag site %q does not run with a well-formed template: exit %d err %v stderr %s", site.name, exit, err, run.Q(se)))
		return
	}
	args := append(append([]string{"--nocolor"}, site.args(t)...), in)
	exit, se, err := runRare(c, args)
	if err != nil {
		c.Inconclusive("could not run rare: " + err.Error())
		return
	}
	h.cnt["cli_flag_template_runs"]++
	h.cnt["cli_malformed"]++
	// reported = the command refuses to scan: non-zero exit, a diagnostic, and no "Matched: m / n" summary of a scan
	if exit == 0 || strings.HasPrefix(se, "\n[stdout]") || strings.Contains(se, "Matched:") || strings.Contains(se, "panic:") {
		c.Violation("cli-flag-no-error:"+site.name+":"+why, fmt.Sprintf("rare %s: the %s template %s given to %s is not reported as a compile error: exit %d, stderr %s",
			strings.Join(args, " "), why, run.Q(t), site.name, exit, run.Q(tailOf(se, 300))), cs)
	}
}

func tailOf(s string, n int) string {
	if len(s) > n {
		return "…" + s[len(s)-n:]
	}
	return s
}
