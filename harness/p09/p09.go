// Package p09 decides C09: template syntax — literals, escapes, quotes and
// nesting parse as documented (pkg/expressions keyBuilder / argSplitter /
// stage / errors).
//
// Three oracles, all independent of the code under test:
//
//	(i)   escape round trip: for any string s, every documented way of escaping
//	      it compiles without error and evaluates to s;
//	(ii)  tree serialisation: templates are printed from an abstract tree in
//	      every admissible layout and evaluated with harness-registered probe
//	      functions (registered through the public KeyBuilder.Func) against a
//	      recording context: the output is a serialisation of the tree as the
//	      engine understood it and must equal the serialisation of the tree;
//	(iii) malformed mutations (dropped closing brace, empty statement, unknown
//	      function) must yield the matching compile error class.
package p09

import (
	"bytes"
	"context"
	"encoding/json"
	"errors"
	"fmt"
	"os/exec"
	"strings"
	"time"

	"rare/pkg/expressions"

	"os"
	"path/filepath"
	"verifharness/internal/reg"
	"verifharness/internal/run"
)

func init() { reg.Register("C09", Run) }

// Case is one journalled / replayable C09 case. A case is a template model
// (Items, or S for the round trip) plus the layouts to print it in.
type Case struct {
	Kind  string  `json:"kind"` // pin | dense | rt | tree | mut | cli-rt | cli-tree | cli-mut
	S     []byte  `json:"s_b64,omitempty"`
	Items []*Node `json:"items,omitempty"`
	Mut   string  `json:"mutation,omitempty"`

	// layouts: PRNG layouts run.NewRand(LSeed, k) for k in [0,K) (0 and 1 are the
	// canonical minimal / maximal ones); Only restricts to one k (replay of a violation)
	LSeed uint64 `json:"lseed,omitempty"`
	K     int    `json:"k,omitempty"`
	Only  *int   `json:"only,omitempty"`
	// dense: all choice vectors (or Cap evenly spread ones); Script restricts to one
	Cap    int   `json:"cap,omitempty"`
	Script []int `json:"script,omitempty"`

	// pin: literal template and expectation
	Pin     string   `json:"pin,omitempty"`
	Tmpl    string   `json:"tmpl,omitempty"`
	Want    string   `json:"want,omitempty"`
	WantErr []string `json:"want_err,omitempty"`

	// cli
	Data  []string    `json:"data,omitempty"`
	Keys  [][2]string `json:"keys,omitempty"`
	Stdin bool        `json:"stdin,omitempty"`

	// informational (filled in for violations)
	Template string `json:"template,omitempty"`
	Expected string `json:"expected,omitempty"`
}

var sentinels = map[string]error{
	"unterminated": expressions.ErrorUnterminated,
	"empty":        expressions.ErrorEmptyStatement,
	"missing":      expressions.ErrorMissingFunction,
}

// ---------------------------------------------------------------- engine side

// recording context: the returned value names the lookup that was made; the
// values contain blanks and special characters (they are data and must never
// be parsed again).
type recCtx struct{ matches, keys int64 }

func mval(i int) string    { return "‹m" + itoa(i) + " {\"\\›" }
func kval(k string) string { return "‹k:" + k + " }\"›" }

func (r *recCtx) GetMatch(i int) string  { r.matches++; return mval(i) }
func (r *recCtx) GetKey(k string) string { r.keys++; return kval(k) }

var probeLookups = lookups{match: mval, key: kval}

func probe(name string) expressions.KeyBuilderFunction {
	return func(args []expressions.KeyBuilderStage) (expressions.KeyBuilderStage, error) {
		return func(ctx expressions.KeyBuilderContext) string {
			vs := make([]string, len(args))
			for i, a := range args {
				vs[i] = a(ctx)
			}
			return probeString(name, vs)
		}, nil
	}
}

type harness struct {
	c   *run.Ctx
	kbs [2]*expressions.KeyBuilder // optimising, not optimising
	ctx recCtx

	// local counters, flushed at the end
	cnt map[string]int64
}

func newHarness(c *run.Ctx) *harness {
	h := &harness{c: c, cnt: map[string]int64{}}
	for i, opt := range []bool{true, false} {
		kb := expressions.NewKeyBuilderEx(opt)
		for _, f := range fnames {
			kb.Func(f, probe(f))
		}
		h.kbs[i] = kb
	}
	return h
}

func (h *harness) flush() {
	for k, v := range h.cnt {
		if strings.HasPrefix(k, "max_") {
			h.c.Max(k, v)
		} else {
			h.c.Count(k, v)
		}
	}
	h.c.Count("lookups_recorded", h.ctx.matches+h.ctx.keys)
	h.cnt = map[string]int64{}
	h.ctx = recCtx{}
}

func (h *harness) max(k string, v int64) {
	if v > h.cnt[k] {
		h.cnt[k] = v
	}
}

// judgeValue: a well-formed template must compile without error and evaluate to want.
func (h *harness) judgeValue(class, tmpl, want string, vcase func() *Case) bool {
	ok := true
	for i, kb := range h.kbs {
		var got string
		var cerr *expressions.CompilerErrors
		var nokb bool
		p, val, stack := run.Guard(func() {
			ckb, e := kb.Compile(tmpl)
			cerr = e
			if ckb == nil {
				nokb = true
				return
			}
			got = ckb.BuildKey(&h.ctx)
		})
		mode := []string{"optimised", "unoptimised"}[i]
		switch {
		case p:
			h.c.Violation("panic:"+run.Hash64(tmpl), fmt.Sprintf("template %s (%s): panic %v; expected value %s\n%s", run.Q(tmpl), mode, val, run.Q(want), stack), vcase())
			ok = false
		case cerr != nil:
			h.c.Violation(class+"-compile-error:"+run.Hash64(tmpl), fmt.Sprintf("well-formed template %s (%s): Compile reported %q; expected no error and value %s", run.Q(tmpl), mode, cerr.Error(), run.Q(want)), vcase())
			ok = false
		case nokb:
			h.c.Violation(class+"-nil:"+run.Hash64(tmpl), fmt.Sprintf("well-formed template %s (%s): Compile returned nil without error", run.Q(tmpl), mode), vcase())
			ok = false
		case got != want:
			h.c.Violation(class+"-value:"+run.Hash64(tmpl), fmt.Sprintf("template %s (%s): BuildKey = %s, expected %s", run.Q(tmpl), mode, run.Q(got), run.Q(want)), vcase())
			ok = false
		}
		if !ok {
			break
		}
	}
	h.cnt["templates"]++
	h.cnt["value_comparisons"] += 2
	return ok
}

// judgeErrors: a malformed template must report every required error class.
func (h *harness) judgeErrors(tmpl string, need []string, vcase func() *Case) bool {
	ok := true
	for i, kb := range h.kbs {
		var cerr *expressions.CompilerErrors
		p, val, stack := run.Guard(func() {
			_, cerr = kb.Compile(tmpl)
		})
		mode := []string{"optimised", "unoptimised"}[i]
		if p {
			h.c.Violation("panic:"+run.Hash64(tmpl), fmt.Sprintf("malformed template %s (%s): panic %v; expected compile error(s) %v\n%s", run.Q(tmpl), mode, val, need, stack), vcase())
			ok = false
			break
		}
		if cerr == nil {
			h.c.Violation("no-error-"+strings.Join(need, "+")+":"+run.Hash64(tmpl), fmt.Sprintf("malformed template %s (%s): Compile reported no error; expected %v", run.Q(tmpl), mode, need), vcase())
			ok = false
			break
		}
		for _, n := range need {
			if !errors.Is(cerr, sentinels[n]) {
				h.c.Violation("wrong-error-"+n+":"+run.Hash64(tmpl), fmt.Sprintf("malformed template %s (%s): errors.Is(err, %s) is false; reported: %q", run.Q(tmpl), mode, n, cerr.Error()), vcase())
				ok = false
			}
		}
		if !ok {
			break
		}
	}
	h.cnt["templates"]++
	h.cnt["error_class_checks"] += int64(2 * len(need))
	return ok
}

// constChooser picks the same option index everywhere (0 = minimal canonical
// layout, 1 = everything escaped / quoted).
type constChooser int

func (c constChooser) pick(n int) int { return int(c) % n }

func layoutChooser(lseed uint64, k int) chooser {
	if k < 2 {
		return constChooser(k)
	}
	return rndChooser{run.NewRand(lseed, k)}
}

func (cs *Case) items() []*Node {
	if cs.Kind == "rt" || cs.Kind == "cli-rt" {
		return []*Node{{K: "text", T: string(cs.S)}}
	}
	return cs.Items
}

// one prints the case in one layout and judges it (in process).
func (h *harness) one(cs *Case, ch chooser, dense bool, vcase func(tmpl, want string) *Case) bool {
	items := cs.items()
	need := requiredErrors(items)
	p := &printer{ch: ch, dense: dense, rawCloseOK: len(need) == 0}
	p.items(items)
	if p.bad != "" {
		h.c.Inconclusive("generator produced an inadmissible tree (" + p.bad + ")")
		return true
	}
	tmpl := p.sb.String()
	h.cnt["raw_close_braces"] += int64(p.rawClose)
	h.countCtrl(p)
	if p.escaped > 0 || p.calls > 0 {
		h.c.Nontrivial(tmpl)
	}
	h.cnt["escaped_runes"] += int64(p.escaped)
	h.cnt["calls_printed"] += int64(p.calls)
	h.cnt["adjacent_piece_arguments"] += int64(p.cats)
	h.cnt["statements_printed"] += int64(p.stmts)
	h.max("max_depth", int64(p.maxDepth))
	h.max("max_template_bytes", int64(len(tmpl)))
	if len(need) == 0 {
		want := refEvalItems(items, probeLookups)
		h.cnt[cs.Kind+"_templates"]++
		return h.judgeValue(cs.Kind, tmpl, want, func() *Case { return vcase(tmpl, want) })
	}
	h.cnt["malformed_templates"]++
	h.cnt["mutation_"+cs.Mut]++
	return h.judgeErrors(tmpl, need, func() *Case { return vcase(tmpl, "errors "+strings.Join(need, "+")) })
}

func (h *harness) countCtrl(p *printer) {
	if p.ctrlEsc == 0 {
		return
	}
	h.cnt["ctrl_escapes_in_quoted_args"] += int64(p.ctrlEsc)
	for d, n := range p.ctrlEscDepth {
		if n > 0 {
			h.cnt[fmt.Sprintf("ctrl_escapes_at_depth_%d", d)] += int64(n)
		}
	}
}

// eval compiles and evaluates one template with builder i (0 optimised, 1 not).
func (h *harness) eval(i int, tmpl string) (got string, cerr *expressions.CompilerErrors, panicked bool, val any, stack string) {
	panicked, val, stack = run.Guard(func() {
		ckb, e := h.kbs[i].Compile(tmpl)
		cerr = e
		if ckb != nil {
			got = ckb.BuildKey(&h.ctx)
		}
	})
	return
}

// runDepth: depth invariance of the control-character escapes inside quoted
// literal arguments. Items[0] is a probe call whose quoted literals contain
// newline / tab / carriage return. It is printed ONCE (text T, controls written
// raw or as \n \t \r), then the very same text is evaluated at the top level
// (depth 1) and as an argument of 1..3 enclosing probe calls (depth 2..4).
// Asserted for every depth d and both builders:
//
//	value(d) = reference value of the tree                         (depth-value)
//	value(d) = wrapper serialisation applied to the OBSERVED value(1) (depth-variance)
func (h *harness) runDepth(cs *Case) {
	if len(cs.Items) != 1 || cs.Items[0].K != "call" {
		h.c.Inconclusive("depth case without a single base call")
		return
	}
	base := cs.Items[0]
	for k := 0; k < cs.K; k++ {
		if cs.Only != nil && *cs.Only != k {
			continue
		}
		kk := k
		ch := layoutChooser(cs.LSeed, k)
		p := &printer{ch: ch}
		p.stmt(base, 1, false)
		if p.bad != "" {
			h.c.Inconclusive("generator produced an inadmissible tree (" + p.bad + ")")
			return
		}
		T := p.sb.String()
		ref := refEval(base, probeLookups)
		pre, post := []string{"", "x", "a\\nb ", "\"{0}\" "}[ch.pick(4)], []string{"", "y", " \\t", "\\}"}[ch.pick(4)]
		// wrappers: {w [left] <inner> [right]}
		type wrap struct{ name, open, left, right, close string }
		var ws []wrap
		for d := 2; d <= 4; d++ {
			w := wrap{name: fnames[ch.pick(len(fnames))]}
			w.open = "{" + leads[ch.pick(len(leads))] + w.name + seps[ch.pick(len(seps))]
			switch ch.pick(3) {
			case 1:
				w.left = "L" + itoa(d)
				w.open += w.left + seps[ch.pick(len(seps))]
			case 2:
				w.right = "R" + itoa(d)
			}
			if w.right != "" {
				w.close = seps[ch.pick(len(seps))] + w.right
			}
			w.close += trails[ch.pick(len(trails))] + "}"
			ws = append(ws, w)
		}
		vals := func(w wrap, inner string) []string {
			var vs []string
			if w.left != "" {
				vs = append(vs, w.left)
			}
			vs = append(vs, inner)
			if w.right != "" {
				vs = append(vs, w.right)
			}
			return vs
		}
		for i := range h.kbs {
			mode := []string{"optimised", "unoptimised"}[i]
			inner, refV, obs1 := T, ref, ""
			metaV := ""
			for d := 1; d <= 4; d++ {
				if d > 1 {
					w := ws[d-2]
					inner = w.open + inner + w.close
					refV = probeString(w.name, vals(w, refV))
					metaV = probeString(w.name, vals(w, metaV))
				}
				tmpl := pre + inner + post
				want := evalPrePost(pre) + refV + evalPrePost(post)
				got, cerr, panicked, val, stack := h.eval(i, tmpl)
				vc := func() *Case {
					v := *cs
					v.Only = &kk
					v.Template, v.Expected = tmpl, want
					return &v
				}
				if i == 0 {
					h.cnt["templates"]++
					h.cnt["depth_templates"]++
					h.cnt[fmt.Sprintf("depth_templates_d%d", d)]++
					if p.ctrlEsc > 0 {
						h.c.Nontrivial(tmpl)
					}
				}
				h.cnt["value_comparisons"]++
				switch {
				case panicked:
					h.c.Violation("panic:"+run.Hash64(tmpl), fmt.Sprintf("template %s (%s): panic %v; expected %s\n%s", run.Q(tmpl), mode, val, run.Q(want), stack), vc())
				case cerr != nil:
					h.c.Violation("depth-compile-error:"+run.Hash64(tmpl), fmt.Sprintf("well-formed template %s (%s, call at depth %d): Compile reported %q; expected no error and value %s", run.Q(tmpl), mode, d, cerr.Error(), run.Q(want)), vc())
				case got != want:
					h.c.Violation("depth-value:"+run.Hash64(tmpl), fmt.Sprintf("template %s (%s, call at depth %d): BuildKey = %s, expected %s", run.Q(tmpl), mode, d, run.Q(got), run.Q(want)), vc())
				}
				if panicked || cerr != nil {
					break
				}
				if d == 1 {
					// what the engine made of the call standing alone
					obs1 = strings.TrimSuffix(strings.TrimPrefix(got, evalPrePost(pre)), evalPrePost(post))
					metaV = obs1
					continue
				}
				if meta := evalPrePost(pre) + metaV + evalPrePost(post); got != meta {
					h.c.Violation("depth-variance:"+run.Hash64(tmpl), fmt.Sprintf("template %s (%s): the call %s evaluates to %s at the top level but nested at depth %d the whole is %s, expected %s (same text, same value at every depth)",
						run.Q(tmpl), mode, run.Q(T), run.Q(obs1), d, run.Q(got), run.Q(meta)), vc())
				}
				h.cnt["depth_invariance_comparisons"]++
			}
		}
		h.countCtrl(p)
		h.cnt["calls_printed"] += int64(p.calls)
	}
}

// evalPrePost: value of the fixed text pieces used around depth cases.
func evalPrePost(s string) string {
	switch s {
	case "a\\nb ":
		return "a\nb "
	case "\"{0}\" ":
		return "\"" + mval(0) + "\" "
	case " \\t":
		return " \t"
	case "\\}":
		return "}"
	}
	return s
}

// runLayouts runs a PRNG-layout case (rt | tree | mut).
func (h *harness) runLayouts(cs *Case) {
	for k := 0; k < cs.K; k++ {
		if cs.Only != nil && *cs.Only != k {
			continue
		}
		kk := k
		h.one(cs, layoutChooser(cs.LSeed, k), false, func(tmpl, want string) *Case {
			v := *cs
			v.Only = &kk
			v.Template, v.Expected = tmpl, want
			return &v
		})
	}
}

// runDense enumerates choice vectors of the dense option sets.
func (h *harness) runDense(cs *Case) int {
	vc := func(script []int) func(tmpl, want string) *Case {
		return func(tmpl, want string) *Case {
			v := *cs
			v.Script = append([]int{}, script...)
			if len(v.Script) == 0 {
				v.Script = []int{0}
			}
			v.Template, v.Expected = tmpl, want
			return &v
		}
	}
	if cs.Script != nil {
		h.one(cs, &scriptChooser{script: cs.Script}, true, vc(cs.Script))
		return 1
	}
	// first print discovers the radices
	sc := &scriptChooser{}
	h.one(cs, sc, true, vc(nil))
	radix := sc.radix
	total := 1
	for _, r := range radix {
		if total > 1<<40/r {
			total = 1 << 40
			break
		}
		total *= r
	}
	n := 1
	if total <= cs.Cap {
		script := make([]int, len(radix))
		for {
			var more bool
			script, more = nextScript(script, radix)
			if !more {
				break
			}
			h.one(cs, &scriptChooser{script: script}, true, vc(script))
			n++
		}
		return n
	}
	// too many: Cap vectors evenly spread over the mixed-radix space
	stride := total / cs.Cap
	if stride%2 == 0 {
		stride++
	}
	for j := 1; j < cs.Cap; j++ {
		idx := (j * stride) % total
		script := make([]int, len(radix))
		for i := len(radix) - 1; i >= 0; i-- {
			script[i] = idx % radix[i]
			idx /= radix[i]
		}
		h.one(cs, &scriptChooser{script: script}, true, vc(script))
		n++
	}
	return n
}

func (h *harness) runPin(cs *Case) {
	vc := func() *Case { v := *cs; return &v }
	if cs.Tmpl != "" && (strings.Contains(cs.Tmpl, "\\") || strings.Contains(cs.Tmpl, " ")) {
		h.c.Nontrivial(cs.Tmpl)
	}
	h.cnt["pinned_templates"]++
	if len(cs.WantErr) > 0 {
		h.judgeErrors(cs.Tmpl, cs.WantErr, vc)
		return
	}
	h.judgeValue("pin", cs.Tmpl, cs.Want, vc)
}

func (h *harness) runCase(cs *Case) {
	switch cs.Kind {
	case "pin":
		h.runPin(cs)
	case "dense":
		h.runDense(cs)
	case "rt", "tree", "mut":
		h.runLayouts(cs)
	case "depth":
		h.runDepth(cs)
	case "cli-rt", "cli-tree", "cli-mut":
		h.runCLI(cs)
	case "cli-flag":
		var si, mi int
		fmt.Sscanf(cs.Expected, "%d/%d", &si, &mi)
		if si < len(flagSites) && mi < len(malformedTemplates) {
			dir := filepath.Join(h.c.WorkDir, "flags")
			os.MkdirAll(dir, 0o755)
			in := filepath.Join(dir, "in.log")
			os.WriteFile(in, []byte("alpha 1\nbeta 2\nalpha 3\n"), 0o644)
			h.runFlag(flagSites[si], malformedTemplates[mi].t, malformedTemplates[mi].why, in, cs)
		}
	default:
		h.c.Inconclusive("unknown case kind " + cs.Kind)
	}
}

// Run is the C09 entry point.
func Run(c *run.Ctx) {
	h := newHarness(c)
	defer h.flush()
	if c.Replay != nil {
		var cs Case
		if err := json.Unmarshal(c.Replay, &cs); err != nil {
			c.Inconclusive("bad replay: " + err.Error())
			return
		}
		c.Begin(&cs, 60*time.Second)
		h.runCase(&cs)
		c.End()
		return
	}
	h.pins()
	h.dense()
	h.depths()
	h.roundTrips()
	h.trees()
	h.cli()
	h.flagTemplates()
}

// ---------------------------------------------------------------- case lists

func (h *harness) pins() {
	if h.c.Shard != 0 {
		return
	}
	for _, cs := range pinned() {
		cs := cs
		h.c.Begin(&cs, 0)
		h.runPin(&cs)
		h.c.End()
	}
}

func (h *harness) dense() {
	c := h.c
	for i, items := range denseTrees() {
		if !c.Mine(i) {
			continue
		}
		cs := &Case{Kind: "dense", Items: items, Cap: c.N(500, 2500)}
		c.Begin(cs, 120*time.Second)
		n := h.runDense(cs)
		c.Evals(n - 1)
		c.End()
		h.cnt["dense_trees"]++
		if i == 1 {
			p := &printer{ch: constChooser(0), dense: true}
			p.items(items)
			c.Sample(map[string]any{"kind": "dense", "canonical_template": p.sb.String(), "layouts": n, "expected": refEvalItems(items, probeLookups)})
		}
	}
}

func (h *harness) roundTrips() {
	c := h.c
	N := c.N(8000, 70000)
	for i := 0; i < N; i++ {
		if !c.Mine(i) {
			continue
		}
		r := c.Rand("rt", i)
		cs := &Case{Kind: "rt", S: genBytes(r), LSeed: r.U64(), K: 4}
		c.Begin(cs, 0)
		h.runLayouts(cs)
		c.Evals(cs.K - 1)
		c.End()
		h.cnt["round_trip_strings"]++
		h.max("max_string_bytes", int64(len(cs.S)))
		if !validUTF8(string(cs.S)) {
			h.cnt["round_trip_invalid_utf8"]++
		}
		if i == 5 {
			p := &printer{ch: constChooser(1)}
			p.items(cs.items())
			c.Sample(map[string]any{"kind": "rt", "string": run.Q(string(cs.S)), "maximal_escape": run.Q(p.sb.String())})
		}
		if c.Violations() >= 6 {
			return
		}
	}
}

func (h *harness) trees() {
	c := h.c
	N := c.N(5000, 45000)
	for i := 0; i < N; i++ {
		if !c.Mine(i) {
			continue
		}
		r := c.Rand("tree", i)
		depth := 5
		if r.Intn(3) == 0 {
			depth = r.Range(1, 3)
		}
		items := genItems(r, depth)
		cs := &Case{Kind: "tree", Items: items, LSeed: r.U64(), K: c.N(6, 8)}
		c.Begin(cs, 0)
		h.runLayouts(cs)
		c.Evals(cs.K - 1)
		c.End()
		h.cnt["trees"]++
		if countCalls(items) > 0 {
			h.cnt["trees_with_calls"]++
		}
		if i == 3 || i == 11 {
			p := &printer{ch: layoutChooser(cs.LSeed, 2)}
			p.items(items)
			c.Sample(map[string]any{"kind": "tree", "template": run.Q(p.sb.String()), "expected": run.Q(refEvalItems(items, probeLookups))})
		}
		// malformed variants of the same tree
		for m := 0; m < 2; m++ {
			mr := c.Rand("mut", i, m)
			mitems, kind := mutate(mr, items)
			ms := &Case{Kind: "mut", Items: mitems, Mut: kind, LSeed: mr.U64(), K: 3}
			c.Begin(ms, 0)
			h.runLayouts(ms)
			c.Evals(ms.K - 1)
			c.End()
			if i == 7 && m == 0 {
				p := &printer{ch: constChooser(0)}
				p.items(mitems)
				c.Sample(map[string]any{"kind": "mut", "mutation": kind, "template": run.Q(p.sb.String()), "required": requiredErrors(mitems)})
			}
		}
		if c.Violations() >= 6 {
			return
		}
	}
}

// depths: control-character escapes in quoted literal arguments, depth 1..4.
func (h *harness) depths() {
	c := h.c
	N := c.N(1500, 12000)
	for i := 0; i < N; i++ {
		if !c.Mine(i) {
			continue
		}
		r := c.Rand("depth", i)
		cs := &Case{Kind: "depth", Items: []*Node{genCtrlCall(r)}, LSeed: r.U64(), K: 4}
		c.Begin(cs, 0)
		h.runDepth(cs)
		c.Evals(cs.K*4 - 1)
		c.End()
		h.cnt["depth_bases"]++
		if i == 2 {
			p := &printer{ch: constChooser(1)}
			p.stmt(cs.Items[0], 1, false)
			c.Sample(map[string]any{"kind": "depth", "base_call_escaped": run.Q(p.sb.String()), "value": run.Q(refEval(cs.Items[0], probeLookups)), "nested_at_depths": "1..4"})
		}
		if c.Violations() >= 6 {
			return
		}
	}
}

// ---------------------------------------------------------------- CLI

func (h *harness) cli() {
	c := h.c
	if c.RareBin == "" {
		c.Note("no rare binary: CLI sub-check skipped")
		return
	}
	N := c.N(240, 2400)
	for i := 0; i < N; i++ {
		if !c.Mine(i) {
			continue
		}
		r := c.Rand("cli", i)
		cs := genCLICase(r)
		c.Begin(cs, 60*time.Second)
		h.runCLI(cs)
		c.End()
		if c.Violations() >= 6 {
			return
		}
	}
}

var cliKeyNames = []string{"a", "key", "group1", "val", "k_1", "x9", "method", "Url"}

// cliValue: a value for --data / --key. The flag library splits values on ','
// and trims blanks around them; that is flag parsing, not template syntax, so
// values are non-empty, comma free and have no blank at either end.
func cliValue(r *run.Rand) string {
	for {
		n := r.Range(1, 10)
		rs := make([]rune, 0, n)
		for len(rs) < n {
			x := genRune(r)
			if x == 0 || x == ',' || x == 0xfffd {
				continue
			}
			rs = append(rs, x)
		}
		s := string(rs)
		if s == strings.TrimSpace(s) && s == strings.TrimFunc(s, func(x rune) bool { return mustQuote(string(x)) }) {
			return s
		}
	}
}

func genCLICase(r *run.Rand) *Case {
	kind := []string{"cli-rt", "cli-tree", "cli-tree", "cli-mut"}[r.Intn(4)]
	cs := &Case{Kind: kind, LSeed: r.U64(), K: 3, Stdin: r.Intn(3) == 0}
	k := r.Range(0, 2)
	cs.Only = &k
	if kind == "cli-rt" {
		for len(cs.S) == 0 {
			cs.S = genBytes(r)
			if len(cs.S) > 300 {
				cs.S = cs.S[:300]
			}
		}
		return cs
	}
	nd := r.Range(1, 4)
	for i := 0; i < nd; i++ {
		cs.Data = append(cs.Data, cliValue(r))
	}
	perm := r.Perm(len(cliKeyNames))
	nk := r.Range(0, 3)
	for i := 0; i < nk; i++ {
		cs.Keys = append(cs.Keys, [2]string{cliKeyNames[perm[i]], cliValue(r)})
	}
	n := r.Range(1, 6)
	for i := 0; i < n; i++ {
		switch x := r.Intn(3); {
		case x == 0:
			t := genText(r, r.Range(1, 8))
			t = strings.ReplaceAll(t, "\x00", "0")
			if len(cs.Items) > 0 && cs.Items[len(cs.Items)-1].K == "text" {
				cs.Items[len(cs.Items)-1].T += t
			} else {
				cs.Items = append(cs.Items, &Node{K: "text", T: t})
			}
		case x == 1 || nk == 0:
			cs.Items = append(cs.Items, &Node{K: "match", N: r.Intn(nd)})
		default:
			cs.Items = append(cs.Items, &Node{K: "key", T: cs.Keys[r.Intn(nk)][0]})
		}
	}
	if kind == "cli-mut" {
		e := &Node{K: "empty", T: emptyBlanks[r.Intn(len(emptyBlanks))]}
		switch r.Intn(4) {
		case 0:
			cs.Items = insertAt(cs.Items, r.Intn(len(cs.Items)+1), e)
			cs.Mut = "empty-top"
		case 1:
			e.NoClose = true
			cs.Items = insertAt(cs.Items, r.Intn(len(cs.Items)+1), e)
			cs.Mut = "open-brace"
		case 2:
			u := &Node{K: "call", T: "zzq_nosuch_fn", Unknown: true, A: []*Node{{K: "lit", T: "a"}, {K: "match", N: 0}}}
			cs.Items = insertAt(cs.Items, r.Intn(len(cs.Items)+1), u)
			cs.Mut = "unknown-func"
		default:
			var st []*Node
			for _, it := range cs.Items {
				if it.K != "text" {
					st = append(st, it)
				}
			}
			if len(st) == 0 {
				cs.Items = append(cs.Items, e)
				cs.Mut = "empty-top"
			} else {
				st[r.Intn(len(st))].NoClose = true
				cs.Mut = "drop-close"
			}
		}
	}
	return cs
}

// runCLI: `rare expression -r -n [--data=..] [--key=k=v] -- <template>` (or the
// template on stdin). Well formed: exit 0 and stdout = reference value.
// Malformed: non-zero exit and a diagnostic on stderr.
func (h *harness) runCLI(cs *Case) {
	c := h.c
	if c.RareBin == "" {
		c.Inconclusive("CLI case without a rare binary")
		return
	}
	k := 0
	if cs.Only != nil {
		k = *cs.Only
	}
	items := cs.items()
	p := &printer{ch: layoutChooser(cs.LSeed, k), rawCloseOK: len(requiredErrors(items)) == 0}
	p.items(items)
	if p.bad != "" {
		c.Inconclusive("generator produced an inadmissible tree (" + p.bad + ")")
		return
	}
	tmpl := p.sb.String()
	if tmpl == "" {
		return
	}
	stdin := cs.Stdin || strings.ContainsRune(tmpl, 0) || tmpl == "-"
	args := []string{"expression", "-r", "-n"}
	for _, d := range cs.Data {
		args = append(args, "--data="+d)
	}
	for _, kv := range cs.Keys {
		args = append(args, "--key="+kv[0]+"="+kv[1])
	}
	if stdin {
		args = append(args, "-")
	} else {
		args = append(args, "--", tmpl)
	}
	ctx, cancel := context.WithTimeout(context.Background(), 30*time.Second)
	defer cancel()
	cmd := exec.CommandContext(ctx, c.RareBin, args...)
	cmd.Env = []string{"HOME=" + c.WorkDir, "PATH=/usr/bin:/bin", "NO_COLOR=1"}
	cmd.Dir = c.WorkDir
	if stdin {
		cmd.Stdin = strings.NewReader(tmpl)
	}
	var so, se bytes.Buffer
	cmd.Stdout, cmd.Stderr = &so, &se
	err := cmd.Run()
	exit := 0
	if err != nil {
		var ee *exec.ExitError
		if errors.As(err, &ee) && ctx.Err() == nil && ee.ExitCode() >= 0 {
			exit = ee.ExitCode()
		} else {
			c.Inconclusive(fmt.Sprintf("could not run %s: %v", c.RareBin, err))
			return
		}
	}
	h.cnt["cli_runs"]++
	h.cnt["templates"]++
	if p.escaped > 0 {
		c.Nontrivial("cli", tmpl)
	}
	vc := func(want string) *Case {
		v := *cs
		v.Only = &k
		v.Template, v.Expected = tmpl, want
		return &v
	}
	how := "argument"
	if stdin {
		how = "stdin"
	}
	need := requiredErrors(items)
	if len(need) > 0 {
		h.cnt["cli_malformed"]++
		if exit == 0 || se.Len() == 0 {
			c.Violation("cli-no-error-"+strings.Join(need, "+")+":"+run.Hash64(tmpl),
				fmt.Sprintf("rare expression (template by %s) %s: exit %d, stderr %s; expected a compile error (%v): non-zero exit and a diagnostic",
					how, run.Q(tmpl), exit, run.Q(se.String()), need), vc("errors "+strings.Join(need, "+")))
		}
		return
	}
	lk := lookups{
		match: func(i int) string {
			if i >= 0 && i < len(cs.Data) {
				return cs.Data[i]
			}
			return ""
		},
		key: func(name string) string {
			for _, kv := range cs.Keys {
				if kv[0] == name {
					return kv[1]
				}
			}
			return ""
		},
	}
	want := refEvalItems(items, lk)
	if exit != 0 {
		c.Violation("cli-compile-error:"+run.Hash64(tmpl), fmt.Sprintf("rare %s (template by %s %s): exit %d, stderr %s; expected exit 0 and output %s",
			strings.Join(args[:len(args)-1], " "), how, run.Q(tmpl), exit, run.Q(se.String()), run.Q(want)), vc(want))
		return
	}
	if so.String() != want {
		c.Violation("cli-value:"+run.Hash64(tmpl), fmt.Sprintf("rare %s (template by %s %s): output %s, expected %s",
			strings.Join(args[:len(args)-1], " "), how, run.Q(tmpl), run.Q(so.String()), run.Q(want)), vc(want))
	}
}
