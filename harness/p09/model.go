package p09

// The abstract template model, its concrete printer (every admissible layout
// is a sequence of choices handed out by a chooser) and the reference
// evaluation. Nothing here calls into rare/pkg/expressions.

import (
	"strconv"
	"strings"
	"unicode"
	"unicode/utf8"

	"verifharness/internal/run"
)

// Node is one element of a template.
//
//	text   literal text outside braces (top level only); any runes
//	match  {N}
//	key    {name}
//	call   {f a1 a2 ...}  (>= 1 argument)
//	lit    literal argument of a call (runes other than \ " { })
//	qt     quoted template argument: "text {stmt} text" (parts: lit | match | key | call, no quotes inside)
//	cat    unquoted argument made of adjacent pieces: pre{0}post, {0}{1}, {0}-{p2 b} (parts: bare lit | match | key | call,
//	       at least one statement; arguments are split on unquoted, unbraced whitespace only, so this is ONE argument)
//	empty  {} / { } ...   (malformed: T holds the blanks)
//
// NoClose drops the closing brace of a statement (malformed), Unknown marks a
// call whose function name is not registered (malformed).
type Node struct {
	K       string  `json:"k"`
	T       string  `json:"t,omitempty"`
	N       int     `json:"n,omitempty"`
	A       []*Node `json:"a,omitempty"`
	NoClose bool    `json:"noclose,omitempty"`
	Unknown bool    `json:"unknown,omitempty"`
}

func (n *Node) clone() *Node {
	c := *n
	c.A = make([]*Node, len(n.A))
	for i, a := range n.A {
		c.A[i] = a.clone()
	}
	if len(c.A) == 0 {
		c.A = nil
	}
	return &c
}

func cloneItems(items []*Node) []*Node {
	out := make([]*Node, len(items))
	for i, it := range items {
		out[i] = it.clone()
	}
	return out
}

// ---------------------------------------------------------------- choosers

type chooser interface{ pick(n int) int }

type rndChooser struct{ r *run.Rand }

func (c rndChooser) pick(n int) int { return c.r.Intn(n) }

// scriptChooser replays a vector of choices (missing entries are 0) and
// records the radix of every decision so that the caller can enumerate all
// vectors like an odometer.
type scriptChooser struct {
	script []int
	pos    int
	radix  []int
}

func (c *scriptChooser) pick(n int) int {
	v := 0
	if c.pos < len(c.script) {
		v = c.script[c.pos] % n
	}
	c.pos++
	c.radix = append(c.radix, n)
	return v
}

// next advances script (mixed radix, last digit fastest). false = wrapped.
func nextScript(script, radix []int) ([]int, bool) {
	s := make([]int, len(radix))
	copy(s, script)
	for i := len(radix) - 1; i >= 0; i-- {
		s[i]++
		if s[i] < radix[i] {
			return s, true
		}
		s[i] = 0
	}
	return s, false
}

// ---------------------------------------------------------------- layout alphabets

// blanks admissible between arguments: 1..3 characters from {space, tab, newline}
// (the first five are the dense set), plus a few with carriage return.
var seps = func() []string {
	out := []string{" ", "\t", "\n", "  ", "\t \n"}
	seen := map[string]bool{}
	for _, s := range out {
		seen[s] = true
	}
	al := []string{" ", "\t", "\n"}
	var all []string
	for _, a := range al {
		all = append(all, a)
		for _, b := range al {
			all = append(all, a+b)
			for _, c := range al {
				all = append(all, a+b+c)
			}
		}
	}
	for _, s := range all {
		if !seen[s] {
			seen[s] = true
			out = append(out, s)
		}
	}
	return append(out, "\r", "\r\n", " \r ")
}()

var leads = []string{"", " ", "\t", "\n", "  ", " \t\n"}  // after '{'
var trails = []string{"", " ", "\n", "\t", "  ", "\n\t "} // before '}'

// mustQuote: a literal argument that cannot stand as a bare word.
func mustQuote(s string) bool {
	if s == "" {
		return true
	}
	for _, r := range s {
		if unicode.IsSpace(r) || unicode.IsControl(r) || unicode.In(r, unicode.Z, unicode.Cf) || r == utf8.RuneError {
			return true
		}
	}
	return false
}

func hasSpecial(s string) bool { return strings.ContainsAny(s, "\\\"{}") }

// ---------------------------------------------------------------- printer

type printer struct {
	ch           chooser
	dense        bool
	sb           strings.Builder
	escaped      int    // escaped runes in top-level text
	rawClose     int    // '}' printed raw outside braces
	ctrlEsc      int    // \n \t \r written as escapes inside quoted literal arguments
	ctrlEscDepth [8]int // the same by call depth
	calls        int
	cats         int // unquoted arguments made of adjacent pieces
	stmts        int
	maxDepth     int
	bad          string // generator bug (inadmissible tree): never judged
	// rawCloseOK: the template is well formed, so a '}' in top-level text is
	// outside any braces and may also be printed unescaped ("Anything not
	// surrounded by {} is a literal").
	rawCloseOK bool
}

func (p *printer) opt(list []string, denseN int) string {
	n := len(list)
	if p.dense && denseN < n {
		n = denseN
	}
	return list[p.ch.pick(n)]
}

// text prints literal text for the top level so that, by the documented rules
// (`\x` makes x literal; \n \r \t give control characters), it evaluates to
// string([]rune(s)).
func (p *printer) text(s string) {
	modes := 5
	if p.dense {
		modes = 2
	}
	mode := p.ch.pick(modes) // 0 minimal, 1 maximal, 2 ~30 %, 3 ~70 %, 4 minimal with '}' left raw
	rawClose := false
	if mode == 4 {
		mode = 0
		rawClose = p.rawCloseOK
	}
	want := func() bool {
		switch mode {
		case 0:
			return false
		case 1:
			return true
		case 2:
			return p.ch.pick(10) < 3
		}
		return p.ch.pick(10) < 7
	}
	for i := 0; i < len(s); {
		r, size := utf8.DecodeRuneInString(s[i:])
		raw := s[i : i+size]
		i += size
		switch {
		case size == 1 && r == '}' && rawClose:
			p.sb.WriteString(raw)
			p.rawClose++
		case size == 1 && (r == '{' || r == '}' || r == '\\'):
			p.sb.WriteByte('\\')
			p.sb.WriteString(raw)
			p.escaped++
		case size == 1 && (r == 'n' || r == 'r' || r == 't'):
			p.sb.WriteString(raw) // an escape here would mean a control character
		case size == 1 && (r == '\n' || r == '\r' || r == '\t'):
			if !want() {
				p.sb.WriteString(raw)
				break
			}
			p.escaped++
			form := 0
			if !p.dense {
				form = p.ch.pick(3)
			}
			if form < 2 { // \n \r \t
				p.sb.WriteByte('\\')
				p.sb.WriteByte(map[rune]byte{'\n': 'n', '\r': 'r', '\t': 't'}[r])
			} else { // backslash before the raw control character
				p.sb.WriteByte('\\')
				p.sb.WriteString(raw)
			}
		default:
			if want() {
				p.sb.WriteByte('\\')
				p.escaped++
			}
			p.sb.WriteString(raw)
		}
	}
}

func (p *printer) items(items []*Node) {
	for _, it := range items {
		if it.K == "text" {
			p.text(it.T)
		} else {
			p.stmt(it, 1, false)
		}
	}
}

func (p *printer) stmt(n *Node, depth int, inQ bool) {
	if depth > p.maxDepth {
		p.maxDepth = depth
	}
	p.stmts++
	p.sb.WriteByte('{')
	switch n.K {
	case "empty":
		p.sb.WriteString(n.T)
	case "match":
		p.sb.WriteString(p.opt(leads, 2))
		p.sb.WriteString(strconv.Itoa(n.N))
		p.sb.WriteString(p.opt(trails, 3))
	case "key":
		if n.T == "" || mustQuote(n.T) || hasSpecial(n.T) {
			p.bad = "key name not a bare word"
		}
		p.sb.WriteString(p.opt(leads, 2))
		p.sb.WriteString(n.T)
		p.sb.WriteString(p.opt(trails, 3))
	case "call":
		if n.T == "" || mustQuote(n.T) || hasSpecial(n.T) || len(n.A) == 0 {
			p.bad = "call without a bare name or without arguments"
		}
		p.calls++
		p.sb.WriteString(p.opt(leads, 2))
		p.sb.WriteString(n.T)
		for _, a := range n.A {
			p.sb.WriteString(p.opt(seps, 5))
			p.arg(a, depth, inQ)
		}
		p.sb.WriteString(p.opt(trails, 3))
	default:
		p.bad = "not a statement: " + n.K
	}
	if !n.NoClose {
		p.sb.WriteByte('}')
	}
}

func (p *printer) arg(n *Node, depth int, inQ bool) {
	switch n.K {
	case "lit":
		if hasSpecial(n.T) {
			p.bad = "literal argument with a special character"
		}
		q := mustQuote(n.T)
		if q && inQ {
			p.bad = "literal needing quotes inside a quoted template"
		}
		if !q && !inQ {
			q = p.ch.pick(2) == 1
		}
		if q {
			p.sb.WriteByte('"')
			p.quotedLit(n.T, depth)
			p.sb.WriteByte('"')
		} else {
			p.sb.WriteString(n.T)
		}
	case "cat":
		stm := 0
		for i, part := range n.A {
			if part.K == "lit" {
				if part.T == "" || mustQuote(part.T) || hasSpecial(part.T) || (i > 0 && n.A[i-1].K == "lit") {
					p.bad = "piece of an unquoted argument that is not a bare word"
				}
				p.sb.WriteString(part.T)
			} else {
				stm++
				p.stmt(part, depth+1, inQ)
			}
		}
		if stm == 0 || len(n.A) < 2 {
			p.bad = "cat without a statement or with a single piece"
		}
		p.cats++
	case "qt":
		if inQ {
			p.bad = "quoted template inside a quoted template"
		}
		p.sb.WriteByte('"')
		for _, part := range n.A {
			if part.K == "lit" {
				if hasSpecial(part.T) {
					p.bad = "quoted text with a special character"
				}
				p.sb.WriteString(part.T)
			} else {
				p.stmt(part, depth+1, true)
			}
		}
		p.sb.WriteByte('"')
	default:
		p.stmt(n, depth+1, inQ)
	}
}

// quotedLit prints the inside of a double-quoted literal argument of a call at
// nesting depth `depth` (1 = call at the top level). The ONLY escapes judged
// inside braces are the three control-character escapes: a newline, tab or
// carriage return of the literal may be written raw or as \n, \t, \r ("\n,
// \t, \r give control characters"), at any depth. Nothing else is escaped here.
func (p *printer) quotedLit(s string, depth int) {
	for i := 0; i < len(s); i++ {
		b := s[i]
		if b == '\n' || b == '\t' || b == '\r' {
			if p.ch.pick(2) == 1 {
				p.sb.WriteByte('\\')
				p.sb.WriteByte(map[byte]byte{'\n': 'n', '\t': 't', '\r': 'r'}[b])
				p.ctrlEsc++
				d := depth
				if d >= len(p.ctrlEscDepth) {
					d = len(p.ctrlEscDepth) - 1
				}
				p.ctrlEscDepth[d]++
				continue
			}
		}
		p.sb.WriteByte(b)
	}
}

// ---------------------------------------------------------------- reference evaluation

// lookups is the context model: what {N} and {name} stand for.
type lookups struct {
	match func(int) string
	key   func(string) string
}

// probeString is what a probe function named f returns for argument values vs:
// f⟨len:value¦len:value…⟩ (len = rune count, making the serialisation unambiguous).
func probeString(f string, vs []string) string {
	var sb strings.Builder
	sb.WriteString(f)
	sb.WriteString("⟨")
	for i, v := range vs {
		if i > 0 {
			sb.WriteString("¦")
		}
		sb.WriteString(strconv.Itoa(utf8.RuneCountInString(v)))
		sb.WriteByte(':')
		sb.WriteString(v)
	}
	sb.WriteString("⟩")
	return sb.String()
}

func refEval(n *Node, lk lookups) string {
	switch n.K {
	case "text", "lit":
		return string([]rune(n.T)) // documented rune decoding: invalid bytes read as U+FFFD
	case "match":
		return lk.match(n.N)
	case "key":
		return lk.key(n.T)
	case "call":
		vs := make([]string, len(n.A))
		for i, a := range n.A {
			vs[i] = refEval(a, lk)
		}
		return probeString(n.T, vs)
	case "qt", "cat":
		var sb strings.Builder
		for _, a := range n.A {
			sb.WriteString(refEval(a, lk))
		}
		return sb.String()
	}
	return ""
}

func refEvalItems(items []*Node, lk lookups) string {
	var sb strings.Builder
	for _, it := range items {
		sb.WriteString(refEval(it, lk))
	}
	return sb.String()
}

// requiredErrors lists the error classes the statement requires for a
// (possibly malformed) template; empty = well formed.
//
//   - a statement with a dropped closing brace never closes: it and everything
//     after it is one unterminated statement (nothing inside is compiled);
//   - the arguments of an unknown function are not required to be diagnosed.
func requiredErrors(items []*Node) []string {
	need := map[string]bool{}
	var hasNoClose func(n *Node) bool
	hasNoClose = func(n *Node) bool {
		if n.NoClose {
			return true
		}
		for _, a := range n.A {
			if hasNoClose(a) {
				return true
			}
		}
		return false
	}
	var walk func(n *Node)
	walk = func(n *Node) {
		switch n.K {
		case "empty":
			need["empty"] = true
		case "call":
			if n.Unknown {
				need["missing"] = true
				return
			}
			for _, a := range n.A {
				walk(a)
			}
		case "qt", "cat":
			for _, a := range n.A {
				walk(a)
			}
		}
	}
	for _, it := range items {
		if it.K == "text" {
			continue
		}
		if hasNoClose(it) {
			need["unterminated"] = true
			break
		}
		walk(it)
	}
	var out []string
	for _, k := range []string{"unterminated", "empty", "missing"} {
		if need[k] {
			out = append(out, k)
		}
	}
	return out
}

func countCalls(items []*Node) int {
	n := 0
	var walk func(x *Node)
	walk = func(x *Node) {
		if x.K == "call" {
			n++
		}
		for _, a := range x.A {
			walk(a)
		}
	}
	for _, it := range items {
		walk(it)
	}
	return n
}
