package p09

import (
	"strconv"
	"unicode/utf8"

	"verifharness/internal/run"
)

// registered probe function names (all behave alike; the name is part of the output)
var fnames = []string{"p0", "p1", "p2", "p3", "F", "fn-x", "a.b", "é", "P1", "sum_i"}

// names that are NOT registered (for the unknown-function mutation)
var unknownNames = []string{"p4", "p", "P0", "p00", "nosuch", "x1", "f", "fn-y", "é1", "1p"}

var exoticRunes = []rune{'é', 'ß', '日', '本', 'ж', 0x00a0, 0x2028, 0x3000, 0xfffd, 0x200b, 0xfeff, 0x1f600, 0x0301, 0x85, 0x1680}

const asciiWord = "abcdefghijklmnopqrstuvwxyzABCDEFGHIJKLMNOPQRSTUVWXYZ0123456789-_.:,;/@#$%^&*()[]<>|=+!?~'`"

// genRune draws one rune for text outside braces: every class that the scanner
// treats specially is frequent.
func genRune(r *run.Rand) rune {
	switch r.Intn(16) {
	case 0, 1:
		return []rune{'{', '}', '\\', '"'}[r.Intn(4)]
	case 2:
		return []rune{'n', 'r', 't'}[r.Intn(3)]
	case 3:
		return []rune{'\n', '\r', '\t'}[r.Intn(3)]
	case 4:
		return ' '
	case 5:
		if r.Intn(8) == 0 {
			return 0x7f
		}
		return rune(r.Intn(32))
	case 6:
		return exoticRunes[r.Intn(len(exoticRunes))]
	case 7:
		for {
			x := rune(r.Intn(0x110000))
			if x >= 0xd800 && x <= 0xdfff {
				continue
			}
			return x
		}
	case 8:
		return rune('0' + r.Intn(10))
	}
	return rune(asciiWord[r.Intn(len(asciiWord))])
}

func genText(r *run.Rand, n int) string {
	rs := make([]rune, n)
	for i := range rs {
		rs[i] = genRune(r)
	}
	return string(rs)
}

// genBytes: a string for the round trip, possibly with invalid UTF-8.
func genBytes(r *run.Rand) []byte {
	var n int
	switch x := r.Intn(20); {
	case x < 6:
		n = r.Range(0, 8)
	case x < 16:
		n = r.Range(0, 40)
	case x < 19:
		n = r.Range(40, 300)
	default:
		n = r.Range(300, 1600) // runes; cut at 2 KiB below
	}
	b := []byte(genText(r, n))
	if len(b) > 2048 {
		b = b[:2048] // may cut a rune: one more invalid tail
	}
	if r.Intn(4) == 0 { // invalid UTF-8: stray continuation / lead bytes, truncated runes
		k := r.Range(1, 4)
		for j := 0; j < k; j++ {
			pos := r.Intn(len(b) + 1)
			ins := []byte{byte(0x80 + r.Intn(0x80))}
			if r.Intn(3) == 0 {
				ins = []byte{0xe6, 0x97} // truncated 3-byte rune
			}
			b = append(b[:pos:pos], append(ins, b[pos:]...)...)
		}
	}
	return b
}

// genWord: a bare word (no blanks, no special characters).
func genWord(r *run.Rand) string {
	n := r.Range(1, 8)
	if r.Intn(6) == 0 {
		n = 1
	}
	rs := make([]rune, n)
	for i := range rs {
		if r.Intn(8) == 0 {
			rs[i] = []rune{'é', 'ß', '日', '本', 'ж', 0x1f600}[r.Intn(6)]
		} else {
			rs[i] = rune(asciiWord[r.Intn(len(asciiWord))])
		}
	}
	return string(rs)
}

func looksInteger(s string) bool {
	if s == "" {
		return false
	}
	i := 0
	if s[0] == '+' || s[0] == '-' {
		i = 1
	}
	if i == len(s) {
		return false
	}
	for ; i < len(s); i++ {
		if s[i] < '0' || s[i] > '9' {
			return false
		}
	}
	return true
}

var specialKeys = []string{"src", "line", ".", "#", ".#", "@", "p0", "p1", "a", "key", "group1", "0x10", "1a", "1_0", "1.5"}

// genKey: a key name — any bare word that is not an integer spelling
// (signed / zero padded spellings are left out: the documentation only says "integer").
func genKey(r *run.Rand) string {
	if r.Intn(3) == 0 {
		return specialKeys[r.Intn(len(specialKeys))]
	}
	for {
		w := genWord(r)
		if !looksInteger(w) {
			return w
		}
	}
}

func genIndex(r *run.Rand) int {
	switch r.Intn(10) {
	case 0:
		return 0
	case 1:
		return r.Range(10, 999)
	case 2:
		return r.Range(1000, 2147483647)
	}
	return r.Range(0, 9)
}

// genLit: a literal argument (runes other than \ " { }).
func genLit(r *run.Rand, bare bool) string {
	x := r.Intn(20)
	if bare && x >= 15 {
		x = r.Intn(15)
	}
	switch {
	case x < 9:
		return genWord(r)
	case x < 12: // integer spellings are plain literals when they are arguments
		return []string{"0", "1", "5", "-3", "+7", "007", "10000", "1.5", "-"}[r.Intn(9)]
	case x < 15:
		return []string{"p0", "p1", "src", "@", "true", "''", "a=b", "a,b", "[0]"}[r.Intn(9)]
	case x < 17:
		return ""
	case x < 19: // needs quotes
		return []string{"not found", " ", "  ", "\t", "a b c", " lead", "trail ", "x\ny", "a\tb", "a b", "　", "é ü", "a  b", "\r\n", "\x00", "a​b"}[r.Intn(16)]
	}
	// longer free text without the four special characters
	n := r.Range(1, 24)
	rs := make([]rune, 0, n)
	for len(rs) < n {
		c := genRune(r)
		if c == '\\' || c == '"' || c == '{' || c == '}' {
			continue
		}
		rs = append(rs, c)
	}
	return string(rs)
}

type treeGen struct {
	r        *run.Rand
	maxDepth int
	budget   int // remaining nodes
}

func (g *treeGen) stmt(depth int, inQ bool) *Node {
	g.budget--
	x := g.r.Intn(10)
	if depth >= g.maxDepth || g.budget <= 0 {
		x = g.r.Intn(4)
	}
	switch {
	case x < 2:
		return &Node{K: "match", N: genIndex(g.r)}
	case x < 4:
		return &Node{K: "key", T: genKey(g.r)}
	}
	return g.call(depth, inQ)
}

func (g *treeGen) call(depth int, inQ bool) *Node {
	n := &Node{K: "call", T: fnames[g.r.Intn(len(fnames))]}
	na := 1
	switch x := g.r.Intn(10); {
	case x < 3:
		na = 1
	case x < 6:
		na = 2
	case x < 8:
		na = 3
	default:
		na = g.r.Range(4, 6)
	}
	for i := 0; i < na; i++ {
		n.A = append(n.A, g.arg(depth, inQ))
	}
	return n
}

func (g *treeGen) arg(depth int, inQ bool) *Node {
	g.budget--
	x := g.r.Intn(20)
	switch {
	case x < 8:
		return &Node{K: "lit", T: genLit(g.r, inQ)}
	case x < 10:
		return &Node{K: "match", N: genIndex(g.r)}
	case x < 12:
		return &Node{K: "key", T: genKey(g.r)}
	case x < 14 && !inQ:
		return g.qt(depth)
	case x < 16 && depth < g.maxDepth:
		return g.cat(depth, inQ)
	}
	if depth >= g.maxDepth || g.budget <= 0 {
		return &Node{K: "lit", T: genLit(g.r, inQ)}
	}
	return g.call(depth+1, inQ)
}

// cat: adjacent pieces without blanks form one argument: pre{0}post, {0}{1}, {p2 a}-{1}
var catLits = []string{"pre", "post", "-", ":", "=", "/", ".", "7", "x", "é", "a,b", "@", "#", "0", "--"}

func (g *treeGen) cat(depth int, inQ bool) *Node {
	n := &Node{K: "cat"}
	parts := g.r.Range(2, 4)
	stm := 0
	for i := 0; i < parts; i++ {
		lastLit := len(n.A) > 0 && n.A[len(n.A)-1].K == "lit"
		if !lastLit && g.r.Intn(2) == 0 {
			n.A = append(n.A, &Node{K: "lit", T: catLits[g.r.Intn(len(catLits))]})
		} else {
			n.A = append(n.A, g.stmt(depth+1, inQ))
			stm++
		}
	}
	if stm == 0 {
		n.A = append(n.A, g.stmt(depth+1, inQ))
	}
	if len(n.A) < 2 {
		n.A = append(n.A, g.stmt(depth+1, inQ))
	}
	return n
}

// qt: "text {stmt} text" as one quoted argument (documented by example:
// {@map {array} "{multi {0} 2}"}).
func (g *treeGen) qt(depth int) *Node {
	n := &Node{K: "qt"}
	parts := g.r.Range(1, 4)
	for i := 0; i < parts; i++ {
		if g.r.Intn(2) == 0 {
			// free text: blanks allowed, no special characters
			t := []string{" ", "x ", " y", "a b", "-", ":", "  ", "z", "\t", "=>"}[g.r.Intn(10)]
			if g.r.Intn(3) == 0 {
				t = genLit(g.r, false)
			}
			if t == "" {
				continue
			}
			n.A = append(n.A, &Node{K: "lit", T: t})
		} else if depth < g.maxDepth {
			n.A = append(n.A, g.stmt(depth+1, true))
		}
	}
	return n
}

// genItems: a whole template: text and statements in any order.
func genItems(r *run.Rand, maxDepth int) []*Node {
	g := &treeGen{r: r, maxDepth: maxDepth, budget: r.Range(3, 40)}
	n := r.Range(1, 5)
	var items []*Node
	for i := 0; i < n; i++ {
		if r.Intn(3) == 0 {
			k := r.Range(1, 10)
			if r.Intn(8) == 0 {
				k = r.Range(10, 60)
			}
			t := genText(r, k)
			if r.Intn(3) == 0 { // the characters most likely to interact with a neighbouring statement
				t = []string{"\"", " ", "\\", "}", "{", "\"\"", " \"", "\\n", "\n", "-", "}{", "\\\\"}[r.Intn(12)]
			}
			if len(items) > 0 && items[len(items)-1].K == "text" {
				items[len(items)-1].T += t
			} else {
				items = append(items, &Node{K: "text", T: t})
			}
		} else {
			items = append(items, g.stmt(1, false))
		}
	}
	if countCalls(items) == 0 && r.Intn(4) != 0 {
		items = append(items, g.call(1, false))
	}
	return items
}

// genCtrlLit: a literal containing at least one newline / tab / carriage
// return (so it is always quoted), otherwise word characters and blanks.
func genCtrlLit(r *run.Rand) string {
	n := r.Range(1, 8)
	rs := make([]rune, n)
	has := false
	for i := range rs {
		switch r.Intn(5) {
		case 0, 1:
			rs[i] = []rune{'\n', '\t', '\r'}[r.Intn(3)]
			has = true
		case 2:
			rs[i] = []rune{' ', 'n', 't', 'r', 'é'}[r.Intn(5)]
		default:
			rs[i] = rune(asciiWord[r.Intn(len(asciiWord))])
		}
	}
	if !has {
		rs[r.Intn(n)] = []rune{'\n', '\t', '\r'}[r.Intn(3)]
	}
	return string(rs)
}

// genCtrlCall: a probe call whose arguments are quoted literals with control
// characters, mixed with the other leaf kinds and (sometimes) one nested call
// of the same sort.
func genCtrlCall(r *run.Rand) *Node {
	var mk func(depth int) *Node
	mk = func(depth int) *Node {
		n := &Node{K: "call", T: fnames[r.Intn(len(fnames))]}
		na := r.Range(1, 3)
		ctrl := r.Intn(na)
		for i := 0; i < na; i++ {
			switch x := r.Intn(8); {
			case i == ctrl || x < 3:
				n.A = append(n.A, &Node{K: "lit", T: genCtrlLit(r)})
			case x == 3:
				n.A = append(n.A, &Node{K: "match", N: r.Intn(4)})
			case x == 4:
				n.A = append(n.A, &Node{K: "lit", T: ""})
			case x == 5 && depth < 2:
				n.A = append(n.A, mk(depth+1))
			default:
				n.A = append(n.A, &Node{K: "lit", T: genWord(r)})
			}
		}
		return n
	}
	return mk(1)
}

// ---------------------------------------------------------------- malformed mutations

// collect returns every statement node (match/key/call/empty) and every call
// node, with containers able to take an inserted argument.
func collect(items []*Node) (stmts []*Node, calls []*Node, argLists []*[]*Node) {
	var walk func(n *Node)
	walk = func(n *Node) {
		switch n.K {
		case "match", "key", "empty":
			stmts = append(stmts, n)
		case "call":
			stmts = append(stmts, n)
			calls = append(calls, n)
			argLists = append(argLists, &n.A)
		case "qt":
			argLists = append(argLists, &n.A)
		}
		for _, a := range n.A { // (the pieces of a "cat" are walked, its list is not offered for insertions)
			walk(a)
		}
	}
	for _, it := range items {
		walk(it)
	}
	return
}

var emptyBlanks = []string{"", " ", "  ", "\t", "\n", " \t\n", "\r"}

func insertAt(list []*Node, pos int, n *Node) []*Node {
	out := make([]*Node, 0, len(list)+1)
	out = append(out, list[:pos]...)
	out = append(out, n)
	return append(out, list[pos:]...)
}

// mutate returns a malformed variant of a well-formed template and the kind of mutation.
func mutate(r *run.Rand, items []*Node) ([]*Node, string) {
	items = cloneItems(items)
	stmts, calls, argLists := collect(items)
	kind := r.Intn(6)
	if kind == 2 && len(calls) == 0 {
		kind = 1
	}
	if kind == 0 && len(stmts) == 0 {
		kind = 3
	}
	switch kind {
	case 0: // drop one closing brace
		stmts[r.Intn(len(stmts))].NoClose = true
		return items, "drop-close"
	case 1: // insert an empty statement: top level or as an argument anywhere
		e := &Node{K: "empty", T: emptyBlanks[r.Intn(len(emptyBlanks))]}
		if len(argLists) > 0 && r.Intn(3) != 0 {
			l := argLists[r.Intn(len(argLists))]
			*l = insertAt(*l, r.Intn(len(*l)+1), e)
			return items, "empty-arg"
		}
		return insertAt(items, r.Intn(len(items)+1), e), "empty-top"
	case 2: // rename one function to an unregistered name
		c := calls[r.Intn(len(calls))]
		c.T = unknownNames[r.Intn(len(unknownNames))]
		c.Unknown = true
		return items, "unknown-func"
	case 3: // a lone opening brace somewhere at the top level
		e := &Node{K: "empty", T: emptyBlanks[r.Intn(len(emptyBlanks))], NoClose: true}
		return insertAt(items, r.Intn(len(items)+1), e), "open-brace"
	case 4: // two independent malformed statements: both must be reported
		e := &Node{K: "empty", T: emptyBlanks[r.Intn(len(emptyBlanks))]}
		u := &Node{K: "call", T: unknownNames[r.Intn(len(unknownNames))], Unknown: true,
			A: []*Node{{K: "lit", T: "a"}, {K: "match", N: 1}}}
		items = insertAt(items, r.Intn(len(items)+1), e)
		items = insertAt(items, r.Intn(len(items)+1), u)
		return items, "empty+unknown"
	}
	// three: empty, unknown and an unterminated tail
	e := &Node{K: "empty", T: emptyBlanks[r.Intn(len(emptyBlanks))]}
	u := &Node{K: "call", T: unknownNames[r.Intn(len(unknownNames))], Unknown: true, A: []*Node{{K: "lit", T: "a"}}}
	items = insertAt(items, r.Intn(len(items)+1), e)
	items = insertAt(items, r.Intn(len(items)+1), u)
	items = append(items, &Node{K: "call", T: "p1", A: []*Node{{K: "lit", T: "tail"}}, NoClose: true})
	return items, "empty+unknown+unterminated"
}

// ---------------------------------------------------------------- dense shapes

// denseTrees: small templates whose every layout (dense option sets) is enumerated.
func denseTrees() [][]*Node {
	lit := func(s string) *Node { return &Node{K: "lit", T: s} }
	m := func(i int) *Node { return &Node{K: "match", N: i} }
	k := func(s string) *Node { return &Node{K: "key", T: s} }
	call := func(f string, a ...*Node) *Node { return &Node{K: "call", T: f, A: a} }
	text := func(s string) *Node { return &Node{K: "text", T: s} }
	qt := func(a ...*Node) *Node { return &Node{K: "qt", A: a} }
	cat := func(a ...*Node) *Node { return &Node{K: "cat", A: a} }
	leaves := func() []*Node {
		return []*Node{lit("w"), lit("not found"), lit(""), lit("7"), m(1), k("src"), call("p0", lit("c")),
			qt(m(0), lit(" z")), qt(call("p2", m(0), lit("2"))),
			cat(m(0), m(1)), cat(lit("pre"), m(0), lit("post")), cat(m(0), lit("-"), call("p2", lit("b"), k("k")))}
	}
	var out [][]*Node
	// two arguments, all leaf pairs
	for i := range leaves() {
		for j := range leaves() {
			out = append(out, []*Node{call("p1", leaves()[i], leaves()[j])})
		}
	}
	// one argument
	for i := range leaves() {
		out = append(out, []*Node{call("p3", leaves()[i])})
	}
	// nested call first / middle / last, inner with 1..2 arguments
	for pos := 0; pos < 3; pos++ {
		for inner := 1; inner <= 2; inner++ {
			for _, il := range []*Node{lit("x"), lit("a b"), lit(""), m(2)} {
				ia := []*Node{il}
				if inner == 2 {
					ia = append(ia, k("k"))
				}
				args := []*Node{lit("a"), lit("b"), lit("c")}
				args[pos] = call("p2", ia...)
				out = append(out, []*Node{call("F", args...)})
			}
		}
	}
	// three levels
	out = append(out, []*Node{call("p0", call("p1", call("p2", lit("x"), lit("")), m(1)), lit("y z"))})
	out = append(out, []*Node{call("p0", lit("a"), call("p1", lit("b"), call("p2", lit("c"), call("p3", lit("d")))))})
	// statements next to quotes, blanks, escapes and each other at the top level
	for _, pre := range []string{"", "\"", " ", "\\", "}", "{", "a\tb"} {
		for _, post := range []string{"", "\"", " ", "\\n", "}", "{", "\n"} {
			its := []*Node{}
			if pre != "" {
				its = append(its, text(pre))
			}
			its = append(its, m(1))
			if post != "" {
				its = append(its, text(post))
			}
			its = append(its, call("p1", lit("q r"), k("k")))
			out = append(out, its)
		}
	}
	// newline / tab / carriage return inside quoted literals at call depth 1..4
	for _, ctl := range []string{"a\nb", "\t", "l1\r\nl2"} {
		inner := call("p1", lit(ctl), m(1))
		out = append(out, []*Node{inner.clone()})
		out = append(out, []*Node{call("p0", inner.clone(), lit("c"))})
		out = append(out, []*Node{text("x"), call("p0", call("p2", inner.clone())), text("y")})
		out = append(out, []*Node{call("F", lit("1"), call("p0", lit("2"), call("p2", inner.clone())))})
	}
	out = append(out, []*Node{m(0), m(1), k("a"), k("b")})
	out = append(out, []*Node{text("The sum is "), call("sum_i", m(0), m(1), k("key"))})
	out = append(out, []*Node{call("p0", m(4), m(3), lit("not found"))})
	return out
}

// ---------------------------------------------------------------- helpers

func itoa(i int) string { return strconv.Itoa(i) }

func validUTF8(s string) bool { return utf8.ValidString(s) }
