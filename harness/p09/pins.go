package p09

// Hand-written templates with hand-composed expectations: they do not go
// through the printer, so they also cross-check printer and reference. Always
// executed (shard 0). Witnesses of genuine defects are added here and stay as
// regression cases after the repair.

func pinned() []Case {
	M, K := mval, kval
	P := func(f string, a ...string) string { return probeString(f, a) }
	v := func(name, tmpl, want string) Case { return Case{Kind: "pin", Pin: name, Tmpl: tmpl, Want: want} }
	e := func(name, tmpl string, classes ...string) Case {
		return Case{Kind: "pin", Pin: name, Tmpl: tmpl, WantErr: classes}
	}
	return []Case{
		// docs/usage/expressions.md, "Syntax"
		v("doc-syntax", `{1} {p1 {2} 100}`, M(1)+" "+P("p1", M(2), "100")),
		v("doc-coalesce", `{p0 {4} {3} notfound}`, P("p0", M(4), M(3), "notfound")),
		v("doc-quotes", `{p0 {4} {3} "not found"}`, P("p0", M(4), M(3), "not found")),
		v("doc-testing", `The sum is {sum_i {0} {1} {key}}`, "The sum is "+P("sum_i", M(0), M(1), K("key"))),
		v("doc-special-keys", `{src}:{line} {.} {#} {.#} {@}`, K("src")+":"+K("line")+" "+K(".")+" "+K("#")+" "+K(".#")+" "+K("@")),
		v("doc-nested", `{1} {2} {p2 {p1 {4} 10000}}`, M(1)+" "+M(2)+" "+P("p2", P("p1", M(4), "10000"))),
		v("doc-quoted-template", `{p2 {0} "{p1 {0} 2}"}`, P("p2", M(0), P("p1", M(0), "2"))),
		// escapes outside braces
		v("escapes", `a\{b\}\\c\n\t\r\"d\ e\0`, "a{b}\\c\n\t\r\"d e0"),
		v("escaped-statement", `\{1\} \{p1 a\}`, "{1} {p1 a}"),
		v("escape-then-statement", `\\{1}\\`, "\\"+M(1)+"\\"),
		v("quotes-outside", `"{1}" "" "`, `"`+M(1)+`" "" "`),
		v("empty", ``, ""),
		v("only-text", `n r t \n`, "n r t \n"),
		// quoting and blanks inside braces
		v("empty-quoted", `{p1 ""}`, P("p1", "")),
		v("empty-quoted-3", `{p1 "" a ""}`, P("p1", "", "a", "")),
		v("blanks", "{p1\t{p2\n\"x  y\"  }\n\n{3} }", P("p1", P("p2", "x  y"), M(3))),
		v("padded-leaf", `{ 1 }{ src }`, M(1)+K("src")),
		v("deep", `{p1 {p2 {p3 {F {fn-x a}}}}}`, P("p1", P("p2", P("p3", P("F", P("fn-x", "a")))))),
		v("nested-last", `{p1 a b {p2 c d}}`, P("p1", "a", "b", P("p2", "c", "d"))),
		v("nested-first", `{p1 {p2 c d} a b}`, P("p1", P("p2", "c", "d"), "a", "b")),
		v("adjacent-statements", `{1}{p1 x}{k}`, M(1)+P("p1", "x")+K("k")),
		v("quoted-blank-arg", `{p1 " " "	"}`, P("p1", " ", "\t")),
		// \n \t \r inside quoted literal arguments give control characters at every call depth
		v("ctrl-escape-depth1", `{p1 "a\nb" c}`, P("p1", "a\nb", "c")),
		v("ctrl-escape-depth1-tab", `{p1 "a\tb" {0}}`, P("p1", "a\tb", M(0))),
		v("ctrl-escape-depth2", `{p1 {p1 "a\nb"} c}`, P("p1", P("p1", "a\nb"), "c")),
		v("ctrl-escape-depth2-tab", `{p1 {p1 "a\tb" {0}} c}`, P("p1", P("p1", "a\tb", M(0)), "c")),
		v("ctrl-escape-depth2-cr", `x{p1 {p1 "\r"}}y`, "x"+P("p1", P("p1", "\r"))+"y"),
		v("ctrl-escape-depth3", `{p1 1 {p1 2 {p1 "l1\nl2" {1}}}}`, P("p1", "1", P("p1", "2", P("p1", "l1\nl2", M(1))))),
		v("ctrl-escape-depth4", `{p0 {p1 {p2 {p3 "\t\r\n"}}}}`, P("p0", P("p1", P("p2", P("p3", "\t\r\n"))))),
		// a lone word / integer is a lookup; as an argument it is a literal
		v("integer-argument", `{p1 5}`, P("p1", "5")),
		v("integer-lookup", `{5}`, M(5)),
		v("word-lookup-named-like-function", `{p1}`, K("p1")),
		v("zero", `{0}`, M(0)),
		// malformed
		e("unterminated-1", `{`, "unterminated"),
		e("unterminated-2", `{p1 a`, "unterminated"),
		e("unterminated-3", `a {p1 {1} b`, "unterminated"),
		e("empty-1", `x{}y`, "empty"),
		e("empty-2", `{ }`, "empty"),
		e("empty-nested", `{p1 {} a}`, "empty"),
		e("empty-nested-2", `{p1 {p2 { } b} a}`, "empty"),
		e("unknown", `{nosuch a b}`, "missing"),
		e("unknown-nested", `{p1 {nosuch a} b}`, "missing"),
		e("two-errors", `{} {nosuch a}`, "empty", "missing"),
		e("three-errors", `{nosuch a}{}{p1 a`, "missing", "empty", "unterminated"),
	}
}
