package main

import _ "verifharness/p19"
