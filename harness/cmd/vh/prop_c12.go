package main

import (
	_ "verifharness/p12"
)
