package main

import _ "verifharness/p02"
