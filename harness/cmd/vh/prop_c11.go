package main

import (
	_ "verifharness/p11"
)
