package main

import (
	_ "verifharness/p18"
)
