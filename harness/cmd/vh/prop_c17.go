package main

import (
	_ "verifharness/p17"
)
