package main

import _ "verifharness/p03"
