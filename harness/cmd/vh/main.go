// vh is the multi-call harness binary: vh <ID> --tier quick --seed 1 --shard 0/8 --out dir
package main

import (
	"encoding/json"
	"flag"
	"fmt"
	"os"
	"strconv"
	"strings"

	"verifharness/internal/reg"
	"verifharness/internal/run"
)

func main() {
	if len(os.Args) < 2 {
		fmt.Fprintln(os.Stderr, "usage: vh <ID> [flags]")
		os.Exit(2)
	}
	id := os.Args[1]
	fs := flag.NewFlagSet("vh", flag.ExitOnError)
	tier := fs.String("tier", "quick", "quick|thorough")
	seed := fs.Uint64("seed", 1, "VERIF_SEED")
	shard := fs.String("shard", "0/1", "i/n")
	out := fs.String("out", "", "output directory")
	flavour := fs.String("flavour", "plain", "plain|race|asan")
	replay := fs.String("replay", "", "replay file (a serialised case)")
	known := fs.String("known", "/verif/known_findings.json", "known findings file")
	rare := fs.String("rare", "", "path of the rare CLI built from /repo")
	rareRace := fs.String("rare-race", "", "path of the race-instrumented rare CLI")
	fs.Parse(os.Args[2:])

	r, ok := reg.Runners[id]
	if !ok {
		fmt.Fprintf(os.Stderr, "unknown property %s\n", id)
		os.Exit(2)
	}
	parts := strings.Split(*shard, "/")
	si, _ := strconv.Atoi(parts[0])
	sn := 1
	if len(parts) > 1 {
		sn, _ = strconv.Atoi(parts[1])
	}
	if *out == "" {
		fmt.Fprintln(os.Stderr, "--out required")
		os.Exit(2)
	}
	c := run.New(id, *tier, *seed, si, sn, *out, *flavour)
	c.RareBin = *rare
	c.RareRace = *rareRace
	c.LoadKnown(*known)
	if *replay != "" {
		b, err := os.ReadFile(*replay)
		if err != nil {
			fmt.Fprintln(os.Stderr, err)
			os.Exit(2)
		}
		var w struct {
			Case json.RawMessage `json:"case"`
		}
		if json.Unmarshal(b, &w) == nil && len(w.Case) > 0 {
			c.Replay = w.Case
		} else {
			c.Replay = b
		}
	}
	r(c)
	c.Finish()
}
