package main

import _ "verifharness/p01"
