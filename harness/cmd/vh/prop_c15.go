package main

import (
	_ "verifharness/p15"
)
