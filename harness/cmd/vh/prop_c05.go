package main

import _ "verifharness/p05"
