package main

import (
	_ "verifharness/p09"
)
