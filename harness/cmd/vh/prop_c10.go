package main

import (
	_ "verifharness/p10"
)
