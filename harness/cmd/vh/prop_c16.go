package main

import (
	_ "verifharness/p16"
)
