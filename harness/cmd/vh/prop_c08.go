package main

import (
	_ "verifharness/p08"
)
