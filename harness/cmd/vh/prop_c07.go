package main

import (
	_ "verifharness/p07"
)
