package main

import (
	_ "verifharness/p06"
)
