package main

import (
	_ "verifharness/p13"
)
