package main

import (
	_ "verifharness/p04"
)
