package main

import (
	_ "verifharness/p20"
)
