package main

import (
	_ "verifharness/p14"
)
