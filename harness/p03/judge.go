package p03

import (
	"unicode/utf8"
	"bytes"
	"encoding/csv"
	"fmt"
	"math"
	"regexp"
	"sort"
	"strconv"
	"strings"

	"verifharness/internal/run"
)

type finding struct {
	class string
	msg   string
}

// ---------------------------------------------------------------- CSV against the reference

func parseCSV(b []byte) ([][]string, error) {
	rd := csv.NewReader(bytes.NewReader(b))
	rd.FieldsPerRecord = -1
	rd.LazyQuotes = false
	rd.TrimLeadingSpace = false
	return rd.ReadAll()
}

func distinct(xs []string) (string, bool) {
	seen := map[string]bool{}
	for _, x := range xs {
		if seen[x] {
			return x, false
		}
		seen[x] = true
	}
	return "", true
}

// judgeCSV compares the exported CSV with the reference aggregation as maps.
func judgeCSV(s *Spec, a *Agg, out []byte) *finding {
	recs, err := parseCSV(out)
	if err != nil {
		return &finding{"csv-not-rfc4180", fmt.Sprintf("CSV export does not parse: %v; output %s", err, run.Q(string(out)))}
	}
	bad := func(f string, args ...any) *finding {
		return &finding{"csv-vs-reference", fmt.Sprintf(f, args...) + "; CSV " + run.Q(string(out))}
	}
	switch s.Cmd {
	case "histo":
		if len(recs) < 1 || len(recs[0]) != 2 {
			return bad("histogram CSV has no 2-column header")
		}
		got := map[string]string{}
		for _, r := range recs[1:] {
			if len(r) != 2 {
				return bad("histogram CSV row with %d fields: %q", len(r), r)
			}
			if _, dup := got[r[0]]; dup {
				return bad("key %s appears in two CSV rows", run.Q(r[0]))
			}
			got[r[0]] = r[1]
		}
		for _, k := range sortedKeys(a.histo) {
			v, ok := got[k]
			if !ok {
				return bad("key %s (reference count %d) is missing from the CSV", run.Q(k), a.histo[k])
			}
			if v != strconv.FormatInt(a.histo[k], 10) {
				return bad("key %s: CSV count %s, reference %d", run.Q(k), v, a.histo[k])
			}
		}
		for _, k := range sortedKeys(got) {
			if _, ok := a.histo[k]; !ok {
				return bad("CSV has key %s (count %s) that no input line produced", run.Q(k), got[k])
			}
		}
	case "table", "heatmap", "spark":
		if len(a.cols) == 0 {
			// nothing was aggregated: header of one empty cell (a blank line) and no rows
			for _, r := range recs {
				if len(r) > 1 || (len(r) == 1 && r[0] != "") {
					return bad("reference table is empty but the CSV has a record %q", r)
				}
			}
			return nil
		}
		if len(recs) < 1 || len(recs[0]) < 1 || recs[0][0] != "" {
			return bad("table CSV header does not start with an empty corner cell")
		}
		hdr := recs[0][1:]
		if d, ok := distinct(hdr); !ok {
			return bad("column %s appears twice in the CSV header", run.Q(d))
		}
		want := sortedKeys(a.cols)
		gotc := append([]string(nil), hdr...)
		sort.Strings(gotc)
		if strings.Join(gotc, "\x00") != strings.Join(want, "\x00") {
			return bad("CSV columns %q, reference columns %q", gotc, want)
		}
		seen := map[string]bool{}
		for _, r := range recs[1:] {
			if len(r) != len(hdr)+1 {
				return bad("table CSV row %q has %d cells, header has %d", r, len(r), len(hdr)+1)
			}
			if seen[r[0]] {
				return bad("row %s appears twice in the CSV", run.Q(r[0]))
			}
			seen[r[0]] = true
			if !a.rows[r[0]] {
				return bad("CSV has row %s that no input line produced", run.Q(r[0]))
			}
			for i, col := range hdr {
				w := a.cells[[2]string{col, r[0]}]
				if r[i+1] != strconv.FormatInt(w, 10) {
					return bad("cell (col %s, row %s): CSV %s, reference %d", run.Q(col), run.Q(r[0]), r[i+1], w)
				}
			}
		}
		for _, k := range sortedKeys(a.rows) {
			if !seen[k] {
				return bad("row %s is missing from the CSV", run.Q(k))
			}
		}
	case "bars":
		if len(recs) < 1 || len(recs[0]) < 1 {
			return bad("bargraph CSV has no header")
		}
		hdr := recs[0][1:]
		if d, ok := distinct(hdr); !ok {
			return bad("sub-key %s appears twice in the CSV header", run.Q(d))
		}
		want := sortedKeys(a.bsub)
		gotc := append([]string(nil), hdr...)
		sort.Strings(gotc)
		if strings.Join(gotc, "\x00") != strings.Join(want, "\x00") {
			return bad("CSV sub-keys %q, reference sub-keys %q", gotc, want)
		}
		seen := map[string]bool{}
		for _, r := range recs[1:] {
			if len(r) != len(hdr)+1 {
				return bad("bargraph CSV row %q has %d cells, header has %d", r, len(r), len(hdr)+1)
			}
			if seen[r[0]] {
				return bad("key %s appears twice in the CSV", run.Q(r[0]))
			}
			seen[r[0]] = true
			if !a.bkey[r[0]] {
				return bad("CSV has key %s that no input line produced", run.Q(r[0]))
			}
			for i, sub := range hdr {
				w := a.bars[[2]string{r[0], sub}]
				if r[i+1] != strconv.FormatInt(w, 10) {
					return bad("bar (key %s, sub-key %s): CSV %s, reference %d", run.Q(r[0]), run.Q(sub), r[i+1], w)
				}
			}
		}
		for _, k := range sortedKeys(a.bkey) {
			if !seen[k] {
				return bad("key %s is missing from the CSV", run.Q(k))
			}
		}
	case "reduce":
		rd := s.Red
		ng := len(rd.Groups)
		width := ng + len(rd.Accs)
		if len(recs) < 1 || len(recs[0]) != width {
			return bad("reduce CSV header has %d cells, expected %d", func() int {
				if len(recs) > 0 {
					return len(recs[0])
				}
				return 0
			}(), width)
		}
		for i, g := range rd.Groups {
			if g.Name != "" && recs[0][i] != g.Name {
				return bad("reduce CSV header cell %d is %s, group was named %s", i, run.Q(recs[0][i]), run.Q(g.Name))
			}
		}
		for i, ac := range rd.Accs {
			if ac.Name != "" && recs[0][ng+i] != ac.Name {
				return bad("reduce CSV header cell %d is %s, accumulator was named %s", ng+i, run.Q(recs[0][ng+i]), run.Q(ac.Name))
			}
		}
		seen := map[string]bool{}
		for _, r := range recs[1:] {
			if len(r) != width {
				return bad("reduce CSV row %q has %d cells, expected %d", r, len(r), width)
			}
			gk := strings.Join(r[:ng], "\x00")
			if seen[gk] {
				return bad("group %q appears twice in the CSV", r[:ng])
			}
			seen[gk] = true
			w, ok := a.reduce[gk]
			if !ok {
				return bad("CSV has group %q that no input line produced", r[:ng])
			}
			for i := range w {
				if r[ng+i] != w[i] {
					return bad("group %q accumulator %s: CSV %s, reference %s", r[:ng], rd.Accs[i].col(), run.Q(r[ng+i]), run.Q(w[i]))
				}
			}
		}
		for _, gk := range sortedKeys(a.reduce) {
			if !seen[gk] {
				return bad("group %q is missing from the CSV", a.reduceParts[gk])
			}
		}
	}
	return nil
}

// ---------------------------------------------------------------- snapshots

// cutStatus removes the last line of a snapshot (batcher.StatusString():
// byte rate and file counter depend on time and on the number of files).
func cutStatus(out []byte) (body string, ok bool) {
	s := string(out)
	if !strings.HasSuffix(s, "\n") {
		return s, false
	}
	s = s[:len(s)-1]
	i := strings.LastIndexByte(s, '\n')
	if i < 0 {
		return "", true
	}
	return s[:i+1], true
}

var footRe = regexp.MustCompile(`^Matched: ([\d,]+) / ([\d,]+)(.*)$`)
var ignRe = regexp.MustCompile(`\(Ignored: ([\d,]+)\)`)
var errRe = regexp.MustCompile(`\(Errors: ([\d,]+)\)`)

func num(s string) int {
	n, _ := strconv.Atoi(strings.ReplaceAll(s, ",", ""))
	return n
}

// judgeFooter checks the summary line (the last line of the body) against the reference counts.
func judgeFooter(s *Spec, a *Agg, body string) *finding {
	lines := strings.Split(strings.TrimSuffix(body, "\n"), "\n")
	last := lines[len(lines)-1]
	m := footRe.FindStringSubmatch(last)
	if m == nil {
		return &finding{"snapshot-footer", fmt.Sprintf("the line before the status line is not the 'Matched: m / n' summary: %s", run.Q(last))}
	}
	gi, ge := 0, 0
	if x := ignRe.FindStringSubmatch(m[3]); x != nil {
		gi = num(x[1])
	}
	if x := errRe.FindStringSubmatch(m[3]); x != nil {
		ge = num(x[1])
	}
	if num(m[1]) != a.matched || num(m[2]) != a.read || gi != a.ignored || ge != a.parseErr {
		return &finding{"snapshot-footer", fmt.Sprintf("summary %s; reference: matched %d / read %d, ignored %d, parse errors %d", run.Q(last), a.matched, a.read, a.ignored, a.parseErr)}
	}
	return nil
}

var anRe = regexp.MustCompile(`^(Samples|Mean|StdDev|Min|Max):\s+(\S+)\s*$`)

// judgeAnalyze compares count / mean / sd / min / max with the reference.
// The screen shows 4 decimals; which standard deviation (n or n-1) is meant is
// not documented, so either is accepted.
func judgeAnalyze(s *Spec, a *Agg, body string) *finding {
	got := map[string]float64{}
	for _, ln := range strings.Split(body, "\n") {
		if m := anRe.FindStringSubmatch(ln); m != nil {
			v, err := strconv.ParseFloat(strings.ReplaceAll(m[2], ",", ""), 64)
			if err != nil {
				return &finding{"analyze-vs-reference", fmt.Sprintf("cannot read the number in %s", run.Q(ln))}
			}
			if _, dup := got[m[1]]; !dup {
				got[m[1]] = v
			}
		}
	}
	n, mean, sdS, sdP, mn, mx := a.stats()
	for _, k := range []string{"Samples", "Mean", "StdDev", "Min", "Max"} {
		if _, ok := got[k]; !ok {
			return &finding{"analyze-vs-reference", fmt.Sprintf("no %s line in the analyze snapshot %s", k, run.Q(body))}
		}
	}
	if int(got["Samples"]) != n {
		return &finding{"analyze-vs-reference", fmt.Sprintf("Samples %v, reference %d", got["Samples"], n)}
	}
	if n == 0 {
		return nil // what is shown for an empty series is not documented
	}
	near := func(x, w float64) bool { return math.Abs(x-w) <= 0.00006+1e-9*math.Abs(w) }
	if !near(got["Mean"], mean) {
		return &finding{"analyze-vs-reference", fmt.Sprintf("Mean %v, reference %.6f (n=%d)", got["Mean"], mean, n)}
	}
	if !near(got["StdDev"], sdS) && !near(got["StdDev"], sdP) {
		return &finding{"analyze-vs-reference", fmt.Sprintf("StdDev %v, reference %.6f (n-1) / %.6f (n)", got["StdDev"], sdS, sdP)}
	}
	if !near(got["Min"], mn) || !near(got["Max"], mx) {
		return &finding{"analyze-vs-reference", fmt.Sprintf("Min %v Max %v, reference %.4f / %.4f", got["Min"], got["Max"], mn, mx)}
	}
	return judgeAnalyzeExtra(s, a, body, near)
}

var anExtraRe = regexp.MustCompile(`^(Median|Mode|P[0-9.]+):\s+(\S+)\s*$`)

// judgeAnalyzeExtra: with -x the screen also shows the median, the mode and one line per -q quantile (default 90, 99,
// 99.9), taken from the samples in ascending order (descending with -r). Same latitude as C07 takes at the aggregator:
// the median is one of the two middle order statistics, the mode one of the most frequent values, a quantile an order
// statistic whose rank is within one of p*n. The screen shows four decimals.
func judgeAnalyzeExtra(s *Spec, a *Agg, body string, near func(x, w float64) bool) *finding {
	extra, rev := false, false
	var qs []float64
	for i, f := range s.CmdArgs {
		switch f {
		case "-x", "--extra":
			extra = true
		case "-r", "--reverse":
			rev = true
		case "-q", "--quantile":
			if i+1 < len(s.CmdArgs) {
				if q, err := strconv.ParseFloat(s.CmdArgs[i+1], 64); err == nil {
					qs = append(qs, q)
				}
			}
		}
	}
	if !extra {
		return nil
	}
	if qs == nil {
		qs = []float64{90, 99, 99.9}
	}
	n := len(a.nums)
	sorted := append([]float64(nil), a.nums...)
	sort.Float64s(sorted)
	for _, v := range sorted {
		if math.IsNaN(v) || math.IsInf(v, 0) {
			return nil // order statistics of non-finite samples: not judged here
		}
	}
	at := func(i int) float64 {
		if rev {
			return sorted[n-1-i]
		}
		return sorted[i]
	}
	type line struct {
		name string
		v    float64
	}
	var lines []line
	for _, ln := range strings.Split(body, "\n") {
		if m := anExtraRe.FindStringSubmatch(ln); m != nil {
			v, err := strconv.ParseFloat(strings.ReplaceAll(m[2], ",", ""), 64)
			if err != nil {
				return &finding{"analyze-vs-reference", fmt.Sprintf("cannot read the number in %s", run.Q(ln))}
			}
			lines = append(lines, line{m[1], v})
		}
	}
	if len(lines) != 2+len(qs) {
		return &finding{"analyze-vs-reference", fmt.Sprintf("analyze -x with %d quantiles shows %d of the Median / Mode / P lines: %s", len(qs), len(lines), run.Q(body))}
	}
	if lines[0].name != "Median" || lines[1].name != "Mode" {
		return &finding{"analyze-vs-reference", fmt.Sprintf("analyze -x: expected Median and Mode lines first, got %s and %s", lines[0].name, lines[1].name)}
	}
	if med := lines[0].v; !near(med, at((n-1)/2)) && !near(med, at(n/2)) {
		return &finding{"analyze-vs-reference", fmt.Sprintf("Median %v, middle order statistics of the %d samples are %v / %v (reverse=%v)", med, n, at((n-1)/2), at(n/2), rev)}
	}
	best, cntMode := 0, 0
	for i := 0; i < n; {
		j := i
		for j < n && sorted[j] == sorted[i] {
			j++
		}
		if j-i > best {
			best = j - i
		}
		if near(lines[1].v, sorted[i]) && j-i > cntMode {
			cntMode = j - i
		}
		i = j
	}
	if cntMode != best {
		return &finding{"analyze-vs-reference", fmt.Sprintf("Mode %v occurs %d times, the most frequent value occurs %d times", lines[1].v, cntMode, best)}
	}
	for k, q := range qs {
		ln := lines[2+k]
		if want := fmt.Sprintf("P%02.4f", q); ln.name != want {
			return &finding{"analyze-vs-reference", fmt.Sprintf("quantile line %d is labelled %s, expected %s", k, ln.name, want)}
		}
		pn := q / 100 * float64(n)
		ok := false
		for i := 0; i < n; i++ {
			if near(ln.v, at(i)) && math.Abs(float64(i+1)-pn) <= 1+1e-9 {
				ok = true
				break
			}
		}
		if !ok && pn <= float64(n) {
			return &finding{"analyze-vs-reference", fmt.Sprintf("%s = %v is not an order statistic of rank within 1 of %v (n=%d, reverse=%v)", ln.name, ln.v, pn, n, rev)}
		}
	}
	return nil
}

// squeeze collapses runs of blanks: two screens that are equal after squeeze differ only in padding.
func squeeze(s string) string {
	lines := strings.Split(s, "\n")
	for i, ln := range lines {
		var sb strings.Builder
		prev := true
		for _, ch := range []byte(ln) {
			if ch == ' ' {
				if !prev {
					sb.WriteByte(' ')
				}
				prev = true
				continue
			}
			prev = false
			sb.WriteByte(ch)
		}
		lines[i] = strings.TrimRight(sb.String(), " ")
	}
	return strings.Join(lines, "\n")
}

var meanSdRe = regexp.MustCompile(`^(Mean|StdDev):\s+(\S+)\s*$`)

// sameAnalyze: identical except that Mean / StdDev may differ in the last shown digit
// (the running mean is order-sensitive in its last bits).
func sameAnalyze(x, y string) bool {
	lx, ly := strings.Split(x, "\n"), strings.Split(y, "\n")
	if len(lx) != len(ly) {
		return false
	}
	for i := range lx {
		if lx[i] == ly[i] {
			continue
		}
		mx, my := meanSdRe.FindStringSubmatch(lx[i]), meanSdRe.FindStringSubmatch(ly[i])
		if mx == nil || my == nil || mx[1] != my[1] {
			return false
		}
		vx, e1 := strconv.ParseFloat(strings.ReplaceAll(mx[2], ",", ""), 64)
		vy, e2 := strconv.ParseFloat(strings.ReplaceAll(my[2], ",", ""), 64)
		if e1 != nil || e2 != nil || math.Abs(vx-vy) > 0.00011+1e-9*math.Abs(vx) {
			return false
		}
	}
	return true
}

func firstDiff(x, y string) string {
	lx, ly := strings.Split(x, "\n"), strings.Split(y, "\n")
	for i := 0; i < len(lx) || i < len(ly); i++ {
		var a, b string
		if i < len(lx) {
			a = lx[i]
		}
		if i < len(ly) {
			b = ly[i]
		}
		if a != b {
			return fmt.Sprintf("first differing line %d: baseline %s, variant %s", i+1, run.Q(a), run.Q(b))
		}
	}
	return "no differing line"
}

// ---------------------------------------------------------------- screens with plain keys

var plainKeyRe = regexp.MustCompile(`^[!-~]+$`)

func allPlain(keys []string) bool {
	for _, k := range keys {
		if !plainKeyRe.MatchString(k) || k == "Total" {
			return false
		}
	}
	return true
}

// judgeHistoRows: when every key is a plain token and every key fits on the
// screen (-n >= number of keys), the rows of the histogram snapshot must be
// exactly the keys whose count is >= --atleast, each with its reference count.
func histoRowsApplicable(s *Spec, a *Agg) bool {
	return s.Cmd == "histo" && allPlain(sortedKeys(a.histo)) && s.N >= len(a.histo)
}

func judgeHistoRows(s *Spec, a *Agg, body string) *finding {
	keys := sortedKeys(a.histo)
	if !histoRowsApplicable(s, a) {
		return nil
	}
	lines := strings.Split(strings.TrimSuffix(body, "\n"), "\n")
	lines = lines[:len(lines)-1] // summary
	got := map[string]string{}
	for _, ln := range lines {
		f := strings.Fields(ln)
		if len(f) == 0 {
			continue
		}
		if len(f) < 2 {
			return &finding{"snapshot-vs-reference", fmt.Sprintf("histogram row %s is not 'key count'", run.Q(ln))}
		}
		if _, dup := got[f[0]]; dup {
			return &finding{"snapshot-vs-reference", fmt.Sprintf("key %s is on the histogram screen twice; screen %s", run.Q(f[0]), run.Q(body))}
		}
		got[f[0]] = strings.ReplaceAll(f[1], ",", "")
	}
	for _, k := range keys {
		v := a.histo[k]
		g, shown := got[k]
		switch {
		case v >= s.AtLeast && !shown:
			return &finding{"snapshot-vs-reference", fmt.Sprintf("key %s (count %d >= --atleast %d) is missing from the histogram screen %s", run.Q(k), v, s.AtLeast, run.Q(body))}
		case v < s.AtLeast && shown:
			return &finding{"snapshot-vs-reference", fmt.Sprintf("key %s (count %d < --atleast %d) is shown on the histogram screen %s", run.Q(k), v, s.AtLeast, run.Q(body))}
		case shown && g != strconv.FormatInt(v, 10):
			return &finding{"snapshot-vs-reference", fmt.Sprintf("histogram screen shows %s = %s, reference %d", run.Q(k), g, v)}
		}
	}
	for k := range got {
		if _, ok := a.histo[k]; !ok {
			return &finding{"snapshot-vs-reference", fmt.Sprintf("histogram screen shows key %s that no input line produced; screen %s", run.Q(k), run.Q(body))}
		}
	}
	return nil
}

// judgeBarsRows: same idea for `bars` (the bar graph has no row limit): plain keys and sub-keys; after the legend line
// every key owns one line per sub-key (grouped) or one line (stacked), and the last cell of each line is the value /
// the key's total. The bars themselves are C14's business; this reads back which number stands next to which key.
func barsRowsApplicable(s *Spec, a *Agg) bool {
	if s.Cmd != "bars" || len(a.bkey) == 0 || !allPlain(sortedKeys(a.bkey)) {
		return false
	}
	subs := sortedKeys(a.bsub)
	if len(subs) == 1 && subs[0] == "" {
		return true
	}
	return len(subs) > 0 && allPlain(subs)
}

func judgeBarsRows(s *Spec, a *Agg, body string) *finding {
	if !barsRowsApplicable(s, a) {
		return nil
	}
	bad := func(f string, args ...any) *finding {
		return &finding{"snapshot-vs-reference", fmt.Sprintf(f, args...) + "; screen " + run.Q(body)}
	}
	lines := strings.Split(strings.TrimSuffix(body, "\n"), "\n")
	lines = lines[:len(lines)-1] // summary
	subs := sortedKeys(a.bsub)
	if !(len(subs) == 1 && subs[0] == "") {
		if len(lines) == 0 {
			return bad("bar graph screen has no legend line")
		}
		leg := strings.Fields(lines[0])
		j := 0
		for _, f := range leg {
			if j < len(subs) && f == subs[j] {
				j++
			}
		}
		if j != len(subs) {
			return bad("legend %s does not list the sub-keys %q in order", run.Q(lines[0]), subs)
		}
		lines = lines[1:]
	}
	per := len(subs)
	if s.Stacked {
		per = 1
	}
	seen := map[string]bool{}
	for i := 0; i < len(lines); {
		ln := lines[i]
		f := strings.Fields(ln)
		if len(f) == 0 {
			i++
			continue
		}
		if ln[0] == ' ' || len(f) < 2 {
			return bad("line %s is neither a key line nor inside a key's block", run.Q(ln))
		}
		key := f[0]
		if seen[key] {
			return bad("key %s is on the bar graph twice", run.Q(key))
		}
		seen[key] = true
		if !a.bkey[key] {
			return bad("bar graph shows key %s that no input line produced", run.Q(key))
		}
		vals := []string{f[len(f)-1]}
		for k := 1; k < per; k++ {
			if i+k >= len(lines) || len(lines[i+k]) == 0 || lines[i+k][0] != ' ' {
				return bad("key %s has %d lines, expected one per sub-key (%d)", run.Q(key), k, per)
			}
			g := strings.Fields(lines[i+k])
			if len(g) == 0 {
				return bad("key %s: empty line inside its block", run.Q(key))
			}
			vals = append(vals, g[len(g)-1])
		}
		i += per
		if s.Stacked {
			var tot int64
			for _, sk := range subs {
				tot += a.bars[[2]string{key, sk}]
			}
			if strings.ReplaceAll(vals[0], ",", "") != strconv.FormatInt(tot, 10) {
				return bad("stacked bar of %s is labelled %s, reference total %d", run.Q(key), vals[0], tot)
			}
			continue
		}
		for k, sk := range subs {
			w := a.bars[[2]string{key, sk}]
			if strings.ReplaceAll(vals[k], ",", "") != strconv.FormatInt(w, 10) {
				return bad("bar (%s, %s) is labelled %s, reference %d", run.Q(key), run.Q(sk), vals[k], w)
			}
		}
	}
	for _, k := range sortedKeys(a.bkey) {
		if !seen[k] {
			return bad("key %s is missing from the bar graph", run.Q(k))
		}
	}
	return nil
}

// judgeReduceRows: same idea for `reduce` in its table form (at least one group, or --table): when every column name, every
// group value and every accumulator value is a plain token and everything fits (--num rows, --cols 10), the header must
// name the group columns then the accumulators, and the rows must be exactly the reference groups with their values.
// Row order is C13's business.
func reduceRowsApplicable(s *Spec, a *Agg) bool {
	if s.Cmd != "reduce" || s.Red == nil || a.reduce == nil {
		return false
	}
	rd := s.Red
	if len(rd.Groups) == 0 && !rd.Table {
		return false
	}
	// the header line is one of the --num rows of the table
	if len(rd.Groups)+len(rd.Accs) > 10 || len(a.reduce)+1 > s.N || len(a.reduce) == 0 {
		return false
	}
	for _, g := range rd.Groups {
		if !plainKeyRe.MatchString(g.Name) {
			return false
		}
	}
	for _, ac := range rd.Accs {
		if !plainKeyRe.MatchString(ac.Name) {
			return false
		}
	}
	for gk, vals := range a.reduce {
		if len(rd.Groups) > 0 && !allPlainAny(a.reduceParts[gk]) {
			return false
		}
		if !allPlainAny(vals) {
			return false
		}
	}
	return true
}

func allPlainAny(xs []string) bool {
	for _, x := range xs {
		if !plainKeyRe.MatchString(x) {
			return false
		}
	}
	return true
}

func judgeReduceRows(s *Spec, a *Agg, body string) *finding {
	if !reduceRowsApplicable(s, a) {
		return nil
	}
	rd := s.Red
	bad := func(f string, args ...any) *finding {
		return &finding{"snapshot-vs-reference", fmt.Sprintf(f, args...) + "; screen " + run.Q(body)}
	}
	lines := strings.Split(strings.TrimSuffix(body, "\n"), "\n")
	lines = lines[:len(lines)-1] // summary
	if len(lines) == 0 {
		return bad("reduce screen has no header")
	}
	ng, width := len(rd.Groups), len(rd.Groups)+len(rd.Accs)
	hdr := strings.Fields(lines[0])
	if len(hdr) != width {
		return bad("reduce header has %d names, expected %d", len(hdr), width)
	}
	for i, g := range rd.Groups {
		if hdr[i] != g.Name {
			return bad("header cell %d is %s, group was named %s", i, run.Q(hdr[i]), run.Q(g.Name))
		}
	}
	for i, ac := range rd.Accs {
		if hdr[ng+i] != ac.Name {
			return bad("header cell %d is %s, accumulator was named %s", ng+i, run.Q(hdr[ng+i]), run.Q(ac.Name))
		}
	}
	seen := map[string]bool{}
	for _, ln := range lines[1:] {
		f := strings.Fields(ln)
		if len(f) == 0 {
			continue
		}
		if len(f) != width {
			return bad("reduce row %s has %d cells, header has %d", run.Q(ln), len(f), width)
		}
		gk := strings.Join(f[:ng], "\x00")
		if seen[gk] {
			return bad("group %q is on the screen twice", f[:ng])
		}
		seen[gk] = true
		w, ok := a.reduce[gk]
		if !ok {
			return bad("screen has group %q that no input line produced", f[:ng])
		}
		for i := range w {
			if f[ng+i] != w[i] {
				return bad("group %q accumulator %s: screen %s, reference %s", f[:ng], rd.Accs[i].col(), run.Q(f[ng+i]), run.Q(w[i]))
			}
		}
	}
	for _, gk := range sortedKeys(a.reduce) {
		if !seen[gk] {
			return bad("group %q is missing from the screen", a.reduceParts[gk])
		}
	}
	return nil
}

// judgeSparkRows: same idea for `spark`: plain row and column keys, every row fits (--num), columns in a name-based
// --sort-cols order (text ascending or descending); the displayed columns are the last --cols of that order. Each row
// line is "row first glyphs last": first / last are the reference cells of the first / last displayed column (absent =
// 0), and the glyph run has one cell per displayed column. The glyph heights are C14's business.
func sparkColOrder(s *Spec, a *Agg) ([]string, bool) {
	mode := ""
	for i, f := range s.CmdArgs {
		if f == "--sort-cols" && i+1 < len(s.CmdArgs) {
			mode = s.CmdArgs[i+1]
		}
	}
	cols := sortedKeys(a.cols)
	switch mode {
	case "text", "text:asc":
	case "text:desc", "text:reverse":
		for i, j := 0, len(cols)-1; i < j; i, j = i+1, j-1 {
			cols[i], cols[j] = cols[j], cols[i]
		}
	default:
		return nil, false
	}
	if s.Cols < 1 {
		return nil, false
	}
	if len(cols) > s.Cols {
		cols = cols[len(cols)-s.Cols:]
	}
	return cols, true
}

func sparkRowsApplicable(s *Spec, a *Agg) bool {
	if s.Cmd != "spark" || len(a.cols) == 0 || len(a.rows) == 0 || len(a.rows) > s.N {
		return false
	}
	if !allPlain(sortedKeys(a.cols)) || !allPlain(sortedKeys(a.rows)) {
		return false
	}
	_, ok := sparkColOrder(s, a)
	return ok
}

func judgeSparkRows(s *Spec, a *Agg, body string) *finding {
	if !sparkRowsApplicable(s, a) {
		return nil
	}
	cols, _ := sparkColOrder(s, a)
	bad := func(f string, args ...any) *finding {
		return &finding{"snapshot-vs-reference", fmt.Sprintf(f, args...) + "; screen " + run.Q(body)}
	}
	lines := strings.Split(strings.TrimSuffix(body, "\n"), "\n")
	lines = lines[:len(lines)-1] // summary
	if len(lines) == 0 {
		return bad("sparkline screen has no header")
	}
	if h := strings.Fields(lines[0]); len(h) < 2 || h[0] != "First" || h[len(h)-1] != "Last" {
		return bad("sparkline header %s is not 'First .. Last'", run.Q(lines[0]))
	}
	seen := map[string]bool{}
	for _, ln := range lines[1:] {
		f := strings.Fields(ln)
		if len(f) == 0 {
			continue
		}
		if len(f) != 4 {
			return bad("sparkline row %s is not 'row first glyphs last'", run.Q(ln))
		}
		name := f[0]
		if seen[name] {
			return bad("row %s is on the screen twice", run.Q(name))
		}
		seen[name] = true
		if !a.rows[name] {
			return bad("screen has row %s that no input line produced", run.Q(name))
		}
		first := a.cells[[2]string{cols[0], name}]
		last := a.cells[[2]string{cols[len(cols)-1], name}]
		if strings.ReplaceAll(f[1], ",", "") != strconv.FormatInt(first, 10) {
			return bad("row %s: First is %s, reference cell (col %s) is %d", run.Q(name), f[1], run.Q(cols[0]), first)
		}
		if strings.ReplaceAll(f[3], ",", "") != strconv.FormatInt(last, 10) {
			return bad("row %s: Last is %s, reference cell (col %s) is %d", run.Q(name), f[3], run.Q(cols[len(cols)-1]), last)
		}
		if n := utf8.RuneCountInString(f[2]); n != len(cols) {
			return bad("row %s: %d sparkline cells for %d displayed columns %q", run.Q(name), n, len(cols), cols)
		}
	}
	for _, r := range sortedKeys(a.rows) {
		if !seen[r] {
			return bad("row %s is missing from the screen", run.Q(r))
		}
	}
	return nil
}

// judgeTableGrid: same idea for `table`: plain keys, everything fits (--num / --cols),
// then header + rows (+ totals) must hold exactly the reference cells.
func tableGridApplicable(s *Spec, a *Agg) bool {
	return s.Cmd == "table" && len(a.cols) > 0 && allPlain(sortedKeys(a.cols)) && allPlain(sortedKeys(a.rows)) && s.N >= 1 && s.Cols >= 1
}

// tableFits: every row and column is on the screen (otherwise the first --num rows / --cols columns of the sort order
// are; the table prints no note about the rest, the summary line counts them).
func tableFits(s *Spec, a *Agg) bool { return len(a.rows) <= s.N && len(a.cols) <= s.Cols }

func judgeTableGrid(s *Spec, a *Agg, body string) *finding {
	if !tableGridApplicable(s, a) {
		return nil
	}
	rowTot, colTot := false, false
	for _, f := range s.CmdArgs {
		switch f {
		case "-x":
			rowTot, colTot = true, true
		case "--rowtotal":
			rowTot = true
		case "--coltotal":
			colTot = true
		}
	}
	lines := strings.Split(strings.TrimSuffix(body, "\n"), "\n")
	lines = lines[:len(lines)-1]
	bad := func(f string, args ...any) *finding {
		return &finding{"snapshot-vs-reference", fmt.Sprintf(f, args...) + "; screen " + run.Q(body)}
	}
	if len(lines) < 1 {
		return bad("table screen has no header")
	}
	hdr := strings.Fields(lines[0])
	wantHdr := min(len(a.cols), s.Cols)
	if rowTot {
		wantHdr++
	}
	if len(hdr) != wantHdr {
		return bad("table header has %d names, reference has %d columns of which --cols %d are shown (row totals: %v)", len(hdr), len(a.cols), s.Cols, rowTot)
	}
	cols := hdr
	if rowTot {
		if hdr[len(hdr)-1] != "Total" {
			return bad("last header cell is %s, expected Total", run.Q(hdr[len(hdr)-1]))
		}
		cols = hdr[:len(hdr)-1]
	}
	if d, ok := distinct(cols); !ok {
		return bad("column %s is on the screen twice", run.Q(d))
	}
	for _, c := range cols {
		if !a.cols[c] {
			return bad("screen has column %s that no input line produced", run.Q(c))
		}
	}
	seen := map[string]bool{}
	var all int64
	colSum, rowSum := map[string]int64{}, map[string]int64{}
	for k, v := range a.cells {
		colSum[k[0]] += v
		rowSum[k[1]] += v
		all += v
	}
	dataRows := 0
	for _, ln := range lines[1:] {
		f := strings.Fields(ln)
		if len(f) == 0 {
			continue
		}
		if len(f) != len(hdr)+1 {
			return bad("table row %s has %d cells, header has %d", run.Q(ln), len(f)-1, len(hdr))
		}
		name := f[0]
		isTot := colTot && name == "Total" && !a.rows["Total"]
		if seen[name] {
			return bad("row %s is on the screen twice", run.Q(name))
		}
		seen[name] = true
		if !isTot && !a.rows[name] {
			return bad("screen has row %s that no input line produced", run.Q(name))
		}
		if !isTot {
			dataRows++
		}
		rsum := rowSum[name] // over all columns, shown or not
		for i, c := range cols {
			w := a.cells[[2]string{c, name}]
			if isTot {
				w = colSum[c]
			}
			if isTot && len(a.rows) > s.N {
				continue // whether a column total covers rows that are not shown is not documented: not judged
			}
			if strings.ReplaceAll(f[i+1], ",", "") != strconv.FormatInt(w, 10) {
				return bad("screen cell (col %s, row %s) = %s, reference %d", run.Q(c), run.Q(name), f[i+1], w)
			}
		}
		if rowTot && tableFits(s, a) { // with hidden rows or columns what a total covers is not documented: not judged
			w := rsum
			if isTot {
				w = all
			}
			if strings.ReplaceAll(f[len(f)-1], ",", "") != strconv.FormatInt(w, 10) {
				return bad("row total of %s = %s, reference %d", run.Q(name), f[len(f)-1], w)
			}
		}
	}
	if want := min(len(a.rows), s.N); dataRows != want {
		return bad("the table shows %d rows; the data has %d rows and --num is %d", dataRows, len(a.rows), s.N)
	}
	if tableFits(s, a) {
		for _, r := range sortedKeys(a.rows) {
			if !seen[r] {
				return bad("row %s is missing from the screen", run.Q(r))
			}
		}
	}
	if colTot && !seen["Total"] {
		return bad("--coltotal was given but there is no Total row")
	}
	return nil
}

// judgeFullTable: what `histo --all` prints after "Full Table:" — every key whose count is >= --atleast, whatever -n
// says, each with its reference count, then the summary line once more. With plain keys the rows are read back; the
// rows of the screen proper must be the first rows of the full table (same sorter, the screen only stops earlier).
func judgeFullTable(s *Spec, a *Agg, full string) *finding {
	if !strings.HasSuffix(full, "\n") {
		return &finding{"all-table", "the full table does not end with a newline: " + run.Q(tail(full, 200))}
	}
	if f := judgeFooter(s, a, full); f != nil {
		return &finding{"all-table", "after the full table: " + f.msg}
	}
	if !allPlain(sortedKeys(a.histo)) {
		return nil
	}
	s2 := *s
	s2.N = len(a.histo)
	if f := judgeHistoRows(&s2, a, full); f != nil {
		return &finding{"all-table", "full table: " + f.msg}
	}
	return nil
}

// histoKeysInOrder lists the first field of every non-empty row above the summary line.
func histoKeysInOrder(body string) []string {
	lines := strings.Split(strings.TrimSuffix(body, "\n"), "\n")
	var out []string
	for _, ln := range lines[:len(lines)-1] {
		if f := strings.Fields(ln); len(f) > 0 {
			out = append(out, f[0])
		}
	}
	return out
}

// judgeScreenIsPrefixOfFull: with plain keys, the keys on the screen are, in order, the first keys of the full table.
func judgeScreenIsPrefixOfFull(s *Spec, a *Agg, body, full string) *finding {
	if !allPlain(sortedKeys(a.histo)) {
		return nil
	}
	scr, all := histoKeysInOrder(body), histoKeysInOrder(full)
	if len(scr) > len(all) {
		return &finding{"all-table", fmt.Sprintf("the screen shows %d rows, the full table only %d", len(scr), len(all))}
	}
	for i := range scr {
		if scr[i] != all[i] {
			return &finding{"all-table", fmt.Sprintf("row %d of the screen is %s but row %d of the full table is %s (same sorter: the screen must be the head of the full table); screen %s full %s", i, run.Q(scr[i]), i, run.Q(all[i]), run.Q(body), run.Q(full))}
		}
	}
	want := 0
	for _, v := range a.histo {
		if v >= s.AtLeast {
			want++
		}
	}
	if len(all) != want {
		return &finding{"all-table", fmt.Sprintf("the full table has %d rows; %d keys have a count >= --atleast %d", len(all), want, s.AtLeast)}
	}
	return nil
}

// ---------------------------------------------------------------- heat map screen

// heatColOrder: the displayed columns of a heat map in a name-based --sort-cols order (the first --cols of it).
func heatColOrder(s *Spec, a *Agg) ([]string, bool) {
	mode := ""
	for i, f := range s.CmdArgs {
		if f == "--sort-cols" && i+1 < len(s.CmdArgs) {
			mode = s.CmdArgs[i+1]
		}
	}
	cols := sortedKeys(a.cols)
	switch mode {
	case "text", "text:asc":
	case "text:desc", "text:reverse":
		for i, j := 0, len(cols)-1; i < j; i, j = i+1, j-1 {
			cols[i], cols[j] = cols[j], cols[i]
		}
	default:
		return nil, false
	}
	if s.Cols < 1 {
		return nil, false
	}
	if len(cols) > s.Cols {
		cols = cols[:s.Cols]
	}
	return cols, true
}

func heatRowsApplicable(s *Spec, a *Agg) bool {
	return s.Cmd == "heatmap" && len(a.cols) > 0 && len(a.rows) > 0 && len(a.rows) <= s.N && s.Cols >= 1 &&
		allPlain(sortedKeys(a.cols)) && allPlain(sortedKeys(a.rows))
}

const heatGlyphs = "-123456789" // --nocolor: one character per cell, ten levels

// judgeHeatRows: the heat map screen without colour is a legend line, a header line and one line per row: the row key
// and one level character per displayed column. Every reference row is there once, with min(columns, --cols) cells;
// where the column order is known (--sort-cols text..) the levels are monotone in the reference cells (absent = 0): a
// larger cell never shows a lower level, anywhere on the screen. Which level a value gets is C14's business.
func judgeHeatRows(s *Spec, a *Agg, body string) *finding {
	if !heatRowsApplicable(s, a) {
		return nil
	}
	bad := func(f string, args ...any) *finding {
		return &finding{"snapshot-vs-reference", fmt.Sprintf(f, args...) + "; screen " + run.Q(body)}
	}
	lines := strings.Split(strings.TrimSuffix(body, "\n"), "\n")
	lines = lines[:len(lines)-1] // summary
	if len(lines) < 2 {
		return bad("heat map screen has no legend and header lines")
	}
	ncols := min(len(a.cols), s.Cols)
	cols, ordered := heatColOrder(s, a)
	seen := map[string]bool{}
	type cell struct {
		v     int64
		level int
		where string
	}
	var cells []cell
	for _, ln := range lines[2:] {
		f := strings.Fields(ln)
		if len(f) == 0 {
			continue
		}
		if len(f) != 2 {
			if len(f) == 1 && ncols == 0 {
				continue
			}
			return bad("heat map row %s is not 'key cells'", run.Q(ln))
		}
		name := f[0]
		if seen[name] {
			return bad("row %s is on the heat map twice", run.Q(name))
		}
		seen[name] = true
		if !a.rows[name] {
			return bad("heat map has row %s that no input line produced", run.Q(name))
		}
		if n := utf8.RuneCountInString(f[1]); n != ncols {
			return bad("row %s has %d cells; %d columns are displayed (data has %d, --cols %d)", run.Q(name), n, ncols, len(a.cols), s.Cols)
		}
		for i, ch := range f[1] {
			lv := strings.IndexRune(heatGlyphs, ch)
			if lv < 0 {
				return bad("row %s: cell %q is not one of the ten level characters", run.Q(name), ch)
			}
			if ordered {
				cells = append(cells, cell{a.cells[[2]string{cols[i], name}], lv, fmt.Sprintf("(col %s, row %s)", cols[i], name)})
			}
		}
	}
	for _, r := range sortedKeys(a.rows) {
		if !seen[r] {
			return bad("row %s is missing from the heat map", run.Q(r))
		}
	}
	sort.SliceStable(cells, func(i, j int) bool { return cells[i].v < cells[j].v })
	for i := 1; i < len(cells); i++ {
		if cells[i].v > cells[i-1].v && cells[i].level < cells[i-1].level {
			return bad("cell %s holds %d and shows level %d, cell %s holds the smaller %d and shows the higher level %d", cells[i].where, cells[i].v, cells[i].level, cells[i-1].where, cells[i-1].v, cells[i-1].level)
		}
		if cells[i].v == cells[i-1].v && cells[i].level != cells[i-1].level {
			return bad("cells %s and %s both hold %d but show levels %d and %d", cells[i].where, cells[i-1].where, cells[i].v, cells[i].level, cells[i-1].level)
		}
	}
	return nil
}
