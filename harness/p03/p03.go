// Package p03 decides C03: the final aggregates of histogram, table, heatmap,
// sparkline, bargraph, analyze and reduce (CSV export, snapshot output, exit
// status) equal an independent sequential aggregation of the input and do not
// change with --workers/--batch/--batch-buffer/--readers, GOMAXPROCS, the order
// of the file arguments, the division of the lines among files, gzip or stdin.
// CLI only: every evaluation is a run of the real binary.
package p03

import (
	"bytes"
	"encoding/json"
	"fmt"
	"os"
	"path/filepath"
	"strings"
	"time"

	"verifharness/internal/reg"
	"verifharness/internal/run"
)

func init() { reg.Register("C03", Run) }

// Case is what is journalled / replayed: generator coordinates (generation is deterministic in them).
type Case struct {
	Kind  string `json:"kind"` // gen | pin
	Index int    `json:"index,omitempty"`
	Seed  uint64 `json:"seed"`
	Tier  string `json:"tier"`
	Name  string `json:"name,omitempty"`
}

func pickInt(r *run.Rand, xs []int) int { return xs[r.Intn(len(xs))] }

func Run(c *run.Ctx) {
	if c.RareBin == "" {
		c.Inconclusive("no rare binary: C03 is a CLI-only check")
		return
	}
	if c.Replay != nil {
		var cs Case
		if err := json.Unmarshal(c.Replay, &cs); err != nil || cs.Kind == "" {
			c.Inconclusive("bad replay case")
			return
		}
		one(c, cs)
		return
	}
	arrivals(c)
	idx := 0
	for _, p := range pins {
		if c.Mine(idx) {
			one(c, Case{Kind: "pin", Name: p.name, Seed: c.Seed, Tier: c.Tier})
		}
		idx++
	}
	n := c.N(56, 1200)
	for i := 0; i < n; i++ {
		if c.Mine(idx) {
			one(c, Case{Kind: "gen", Index: i, Seed: c.Seed, Tier: c.Tier})
			if c.Violations() >= 6 {
				return
			}
		}
		idx++
		if i%16 == 15 {
			c.Checkpoint()
		}
	}
}

func one(c *run.Ctx, cs Case) {
	c.Begin(cs, 45*time.Minute)
	defer c.End()
	dir := filepath.Join(c.WorkDir, "case")
	os.RemoveAll(dir)
	if d := os.Getenv("VERIF_C03_DUMP"); d != "" {
		dir = filepath.Join(d, "inputs") // replay aid: keep the generated inputs
	} else {
		defer os.RemoveAll(dir)
	}
	if cs.Kind == "arrival" {
		runArrival(c, genArrival(run.NewRand(cs.Seed, "C03", c.Shard, "arrival", cs.Index)), cs.Index)
		return
	}
	if cs.Kind == "pin" {
		for i := range pins {
			if pins[i].name == cs.Name {
				pins[i].run(c, cs, dir)
			}
		}
		return
	}
	r := run.NewRand(cs.Seed, "C03", "gen", cs.Index)
	spec := genSpec(r, cs.Tier == "thorough", c.KnownActive)
	vs := genVariants(r, spec, cs.Tier == "thorough", c.KnownActive)
	runSpec(c, cs, spec, vs, dir)
}

// ---------------------------------------------------------------- variants

func allIdx(n int) []int {
	out := make([]int, n)
	for i := range out {
		out[i] = i
	}
	return out
}

func genVariants(r *run.Rand, s *Spec, thorough bool, known knownFn) []*Variant {
	n := len(s.Lines)
	single := func(name, mode string) *Variant {
		return &Variant{Name: name, Mode: mode, Files: [][]int{allIdx(n)}, Gz: []bool{false}, NoNL: []bool{false}, Batch: n + 1000, Single: true}
	}
	var vs []*Variant
	if s.Cmd != "analyze" {
		vs = append(vs, single("base-csv", "csv"))
	}
	if s.Snap {
		vs = append(vs, single("base-snap", "snap"))
	}
	// may snapshot runs be cut into several sample batches? Only when an intermediate
	// render cannot leave more than padding behind, or the renderer is not known to keep state.
	multiSnap := s.Snap && (s.Cmd == "analyze" || s.Monotone || !known(rendererFP(s.Cmd)))
	kinds := []string{"tune", "split", "gz", "stdin", "split", "slow", "gmp1", "tune"}
	if !thorough {
		kinds = kinds[:7]
	}
	for vi, kind := range kinds {
		v := &Variant{Name: fmt.Sprintf("v%d-%s", vi+1, kind)}
		// mode
		switch {
		case s.Cmd == "analyze":
			v.Mode = "snap"
		case !s.Snap:
			v.Mode = "csv"
		default:
			v.Mode = r.Pick([]string{"csv", "snap"})
			if kind == "slow" {
				v.Mode = "snap"
			}
		}
		if v.Mode == "snap" && !multiSnap {
			// single critical section only: one file (plain or gzip), batch larger than the corpus
			if r.Intn(3) == 0 {
				v.Mode = "csv"
			} else {
				v = single(v.Name+"-1batch", "snap")
				v.Workers = pickInt(r, []int{0, 1, 2, 8})
				v.GMP = pickInt(r, []int{0, 1, 2, 16})
				v.BatchBuf = pickInt(r, []int{0, 1, 4})
				if r.Bool() {
					v.Gz[0], v.ZFlag = true, true
				}
				v.ImplSnap = r.Intn(4) == 0
				vs = append(vs, v)
				continue
			}
		}
		v.ImplSnap = v.Mode == "snap" && r.Intn(4) == 0
		if v.Mode == "csv" && s.Cmd != "analyze" && vi%3 == 1 {
			v.Mode = "noout" // the CSV goes to a file and nothing to standard output
		}
		// tuning
		v.Workers = pickInt(r, []int{1, 2, 3, 4, 8, 16})
		v.Batch = pickInt(r, []int{1, 2, 3, 5, 7, 16, 64, 1000})
		if n > 3000 && v.Batch < 16 {
			v.Batch = pickInt(r, []int{16, 50, 333, 1000})
		}
		v.BatchBuf = pickInt(r, []int{0, 1, 2, 8, 64})
		v.Readers = pickInt(r, []int{0, 1, 2, 3, 8})
		v.GMP = pickInt(r, []int{0, 1, 2, 4, 8, 16})
		if kind == "gmp1" {
			v.GMP = 1
			v.Workers = pickInt(r, []int{4, 8, 16})
		}
		if s.OrderSensitive {
			v.Workers, v.Readers = 1, 1
		}
		// inputs
		switch kind {
		case "tune", "slow", "gmp1":
			v.Files, v.Gz, v.NoNL = [][]int{allIdx(n)}, []bool{false}, []bool{r.Intn(4) == 0}
		case "stdin":
			v.Stdin, v.Dash = true, r.Bool()
			v.Files, v.NoNL = [][]int{allIdx(n)}, []bool{r.Intn(4) == 0}
		default: // split, gz
			k := r.Range(2, 6)
			if thorough && r.Intn(4) == 0 {
				k = r.Range(7, 14)
			}
			v.Files = make([][]int, k)
			if s.OrderSensitive {
				// contiguous chunks, in order, one reader
				cuts := make([]int, k-1)
				for i := range cuts {
					cuts[i] = r.Intn(n + 1)
				}
				sortInts(cuts)
				prev := 0
				for i := 0; i < k; i++ {
					end := n
					if i < k-1 {
						end = cuts[i]
					}
					for j := prev; j < end; j++ {
						v.Files[i] = append(v.Files[i], j)
					}
					prev = end
				}
			} else {
				order := allIdx(n)
				if r.Bool() {
					order = r.Perm(n) // any order: the accumulators do not care
				}
				for _, li := range order {
					f := r.Intn(k)
					v.Files[f] = append(v.Files[f], li)
				}
				p := r.Perm(k) // order of the file arguments
				nf := make([][]int, k)
				for i, j := range p {
					nf[i] = v.Files[j]
				}
				v.Files = nf
			}
			v.Gz, v.NoNL = make([]bool, k), make([]bool, k)
			for i := range v.Gz {
				v.NoNL[i] = r.Intn(4) == 0
				if kind == "gz" {
					v.ZFlag = true
					v.Gz[i] = r.Intn(4) != 0 // -z also reads plain files
				}
			}
		}
		// jitter
		batches := n/v.Batch + len(v.Files)
		switch {
		case kind == "slow":
			v.Points = "agg.afterSampleBatch=sleep:70ms:n4"
			if v.Batch > n/2 {
				v.Batch = n/3 + 1
			}
		case batches <= 600:
			v.Points = r.Pick([]string{"", "batch.beforeSend=sleep:300us:p0.3,worker.beforeSend=sleep:200us:p0.3",
				"worker.afterRecv=yield,batch.beforeSend=yield,agg.afterSampleBatch=yield",
				"files.beforeClose=sleep:3ms,worker.beforeCloseOut=sleep:3ms,batch.beforeSendLast=sleep:1ms:p0.5",
				"agg.beforeDone=sleep:5ms,agg.beforeFinalRender=sleep:5ms,worker.beforeSend=sleep:1ms:p0.2"})
		default:
			v.Points = r.Pick([]string{"", "worker.afterRecv=yield,batch.beforeSend=yield,agg.afterSampleBatch=yield",
				"files.beforeClose=sleep:3ms,worker.beforeCloseOut=sleep:3ms"})
		}
		vs = append(vs, v)
	}
	return vs
}

func sortInts(a []int) {
	for i := 1; i < len(a); i++ {
		for j := i; j > 0 && a[j] < a[j-1]; j-- {
			a[j], a[j-1] = a[j-1], a[j]
		}
	}
}

// ---------------------------------------------------------------- running and judging one spec

type outcome struct {
	v    *Variant
	p    *procResult
	body string // snapshot without the status line
	full string // histo --all: what follows "Full Table:" (rows, then the summary)
	csv  []byte // CSV bytes (stdout in csv mode, the -o file in snap mode)
}

func corpusHead(s *Spec) string {
	var sb strings.Builder
	for i := range s.Lines {
		if i >= 12 || sb.Len() > 900 {
			fmt.Fprintf(&sb, "… (%d lines in all)", len(s.Lines))
			break
		}
		sb.WriteString(s.Lines[i].Text())
		sb.WriteByte('\n')
	}
	return sb.String()
}

// runVariant executes one variant and judges it against the reference. ok=false: nothing to compare (reported).
func runVariant(c *run.Ctx, cs Case, s *Spec, a *Agg, v *Variant, dir string, report func(fp, class, msg string)) (*outcome, bool) {
	vdir := filepath.Join(dir, v.Name)
	paths, stdin, err := materialise(s, v, vdir)
	if err != nil {
		c.Inconclusive("cannot write inputs: " + err.Error())
		return nil, false
	}
	csvPath := ""
	if (v.Mode == "snap" || v.Mode == "noout") && s.Cmd != "analyze" {
		csvPath = filepath.Join(vdir, "out.csv")
	}
	args := s.argv(v, csvPath, paths)
	capCPU := cpuCap
	if v.CPUCap > 0 {
		capCPU = v.CPUCap
	}
	p := runRare(c, args, stdin, v.Stdin, v.GMP, v.Points, cs.Seed, capCPU)
	for attempt := 0; p.spun && attempt < 2; attempt++ {
		// CPU accounting inside a loaded VM can be off (stolen time charged to whoever was on the vCPU):
		// one overrun proves nothing. Only a run that overruns three times out of three is reported.
		c.Count("cpu_overruns_retried", 1)
		p = runRare(c, args, stdin, v.Stdin, v.GMP, v.Points, cs.Seed, capCPU)
	}
	c.Count("cli_runs", 1)
	c.Count("cli_runs_"+v.Mode, 1)
	ctx := fmt.Sprintf("\n  variant %s\n  command: %s\n  corpus: %s", v.String(), p.cmdline("rare"), run.Q(corpusHead(s)))
	if p.err != nil {
		c.Inconclusive("cannot run rare: " + p.err.Error())
		return nil, false
	}
	if p.spun {
		fp := "no-termination:" + s.Cmd + ":" + s.hash()
		if s.Cmd == "heatmap" && hasEmptyCol(a) {
			fp = fpHeatHang
		}
		report(fp, "no-termination", fmt.Sprintf("rare did not finish: three runs out of three were killed after consuming more than %.0f CPU-seconds on a %d-line input (running, not waiting)%s", p.cpu, len(s.Lines), ctx))
		return nil, false
	}
	if p.wallExpired {
		c.Inconclusive(fmt.Sprintf("rare %s did not finish within %v wall (CPU used %.1fs): load, not judged", s.Cmd, wallLimit, p.cpu))
		return nil, false
	}
	if p.crashed() {
		fp := "crash:" + s.Cmd + ":" + s.hash()
		if s.Cmd == "bars" && s.Stacked && !a.allPos {
			fp = fpStackZero
		}
		head := ""
		for _, ln := range strings.Split(string(p.stderr), "\n") {
			if strings.HasPrefix(ln, "panic:") || strings.HasPrefix(ln, "fatal error:") {
				head = ln
				break
			}
		}
		report(fp, "crash", fmt.Sprintf("rare crashed (exit %d): %s; stderr tail %s%s", p.code, head, run.Q(tail(string(p.stderr), 500)), ctx))
		return nil, false
	}
	o := &outcome{v: v, p: p}
	good := true
	say := func(f *finding) {
		if f == nil {
			return
		}
		good = false
		fp := f.class + ":" + s.Cmd + ":" + s.hash()
		switch {
		case len(s.Delim) > 1:
			fp = fpDelim
		case s.Cmd == "reduce" && a.reduceEmptySingle && f.class == "csv-vs-reference":
			fp = fpReduceEmpty
		case s.Cmd == "histo" && f.class == "snapshot-vs-reference" && histoLostRow(s, a):
			fp = fpHistoLost
		}
		report(fp, f.class, f.msg+ctx)
	}
	// exit status: parse errors -> 2, nothing matched -> 1, else 0 (no read errors in this workload)
	if want := a.wantExit(); p.code != want {
		say(&finding{"exit-status", fmt.Sprintf("exit status %d, expected %d (reference: matched %d, parse errors %d); stderr %s", p.code, want, a.matched, a.parseErr, run.Q(tail(string(p.stderr), 300)))})
	}
	if s.CrashOnly {
		if v.Mode == "csv" {
			o.csv = p.stdout
		} else if body, ok := cutStatus(p.stdout); ok {
			o.body = body
		}
		c.Count("crash_only_runs", 1)
		return o, good
	}
	if v.Mode == "csv" {
		o.csv = p.stdout
	} else if v.Mode == "noout" {
		// --noout: no aggregation on standard output; the CSV export and the exit status are what they always are
		if len(bytes.TrimSpace(p.stdout)) != 0 {
			say(&finding{"noout-output", "--noout was given but standard output holds " + run.Q(tail(string(p.stdout), 300))})
		}
		b, err := os.ReadFile(csvPath)
		if err != nil {
			say(&finding{"csv-file-missing", "--noout -o FILE was given but no file was written: " + err.Error()})
			return o, false
		}
		o.csv = b
		c.Count("noout_runs", 1)
	} else {
		if s.All {
			// histo --all: screen, summary, status line, then "Full Table:", every row (no -n limit), the summary again
			i := bytes.Index(p.stdout, []byte("Full Table:\n"))
			if i < 0 || (i > 0 && p.stdout[i-1] != '\n') {
				say(&finding{"all-table", "--all was given but the output has no 'Full Table:' line: " + run.Q(tail(string(p.stdout), 400))})
				return o, false
			}
			o.full = string(p.stdout[i+len("Full Table:\n"):])
			p.stdout = p.stdout[:i]
			say(judgeFullTable(s, a, o.full))
			c.Count("histogram_full_tables_judged", 1)
		}
		body, ok := cutStatus(p.stdout)
		if !ok {
			say(&finding{"snapshot-shape", fmt.Sprintf("snapshot output does not end with a newline: %s", run.Q(tail(string(p.stdout), 200)))})
			return o, false
		}
		o.body = body
		if body == "" {
			say(&finding{"snapshot-shape", "snapshot output has no summary line at all: " + run.Q(string(p.stdout))})
			return o, false
		}
		say(judgeFooter(s, a, body))
		if s.Cmd == "analyze" {
			say(judgeAnalyze(s, a, body))
		}
		if good && (v.Single || s.Monotone) {
			// screens whose cells can be read back unambiguously (plain keys, everything fits).
			// Only where an intermediate render cannot have left stale rows behind.
			if f := judgeHistoRows(s, a, body); f != nil {
				say(f)
			} else if histoRowsApplicable(s, a) {
				c.Count("histogram_screens_read_back", 1)
			}
			if s.All && good {
				say(judgeScreenIsPrefixOfFull(s, a, body, o.full))
			}
			if f := judgeTableGrid(s, a, body); f != nil {
				say(f)
			} else if tableGridApplicable(s, a) {
				c.Count("table_screens_read_back", 1)
			}
		}
		if good {
			// the bar graph is drawn once, at the end, when the output is not a live terminal: every variant can be read back
			if f := judgeBarsRows(s, a, body); f != nil {
				say(f)
			} else if barsRowsApplicable(s, a) {
				c.Count("bargraph_screens_read_back", 1)
			}
			if f := judgeSparkRows(s, a, body); f != nil {
				say(f)
			} else if sparkRowsApplicable(s, a) {
				c.Count("sparkline_screens_read_back", 1)
			}
			if f := judgeHeatRows(s, a, body); f != nil {
				say(f)
			} else if heatRowsApplicable(s, a) {
				c.Count("heatmap_screens_read_back", 1)
			}
			if f := judgeReduceRows(s, a, body); f != nil {
				say(f)
			} else if reduceRowsApplicable(s, a) {
				c.Count("reduce_screens_read_back", 1)
			}
		}
		c.Count("snapshots_judged", 1)
		if csvPath != "" {
			b, err := os.ReadFile(csvPath)
			if err != nil {
				say(&finding{"csv-file-missing", "--csv FILE was given but no file was written: " + err.Error()})
				return o, false
			}
			o.csv = b
		}
	}
	if s.Cmd != "analyze" {
		say(judgeCSV(s, a, o.csv))
		c.Count("csv_exports_parsed_back", 1)
	}
	return o, good
}

// dump writes both sides of a difference to $VERIF_C03_DUMP (debugging aid for replays).
func dump(s *Spec, name, content string) {
	if d := os.Getenv("VERIF_C03_DUMP"); d != "" {
		os.MkdirAll(d, 0o755)
		os.WriteFile(filepath.Join(d, s.Cmd+"-"+s.hash()+"-"+name+".txt"), []byte(content), 0o644)
	}
}

func hasEmptyCol(a *Agg) bool { return a.cols[""] }

func tail(s string, n int) string {
	if len(s) > n {
		return "…" + s[len(s)-n:]
	}
	return s
}

func runSpec(c *run.Ctx, cs Case, s *Spec, vs []*Variant, dir string) {
	a := aggregate(s)
	reported := map[string]bool{}
	report := func(fp, class, msg string) {
		if reported[fp] {
			return
		}
		reported[fp] = true
		c.Violation(fp, msg, cs)
	}
	var baseCSV, baseSnap, first *outcome
	ran := 0
	for _, v := range vs {
		o, ok := runVariant(c, cs, s, a, v, dir, report)
		if os.Getenv("VERIF_C03_DUMP") == "" {
			os.RemoveAll(filepath.Join(dir, v.Name))
		}
		if o == nil {
			if v.Name == "base-csv" || v.Name == "base-snap" {
				break // nothing to compare the variants with
			}
			continue
		}
		ran++
		if !ok {
			// already reported against the reference; identity would only repeat it
			if v.Name == "base-csv" || v.Name == "base-snap" {
				break
			}
			continue
		}
		ctx := func(b *outcome) string {
			return fmt.Sprintf("\n  baseline %s\n    %s\n  variant %s\n    %s\n  corpus: %s", b.v.String(), b.p.cmdline("rare"), v.String(), o.p.cmdline("rare"), run.Q(corpusHead(s)))
		}
		// ---- metamorphic identity
		if o.csv != nil {
			if baseCSV == nil {
				baseCSV = o
			} else if !bytes.Equal(o.csv, baseCSV.csv) {
				fp := "csv-differs-between-runs:" + s.Cmd + ":" + s.hash()
				if s.Cmd == "reduce" && a.reduceSortTies {
					fp = fpReduceTies
				}
				report(fp, "csv-identity", fmt.Sprintf("the CSV export of the same lines differs between two runs (both parse back to the reference aggregation): %s%s",
					firstDiff(string(baseCSV.csv), string(o.csv)), ctx(baseCSV)))
			} else {
				c.Count("csv_identical_pairs", 1)
			}
		}
		if v.Mode == "snap" {
			if baseSnap == nil {
				baseSnap = o
			} else {
				same := o.body == baseSnap.body
				if !same && s.Cmd == "analyze" {
					same = sameAnalyze(baseSnap.body, o.body)
				}
				switch {
				case same && o.full != baseSnap.full:
					report("full-table-differs-between-runs:"+s.hash(), "snapshot-identity", fmt.Sprintf("the 'Full Table' of histo --all differs between two runs of the same lines: %s%s", firstDiff(baseSnap.full, o.full), ctx(baseSnap)))
				case same:
					c.Count("snapshots_identical_pairs", 1)
				case rendererFP(s.Cmd) != "" && squeeze(o.body) == squeeze(baseSnap.body):
					report(rendererFP(s.Cmd), "snapshot-padding", fmt.Sprintf("the snapshot of the same lines differs in padding only between a run that samples everything in one batch and a run cut into several batches (an intermediate render left renderer state behind): %s%s",
						firstDiff(baseSnap.body, o.body), ctx(baseSnap)))
					c.Count("snapshots_padding_only_pairs", 1)
				default:
					dump(s, "snapshot-baseline", baseSnap.body)
					dump(s, "snapshot-variant", o.body)
					fp := "snapshot-differs-between-runs:" + s.Cmd + ":" + s.hash()
					if !s.Monotone && !v.Single && rendererFP(s.Cmd) != "" {
						fp = rendererFP(s.Cmd) // rows / cells that shrink between renders: stale content
					}
					report(fp, "snapshot-identity", fmt.Sprintf("the snapshot output of the same lines differs between two runs: %s%s", firstDiff(baseSnap.body, o.body), ctx(baseSnap)))
				}
			}
		}
		if first == nil {
			first = o
		} else if o.p.code != first.p.code {
			report("exit-differs-between-runs:"+s.Cmd+":"+s.hash(), "exit-identity", fmt.Sprintf("exit status %d vs %d for the same lines%s", first.p.code, o.p.code, ctx(first)))
		}
	}
	headOfFull(c, cs, s, a, vs, baseSnap, dir, report)
	keys := 0
	switch s.Cmd {
	case "histo":
		keys = len(a.histo)
	case "table", "heatmap", "spark":
		keys = len(a.cols) * len(a.rows)
		if len(a.cols)+len(a.rows) >= 3 {
			keys = max(keys, 2)
		}
	case "bars":
		keys = len(a.bkey) * len(a.bsub)
	case "analyze":
		keys = len(a.nums)
	case "reduce":
		keys = len(a.reduce) * len(s.Red.Accs)
	}
	if keys >= 2 && ran >= 3 {
		c.Nontrivial(s.hash())
	}
	c.Count("cases_"+s.Cmd, 1)
	c.Count("lines_aggregated", int64(len(s.Lines)))
	c.Max("max_corpus_lines", int64(len(s.Lines)))
	if a.parseErr > 0 {
		c.Count("cases_with_parse_errors", 1)
	}
	if a.matched == 0 {
		c.Count("cases_nothing_matched", 1)
	}
	if s.Monotone {
		c.Count("cases_monotone_display", 1)
	}
	if cs.Index < 3 {
		c.Sample(map[string]any{"cmd": strings.Join(s.baseArgs(), " "), "lines": len(s.Lines), "variants": len(vs), "first_line": run.Q(s.Lines[0].Text()),
			"reference": fmt.Sprintf("matched %d / %d, ignored %d, parse errors %d, exit %d", a.matched, a.read, a.ignored, a.parseErr, a.wantExit())})
	}
}

// headOfFull: what --num / --cols cut away. The same command with limits that hide nothing shows every row and column
// in the sorter's order; the limited screen must show the head of exactly that order (rows: the first --num, for
// reduce the header counts as a row; table columns: the first --cols). Plain keys only (cells are read back by
// splitting on blanks), table and reduce.
func headOfFull(c *run.Ctx, cs Case, s *Spec, a *Agg, vs []*Variant, base *outcome, dir string, report func(fp, class, msg string)) {
	if base == nil || !s.Plain || s.CrashOnly || !s.Snap || len(vs) == 0 {
		return
	}
	var rows, cols int
	switch s.Cmd {
	case "table":
		if !tableGridApplicable(s, a) {
			return
		}
		rows, cols = len(a.rows), len(a.cols)
		if rows <= s.N && cols <= s.Cols {
			return
		}
	case "reduce":
		if s.Red == nil || a.reduce == nil || (len(s.Red.Groups) == 0 && !s.Red.Table) || len(s.Red.Groups)+len(s.Red.Accs) > 10 {
			return
		}
		rows = len(a.reduce)
		if rows+1 <= s.N {
			return
		}
		for _, vals := range a.reduce {
			if !allPlainAny(vals) {
				return
			}
		}
		for gk := range a.reduce {
			if len(s.Red.Groups) > 0 && !allPlainAny(a.reduceParts[gk]) {
				return
			}
		}
	default:
		return
	}
	full := *s
	full.CmdArgs = nil
	for i := 0; i < len(s.CmdArgs); i++ {
		switch s.CmdArgs[i] {
		case "--num", "--rows", "-n", "--cols":
			i++
			continue
		}
		full.CmdArgs = append(full.CmdArgs, s.CmdArgs[i])
	}
	full.CmdArgs = append(full.CmdArgs, "--num", "100000")
	if s.Cmd == "table" {
		full.CmdArgs = append(full.CmdArgs, "--cols", "100000")
	}
	full.N, full.Cols = 100000, 100000
	var v *Variant
	for _, x := range vs {
		if x.Name == base.v.Name {
			v = x
		}
	}
	if v == nil {
		return
	}
	vv := *v
	vv.Name = "full-screen"
	quiet := func(fp, class, msg string) {} // the full screen is only the yardstick here
	o, ok := runVariant(c, cs, &full, a, &vv, dir, quiet)
	os.RemoveAll(filepath.Join(dir, vv.Name))
	if o == nil || !ok {
		return
	}
	keysOf := func(body string, ng int) (hdr []string, rowKeys []string) {
		lines := strings.Split(strings.TrimSuffix(body, "\n"), "\n")
		if len(lines) < 2 {
			return nil, nil
		}
		lines = lines[:len(lines)-1]
		hdr = strings.Fields(lines[0])
		for _, ln := range lines[1:] {
			f := strings.Fields(ln)
			if len(f) == 0 {
				continue
			}
			if len(f) < ng {
				ng = len(f)
			}
			rowKeys = append(rowKeys, strings.Join(f[:ng], " "))
		}
		return
	}
	ng := 1
	if s.Cmd == "reduce" {
		ng = len(s.Red.Groups)
		if ng == 0 {
			return
		}
	}
	lh, lr := keysOf(base.body, ng)
	fh, fr := keysOf(o.body, ng)
	drop := func(xs []string) []string { // the Total row of --coltotal is not a data row
		var out []string
		for _, x := range xs {
			if s.Cmd == "table" && x == "Total" && !a.rows["Total"] {
				continue
			}
			out = append(out, x)
		}
		return out
	}
	lr, fr = drop(lr), drop(fr)
	c.Count("limited_screens_compared_with_the_full_screen", 1)
	ctx := fmt.Sprintf("\n  limited: %s\n  full:    %s", base.p.cmdline("rare"), o.p.cmdline("rare"))
	if len(lr) > len(fr) {
		report("head-of-full:"+s.Cmd+":"+s.hash(), "snapshot-vs-full", fmt.Sprintf("the limited screen has %d rows, the unlimited one %d%s", len(lr), len(fr), ctx))
		return
	}
	for i := range lr {
		if lr[i] != fr[i] {
			report("head-of-full:"+s.Cmd+":"+s.hash(), "snapshot-vs-full", fmt.Sprintf("row %d of the limited screen is %s, row %d of the unlimited screen (same sort) is %s: the limit must cut the tail off, nothing else%s", i, run.Q(lr[i]), i, run.Q(fr[i]), ctx))
			return
		}
	}
	if s.Cmd == "table" {
		strip := func(h []string) []string {
			if len(h) > 0 && h[len(h)-1] == "Total" && !a.cols["Total"] {
				return h[:len(h)-1]
			}
			return h
		}
		lh, fh = strip(lh), strip(fh)
		if len(lh) > len(fh) {
			report("head-of-full:"+s.Cmd+":"+s.hash(), "snapshot-vs-full", fmt.Sprintf("the limited screen has %d columns, the unlimited one %d%s", len(lh), len(fh), ctx))
			return
		}
		for i := range lh {
			if lh[i] != fh[i] {
				report("head-of-full:"+s.Cmd+":"+s.hash(), "snapshot-vs-full", fmt.Sprintf("column %d of the limited screen is %s, of the unlimited screen %s%s", i, run.Q(lh[i]), run.Q(fh[i]), ctx))
				return
			}
		}
	}
	want := min(rows, s.N)
	if s.Cmd == "reduce" {
		want = min(rows, s.N-1)
	}
	if s.Cmd == "table" && len(lr) != want {
		report("head-of-full:"+s.Cmd+":"+s.hash(), "snapshot-vs-full", fmt.Sprintf("the limited screen shows %d rows; the data has %d and --num is %d%s", len(lr), rows, s.N, ctx))
	}
}
