package p03

import (
	"math"
	"sort"
	"strconv"
	"strings"
)

// Agg is the independent sequential aggregation of a Spec: computed from the
// fields each line was built from, never from rare's output or code.
type Agg struct {
	read, matched, ignored int
	parseErr               int
	hasNeg                 bool // some increment < 0 (or large enough to wrap)
	allPos                 bool // every accepted increment > 0

	histo map[string]int64

	cols, rows map[string]bool
	cells      map[[2]string]int64 // (col,row)

	bars map[[2]string]int64 // (key,sub)
	bkey map[string]bool
	bsub map[string]bool

	nums []float64

	reduce            map[string][]string // group tuple (joined by \x00) -> accumulator values
	reduceParts       map[string][]string
	reduceSortKeys    []string
	reduceSortTies    bool
	reduceEmptySingle bool
}

func (a *Agg) keys() []string {
	if a.histo != nil {
		return sortedKeys(a.histo)
	}
	return sortedKeys(a.bkey)
}
func (a *Agg) rowKeys() []string { return sortedKeys(a.rows) }
func (a *Agg) colKeys() []string { return sortedKeys(a.cols) }

// parseInc is the reference notion of "an integer increment": optional minus
// sign, decimal digits, fits int64. (The generator emits nothing in between:
// no "+5", no blanks, no empty string.)
func parseInc(s string) (int64, bool) {
	if s == "" {
		return 0, false
	}
	neg := false
	d := s
	if d[0] == '-' {
		neg = true
		d = d[1:]
	}
	if d == "" || len(d) > 19 {
		return 0, false
	}
	var v uint64
	for _, ch := range []byte(d) {
		if ch < '0' || ch > '9' {
			return 0, false
		}
		v = v*10 + uint64(ch-'0')
	}
	if neg {
		if v > 1<<63 {
			return 0, false
		}
		return -int64(v), true // 1<<63 wraps to MinInt64, which is what is meant
	}
	if v > math.MaxInt64 {
		return 0, false
	}
	return int64(v), true
}

// parseNum: plain decimal numbers as the generator writes them.
func parseNum(s string) (float64, bool) {
	if s == "" {
		return 0, false
	}
	d := s
	if d[0] == '-' {
		d = d[1:]
	}
	dots := 0
	digits := 0
	for _, ch := range []byte(d) {
		switch {
		case ch == '.':
			dots++
		case ch >= '0' && ch <= '9':
			digits++
		default:
			return 0, false
		}
	}
	if dots > 1 || digits == 0 || strings.HasPrefix(d, ".") || strings.HasSuffix(d, ".") {
		return 0, false
	}
	v, err := strconv.ParseFloat(s, 64)
	return v, err == nil
}

func (s *Spec) lineClass(l *Line) byte {
	if l.Kind != 'L' {
		return 'U'
	}
	if s.Ignore != "" && (l.F[5] == "skip" || (s.Ignore == "two" && l.F[5] == "drop")) {
		return 'I'
	}
	return 'M'
}

func aggregate(s *Spec) *Agg {
	a := &Agg{allPos: true}
	switch s.Cmd {
	case "histo":
		a.histo = map[string]int64{}
	case "table", "heatmap", "spark":
		a.cols, a.rows, a.cells = map[string]bool{}, map[string]bool{}, map[[2]string]int64{}
	case "bars":
		a.bars, a.bkey, a.bsub = map[[2]string]int64{}, map[string]bool{}, map[string]bool{}
	case "reduce":
		a.reduce, a.reduceParts = map[string][]string{}, map[string][]string{}
	}
	note := func(v int64) {
		if v < 0 || v > 1<<61 {
			a.hasNeg = true
		}
		if v <= 0 {
			a.allPos = false
		}
	}
	for i := range s.Lines {
		l := &s.Lines[i]
		a.read++
		switch s.lineClass(l) {
		case 'U':
			continue
		case 'I':
			a.ignored++
			continue
		}
		if s.Cmd == "reduce" {
			a.matched++
			if s.Red != nil {
				a.reduceLine(s, l)
			}
			continue
		}
		parts := make([]string, len(s.Parts))
		total := 0
		for j, p := range s.Parts {
			parts[j] = p.eval(l)
			total += len(parts[j])
		}
		if total == 0 && len(parts) == 1 {
			a.ignored++ // an empty key is not a match (the generator avoids it; counted for completeness)
			continue
		}
		a.matched++
		inc := int64(1)
		okInc := true
		switch s.Cmd {
		case "histo":
			if len(parts) >= 2 {
				inc, okInc = parseInc(parts[1])
			}
			if !okInc {
				a.parseErr++
				continue
			}
			note(inc)
			a.histo[parts[0]] += inc
		case "table", "heatmap", "spark":
			row := ""
			if len(parts) >= 2 {
				row = parts[1]
			}
			if len(parts) >= 3 {
				inc, okInc = parseInc(parts[2])
			}
			if !okInc {
				a.parseErr++
				continue
			}
			note(inc)
			a.cols[parts[0]] = true
			a.rows[row] = true
			a.cells[[2]string{parts[0], row}] += inc
		case "bars":
			sub := ""
			if len(parts) >= 2 {
				sub = parts[1]
			}
			if len(parts) >= 3 {
				inc, okInc = parseInc(parts[2])
			}
			if !okInc {
				a.parseErr++
				continue
			}
			note(inc)
			a.bkey[parts[0]] = true
			a.bsub[sub] = true
			a.bars[[2]string{parts[0], sub}] += inc
		case "analyze":
			v, ok := parseNum(parts[0])
			if !ok {
				a.parseErr++
				continue
			}
			a.nums = append(a.nums, v)
		}
	}
	if s.Cmd == "spark" && s.Trunc && len(a.cols) > s.Cols {
		a.truncate(s)
	}
	if s.Cmd == "reduce" && s.Red != nil {
		a.reduceFinish(s)
	}
	return a
}

// truncate applies the documented spark truncation: only the last --cols
// columns (in --sort-cols order, here plain text order or its reverse) are
// kept; rows that are left with no cell at all disappear.
func (a *Agg) truncate(s *Spec) {
	cols := sortedKeys(a.cols)
	if s.TruncDesc {
		for i, j := 0, len(cols)-1; i < j; i, j = i+1, j-1 {
			cols[i], cols[j] = cols[j], cols[i]
		}
	}
	keep := map[string]bool{}
	for _, c := range cols[len(cols)-s.Cols:] {
		keep[c] = true
	}
	a.cols = keep
	rows := map[string]bool{}
	for k := range a.cells {
		if !keep[k[0]] {
			delete(a.cells, k)
		} else {
			rows[k[1]] = true
		}
	}
	a.rows = rows
}

func (a *Agg) reduceLine(s *Spec, l *Line) {
	rd := s.Red
	var gp []string
	for _, g := range rd.Groups {
		gp = append(gp, l.F[rd.field(g.Pos)])
	}
	gk := strings.Join(gp, "\x00")
	row, ok := a.reduce[gk]
	if !ok {
		row = make([]string, len(rd.Accs))
		for i, ac := range rd.Accs {
			switch {
			case ac.HasIn:
				row[i] = ac.Init
			case rd.HasInit:
				row[i] = rd.Initial
			default:
				row[i] = "0"
			}
		}
		a.reduce[gk] = row
		a.reduceParts[gk] = gp
	}
	for i, ac := range rd.Accs {
		v := l.F[rd.field(ac.Pos)]
		switch ac.Kind {
		case "count":
			c, _ := strconv.ParseInt(row[i], 10, 64)
			row[i] = strconv.FormatInt(c+1, 10)
		case "sum":
			c, _ := strconv.ParseInt(row[i], 10, 64)
			x, _ := strconv.ParseInt(v, 10, 64)
			row[i] = strconv.FormatInt(c+x, 10)
		case "max":
			c, _ := strconv.ParseInt(row[i], 10, 64)
			x, _ := strconv.ParseInt(v, 10, 64)
			if x > c {
				c = x
			}
			row[i] = strconv.FormatInt(c, 10)
		case "min":
			c, _ := strconv.ParseInt(row[i], 10, 64)
			x, _ := strconv.ParseInt(v, 10, 64)
			if x < c {
				c = x
			}
			row[i] = strconv.FormatInt(c, 10)
		case "cat":
			row[i] = row[i] + v
		case "last":
			row[i] = v
		}
	}
}

func (a *Agg) reduceFinish(s *Spec) {
	rd := s.Red
	// the keys the screen / CSV sort by
	seen := map[string]int{}
	gks := sortedKeys(a.reduce)
	for _, gk := range gks {
		key := gk
		if rd.Sort != "" && rd.Sort != "." {
			for i, ac := range rd.Accs {
				if ac.Name == rd.Sort {
					key = a.reduce[gk][i]
				}
			}
		}
		seen[key]++
		a.reduceSortKeys = append(a.reduceSortKeys, key)
	}
	for _, n := range seen {
		if n > 1 {
			a.reduceSortTies = true
		}
	}
	if len(rd.Groups) == 1 && rd.Sort != "" && rd.Sort != "." {
		if _, ok := a.reduce[""]; ok && len(a.reduce) > 1 {
			a.reduceEmptySingle = true
		}
	}
	sort.Strings(a.reduceSortKeys)
}

func (a *Agg) wantExit() int {
	if a.parseErr > 0 {
		return 2
	}
	if a.matched == 0 {
		return 1
	}
	return 0
}

// statistics of the analyze reference
func (a *Agg) stats() (n int, mean, sdSample, sdPop, min, max float64) {
	n = len(a.nums)
	if n == 0 {
		return
	}
	min, max = a.nums[0], a.nums[0]
	sum := 0.0
	for _, v := range a.nums {
		sum += v
		if v < min {
			min = v
		}
		if v > max {
			max = v
		}
	}
	mean = sum / float64(n)
	ss := 0.0
	for _, v := range a.nums {
		ss += (v - mean) * (v - mean)
	}
	sdPop = math.Sqrt(ss / float64(n))
	if n > 1 {
		sdSample = math.Sqrt(ss / float64(n-1))
	}
	return
}
