package p03

import (
	"bytes"
	"encoding/csv"
	"fmt"
	"io"
	"os"
	"os/exec"
	"sort"
	"strconv"
	"strings"
	"time"

	"verifharness/internal/run"
)

// "arrival" cases: the final result is a function of the input BYTES, not of how and
// when they arrive. The same bytes are piped to `rare <aggregator> --csv - -` (a) in one
// write, (b) in several writes with pauses longer than the batcher's 250 ms flush timer
// placed between and inside lines, with different --batch / --workers. The key
// contains {src} and {line}, so the aggregate depends on every line keeping its true
// position while partial batches are flushed by the timer. Oracle: the CSV of every run
// parses back to exactly the reference {"<stdin>#<lineno>#<field>" -> count}, and all
// runs are byte-identical.
//
// Pauses are real time because the flush timer is; no verdict depends on a clock: a run
// that is too slow is only slow.

type arrivalCase struct {
	Lines  []string `json:"lines"`
	Cmd    string   `json:"cmd"`  // histo | table | bars
	Cuts   []int    `json:"cuts"` // byte offsets after which the slow feeder pauses
	Batch  []int    `json:"batch"`
	Worker []int    `json:"workers"`
}

func genArrival(r *run.Rand) *arrivalCase {
	a := &arrivalCase{Cmd: r.Pick([]string{"histo", "histo", "table", "bars"})}
	n := r.Range(6, 60)
	for i := 0; i < n; i++ {
		switch r.Intn(8) {
		case 0:
			a.Lines = append(a.Lines, "") // blank lines count as lines
		case 1:
			a.Lines = append(a.Lines, "junk without the marker")
		default:
			a.Lines = append(a.Lines, fmt.Sprintf("K=%s V=%d", r.Pick([]string{"a", "b", "c", "dd", "e-e"}), r.Intn(4)))
		}
	}
	total := 0
	for _, l := range a.Lines {
		total += len(l) + 1
	}
	for k := r.Range(1, 3); k > 0; k-- {
		a.Cuts = append(a.Cuts, r.Intn(total-1)+1)
	}
	sort.Ints(a.Cuts)
	a.Batch = []int{pickInt(r, []int{1000, 64}), pickInt(r, []int{2, 3, 4, 7, 16})}
	a.Worker = []int{pickInt(r, []int{1, 2}), pickInt(r, []int{1, 3, 8})}
	return a
}

func (a *arrivalCase) args(i int) []string {
	args := []string{"--nocolor", a.Cmd, "-m", `^K=(\S+) V=(\d+)$`}
	switch a.Cmd {
	case "histo":
		args = append(args, "-e", "{src}#{line}#{1}")
	default: // table / bars: two keys
		args = append(args, "-e", "{1}", "-e", "{src}#{line}#{2}")
	}
	return append(args, "--csv", "-", "--batch", strconv.Itoa(a.Batch[i]), "--workers", strconv.Itoa(a.Worker[i]), "-")
}

// reference: flattened "cell name" -> count
func (a *arrivalCase) reference() map[string]int64 {
	ref := map[string]int64{}
	for i, l := range a.Lines {
		var k, v string
		if _, err := fmt.Sscanf(l, "K=%s V=%s", &k, &v); err != nil || !strings.HasPrefix(l, "K=") {
			continue
		}
		pos := "<stdin>#" + strconv.Itoa(i+1) + "#"
		if a.Cmd == "histo" {
			ref[pos+k]++
		} else {
			ref[k+"\x00"+pos+v]++
		}
	}
	return ref
}

func (a *arrivalCase) parse(out []byte) (map[string]int64, error) {
	rd := csv.NewReader(bytes.NewReader(out))
	rd.FieldsPerRecord = -1
	recs, err := rd.ReadAll()
	if err != nil {
		return nil, err
	}
	got := map[string]int64{}
	if len(recs) == 0 {
		return got, nil
	}
	switch a.Cmd {
	case "histo":
		for _, rec := range recs[1:] {
			if len(rec) < 2 {
				return nil, fmt.Errorf("short record %q", rec)
			}
			n, err := strconv.ParseInt(rec[1], 10, 64)
			if err != nil {
				return nil, err
			}
			got[rec[0]] += n
		}
	case "table":
		head := recs[0]
		for _, rec := range recs[1:] {
			for ci := 1; ci < len(rec) && ci < len(head); ci++ {
				n, err := strconv.ParseInt(rec[ci], 10, 64)
				if err != nil {
					return nil, err
				}
				if n != 0 {
					got[head[ci]+"\x00"+rec[0]] += n
				}
			}
		}
	case "bars":
		head := recs[0]
		for _, rec := range recs[1:] {
			for ci := 1; ci < len(rec) && ci < len(head); ci++ {
				n, err := strconv.ParseInt(rec[ci], 10, 64)
				if err != nil {
					return nil, err
				}
				if n != 0 {
					got[rec[0]+"\x00"+head[ci]] += n
				}
			}
		}
	}
	return got, nil
}

func (a *arrivalCase) run(c *run.Ctx, i int, slow bool) (out []byte, stderr string, err error) {
	cmd := exec.Command(c.RareBin, a.args(i)...)
	cmd.Env = append(os.Environ(), "NO_COLOR=1")
	var so, se bytes.Buffer
	cmd.Stdout, cmd.Stderr = &so, &se
	w, err := cmd.StdinPipe()
	if err != nil {
		return nil, "", err
	}
	if err := cmd.Start(); err != nil {
		return nil, "", err
	}
	data := []byte(strings.Join(a.Lines, "\n") + "\n")
	go func() {
		defer w.Close()
		if !slow {
			w.Write(data)
			return
		}
		prev := 0
		for _, cut := range a.Cuts {
			if cut <= prev || cut >= len(data) {
				continue
			}
			if _, err := w.Write(data[prev:cut]); err != nil {
				return
			}
			prev = cut
			time.Sleep(320 * time.Millisecond) // longer than the 250 ms flush timer
		}
		io.Copy(w, bytes.NewReader(data[prev:]))
	}()
	done := make(chan error, 1)
	go func() { done <- cmd.Wait() }()
	select {
	case err = <-done:
	case <-time.After(wallLimit):
		cmd.Process.Kill()
		<-done
		return nil, "", fmt.Errorf("wall limit")
	}
	if ee, ok := err.(*exec.ExitError); ok && ee.Exited() {
		err = nil // exit status is not the subject here (1 = nothing matched is possible)
	}
	return so.Bytes(), se.String(), err
}

func arrivals(c *run.Ctx) {
	n := c.N(24, 320)
	for i := 0; i < n; i++ {
		if !c.Mine(i) {
			continue
		}
		r := c.Rand("arrival", i)
		a := genArrival(r)
		cs := Case{Kind: "arrival", Index: i, Seed: c.Seed, Tier: c.Tier}
		c.Begin(cs, 20*time.Minute)
		runArrival(c, a, i)
		c.End()
		if c.Violations() >= 6 {
			return
		}
	}
}

func runArrival(c *run.Ctx, a *arrivalCase, idx int) {
	ref := a.reference()
	c.Count("arrival_cases", 1)
	if len(ref) >= 2 {
		c.Nontrivial("arrival", strings.Join(a.Lines, "\n"), a.Cmd, fmt.Sprint(a.Cuts, a.Batch, a.Worker))
	}
	var first []byte
	for i, slow := range []bool{false, true} {
		out, se, err := a.run(c, i, slow)
		if err != nil {
			c.Count("arrival_env_failures", 1)
			c.Note("arrival run could not be completed: " + err.Error())
			return
		}
		if strings.Contains(se, "panic:") || strings.Contains(se, "fatal error:") {
			c.Violation("arrival-crash:"+run.Hash64(a.Cmd, strings.Join(a.Lines, "\n")), fmt.Sprintf("rare %s crashed on piped input: %s", strings.Join(a.args(i), " "), tail(se, 1500)), a)
			return
		}
		c.Count("cli_runs", 1)
		c.Count("arrival_runs", 1)
		if slow {
			c.Count("arrival_pauses", int64(len(a.Cuts)))
		}
		got, perr := a.parse(out)
		how := "in one write"
		if slow {
			how = fmt.Sprintf("in pieces with pauses > 250 ms after bytes %v", a.Cuts)
		}
		desc := fmt.Sprintf("rare %s fed %d lines on stdin %s", shellQuote(a.args(i)), len(a.Lines), how)
		if perr != nil {
			c.Violation("arrival-csv:"+run.Hash64(a.Cmd, strings.Join(a.Lines, "\n"), fmt.Sprint(slow)), fmt.Sprintf("%s: CSV does not parse: %v; output %s", desc, perr, run.Q(tail(string(out), 600))), a)
			return
		}
		if msg := diffMaps(ref, got); msg != "" {
			c.Violation("arrival-vs-reference:"+run.Hash64(a.Cmd, strings.Join(a.Lines, "\n"), fmt.Sprint(slow)), fmt.Sprintf("%s: %s (keys are <src>#<line>#<field>)", desc, msg), a)
			return
		}
		if i == 0 {
			first = out
		} else if !bytes.Equal(first, out) {
			c.Violation("arrival-identity:"+run.Hash64(a.Cmd, strings.Join(a.Lines, "\n")), fmt.Sprintf("%s: CSV differs from the run fed in one write: %s", desc, firstDiff(string(first), string(out))), a)
			return
		}
	}
}

func diffMaps(want, got map[string]int64) string {
	var keys []string
	for k := range want {
		keys = append(keys, k)
	}
	for k := range got {
		if _, ok := want[k]; !ok {
			keys = append(keys, k)
		}
	}
	sort.Strings(keys)
	for _, k := range keys {
		if want[k] != got[k] {
			return fmt.Sprintf("cell %s: CSV has %d, reference %d", run.Q(strings.ReplaceAll(k, "\x00", " / ")), got[k], want[k])
		}
	}
	return ""
}
