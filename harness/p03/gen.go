package p03

import (
	"fmt"
	"sort"
	"strconv"
	"strings"
	"unicode/utf8"

	"verifharness/internal/run"
)

// ---------------------------------------------------------------- corpus

// Line is one corpus line. Structured lines are
//
//	L|<k1>|<k2>|<inc>|<num>|<flag>|E
//
// so the harness knows key / sub-key / increment of every line by construction.
type Line struct {
	Kind byte      // 'L' structured, 'J' junk (matches no matcher), 'B' blank
	F    [6]string // F[1..5] = k1, k2, inc, num, flag
	Raw  string
}

func (l *Line) Text() string {
	switch l.Kind {
	case 'L':
		return "L|" + l.F[1] + "|" + l.F[2] + "|" + l.F[3] + "|" + l.F[4] + "|" + l.F[5] + "|E"
	case 'J':
		return l.Raw
	}
	return ""
}

var fieldNames = [6]string{"", "ka", "kb", "inc", "num", "flag"}

const (
	reIndexed = `^L\|([^|]*)\|([^|]*)\|([^|]*)\|([^|]*)\|([^|]*)\|E$`
	reNamed   = `^L\|(?P<ka>[^|]*)\|(?P<kb>[^|]*)\|(?P<inc>[^|]*)\|(?P<num>[^|]*)\|(?P<flag>[^|]*)\|E$`
	dissectP  = `L|%{ka}|%{kb}|%{inc}|%{num}|%{flag}|E`
)

// Piece is a field reference (Field 1..5) or literal text (Field 0).
type Piece struct {
	Field int
	Lit   string
}

// Part is one extraction expression (one -e, or one argument of {$ ...}).
type Part []Piece

func (p Part) eval(l *Line) string {
	var sb strings.Builder
	for _, pc := range p {
		if pc.Field > 0 {
			sb.WriteString(l.F[pc.Field])
		} else {
			sb.WriteString(pc.Lit)
		}
	}
	return sb.String()
}

func (p Part) tmpl(named bool) string {
	var sb strings.Builder
	for _, pc := range p {
		if pc.Field > 0 {
			if named {
				sb.WriteString("{" + fieldNames[pc.Field] + "}")
			} else {
				sb.WriteString("{" + strconv.Itoa(pc.Field) + "}")
			}
		} else {
			sb.WriteString(pc.Lit)
		}
	}
	return sb.String()
}

func (p Part) simple() bool { return len(p) == 1 && p[0].Field > 0 }

func fld(i int) Part { return Part{{Field: i}} }

// RAcc is one reduce accumulator.
type RAcc struct {
	Name  string // "" = unnamed (column named after the expression)
	Kind  string // sum | count | max | min | cat | last
	Pos   int    // position in the extracted array (1-based)
	Init  string
	HasIn bool // name:init=expr form
}

type RGroup struct {
	Name string
	Pos  int
}

// Reduce describes a `rare reduce` invocation.
type Reduce struct {
	Fields  []int // extraction order (position p -> line field Fields[p-1]); nil = default {@} = fields 1..5
	Groups  []RGroup
	Accs    []RAcc
	Sort    string // "" | accumulator name | "."
	SortRev bool
	Table   bool
	Initial string // --initial (when HasInitial)
	HasInit bool
}

func (rd *Reduce) field(pos int) int {
	if rd.Fields == nil {
		return pos
	}
	return rd.Fields[pos-1]
}

func (a *RAcc) expr() string {
	p := "{" + strconv.Itoa(a.Pos) + "}"
	switch a.Kind {
	case "sum":
		return "{sumi {.} " + p + "}"
	case "count":
		return "{sumi {.} 1}"
	case "max":
		return "{maxi {.} " + p + "}"
	case "min":
		return "{mini {.} " + p + "}"
	case "cat":
		return "{.}" + p
	}
	return p // last
}

func (a *RAcc) col() string {
	if a.Name == "" {
		return a.expr()
	}
	return a.Name
}

// Spec is one generated command + corpus (everything but the tuning flags).
type Spec struct {
	Cmd     string // histo | table | heatmap | spark | bars | analyze | reduce
	Alias   string
	Lines   []Line
	Matcher string // regex | named | dissect
	ByName  bool   // refer to fields by name in expressions
	Parts   []Part
	Form    string // multi | dollar | delim
	Delim   string // custom --delim of table/heatmap/spark ("" = default NUL)
	Ignore  string // "" | eq | not
	CmdArgs []string

	N         int // rows shown (histo -n / --num); 0 = not applicable
	Cols      int // columns shown
	AtLeast   int64
	Trunc     bool // spark truncation can happen (no --notruncate)
	TruncDesc bool // spark --sort-cols text:desc
	Stacked   bool
	Red       *Reduce

	OrderSensitive bool
	Snap           bool // snapshot runs make sense (sorters are total on these keys)
	ExtraPart      bool // the extraction has one element more than the aggregator uses
	Plain          bool // plain keys only (screens can be read back)
	CrashOnly      bool // the keys cannot be represented in the output (a group value that contains the element separator): only "the command completes with the expected exit status, identically for every variant" is judged
	Monotone       bool // displayed rows/cells only grow and values only grow: intermediate renders cannot leave anything but padding behind
	HasNeg         bool
	NoFormat       bool
	All            bool // histo --all: after the screen, "Full Table:" with every row and the summary once more (snapshot runs only)
}

// ---------------------------------------------------------------- keys

var benignWords = []string{"alpha", "beta", "gamma", "delta", "GET", "POST", "ok", "fail", "x", "y", "z", "node-1", "node_2", "a.b", "web01", "q"}

var hostileKeys = []string{
	",", ",,", "a,b", "a, b", `"`, `""`, `"a"`, `a"b`, `a"b,c`, `",`, `,"`, `"a,b"`, "'", "it's",
	" lead", "trail ", " both ", "  ", " ", "a  b", "\ttab", "a\tb", "tab\t",
	"a\rb", "\r", "x\r", "\rx", "a\r\rb", "\x01", "a\x7fb", "\x0bvt", "ff\x0c",
	"\u00e9", "\u00fc", "\u65e5\u672c\u8a9e", "\U0001F600", "e\u0301", "\u00a0", "a\u2028b", "\ufeffbom", "\ufffd", "\u00df", "\u03a9,\u03a9", "\u043a\u043b\u044e\u0447", "\u05de\u05e4\u05ea\u05d7",
	"{0}", "{$ a b}", "{", "}", "{{", "\\", "\\x00", "%{a}", "$", "\\.", "=1+1", "@SUM(A1)", "-", "--", "-e", "#", ";", ":", "::", "a::b", "->", "~",
	"NULL", "null", "nil", "true", "group", "value", "Total",
}

var numericLike = []string{"0", "00", "007", "-0", "1", "1.0", "1e3", "0x10", "+5", "1_000", "10", "2", "9223372036854775808", ".5", "5.", "-1", "1a", "1e", "NaN", "Inf", "-inf", "0.10", "0.1"}

var calendarWords = []string{"Mon", "monday", "jan", "May", "sun", "December", "tues"}

var invalidUTF8 = []string{"\xff", "a\xc3", "\xe2\x82", "\xc0\xaf", "ok\xfe\xffok"}

const hostileAlphabet = "ab01 ,\"'\t\r;:=-_.{}$%\\/@#~+*?!<>()[]&^`"

func genKey(r *run.Rand, thorough bool) string {
	switch x := r.Intn(100); {
	case x < 22:
		return r.Pick(benignWords)
	case x < 30:
		return fmt.Sprintf("%s%d", r.Pick(benignWords), r.Intn(50))
	case x < 55:
		return r.Pick(hostileKeys)
	case x < 65:
		return r.Pick(numericLike)
	case x < 67:
		return r.Pick(calendarWords)
	case x < 70:
		return r.Pick(invalidUTF8)
	case x < 72:
		return ""
	case x < 80: // long key
		n := r.Range(60, 400)
		if r.Intn(4) == 0 {
			n = r.Range(1000, 6000)
			if thorough && r.Intn(4) == 0 {
				n = r.Range(20000, 70000)
			}
		}
		unit := r.Pick([]string{"x", "ab", "long,", "é", "\"q\"", "w ", "0"})
		var sb strings.Builder
		for sb.Len() < n {
			sb.WriteString(unit)
		}
		return sb.String() + strconv.Itoa(r.Intn(10))
	case x < 88: // two hostile pieces glued
		return r.Pick(hostileKeys) + r.Pick(benignWords) + r.Pick(hostileKeys)
	default:
		n := r.Range(1, 12)
		return string(r.Bytes(n, []byte(hostileAlphabet)))
	}
}

func validField(s string) bool {
	return !strings.ContainsAny(s, "|\n\x00")
}

// keyPool returns n distinct keys that satisfy ok.
func keyPool(r *run.Rand, n int, thorough bool, ok func(string) bool) []string {
	seen := map[string]bool{}
	var out []string
	for tries := 0; len(out) < n && tries < 50*n+50; tries++ {
		k := genKey(r, thorough)
		if !validField(k) || seen[k] || (ok != nil && !ok(k)) {
			continue
		}
		seen[k] = true
		out = append(out, k)
	}
	for i := 0; len(out) < n; i++ { // fallback, never expected
		k := fmt.Sprintf("k%d", i)
		if !seen[k] {
			seen[k] = true
			out = append(out, k)
		}
	}
	return out
}

// ---------------------------------------------------------------- sorter safety

var calendarSet = func() map[string]bool {
	m := map[string]bool{}
	for _, w := range strings.Fields("sunday monday tuesday wednesday thursday friday saturday sun mon tue tues wed thu thur thurs fri sat " +
		"january jan february feb march mar april apr may june jun july jul august aug september sep sept october oct november nov december dec") {
		m[w] = true
	}
	return m
}()

// smartSortSafe tells whether "numeric"/"contextual" ordering is a total order
// on this key set that does not depend on the input order: no key is a
// weekday/month word and either no key looks like a number or all of them do,
// with pairwise distinct finite values. (Ordering itself is C13's business;
// here the sorter only has to be a function.)
func smartSortSafe(keys []string) bool {
	nums := map[float64]bool{}
	numeric := 0
	for _, k := range keys {
		if calendarSet[strings.ToLower(k)] {
			return false
		}
		if v, err := strconv.ParseFloat(k, 64); err == nil {
			if v != v || v > 1e300 || v < -1e300 || nums[v] {
				return false
			}
			nums[v] = true
			numeric++
		}
	}
	return numeric == 0 || numeric == len(keys)
}

// ---------------------------------------------------------------- spec generator

type knownFn func(string) bool

// fingerprints of the defects met on the unchanged tree (see notes/C03.md)
const (
	fpDelim       = "delim:multi-byte-delimiter-missplit"
	fpHeatHang    = "heatmap:empty-column-key-never-terminates"
	fpStackZero   = "bars-stacked:non-positive-total-divide-by-zero"
	fpReduceTies  = "reduce-sort:tied-sort-keys-map-order"
	fpReduceEmpty = "reduce-csv:empty-single-group-key-stale-cell"
	fpHistoLost   = "histo-snapshot:non-positive-row-with-long-key-not-drawn"
	fpStateHisto  = "snapshot-render-state:histogram"
	fpStateTable  = "snapshot-render-state:tablewriter"
	fpStateHeat   = "snapshot-render-state:heatmap"
	fpStateBars   = "snapshot-render-state:bargraph"
)

func rendererFP(cmd string) string {
	switch cmd {
	case "histo":
		return fpStateHisto
	case "table", "spark", "reduce":
		return fpStateTable
	case "heatmap":
		return fpStateHeat
	case "bars":
		return fpStateBars
	}
	return ""
}

var aliases = map[string][]string{
	"histo":   {"histogram", "histo", "h"},
	"table":   {"tabulate", "table", "t"},
	"heatmap": {"heatmap", "heat", "hm"},
	"spark":   {"spark", "sparkline", "s"},
	"bars":    {"bargraph", "bars", "bar", "b"},
	"analyze": {"analyze", "a"},
	"reduce":  {"reduce", "r"},
}

func genSpec(r *run.Rand, thorough bool, known knownFn) *Spec {
	s := &Spec{}
	switch x := r.Intn(100); {
	case x < 22:
		s.Cmd = "histo"
	case x < 38:
		s.Cmd = "table"
	case x < 48:
		s.Cmd = "heatmap"
	case x < 58:
		s.Cmd = "spark"
	case x < 72:
		s.Cmd = "bars"
	case x < 82:
		s.Cmd = "analyze"
	default:
		s.Cmd = "reduce"
	}
	s.Alias = r.Pick(aliases[s.Cmd])
	s.Matcher = r.Pick([]string{"regex", "regex", "named", "dissect"})
	s.ByName = s.Matcher != "regex" && r.Bool()
	if r.Intn(3) == 0 {
		s.Ignore = r.Pick([]string{"eq", "not", "two", "two"})
	}
	s.NoFormat = r.Intn(5) != 0

	// ---- size
	var nLines int
	switch x := r.Intn(10); {
	case x < 4:
		nLines = r.Range(1, 30)
	case x < 8:
		nLines = r.Range(30, 500)
	default:
		nLines = r.Range(1500, 9000)
		if thorough && r.Intn(3) == 0 {
			nLines = r.Range(9000, 40000)
		}
	}

	// ---- command shape (decides which keys are legal)
	nonEmpty := func(k string) bool { return k != "" }
	var okA, okB func(string) bool // constraints for k1 / k2 pools
	incMode := "pos"
	switch x := r.Intn(100); {
	case x < 45:
		incMode = "pos"
	case x < 70:
		incMode = "mixed"
	case x < 85:
		incMode = "bad"
	case x < 90:
		incMode = "huge"
	default:
		incMode = "zero"
	}
	colField, rowField := 1, 2
	if r.Bool() {
		colField, rowField = 2, 1
	}
	switch s.Cmd {
	case "histo":
		switch r.Intn(6) {
		case 0: // key only: every match counts 1
			s.Parts = []Part{fld(colField)}
			if colField == 1 {
				okA = nonEmpty
			} else {
				okB = nonEmpty
			}
		case 1:
			s.Parts = []Part{{{Field: 2}, {Lit: r.Pick([]string{"-", " ", "/", "_", " = "})}, {Field: 1}}}
		case 2:
			s.Parts = []Part{{{Field: 1}, {Lit: r.Pick([]string{"-", " ", "/"})}, {Field: 2}}, fld(3)}
		default:
			s.Parts = []Part{fld(colField), fld(3)}
		}
	case "table", "heatmap", "spark":
		switch r.Intn(6) {
		case 0:
			s.Parts = []Part{fld(colField)}
			if colField == 1 {
				okA = nonEmpty
			} else {
				okB = nonEmpty
			}
		case 1:
			s.Parts = []Part{fld(colField), fld(rowField)}
		default:
			s.Parts = []Part{fld(colField), fld(rowField), fld(3)}
		}
		if s.Cmd == "heatmap" && known(fpHeatHang) {
			// an empty column key makes heatmap spin forever (pinned witness); keep out of exactly that
			if colField == 1 {
				okA = nonEmpty
			} else {
				okB = nonEmpty
			}
		}
		if r.Intn(4) == 0 {
			// no comma: urfave/cli splits the value of a repeatable flag (-e, -g, -a) at commas
			ds := []string{";", ":", "~", "#", "=", "\t", "!", "/"}
			if !known(fpDelim) {
				ds = append(ds, "::", "->", "é", "; ", "<=>", "日")
			}
			s.Delim = r.Pick(ds)
		}
	case "bars":
		switch r.Intn(5) {
		case 0:
			s.Parts = []Part{fld(colField)}
			if colField == 1 {
				okA = nonEmpty
			} else {
				okB = nonEmpty
			}
		case 1:
			s.Parts = []Part{fld(colField), fld(rowField)}
		default:
			s.Parts = []Part{fld(colField), fld(rowField), fld(3)}
		}
	case "analyze":
		s.Parts = []Part{fld(4)}
		if incMode == "huge" || incMode == "zero" {
			incMode = "pos"
		}
	case "reduce":
		if incMode == "bad" || incMode == "huge" {
			incMode = "mixed" // sumi/maxi on a non-integer is C08's business
		}
	}
	if s.Delim != "" {
		d := s.Delim
		prevA, prevB := okA, okB
		// the key must not contain the delimiter, nor end in the beginning of it ("&:" before "::" would split one byte early)
		clean := func(k string) bool { return strings.Index(k+d, d) == len(k) }
		okA = func(k string) bool { return clean(k) && (prevA == nil || prevA(k)) }
		okB = func(k string) bool { return clean(k) && (prevB == nil || prevB(k)) }
	}

	if r.Intn(4) == 0 || (s.Cmd == "reduce" && r.Intn(2) == 0) {
		// plain keys only: the screens of histogram / table / bar graph / sparkline / reduce can then be read back cell by cell
		s.Plain = true
		prevA, prevB := okA, okB
		okA = func(k string) bool { return plainKeyRe.MatchString(k) && k != "Total" && (prevA == nil || prevA(k)) }
		okB = func(k string) bool { return plainKeyRe.MatchString(k) && k != "Total" && (prevB == nil || prevB(k)) }
	}

	// ---- pools
	nA, nB := r.Range(1, 9), r.Range(1, 5)
	if nLines > 1000 {
		nA, nB = r.Range(3, 40), r.Range(2, 12)
	}
	if r.Intn(8) == 0 {
		nA = r.Range(30, 120) // more keys than any display shows
	}
	poolA := keyPool(r, nA, thorough, okA)
	poolB := keyPool(r, nB, thorough, okB)

	// ---- bound the corpus size (long keys x many lines): the check is about counts, not throughput
	{
		avg := 40
		for _, pool := range [][]string{poolA, poolB} {
			t := 0
			for _, k := range pool {
				t += len(k)
			}
			avg += t / len(pool)
		}
		budget := 2 << 20
		if thorough {
			budget = 5 << 20
		}
		if nLines*avg > budget {
			nLines = budget/avg + 1
		}
	}

	// ---- lines
	incOf := func() string {
		switch incMode {
		case "pos":
			if r.Intn(12) == 0 {
				return strconv.Itoa(r.Range(1000, 5000000))
			}
			return strconv.Itoa(r.Range(1, 20))
		case "zero":
			return r.Pick([]string{"0", "0", "1", "2"})
		case "mixed":
			return strconv.Itoa(r.Range(-25, 25))
		case "huge":
			return r.Pick([]string{"4611686018427387904", "-4611686018427387904", "9223372036854775807", "-9223372036854775808", "1", "123456789012345678", "-7"})
		default: // bad
			if r.Intn(4) == 0 {
				return r.Pick([]string{"x", "1.5", "1e3", "9223372036854775808", "12abc", "--1", "0x10", "one", "1,000", "NaN", "3 4"})
			}
			return strconv.Itoa(r.Range(-3, 30))
		}
	}
	numOf := func() string {
		if incMode == "bad" && r.Intn(5) == 0 {
			return r.Pick([]string{"abc", "1,5", "n/a", "--", "12ab", "1.2.3", "x1", "0x1F", "0b11", "0o17"})
		}
		v := strconv.Itoa(r.Range(0, 99999))
		if r.Intn(8) == 0 {
			v = fmt.Sprintf("%06s", v) // a fixed-width, zero-padded decimal field is still decimal
		}
		if incMode == "mixed" && r.Intn(3) == 0 {
			v = "-" + v
		}
		if r.Intn(3) == 0 {
			v += "." + fmt.Sprintf("%0*d", r.Range(1, 4), r.Intn(10))
		}
		return v
	}
	junk := []string{"", "junk line", "l|a|b|1|1|keep|E", "L:a:b:1:1:keep:E", "garbage, \"with\" stuff", "E", "|||||", "L |a|b|1|1|keep|E", "\tindent", "x|keep|E"}
	s.Lines = make([]Line, 0, nLines)
	skew := r.Intn(3)
	pick := func(pool []string) string {
		if skew == 0 {
			return pool[r.Intn(len(pool))]
		}
		// skewed towards the head of the pool
		i := r.Intn(len(pool))
		j := r.Intn(len(pool))
		if j < i {
			i = j
		}
		return pool[i]
	}
	for i := 0; i < nLines; i++ {
		x := r.Intn(100)
		switch {
		case x < 8:
			s.Lines = append(s.Lines, Line{Kind: 'J', Raw: junk[1+r.Intn(len(junk)-1)]})
		case x < 11:
			s.Lines = append(s.Lines, Line{Kind: 'B'})
		default:
			l := Line{Kind: 'L'}
			l.F[1] = pick(poolA)
			l.F[2] = pick(poolB)
			l.F[3] = incOf()
			l.F[4] = numOf()
			l.F[5] = "keep"
			if x := r.Intn(12); x < 2 {
				l.F[5] = "skip"
			} else if x < 4 && s.Ignore == "two" {
				l.F[5] = "drop" // ignored by the second of two rules
			}
			s.Lines = append(s.Lines, l)
		}
	}
	if incMode == "bad" && r.Intn(3) == 0 {
		// exactly one line with a non-numeric increment / number (the smallest thing that must still exit 2)
		first := true
		for i := range s.Lines {
			l := &s.Lines[i]
			if l.Kind != 'L' {
				continue
			}
			_, okI := parseInc(l.F[3])
			_, okN := parseNum(l.F[4])
			if okI && okN {
				continue
			}
			if first && !okI && !okN {
				first = false
				continue
			}
			if !okI {
				l.F[3] = "3"
			}
			if !okN {
				l.F[4] = "4"
			}
		}
		if first {
			for i := range s.Lines {
				if s.Lines[i].Kind == 'L' {
					s.Lines[i].F[3], s.Lines[i].F[4] = "x1", "n/a"
					break
				}
			}
		}
	}
	if r.Intn(25) == 0 { // nothing matches at all: exit status 1
		for i := range s.Lines {
			if s.Lines[i].Kind == 'L' {
				s.Lines[i] = Line{Kind: 'J', Raw: "nothing here"}
			}
		}
	}

	// ---- what the aggregation will see
	ag := aggregate(s)
	if s.Cmd == "histo" && known(fpHistoLost) && histoLostRow(s, ag) {
		// a row with count <= 0 whose key is wider than the key column is never drawn (pinned witness):
		// keep out of exactly that: lift those keys to a count of 1
		first := map[string]int{}
		for i := range s.Lines {
			if s.lineClass(&s.Lines[i]) == 'M' {
				k := s.Parts[0].eval(&s.Lines[i])
				if _, ok := first[k]; !ok {
					first[k] = i
				}
			}
		}
		for _, k := range sortedKeys(ag.histo) {
			if v := ag.histo[k]; v <= 0 && utf8.RuneCountInString(k) > 16 && len(s.Parts) >= 2 {
				l := s.Lines[first[k]]
				l.F[3] = strconv.FormatInt(1-v, 10)
				s.Lines = append(s.Lines, l)
			}
		}
		ag = aggregate(s)
	}
	s.HasNeg = ag.hasNeg

	// ---- more elements than the aggregator uses ({$ key inc note}, a third -e): whatever follows the increment is not part
	// of it (the reference ignores it, see aggregate)
	full := map[string]int{"histo": 2, "table": 3, "heatmap": 3, "spark": 3, "bars": 3}
	if n, ok := full[s.Cmd]; ok && len(s.Parts) == n && r.Intn(6) == 0 {
		s.Parts = append(s.Parts, fld(pickInt(r, []int{4, 5})))
		s.ExtraPart = true
	}

	// ---- extraction form
	s.Form = "multi"
	if s.Delim != "" {
		s.Form = "delim"
	} else if len(s.Parts) > 1 && r.Bool() {
		allSimple := true
		for _, p := range s.Parts {
			allSimple = allSimple && p.simple()
		}
		if allSimple {
			s.Form = "dollar"
		}
	}

	// ---- sorters + command flags
	textSorts := []string{"text", "text:desc", "value", "value:asc", "text:asc", "value:reverse", "TEXT"}
	sortFor := func(keys []string, dflt bool) (string, bool) {
		// returns flag value ("" = leave the default) ; the default must be safe to be left alone
		if smartSortSafe(keys) && r.Intn(3) == 0 {
			return r.Pick([]string{"numeric", "contextual", "numeric:desc", ""}), true
		}
		if dflt && r.Intn(3) == 0 {
			return "", true
		}
		return r.Pick(textSorts), true
	}
	s.Snap = true
	switch s.Cmd {
	case "histo":
		s.N = pickInt(r, []int{1, 2, 3, 5, 5, 20, 1000})
		if s.N != 5 || r.Bool() {
			s.CmdArgs = append(s.CmdArgs, r.Pick([]string{"-n", "--num"}), strconv.Itoa(s.N))
		}
		if r.Intn(6) == 0 {
			s.AtLeast = int64(pickInt(r, []int{2, 5, -3, 1}))
			s.CmdArgs = append(s.CmdArgs, "--atleast", strconv.FormatInt(s.AtLeast, 10))
		}
		switch r.Intn(5) {
		case 0:
			s.CmdArgs = append(s.CmdArgs, "-b")
		case 1:
			s.CmdArgs = append(s.CmdArgs, "-x")
		case 2:
			s.CmdArgs = append(s.CmdArgs, "--percentage")
		}
		if v, _ := sortFor(ag.keys(), true); v != "" { // default "value" is total (ties fall back to the name)
			s.CmdArgs = append(s.CmdArgs, "--sort", v)
		}
		s.Monotone = !ag.hasNeg && s.N >= len(ag.histo)
		s.All = r.Intn(3) == 0
	case "table", "heatmap", "spark":
		s.N = pickInt(r, []int{1, 3, 20, 20, 200})
		if s.N != 20 || r.Bool() {
			s.CmdArgs = append(s.CmdArgs, r.Pick([]string{"--num", "--rows", "-n"}), strconv.Itoa(s.N))
		}
		dfltCols := 10
		if s.Cmd != "table" {
			dfltCols = 65
		}
		s.Cols = dfltCols
		if r.Intn(3) == 0 {
			s.Cols = pickInt(r, []int{1, 2, 4, 30, 300})
			s.CmdArgs = append(s.CmdArgs, "--cols", strconv.Itoa(s.Cols))
		}
		if s.Cmd == "table" {
			switch r.Intn(5) {
			case 0:
				s.CmdArgs = append(s.CmdArgs, "-x")
			case 1:
				s.CmdArgs = append(s.CmdArgs, "--rowtotal")
			case 2:
				s.CmdArgs = append(s.CmdArgs, "--coltotal")
			}
		}
		// default sorters: table value/value (total); heatmap numeric/numeric; spark rows value, cols numeric
		rowsDefaultOK := s.Cmd != "heatmap" || smartSortSafe(ag.rowKeys())
		colsDefaultOK := s.Cmd == "table" || smartSortSafe(ag.colKeys())
		if v, _ := sortFor(ag.rowKeys(), rowsDefaultOK); v != "" {
			s.CmdArgs = append(s.CmdArgs, "--sort-rows", v)
		} else if !rowsDefaultOK {
			s.CmdArgs = append(s.CmdArgs, "--sort-rows", "text")
		}
		colSort, _ := sortFor(ag.colKeys(), colsDefaultOK)
		if colSort == "" && !colsDefaultOK {
			colSort = "text"
		}
		if s.Cmd == "spark" {
			if r.Intn(3) != 0 {
				s.CmdArgs = append(s.CmdArgs, "--notruncate")
			} else {
				// truncation keeps the last --cols columns in --sort-cols order and drops the rest;
				// only a name-based total order makes that independent of render timing
				s.Trunc = true
				if n := len(ag.cols); n >= 2 && r.Intn(4) != 0 {
					// make sure something is cut off
					s.Cols = r.Range(1, n-1)
					s.CmdArgs = dropFlag(s.CmdArgs, "--cols")
					s.CmdArgs = append(s.CmdArgs, "--cols", strconv.Itoa(s.Cols))
				}
				colSort = r.Pick([]string{"text", "text:desc", "text:asc", "text:reverse"})
				s.TruncDesc = colSort == "text:desc" || colSort == "text:reverse"
			}
		}
		if colSort != "" {
			s.CmdArgs = append(s.CmdArgs, "--sort-cols", colSort)
		}
		if s.Delim != "" {
			s.CmdArgs = append(s.CmdArgs, "--delim", s.Delim)
		}
		truncating := s.Trunc && len(ag.cols) > s.Cols
		s.Monotone = !ag.hasNeg && len(ag.rows) <= s.N && !truncating && (s.Cmd == "spark" || len(ag.cols) <= s.Cols)
	case "bars":
		if r.Intn(3) == 0 && (!known(fpStackZero) || ag.allPos) {
			s.Stacked = true
			s.CmdArgs = append(s.CmdArgs, r.Pick([]string{"-s", "--stacked"}))
		}
		dfltOK := smartSortSafe(ag.keys())
		if v, _ := sortFor(ag.keys(), dfltOK); v != "" {
			s.CmdArgs = append(s.CmdArgs, "--sort", v)
		} else if !dfltOK {
			s.CmdArgs = append(s.CmdArgs, "--sort", "text")
		}
		// the bargraph renderer keeps rows of earlier renders at their old positions: even when values
		// only grow an intermediate render can leave a wrongly scaled bar behind (pinned witness)
		s.Monotone = false
	case "analyze":
		if r.Bool() {
			s.CmdArgs = append(s.CmdArgs, r.Pick([]string{"-x", "--extra"}))
			if r.Intn(3) == 0 {
				s.CmdArgs = append(s.CmdArgs, "-r")
			}
			if r.Intn(3) == 0 {
				s.CmdArgs = append(s.CmdArgs, "-q", r.Pick([]string{"50", "0", "25.5", "99.99"}), "-q", r.Pick([]string{"75", "10", "99"}))
			}
		}
		s.Monotone = true
	case "reduce":
		genReduce(r, s, known)
	}
	return s
}

func genReduce(r *run.Rand, s *Spec, known knownFn) {
	rd := &Reduce{}
	s.Red = rd
	if s.Matcher == "regex" && r.Bool() {
		rd.Fields = nil // default extraction {@}
	} else {
		switch r.Intn(3) {
		case 0:
			rd.Fields = []int{1, 2, 3}
		case 1:
			rd.Fields = []int{2, 3, 1}
		default:
			rd.Fields = []int{3, 1, 2}
		}
	}
	posOf := func(field int) int {
		if rd.Fields == nil {
			return field
		}
		for i, f := range rd.Fields {
			if f == field {
				return i + 1
			}
		}
		return 1
	}
	ng := r.Intn(3) // 0,1,2 groups
	gf := []int{1, 2}
	if r.Bool() {
		gf = []int{2, 1}
	}
	gnames := []string{"k", "grp", "a b", "key;1", "Ω"}
	if s.Plain {
		gnames = []string{"k", "grp", "g", "key1", "name"} // names that can be read back from the screen
		if ng == 0 {
			ng = 1
		}
	}
	for i := 0; i < ng; i++ {
		g := RGroup{Pos: posOf(gf[i])}
		if r.Intn(4) != 0 || s.Plain {
			g.Name = gnames[(i*2+r.Intn(2))%len(gnames)]
			if i == 1 && g.Name == rd.Groups[0].Name {
				g.Name = "g2"
			}
		}
		rd.Groups = append(rd.Groups, g)
	}
	// accumulators: always a count, so no CSV row is a single empty cell
	kinds := []string{"sum", "max", "min", "count"}
	if r.Intn(3) == 0 {
		s.OrderSensitive = true
		kinds = append(kinds, "cat", "last", "cat")
		// concatenation is quadratic in the number of matches: keep these corpora small
		total := 0
		for i := range s.Lines {
			total += len(s.Lines[i].F[1]) + len(s.Lines[i].F[2]) + 8
			if i >= 400 || total > 48<<10 {
				s.Lines = s.Lines[:i+1]
				break
			}
		}
	}
	na := r.Range(1, 4)
	used := map[string]bool{}
	for i := 0; i < na; i++ {
		k := kinds[r.Intn(len(kinds))]
		if i == 0 {
			k = "count"
		}
		if s.OrderSensitive && i == 1 {
			k = r.Pick([]string{"cat", "last"})
		}
		a := RAcc{Kind: k, Name: fmt.Sprintf("%s%d", k, i), Pos: posOf(3)}
		if k == "cat" {
			a.Pos = posOf(pickInt(r, []int{2, 3, 1}))
		}
		if k == "last" {
			a.Pos = posOf(pickInt(r, []int{1, 2, 3}))
		}
		if r.Intn(5) == 0 && !s.Plain {
			a.Name = "" // unnamed: the column is named after the expression
			if used[a.expr()] {
				a.Name = fmt.Sprintf("%s%d", k, i)
			}
		}
		used[a.col()] = true
		if r.Intn(3) == 0 {
			a.HasIn = a.Name != ""
			switch k {
			case "max":
				a.Init = r.Pick([]string{"-1000", "0", "7"})
			case "min":
				a.Init = r.Pick([]string{"1000", "0", "-3"})
			case "sum", "count":
				a.Init = r.Pick([]string{"0", "100", "-5"})
			case "cat":
				a.Init = r.Pick([]string{"", "S:", "0"})
			case "last":
				a.Init = r.Pick([]string{"", "none"})
			}
			if !a.HasIn {
				a.Init = ""
			}
		}
		rd.Accs = append(rd.Accs, a)
	}
	if r.Intn(5) == 0 {
		rd.HasInit = true
		rd.Initial = r.Pick([]string{"0", "1", "10"})
	}
	if r.Intn(3) == 0 && len(rd.Groups) > 0 {
		named := []string{}
		for _, a := range rd.Accs {
			if a.Name != "" {
				named = append(named, a.Name)
			}
		}
		named = append(named, ".")
		rd.Sort = r.Pick(named)
		rd.SortRev = r.Intn(3) == 0
	}
	if len(rd.Groups) == 0 && r.Intn(3) == 0 {
		rd.Table = true
	}
	s.N = 20
	if r.Intn(3) == 0 {
		s.N = pickInt(r, []int{2, 5, 500})
	}
	// judge what the command will meet
	ag := aggregate(s)
	if rd.Sort != "" {
		if ag.reduceSortTies && known(fpReduceTies) {
			rd.Sort, rd.SortRev = "", false // tied sort keys come out in map order (pinned witness)
		} else if ag.reduceEmptySingle && known(fpReduceEmpty) {
			rd.Sort, rd.SortRev = "", false // empty single group key not first in the output: stale cell (pinned witness)
		}
	}
	// args (urfave/cli refuses two spellings of one flag in a command line)
	gFlag, aFlag := r.Pick([]string{"-g", "--group"}), r.Pick([]string{"-a", "--accumulator"})
	for _, g := range rd.Groups {
		e := "{" + strconv.Itoa(g.Pos) + "}"
		if g.Name != "" {
			e = g.Name + "=" + e
		}
		s.CmdArgs = append(s.CmdArgs, gFlag, e)
	}
	for _, a := range rd.Accs {
		e := a.expr()
		if a.Name != "" {
			if a.HasIn {
				e = a.Name + ":" + a.Init + "=" + e
			} else {
				e = a.Name + "=" + e
			}
		}
		s.CmdArgs = append(s.CmdArgs, aFlag, e)
	}
	if rd.HasInit {
		s.CmdArgs = append(s.CmdArgs, "--initial", rd.Initial)
	}
	if rd.Sort != "" {
		s.CmdArgs = append(s.CmdArgs, "--sort", "{"+rd.Sort+"}")
		if rd.SortRev {
			s.CmdArgs = append(s.CmdArgs, "--sort-reverse")
		}
	}
	if rd.Table {
		s.CmdArgs = append(s.CmdArgs, "--table")
	}
	if s.N != 20 {
		s.CmdArgs = append(s.CmdArgs, "--num", strconv.Itoa(s.N))
	}
	// the screen sorts groups with the contextual sorter (not selectable): a function only on safe key sets
	ag = aggregate(s)
	s.Snap = smartSortSafe(ag.reduceSortKeys) && !ag.reduceSortTies
	s.Monotone = len(ag.reduce)+1 <= s.N && len(rd.Groups)+len(rd.Accs) <= 10
}

// histoLostRow: some key that belongs on the histogram screen has a count <= 0 and is wider than the
// default key column (16): the class of the known finding fpHistoLost.
func histoLostRow(s *Spec, a *Agg) bool {
	for k, v := range a.histo {
		if v <= 0 && v >= s.AtLeast && utf8.RuneCountInString(k) > 16 {
			return true
		}
	}
	return false
}

// ---------------------------------------------------------------- command line

func (s *Spec) matcherArgs() []string {
	switch s.Matcher {
	case "named":
		return []string{"-m", reNamed}
	case "dissect":
		return []string{"-d", dissectP}
	}
	return []string{"--match", reIndexed}
}

func (s *Spec) extractArgs() []string {
	if s.Cmd == "reduce" {
		if s.Red.Fields == nil {
			return nil
		}
		var as []string
		for _, f := range s.Red.Fields {
			as = append(as, fld(f).tmpl(s.ByName))
		}
		if len(as)%2 == 1 {
			return []string{"-e", "{$ " + strings.Join(as, " ") + "}"}
		}
		var out []string
		for _, a := range as {
			out = append(out, "-e", a)
		}
		return out
	}
	var ts []string
	for _, p := range s.Parts {
		ts = append(ts, p.tmpl(s.ByName))
	}
	switch s.Form {
	case "dollar":
		return []string{"-e", "{$ " + strings.Join(ts, " ") + "}"}
	case "delim":
		return []string{"--extract", strings.Join(ts, s.Delim)}
	}
	var out []string
	for _, t := range ts {
		out = append(out, "-e", t)
	}
	return out
}

func (s *Spec) ignoreArgs() []string {
	f := "{5}"
	if s.ByName {
		f = "{flag}"
	}
	switch s.Ignore {
	case "eq":
		return []string{"-i", "{eq " + f + " skip}"}
	case "not":
		return []string{"--ignore", "{not {eq " + f + " keep}}"}
	case "two":
		// two rules that both fire, on different lines: the set of rules is shared by all workers
		return []string{"-i", "{eq " + f + " skip}", "-i", "{eq " + f + " drop}"}
	}
	return nil
}

// baseArgs is the command line without output mode, tuning flags and inputs.
func (s *Spec) baseArgs() []string {
	a := []string{s.Alias}
	a = append(a, s.matcherArgs()...)
	a = append(a, s.extractArgs()...)
	a = append(a, s.ignoreArgs()...)
	a = append(a, s.CmdArgs...)
	return a
}

func (s *Spec) hash() string {
	var sb strings.Builder
	sb.WriteString(strings.Join(s.baseArgs(), "\x01"))
	if s.All {
		sb.WriteString("\x01--all")
	}
	for i := range s.Lines {
		sb.WriteString(s.Lines[i].Text())
		sb.WriteByte('\n')
	}
	return run.Hash64(sb.String())
}

// dropFlag removes "flag value" from an argument list.
func dropFlag(args []string, flag string) []string {
	var out []string
	for i := 0; i < len(args); i++ {
		if args[i] == flag && i+1 < len(args) {
			i++
			continue
		}
		out = append(out, args[i])
	}
	return out
}

func sortedKeys[V any](m map[string]V) []string {
	out := make([]string, 0, len(m))
	for k := range m {
		out = append(out, k)
	}
	sort.Strings(out)
	return out
}
