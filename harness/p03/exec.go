package p03

import (
	"bytes"
	"compress/gzip"
	"fmt"
	"os"
	"os/exec"
	"path/filepath"
	"strconv"
	"strings"
	"syscall"
	"time"

	"verifharness/internal/run"
)

// Variant is one way of presenting the same lines to the same command.
type Variant struct {
	Name     string
	Mode     string // csv (--csv -) | snap (--snapshot [--csv file])
	Stdin    bool
	Dash     bool
	Files    [][]int // line indexes per file, in argument order
	Gz       []bool
	ZFlag    bool
	NoNL     []bool
	Workers  int // 0 = flag absent
	Batch    int
	BatchBuf int
	Readers  int
	GMP      int
	Points   string
	Single   bool    // one input, batch > #lines: the whole corpus is sampled inside one critical section
	ImplSnap bool    // leave --snapshot out (piped output switches it on)
	CPUCap   float64 // CPU-seconds after which the run is declared spinning (0 = default)
}

func (v *Variant) String() string {
	in := fmt.Sprintf("%d file(s)", len(v.Files))
	if v.Stdin {
		in = "stdin"
	}
	z := ""
	if v.ZFlag {
		z = " -z"
	}
	return fmt.Sprintf("%s[%s %s%s w=%d b=%d bb=%d r=%d GOMAXPROCS=%d points=%q]", v.Name, v.Mode, in, z, v.Workers, v.Batch, v.BatchBuf, v.Readers, v.GMP, v.Points)
}

type procResult struct {
	stdout, stderr []byte
	csvFile        []byte
	hasCSVFile     bool
	code           int
	wallExpired    bool    // killed after the (generous) wall limit: inconclusive
	spun           bool    // killed after burning cpuCap CPU-seconds: the process was running, not waiting
	cpu            float64 // CPU seconds consumed when it ended / was killed
	err            error
	args           []string
	env            []string
}

// procStat reads utime+stime (seconds, all threads), the parent pid and the
// start time of a process from /proc. pid_max is 32768 on this machine and pids
// are recycled within seconds under load, so a reading only counts when parent
// and start time identify the child that was started.
func procStat(pid int) (cpu float64, ppid int, start string, ok bool) {
	b, err := os.ReadFile("/proc/" + strconv.Itoa(pid) + "/stat")
	if err != nil {
		return
	}
	s := string(b)
	i := strings.LastIndexByte(s, ')')
	if i < 0 {
		return
	}
	f := strings.Fields(s[i+1:])
	if len(f) < 20 {
		return
	}
	ut, _ := strconv.ParseFloat(f[11], 64)
	st, _ := strconv.ParseFloat(f[12], 64)
	ppid, _ = strconv.Atoi(f[1])
	return (ut + st) / 100.0, ppid, f[19], true
}

func shellQuote(args []string) string {
	var sb strings.Builder
	for i, a := range args {
		if i > 0 {
			sb.WriteByte(' ')
		}
		if a != "" && strings.IndexFunc(a, func(r rune) bool {
			return !(r >= 'a' && r <= 'z' || r >= 'A' && r <= 'Z' || r >= '0' && r <= '9' || strings.ContainsRune("-_./=:,", r))
		}) < 0 {
			sb.WriteString(a)
			continue
		}
		if strings.ContainsAny(a, "\t\r\n\x00") || !isPrintableASCII(a) {
			sb.WriteString("$'")
			for _, ch := range []byte(a) {
				switch {
				case ch == '\'' || ch == '\\':
					sb.WriteByte('\\')
					sb.WriteByte(ch)
				case ch < 0x20 || ch >= 0x7f:
					fmt.Fprintf(&sb, "\\x%02x", ch)
				default:
					sb.WriteByte(ch)
				}
			}
			sb.WriteString("'")
			continue
		}
		sb.WriteString("'" + strings.ReplaceAll(a, "'", `'\''`) + "'")
	}
	return sb.String()
}

func isPrintableASCII(s string) bool {
	for _, ch := range []byte(s) {
		if ch < 0x20 || ch >= 0x7f {
			return false
		}
	}
	return true
}

// materialise writes the inputs of a variant and returns the path arguments and the stdin bytes.
func materialise(s *Spec, v *Variant, dir string) (paths []string, stdin []byte, err error) {
	if err = os.MkdirAll(dir, 0o755); err != nil {
		return
	}
	build := func(idx []int, noNL bool) []byte {
		var bb bytes.Buffer
		for k, li := range idx {
			t := s.Lines[li].Text()
			bb.WriteString(t)
			if k == len(idx)-1 && noNL && t != "" {
				break
			}
			bb.WriteByte('\n')
		}
		return bb.Bytes()
	}
	if v.Stdin {
		return nil, build(v.Files[0], len(v.NoNL) > 0 && v.NoNL[0]), nil
	}
	for i, idx := range v.Files {
		data := build(idx, v.NoNL[i])
		name := fmt.Sprintf("f%02d.log", i)
		if v.Gz[i] {
			name += ".gz"
			var zb bytes.Buffer
			zw := gzip.NewWriter(&zb)
			zw.Write(data)
			zw.Close()
			data = zb.Bytes()
		}
		p := filepath.Join(dir, name)
		if err = os.WriteFile(p, data, 0o644); err != nil {
			return
		}
		paths = append(paths, p)
	}
	return
}

func (s *Spec) argv(v *Variant, csvPath string, paths []string) []string {
	a := []string{"--nocolor"}
	if s.NoFormat {
		a = append(a, "--noformat")
	}
	a = append(a, s.baseArgs()...)
	switch v.Mode {
	case "csv":
		a = append(a, "--csv", "-")
	case "noout":
		a = append(a, "--noout", "-o", csvPath)
	case "snap":
		if !v.ImplSnap {
			a = append(a, "--snapshot")
		}
		if s.All {
			a = append(a, []string{"-a", "--all"}[len(s.Lines)%2])
		}
		if csvPath != "" {
			a = append(a, "-o", csvPath)
		}
	}
	if v.Workers > 0 {
		a = append(a, "--workers", strconv.Itoa(v.Workers))
	}
	if v.Batch > 0 {
		a = append(a, "--batch", strconv.Itoa(v.Batch))
	}
	if v.BatchBuf > 0 {
		a = append(a, "--batch-buffer", strconv.Itoa(v.BatchBuf))
	}
	if v.Readers > 0 && !v.Stdin {
		a = append(a, "--readers", strconv.Itoa(v.Readers))
	}
	if v.ZFlag {
		a = append(a, "-z")
	}
	if v.Stdin {
		if v.Dash {
			a = append(a, "-")
		}
	} else {
		a = append(a, paths...)
	}
	return a
}

const (
	wallLimit = 300 * time.Second
	cpuCap    = 40.0 // CPU-seconds; the largest generated run needs well under one
)

// runRare runs the real binary. It never decides anything from wall time:
// wall expiry is "inconclusive"; a process that has burnt cpuLimit
// CPU-seconds without finishing was busy all that time on a small input.
func runRare(c *run.Ctx, args []string, stdin []byte, useStdin bool, gmp int, points string, seed uint64, cpuLimit float64) *procResult {
	res := &procResult{args: args}
	cmd := exec.Command(c.RareBin, args...)
	env := []string{}
	for _, e := range os.Environ() {
		if strings.HasPrefix(e, "VERIF_POINTS=") || strings.HasPrefix(e, "VERIF_SEED=") || strings.HasPrefix(e, "GOMAXPROCS=") ||
			strings.HasPrefix(e, "VERIF_HOOK_LOG=") || strings.HasPrefix(e, "RARE_FUNC_FILES=") || strings.HasPrefix(e, "COLUMNS=") || strings.HasPrefix(e, "LINES=") {
			continue
		}
		env = append(env, e)
	}
	extra := []string{"VERIF_SEED=" + strconv.FormatUint(seed, 10)}
	if points != "" {
		extra = append(extra, "VERIF_POINTS="+points)
	}
	if gmp > 0 {
		extra = append(extra, "GOMAXPROCS="+strconv.Itoa(gmp))
	}
	res.env = extra
	cmd.Env = append(env, extra...)
	var so, se bytes.Buffer
	cmd.Stdout, cmd.Stderr = &so, &se
	if useStdin {
		cmd.Stdin = bytes.NewReader(stdin)
	} else {
		cmd.Stdin = nil // /dev/null
	}
	if err := cmd.Start(); err != nil {
		res.err = err
		return res
	}
	// identity of the child, taken while it cannot have been reaped yet
	_, _, startID, idOK := procStat(cmd.Process.Pid)
	me := os.Getpid()
	childCPU := func() float64 {
		if !idOK {
			return -1
		}
		cpu, ppid, st, ok := procStat(cmd.Process.Pid)
		if !ok || ppid != me || st != startID {
			return -1
		}
		return cpu
	}
	done := make(chan error, 1)
	go func() { done <- cmd.Wait() }()
	tick := time.NewTicker(200 * time.Millisecond)
	defer tick.Stop()
	deadline := time.After(wallLimit)
	var werr error
loop:
	for {
		select {
		case werr = <-done:
			break loop
		case <-tick.C:
			if cpu := childCPU(); cpu >= 0 {
				res.cpu = cpu
				if cpu > cpuLimit {
					res.spun = true
					cmd.Process.Kill()
					werr = <-done
					break loop
				}
			}
		case <-deadline:
			res.wallExpired = true
			if cpu := childCPU(); cpu >= 0 {
				res.cpu = cpu
			}
			cmd.Process.Kill()
			werr = <-done
			break loop
		}
	}
	res.stdout, res.stderr = so.Bytes(), se.Bytes()
	if ps := cmd.ProcessState; ps != nil {
		if ws, ok := ps.Sys().(syscall.WaitStatus); ok && !ws.Signaled() {
			// it ended by itself before the kill arrived: an ordinary result
			res.spun, res.wallExpired = false, false
		}
		if !res.spun && !res.wallExpired {
			res.cpu = (ps.UserTime() + ps.SystemTime()).Seconds()
		}
	}
	if ee, ok := werr.(*exec.ExitError); ok {
		res.code = ee.ExitCode()
	} else if werr != nil && !res.spun && !res.wallExpired {
		res.err = werr
	}
	return res
}

func (p *procResult) crashed() bool {
	return bytes.Contains(p.stderr, []byte("panic:")) || bytes.Contains(p.stderr, []byte("fatal error:")) || bytes.Contains(p.stderr, []byte("goroutine 1 ["))
}

func (p *procResult) cmdline(bin string) string {
	return strings.Join(p.env, " ") + " " + bin + " " + shellQuote(p.args)
}
