package p03

import (
	"strconv"

	"verifharness/internal/run"
)

// Pinned witnesses: always executed (one per defect met on the unchanged tree,
// see notes/C03.md). While the defect exists they produce its fingerprint; once
// it is repaired they are ordinary regression cases judged by the same oracles.

type pin struct {
	name string
	run  func(c *run.Ctx, cs Case, dir string)
}

func mkLines(rows ...[5]string) []Line {
	var out []Line
	for _, r := range rows {
		l := Line{Kind: 'L'}
		for i := 0; i < 5; i++ {
			l.F[i+1] = r[i]
		}
		if l.F[4] == "" {
			l.F[4] = "1"
		}
		if l.F[5] == "" {
			l.F[5] = "keep"
		}
		out = append(out, l)
	}
	return out
}

func oneFile(name, mode string, n int) *Variant {
	return &Variant{Name: name, Mode: mode, Files: [][]int{allIdx(n)}, Gz: []bool{false}, NoNL: []bool{false}, Batch: n + 1000, Single: true}
}

// slowFile: batch 1 and a pause after every sampled batch, so that the 100 ms
// render ticker fires between batches (the pause is spent sleeping, not computing).
func slowFile(name string, n int) *Variant {
	v := oneFile(name, "snap", n)
	v.Batch, v.Single, v.Workers, v.Readers = 1, false, 1, 1
	v.Points = "agg.afterSampleBatch=sleep:160ms:n8"
	return v
}

func baseSpec(cmd string, lines []Line, parts ...Part) *Spec {
	return &Spec{Cmd: cmd, Alias: aliases[cmd][0], Lines: lines, Matcher: "regex", Parts: parts, Form: "multi", Snap: true, NoFormat: true}
}

var pins = []pin{
	{"delim-multibyte-table", func(c *run.Ctx, cs Case, dir string) {
		for _, cmd := range []string{"table", "heatmap", "spark"} {
			s := baseSpec(cmd, mkLines([5]string{"colA", "row1", "3"}, [5]string{"colB", "row1", "4"}, [5]string{"colA", "row2", "5"}), fld(1), fld(2), fld(3))
			s.Form, s.Delim = "delim", "::"
			s.CmdArgs = []string{"--delim", "::", "--sort-rows", "text", "--sort-cols", "text"}
			if cmd == "spark" {
				s.CmdArgs = append(s.CmdArgs, "--notruncate")
			}
			s.N, s.Cols, s.Monotone = 20, 65, true
			runSpec(c, cs, s, []*Variant{oneFile("base-csv", "csv", 3), oneFile("base-snap", "snap", 3)}, dir)
		}
	}},
	{"heatmap-empty-column", func(c *run.Ctx, cs Case, dir string) {
		s := baseSpec("heatmap", mkLines([5]string{"", "x", "3"}, [5]string{"b", "y", "4"}), fld(1), fld(2), fld(3))
		s.CmdArgs = []string{"--sort-rows", "text", "--sort-cols", "text"}
		s.N, s.Cols, s.Monotone = 20, 65, true
		v := oneFile("base-csv", "csv", 2)
		v.CPUCap = 3 // the whole run needs a few CPU-milliseconds
		runSpec(c, cs, s, []*Variant{v}, dir)
	}},
	{"bars-stacked-zero-total", func(c *run.Ctx, cs Case, dir string) {
		s := baseSpec("bars", mkLines([5]string{"a", "x", "0"}, [5]string{"b", "x", "2"}), fld(1), fld(2), fld(3))
		s.Stacked = true
		s.CmdArgs = []string{"--stacked", "--sort", "text"}
		s.Monotone = true
		runSpec(c, cs, s, []*Variant{oneFile("base-csv", "csv", 2), oneFile("base-snap", "snap", 2)}, dir)
	}},
	{"reduce-sort-ties", func(c *run.Ctx, cs Case, dir string) {
		// four groups with the same count, sorted by the count: the order of the tied rows
		// follows map iteration + insertion order, so the same lines in another order
		// (or simply another run) export another CSV
		s := baseSpec("reduce", mkLines([5]string{"a", "x", "1"}, [5]string{"b", "x", "1"}, [5]string{"c", "x", "1"}, [5]string{"d", "x", "1"}))
		s.Red = &Reduce{Groups: []RGroup{{Name: "k", Pos: 1}}, Accs: []RAcc{{Name: "n", Kind: "count", Pos: 3}}, Sort: "n"}
		s.CmdArgs = []string{"-g", "k={1}", "-a", "n={sumi {.} 1}", "--sort", "{n}"}
		s.N, s.Snap = 20, false
		fwd := oneFile("base-csv", "csv", 4)
		rev := oneFile("v1-reversed-lines", "csv", 4)
		rev.Files = [][]int{{3, 2, 1, 0}}
		vs := []*Variant{fwd, rev}
		for i := 0; i < 4; i++ {
			v := oneFile("v-again", "csv", 4)
			v.Name = "v" + string(rune('2'+i)) + "-again"
			vs = append(vs, v)
		}
		runSpec(c, cs, s, vs, dir)
	}},
	{"reduce-group-of-whole-element", func(c *run.Ctx, cs Case, dir string) {
		// -g {0}: with reduce's default extraction {@} the whole element is the NUL-joined list of the five captures, so the
		// group key has more parts than there are group and data columns together. Such a key cannot be shown cell by cell;
		// the command must still complete (exit 0) and print the same thing for every variant.
		s := baseSpec("reduce", mkLines([5]string{"a", "x", "1"}, [5]string{"b", "y", "2"}, [5]string{"a", "x", "1"}))
		s.Red = &Reduce{Groups: []RGroup{{Name: "k", Pos: 1}}, Accs: []RAcc{{Name: "n", Kind: "count", Pos: 3}}}
		s.CmdArgs = []string{"-g", "k={0}", "-a", "n={sumi {.} 1}"}
		s.N, s.CrashOnly = 20, true
		runSpec(c, cs, s, []*Variant{oneFile("base-csv", "csv", 3), oneFile("base-snap", "snap", 3)}, dir)
	}},
	{"reduce-empty-group-key", func(c *run.Ctx, cs Case, dir string) {
		s := baseSpec("reduce", mkLines([5]string{"a", "x", "3"}, [5]string{"", "y", "4"}, [5]string{"", "y", "4"}, [5]string{"", "y", "4"}, [5]string{"b", "y", "4"}, [5]string{"b", "y", "4"}))
		s.Red = &Reduce{Groups: []RGroup{{Name: "k", Pos: 1}}, Accs: []RAcc{{Name: "n", Kind: "count", Pos: 3}}, Sort: "n"}
		s.CmdArgs = []string{"-g", "k={1}", "-a", "n={sumi {.} 1}", "--sort", "{n}"}
		s.N, s.Snap = 20, false
		runSpec(c, cs, s, []*Variant{oneFile("base-csv", "csv", 6)}, dir)
	}},
	{"render-state-histogram", func(c *run.Ctx, cs Case, dir string) {
		// a and b are on screen after the first batches and end below zero (hidden): their rows stay
		s := baseSpec("histo", mkLines([5]string{"a", "x", "5"}, [5]string{"b", "y", "4"}, [5]string{"c", "y", "3"}, [5]string{"a", "x", "-9"}, [5]string{"b", "x", "-9"}, [5]string{"c", "x", "-2"}), fld(1), fld(3))
		s.N, s.HasNeg, s.Monotone = 5, true, false
		runSpec(c, cs, s, []*Variant{oneFile("base-snap", "snap", 6), slowFile("v1-slow", 6)}, dir)
	}},
	{"render-state-table", func(c *run.Ctx, cs Case, dir string) {
		// value-sorted columns: the wide name is column 1 first and column 2 in the end; its width stays on column 1
		s := baseSpec("table", mkLines([5]string{"a_rather_wide_column_name", "r", "5"}, [5]string{"b", "r", "10"}, [5]string{"b", "r", "1"}), fld(1), fld(2), fld(3))
		s.N, s.Cols, s.Monotone = 20, 10, true
		runSpec(c, cs, s, []*Variant{oneFile("base-snap", "snap", 3), slowFile("v1-slow", 3)}, dir)
	}},
	{"render-state-heatmap", func(c *run.Ctx, cs Case, dir string) {
		// the header lines are indented by the row-key width known from the PREVIOUS render
		s := baseSpec("heatmap", mkLines([5]string{"c1", "rowkey", "5"}, [5]string{"c2", "rowkey", "10"}, [5]string{"c1", "other", "1"}), fld(1), fld(2), fld(3))
		s.CmdArgs = []string{"--sort-rows", "text", "--sort-cols", "text"}
		s.N, s.Cols, s.Monotone = 20, 65, true
		runSpec(c, cs, s, []*Variant{oneFile("base-snap", "snap", 3), slowFile("v1-slow", 3)}, dir)
	}},
	{"render-state-bargraph", func(c *run.Ctx, cs Case, dir string) {
		// rows a,c,d are drawn by an early render; b arrives later and shifts c,d down. In the last render b (150) is
		// the new maximum when it is drawn, the redraw that follows meets the stale third row (d, now 300) which
		// raises the scale silently, and nothing redraws b: b keeps a full-length bar next to d=300.
		s := baseSpec("bars", mkLines([5]string{"a", "x", "2"}, [5]string{"c", "x", "100"}, [5]string{"d", "x", "100"}, [5]string{"b", "x", "150"}, [5]string{"d", "x", "200"}), fld(1), fld(2), fld(3))
		s.CmdArgs = []string{"--sort", "text"}
		s.Monotone = false
		slow := slowFile("v1-one-early-render", 5)
		slow.Batch = 3                                      // sample batches: lines 1-3, then lines 4-5
		slow.Points = "agg.afterSampleBatch=sleep:300ms:n1" // one render between them, none before the last
		runSpec(c, cs, s, []*Variant{oneFile("base-snap", "snap", 5), slow}, dir)
		// padding: the key column is as wide as the longest key drawn SO FAR; in a single render row "a" is drawn
		// before the long key (narrow), after an earlier render that has seen the long key it is drawn wide
		p := baseSpec("bars", mkLines([5]string{"a", "x", "5"}, [5]string{"a_much_longer_key", "x", "1"}, [5]string{"a", "x", "1"}), fld(1), fld(2), fld(3))
		p.CmdArgs = []string{"--sort", "text"}
		p.Monotone = false
		runSpec(c, cs, p, []*Variant{oneFile("base-snap", "snap", 3), slowFile("v1-slow", 3)}, dir)
	}},
	{"histo-zero-count-long-key", func(c *run.Ctx, cs Case, dir string) {
		// WriteForLine answers a key wider than the key column with fullRender(), which skips rows whose value is <= 0
		s := baseSpec("histo", mkLines([5]string{"short", "x", "5"}, [5]string{"a_key_longer_than_16_chars", "x", "0"}, [5]string{"z", "x", "2"}), fld(1), fld(3))
		s.N, s.Monotone = 5, true
		s.CmdArgs = []string{"--sort", "text"}
		runSpec(c, cs, s, []*Variant{oneFile("base-csv", "csv", 3), oneFile("base-snap", "snap", 3)}, dir)
	}},
	// ---- boundary cases that are always run (no defect attached)
	{"one-parse-error", func(c *run.Ctx, cs Case, dir string) {
		// exactly one increment that is not a number: exit status 2, the other lines aggregated
		rows := mkLines([5]string{"a", "x", "3"}, [5]string{"b", "y", "oops", "n/a"}, [5]string{"a", "y", "5"}, [5]string{"c", "x", "1"}, [5]string{"a", "x", "2"})
		for _, cmd := range []string{"histo", "table", "heatmap", "spark", "bars", "analyze"} {
			var s *Spec
			switch cmd {
			case "histo":
				s = baseSpec(cmd, rows, fld(1), fld(3))
				s.N = 5
			case "analyze":
				s = baseSpec(cmd, rows, fld(4))
			case "bars":
				s = baseSpec(cmd, rows, fld(1), fld(2), fld(3))
				s.CmdArgs = []string{"--sort", "text"}
			default:
				s = baseSpec(cmd, rows, fld(1), fld(2), fld(3))
				s.CmdArgs = []string{"--sort-rows", "text", "--sort-cols", "text"}
				if cmd == "spark" {
					s.CmdArgs = append(s.CmdArgs, "--notruncate")
				}
				s.N, s.Cols = 20, 65
				if cmd == "table" {
					s.Cols = 10
				}
			}
			s.Monotone = cmd != "bars"
			multi := oneFile("v1-batch1", "csv", len(rows))
			if cmd == "analyze" {
				multi.Mode = "snap"
			}
			multi.Batch, multi.Single, multi.Workers, multi.GMP = 1, false, 4, 2
			vs := []*Variant{oneFile("base-csv", "csv", len(rows)), oneFile("base-snap", "snap", len(rows)), multi}
			if cmd == "analyze" {
				vs = vs[1:]
			}
			runSpec(c, cs, s, vs, dir)
		}
	}},
	{"spark-truncation", func(c *run.Ctx, cs Case, dir string) {
		// six columns, room for three: the last three in --sort-cols order stay, rows left without a cell go
		rows := mkLines([5]string{"c1", "r1", "1"}, [5]string{"c2", "r1", "2"}, [5]string{"c3", "r2", "3"}, [5]string{"c4", "r2", "4"},
			[5]string{"c5", "r3", "5"}, [5]string{"c6", "r3", "6"}, [5]string{"c1", "r4", "7"}, [5]string{"c6", "r1", "8"})
		for _, desc := range []bool{false, true} {
			s := baseSpec("spark", rows, fld(1), fld(2), fld(3))
			s.N, s.Cols, s.Trunc, s.TruncDesc = 20, 3, true, desc
			srt := "text"
			if desc {
				srt = "text:desc"
			}
			s.CmdArgs = []string{"--cols", "3", "--sort-rows", "text", "--sort-cols", srt}
			multi := oneFile("v1-batch1", "csv", len(rows))
			multi.Batch, multi.Single, multi.Workers = 1, false, 3
			multi.Points = "agg.afterSampleBatch=sleep:60ms:n4" // lets intermediate renders trim along the way
			runSpec(c, cs, s, []*Variant{oneFile("base-csv", "csv", len(rows)), oneFile("base-snap", "snap", len(rows)), multi}, dir)
		}
	}},
	{"big-many-keys", func(c *run.Ctx, cs Case, dir string) {
		// 300 000 lines over 60 000 keys, stretched over ~1 s: sampling really overlaps the 100 ms render
		// ticker here (a render walks and sorts 60 000 keys), which is what the output mutex is for
		const n = 300000
		lines := make([]Line, n)
		for i := range lines {
			k := (i * 7919) % 60000
			l := Line{Kind: 'L'}
			l.F[1] = "key" + itoa(k)
			l.F[2] = "s" + itoa(i%7)
			l.F[3] = itoa(1 + i%5)
			l.F[4] = itoa(i % 1000)
			l.F[5] = "keep"
			lines[i] = l
		}
		s := baseSpec("histo", lines, fld(1), fld(3))
		s.N, s.Monotone = 5, false
		s.CmdArgs = []string{"-n", "5"}
		multi := oneFile("v1-batch200-stretched", "csv", n)
		multi.Batch, multi.Single, multi.Workers = 200, false, 8
		multi.Points = "batch.beforeSend=sleep:500us"
		split := &Variant{Name: "v2-split-gz", Mode: "csv", Files: make([][]int, 4), Gz: []bool{true, false, true, true}, NoNL: make([]bool, 4), ZFlag: true, Workers: 4, Batch: 1000, Readers: 4}
		for i := 0; i < n; i++ {
			split.Files[(i/1000)%4] = append(split.Files[(i/1000)%4], i)
		}
		runSpec(c, cs, s, []*Variant{oneFile("base-csv", "csv", n), oneFile("base-snap", "snap", n), multi, split}, dir)
	}},
}

func itoa(i int) string { return strconv.Itoa(i) }
