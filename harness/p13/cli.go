package p13

import (
	"bytes"
	"context"
	"fmt"
	"os"
	"os/exec"
	"path/filepath"
	"strings"
	"time"

	"verifharness/internal/run"
)

// runCLI: `rare histo|table|bars --snapshot --sort …` on line-shuffled copies
// of one corpus must print rows (columns) in one order, the reference sequence
// for the aggregated data (inside rare the items reach the sorter in Go map
// order, which differs from process to process).
func runCLI(c *run.Ctx, cs *Case) {
	if c.RareBin == "" {
		c.Note("cli cases skipped: no rare binary")
		return
	}
	items := canonical(cs.items())
	mode := cs.Mode
	want := sortWith(c, build(cs.Spec), items, false)
	reps := cs.Reps
	if reps <= 0 {
		reps = 4
	}
	known := map[string]bool{}
	for _, it := range items {
		known[it.K] = true
	}
	dir := filepath.Join(c.WorkDir, "cli")
	os.MkdirAll(dir, 0o755)
	for rep := 0; rep < reps; rep++ {
		r := run.NewRand(cs.PSeed, "cli", rep)
		var lines []string
		for _, it := range items {
			parts := 1 + r.Intn(3)
			rest := it.V
			for p := 0; p < parts-1 && rest > 1; p++ {
				d := int64(r.Range(1, int(min64(rest-1, 5))))
				lines = append(lines, fmt.Sprintf("%s\t%d", it.K, d))
				rest -= d
			}
			lines = append(lines, fmt.Sprintf("%s\t%d", it.K, rest))
		}
		p := r.Perm(len(lines))
		var sb strings.Builder
		for _, i := range p {
			sb.WriteString(lines[i])
			sb.WriteByte('\n')
		}
		file := filepath.Join(dir, fmt.Sprintf("corpus-%d.txt", rep))
		if err := os.WriteFile(file, []byte(sb.String()), 0o644); err != nil {
			c.Inconclusive("cannot write corpus: " + err.Error())
			return
		}
		n := fmt.Sprint(len(items) + 1)
		var args []string
		match := []string{"-m", `^([^\t]+)\t(-?\d+)$`}
		switch cs.Target {
		case "histo":
			args = append([]string{"histo", "--snapshot", "-n", n, "--sort", cs.Spec, "-e", "{$ {1} {2}}"}, match...)
		case "bars":
			args = append([]string{"bars", "--snapshot", "--sort", cs.Spec, "-e", "{$ {1} k {2}}"}, match...)
		case "table-rows":
			args = append([]string{"table", "--snapshot", "-n", n, "--cols", "10", "--sort-rows", cs.Spec, "--sort-cols", "text", "-e", "{$ c {1} {2}}"}, match...)
		case "heat-rows":
			args = append([]string{"--nocolor", "heatmap", "--snapshot", "-n", n, "--sort-rows", cs.Spec, "--sort-cols", "text", "-e", "{$ c {1} {2}}"}, match...)
		case "spark-rows":
			args = append([]string{"--nocolor", "spark", "--snapshot", "-n", n, "--sort-rows", cs.Spec, "--sort-cols", "text", "-e", "{$ c {1} {2}}"}, match...)
		case "table-both":
			// both axes sorted with the same mode (two sorters that must not share what they learn from their keys):
			// two columns whose names are dates in ISO layout, the rows in whatever layout the key set has
			args = append([]string{"table", "--snapshot", "-n", n, "--cols", "10", "--sort-rows", cs.Spec, "--sort-cols", cs.Spec,
				"-e", "{$ {if {eq {modi {2} 2} 0} 2022-09-03 2021-01-05} {1} {2}}"}, match...)
		case "table-cols":
			args = append([]string{"table", "--snapshot", "-n", "10", "--cols", n, "--sort-cols", cs.Spec, "--sort-rows", "text", "-e", "{$ {1} r {2}}"}, match...)
		case "reduce", "reduce-sortexpr":
			// reduce orders its groups with the contextual sorter (by group key, or by the value of --sort EXPR);
			// --sort-reverse reverses either
			args = append([]string{"reduce", "--snapshot", "--num", fmt.Sprint(len(items) + 2), "-g", "k={1}", "-a", "n={sumi {.} {2}}"}, match...)
			if cs.Target == "reduce-sortexpr" {
				args = append(args, "--sort", []string{"{.}", "{0}"}[rep%2]) // the whole group key / its first part: the same order as without --sort
			}
			if strings.Contains(cs.Spec, ":") {
				args = append(args, "--sort-reverse")
			}
		default:
			c.Inconclusive("unknown cli target " + cs.Target)
			return
		}
		args = append(args, file)
		var stdout, stderr bytes.Buffer
		var err error
		// a child killed from outside (other jobs share the machine) is retried; only a
		// persistent failure makes the run inconclusive
		for attempt := 0; attempt < 3; attempt++ {
			stdout.Reset()
			stderr.Reset()
			ctx, cancel := context.WithTimeout(context.Background(), 60*time.Second)
			cmd := exec.CommandContext(ctx, c.RareBin, args...)
			cmd.Env = append(os.Environ(), "NO_COLOR=1", "TERM=dumb")
			if host := hostFor(cs); host != "" {
				cmd.Env = append(cmd.Env, "TZ="+host)
			}
			cmd.Stdout, cmd.Stderr = &stdout, &stderr
			err = cmd.Run()
			cancel()
			if err == nil {
				break
			}
			c.Count("cli_retries", 1)
		}
		os.Remove(file)
		if err != nil {
			c.Inconclusive(fmt.Sprintf("rare %v failed: %v: %s", args, err, run.Q(stderr.String())))
			return
		}
		got := parseCLI(cs.Target, stdout.String(), known)
		c.Count("sorts", 1)
		c.Count("cli_runs", 1)
		if len(got) != len(items) {
			c.Inconclusive(fmt.Sprintf("could not read %d rows back from `rare %s` (got %d): %s", len(items), strings.Join(args, " "), len(got), run.Q(stdout.String())))
			return
		}
		if !sameSeq(got, want) {
			c.Violation(fingerprint(c, "cli-"+cs.Target, mode, cs.Keys, cs.Vals),
				fmt.Sprintf("`rare %s` on a corpus aggregating to %s printed the order %s; the order for this data is %s (same sorter, canonical input order; run #%d on a line-shuffled copy)",
					strings.Join(args[:len(args)-1], " "), showItems(items, true), showSeq(got), showSeq(want), rep+1), cs)
			return
		}
	}
}

func min64(a, b int64) int64 {
	if a < b {
		return a
	}
	return b
}

// parseCLI reads the key sequence back. Keys contain no whitespace.
func parseCLI(target, out string, known map[string]bool) []string {
	var got []string
	lines := strings.Split(out, "\n")
	switch target {
	case "histo", "bars":
		for _, ln := range lines {
			if strings.HasPrefix(ln, "Matched:") {
				break
			}
			if ln == "" || ln[0] == ' ' || ln[0] == '\t' {
				continue
			}
			f := strings.Fields(ln)
			if len(f) >= 2 && known[f[0]] {
				got = append(got, f[0])
			}
		}
	case "table-rows", "table-both", "reduce", "reduce-sortexpr":
		for i, ln := range lines {
			if i == 0 {
				continue // header
			}
			if strings.HasPrefix(ln, "Matched:") {
				break
			}
			f := strings.Fields(ln)
			if len(f) >= 2 && known[f[0]] {
				got = append(got, f[0])
			}
		}
	case "heat-rows", "spark-rows":
		skip := 2 // heat map: legend and header; sparkline: header
		if target == "spark-rows" {
			skip = 1
		}
		for i, ln := range lines {
			if i < skip {
				continue
			}
			if strings.HasPrefix(ln, "Matched:") {
				break
			}
			f := strings.Fields(ln)
			if len(f) >= 2 && known[f[0]] {
				got = append(got, f[0])
			}
		}
	case "table-cols":
		if len(lines) > 0 {
			for _, f := range strings.Fields(lines[0]) {
				if known[f] {
					got = append(got, f)
				}
			}
		}
	}
	return got
}

var cliTargets = []string{"histo", "bars", "table-rows", "table-cols", "reduce", "reduce-sortexpr", "table-both", "heat-rows", "spark-rows"}

// cliKey: keys that survive the regex / expression / renderer unchanged and can be read back.
func cliKey(k string) bool {
	if k == "" || len(k) > 40 || k == "Matched:" {
		return false
	}
	for i := 0; i < len(k); i++ {
		ch := k[i]
		if ch <= ' ' || ch >= 0x7f || ch == '{' || ch == '}' || ch == '\\' {
			return false
		}
	}
	return true
}

func clis(c *run.Ctx) {
	if c.RareBin == "" {
		c.Note("cli cases skipped: no rare binary")
		return
	}
	N := c.N(120, 2400)
	for i := 0; i < N; i++ {
		if !c.Mine(i) {
			continue
		}
		r := c.Rand("cli", i)
		target := cliTargets[i%len(cliTargets)]
		mode := modes[(i/len(cliTargets))%len(modes)]
		if strings.HasPrefix(target, "reduce") {
			mode = "contextual" // not selectable for reduce
		}
		asc, desc := spellings(mode)
		spec := append(append([]string{}, asc...), desc...)[r.Intn(4)]
		if strings.HasPrefix(target, "reduce") {
			spec = []string{asc[0], desc[0]}[r.Intn(2)]
		}
		var keys []string
		for attempt := 0; attempt < 8 && len(keys) < 3; attempt++ {
			ks, _ := genKeys(c, r, mode, 24)
			keys = keys[:0]
			for _, k := range ks {
				if cliKey(k) {
					keys = append(keys, k)
				}
			}
			keys = leaveKnown(c, mode, keys)
		}
		if len(keys) < 3 {
			keys = []string{"a", "b", "c"}
		}
		if (target == "table-cols") && len(keys) > 12 {
			keys = keys[:12]
			keys = leaveKnown(c, mode, keys)
		}
		vals := make([]int64, len(keys))
		style := r.Intn(3)
		for j := range vals {
			switch style {
			case 0:
				vals[j] = int64(r.Range(1, 3))
			case 1:
				vals[j] = int64(r.Range(1, 40))
			default:
				vals[j] = int64(j + 1)
			}
		}
		cs := &Case{Kind: "cli", Mode: mode, Target: target, Spec: spec, Keys: keys, Vals: vals, PSeed: r.U64(), Reps: c.N(3, 5)}
		c.Begin(cs, 300*time.Second)
		c.Nontrivial("cli", target, spec, joinKeys(names(canonical(cs.items()))))
		c.Count("cli_cases", 1)
		c.SetAdd("cli_targets", target+"/"+mode)
		if i < 2 {
			c.Sample(map[string]any{"kind": "cli", "target": target, "spec": spec, "keys": keys, "vals": vals})
		}
		runCase(c, cs)
		c.End()
		if c.Violations() >= 6 {
			return
		}
	}
}
