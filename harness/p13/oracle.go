package p13

import (
	"rare/cmd/helpers"
	"fmt"
	"regexp"
	"sort"
	"strings"

	"rare/pkg/aggregation/sorting"

	"verifharness/internal/run"
)

// ---------------------------------------------------------------- permutations

func factorial(n int) int {
	f := 1
	for i := 2; i <= n; i++ {
		f *= i
	}
	return f
}

// allPerms of 0..n-1 in lexicographic order (n <= 5).
func allPerms(n int) [][]int {
	var out [][]int
	p := make([]int, n)
	used := make([]bool, n)
	var rec func(d int)
	rec = func(d int) {
		if d == n {
			out = append(out, append([]int(nil), p...))
			return
		}
		for i := 0; i < n; i++ {
			if !used[i] {
				used[i] = true
				p[d] = i
				rec(d + 1)
				used[i] = false
			}
		}
	}
	rec(0)
	return out
}

func permsFor(cs *Case, n int) [][]int {
	if n <= 5 {
		return allPerms(n)
	}
	k := cs.Perms
	if k <= 0 {
		k = 24
	}
	r := run.NewRand(cs.PSeed, "perms", n)
	out := make([][]int, 0, k+2)
	// the reversed and a rotated order are always among them
	rev := make([]int, n)
	rot := make([]int, n)
	for i := 0; i < n; i++ {
		rev[i] = n - 1 - i
		rot[i] = (i + n/2) % n
	}
	out = append(out, rev, rot)
	for i := 0; i < k; i++ {
		out = append(out, r.Perm(n))
	}
	return out
}

func apply(p []int, items []kv) []kv {
	out := make([]kv, len(items))
	for i, j := range p {
		out[i] = items[j]
	}
	return out
}

// ---------------------------------------------------------------- set case

// runSet: permutation invariance (fresh sorter per sort, one sorter reused
// across re-sorts, one sorter over a growing data set), spelling equivalences
// and exact reversal, semantic reference orders.
func runSet(c *run.Ctx, cs *Case) bool {
	items := cs.items()
	canon := canonical(items)
	n := len(canon)
	mode := cs.Mode
	ok := true
	fail := func(sub, msg string) {
		ok = false
		c.Violation(fingerprint(c, sub, mode, cs.Keys, cs.Vals), msg, cs)
	}
	asc, desc := spellings(mode)
	perms := permsFor(cs, n)
	refs := map[string][]string{}
	for si, spec := range []string{asc[0], desc[0], asc[1], desc[1]} {
		ref := sortWith(c, build(spec), canon, false)
		refs[spec] = ref
		if len(ref) != n {
			fail("perm", fmt.Sprintf("sort %q of %s returned %d keys", spec, showItems(canon, true), len(ref)))
			return false
		}
		// sorting.Sort and sorting.SortBy (what the aggregators call) are the same order
		if refBy := sortWith(c, build(spec), canon, true); !sameSeq(refBy, ref) {
			fail("sortby", fmt.Sprintf("--sort %s: sorting.SortBy gives %s, sorting.Sort gives %s for the same input %s", spec, showSeq(refBy), showSeq(ref), showItems(canon, mode == "value")))
			return false
		}
		reused := build(spec)
		use := perms
		if si >= 2 && len(perms) > 8 {
			use = perms[:8] // the second spelling of each direction gets fewer permutations
		}
		for pi, p := range use {
			in := apply(p, canon)
			got := sortWith(c, build(spec), in, pi%2 == 1)
			c.Count("perm_comparisons", 1)
			if !sameSeq(got, ref) {
				fail("perm", fmt.Sprintf("--sort %s: the same data sorts to different sequences depending on the order it is handed to the sorter.\n input A %s -> %s\n input B %s -> %s",
					spec, showItems(canon, mode == "value"), showSeq(ref), showItems(in, mode == "value"), showSeq(got)))
				return false
			}
			got2 := sortWith(c, reused, in, pi%2 == 0)
			c.Count("reuse_comparisons", 1)
			if !sameSeq(got2, ref) {
				fail("reuse", fmt.Sprintf("--sort %s: one sorter re-used for a re-sort (as the render loop does) gives another sequence than a fresh sorter.\n fresh on %s -> %s\n re-used (sort #%d) on %s -> %s",
					spec, showItems(canon, mode == "value"), showSeq(ref), pi+2, showItems(in, mode == "value"), showSeq(got2)))
				return false
			}
		}
		// growing data: the same sorter sorts a prefix of the arrivals first, then everything
		if n >= 3 {
			r := run.NewRand(cs.PSeed, "grow", si)
			for g := 0; g < 2; g++ {
				arrival := apply(r.Perm(n), canon)
				s := build(spec)
				for _, cut := range []int{1 + r.Intn(n-1), 1 + r.Intn(n-1)} {
					sortWith(c, s, arrival[:cut], false)
				}
				got := sortWith(c, s, arrival, true)
				c.Count("grow_comparisons", 1)
				if !sameSeq(got, ref) {
					fail("grow", fmt.Sprintf("--sort %s: a sorter that first sorted partial data (keys arriving in the order %s) ends with another final sequence than a fresh process.\n fresh -> %s\n after partial sorts -> %s",
						spec, showItems(arrival, mode == "value"), showSeq(ref), showSeq(got)))
					return false
				}
			}
		}
	}
	// spelling equivalences and exact reversal
	if !sameSeq(refs[asc[0]], refs[asc[1]]) {
		fail("rev", fmt.Sprintf("--sort %s and --sort %s must be the same order for %s: %s vs %s", asc[0], asc[1], showItems(canon, mode == "value"), showSeq(refs[asc[0]]), showSeq(refs[asc[1]])))
		return false
	}
	if !sameSeq(refs[desc[0]], refs[desc[1]]) {
		fail("rev", fmt.Sprintf("--sort %s and --sort %s must be the same order for %s: %s vs %s", desc[0], desc[1], showItems(canon, mode == "value"), showSeq(refs[desc[0]]), showSeq(refs[desc[1]])))
		return false
	}
	c.Count("reverse_comparisons", 1)
	if !sameSeq(refs[desc[0]], reversed(refs[asc[0]])) {
		fail("rev", fmt.Sprintf("--sort %s is not the exact reversal of --sort %s for %s:\n %s -> %s\n %s -> %s", desc[0], asc[0], showItems(canon, mode == "value"), asc[0], showSeq(refs[asc[0]]), desc[0], showSeq(refs[desc[0]])))
		return false
	}
	// other capitalisations of a mode name or modifier: where the command line accepts one, it selects the same mode
	// (a name that is rejected selects nothing and is not judged)
	for _, spec := range []string{asc[0], desc[0], desc[1]} {
		for _, v := range []string{strings.ToUpper(spec[:1]) + spec[1:], strings.ToUpper(spec)} {
			s, err := helpers.BuildSorter(v)
			if err != nil || v == spec {
				c.Count("capitalised_spellings_rejected", 1)
				continue
			}
			c.Count("capitalised_spellings_compared", 1)
			if got := sortWith(c, s, canon, false); !sameSeq(got, refs[spec]) {
				fail("spelling", fmt.Sprintf("--sort %s is accepted but orders %s as %s, while --sort %s gives %s", v, showItems(canon, mode == "value"), showSeq(got), spec, showSeq(refs[spec])))
				return false
			}
		}
	}
	// semantic reference orders on the ascending sequence
	if msg := semantic(c, mode, canon, refs[asc[0]]); msg != "" {
		fail("sem", fmt.Sprintf("--sort %s on %s -> %s: %s", asc[0], showItems(canon, mode == "value"), showSeq(refs[asc[0]]), msg))
		return false
	}
	return ok
}

var lowerAlnum = regexp.MustCompile(`^[0-9a-z]+$`)

// semantic checks the documented meaning of the ascending order; "" = fine or not judged.
func semantic(c *run.Ctx, mode string, canon []kv, seq []string) string {
	val := map[string]int64{}
	for _, it := range canon {
		val[it.K] = it.V
	}
	switch mode {
	case "value":
		// ascending spelling: smaller totals first (so the default puts larger totals first, by exact reversal)
		for i := 1; i < len(seq); i++ {
			if val[seq[i-1]] > val[seq[i]] {
				return fmt.Sprintf("value:asc puts %q (total %d) before %q (total %d)", seq[i-1], val[seq[i-1]], seq[i], val[seq[i]])
			}
		}
		c.Count("sem_value", 1)
	case "text":
		for _, k := range seq {
			if !lowerAlnum.MatchString(k) {
				return ""
			}
		}
		for i := 1; i < len(seq); i++ {
			if !(seq[i-1] < seq[i]) {
				return fmt.Sprintf("alphanumeric order puts %q before %q", seq[i-1], seq[i])
			}
		}
		c.Count("sem_text", 1)
	case "numeric":
		return semNumbers(c, seq)
	case "contextual":
		if m := semCalendar(c, seq); m != "" {
			return m
		}
		if wd, mo, _ := calSplit(seq); len(mo) == 0 && len(wd) == 0 {
			// documented: falls back to numeric
			return semNumbers(c, seq)
		}
	case "date":
		if times, ok := pureDates(seq); ok {
			for i := 1; i < len(seq); i++ {
				if times[i].Before(times[i-1]) {
					return fmt.Sprintf("%q (%s) is placed before the earlier %q (%s)", seq[i-1], times[i-1].UTC().Format("2006-01-02T15:04:05Z"), seq[i], times[i].UTC().Format("2006-01-02T15:04:05Z"))
				}
			}
			c.Count("sem_date", 1)
			return ""
		}
		for _, k := range seq {
			if hasDigit(k) {
				return ""
			}
		}
		// documented: falls back to contextual
		return semCalendar(c, seq)
	}
	return ""
}

// numbers by magnitude: every pair of plain decimal numbers with different
// float64 values must be in ascending magnitude, wherever the other keys go.
func semNumbers(c *run.Ctx, seq []string) string {
	last := ""
	lastV := 0.0
	have := false
	cnt := 0
	for _, k := range seq {
		v, ok := plainNumber(k)
		if !ok {
			continue
		}
		cnt++
		if have && v < lastV {
			return fmt.Sprintf("number %q is placed before the smaller number %q", last, k)
		}
		if !have || v > lastV {
			last, lastV, have = k, v, true
		}
	}
	if cnt >= 2 {
		c.Count("sem_numeric", 1)
	}
	return ""
}

// calendar position for a pure weekday or pure month set. The recognisers include the common longer abbreviations
// (tues, thur, thurs, sept): they name the same days / month, so they take that day's / month's position.
// Weekdays: Monday..Saturday must be in this order; Sunday may open or close
// the week (both conventions exist), but must not be inside.
func semCalendar(c *run.Ctx, seq []string) string {
	if len(seq) < 2 {
		return ""
	}
	allWd, allMo := true, true
	for _, k := range seq {
		if _, ok := weekdayPos(k, false); !ok {
			allWd = false
		}
		if _, ok := monthPos(k, false); !ok {
			allMo = false
		}
	}
	if allMo {
		for i := 1; i < len(seq); i++ {
			a, _ := monthPos(seq[i-1], false)
			b, _ := monthPos(seq[i], false)
			if a > b {
				return fmt.Sprintf("month %q is placed before %q", seq[i-1], seq[i])
			}
		}
		c.Count("sem_months", 1)
		return ""
	}
	if allWd {
		var rest []string
		sundayInside := false
		for _, k := range seq {
			if p, _ := weekdayPos(k, false); p != 0 {
				rest = append(rest, k)
			}
		}
		// locate Sundays: positions must all be before the first non-Sunday or after the last one
		firstNon, lastNon := -1, -1
		for i, k := range seq {
			if p, _ := weekdayPos(k, false); p != 0 {
				if firstNon < 0 {
					firstNon = i
				}
				lastNon = i
			}
		}
		before, after := 0, 0
		for i, k := range seq {
			if p, _ := weekdayPos(k, false); p == 0 && firstNon >= 0 {
				if i > firstNon && i < lastNon {
					sundayInside = true
				}
				if i < firstNon {
					before++
				}
				if i > lastNon {
					after++
				}
			}
		}
		if sundayInside || (before > 0 && after > 0) {
			return "Sunday is placed inside the week / on both ends"
		}
		for i := 1; i < len(rest); i++ {
			a, _ := weekdayPos(rest[i-1], false)
			b, _ := weekdayPos(rest[i], false)
			if a > b {
				return fmt.Sprintf("weekday %q is placed before %q", rest[i-1], rest[i])
			}
		}
		c.Count("sem_weekdays", 1)
	}
	return ""
}

// ---------------------------------------------------------------- axiom case

// runAxiom: strict-weak-order axioms of the stateless comparators over every
// pair and triple of a key pool: for distinct keys exactly one of less(a,b),
// less(b,a); no 3-cycles; the same answers when asked again.
func runAxiom(c *run.Ctx, cs *Case) {
	items := cs.items()
	n := len(items)
	s := build(cs.Spec)
	mat := func(s sorting.NameValueSorter) [][]bool {
		L := make([][]bool, n)
		for i := range L {
			L[i] = make([]bool, n)
			for j := range L[i] {
				if i != j {
					L[i][j] = s(sorting.NameValuePair{Name: items[i].K, Value: items[i].V}, sorting.NameValuePair{Name: items[j].K, Value: items[j].V})
				}
			}
		}
		return L
	}
	L := mat(s)
	L2 := mat(build(cs.Spec))
	sub := func(idx ...int) ([]string, []int64) {
		var ks []string
		var vs []int64
		for _, i := range idx {
			ks = append(ks, items[i].K)
			vs = append(vs, items[i].V)
		}
		return ks, vs
	}
	badPair := make([][]bool, n)
	for i := range badPair {
		badPair[i] = make([]bool, n)
	}
	var pairs, triples, skipped int64
	for i := 0; i < n; i++ {
		for j := i + 1; j < n; j++ {
			ks, vs := sub(i, j)
			if L[i][j] != L2[i][j] || L[j][i] != L2[j][i] {
				c.Violation(fingerprint(c, "axiom-repeat", cs.Mode, ks, vs),
					fmt.Sprintf("--sort %s: less(%q,%q) answered differently when asked again", cs.Spec, items[i].K, items[j].K), &Case{Kind: "axiom", Mode: cs.Mode, Spec: cs.Spec, Keys: ks, Vals: vs})
				return
			}
			if L[i][j] == L[j][i] {
				badPair[i][j], badPair[j][i] = true, true
				if activeClass(c, cs.Mode, ks) != "" {
					skipped++
					continue
				}
				c.Violation(fingerprint(c, "axiom-pair", cs.Mode, ks, vs),
					fmt.Sprintf("--sort %s: for the distinct keys %q (value %d) and %q (value %d) less(a,b)=%v and less(b,a)=%v; exactly one must hold, otherwise their order follows the arrival order",
						cs.Spec, items[i].K, items[i].V, items[j].K, items[j].V, L[i][j], L[j][i]), &Case{Kind: "axiom", Mode: cs.Mode, Spec: cs.Spec, Keys: ks, Vals: vs})
				if c.Violations() >= 6 {
					return
				}
				continue
			}
			pairs++
		}
	}
	for i := 0; i < n; i++ {
		for j := i + 1; j < n; j++ {
			if badPair[i][j] {
				continue
			}
			for k := j + 1; k < n; k++ {
				if badPair[i][k] || badPair[j][k] {
					continue
				}
				cyc := (L[i][j] && L[j][k] && L[k][i]) || (L[j][i] && L[k][j] && L[i][k])
				if !cyc {
					triples++
					continue
				}
				ks, vs := sub(i, j, k)
				if activeClass(c, cs.Mode, ks) != "" {
					skipped++
					continue
				}
				c.Violation(fingerprint(c, "axiom-trans", cs.Mode, ks, vs),
					fmt.Sprintf("--sort %s: the pairwise decisions for %q, %q, %q form a cycle (not transitive): less(%q,%q)=%v less(%q,%q)=%v less(%q,%q)=%v",
						cs.Spec, items[i].K, items[j].K, items[k].K, items[i].K, items[j].K, L[i][j], items[j].K, items[k].K, L[j][k], items[i].K, items[k].K, L[i][k]),
					&Case{Kind: "axiom", Mode: cs.Mode, Spec: cs.Spec, Keys: ks, Vals: vs})
				if c.Violations() >= 6 {
					return
				}
			}
		}
	}
	c.Count("axiom_pairs", pairs)
	c.Count("axiom_triples", triples)
	c.Count("axiom_skipped_known_class", skipped)
}

func joinKeys(keys []string) string { return strings.Join(keys, "\x00") }

// runSmoke: sets inside a class that is recorded as a known finding are not
// judged for their order; sorting them must still hand back exactly the keys
// that went in.
func runSmoke(c *run.Ctx, cs *Case) {
	items := canonical(cs.items())
	want := names(items)
	asc, desc := spellings(cs.Mode)
	for _, spec := range []string{asc[0], desc[0]} {
		for _, in := range [][]kv{items, apply(permsFor(&Case{}, len(items))[0], items)} {
			got := sortWith(c, build(spec), in, false)
			c.Count("smoke_sorts", 1)
			g := append([]string(nil), got...)
			sort.Strings(g)
			if !sameSeq(g, want) {
				c.Violation("smoke:"+cs.Mode+":"+run.Hash64(joinKeys(want)),
					fmt.Sprintf("--sort %s on %s returned other keys than it was given: %s", spec, showItems(in, false), showSeq(got)), cs)
				return
			}
		}
	}
}
