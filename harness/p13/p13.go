// Package p13 decides C13: output ordering is a deterministic function of the
// aggregated data (pkg/aggregation/sorting, cmd/helpers/sorting.go and the
// aggregators that hand map-ordered items to the sorter).
package p13

import (
	"encoding/json"
	"fmt"
	"os"
	"sort"
	"strings"
	"time"

	"rare/cmd/helpers"
	"rare/pkg/aggregation/sorting"

	"verifharness/internal/reg"
	"verifharness/internal/run"
)

func init() { reg.Register("C13", Run) }

var modes = []string{"text", "numeric", "contextual", "date", "value"}

// Case is one C13 execution (all kinds share one JSON shape so that a replay
// file is self-describing).
type Case struct {
	Kind  string   `json:"kind"` // set | axiom | agg | cli | smoke
	Mode  string   `json:"mode"` // base sort mode
	Keys  []string `json:"keys"`
	Vals  []int64  `json:"vals"`
	Perms int      `json:"perms,omitempty"` // random permutations per spelling (all n! when n<=5)
	PSeed uint64   `json:"pseed,omitempty"`
	// agg / cli
	Target string `json:"target,omitempty"` // counter | subkey | table-rows | table-cols | group ; histo | table-rows | table-cols | bars
	Spec   string `json:"spec,omitempty"`   // full sort name for agg / cli / axiom
	Reps   int    `json:"reps,omitempty"`
	// pinned witness of a recorded defect class (fingerprint it must produce while the defect exists)
	Pinned string `json:"pinned,omitempty"`
}

type kv struct {
	K string
	V int64
}

func (cs *Case) items() []kv {
	out := make([]kv, len(cs.Keys))
	for i, k := range cs.Keys {
		out[i].K = k
		if i < len(cs.Vals) {
			out[i].V = cs.Vals[i]
		}
	}
	return out
}

func canonical(items []kv) []kv {
	out := append([]kv(nil), items...)
	sort.Slice(out, func(i, j int) bool { return out[i].K < out[j].K })
	return out
}

func names(items []kv) []string {
	out := make([]string, len(items))
	for i, it := range items {
		out[i] = it.K
	}
	return out
}

func sameSeq(a, b []string) bool {
	if len(a) != len(b) {
		return false
	}
	for i := range a {
		if a[i] != b[i] {
			return false
		}
	}
	return true
}

func reversed(a []string) []string {
	out := make([]string, len(a))
	for i := range a {
		out[len(a)-1-i] = a[i]
	}
	return out
}

// ---------------------------------------------------------------- the code under test

func build(spec string) sorting.NameValueSorter {
	s, err := helpers.BuildSorter(spec)
	if err != nil {
		panic("BuildSorter(" + spec + "): " + err.Error())
	}
	return s
}

// sortWith sorts a copy of items with the real sorting.Sort / sorting.SortBy
// (alternating, both are used by the aggregators) and returns the key sequence.
func sortWith(c *run.Ctx, s sorting.NameValueSorter, items []kv, by bool) []string {
	c.Count("sorts", 1)
	if by {
		arr := append([]kv(nil), items...)
		sorting.SortBy(arr, s, func(o kv) sorting.NameValuePair { return sorting.NameValuePair{Name: o.K, Value: o.V} })
		return names(arr)
	}
	arr := make([]sorting.NameValuePair, len(items))
	for i, it := range items {
		arr[i] = sorting.NameValuePair{Name: it.K, Value: it.V}
	}
	sorting.Sort(arr, s)
	out := make([]string, len(arr))
	for i := range arr {
		out[i] = arr[i].Name
	}
	return out
}

// spellings of one mode: ascending group and descending group (documented names only).
func spellings(mode string) (asc, desc []string) {
	if mode == "value" {
		return []string{"value:asc", "value:reverse"}, []string{"value", "value:desc"}
	}
	return []string{mode, mode + ":asc"}, []string{mode + ":desc", mode + ":reverse"}
}

// ---------------------------------------------------------------- fingerprints

// fingerprint: a set that belongs to a named narrow class is reported under
// "<mode>:<class>" (the first class that is an active known finding wins);
// every other failing set gets "<subcheck>:<mode>:<hash>".
func fingerprint(c *run.Ctx, sub, mode string, keys []string, vals []int64) string {
	cls := classesOf(mode, keys)
	for _, cl := range cls {
		if c.KnownActive(mode + ":" + cl) {
			return mode + ":" + cl
		}
	}
	if len(cls) > 0 {
		return mode + ":" + cls[0]
	}
	ks := append([]string(nil), keys...)
	sort.Strings(ks)
	return sub + ":" + mode + ":" + run.Hash64(strings.Join(ks, "\x00"), fmt.Sprint(vals))
}

func activeClass(c *run.Ctx, mode string, keys []string) string {
	for _, cl := range classesOf(mode, keys) {
		if c.KnownActive(mode + ":" + cl) {
			return cl
		}
	}
	return ""
}

func showItems(items []kv, withVals bool) string {
	var sb strings.Builder
	sb.WriteByte('[')
	for i, it := range items {
		if i > 0 {
			sb.WriteByte(' ')
		}
		if i >= 48 {
			fmt.Fprintf(&sb, "…(%d)", len(items))
			break
		}
		if withVals {
			fmt.Fprintf(&sb, "%q=%d", it.K, it.V)
		} else {
			fmt.Fprintf(&sb, "%q", it.K)
		}
	}
	sb.WriteByte(']')
	return sb.String()
}

func showSeq(s []string) string {
	if len(s) > 48 {
		return fmt.Sprintf("%q…(%d)", s[:48], len(s))
	}
	return fmt.Sprintf("%q", s)
}

// ---------------------------------------------------------------- Run

func Run(c *run.Ctx) {
	if c.Replay != nil {
		var cs Case
		if err := json.Unmarshal(c.Replay, &cs); err != nil {
			c.Inconclusive("bad replay: " + err.Error())
			return
		}
		c.Begin(&cs, 120*time.Second)
		runCase(c, &cs)
		c.End()
		return
	}
	only := os.Getenv("VERIF_C13_ONLY") // debugging aid: run one case kind (pinned|set|axiom|agg|cli)
	on := func(k string) bool { return only == "" || only == k }
	if on("pinned") {
		pinned(c)
	}
	if on("set") {
		sets(c)
	}
	if on("axiom") {
		axioms(c)
	}
	if on("agg") {
		aggs(c)
	}
	if on("cli") {
		clis(c)
	}
}

// hostZones: the order of keys is a function of the keys, not of the zone the process happens to run in: date cases run
// with time.Local set to one of these (chosen by the key set, so a replay makes the same choice); the CLI cases pass it
// to rare as TZ.
var hostZones = []string{"", "America/New_York", "Pacific/Auckland", "Europe/London", "Asia/Kolkata"}

func hostFor(cs *Case) string {
	if cs.Mode != "date" {
		return ""
	}
	var h uint32 = 2166136261
	for _, k := range cs.Keys {
		for i := 0; i < len(k); i++ {
			h = (h ^ uint32(k[i])) * 16777619
		}
	}
	return hostZones[h%uint32(len(hostZones))]
}

func runCase(c *run.Ctx, cs *Case) {
	if host := hostFor(cs); host != "" {
		if l, err := time.LoadLocation(host); err == nil {
			old := time.Local
			time.Local = l
			c.Count("date_cases_in_a_non_utc_process_zone", 1)
			defer func() { time.Local = old }()
		}
	}
	p, val, stack := run.Guard(func() {
		switch cs.Kind {
		case "set":
			runSet(c, cs)
		case "axiom":
			runAxiom(c, cs)
		case "smoke":
			runSmoke(c, cs)
		case "agg":
			runAgg(c, cs)
		case "cli":
			runCLI(c, cs)
		default:
			c.Inconclusive("unknown case kind " + cs.Kind)
		}
	})
	if p {
		c.Violation("panic:"+cs.Mode+":"+run.Hash64(strings.Join(cs.Keys, "\x00")),
			fmt.Sprintf("panic while sorting mode=%s spec=%q keys=%s: %v\n%s", cs.Mode, cs.Spec, showItems(cs.items(), true), val, stack), cs)
	}
}

// ---------------------------------------------------------------- pinned witnesses

type witness struct {
	mode, class string
	keys        []string
}

// One minimal witness per recorded (mode, class). Always executed; silent once
// the defect is repaired (they stay as regression cases).
var witnesses = []witness{
	{"numeric", clNaN, []string{"1", "2", "nan"}},
	{"numeric", clEqualMag, []string{"1", "1.0", "2"}},
	{"numeric", clCycle, []string{"2", "10", "1a"}},
	{"contextual", clNaN, []string{"1", "2", "nan"}},
	{"contextual", clEqualMag, []string{"1", "1.0", "2"}},
	{"contextual", clCycle, []string{"2", "10", "1a"}},
	{"contextual", clAlias, []string{"Mon", "monday", "tue"}},
	{"contextual", clCalMixed, []string{"wed", "thu", "abc"}},
	{"date", clAlias, []string{"Mon", "monday", "tue"}},
	{"date", clCalMixed, []string{"wed", "thu", "abc"}},
	{"date", clDateMix, []string{"2023-5-7", "2023-10-12", "2023-10-1"}},
	{"date", clInstant, []string{"2023-10-29T01:30:00+01:00", "2023-10-29T02:30:00+02:00", "2023-10-29T03:00:00+02:00"}},
}

func pinned(c *run.Ctx) {
	for i, w := range witnesses {
		if !c.Mine(i) {
			continue
		}
		cs := &Case{Kind: "set", Mode: w.mode, Keys: w.keys, Vals: make([]int64, len(w.keys)), Pinned: w.mode + ":" + w.class}
		for j := range cs.Vals {
			cs.Vals[j] = int64(j%2 + 1)
		}
		found := false
		for _, cl := range classesOf(w.mode, w.keys) {
			if cl == w.class {
				found = true
			}
		}
		if !found {
			c.Inconclusive(fmt.Sprintf("harness bug: pinned witness %v is not classified as %s:%s", w.keys, w.mode, w.class))
			continue
		}
		c.Begin(cs, 60*time.Second)
		before := c.Violations()
		runCase(c, cs)
		_ = before
		c.Count("pinned_witnesses", 1)
		c.End()
	}
}
