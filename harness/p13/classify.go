package p13

// Independent recognisers (numbers, calendar names, date layouts) written from
// the documentation and the Go standard library only, the reference orders
// derived from them, and the classifier that names the narrow key-set class a
// failing set belongs to (used for fingerprints and, while a class is listed
// as a known finding, to keep the generator out of exactly that class).

import (
	"regexp"
	"sort"
	"strconv"
	"strings"
	"time"
)

// ---------------------------------------------------------------- numbers

// floatOf: is the key something a float parser reads as a number? Used only to
// NAME the class of a failing set (NaN key, equal magnitudes, number/text
// cycle), never for a verdict.
func floatOf(s string) (float64, bool) {
	v, err := strconv.ParseFloat(s, 64)
	return v, err == nil
}

// plainNumber: keys every reader calls a number (optional sign, decimal digits,
// optional fraction, optional exponent). Only these are judged for "numeric
// orders numbers by magnitude".
var plainNumberRe = regexp.MustCompile(`^[+-]?([0-9]+(\.[0-9]*)?|\.[0-9]+)([eE][+-]?[0-9]+)?$`)

func plainNumber(s string) (float64, bool) {
	if !plainNumberRe.MatchString(s) {
		return 0, false
	}
	v, err := strconv.ParseFloat(s, 64)
	if err != nil || v != v || v > 1e300 || v < -1e300 {
		return 0, false
	}
	return v, true
}

func hasDigit(s string) bool {
	for i := 0; i < len(s); i++ {
		if s[i] >= '0' && s[i] <= '9' {
			return true
		}
	}
	return false
}

// ---------------------------------------------------------------- calendar names

// position tables built from the Go standard library names.
// strict = full names and three-letter abbreviations (what everybody agrees on);
// broad additionally has the common longer abbreviations (tues, thur, thurs, sept).
var (
	wdStrict = map[string]int{}
	wdBroad  = map[string]int{}
	moStrict = map[string]int{}
	moBroad  = map[string]int{}
)

func init() {
	for d := time.Sunday; d <= time.Saturday; d++ {
		n := strings.ToLower(d.String())
		wdStrict[n] = int(d)
		wdStrict[n[:3]] = int(d)
	}
	for m := time.January; m <= time.December; m++ {
		n := strings.ToLower(m.String())
		moStrict[n] = int(m)
		moStrict[n[:3]] = int(m)
	}
	for k, v := range wdStrict {
		wdBroad[k] = v
	}
	for k, v := range moStrict {
		moBroad[k] = v
	}
	wdBroad["tues"] = int(time.Tuesday)
	wdBroad["thur"] = int(time.Thursday)
	wdBroad["thurs"] = int(time.Thursday)
	moBroad["sept"] = int(time.September)
}

func asciiLower(s string) string {
	b := []byte(s)
	for i, ch := range b {
		if ch >= 'A' && ch <= 'Z' {
			b[i] = ch + 32
		}
	}
	return string(b)
}

func weekdayPos(s string, strict bool) (int, bool) {
	m := wdBroad
	if strict {
		m = wdStrict
	}
	v, ok := m[asciiLower(s)]
	return v, ok
}

func monthPos(s string, strict bool) (int, bool) {
	m := moBroad
	if strict {
		m = moStrict
	}
	v, ok := m[asciiLower(s)]
	return v, ok
}

// ---------------------------------------------------------------- dates

// Fixed-width, zero-padded layouts. A key belongs to a layout iff it parses
// AND formats back to itself.
var dateLayouts = []string{
	"2006-01-02",
	"2006-01-02 15:04:05",
	"2006-01-02T15:04:05Z",
	"2006/01/02",
	"01/02/2006",
	"02 Jan 2006",
	"02/Jan/2006:15:04:05 -0700",
	"2006-01-02T15:04:05-07:00",
	"20060102",
	"2006-01",
	"2006",
}

func dateOf(s string) (layout int, t time.Time, ok bool) {
	if len(s) < 4 || len(s) > 32 || !hasDigit(s) {
		return -1, time.Time{}, false
	}
	for i, l := range dateLayouts {
		if len(l) != len(s) {
			continue
		}
		t, err := time.Parse(l, s)
		if err != nil {
			continue
		}
		if t.Format(l) != s {
			continue
		}
		return i, t, true
	}
	return -1, time.Time{}, false
}

// pureDates: all keys are dates of one layout.
func pureDates(keys []string) (times []time.Time, ok bool) {
	if len(keys) == 0 {
		return nil, false
	}
	first := -2
	for _, k := range keys {
		l, t, ok := dateOf(k)
		if !ok {
			return nil, false
		}
		if first == -2 {
			first = l
		} else if l != first {
			return nil, false
		}
		times = append(times, t)
	}
	return times, true
}

// ---------------------------------------------------------------- classes

const (
	clNaN      = "nan-key"                       // a key reads as NaN next to another number-like key
	clEqualMag = "equal-magnitude-spellings"     // two distinct keys read as the same float64 (1 / 1.0 / 01 / 1e0, 0 / -0, inf / Inf)
	clCycle    = "number-text-cycle"             // numbers n1<n2 by magnitude, n2<t<n1 bytewise for a non-number t
	clAlias    = "calendar-alias-tie"            // pure weekday (or month) set with two spellings of one position (Mon / monday)
	clCalMixed = "calendar-names-mixed"          // weekday or month names together with other keys, or weekdays together with months
	clDateMix  = "digit-keys-not-one-layout"     // date mode: number-like / digit-bearing keys that are not all dates of one layout
	clInstant  = "same-instant-tie"              // pure date set where two spellings are the same instant (different UTC offsets)
)

// numClasses: classes of the numeric comparison for a key set.
func numClasses(keys []string) []string {
	var out []string
	type nk struct {
		k string
		v float64
	}
	var nums []nk
	var texts []string
	nan := 0
	for _, k := range keys {
		if v, ok := floatOf(k); ok {
			if v != v {
				nan++
			}
			nums = append(nums, nk{k, v})
		} else {
			texts = append(texts, k)
		}
	}
	if nan > 0 && len(nums) >= 2 {
		out = append(out, clNaN)
	}
	eq := false
	for i := 0; i < len(nums) && !eq; i++ {
		for j := i + 1; j < len(nums); j++ {
			if nums[i].v == nums[j].v {
				eq = true
				break
			}
		}
	}
	if eq {
		out = append(out, clEqualMag)
	}
	if len(cycleTexts(keys)) > 0 {
		out = append(out, clCycle)
	}
	return out
}

// cycleTexts returns the non-number keys t for which numbers n1 <mag n2 with
// n2 <bytes t <bytes n1 exist.
func cycleTexts(keys []string) []string {
	type nk struct {
		k string
		v float64
	}
	var nums []nk
	var texts []string
	for _, k := range keys {
		if v, ok := floatOf(k); ok {
			if v == v {
				nums = append(nums, nk{k, v})
			}
		} else {
			texts = append(texts, k)
		}
	}
	var out []string
	for _, t := range texts {
		hit := false
		for i := 0; i < len(nums) && !hit; i++ {
			for j := 0; j < len(nums); j++ {
				if nums[i].v < nums[j].v && nums[j].k < t && t < nums[i].k {
					hit = true
					break
				}
			}
		}
		if hit {
			out = append(out, t)
		}
	}
	return out
}

// calendar split of a set (broad recognisers).
func calSplit(keys []string) (wd, mo, other []string) {
	for _, k := range keys {
		if _, ok := weekdayPos(k, false); ok {
			wd = append(wd, k)
		} else if _, ok := monthPos(k, false); ok {
			mo = append(mo, k)
		} else {
			other = append(other, k)
		}
	}
	return
}

func ctxClasses(keys []string) []string {
	wd, mo, other := calSplit(keys)
	if len(wd) == 0 && len(mo) == 0 {
		return numClasses(keys)
	}
	if len(other) == 0 && (len(wd) == 0 || len(mo) == 0) {
		// pure
		seen := map[int]bool{}
		for _, k := range keys {
			var p int
			if len(wd) > 0 {
				p, _ = weekdayPos(k, false)
			} else {
				p, _ = monthPos(k, false)
			}
			if seen[p] {
				return []string{clAlias}
			}
			seen[p] = true
		}
		return nil
	}
	return []string{clCalMixed}
}

func dateClasses(keys []string) []string {
	if times, ok := pureDates(keys); ok {
		for i := range times {
			for j := i + 1; j < len(times); j++ {
				if times[i].Equal(times[j]) {
					return []string{clInstant}
				}
			}
		}
		return nil
	}
	for _, k := range keys {
		if hasDigit(k) {
			return []string{clDateMix}
		}
		if _, ok := floatOf(k); ok {
			return []string{clDateMix}
		}
	}
	return ctxClasses(keys)
}

// classesOf lists the known-risk classes the key set belongs to under a base mode.
func classesOf(mode string, keys []string) []string {
	switch mode {
	case "numeric":
		return numClasses(keys)
	case "contextual":
		return ctxClasses(keys)
	case "date":
		return dateClasses(keys)
	}
	return nil // text, value: every violation is unexpected
}

// ---------------------------------------------------------------- repair

// dropClass removes the fewest keys that take the set out of one class.
func dropClass(mode, class string, keys []string) []string {
	sorted := append([]string(nil), keys...)
	sort.Strings(sorted)
	keep := func(pred func(k string) bool) []string {
		var out []string
		for _, k := range keys {
			if pred(k) {
				out = append(out, k)
			}
		}
		return out
	}
	switch class {
	case clNaN:
		return keep(func(k string) bool { v, ok := floatOf(k); return !ok || v == v })
	case clEqualMag:
		first := map[float64]string{}
		for _, k := range sorted {
			if v, ok := floatOf(k); ok && v == v {
				if _, dup := first[v]; !dup {
					first[v] = k
				}
			}
		}
		return keep(func(k string) bool {
			v, ok := floatOf(k)
			if !ok || v != v {
				return true
			}
			return first[v] == k
		})
	case clCycle:
		bad := map[string]bool{}
		for _, t := range cycleTexts(keys) {
			bad[t] = true
		}
		return keep(func(k string) bool { return !bad[k] })
	case clAlias:
		first := map[int]string{}
		pos := func(k string) int {
			if p, ok := weekdayPos(k, false); ok {
				return p
			}
			p, _ := monthPos(k, false)
			return 100 + p
		}
		for _, k := range sorted {
			if _, dup := first[pos(k)]; !dup {
				first[pos(k)] = k
			}
		}
		return keep(func(k string) bool { return first[pos(k)] == k })
	case clCalMixed:
		wd, mo, other := calSplit(keys)
		best := wd
		if len(mo) > len(best) {
			best = mo
		}
		if len(other) > len(best) {
			best = other
		}
		return best
	case clDateMix:
		// keep the most frequent layout if it has >= 2 keys, else drop every number-like key
		cnt := map[int]int{}
		for _, k := range keys {
			if l, _, ok := dateOf(k); ok {
				cnt[l]++
			}
		}
		bestL, bestN := -1, 0
		for l := range dateLayouts {
			if cnt[l] > bestN {
				bestL, bestN = l, cnt[l]
			}
		}
		if bestN >= 2 {
			return keep(func(k string) bool { l, _, ok := dateOf(k); return ok && l == bestL })
		}
		return keep(func(k string) bool {
			if hasDigit(k) {
				return false
			}
			_, ok := floatOf(k)
			return !ok
		})
	case clInstant:
		var seen []time.Time
		return keep(func(k string) bool {
			_, t, _ := dateOf(k)
			for _, s := range seen {
				if s.Equal(t) {
					return false
				}
			}
			seen = append(seen, t)
			return true
		})
	}
	return keys
}
