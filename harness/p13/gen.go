package p13

import (
	"fmt"
	"math"
	"strconv"
	"strings"
	"time"

	"verifharness/internal/run"
)

// ---------------------------------------------------------------- key pools

var textPool = []string{
	"a", "b", "c", "ab", "abc", "abd", "A", "B", "Z", "z", "aa", "aB", "Ab", "alpha", "beta", "gamma", "GET", "POST", "PUT", "get",
	"/", "/index.html", "/api/v1", "/api/v10", "/api/v2", "error", "warn", "info", "ERROR", "Error", "-", "_", "--", "+", ".", "e", "x",
	"é", "ñandú", "日本", "z̈", "x y", "  lead", " ", "", "foo-bar", "foo_bar", "foo.bar", "N/A", "null", "true", "unknown", "other", "(none)",
	"march-madness", "mayo", "monk", "sunny", "marc", "june bug", "friday!", "wedge", "decade", "novel", "octo", "satin",
}

var numTextPool = []string{
	"1a", "a1", "10x", "2b", "3rd", "v2", "v10", "v1.2.3", "v1.10.0", "0x10", "1,000", "1 000", "12abc", "1e", "E5", "1-2", "1/2", "1:2",
	"10.0.0.1", "10.0.0.10", "10.0.0.2", "192.168.1.1", "1.2.3", "5xx", "4xx", "2xx", "100%", "50%", "5%", "$5", "$10", "1k", "10k", "2M",
	"-", "+", ".", "-a", "+a", "1e400", "١", "１", "0b1", "0o7", "1..2", "1.2.", "--1", "+-1", "1+", "1_", "_1",
}

var specialNums = []string{
	"0", "-0", "+0", "0.0", "00", "-0.0", "1", "1.0", "01", "1e0", "+1", "1.", "1.00", "001", "10", "1e1", "10.0", "010", "100", "1e2", "1E2",
	".5", "0.5", "0.50", "5e-1", "-.5", "-0.5", "1.5", "-1.5", "2", "-2", "3", "9", "11", "20", "21", "99", "101", "1000", "1_000", "1e3",
	"0x1p4", "16", "0x1p-1", "inf", "-inf", "+inf", "Inf", "Infinity", "-Infinity", "nan", "NaN", "NAN",
	"9007199254740992", "9007199254740993", "9007199254740994", "18446744073709551615", "18446744073709551616", "1e19", "1e-400", "1e308", "2e308",
	"9223372036854775807", "-9223372036854775808", "0.1", "0.10", "0.3", "0.30000000000000004", "3.14", "3.140", "2.718",
}

var realisticNums = []string{"200", "201", "204", "301", "302", "304", "400", "401", "403", "404", "418", "499", "500", "502", "503", "504",
	"80", "443", "8080", "22", "0", "1", "2", "3", "4", "5", "6", "7", "8", "9", "10", "11", "12", "13", "14", "15", "16", "17", "18", "19", "20", "21", "22", "23"}

var altWeekdays = []string{"tues", "thur", "thurs"}
var altMonths = []string{"sept"}

func caseVariant(r *run.Rand, s string, style int) string {
	switch style {
	case 0:
		return strings.ToLower(s)
	case 1:
		return strings.ToUpper(s[:1]) + strings.ToLower(s[1:])
	case 2:
		return strings.ToUpper(s)
	}
	// per key
	return caseVariant(r, s, r.Intn(3))
}

func weekdayName(r *run.Rand, style int, allowAlt bool) string {
	d := time.Weekday(r.Intn(7))
	n := d.String()
	switch r.Intn(5) {
	case 0, 1:
		n = n[:3]
	case 2:
		if allowAlt && r.Intn(3) == 0 {
			n = r.Pick(altWeekdays)
		}
	}
	return caseVariant(r, n, style)
}

func monthName(r *run.Rand, style int, allowAlt bool) string {
	m := time.Month(1 + r.Intn(12))
	n := m.String()
	switch r.Intn(5) {
	case 0, 1:
		n = n[:3]
	case 2:
		if allowAlt && r.Intn(6) == 0 {
			n = r.Pick(altMonths)
		}
	}
	return caseVariant(r, n, style)
}

func randInt(r *run.Rand) string {
	switch r.Intn(6) {
	case 0:
		return strconv.Itoa(r.Range(0, 12))
	case 1:
		return strconv.Itoa(r.Range(-20, 120))
	case 2:
		return strconv.Itoa(r.Range(0, 100000))
	case 3:
		return strconv.FormatInt(r.I64()>>uint(r.Intn(60)), 10)
	case 4:
		return r.Pick(realisticNums)
	}
	return strconv.Itoa(r.Range(95, 1005))
}

func randDecimal(r *run.Rand) string {
	switch r.Intn(4) {
	case 0:
		return fmt.Sprintf("%d.%d", r.Range(-3, 30), r.Range(0, 99))
	case 1:
		return fmt.Sprintf("%.*f", r.Range(0, 4), (r.Float()-0.3)*math.Pow(10, float64(r.Range(0, 6))))
	case 2:
		return fmt.Sprintf("%de%d", r.Range(1, 9), r.Range(-3, 6))
	}
	return fmt.Sprintf("%g", (r.Float()-0.5)*1000)
}

// spelled: another spelling of the integer i
func spelled(r *run.Rand, i int) string {
	switch r.Intn(8) {
	case 0:
		return fmt.Sprintf("%d.0", i)
	case 1:
		return fmt.Sprintf("0%d", i)
	case 2:
		return fmt.Sprintf("%de0", i)
	case 3:
		return fmt.Sprintf("+%d", i)
	case 4:
		return fmt.Sprintf("%d.", i)
	case 5:
		return fmt.Sprintf("%d.00", i)
	}
	return strconv.Itoa(i)
}

func randWord(r *run.Rand) string {
	if r.Intn(3) > 0 {
		return r.Pick(textPool)
	}
	n := r.Range(1, 8)
	alpha := "abcdefghijklmnopqrstuvwxyzABCXYZ_-. "
	if r.Intn(3) == 0 {
		alpha = "abc"
	}
	b := make([]byte, n)
	for i := range b {
		b[i] = alpha[r.Intn(len(alpha))]
	}
	return string(b)
}

var offsets = []int{0, 0, 3600, 7200, -5 * 3600, -7 * 3600, 5*3600 + 1800}

func randTime(r *run.Rand, base time.Time, spread int) time.Time {
	var d time.Duration
	switch spread {
	case 0: // same day
		d = time.Duration(r.Range(0, 86399)) * time.Second
	case 1: // same year
		d = time.Duration(r.Range(0, 365*86400)) * time.Second
	case 3: // the first five hours of the day
		d = time.Duration(r.Range(0, 5*3600-1)) * time.Second
	default: // decades
		d = time.Duration(r.Range(-20*365*86400, 14*365*86400)) * time.Second
	}
	return base.Add(d)
}

func dateKeys(r *run.Rand, n int, layout int, sameInstantPairs bool) []string {
	base := time.Date(1990+r.Intn(40), time.Month(1+r.Intn(12)), 1+r.Intn(28), r.Intn(24), r.Intn(60), r.Intn(60), 0, time.UTC)
	spread := r.Intn(3)
	l := dateLayouts[layout]
	hasZone := strings.Contains(l, "-07")
	if !hasZone && r.Intn(4) == 0 {
		// wall-clock times in the small hours of a day on which some zones skip or repeat an hour (US, New Zealand,
		// Europe, 2021): keys without a zone are plain calendar times, whatever zone the process runs in
		d := [][3]int{{2021, 3, 14}, {2021, 9, 26}, {2021, 3, 28}, {2021, 11, 7}, {2021, 4, 4}, {2021, 10, 31}}[r.Intn(6)]
		base = time.Date(d[0], time.Month(d[1]), d[2], 0, 0, 0, 0, time.UTC)
		spread = 3
	}
	var out []string
	var last time.Time
	for i := 0; i < n; i++ {
		t := randTime(r, base, spread)
		if sameInstantPairs && hasZone && i > 0 && r.Intn(4) == 0 {
			t = last // same instant, (probably) another offset
		}
		last = t
		if hasZone {
			off := offsets[r.Intn(len(offsets))]
			t = t.In(time.FixedZone("", off))
		}
		out = append(out, t.Format(l))
	}
	return out
}

var unpaddedLayouts = []string{"2006-1-2", "1/2/2006", "2 Jan 2006", "Jan 2, 2006", "2006-01-02 15:04", "Jan _2 15:04:05", "15:04:05", "15:04", "January 2, 2006", "Mon Jan _2 15:04:05 2006", "02.01.2006", "2.1.2006"}

func looseDateKeys(r *run.Rand, n int) []string {
	base := time.Date(1990+r.Intn(40), time.Month(1+r.Intn(12)), 1+r.Intn(28), r.Intn(24), r.Intn(60), r.Intn(60), 0, time.UTC)
	spread := r.Intn(3)
	var out []string
	nl := r.Range(1, 3)
	var ls []string
	for i := 0; i < nl; i++ {
		if r.Bool() {
			ls = append(ls, r.Pick(unpaddedLayouts))
		} else {
			ls = append(ls, dateLayouts[r.Intn(len(dateLayouts))])
		}
	}
	for i := 0; i < n; i++ {
		out = append(out, randTime(r, base, spread).Format(r.Pick(ls)))
	}
	return out
}

// ---------------------------------------------------------------- recipes

const (
	rInts = iota
	rSpellings
	rText
	rNumText
	rWeekdays
	rMonths
	rCalMixed
	rDates
	rLooseDates
	rEverything
	rRealistic
	rDecimals
	rAlnum
	nRecipes
)

var recipeNames = [...]string{"ints", "num-spellings", "text", "num+text", "weekdays", "months", "calendar-mixed", "dates-one-layout", "dates-loose", "everything", "realistic", "decimals", "lower-alnum"}

// weights per mode
var recipeWeights = map[string][nRecipes]int{
	//             ints spel text numt wkd  mon  calm date loos evry real deci alnum
	"text":       {2, 1, 4, 3, 1, 1, 1, 1, 1, 3, 2, 1, 4},
	"value":      {2, 1, 4, 2, 1, 1, 1, 1, 1, 2, 3, 1, 1},
	"numeric":    {4, 4, 2, 5, 0, 0, 1, 0, 0, 3, 3, 3, 2},
	"contextual": {2, 2, 2, 3, 5, 5, 4, 0, 0, 2, 1, 1, 1},
	"date":       {1, 1, 2, 1, 2, 2, 2, 10, 4, 2, 0, 1, 0},
}

func pickRecipe(r *run.Rand, mode string) int {
	w := recipeWeights[mode]
	tot := 0
	for _, x := range w {
		tot += x
	}
	v := r.Intn(tot)
	for i, x := range w {
		if v < x {
			return i
		}
		v -= x
	}
	return rText
}

func sizeOf(r *run.Rand, max int) int {
	switch r.Intn(10) {
	case 0, 1, 2:
		return r.Range(2, 5) // every permutation is tried
	case 3, 4, 5:
		return r.Range(6, 12)
	case 6, 7:
		return r.Range(13, 24)
	}
	return r.Range(13, max)
}

func genRecipe(r *run.Rand, recipe, n int) []string {
	var out []string
	add := func(s string) { out = append(out, s) }
	style := r.Intn(4)
	switch recipe {
	case rInts:
		for i := 0; i < n; i++ {
			add(randInt(r))
		}
	case rDecimals:
		for i := 0; i < n; i++ {
			if r.Intn(3) == 0 {
				add(randInt(r))
			} else {
				add(randDecimal(r))
			}
		}
	case rSpellings:
		for i := 0; i < n; i++ {
			switch r.Intn(4) {
			case 0:
				add(r.Pick(specialNums))
			case 1:
				add(spelled(r, r.Range(0, 12)))
			case 2:
				add(randDecimal(r))
			default:
				add(randInt(r))
			}
		}
	case rText:
		for i := 0; i < n; i++ {
			add(randWord(r))
		}
	case rNumText:
		for i := 0; i < n; i++ {
			switch r.Intn(5) {
			case 0:
				add(r.Pick(numTextPool))
			case 1:
				add(randWord(r))
			case 2:
				add(strconv.Itoa(r.Range(0, 30)) + r.Pick([]string{"a", "x", "k", "%", "ms", " ms", "-", ""}))
			default:
				add(randInt(r))
			}
		}
	case rWeekdays:
		alt := r.Intn(3) == 0
		for i := 0; i < n; i++ {
			add(weekdayName(r, style, alt))
		}
	case rMonths:
		alt := r.Intn(3) == 0
		for i := 0; i < n; i++ {
			add(monthName(r, style, alt))
		}
	case rCalMixed:
		for i := 0; i < n; i++ {
			switch r.Intn(6) {
			case 0, 1:
				add(weekdayName(r, style, true))
			case 2, 3:
				add(monthName(r, style, true))
			case 4:
				add(randWord(r))
			default:
				add(randInt(r))
			}
		}
	case rDates:
		out = dateKeys(r, n, r.Intn(len(dateLayouts)), r.Intn(3) == 0)
	case rLooseDates:
		out = looseDateKeys(r, n)
		if r.Intn(3) == 0 {
			add(randWord(r))
		}
	case rAlnum:
		for i := 0; i < n; i++ {
			m := r.Range(1, 6)
			b := make([]byte, m)
			alpha := "0123456789abcxyz"
			for j := range b {
				b[j] = alpha[r.Intn(len(alpha))]
			}
			add(string(b))
		}
	case rRealistic:
		switch r.Intn(3) {
		case 0:
			for i := 0; i < n; i++ {
				add(r.Pick(realisticNums))
			}
		case 1:
			for i := 0; i < n; i++ {
				add(fmt.Sprintf("%d.%d.%d.%d", r.Range(9, 11), r.Range(0, 2), r.Range(0, 12), r.Range(1, 30)))
			}
		default:
			for i := 0; i < n; i++ {
				add(r.Pick([]string{"GET", "POST", "PUT", "DELETE", "HEAD"}) + " " + r.Pick([]string{"/", "/a", "/b", "/api/1", "/api/2", "/api/10"}))
			}
		}
	default: // everything
		for i := 0; i < n; i++ {
			sub := r.Intn(nRecipes)
			if sub == rEverything {
				sub = rText
			}
			out = append(out, genRecipe(r, sub, 1)...)
		}
	}
	return out
}

func dedupe(keys []string) []string {
	seen := map[string]bool{}
	var out []string
	for _, k := range keys {
		if !seen[k] && !strings.Contains(k, "\x00") {
			seen[k] = true
			out = append(out, k)
		}
	}
	return out
}

// genKeys: a key set for a mode; while a (mode, class) is an active known
// finding the set is taken out of exactly that class by dropping the fewest keys.
func genKeys(c *run.Ctx, r *run.Rand, mode string, max int) (keys []string, recipe int) {
	keys, recipe, _ = genKeysRaw(c, r, mode, max)
	return
}

// genKeysRaw also returns the set as generated when it had to be reduced.
func genKeysRaw(c *run.Ctx, r *run.Rand, mode string, max int) (keys []string, recipe int, raw []string) {
	for attempt := 0; attempt < 8; attempt++ {
		recipe = pickRecipe(r, mode)
		n := sizeOf(r, max)
		full := dedupe(genRecipe(r, recipe, n))
		keys = leaveKnown(c, mode, full)
		if len(keys) != len(full) {
			c.Count("sets_reduced_for_known_class", 1)
			raw = full
		}
		if len(keys) >= 2 {
			return keys, recipe, raw
		}
	}
	// always possible: plain text
	return []string{"a", "b", "c"}, rText, raw
}

func leaveKnown(c *run.Ctx, mode string, keys []string) []string {
	for iter := 0; iter < 40; iter++ {
		cl := activeClass(c, mode, keys)
		if cl == "" {
			return keys
		}
		keys = dropClass(mode, cl, keys)
	}
	return nil
}

func genVals(r *run.Rand, n int) []int64 {
	out := make([]int64, n)
	style := r.Intn(6)
	for i := range out {
		switch style {
		case 0:
			out[i] = 1
		case 1:
			out[i] = int64(r.Range(0, 3))
		case 2:
			out[i] = int64(r.Range(1, 1000))
		case 3:
			out[i] = int64(r.Range(-5, 5))
		case 4:
			out[i] = []int64{math.MaxInt64, math.MinInt64, 0, 1, -1, math.MaxInt64 - 1, math.MinInt64 + 1}[r.Intn(7)]
		default:
			out[i] = int64(i + 1) // all distinct
		}
	}
	return out
}

// ---------------------------------------------------------------- drivers

func sets(c *run.Ctx) {
	N := c.N(10000, 240000)
	for i := 0; i < N; i++ {
		if !c.Mine(i) {
			continue
		}
		r := c.Rand("set", i)
		mode := modes[i%len(modes)]
		keys, recipe, raw := genKeysRaw(c, r, mode, 40)
		if raw != nil {
			// the set as generated is in a class recorded as a known finding: its order is not
			// judged, but sorting it must still return the same keys (and not panic)
			sm := &Case{Kind: "smoke", Mode: mode, Keys: raw, Vals: genVals(r, len(raw))}
			c.Begin(sm, 120*time.Second)
			runCase(c, sm)
			c.End()
		}
		cs := &Case{Kind: "set", Mode: mode, Keys: keys, Vals: genVals(r, len(keys)), Perms: 24, PSeed: r.U64()}
		if r.Intn(16) == 0 {
			cs.Perms = 200
		}
		c.Begin(cs, 120*time.Second)
		if len(keys) >= 3 {
			ks := canonical(cs.items())
			c.Nontrivial("set", mode, joinKeys(names(ks)))
		}
		c.Count("sets", 1)
		c.Count("sets_"+mode, 1)
		c.SetAdd("recipes", mode+"/"+recipeNames[recipe])
		c.Max("max_set_size", int64(len(keys)))
		if i < 5 {
			c.Sample(map[string]any{"kind": "set", "mode": mode, "recipe": recipeNames[recipe], "keys": keys, "vals": cs.Vals, "perms": cs.Perms})
		}
		runCase(c, cs)
		c.End()
		if c.Violations() >= 6 {
			return
		}
	}
}

func axioms(c *run.Ctx) {
	N := c.N(400, 8000)
	stateless := []string{"text", "numeric", "value"}
	for i := 0; i < N; i++ {
		if !c.Mine(i) {
			continue
		}
		r := c.Rand("axiom", i)
		mode := stateless[i%3]
		asc, desc := spellings(mode)
		spec := append(append([]string{}, asc...), desc...)[r.Intn(4)]
		// a 60-key pool from several recipes (not reduced: known classes are skipped per pair / triple)
		var keys []string
		for len(keys) < 60 {
			rec := pickRecipe(r, mode)
			keys = dedupe(append(keys, genRecipe(r, rec, r.Range(4, 20))...))
		}
		keys = keys[:60]
		cs := &Case{Kind: "axiom", Mode: mode, Spec: spec, Keys: keys, Vals: genVals(r, len(keys))}
		c.Begin(cs, 120*time.Second)
		c.Nontrivial("axiom", spec, joinKeys(keys))
		c.Count("axiom_pools", 1)
		runCase(c, cs)
		c.End()
		if c.Violations() >= 6 {
			return
		}
	}
}
