package p13

import (
	"fmt"
	"strconv"
	"time"

	"rare/pkg/aggregation"
	"rare/pkg/aggregation/sorting"
	"rare/pkg/expressions/funclib"

	"verifharness/internal/run"
)

// runAgg: the real aggregators collect their items from Go maps (random
// iteration order) and hand them to the sorter. The row / column order they
// return must be the reference sequence for the aggregated (key, total) data,
// whatever the arrival order of the samples was.
func runAgg(c *run.Ctx, cs *Case) {
	items := canonical(cs.items())
	mode := cs.Mode
	want := sortWith(c, build(cs.Spec), items, false)
	reps := cs.Reps
	if reps <= 0 {
		reps = 4
	}
	fail := func(msg string) {
		c.Violation(fingerprint(c, "agg-"+cs.Target, mode, cs.Keys, cs.Vals), msg, cs)
	}
	for rep := 0; rep < reps; rep++ {
		r := run.NewRand(cs.PSeed, "agg", rep)
		// arrival: every key's total split into 1..3 increments, all increments shuffled
		type inc struct {
			k string
			v int64
		}
		var arr []inc
		for _, it := range items {
			parts := 1 + r.Intn(3)
			rest := it.V
			for p := 0; p < parts-1; p++ {
				d := int64(r.Range(-3, 3))
				// stay inside int64
				if (d > 0 && rest < -1<<62) || (d < 0 && rest > 1<<62) || rest > 1<<62 || rest < -1<<62 {
					d = 0
				}
				arr = append(arr, inc{it.K, d})
				rest -= d
			}
			arr = append(arr, inc{it.K, rest})
		}
		p := r.Perm(len(arr))
		var got []string
		limit := len(items)
		switch cs.Target {
		case "counter":
			agg := aggregation.NewCounter()
			for _, i := range p {
				agg.SampleValue(arr[i].k, arr[i].v)
			}
			if rep%2 == 1 && len(items) > 2 {
				limit = 1 + r.Intn(len(items)-1) // top-N must be a prefix of the full order
			}
			for _, it := range agg.ItemsSortedBy(limit, build(cs.Spec)) {
				got = append(got, it.Name)
			}
		case "subkey":
			agg := aggregation.NewSubKeyCounter()
			for _, i := range p {
				agg.SampleValue(arr[i].k, "k", arr[i].v)
			}
			for _, it := range agg.ItemsSorted(build(cs.Spec)) {
				got = append(got, it.Name)
			}
		case "table-rows":
			agg := aggregation.NewTable("\x00")
			cols := []string{"c1", "c2", "c3"}
			for _, i := range p {
				agg.SampleItem(cols[r.Intn(3)], arr[i].k, arr[i].v)
			}
			for _, row := range agg.OrderedRows(build(cs.Spec)) {
				got = append(got, row.Name())
			}
		case "table-cols":
			agg := aggregation.NewTable("\x00")
			rows := []string{"r1", "r2", "r3"}
			for _, i := range p {
				agg.SampleItem(arr[i].k, rows[r.Intn(3)], arr[i].v)
			}
			got = agg.OrderedColumns(build(cs.Spec))
		case "group":
			// `reduce` sorts its groups with ByContextual (optionally reversed)
			agg := aggregation.NewAccumulatingGroup(funclib.NewKeyBuilder())
			if err := agg.AddGroupExpr("k", "{0}"); err != nil {
				c.Inconclusive("AddGroupExpr: " + err.Error())
				return
			}
			if err := agg.AddDataExpr("n", "{sumi {.} 1}", "0"); err != nil {
				c.Inconclusive("AddDataExpr: " + err.Error())
				return
			}
			for _, i := range p {
				agg.Sample(arr[i].k)
			}
			s := sorting.ByContextual()
			if cs.Spec == "contextual:reverse" {
				s = sorting.Reverse(s)
			}
			c.Count("sorts", 1)
			for _, g := range agg.Groups(s) {
				got = append(got, string(g))
			}
		case "group-expr":
			// `reduce --sort <expr>`: groups ordered by an expression over their accumulators. The order is a
			// function of the aggregated data only: the same samples in another arrival order, with Groups()
			// called at intermediate points (what a periodic render does), must end in the order a fresh
			// aggregator gives that saw everything at once.
			mk := func() *aggregation.AccumulatingGroup {
				agg := aggregation.NewAccumulatingGroup(funclib.NewKeyBuilder())
				if agg.AddGroupExpr("k", "{1}") != nil || agg.AddDataExpr("n", "{sumi {.} {2}}", "0") != nil || agg.SetSort("{n}") != nil {
					return nil
				}
				return agg
			}
			s := sorting.ByContextual()
			if cs.Spec == "contextual:reverse" {
				s = sorting.Reverse(s)
			}
			ref, agg := mk(), mk()
			if ref == nil || agg == nil {
				c.Inconclusive("cannot build the accumulating group")
				return
			}
			for _, a := range arr {
				ref.Sample(a.k + "\x00" + strconv.FormatInt(a.v, 10))
			}
			want = want[:0]
			for _, g := range ref.Groups(s) {
				want = append(want, string(g))
			}
			looks := map[int]bool{}
			for n := r.Range(1, 3); n > 0 && len(p) > 1; n-- {
				looks[1+r.Intn(len(p)-1)] = true
			}
			for n, i := range p {
				if looks[n] {
					agg.Groups(s) // an intermediate render
					c.Count("intermediate_sorts", 1)
				}
				agg.Sample(arr[i].k + "\x00" + strconv.FormatInt(arr[i].v, 10))
			}
			for _, g := range agg.Groups(s) {
				got = append(got, string(g))
			}
			limit = len(want)
		default:
			c.Inconclusive("unknown agg target " + cs.Target)
			return
		}
		c.Count("sorts", 1)
		c.Count("agg_comparisons", 1)
		if !sameSeq(got, want[:limit]) {
			fail(fmt.Sprintf("%s with --sort %s: aggregated data %s must come out as %s (first %d), the aggregator returned %s (samples arrived in another order; items are collected from a map)",
				cs.Target, cs.Spec, showItems(items, true), showSeq(want), limit, showSeq(got)))
			return
		}
	}
}

var aggTargets = []string{"counter", "subkey", "table-rows", "table-cols", "group", "group-expr"}

func aggs(c *run.Ctx) {
	N := c.N(2500, 50000)
	for i := 0; i < N; i++ {
		if !c.Mine(i) {
			continue
		}
		r := c.Rand("agg", i)
		target := aggTargets[i%len(aggTargets)]
		mode := modes[(i/len(aggTargets))%len(modes)]
		var spec string
		if target == "group" || target == "group-expr" {
			mode = "contextual"
			spec = []string{"contextual", "contextual:reverse"}[r.Intn(2)]
		} else {
			asc, desc := spellings(mode)
			spec = append(append([]string{}, asc...), desc...)[r.Intn(4)]
		}
		keys, _ := genKeys(c, r, mode, 30)
		if target == "group" || target == "group-expr" {
			// an empty group key means "no group"
			var ks []string
			for _, k := range keys {
				if k != "" {
					ks = append(ks, k)
				}
			}
			keys = leaveKnown(c, mode, ks)
			if len(keys) < 2 {
				keys = []string{"mon", "tue", "wed"}
			}
		}
		vals := genVals(r, len(keys))
		if target == "group" {
			for j := range vals {
				vals[j] = 1
			}
		}
		cs := &Case{Kind: "agg", Mode: mode, Target: target, Spec: spec, Keys: keys, Vals: vals, PSeed: r.U64(), Reps: 4}
		c.Begin(cs, 120*time.Second)
		if len(keys) >= 3 {
			c.Nontrivial("agg", target, spec, joinKeys(names(canonical(cs.items()))))
		}
		c.Count("agg_cases", 1)
		c.SetAdd("agg_targets", target+"/"+mode)
		runCase(c, cs)
		c.End()
		if c.Violations() >= 6 {
			return
		}
	}
}
