// Package p10 decides C10: static optimisation and funcs-file functions never
// change the value of an expression (pkg/expressions keyBuilder / stageAnalysis
// / stdlib typed+static evaluation / stdmath simplify / funcfile loader+stage),
// sequentially and with concurrent evaluators.
//
// Every oracle is differential; no helper's particular value is assumed:
//
//	diff   optimised == unoptimised on the same contexts (+ a freshly compiled
//	       expression evaluated once == the long-lived one: no value may depend
//	       on earlier evaluations, unless the helper documents a cache)
//	lift   a template with constants == the same template with those constants
//	       supplied through the context (folded value == run-time value)
//	funcs  {name a b} through a loaded funcs file == the body with the
//	       arguments substituted, written inline
//	live   {time live} / {time delta} keep varying when optimised
//	conc   W goroutines sharing one compiled expression == sequential values
//	cli    `rare [--funcs f] expression [--no-optimize]` == in-process value
package p10

import (
	"encoding/json"
	"fmt"
	"os"
	"strings"
	"sync/atomic"
	"time"

	"rare/pkg/expressions"
	"rare/pkg/expressions/funcfile"
	"rare/pkg/expressions/stdlib"

	"verifharness/internal/reg"
	"verifharness/internal/run"
)

func init() { reg.Register("C10", Run) }

// Case is one replayable execution.
type Case struct {
	Kind     string   `json:"kind"`            // diff | lift | funcs | live | conc | cli | pin
	Tpl      string   `json:"tpl"`             // template under test (for funcs: the call site)
	Ref      string   `json:"ref,omitempty"`   // reference template (lifted / inlined)
	File     string   `json:"file,omitempty"`  // funcs file text
	Files    []string `json:"files,omitempty"` // cli: the same definitions spread over several funcs files (File is their concatenation)
	Ctxs     []Ctx    `json:"ctxs,omitempty"`
	RefCtxs  []Ctx    `json:"ref_ctxs,omitempty"` // contexts of the reference (lift); default Ctxs
	Stateful bool     `json:"stateful,omitempty"` // uses a helper documented to cache (time format detection)
	W        int      `json:"w,omitempty"`
	Rounds   int      `json:"rounds,omitempty"`
	Env      bool     `json:"env,omitempty"` // cli: funcs file through RARE_FUNC_FILES
	Class    string   `json:"class,omitempty"`
	Pin      string   `json:"pin,omitempty"`
	Cases    []*Case  `json:"cases,omitempty"` // live-batch
	Canon    string   `json:"canon,omitempty"` // funcs: the same definitions, one per line, no comments / continuations
	Flags    []string `json:"flags,omitempty"` // cliflags: global flags of the rare binary
}

// Known classes (see /verif/notes/C10.md).
const (
	fpLiveFuncs = "live:funcs-call-without-lookup-frozen"
	fpLiveRange = "live:range-subexpr-without-lookup-frozen"
	fpForParent = "for:subexpr-key-resolved-in-stale-context"
)

// ---------------------------------------------------------------- evaluation

const (
	stOK = iota
	stPanic
	stCompileErr
)

type compiled struct {
	ckb *expressions.CompiledKeyBuilder
	st  int
	msg string
}

func stdBuilder(opt bool) *expressions.KeyBuilder { return stdlib.NewStdKeyBuilderEx(opt) }

// funcsBuilder loads file with a compiler of optimisation loadOpt and returns
// a builder of optimisation callOpt that knows the loaded functions.
func funcsBuilder(file string, loadOpt, callOpt bool) (kb *expressions.KeyBuilder, st int, msg string) {
	p, v, _ := run.Guard(func() {
		l := stdBuilder(loadOpt)
		m, err := funcfile.LoadDefinitions(l, strings.NewReader(file), "gen.funcs")
		if err != nil {
			st, msg = stCompileErr, err.Error()
			return
		}
		if loadOpt == callOpt {
			kb = l
			return
		}
		kb = stdBuilder(callOpt)
		kb.Funcs(m)
	})
	if p {
		return nil, stPanic, fmt.Sprint(v)
	}
	return
}

func compile(kb *expressions.KeyBuilder, tpl string) (c compiled) {
	p, v, _ := run.Guard(func() {
		ckb, err := kb.Compile(tpl)
		c.ckb = ckb
		if err != nil {
			c.st, c.msg = stCompileErr, err.Error()
		}
	})
	if p {
		c.st, c.msg = stPanic, fmt.Sprint(v)
	}
	return
}

func eval(c compiled, ctx *Ctx) (s string, panicked bool) {
	p, _, _ := run.Guard(func() { s = c.ckb.BuildKey(ctx.real()) })
	return s, p
}

// abstentions are counted; a run that abstains on a large share of its cases
// has watched too little to say "held" (e.g. the implementation started to
// reject what the generator considers valid templates).
var nAbstain, nJudged int64

func abstain(c *run.Ctx, name string) {
	atomic.AddInt64(&nAbstain, 1)
	c.Count(name, 1)
}

type checker struct {
	c  *run.Ctx
	cs *Case
	ok bool
}

func (k *checker) fail(fp, msg string) {
	k.ok = false
	k.c.Violation(fp, msg, k.cs)
}

func (k *checker) fp(class string) string {
	if k.cs.Class != "" {
		return k.cs.Class
	}
	return class + ":" + run.Hash64(k.cs.Tpl, k.cs.File)
}

func ctxStr(c *Ctx) string {
	b, _ := json.Marshal(c)
	s := string(b)
	if len(s) > 700 {
		s = s[:700] + "…"
	}
	return s
}

// ---------------------------------------------------------------- diff

// runDiff: optimised vs unoptimised, same contexts, same order; then history
// independence against freshly compiled expressions.
func runDiff(c *run.Ctx, cs *Case) bool {
	k := &checker{c: c, cs: cs, ok: true}
	U := compile(stdBuilder(false), cs.Tpl)
	O := compile(stdBuilder(true), cs.Tpl)
	if U.st != stOK || O.st != stOK {
		abstain(c, "abstain_compile")
		if (U.st == stPanic) != (O.st == stPanic) {
			abstain(c, "abstain_panic_one_sided")
		}
		return true
	}
	vU := make([]string, len(cs.Ctxs))
	okU := make([]bool, len(cs.Ctxs))
	for i := range cs.Ctxs {
		u, pu := eval(U, &cs.Ctxs[i])
		o, po := eval(O, &cs.Ctxs[i])
		if pu || po {
			abstain(c, "abstain_panic")
			continue
		}
		vU[i], okU[i] = u, true
		c.Count("comparisons", 1)
		c.Count("cmp_opt_vs_unopt", 1)
		if u != o {
			k.fail(k.fp("optdiff"), fmt.Sprintf("template %s on context %s: optimised = %s, unoptimised (--no-optimize) = %s",
				run.Q(cs.Tpl), ctxStr(&cs.Ctxs[i]), run.Q(o), run.Q(u)))
			return false
		}
	}
	if cs.Stateful {
		c.Count("stateful_templates", 1)
		return k.ok
	}
	// history independence: a fresh compilation evaluated on one context only
	for _, i := range []int{len(cs.Ctxs) - 1, 0} {
		if i < 0 || !okU[i] {
			continue
		}
		for _, opt := range []bool{false, true} {
			F := compile(stdBuilder(opt), cs.Tpl)
			if F.st != stOK {
				continue
			}
			f, pf := eval(F, &cs.Ctxs[i])
			if pf {
				abstain(c, "abstain_panic")
				continue
			}
			c.Count("comparisons", 1)
			c.Count("cmp_fresh_vs_reused", 1)
			if f != vU[i] {
				k.fail(k.fp("history"), fmt.Sprintf("template %s on context %s: a freshly compiled expression (optimise=%v) = %s, the expression that had evaluated the other contexts before = %s",
					run.Q(cs.Tpl), ctxStr(&cs.Ctxs[i]), opt, run.Q(f), run.Q(vU[i])))
				return false
			}
		}
		if len(cs.Ctxs) == 1 {
			break
		}
	}
	// and the optimised one again, in reverse order
	for i := len(cs.Ctxs) - 1; i >= 0; i-- {
		if !okU[i] {
			continue
		}
		o, po := eval(O, &cs.Ctxs[i])
		if po {
			continue
		}
		c.Count("comparisons", 1)
		c.Count("cmp_reeval", 1)
		if o != vU[i] {
			k.fail(k.fp("history"), fmt.Sprintf("template %s on context %s: second evaluation of the optimised expression = %s, first/unoptimised = %s",
				run.Q(cs.Tpl), ctxStr(&cs.Ctxs[i]), run.Q(o), run.Q(vU[i])))
			return false
		}
	}
	return k.ok
}

// ---------------------------------------------------------------- lift / funcs (two programs, one value)

type prog struct {
	name string
	c    compiled
	ctxs []Ctx
}

// runEquiv compares every program with progs[0] (the reference) context by context.
func runEquiv(c *run.Ctx, k *checker, class string, progs []prog, counter string, describe func(p *prog) string) bool {
	for _, p := range progs {
		if p.c.st != stOK {
			abstain(c, "abstain_compile")
			return true
		}
	}
	ref := &progs[0]
	for i := range ref.ctxs {
		r, pr := eval(ref.c, &ref.ctxs[i])
		if pr {
			abstain(c, "abstain_panic")
			continue
		}
		for j := 1; j < len(progs); j++ {
			p := &progs[j]
			v, pv := eval(p.c, &p.ctxs[i])
			if pv {
				abstain(c, "abstain_panic")
				continue
			}
			c.Count("comparisons", 1)
			c.Count(counter, 1)
			if v != r {
				k.fail(k.fp(class), fmt.Sprintf("%s = %s but %s = %s; context %s",
					describe(p), run.Q(v), describe(ref), run.Q(r), ctxStr(&p.ctxs[i])))
				return false
			}
		}
	}
	return true
}

func runLift(c *run.Ctx, cs *Case) bool {
	k := &checker{c: c, cs: cs, ok: true}
	rc := cs.RefCtxs
	if rc == nil {
		rc = cs.Ctxs
	}
	progs := []prog{
		{"constants supplied through the context, unoptimised", compile(stdBuilder(false), cs.Ref), rc},
		{"constants in the template, optimised", compile(stdBuilder(true), cs.Tpl), cs.Ctxs},
		{"constants in the template, unoptimised", compile(stdBuilder(false), cs.Tpl), cs.Ctxs},
		{"constants supplied through the context, optimised", compile(stdBuilder(true), cs.Ref), rc},
	}
	return runEquiv(c, k, "constfold", progs, "cmp_const_vs_runtime", func(p *prog) string {
		t := cs.Tpl
		if strings.HasPrefix(p.name, "constants supplied") {
			t = cs.Ref
		}
		return fmt.Sprintf("%s (%s)", run.Q(t), p.name)
	})
}

func runFuncs(c *run.Ctx, cs *Case) bool {
	k := &checker{c: c, cs: cs, ok: true}
	refU := compile(stdBuilder(false), cs.Ref)
	refO := compile(stdBuilder(true), cs.Ref)
	progs := []prog{{"body written inline, unoptimised", refU, cs.Ctxs}}
	for _, cfg := range [][2]bool{{true, true}, {false, false}, {true, false}} {
		kb, st, msg := funcsBuilder(cs.File, cfg[0], cfg[1])
		var canon compiled
		haveCanon := false
		if cs.Canon != "" && cfg[0] == cfg[1] {
			// the same definitions written one per line, without comments, blank
			// lines or continuations: layout must not decide whether a file loads
			// or whether a call compiles
			ckb, cst, _ := funcsBuilder(cs.Canon, cfg[0], cfg[1])
			if cst == stOK && st == stCompileErr {
				c.Count("comparisons", 1)
				k.fail(k.fp("funcs-load"), fmt.Sprintf("funcs file %s does not load (%s) although the same definitions written one per line do: %s",
					run.Q(cs.File), msg, run.Q(cs.Canon)))
				return false
			}
			if cst == stOK {
				canon, haveCanon = compile(ckb, cs.Tpl), true
			}
		}
		if st != stOK {
			abstain(c, "abstain_funcs_load")
			c.Note("funcs file did not load: " + msg)
			return true
		}
		p := prog{fmt.Sprintf("call through the funcs file (file compiled optimise=%v, call optimise=%v)", cfg[0], cfg[1]), compile(kb, cs.Tpl), cs.Ctxs}
		if haveCanon && canon.st == stOK && p.c.st == stCompileErr {
			c.Count("comparisons", 1)
			k.fail(k.fp("funcs-compile"), fmt.Sprintf("%s does not compile (%s) with funcs file %s although it does with the same definitions written one per line: %s",
				run.Q(cs.Tpl), p.c.msg, run.Q(cs.File), run.Q(cs.Canon)))
			return false
		}
		progs = append(progs, p)
		if haveCanon && cfg[0] {
			progs = append(progs, prog{"call through the one-definition-per-line file", canon, cs.Ctxs})
		}
	}
	progs = append(progs, prog{"body written inline, optimised", refO, cs.Ctxs})
	return runEquiv(c, k, "funcs", progs, "cmp_call_vs_inline", func(p *prog) string {
		if strings.HasPrefix(p.name, "body written") {
			return fmt.Sprintf("%s (%s)", run.Q(cs.Ref), p.name)
		}
		if strings.HasPrefix(p.name, "call through the one") {
			return fmt.Sprintf("%s with funcs file %s", run.Q(cs.Tpl), run.Q(cs.Canon))
		}
		return fmt.Sprintf("%s with funcs file %s (%s)", run.Q(cs.Tpl), run.Q(cs.File), p.name)
	})
}

// ---------------------------------------------------------------- Run

func Run(c *run.Ctx) {
	if c.Replay != nil {
		var cs Case
		if err := json.Unmarshal(c.Replay, &cs); err != nil {
			c.Inconclusive("bad replay: " + err.Error())
			return
		}
		c.Begin(&cs, 120*time.Second)
		runCase(c, &cs)
		c.End()
		return
	}
	forKeys := pins(c)
	if c.Flavour == "race" {
		// the race flavour only adds the concurrent evaluators (its reports are
		// collected by the orchestrator)
		concurrent(c, forKeys, c.N(0, 1000))
		return
	}
	phase := func(name string, f func()) {
		t0 := time.Now()
		f()
		if os.Getenv("VERIF_P10_TIMING") != "" { // diagnostics only, never part of a verdict
			fmt.Fprintf(os.Stderr, "p10 shard %d phase %s: %v\n", c.Shard, name, time.Since(t0))
		}
	}
	phase("diff", func() { diffs(c, forKeys) })
	phase("probe-state", func() { probeStateCases(c) })
	phase("lift", func() { lifts(c, forKeys) })
	phase("mathlift", func() { mathLiftCases(c) })
	phase("funcs", func() { funcsCases(c, forKeys) })
	phase("layout", func() { layoutCases(c) })
	phase("redefinition", func() { redefinitionCases(c) })
	phase("conc", func() { concurrent(c, forKeys, c.N(320, 4000)) })
	phase("live", func() { live(c) })
	phase("clock", func() { clockValues(c) })
	phase("cli", func() { cliCases(c) })
	phase("cliflags", func() { cliFlagCases(c) })
	phase("format-funcs", func() { formatFuncsCases(c) })
	if n := atomic.LoadInt64(&nJudged); n > 200 && atomic.LoadInt64(&nAbstain)*5 > n {
		c.Inconclusive(fmt.Sprintf("abstained on %d of %d cases (compile errors / panics / funcs files that do not load): too little was judged", nAbstain, n))
	}
}

func runCase(c *run.Ctx, cs *Case) bool {
	atomic.AddInt64(&nJudged, 1)
	switch cs.Kind {
	case "diff":
		return runDiff(c, cs)
	case "lift":
		return runLift(c, cs)
	case "funcs":
		return runFuncs(c, cs)
	case "conc":
		return runConc(c, cs)
	case "live":
		return runLive(c, []*Case{cs})
	case "live-batch":
		return runLive(c, cs.Cases)
	case "cli":
		return runCLI(c, cs)
	case "cliflags":
		return runCLIFlags(c, cs)
	case "clock":
		clockValues(c)
		return true
	case "pin":
		return runPin(c, cs)
	}
	c.Inconclusive("unknown case kind " + cs.Kind)
	return true
}

func modeOf(r *run.Rand) float64 {
	switch x := r.Intn(20); {
	case x < 3:
		return 1 // constants only: everything is folded
	case x < 7:
		return 0 // variables only
	}
	return 0.2 + 0.6*r.Float()
}

func diffs(c *run.Ctx, forKeys bool) {
	N := c.N(40000, 450000)
	for i := 0; i < N; i++ {
		if !c.Mine(i) {
			continue
		}
		r := c.Rand("diff", i)
		g := newGen(r)
		g.forKeys = forKeys
		g.pConst = modeOf(r)
		tree := g.template(r.Range(1, 3), topScope())
		tpl, ok := Print(tree)
		if !ok {
			c.Count("discarded_unprintable", 1)
			continue
		}
		cs := &Case{Kind: "diff", Tpl: tpl, Ctxs: genCtxs(r, false), Stateful: g.stateful}
		c.Begin(cs, 0)
		if constSub(tree) {
			c.Nontrivial("diff", tpl)
			c.Count("templates_with_constant_subexpression", 1)
		}
		for n := range g.names {
			c.SetAdd("helpers", n)
		}
		c.Count("diff_cases", 1)
		if i < 2 {
			c.Sample(map[string]any{"kind": "diff", "template": tpl, "contexts": len(cs.Ctxs)})
		}
		runCase(c, cs)
		c.End()
		if c.Violations() >= 6 {
			return
		}
	}
}

func lifts(c *run.Ctx, forKeys bool) {
	N := c.N(24000, 300000)
	for i := 0; i < N; i++ {
		if !c.Mine(i) {
			continue
		}
		r := c.Rand("lift", i)
		g := newGen(r)
		g.forKeys = forKeys
		g.pConst = 0.35 + 0.65*r.Float()
		tree := g.template(r.Range(1, 3), topScope())
		tpl, ok := Print(tree)
		lifted, add := lift(r, tree, r.Intn(3) == 0, forKeys)
		ref, ok2 := Print(lifted)
		if !ok || !ok2 {
			c.Count("discarded_unprintable", 1)
			continue
		}
		if len(add) == 0 {
			c.Count("lift_nothing_to_lift", 1)
			continue
		}
		cs := &Case{Kind: "lift", Tpl: tpl, Ref: ref, Ctxs: genCtxs(r, false), Stateful: g.stateful}
		for j := range cs.Ctxs {
			cs.RefCtxs = append(cs.RefCtxs, cs.Ctxs[j].with(add))
		}
		c.Begin(cs, 0)
		c.Nontrivial("lift", tpl, ref)
		c.Count("lift_cases", 1)
		c.Count("constants_lifted", int64(len(add)))
		if i < 2 {
			c.Sample(map[string]any{"kind": "lift", "template": tpl, "lifted": ref, "added_keys": add})
		}
		runCase(c, cs)
		c.End()
		if c.Violations() >= 6 {
			return
		}
	}
}

func funcsCases(c *run.Ctx, forKeys bool) {
	N := c.N(20000, 225000)
	for i := 0; i < N; i++ {
		if !c.Mine(i) {
			continue
		}
		r := c.Rand("funcs", i)
		g := newGen(r)
		g.forKeys = forKeys
		g.pConst = modeOf(r)
		g.redefine = i%6 == 5 // one file in six defines a function under the name of a built-in helper
		fs, ok := g.genFuncs()
		if !ok {
			c.Count("discarded_unprintable", 1)
			continue
		}
		conflict := false
		for _, f := range fs {
			conflict = conflict || builtinUse(f.Body, g.redefined)
		}
		if conflict {
			c.Count("discarded_builtin_name_used_both_ways", 1)
			continue
		}
		file, ok := g.layout(fs)
		if !ok {
			c.Count("discarded_unprintable", 1)
			continue
		}
		ctxs := genCtxs(r, false)
		ncalls := r.Range(1, 3)
		canon := canonical(fs)
		if g.stateful {
			// a cached time format inside a body is shared by every call site but
			// private to every inlined copy: documented caching, not judged
			c.Count("discarded_stateful_funcs", 1)
			continue
		}
		for j := 0; j < ncalls; j++ {
			g.stateful = false
			tree := g.callSite(fs, r.Range(1, 2))
			if builtinUse(tree, g.redefined) {
				c.Count("discarded_builtin_name_used_both_ways", 1)
				continue
			}
			if len(g.redefined) > 0 {
				c.Count("funcs_cases_redefining_a_builtin", 1)
			}
			tpl, ok1 := Print(tree)
			inl, ok2 := inlineUsers(tree, fs)
			if !ok1 || !ok2 {
				c.Count("discarded_unprintable", 1)
				continue
			}
			ref, ok3 := Print(inl)
			if g.stateful {
				c.Count("discarded_stateful_funcs", 1)
				continue
			}
			if !ok3 {
				c.Count("discarded_unprintable", 1)
				continue
			}
			cs := &Case{Kind: "funcs", Tpl: tpl, Ref: ref, File: file, Ctxs: ctxs, Stateful: g.stateful, Canon: canon}
			c.Begin(cs, 0)
			c.Nontrivial("funcs", file, tpl)
			c.Count("funcs_cases", 1)
			c.Max("max_funcs_file_lines", int64(strings.Count(file, "\n")+1))
			c.Count("funcs_continuation_lines", int64(strings.Count(file, "\\\n")+strings.Count(file, "\\ ")))
			if i < 2 && j == 0 {
				c.Sample(map[string]any{"kind": "funcs", "file": file, "call": tpl, "inlined": ref})
			}
			runCase(c, cs)
			c.End()
		}
		if c.Violations() >= 6 {
			return
		}
	}
}

// canonical writes the definitions one per line ("" when one cannot be written).
func canonical(fs []*ufunc) string {
	var sb strings.Builder
	for _, f := range fs {
		b, ok := Print(f.Body)
		if !ok {
			return ""
		}
		sb.WriteString(f.Name + " " + b + "\n")
	}
	return sb.String()
}

// callSite: a template with at least one call of a funcs-file function.
func (g *gen) callSite(fs []*ufunc, d int) *Node {
	sc := topScope()
	g.users = fs
	f := fs[g.r.Intn(len(fs))]
	n := g.userCall(f, d+1, sc)
	switch g.r.Intn(6) {
	case 0:
		return cat(&Node{K: nLit, S: "v=", NoLift: true}, n)
	case 1:
		return call("upper", n)
	case 2:
		return call("@map", g.gen(kA, 1, sc, false), g.userCall(f, 1, g.sub(sc, kX)))
	case 3:
		return cat(n, &Node{K: nLit, S: " ", NoLift: true}, g.userCall(fs[g.r.Intn(len(fs))], d, sc))
	}
	return n
}
