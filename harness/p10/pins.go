package p10

import (
	"fmt"
	"time"

	"verifharness/internal/run"
)

// pins runs the pinned witnesses that need a controlled process state and
// returns whether the generators may put named keys into the sub-expressions
// of @for (they stay out of exactly that class while the finding is listed).
func pins(c *run.Ctx) (forKeys bool) {
	forKeys = !c.KnownActive(fpForParent)
	if c.Mine(0) {
		cs := &Case{Kind: "pin", Pin: "for-parent", Tpl: "{@for 0 {lt {1} {k}} x}", Class: fpForParent,
			Ctxs: []Ctx{{K: map[string]string{"k": "5"}}, {K: map[string]string{"k": "2"}}}}
		c.Begin(cs, 60*time.Second)
		c.Nontrivial("pin", cs.Pin)
		runPin(c, cs)
		c.End()
	}
	return
}

// for-parent: the sub-expressions of @for are evaluated in a pooled
// sub-context. When @for does not bind that sub-context to the caller's
// context, a named key inside the sub-expression is resolved in whatever
// context used the pooled object last; the optimiser's probe then sees no
// lookup and folds the whole @for with a foreign context's values.
//
// Sequence (single goroutine, the pool is LIFO):
//  1. {@map a {k}} evaluated on context A (k=5): the pooled object now points at A
//  2. the witness is compiled with optimisation (probe evaluation happens here)
//  3. {@map a {k}} evaluated on context B (k=2), then the unoptimised witness on B
//  4. {@map a {k}} evaluated on B again, then the optimised witness on B
//
// Equal values are required in 3 and 4 (same template, same context B).
func runPin(c *run.Ctx, cs *Case) bool {
	if cs.Pin != "for-parent" || len(cs.Ctxs) < 2 {
		c.Inconclusive("unknown pin " + cs.Pin)
		return true
	}
	k := &checker{c: c, cs: cs, ok: true}
	prime := compile(stdBuilder(false), "{@map a {k}}")
	U := compile(stdBuilder(false), cs.Tpl)
	if prime.st != stOK || U.st != stOK {
		abstain(c, "abstain_compile")
		return true
	}
	A, B := &cs.Ctxs[0], &cs.Ctxs[1]
	if _, p := eval(prime, A); p {
		abstain(c, "abstain_panic")
		return true
	}
	O := compile(stdBuilder(true), cs.Tpl)
	if O.st != stOK {
		abstain(c, "abstain_compile")
		if O.st == stPanic {
			abstain(c, "abstain_panic")
		}
		return true
	}
	eval(prime, B)
	u, pu := eval(U, B)
	eval(prime, B)
	o, po := eval(O, B)
	if pu || po {
		abstain(c, "abstain_panic")
		return true
	}
	c.Count("comparisons", 1)
	c.Count("cmp_opt_vs_unopt", 1)
	if u != o {
		k.fail(fpForParent, fmt.Sprintf("template %s on context %s: optimised = %s, unoptimised = %s (the optimiser folded @for with key k of an unrelated context %s that a previous @map evaluation had left in the pooled sub-context)",
			run.Q(cs.Tpl), ctxStr(B), run.Q(o), run.Q(u), ctxStr(A)))
		return false
	}
	return true
}
