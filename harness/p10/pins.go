package p10

import (
	"bytes"
	"context"
	"fmt"
	"os"
	"os/exec"
	"path/filepath"
	"strings"
	"time"

	"verifharness/internal/run"
)

// pins runs the pinned witnesses that need a controlled process state and
// returns whether the generators may put named keys into the sub-expressions
// of @for (they stay out of exactly that class while the finding is listed).
func pins(c *run.Ctx) (forKeys bool) {
	forKeys = !c.KnownActive(fpForParent)
	if c.Mine(0) {
		cs := &Case{Kind: "pin", Pin: "for-parent", Tpl: "{@for 0 {lt {1} {k}} x}", Class: fpForParent,
			Ctxs: []Ctx{{K: map[string]string{"k": "5"}}, {K: map[string]string{"k": "2"}}}}
		c.Begin(cs, 60*time.Second)
		c.Nontrivial("pin", cs.Pin)
		runPin(c, cs)
		c.End()
	}
	return
}

// for-parent: the sub-expressions of @for are evaluated in a pooled
// sub-context. When @for does not bind that sub-context to the caller's
// context, a named key inside the sub-expression is resolved in whatever
// context used the pooled object last; the optimiser's probe then sees no
// lookup and folds the whole @for with a foreign context's values.
//
// Sequence (single goroutine, the pool is LIFO):
//  1. {@map a {k}} evaluated on context A (k=5): the pooled object now points at A
//  2. the witness is compiled with optimisation (probe evaluation happens here)
//  3. {@map a {k}} evaluated on context B (k=2), then the unoptimised witness on B
//  4. {@map a {k}} evaluated on B again, then the optimised witness on B
//
// Equal values are required in 3 and 4 (same template, same context B).
func runPin(c *run.Ctx, cs *Case) bool {
	if cs.Pin != "for-parent" || len(cs.Ctxs) < 2 {
		c.Inconclusive("unknown pin " + cs.Pin)
		return true
	}
	k := &checker{c: c, cs: cs, ok: true}
	prime := compile(stdBuilder(false), "{@map a {k}}")
	U := compile(stdBuilder(false), cs.Tpl)
	if prime.st != stOK || U.st != stOK {
		abstain(c, "abstain_compile")
		return true
	}
	A, B := &cs.Ctxs[0], &cs.Ctxs[1]
	if _, p := eval(prime, A); p {
		abstain(c, "abstain_panic")
		return true
	}
	O := compile(stdBuilder(true), cs.Tpl)
	if O.st != stOK {
		abstain(c, "abstain_compile")
		if O.st == stPanic {
			abstain(c, "abstain_panic")
		}
		return true
	}
	eval(prime, B)
	u, pu := eval(U, B)
	eval(prime, B)
	o, po := eval(O, B)
	if pu || po {
		abstain(c, "abstain_panic")
		return true
	}
	c.Count("comparisons", 1)
	c.Count("cmp_opt_vs_unopt", 1)
	if u != o {
		k.fail(fpForParent, fmt.Sprintf("template %s on context %s: optimised = %s, unoptimised = %s (the optimiser folded @for with key k of an unrelated context %s that a previous @map evaluation had left in the pooled sub-context)",
			run.Q(cs.Tpl), ctxStr(B), run.Q(o), run.Q(u), ctxStr(A)))
		return false
	}
	return true
}

// ---------------------------------------------------------------- probe state

// The optimiser evaluates every stage once against an all-empty probe context. A stage with memory
// (the time helpers' "cache" format: "the first seen date determines the format") must not take that
// dry run for a seen date: with a partly constant argument — "2021{0}" — the probe sees "2021", which
// dateparse accepts as a date of its own, and every real date then fails to parse, while the same
// template without optimisation works. Differential: optimised vs unoptimised, both freshly compiled,
// same contexts in the same order (kind "diff", Stateful: history checks are skipped, the cache is
// documented).
const fpProbeCache = "time-cache:format-detected-from-optimiser-probe"

func probeStateCases(c *run.Ctx) {
	samples := []string{"2023-04-01 12:30:00", "2021-12-31 23:59:59", "2000-01-01T00:00:00Z", "2021-03-04", "04/Mar/2021:10:11:12 +0000", "Mar 4 2021 10:11:12"}
	shapes := []string{`{time "%s"}`, `{time "%s" cache}`, `{buckettime "%s" days}`, `{timeformat {time "%s"} RFC3339}`, `{timeattr {time "%s"} weekday}`, `{time "%s" auto}`}
	idx := 0
	for _, s := range samples {
		for cut := 1; cut < len(s); cut++ {
			for _, front := range []bool{true, false} {
				for si, shape := range shapes {
					idx++
					if !c.Mine(idx) || (si > 1 && (cut+si)%3 != 0) {
						continue
					}
					arg, val := s[:cut]+"{0}", s[cut:]
					if !front {
						arg, val = "{0}"+s[cut:], s[:cut]
					}
					if !validConst(s) {
						continue
					}
					cs := &Case{Kind: "diff", Tpl: fmt.Sprintf(shape, arg), Stateful: true,
						Ctxs: []Ctx{{E: []string{val}, K: map[string]string{}}, {E: []string{val}, K: map[string]string{}}}}
					c.Begin(cs, 60*time.Second)
					c.Nontrivial("probe-state", cs.Tpl)
					c.Count("probe_state_cases", 1)
					runCase(c, cs)
					c.End()
				}
			}
		}
	}
}

// ---------------------------------------------------------------- math formulas: constants vs bound variables

// "constant sub-expressions folded at compile time have their run-time value", for {! ..} formulas: a
// formula with numeric constants against the same formula with every constant supplied through the
// context ([c0], [c1], ..), optimised and not. Float + and * are not associative, so a simplifier that
// merges or reorders constants shows with operands such as 0.1/0.2/0.3 or 1e16 (which the tree
// generator's small integers never do). C19 owns the formula language itself; this only asks that
// folding is invisible.
var mathLiftShapes = []string{
	"[0] + A + B", "[0] * A * B", "A + [0] + B", "A * [0] * B", "[0] + A + B + C", "([0] - A) - B", "[0] + A * B", "A / B + [0]",
	"[0] * A + B * C", "[0] - A + B", "(A + [0]) + B", "[0] + (A + B)", "[0] / A / B", "A + B + [0]", "[0] ^ A * B", "abs([0] + A) + B",
}
var mathLiftConsts = []string{"0.1", "0.2", "0.3", "0.7", "1", "3", "1.1", "100", "0.000001", "10000000000000000", "1000000", "0.5", "2.5", "7"}
var mathLiftX = []string{"0.1", "0.3", "1", "10000000000000000", "0.000000000000001", "-0.7", "123456.789", "3"}

func mathLiftCases(c *run.Ctx) {
	N := c.N(1500, 20000)
	for i := 0; i < N; i++ {
		if !c.Mine(i) {
			continue
		}
		r := c.Rand("mathlift", i)
		shape := mathLiftShapes[r.Intn(len(mathLiftShapes))]
		tpl, ref := shape, shape
		add := map[string]string{}
		for j, name := range []string{"A", "B", "C"} {
			v := mathLiftConsts[r.Intn(len(mathLiftConsts))]
			key := fmt.Sprintf("c%d", j)
			tpl = strings.ReplaceAll(tpl, name, v)
			ref = strings.ReplaceAll(ref, name, "["+key+"]")
			add[key] = v
		}
		cs := &Case{Kind: "lift", Tpl: "{! " + tpl + "}", Ref: "{! " + ref + "}"}
		for k := 0; k < 3; k++ {
			cx := Ctx{E: []string{mathLiftX[r.Intn(len(mathLiftX))]}, K: map[string]string{}}
			cs.Ctxs = append(cs.Ctxs, cx)
			cs.RefCtxs = append(cs.RefCtxs, cx.with(add))
		}
		c.Begin(cs, 0)
		c.Nontrivial("mathlift", cs.Tpl)
		c.Count("math_lift_cases", 1)
		runCase(c, cs)
		c.End()
		if c.Violations() >= 6 {
			return
		}
	}
}

// ---------------------------------------------------------------- a name defined twice

// A funcs file (or a later --funcs file) may define a name again; the loader works through the lines in order with one
// compiler, so from that line on the name means the new body. What a function defined *between* the two definitions
// calls is not decided here (it is never called below). Judged: the name itself, and functions defined after the
// second definition that use the name as a whole statement, as an argument of another call, and twice in one body -
// each must equal its body written inline with the name's LAST body. A compiler that remembers compiled pieces by
// their text would hand the later definitions the first body.
func redefinitionCases(c *run.Ctx) {
	type one struct{ file, tpl, ref string }
	cases := []one{
		{"rnorm {lower {0}}\nrisadmin {eq {rnorm {0}} admin}\nrnorm {upper {0}}\nrisroot {eq {rnorm {0}} ROOT}\n", "{risroot {0}}", "{eq {upper {0}} ROOT}"},
		{"rnorm {lower {0}}\nrisadmin {eq {rnorm {0}} admin}\nrnorm {upper {0}}\nrlen {len {rnorm {0}}}x{rnorm {0}}\n", "{rlen {0}}", "{len {upper {0}}}x{upper {0}}"},
		{"rnorm {lower {0}}\nrisadmin {eq {rnorm {0}} admin}\nrnorm {upper {0}}\n", "{rnorm {0}}|{rnorm {1}}", "{upper {0}}|{upper {1}}"},
		{"pick {select {0} 0}\nfirstlen {len {pick {0}}}\npick {select {0} 1}\nsecondlen {len {pick {0}}}-{pick {0}}\n", "{secondlen {0}}", "{len {select {0} 1}}-{select {0} 1}"},
		{"w <{0}>\nuse1 {upper {w {0}}}\nw [{0}]\nuse2 {upper {w {0}}}{lower {w {1}}}\n", "{use2 {0} {1}}", "{upper [{0}]}{lower [{1}]}"},
		{"t {sumi {0} 1}\na {multi {t {0}} 2}\nt {sumi {0} 10}\nb {multi {t {0}} 2}\n", "{b {1}}", "{multi {sumi {1} 10} 2}"},
		// positions that no call can fill: a negative index reads as empty, in a function body as anywhere else
		{"neg [{-1}|{0}|{7}]\n", "{neg {0}}", "[{-1}|{0}|]"},
		{"neg2 {upper {-2}}{len {-1}}:{1}\nuse {neg2 {0} {1}}\n", "{use {0} {1}}", "{upper {-2}}{len {-1}}:{1}"},
	}
	ctxs := []Ctx{
		{E: []string{"root", "7"}, K: map[string]string{}}, {E: []string{"Admin Root", "12"}, K: map[string]string{}},
		{E: []string{"ROOT x", "-3"}, K: map[string]string{}}, {E: []string{"", ""}, K: map[string]string{}},
	}
	for i, o := range cases {
		if !c.Mine(i) {
			continue
		}
		cs := &Case{Kind: "funcs", Tpl: o.tpl, Ref: o.ref, File: o.file, Ctxs: ctxs}
		c.Begin(cs, 60*time.Second)
		c.Nontrivial("redefinition", o.tpl)
		c.Count("redefinition_cases", 1)
		runCase(c, cs)
		c.End()
		// the same through the binary, the second definition (and what follows it) in a second --funcs file: the
		// registry the command line compiles against must agree with the loader about which definition is in force
		lines := strings.SplitAfter(o.file, "\n")
		if len(lines) >= 3 {
			name := strings.SplitN(lines[0], " ", 2)[0]
			cut := -1
			for li := 1; li < len(lines); li++ {
				if strings.HasPrefix(lines[li], name+" ") {
					cut = li
					break
				}
			}
			if cut > 0 {
				cli := &Case{Kind: "cli", Tpl: o.tpl, Ref: o.ref, File: o.file, Files: []string{strings.Join(lines[:cut], ""), strings.Join(lines[cut:], "")},
					Ctxs: []Ctx{{E: []string{"root", "7"}, K: map[string]string{}}, {E: []string{"ROOTx", "12"}, K: map[string]string{}}}}
				c.Begin(cli, 120*time.Second)
				c.Count("redefinition_cli_cases_two_files", 1)
				runCase(c, cli)
				c.End()
			}
		}
	}
}

// ---------------------------------------------------------------- funcs-file functions in --format

// A --format expression is a template like any other: a function of a --funcs file used there equals its body written
// inline. Through the binary: the same histogram / table with --format '{name {0}}' (funcs file loaded) and with the
// body in its place (no funcs file) prints the same screen.
func formatFuncsCases(c *run.Ctx) {
	if c.RareBin == "" || !c.Mine(3) {
		return
	}
	dir, err := os.MkdirTemp(c.WorkDir, "fmtfuncs")
	if err != nil {
		c.Inconclusive("cannot create scratch dir: " + err.Error())
		return
	}
	defer os.RemoveAll(dir)
	ff := filepath.Join(dir, "f.funcs")
	in := filepath.Join(dir, "in.log")
	os.WriteFile(ff, []byte("dbl {sumi {0} {0}}\n# a comment\nwrapn <{hi {0}}> # trailing\n"), 0o644)
	os.WriteFile(in, []byte("a 2\nb 3\na 40\nc 1000\n"), 0o644)
	type one struct {
		cmd        []string
		call, body string
	}
	cases := []one{
		{[]string{"histo", "-m", `(\w) (\d+)`, "-e", "{$ {1} {2}}", "--snapshot"}, "{dbl {0}}", "{sumi {0} {0}}"},
		{[]string{"histo", "-m", `(\w) (\d+)`, "-e", "{$ {1} {2}}", "--snapshot"}, "{wrapn {0}}", "<{hi {0}}>"},
		{[]string{"table", "-m", `(\w) (\d+)`, "-e", "{$ {1} x {2}}", "--snapshot"}, "{dbl {0}}", "{sumi {0} {0}}"},
	}
	runOne := func(args []string) (string, int, string) {
		ctx, cancel := context.WithTimeout(context.Background(), 60*time.Second)
		defer cancel()
		cmd := exec.CommandContext(ctx, c.RareBin, args...)
		var so, se bytes.Buffer
		cmd.Stdout, cmd.Stderr = &so, &se
		err := cmd.Run()
		code := 0
		if ee, ok := err.(*exec.ExitError); ok {
			code = ee.ExitCode()
		} else if err != nil {
			return "", -1, err.Error()
		}
		out := so.String()
		if i := strings.LastIndexByte(strings.TrimSuffix(out, "\n"), '\n'); i >= 0 {
			out = out[:i+1] // the status line (byte rate) goes
		}
		return out, code, se.String()
	}
	for _, o := range cases {
		cs := &Case{Kind: "pin", Pin: "format-funcs", Tpl: o.call, Ref: o.body}
		c.Begin(cs, 3*time.Minute)
		withF := append(append([]string{"--nocolor", "--funcs", ff}, o.cmd...), "--format", o.call, in)
		inline := append(append([]string{"--nocolor"}, o.cmd...), "--format", o.body, in)
		a, ca, ea := runOne(withF)
		b, cb, eb := runOne(inline)
		c.End()
		if ca < 0 || cb < 0 {
			c.Note("format-funcs: cannot run rare: " + ea + eb)
			continue
		}
		c.Count("comparisons", 1)
		c.Count("cmp_format_call_vs_inline", 1)
		if cb != 0 {
			c.Note(fmt.Sprintf("format-funcs: the inline run exits %d (%s): not judged", cb, run.Q(eb)))
			continue
		}
		if ca != cb || a != b {
			c.Violation("format-funcs:"+run.Hash64(strings.Join(o.cmd, " "), o.call), fmt.Sprintf("rare --funcs F %s --format %s (F defines %s as %s): exit %d, stderr %s, screen %s; the same with the body inline (--format %s, no funcs file): exit %d, screen %s",
				strings.Join(o.cmd, " "), run.Q(o.call), strings.SplitN(strings.Trim(o.call, "{}"), " ", 2)[0], run.Q(o.body), ca, run.Q(ea), run.Q(a), run.Q(o.body), cb, run.Q(b)), cs)
		}
	}
}
