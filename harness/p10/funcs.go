package p10

import (
	"strings"
)

var builtinNames = func() map[string]bool {
	m := map[string]bool{"load": true, "@for": true, "@map": true, "@filter": true, "@reduce": true, "@in": true, "!": true, "json": true, "switch": true}
	for _, h := range table {
		m[h.n] = true
	}
	for _, s := range topKeys {
		m[s.key] = true
	}
	return m
}()

// overridable: built-in helpers whose plain lower-case name a funcs file may define again. A definition in the funcs
// file then IS the function of that name ("{name a b ..} equals the body with {0}, {1} .. replaced"): every call of it,
// in later definitions and at call sites, means the file's body. Cases in which the built-in meaning of the same name
// is also used are discarded (builtinUse), so the reference stays unambiguous.
var overridable = func() []string {
	var out []string
	for _, h := range table {
		ok := h.n != ""
		for _, ch := range h.n {
			if ch < 'a' || ch > 'z' {
				ok = false
			}
		}
		if ok {
			out = append(out, h.n)
		}
	}
	return out
}()

// builtinUse reports whether the tree calls, as a built-in, a name the funcs file redefines.
func builtinUse(n *Node, redefined map[string]bool) bool {
	if n == nil || len(redefined) == 0 {
		return false
	}
	if n.K == nCall && !n.User && redefined[n.S] {
		return true
	}
	for _, a := range n.A {
		if builtinUse(a, redefined) {
			return true
		}
	}
	return false
}

func (g *gen) funcName(taken map[string]bool) string {
	if g.redefine && g.r.Intn(2) == 0 {
		for try := 0; try < 8; try++ {
			s := overridable[g.r.Intn(len(overridable))]
			if !taken[s] {
				taken[s] = true
				if g.redefined == nil {
					g.redefined = map[string]bool{}
				}
				g.redefined[s] = true
				return s
			}
		}
	}
	for {
		n := g.r.Range(2, 7)
		var sb strings.Builder
		for i := 0; i < n; i++ {
			switch {
			case i == 0 || g.r.Intn(6) > 0:
				sb.WriteByte(byte('a' + g.r.Intn(26)))
			case g.r.Intn(2) == 0:
				sb.WriteByte(byte('0' + g.r.Intn(10)))
			default:
				sb.WriteByte("-_"[g.r.Intn(2)])
			}
		}
		s := sb.String()
		// c<digits> is reserved for lifted constants
		if builtinNames[s] || taken[s] || (len(s) > 1 && s[0] == 'c' && s[1] >= '0' && s[1] <= '9') {
			continue
		}
		taken[s] = true
		return s
	}
}

// genFuncs generates 1..4 definitions, later ones may call earlier ones.
// ok=false when a body cannot be printed/inlined (discarded case).
func (g *gen) genFuncs() ([]*ufunc, bool) {
	n := g.r.Range(1, 4)
	taken := map[string]bool{}
	var fs []*ufunc
	paramKinds := []kind{kT, kI, kF, kA, kB, kX, kS, kZ, kU, kW, kP}
	for i := 0; i < n; i++ {
		f := &ufunc{Name: g.funcName(taken)}
		np := g.r.Range(0, 3)
		if g.r.Intn(4) == 0 { // declared up front, possibly never used by the body
			for j := 0; j < np; j++ {
				f.Params = append(f.Params, paramKinds[g.r.Intn(len(paramKinds))])
			}
		}
		g.users = fs
		sc := &scope{idx: f.Params, keys: true, body: true, maxIdx: np}
		savedConst := g.pConst
		if g.pConst > 0.4 {
			g.pConst = 0.3
		}
		body := g.template(g.r.Range(1, 3), sc)
		g.pConst = savedConst
		if !g.noLong && g.r.Intn(10) == 0 {
			// a long definition: one physical line of the file well beyond any small read buffer (4 KiB, 16 KiB), short of
			// the 64 KiB a line scanner takes by default
			body.A = append(body.A, &Node{K: nLit, S: "|" + strings.Repeat("long-literal-", g.r.Range(320, 2400)) + "|"})
		}
		f.Params = sc.idx
		// a body cannot begin or end with white space (the loader trims lines)
		if len(body.A) > 0 && body.A[0].K == nLit {
			body.A[0].S = strings.TrimLeft(body.A[0].S, " ")
		}
		if l := len(body.A) - 1; l >= 0 && body.A[l].K == nLit {
			body.A[l].S = strings.TrimRight(body.A[l].S, " ")
		}
		s, ok := Print(body)
		if !ok || s == "" || strings.TrimSpace(s) != s || strings.Contains(s, "#") {
			return nil, false
		}
		f.Body = body
		flat, ok := inlineUsers(body, fs)
		if !ok {
			return nil, false
		}
		f.Flat = flat
		fs = append(fs, f)
	}
	g.users = fs
	return fs, true
}

// inlineUsers replaces every call of a funcs-file function by that function's
// (already flattened) body with the call's arguments substituted.
func inlineUsers(n *Node, fs []*ufunc) (*Node, bool) {
	ok := true
	var walk func(n *Node) *Node
	walk = func(n *Node) *Node {
		c := *n
		c.A = nil
		for _, a := range n.A {
			c.A = append(c.A, walk(a))
		}
		if n.K == nCall && n.User {
			var f *ufunc
			for _, x := range fs {
				if x.Name == n.S {
					f = x
				}
			}
			if f == nil {
				ok = false
				return &c
			}
			r, sok := subst(f.Flat, c.A)
			if !sok {
				ok = false
			}
			return r
		}
		return &c
	}
	r := walk(n)
	return r, ok
}

var commentWords = []string{"comment", "# nested", "{0}", "name {sumi 1 2}", "\\", "trailing \\", "", "ünï", "\"quoted\"", "x }"}

func (g *gen) comment() string {
	return "#" + []string{"", " "}[g.r.Intn(2)] + commentWords[g.r.Intn(len(commentWords))]
}

// layout renders the definitions as a funcs file: comment lines, blank lines,
// trailing comments, and backslash continuations placed only where an argument
// separator (or the gap before a closing brace) is.
func (g *gen) layout(fs []*ufunc) (string, bool) {
	var sb strings.Builder
	indent := func() string { return strings.Repeat(" ", g.r.Intn(5)) + []string{"", "\t"}[g.r.Intn(4)/3] }
	noise := func() {
		for g.r.Intn(3) == 0 {
			if g.r.Intn(2) == 0 {
				sb.WriteString(indent() + g.comment() + "\n")
			} else {
				sb.WriteString([]string{"", "  ", "\t"}[g.r.Intn(3)] + "\n")
			}
		}
	}
	style := g.r.Intn(4) // 0: never break; 1: rarely; 2: often; 3: at every opportunity
	for i, f := range fs {
		noise()
		m, ok := PrintMarked(f.Body)
		if !ok {
			return "", false
		}
		sb.WriteString(indent())
		sb.WriteString(f.Name)
		sb.WriteString(" ")
		for _, r := range m {
			s := string(r)
			if s != mkSep && s != mkClose {
				sb.WriteString(s)
				continue
			}
			brk := false
			switch style {
			case 1:
				brk = g.r.Intn(8) == 0
			case 2:
				brk = g.r.Intn(2) == 0
			case 3:
				brk = true
			}
			if s == mkClose && brk {
				brk = g.r.Intn(3) == 0
			}
			if !brk {
				if s == mkSep {
					sb.WriteString(" ")
				}
				continue
			}
			sb.WriteString(" \\")
			if g.r.Intn(4) == 0 {
				sb.WriteString(strings.Repeat(" ", g.r.Intn(3)) + g.comment())
			} else if g.r.Intn(5) == 0 {
				sb.WriteString("  ")
			}
			sb.WriteString("\n")
			noise()
			sb.WriteString(indent())
		}
		if g.r.Intn(4) == 0 {
			sb.WriteString(strings.Repeat(" ", g.r.Range(1, 3)) + g.comment())
		}
		if i < len(fs)-1 || g.r.Intn(3) > 0 {
			sb.WriteString("\n")
		}
	}
	if g.r.Intn(3) == 0 {
		sb.WriteString("\n" + g.comment())
	}
	return sb.String(), true
}
