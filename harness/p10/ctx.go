package p10

import (
	"strconv"
	"strings"

	"rare/pkg/expressions"

	"verifharness/internal/run"
)

// Ctx is one match context (JSON-serialisable for replays).
type Ctx struct {
	E []string          `json:"e"`
	K map[string]string `json:"k"`
}

func (c *Ctx) real() *expressions.KeyBuilderContextArray {
	return &expressions.KeyBuilderContextArray{Elements: c.E, Keys: c.K}
}

func (c *Ctx) with(add map[string]string) Ctx {
	n := Ctx{E: c.E, K: map[string]string{}}
	for k, v := range c.K {
		n.K[k] = v
	}
	for k, v := range add {
		n.K[k] = v
	}
	return n
}

var jsonDocs = []string{
	`{"a":1,"b":{"c":"x y"},"arr":[1,2,3]}`,
	`{"a":"text","b":{"c":null},"arr":[]}`,
	`{"a":{"deep":true},"b":2.5}`,
	`not json`,
	``,
	`[1,2]`,
}

var textVals = []string{"", "a", "hello world", "Hello World", "  padded  ", "x,y;z", "tab\tsep", "line\nbreak", "ünïcödé",
	"{0}", `a "quoted" b`, `back\slash`, "#hash", "100", "-5", "1.5", `{"a":1,"b":{"c":"x y"},"arr":[1,2,3]}`, "abc", "foo bar", "lo wor", "%d %s", "a b c d e f"}

func word(r *run.Rand) string {
	n := r.Range(1, 8)
	b := make([]byte, n)
	for i := range b {
		b[i] = byte('a' + r.Intn(26))
	}
	return string(b)
}

// value of a kind for a context slot. cli: no NUL, no comma, no leading '-'
// (urfave/cli would split / misread such -d values; the CLI runs only tie the
// wiring, the in-process contexts carry the difficult bytes).
func val(r *run.Rand, k kind, cli bool) string {
	switch k {
	case kT, kX:
		if r.Intn(4) == 0 {
			n := r.Range(1, 4)
			ws := make([]string, n)
			for i := range ws {
				ws[i] = word(r)
			}
			return strings.Join(ws, " ")
		}
		return textVals[r.Intn(len(textVals))]
	case kW:
		return []string{"abc", "ell", "x", "lo", "foo", "wor", "a", ""}[r.Intn(8)]
	case kI:
		switch r.Intn(5) {
		case 0:
			p := constPool[kI]
			return p[r.Intn(len(p))]
		case 1:
			return strconv.FormatInt(r.I64(), 10)
		}
		return strconv.Itoa(r.Range(-1000000, 1000000))
	case kS:
		return strconv.Itoa(r.Range(0, 20))
	case kN:
		return strconv.Itoa(r.Range(-5, 20))
	case kZ:
		v := r.Range(1, 1000)
		if r.Intn(3) == 0 {
			v = -v
		}
		return strconv.Itoa(v)
	case kF:
		switch r.Intn(6) {
		case 0:
			p := constPool[kF]
			return p[r.Intn(len(p))]
		case 1:
			return []string{"-0", "1e3", "NaN", "Inf", "1e-7", "123456789.125"}[r.Intn(6)]
		}
		return strconv.FormatFloat(float64(r.Range(-100000, 100000))/100, 'f', -1, 64)
	case kB:
		return []string{"", "1", "true", " ", "0", ""}[r.Intn(6)]
	case kA:
		n := r.Range(0, 5)
		if cli {
			n = r.Range(0, 1)
		}
		els := make([]string, n)
		for i := range els {
			switch r.Intn(4) {
			case 0:
				els[i] = word(r)
			case 1:
				els[i] = ""
			default:
				els[i] = strconv.Itoa(r.Range(-20, 100))
			}
		}
		return strings.Join(els, "\x00")
	case kJ:
		return jsonDocs[r.Intn(len(jsonDocs))]
	case kP:
		return []string{"/var/log/app.log", "file.txt", "", "/", "a/b/", "../x.tar.gz", "noext", "/a b/c d.txt"}[r.Intn(8)]
	case kD:
		return []string{"1h", "90s", "1h30m", "bad", "", "2m3s", "1.5h", "100ms"}[r.Intn(8)]
	case kU:
		if r.Intn(2) == 0 {
			return strconv.Itoa(r.Range(0, 2000000000))
		}
		return []string{"0", "1700000000", "1680352200", "-1", "86400", ""}[r.Intn(6)]
	case kTM:
		return []string{"2023-04-01 12:30:00", "2021-12-31 23:59:59", "2000-01-01 00:00:00", "1999-03-15 06:07:08", "2024-02-29 00:00:01"}[r.Intn(5)]
	case kTR:
		return []string{"2023-04-01T12:30:00Z", "2021-12-31T23:59:59+02:00", "2000-01-01T00:00:00-05:00"}[r.Intn(3)]
	}
	return ""
}

// a value of the wrong kind that is still harmless for the count / divisor
// slots (never an integer there: those slots feed repeat / @range / divi).
func mismatch(r *run.Rand, k kind, cli bool) string {
	switch k {
	case kS, kN, kZ:
		return []string{"", "abc", "1.5", "x1", " ", "1e2"}[r.Intn(6)]
	}
	return val(r, []kind{kT, kT, kI, kF, kB, kW}[r.Intn(6)], cli)
}

// urfave/cli splits -d / -k values on commas and trims white space around
// them; argv cannot carry NUL. (Flag parsing is not this property's business.)
func cliSafe(s string) bool {
	return !strings.ContainsAny(s, "\x00,") && !strings.HasPrefix(s, "-") && s == strings.ToValidUTF8(s, "?") && s == strings.TrimSpace(s)
}

// flavour: 0 typed, 1 all-empty (what the optimiser probes with), 2 some
// slots empty, 3 some slots of another kind.
func genCtx(r *run.Rand, flavour int, cli bool) Ctx {
	c := Ctx{K: map[string]string{}}
	if flavour == 1 {
		if r.Intn(2) == 0 {
			return c // not even the slots exist
		}
		c.E = make([]string, len(topIdx))
		for _, s := range topKeys {
			c.K[s.key] = ""
		}
		return c
	}
	pick := func(k kind) string {
		var v string
		switch {
		case flavour == 2 && r.Intn(5) < 2:
			v = ""
		case flavour == 3 && r.Intn(10) < 3:
			v = mismatch(r, k, cli)
		default:
			v = val(r, k, cli)
		}
		if cli && !cliSafe(v) {
			v = "v"
			if k == kS || k == kN || k == kZ || k == kI || k == kF || k == kU {
				v = "3"
			}
		}
		return v
	}
	c.E = make([]string, len(topIdx))
	for i, k := range topIdx {
		c.E[i] = pick(k)
	}
	c.E[7] = ""
	for _, s := range topKeys {
		c.K[s.key] = pick(s.k)
	}
	c.K["e"] = ""
	// the json helper's one-argument form reads {0}
	if r.Intn(6) == 0 && !cli {
		c.E[0] = jsonDocs[r.Intn(3)]
	}
	return c
}

func genCtxs(r *run.Rand, cli bool) []Ctx {
	n := r.Range(3, 6)
	out := make([]Ctx, 0, n)
	for i := 0; i < n; i++ {
		f := 0
		switch x := r.Intn(10); {
		case x < 5:
			f = 0
		case x < 7:
			f = 1
		case x < 9:
			f = 2
		default:
			f = 3
		}
		if i == 0 {
			f = 0
		}
		out = append(out, genCtx(r, f, cli))
	}
	return out
}
