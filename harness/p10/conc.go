package p10

import (
	"fmt"
	"sync"
	"time"

	"verifharness/internal/run"
)

// runConc: W goroutines share ONE compiled expression (optimised, and for
// funcs cases the call through the loaded file); every value must equal the
// value the unoptimised / inlined reference produced sequentially.
func runConc(c *run.Ctx, cs *Case) bool {
	k := &checker{c: c, cs: cs, ok: true}
	var ref, sut compiled
	if cs.File != "" {
		ref = compile(stdBuilder(false), cs.Ref)
		kb, st, _ := funcsBuilder(cs.File, true, true)
		if st != stOK {
			abstain(c, "abstain_funcs_load")
			return true
		}
		sut = compile(kb, cs.Tpl)
	} else {
		ref = compile(stdBuilder(false), cs.Tpl)
		sut = compile(stdBuilder(true), cs.Tpl)
	}
	if ref.st != stOK || sut.st != stOK {
		abstain(c, "abstain_compile")
		return true
	}
	want := make([]string, len(cs.Ctxs))
	for i := range cs.Ctxs {
		v, p := eval(ref, &cs.Ctxs[i])
		s, p2 := eval(sut, &cs.Ctxs[i])
		if p || p2 {
			abstain(c, "abstain_panic")
			return true
		}
		if v != s {
			// the sequential sub-checks own this; do not report it twice as a concurrency fault
			c.Count("conc_skipped_sequential_mismatch", 1)
			return true
		}
		want[i] = v
	}
	type bad struct {
		g, i     int
		got      string
		panicked bool
	}
	var mu sync.Mutex
	var first *bad
	var wg sync.WaitGroup
	var evals int64
	start := make(chan struct{})
	for g := 0; g < cs.W; g++ {
		wg.Add(1)
		go func(g int) {
			defer wg.Done()
			<-start
			n := int64(0)
			for r := 0; r < cs.Rounds; r++ {
				for j := range cs.Ctxs {
					i := (j + g + r) % len(cs.Ctxs)
					v, p := eval(sut, &cs.Ctxs[i])
					n++
					if p || v != want[i] {
						mu.Lock()
						if first == nil {
							first = &bad{g, i, v, p}
						}
						mu.Unlock()
						goto done
					}
				}
			}
		done:
			mu.Lock()
			evals += n
			mu.Unlock()
		}(g)
	}
	close(start)
	wg.Wait()
	c.Count("comparisons", evals)
	c.Count("cmp_concurrent_vs_sequential", evals)
	c.Max("max_concurrent_evaluators", int64(cs.W))
	if first != nil {
		if first.panicked {
			abstain(c, "abstain_panic")
			c.Note("a concurrent evaluation panicked where the sequential one did not: " + cs.Tpl)
			return true
		}
		what := run.Q(cs.Tpl)
		if cs.File != "" {
			what += " with funcs file " + run.Q(cs.File)
		}
		k.fail(k.fp("concurrent"), fmt.Sprintf("%s: evaluator %d of %d got %s on context %s, the sequential reference value is %s",
			what, first.g, cs.W, run.Q(first.got), ctxStr(&cs.Ctxs[first.i]), run.Q(want[first.i])))
		return false
	}
	return true
}

// pooled per-evaluation state (the wrapper a {! ..} formula reads its variables through, sub-contexts of array helpers,
// the argument contexts of funcs-file calls): many evaluators on one stage, contexts that take the error path mixed
// with contexts that do not, many rounds - a pooled object handed back a few instructions early is reused by another
// evaluator inside that window.
var pooledStateTemplates = []string{
	"{! [0]+[1]}", "{! x*2}", "{! [0]>[1]}", "{sumi {! [0]+1} 2}", "{! abs([0])}|{! x}", "{@map {0} {! [0]*2}}", "{@reduce {0} {sumi {0} {1}}}", "{@filter {0} {isint {0}}}",
}

func pooledStateCtxs() []Ctx {
	return []Ctx{
		{E: []string{"5", "7.5"}, K: map[string]string{"x": "3"}},
		{E: []string{"abc", "2"}, K: map[string]string{"x": "n/a"}},
		{E: []string{"12", ""}, K: map[string]string{"x": "1e3"}},
		{E: []string{"", "x y"}, K: map[string]string{"x": ""}},
		{E: []string{"1\x002\x00z\x004", "9"}, K: map[string]string{"x": "-4"}},
		{E: []string{"0", "0"}, K: map[string]string{"x": "zero"}},
	}
}

func concurrent(c *run.Ctx, forKeys bool, N int) {
	W := c.N(8, 16)
	per := c.N(300, 2000) // evaluations per goroutine
	for i, tpl := range pooledStateTemplates {
		if !c.Mine(i) {
			continue
		}
		rounds := c.N(4000, 16000)
		if c.Flavour == "race" {
			rounds = 1500 // the race detector makes every evaluation an order of magnitude slower; it needs interleavings, not volume
		}
		cs := &Case{Kind: "conc", Tpl: tpl, Ctxs: pooledStateCtxs(), W: 12, Rounds: rounds}
		c.Begin(cs, 15*time.Minute) // many evaluations by design: the default per-case watchdog is for single evaluations
		c.Nontrivial("conc-pooled", tpl)
		c.Count("conc_cases", 1)
		c.Count("conc_pooled_state_cases", 1)
		runCase(c, cs)
		c.End()
	}
	for i := 0; i < N; i++ {
		if !c.Mine(i) {
			continue
		}
		r := c.Rand("conc", i)
		g := newGen(r)
		g.forKeys = forKeys
		g.noLong = true // tens of thousands of evaluations per case: a 30 KiB result each makes the case slow, not deeper
		g.pConst = 0.1 + 0.5*r.Float()
		var cs *Case
		for try := 0; try < 20 && cs == nil; try++ {
			g.stateful = false
			if r.Intn(2) == 0 {
				tree := g.template(r.Range(1, 3), topScope())
				tpl, ok := Print(tree)
				if ok && !g.stateful {
					cs = &Case{Kind: "conc", Tpl: tpl}
				}
				continue
			}
			g.users = nil
			fs, ok := g.genFuncs()
			if !ok {
				continue
			}
			file, ok := g.layout(fs)
			if !ok {
				continue
			}
			tree := g.callSite(fs, 2)
			tpl, ok1 := Print(tree)
			inl, ok2 := inlineUsers(tree, fs)
			if !ok1 || !ok2 {
				continue
			}
			ref, ok3 := Print(inl)
			if ok3 && !g.stateful {
				cs = &Case{Kind: "conc", Tpl: tpl, Ref: ref, File: file}
			}
		}
		if cs == nil {
			c.Count("discarded_unprintable", 1)
			continue
		}
		cs.Ctxs = genCtxs(r, false)
		cs.W = W
		cs.Rounds = per/len(cs.Ctxs) + 1
		c.Begin(cs, 0)
		c.Nontrivial("conc", cs.File, cs.Tpl)
		c.Count("conc_cases", 1)
		runCase(c, cs)
		c.End()
		if c.Violations() >= 6 {
			return
		}
	}
}
