package p10

import (
	"fmt"
	"sync/atomic"
	"time"

	"verifharness/internal/run"
)

// Sub-check (ii): values defined to vary are not frozen by the optimiser.
// Behavioural: evaluate, sleep >1 s (time.Sleep never returns early, so the
// unix second has advanced), evaluate again. The unoptimised expression is
// the control: only when IT changed and the optimised one did not is the
// value "frozen". No other use of the clock.

type liveProbe struct {
	cs     *Case
	u, o   compiled
	u1, o1 string
	skip   bool
}

const livePause = 1200 * time.Millisecond

// sameSecond runs f until it started and finished within one unix second (so
// that two expressions sampled inside it saw the same clock value).
func sameSecond(f func()) bool {
	for try := 0; try < 6; try++ {
		a := time.Now().Unix()
		f()
		if time.Now().Unix() == a {
			return true
		}
	}
	return false
}

func runLive(c *run.Ctx, cases []*Case) bool {
	ok := true
	probes := make([]*liveProbe, 0, len(cases))
	for _, cs := range cases {
		p := &liveProbe{cs: cs}
		var ku, ko = stdBuilder(false), stdBuilder(true)
		if cs.File != "" {
			var st1, st2 int
			ku, st1, _ = funcsBuilder(cs.File, true, false)
			ko, st2, _ = funcsBuilder(cs.File, true, true)
			if st1 != stOK || st2 != stOK {
				abstain(c, "abstain_funcs_load")
				p.skip = true
			}
		}
		if !p.skip {
			// {time delta} counts from its compilation: compile both in the same second
			if !sameSecond(func() { p.u, p.o = compile(ku, cs.Tpl), compile(ko, cs.Tpl) }) {
				c.Count("live_window_missed", 1)
				p.skip = true
			}
		}
		if !p.skip && (p.u.st != stOK || p.o.st != stOK) {
			abstain(c, "abstain_compile")
			if p.u.st == stPanic || p.o.st == stPanic {
				abstain(c, "abstain_panic")
			}
			p.skip = true
		}
		if !p.skip {
			var pu, po bool
			if !sameSecond(func() {
				p.u1, pu = eval(p.u, &cs.Ctxs[0])
				p.o1, po = eval(p.o, &cs.Ctxs[0])
			}) {
				c.Count("live_window_missed", 1)
				p.skip = true
			}
			if pu || po {
				abstain(c, "abstain_panic")
				p.skip = true
			}
		}
		probes = append(probes, p)
	}
	time.Sleep(livePause)
	for _, p := range probes {
		if p.skip {
			continue
		}
		cs := p.cs
		var u2, o2 string
		var pu, po bool
		if !sameSecond(func() {
			u2, pu = eval(p.u, &cs.Ctxs[0])
			o2, po = eval(p.o, &cs.Ctxs[0])
		}) {
			c.Count("live_window_missed", 1)
			continue
		}
		if pu || po {
			abstain(c, "abstain_panic")
			continue
		}
		if u2 == p.u1 {
			c.Count("live_control_not_varying", 1) // the surrounding helpers hide the clock: nothing to judge
			continue
		}
		c.Count("comparisons", 1)
		c.Count("cmp_live_still_varying", 1)
		// frozen: the control moved, the optimised value did not, and it is not
		// the value the control has in this very second
		if o2 == p.o1 && o2 != u2 {
			k := &checker{c: c, cs: cs, ok: true}
			what := run.Q(cs.Tpl)
			if cs.File != "" {
				what += " with funcs file " + run.Q(cs.File)
			}
			k.fail(k.fp("live"), fmt.Sprintf("%s: optimised value %s -> %s after a %v pause (frozen at compile time); unoptimised %s -> %s",
				what, run.Q(p.o1), run.Q(o2), livePause, run.Q(p.u1), run.Q(u2)))
			ok = false
		}
	}
	return ok
}

func liveNode(r *run.Rand) *Node {
	if r.Intn(4) == 0 {
		return call("time", lit("delta"))
	}
	return call("time", lit([]string{"live", "LIVE", "Live", "live"}[r.Intn(4)]))
}

// replaceLeaf puts the live node in place of a random leaf that is neither in
// a constant-only argument nor in an element scope.
func replaceLeaf(r *run.Rand, t *Node, live *Node, allowShadow bool) (ok bool, inShadow bool) {
	type site struct {
		parent *Node
		i      int
		shadow bool
	}
	var sites []site
	var walk func(n *Node, shadow bool)
	walk = func(n *Node, shadow bool) {
		for i, a := range n.A {
			sh := shadow || (n.K == nCall && shadowArg(n.S, i))
			if n.K == nMath || (n.K == nCall && n.S == "time" && i == 0) {
				continue
			}
			if (a.K == nLit && !a.NoLift || a.K == nIdx || a.K == nKey) && !a.R && (!sh || allowShadow) && n.K == nCall && !n.User && !(n.S == "@for" && i == 0) {
				sites = append(sites, site{n, i, sh})
			}
			walk(a, sh)
		}
	}
	walk(t, false)
	if len(sites) == 0 {
		return false, false
	}
	s := sites[r.Intn(len(sites))]
	s.parent.A[s.i] = live
	return true, s.shadow
}

func live(c *run.Ctx) {
	var all []*Case
	one := genCtx(c.Rand("livectx"), 0, false)
	mk := func(tpl, file, class string) {
		all = append(all, &Case{Kind: "live", Tpl: tpl, File: file, Ctxs: []Ctx{one}, Class: class})
	}
	// fixed forms
	for _, t := range []string{"{time live}", "{time delta}", "x{time live}y", "{sumi {time live} 0}", "{time LIVE}",
		"{if {0} {time live} {time live}}", "{coalesce {e} {time live}}", "{@ {time live} a}", "{subi {time live} {time delta}}{time live}",
		"{format %s-%s {time live} x}", "{! 1 + 2}{time live}", "{eq a a}{time delta}{eq b b}", "{timeformat {time live} RFC3339}"} {
		mk(t, "", "")
	}
	// through a funcs file: the body looks its argument up
	mk("{stamp {0}}", "stamp {0}@{time live}\n", "")
	mk("{stamp {s}}", "# c\nstamp {0}@{time live}\n", "")
	mk("{age {n}}", "age {subi {time live} \\\n  {0}}", "")
	// pinned witnesses of the known classes (always executed)
	mk("{mynow x}", "mynow {time live}\n", fpLiveFuncs)
	mk("{@map {@ a b} {time live}}", "", fpLiveRange)
	if !c.KnownActive(fpLiveFuncs) {
		mk("{stamp a}", "stamp {0}@{time live}\n", fpLiveFuncs)
		mk("{mynow {0}}", "mynow {time live}\n", fpLiveFuncs) // the argument is never evaluated: no lookup either
		mk("{up {delta x}}", "delta {time delta}\nup {upper \\\n {0}}\n", fpLiveFuncs)
	}
	if !c.KnownActive(fpLiveRange) {
		mk("{@filter {@split \"a b\"} {time live}}", "", fpLiveRange)
		mk("{@reduce {@ 1 2 3} {sumi {0} {1} {time delta}}}", "", fpLiveRange)
	}
	mk("{@map {arr} {time live}}", "", "") // dynamic array: looked up, must vary
	// generated surroundings; the two known classes (clock inside an element
	// scope / inside a funcs-file body) are generated only while not listed
	allowRange, allowFuncs := !c.KnownActive(fpLiveRange), !c.KnownActive(fpLiveFuncs)
	N := c.N(96, 960)
	for i := 0; i < N; i++ {
		r := c.Rand("live", i)
		g := newGen(r)
		g.forKeys = true
		g.pConst = modeOf(r)
		if i%3 == 2 {
			if !allowFuncs {
				continue
			}
			fs, ok := g.genFuncs()
			if !ok {
				continue
			}
			f := fs[r.Intn(len(fs))]
			if ok, _ := replaceLeaf(r, f.Body, liveNode(r), allowRange); !ok {
				continue
			}
			file, ok := g.layout(fs)
			if !ok {
				continue
			}
			g.pConst = modeOf(r)
			tpl, ok := Print(g.callSite([]*ufunc{f}, 1))
			if !ok {
				continue
			}
			all = append(all, &Case{Kind: "live", Tpl: tpl, File: file, Ctxs: []Ctx{genCtx(r, 0, false)}, Class: fpLiveFuncs})
			continue
		}
		tree := g.template(r.Range(1, 2), topScope())
		ok, sh := replaceLeaf(r, tree, liveNode(r), allowRange)
		if !ok {
			continue
		}
		tpl, ok := Print(tree)
		if !ok {
			continue
		}
		cs := &Case{Kind: "live", Tpl: tpl, Ctxs: []Ctx{genCtx(r, 0, false)}}
		if sh {
			cs.Class = fpLiveRange
		}
		all = append(all, cs)
	}
	var mine []*Case
	for i, cs := range all {
		if c.Mine(i) {
			mine = append(mine, cs)
		}
	}
	if len(mine) == 0 {
		return
	}
	c.Begin(map[string]any{"kind": "live-batch", "cases": mine}, 120*time.Second)
	for _, cs := range mine {
		c.Nontrivial("live", cs.File, cs.Tpl)
	}
	c.Count("live_cases", int64(len(mine)))
	atomic.AddInt64(&nJudged, int64(len(mine)))
	runLive(c, mine)
	c.End()
}

// clockValues: the VALUE of the three clock keywords (docs/usage/expressions.md, "Time Values"): `now` is
// the unix timestamp cached when the expression is built, `live` the unix timestamp at evaluation, `delta`
// the seconds since the expression was built. Each evaluation is bracketed by two readings of the same
// clock taken by the harness; the value must be a plain decimal integer inside the bracket. No tolerance
// and no dependence on scheduling: the bracket widens by exactly as much as the evaluation was delayed.
func clockValues(c *run.Ctx) {
	if c.Shard != 0 {
		return
	}
	parse := func(s string) (int64, bool) {
		for _, r := range s {
			if (r < '0' || r > '9') && r != '-' {
				return 0, false
			}
		}
		var v int64
		_, err := fmt.Sscanf(s, "%d", &v)
		return v, err == nil
	}
	for round := 0; round < 3; round++ {
		for _, opt := range []bool{true, false} {
			for _, kw := range []string{"now", "live", "delta", "NOW", "Live"} {
				tpl := "{time " + kw + "}"
				cs := &Case{Kind: "clock", Tpl: tpl}
				c.Begin(cs, 60*time.Second)
				tc0 := time.Now().Unix()
				cc := compile(stdBuilder(opt), tpl)
				tc1 := time.Now().Unix()
				if cc.st != stOK {
					c.Violation("clock-compile:"+kw, fmt.Sprintf("%s does not compile (optimise=%v): %s", tpl, opt, cc.msg), cs)
					c.End()
					continue
				}
				if round > 0 {
					time.Sleep(time.Duration(300*round) * time.Millisecond)
				}
				ctx := Ctx{E: []string{"x"}, K: map[string]string{}}
				te0 := time.Now().Unix()
				s, p := eval(cc, &ctx)
				te1 := time.Now().Unix()
				c.End()
				if p || te1 < te0 || tc1 < tc0 || te0 < tc1 {
					c.Count("clock_probe_skipped", 1) // panic is C08's; a clock stepping backwards voids the bracket
					continue
				}
				v, ok := parse(s)
				lo, hi := tc0, tc1
				switch kw {
				case "live", "Live":
					lo, hi = te0, te1
				case "delta":
					lo, hi = te0-tc1, te1-tc0
				}
				c.Count("comparisons", 1)
				c.Count("cmp_clock_value_bracketed", 1)
				if !ok || v < lo || v > hi {
					c.Violation("clock-value:"+kw, fmt.Sprintf("%s (optimise=%v) evaluated to %s; the documented value is a decimal integer in [%d, %d] (clock read before and after by the harness: built in [%d,%d], evaluated in [%d,%d])",
						tpl, opt, run.Q(s), lo, hi, tc0, tc1, te0, te1), cs)
				}
			}
		}
	}
}
