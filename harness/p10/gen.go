package p10

import (
	"strconv"
	"strings"

	"verifharness/internal/run"
)

// ---------------------------------------------------------------- kinds

type kind int

const (
	kX  kind = iota // anything
	kT              // text
	kW              // one bare word
	kI              // integer
	kS              // small count 0..20 (the only kind fed to repeat / @range / bar / select)
	kN              // small signed -5..20 (substr position)
	kZ              // non-zero integer (the only kind fed to divi / modi as divisor)
	kF              // float
	kB              // truthy / falsy
	kA              // array (NUL separated)
	kJ              // json document
	kP              // path
	kD              // duration text
	kU              // unix seconds
	kTM             // time, layout "2006-01-02 15:04:05"
	kTR             // time, RFC3339
)

type slot struct {
	key string // "" for an index slot
	idx int
	k   kind
}

// The top-level match context: {0}..{7} and named keys, each with a kind.
var topIdx = []kind{kT, kI, kF, kS, kZ, kA, kB, kX}

var topKeys = []slot{
	{key: "s", k: kT}, {key: "n", k: kI}, {key: "f", k: kF}, {key: "k", k: kS}, {key: "z", k: kZ},
	{key: "arr", k: kA}, {key: "b", k: kB}, {key: "e", k: kX}, {key: "js", k: kJ}, {key: "p", k: kP},
	{key: "d", k: kD}, {key: "u", k: kU}, {key: "tm", k: kTM}, {key: "tr", k: kTR}, {key: "w", k: kW},
	{key: "m", k: kN},
}

func varCompat(want, have kind) bool {
	switch want {
	case kX, kT:
		return true
	case kI:
		return have == kI || have == kS || have == kN || have == kZ || have == kU
	case kN:
		return have == kN || have == kS
	case kF:
		return have == kF || have == kI || have == kS || have == kZ
	case kB:
		return have == kB
	}
	return want == have
}

var constPool = map[kind][]string{
	kT:  {"abc", "Hello", "hello world", "a b c", "x", "", "ünï", "foo-bar", "A1", "100", " ", "Hello World", "lo wor"},
	kX:  {"abc", "", "1", "x y", "0", "-3", "2.5", "Zed"},
	kW:  {"abc", "x", "foo", "ell", "a", "lo", "1", "wor"},
	kI:  {"0", "1", "-1", "7", "42", "-100", "1000", "123456789", "9223372036854775807", "-9223372036854775807", "2147483648", "50", "-50"},
	kS:  {"0", "1", "2", "3", "5", "10", "20"},
	kN:  {"-5", "-1", "0", "1", "2", "4", "20"},
	kZ:  {"1", "-1", "2", "3", "7", "-4", "10", "1000"},
	kF:  {"0", "1.5", "-2.25", "3", "100", "0.001", "1e3", "-0.5", "2.5", "10"},
	kB:  {"", "1", "x", "0", " "},
	kP:  {"/var/log/app.log", "file.txt", "a/b/c.tar.gz", "/", "."},
	kD:  {"1h", "90s", "1h30m", "2m", "bad"},
	kU:  {"0", "1700000000", "1680352200", "86399", "-1"},
	kTM: {"2023-04-01 12:30:00", "2021-12-31 23:59:59", "2000-01-01 00:00:00"},
	kTR: {"2023-04-01T12:30:00Z", "2021-12-31T23:59:59+02:00"},
	kJ:  {""},
}

// ---------------------------------------------------------------- helper table

type pmode int

const (
	mAny   pmode = iota // any tree of the kind
	mLeaf               // a constant or a variable, never a call
	mConst              // must be constant for the helper (documented / compile-time evaluated)
)

type pk struct {
	k    kind
	m    pmode
	lits []string
}

func av(k kind) pk       { return pk{k: k, m: mAny} }
func leaf(k kind) pk     { return pk{k: k, m: mLeaf} }
func cst(l ...string) pk { return pk{k: kT, m: mConst, lits: l} }

type hspec struct {
	n        string
	fx       []pk // fixed
	op       []pk // optional, in order
	va       *pk  // variadic tail
	vmin     int
	vmax     int
	ret      kind
	stateful func(args []*Node) bool
	noCLI    bool // output depends on terminal / colour detection of the process
}

var tzs = cst("", "utc", "America/New_York", "Europe/Paris")

func cachedFmt(pos int) func(args []*Node) bool {
	return func(args []*Node) bool {
		if len(args) <= pos {
			return true
		}
		f := strings.ToLower(args[pos].S)
		return args[pos].K != nLit || f == "" || f == "cache"
	}
}

func vp(p pk) *pk { return &p }

var table = []hspec{
	{n: "coalesce", va: vp(av(kX)), vmin: 1, vmax: 3, ret: kT},
	{n: "bucket", fx: []pk{av(kI), cst("10", "50", "100", "1", "7")}, ret: kI},
	{n: "bucketrange", fx: []pk{av(kI), cst("10", "50", "100", "1", "7")}, ret: kT},
	{n: "clamp", fx: []pk{av(kI), cst("0", "-10", "5"), cst("100", "10", "50")}, ret: kT},
	{n: "expbucket", fx: []pk{av(kI)}, ret: kI},
	{n: "isint", fx: []pk{av(kX)}, ret: kB},
	{n: "isnum", fx: []pk{av(kX)}, ret: kB},
	{n: "sumi", fx: []pk{av(kI), av(kI)}, va: vp(av(kI)), vmax: 2, ret: kI},
	{n: "subi", fx: []pk{av(kI), av(kI)}, va: vp(av(kI)), vmax: 1, ret: kI},
	{n: "multi", fx: []pk{av(kI), av(kI)}, va: vp(av(kI)), vmax: 1, ret: kI},
	{n: "maxi", fx: []pk{av(kI), av(kI)}, va: vp(av(kI)), vmax: 1, ret: kI},
	{n: "mini", fx: []pk{av(kI), av(kI)}, va: vp(av(kI)), vmax: 1, ret: kI},
	{n: "divi", fx: []pk{av(kI), leaf(kZ)}, va: vp(leaf(kZ)), vmax: 1, ret: kI},
	{n: "modi", fx: []pk{av(kI), leaf(kZ)}, ret: kI},
	{n: "sumf", fx: []pk{av(kF), av(kF)}, va: vp(av(kF)), vmax: 1, ret: kF},
	{n: "subf", fx: []pk{av(kF), av(kF)}, ret: kF},
	{n: "multf", fx: []pk{av(kF), av(kF)}, ret: kF},
	{n: "divf", fx: []pk{av(kF), av(kF)}, ret: kF},
	{n: "pow", fx: []pk{av(kF), leaf(kN)}, ret: kF},
	{n: "ceil", fx: []pk{av(kF)}, ret: kI},
	{n: "floor", fx: []pk{av(kF)}, ret: kI},
	{n: "log10", fx: []pk{av(kF)}, ret: kF},
	{n: "log2", fx: []pk{av(kF)}, ret: kF},
	{n: "ln", fx: []pk{av(kF)}, ret: kF},
	{n: "sqrt", fx: []pk{av(kF)}, ret: kF},
	{n: "round", fx: []pk{av(kF)}, op: []pk{cst("0", "1", "2", "3")}, ret: kF},
	{n: "if", fx: []pk{av(kB), av(kX)}, op: []pk{av(kX)}, ret: kT},
	{n: "unless", fx: []pk{av(kB), av(kX)}, ret: kT},
	{n: "eq", fx: []pk{av(kX), av(kX)}, va: vp(av(kX)), vmax: 1, ret: kB},
	{n: "neq", fx: []pk{av(kX), av(kX)}, ret: kB},
	{n: "not", fx: []pk{av(kB)}, ret: kB},
	{n: "lt", fx: []pk{av(kF), av(kF)}, ret: kB},
	{n: "gt", fx: []pk{av(kF), av(kF)}, ret: kB},
	{n: "lte", fx: []pk{av(kF), av(kF)}, ret: kB},
	{n: "gte", fx: []pk{av(kF), av(kF)}, ret: kB},
	{n: "and", va: vp(av(kB)), vmin: 1, vmax: 3, ret: kB},
	{n: "or", va: vp(av(kB)), vmin: 1, vmax: 3, ret: kB},
	{n: "len", fx: []pk{av(kX)}, ret: kI},
	{n: "like", fx: []pk{av(kT), av(kW)}, ret: kT},
	{n: "prefix", fx: []pk{av(kT), av(kW)}, ret: kT},
	{n: "suffix", fx: []pk{av(kT), av(kW)}, ret: kT},
	{n: "format", fx: []pk{cst("%s-%s", "%5s|", "%v", "[%s]", "%s", "%-4s.", "%s %s", "%q")}, va: vp(av(kX)), vmax: 3, ret: kT},
	{n: "substr", fx: []pk{av(kT), leaf(kN), leaf(kS)}, ret: kT},
	{n: "select", fx: []pk{av(kT), leaf(kS)}, ret: kT},
	{n: "upper", fx: []pk{av(kT)}, ret: kT},
	{n: "lower", fx: []pk{av(kT)}, ret: kT},
	{n: "tab", va: vp(av(kX)), vmin: 1, vmax: 3, ret: kT},
	{n: "$", va: vp(av(kX)), vmin: 1, vmax: 3, ret: kA},
	{n: "@", va: vp(av(kX)), vmin: 1, vmax: 4, ret: kA},
	{n: "@len", fx: []pk{av(kA)}, ret: kI},
	{n: "@split", fx: []pk{av(kT)}, op: []pk{cst(" ", ",", "-", ":")}, ret: kA},
	{n: "@select", fx: []pk{av(kA), cst("0", "1", "2", "-1", "-2", "3")}, ret: kT},
	{n: "@join", fx: []pk{av(kA)}, op: []pk{cst(", ", "-", "", "+")}, ret: kT},
	{n: "@slice", fx: []pk{av(kA), cst("0", "1", "2", "-1", "-2")}, op: []pk{cst("0", "1", "2", "3")}, ret: kA},
	{n: "@range", fx: []pk{leaf(kS)}, ret: kA},
	{n: "@range", fx: []pk{leaf(kS), leaf(kS)}, op: []pk{cst("1", "2", "3", "-1")}, ret: kA},
	{n: "basename", fx: []pk{av(kP)}, ret: kT},
	{n: "dirname", fx: []pk{av(kP)}, ret: kT},
	{n: "extname", fx: []pk{av(kP)}, ret: kT},
	{n: "lookup", fx: []pk{av(kW), cst("abc 1", "x y", "foo bar", "a")}, op: []pk{cst("", "//")}, ret: kT},
	{n: "haskey", fx: []pk{av(kW), cst("abc 1", "x y", "foo bar", "a")}, op: []pk{cst("", "//")}, ret: kB},
	{n: "hi", fx: []pk{av(kI)}, ret: kT},
	{n: "hf", fx: []pk{av(kF)}, ret: kT},
	{n: "bytesize", fx: []pk{av(kI)}, op: []pk{cst("0", "1", "2")}, ret: kT},
	{n: "bytesizesi", fx: []pk{av(kI)}, op: []pk{cst("0", "1", "2")}, ret: kT},
	{n: "downscale", fx: []pk{av(kI)}, op: []pk{cst("0", "1", "2")}, ret: kT},
	{n: "percent", fx: []pk{av(kF)}, op: []pk{cst("0", "1", "2"), av(kF), av(kF)}, ret: kT},
	{n: "csv", va: vp(av(kX)), vmin: 1, vmax: 3, ret: kT},
	{n: "time", fx: []pk{av(kTM)}, op: []pk{cst("", "cache", "auto", "2006-01-02 15:04:05"), tzs}, ret: kU, stateful: cachedFmt(1)},
	{n: "time", fx: []pk{av(kTR), cst("RFC3339", "auto")}, op: []pk{tzs}, ret: kU},
	{n: "timeformat", fx: []pk{av(kU)}, op: []pk{cst("RFC3339", "", "NGINX", "2006-01-02", "YEAR", "RFC1123"), tzs}, ret: kT},
	{n: "timeattr", fx: []pk{av(kU), cst("weekday", "week", "yearweek", "quarter")}, op: []pk{tzs}, ret: kT},
	{n: "buckettime", fx: []pk{av(kTM), cst("hours", "days", "months", "min", "years", "s")}, op: []pk{cst("", "auto", "2006-01-02 15:04:05"), tzs}, ret: kT, stateful: cachedFmt(2)},
	{n: "duration", fx: []pk{av(kD)}, ret: kI},
	{n: "durationformat", fx: []pk{av(kI)}, ret: kT},
	{n: "color", fx: []pk{cst("red", "blue", "green", "Cyan"), av(kX)}, ret: kT, noCLI: true},
	{n: "repeat", fx: []pk{cst("x", "ab", "-", "=="), leaf(kS)}, ret: kT},
	{n: "bar", fx: []pk{leaf(kS), cst("20", "100"), cst("5", "10")}, op: []pk{cst("linear", "log10", "log2")}, ret: kT, noCLI: true},
}

// helpers generated by dedicated code (irregular shapes)
var special = []struct {
	n   string
	ret kind
}{
	{"switch", kT}, {"@map", kA}, {"@filter", kA}, {"@reduce", kT}, {"@for", kA}, {"@in", kB}, {"!", kF}, {"json", kT},
}

func retCompat(want, ret kind) bool {
	switch want {
	case kX, kT:
		return true
	case kF:
		return ret == kF || ret == kI
	case kI:
		return ret == kI || ret == kU
	}
	return want == ret
}

func leafOnly(k kind) bool {
	switch k {
	case kS, kN, kZ, kW, kJ, kP, kD, kTM, kTR:
		return true
	}
	return false
}

// ---------------------------------------------------------------- generator

type ufunc struct {
	Name   string
	Params []kind
	Body   *Node // as written (may call earlier functions)
	Flat   *Node // body with every call of an earlier function inlined
}

type scope struct {
	idx    []kind
	keys   bool
	body   bool // outermost scope of a funcs-file body: {i} are the call's arguments
	shadow bool // element scope of @map / @filter / @reduce / @for
	maxIdx int  // body: parameters may be added on demand up to this many
}

type gen struct {
	r         *run.Rand
	pConst    float64
	pCall     float64
	forKeys   bool // named keys allowed in the sub-expressions of @for
	liveOK    bool
	users     []*ufunc
	stateful  bool
	noCLI     bool
	noLong    bool           // no 4-30 KiB literals in generated function bodies
	names     map[string]int // helper names used
	inReduce  int
	redefine  bool            // funcName may hand out the name of a built-in helper
	redefined map[string]bool // built-in names the generated funcs file defines
}

func newGen(r *run.Rand) *gen {
	return &gen{r: r, pConst: 0.5, pCall: 0.55, names: map[string]int{}}
}

func (g *gen) constLeaf(k kind, noLift bool) *Node {
	if k == kA {
		n := g.r.Intn(4)
		if n == 0 {
			return &Node{K: nLit, S: "", NoLift: noLift}
		}
		c := call("@")
		for i := 0; i < n; i++ {
			kk := kW
			if g.r.Intn(2) == 0 {
				kk = kS
			}
			c.A = append(c.A, g.constLeaf(kk, noLift))
		}
		if n == 1 {
			c.A = append(c.A, g.constLeaf(kW, noLift))
		}
		g.names["@"]++
		return c
	}
	if g.r.Intn(40) == 0 {
		k = kX // a constant of another kind now and then
	}
	pool := constPool[k]
	return &Node{K: nLit, S: pool[g.r.Intn(len(pool))], NoLift: noLift}
}

func (g *gen) pickVar(k kind, sc *scope) *Node {
	if sc.body && g.r.Intn(10) < 7 {
		// a funcs-file body mostly works on its arguments: reuse a parameter of a
		// fitting kind or declare a new one of exactly this kind
		var fit []int
		for i, have := range sc.idx {
			if varCompat(k, have) && (have == k || k == kX || k == kT || g.r.Intn(2) == 0) {
				fit = append(fit, i)
			}
		}
		if len(sc.idx) < sc.maxIdx && (len(fit) == 0 || g.r.Intn(3) == 0) {
			nk := k
			if nk == kX {
				nk = []kind{kT, kI, kF, kA, kB}[g.r.Intn(5)]
			}
			sc.idx = append(sc.idx, nk)
			return idx(len(sc.idx) - 1)
		}
		if len(fit) > 0 {
			return idx(fit[g.r.Intn(len(fit))])
		}
	}
	var cands []*Node
	var exact []*Node
	for i, have := range sc.idx {
		if varCompat(k, have) {
			cands = append(cands, idx(i))
			if have == k {
				exact = append(exact, idx(i))
			}
		}
	}
	if sc.keys {
		for _, s := range topKeys {
			if varCompat(k, s.k) {
				cands = append(cands, key(s.key))
				if s.k == k {
					exact = append(exact, key(s.key))
				}
			}
		}
	}
	if len(exact) > 0 && g.r.Intn(10) < 7 {
		return exact[g.r.Intn(len(exact))]
	}
	if len(cands) == 0 {
		return nil
	}
	return cands[g.r.Intn(len(cands))]
}

func (g *gen) leaf(k kind, sc *scope, inConst bool) *Node {
	if inConst || g.r.Chance(g.pConst) {
		return g.constLeaf(k, inConst)
	}
	if v := g.pickVar(k, sc); v != nil {
		return v
	}
	return g.constLeaf(k, inConst)
}

func (g *gen) gen(k kind, d int, sc *scope, inConst bool) *Node {
	if leafOnly(k) || d <= 0 || !g.r.Chance(g.pCall) {
		return g.leaf(k, sc, inConst)
	}
	// an argument made of several parts now and then
	if (k == kT || k == kX) && g.r.Intn(12) == 0 {
		c := cat()
		n := g.r.Range(2, 3)
		for i := 0; i < n; i++ {
			if g.r.Intn(2) == 0 {
				w := []string{"ab", "x", "-", "_", "id=", "é", "a b", " "}[g.r.Intn(8)]
				c.A = append(c.A, &Node{K: nLit, S: w, NoLift: true})
			} else {
				c.A = append(c.A, g.gen(kX, d-1, sc, inConst))
			}
		}
		return c
	}
	return g.callFor(k, d, sc, inConst)
}

func (g *gen) callFor(k kind, d int, sc *scope, inConst bool) *Node {
	// funcs-file functions first (when there are any)
	if len(g.users) > 0 && !inConst && g.r.Intn(4) == 0 {
		return g.userCall(g.users[g.r.Intn(len(g.users))], d, sc)
	}
	type cand struct {
		t int // index in table, or -1-special
	}
	var cs []int
	for i, h := range table {
		if retCompat(k, h.ret) {
			cs = append(cs, i)
		}
	}
	for i, s := range special {
		if retCompat(k, s.ret) {
			cs = append(cs, -1-i)
		}
	}
	if len(cs) == 0 {
		return g.leaf(k, sc, inConst)
	}
	c := cs[g.r.Intn(len(cs))]
	if c >= 0 {
		return g.tableCall(&table[c], d, sc, inConst)
	}
	if special[-1-c].n == "@reduce" && g.inReduce > 0 {
		return g.leaf(k, sc, inConst)
	}
	return g.specialCall(special[-1-c].n, d, sc, inConst)
}

func (g *gen) arg(p pk, d int, sc *scope, inConst bool) *Node {
	switch p.m {
	case mConst:
		if p.lits != nil {
			n := &Node{K: nLit, S: p.lits[g.r.Intn(len(p.lits))], NoLift: true}
			// a constant EXPRESSION in a constant-only position now and then
			if _, err := strconv.Atoi(n.S); err == nil && g.r.Intn(8) == 0 && n.S != "0" {
				v, _ := strconv.Atoi(n.S)
				g.names["sumi"]++
				return call("sumi", &Node{K: nLit, S: strconv.Itoa(v - 1), NoLift: true}, &Node{K: nLit, S: "1", NoLift: true})
			}
			return n
		}
		return g.gen(p.k, d-1, sc, true)
	case mLeaf:
		n := g.leaf(p.k, sc, inConst)
		n.R = true
		return n
	}
	return g.gen(p.k, d-1, sc, inConst)
}

func (g *gen) tableCall(h *hspec, d int, sc *scope, inConst bool) *Node {
	c := call(h.n)
	for _, p := range h.fx {
		c.A = append(c.A, g.arg(p, d, sc, inConst))
	}
	for _, p := range h.op {
		if g.r.Intn(2) == 0 {
			break
		}
		c.A = append(c.A, g.arg(p, d, sc, inConst))
	}
	if h.va != nil {
		n := g.r.Range(h.vmin, h.vmax)
		for i := 0; i < n; i++ {
			c.A = append(c.A, g.arg(*h.va, d, sc, inConst))
		}
	}
	if h.stateful != nil && h.stateful(c.A) {
		g.stateful = true
	}
	if h.noCLI {
		g.noCLI = true
	}
	g.names[h.n]++
	return c
}

func (g *gen) userCall(f *ufunc, d int, sc *scope) *Node {
	c := call(f.Name)
	c.User = true
	// exactly the declared arguments, fewer (missing ones are empty) or one more
	n := len(f.Params)
	switch x := g.r.Intn(10); {
	case x < 3 && n > 1:
		n = g.r.Range(1, n-1)
	case x < 5:
		n++
	}
	if n < 1 {
		n = 1 // {name} alone is a key lookup, not a call
	}
	for i := 0; i < n; i++ {
		k := kX
		if i < len(f.Params) {
			k = f.Params[i]
		}
		c.A = append(c.A, g.gen(k, d-1, sc, false))
	}
	return c
}

func (g *gen) sub(sc *scope, kinds ...kind) *scope {
	return &scope{idx: kinds, keys: sc.keys, shadow: true}
}

func (g *gen) specialCall(name string, d int, sc *scope, inConst bool) *Node {
	g.names[name]++
	switch name {
	case "switch":
		c := call("switch")
		n := g.r.Range(1, 2)
		for i := 0; i < n; i++ {
			c.A = append(c.A, g.gen(kB, d-1, sc, inConst), g.gen(kX, d-1, sc, inConst))
		}
		if g.r.Intn(2) == 0 {
			c.A = append(c.A, g.gen(kX, d-1, sc, inConst))
		}
		return c
	case "@map":
		return call("@map", g.gen(kA, d-1, sc, inConst), g.subExpr(kX, d-1, g.sub(sc, kX), inConst))
	case "@filter":
		return call("@filter", g.gen(kA, d-1, sc, inConst), g.subExpr(kB, d-1, g.sub(sc, kX), inConst))
	case "@reduce":
		// a reducer may use the memo several times (and csv doubles quotes), so
		// the result can grow geometrically with the array length: reduce over
		// at most 5 elements and never nest a @reduce inside a reducer
		arr := call("@slice", g.gen(kA, d-1, sc, inConst), &Node{K: nLit, S: "0", NoLift: true}, &Node{K: nLit, S: strconv.Itoa(g.r.Range(2, 5)), NoLift: true})
		g.inReduce++
		red := g.subExpr(kX, d-1, g.sub(sc, kX, kX), inConst)
		g.inReduce--
		c := call("@reduce", arr, red)
		if g.r.Intn(2) == 0 {
			c.A = append(c.A, &Node{K: nLit, S: []string{"", "0", "x"}[g.r.Intn(3)], NoLift: true})
		}
		return c
	case "@in":
		return call("@in", g.gen(kX, d-1, sc, inConst), g.constLeaf(kA, true))
	case "json":
		paths := []string{"a", "b.c", "arr.1", "arr.#", "missing", "b"}
		p := &Node{K: nLit, S: paths[g.r.Intn(len(paths))]}
		if (!sc.body || sc.shadow) && g.r.Intn(4) == 0 {
			return call("json", p) // one-argument form reads {0} of the current scope
		}
		j := g.pickVar(kJ, sc)
		if j == nil || inConst {
			j = g.leaf(kT, sc, inConst)
		}
		return call("json", j, p)
	case "!":
		return g.formula(sc, inConst)
	case "@for":
		// always terminates within 9 rounds whatever the context holds: the
		// continuation test is bounded on the round index {1}
		start := g.leaf(kS, sc, inConst)
		bound := &Node{K: nLit, S: strconv.Itoa(g.r.Range(1, 9)), NoLift: true}
		cond := call("lt", idx(1), bound)
		if g.forKeys && sc.keys && !inConst && g.r.Intn(2) == 0 {
			cond = call("and", call("lt", idx(1), key("k")), cond)
		} else if g.r.Intn(3) == 0 {
			cond = call("and", call("lt", idx(0), &Node{K: nLit, S: "40", NoLift: !g.forKeys}), cond)
		}
		var incr *Node
		switch g.r.Intn(4) {
		case 0:
			incr = call("sumi", idx(0), &Node{K: nLit, S: strconv.Itoa(g.r.Range(1, 7)), NoLift: !g.forKeys})
		case 1:
			incr = call("multi", idx(0), &Node{K: nLit, S: "2", NoLift: !g.forKeys})
		case 2:
			incr = cat(&Node{K: nLit, S: "x", NoLift: true}, idx(0))
		default:
			incr = call("sumi", idx(0), idx(1))
		}
		return call("@for", start, cond, incr)
	}
	return g.leaf(kX, sc, inConst)
}

// sub-expression of a range helper, evaluated in the element scope
func (g *gen) subExpr(k kind, d int, sub *scope, inConst bool) *Node {
	if d < 1 {
		d = 1
	}
	save := g.pConst
	if g.pConst < 1 {
		g.pConst = 0.25 // mostly use the element
	}
	n := g.callFor(k, d, sub, inConst)
	g.pConst = save
	return n
}

// formula for {! ...}: numbers, [i], [key], + - * / comparisons, a few functions.
// Never % << >> & | (their panics and int conversions belong to C08/C19).
func (g *gen) formula(sc *scope, inConst bool) *Node {
	m := &Node{K: nMath}
	emit := func(s string) {
		if len(m.A) > 0 && m.A[len(m.A)-1].K == nLit && !m.A[len(m.A)-1].Num {
			m.A[len(m.A)-1].S += s
			return
		}
		m.A = append(m.A, &Node{K: nLit, S: s})
	}
	var term func(d int)
	var expr func(d int)
	term = func(d int) {
		switch x := g.r.Intn(10); {
		case x < 4 || inConst && x < 7:
			nums := []string{"0", "1", "2", "3", "10", "2.5", "100", "0.5", "7"}
			m.A = append(m.A, &Node{K: nLit, S: nums[g.r.Intn(len(nums))], Num: true, NoLift: inConst})
		case x < 7:
			var v *Node
			if !inConst {
				v = g.pickVar([]kind{kI, kF, kS}[g.r.Intn(3)], sc)
			}
			if v == nil || g.r.Chance(g.pConst) {
				m.A = append(m.A, &Node{K: nLit, S: "4", Num: true, NoLift: inConst})
			} else {
				m.A = append(m.A, v)
			}
		case x < 8 && d > 0:
			emit([]string{"abs(", "floor(", "ceil(", "sqrt(", "round("}[g.r.Intn(5)])
			expr(d - 1)
			emit(")")
		case x < 9 && d > 0:
			emit("(")
			expr(d - 1)
			emit(")")
		default:
			emit("-")
			m.A = append(m.A, &Node{K: nLit, S: "3", Num: true, NoLift: inConst})
		}
	}
	expr = func(d int) {
		term(d)
		n := g.r.Intn(3)
		for i := 0; i < n; i++ {
			emit([]string{"+", "-", "*", "/", "+", "*", "<", "<=", ">", ">=", "==", "&&", "||", "^"}[g.r.Intn(14)])
			term(d)
		}
	}
	expr(2)
	return m
}

// template: 1..3 top-level parts
func (g *gen) template(d int, sc *scope) *Node {
	t := cat()
	n := g.r.Range(1, 3)
	texts := []string{"abc", "x=", " - ", "Total: ", "é", "a b", ";", "#", "id ", "%"}
	for i := 0; i < n; i++ {
		if n > 1 && g.r.Intn(3) == 0 {
			s := texts[g.r.Intn(len(texts))]
			if s == "#" && sc.body {
				s = "+"
			}
			t.A = append(t.A, &Node{K: nLit, S: s, NoLift: true})
		} else {
			t.A = append(t.A, g.callFor(kX, d, sc, false))
		}
	}
	return t
}

func topScope() *scope { return &scope{idx: topIdx, keys: true} }

// constSub reports whether the tree holds a call one of whose arguments is a
// constant sub-expression (the non-triviality rule of the property).
func constSub(n *Node) bool {
	var isConst func(n *Node) bool
	isConst = func(n *Node) bool {
		switch n.K {
		case nLit:
			return true
		case nIdx, nKey:
			return false
		}
		if n.K == nCall && n.User {
			return false
		}
		for _, a := range n.A {
			if !isConst(a) {
				return false
			}
		}
		return true
	}
	found := false
	walkAll(n, func(x *Node) {
		if x.K == nCall || x.K == nMath {
			for _, a := range x.A {
				if isConst(a) {
					found = true
				}
			}
		}
	})
	return found
}

// ---------------------------------------------------------------- lifting

// lift replaces a random subset of the liftable constants by named keys and
// returns the keys to add to every context. Constants in (or under) an
// argument the helper requires to be constant are never lifted.
func lift(r *run.Rand, n *Node, all bool, forKeys bool) (*Node, map[string]string) {
	out := n.clone()
	add := map[string]string{}
	cnt := 0
	var walk func(x *Node, noKeys bool)
	walk = func(x *Node, noKeys bool) {
		for i, a := range x.A {
			nk := noKeys
			if x.K == nCall && x.S == "@for" && (i == 1 || i == 2) && !forKeys {
				nk = true
			}
			if a.K == nLit && !a.NoLift && !nk && (x.K != nMath || a.Num) && (x.K == nCall || x.K == nMath) && !(x.K == nCall && x.User) {
				if x.K == nCall && x.S == "time" && i == 0 {
					continue
				}
				if all || r.Intn(2) == 0 {
					cnt++
					name := "c" + strconv.Itoa(cnt)
					add[name] = a.S
					x.A[i] = key(name)
					continue
				}
			}
			walk(a, nk)
		}
	}
	walk(out, false)
	return out, add
}
