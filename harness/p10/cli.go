package p10

import (
	"bytes"
	"context"
	"errors"
	"fmt"
	"os"
	"os/exec"
	"path/filepath"
	"sort"
	"strings"
	"time"

	"verifharness/internal/run"
)

// A few real CLI runs tie the in-process observations to main.go's wiring:
// `rare expression` (optimised) / `--no-optimize`, `rare --funcs f expression`
// and RARE_FUNC_FILES. stdout (raw, no newline) must equal the in-process
// unoptimised value of the template (of the inlined body for funcs cases).

func rareRun(c *run.Ctx, cs *Case, ctx *Ctx, noOpt bool, dir string) (out string, ok bool, diag string) {
	var args []string
	env := append(os.Environ(), "NO_COLOR=1")
	if cs.File != "" {
		files := []string{cs.File}
		if len(cs.Files) > 0 {
			files = cs.Files // the same definitions spread over several files, in order (later files call earlier ones)
		}
		var paths []string
		for i, content := range files {
			f := filepath.Join(dir, fmt.Sprintf("gen%d.funcs", i))
			if err := os.WriteFile(f, []byte(content), 0o644); err != nil {
				return "", false, err.Error()
			}
			paths = append(paths, f)
		}
		if cs.Env {
			env = append(env, "RARE_FUNC_FILES="+strings.Join(paths, ","))
		} else {
			for _, f := range paths {
				args = append(args, "--funcs", f)
			}
		}
	}
	args = append(args, "--nocolor", "expression", "-n", "-r")
	if noOpt {
		args = append(args, "--no-optimize")
	}
	for _, e := range ctx.E {
		args = append(args, "--data="+e)
	}
	keys := make([]string, 0, len(ctx.K))
	for k := range ctx.K {
		keys = append(keys, k)
	}
	sort.Strings(keys)
	for _, k := range keys {
		args = append(args, "--key="+k+"="+ctx.K[k])
	}
	args = append(args, "--", cs.Tpl)
	cctx, cancel := context.WithTimeout(context.Background(), 90*time.Second)
	defer cancel()
	cmd := exec.CommandContext(cctx, c.RareBin, args...)
	cmd.Env = env
	var so, se bytes.Buffer
	cmd.Stdout, cmd.Stderr = &so, &se
	err := cmd.Run()
	if err != nil {
		diag = fmt.Sprintf("%v; stderr: %s", err, run.Q(se.String()))
		var ee *exec.ExitError
		if errors.As(err, &ee) && ee.Exited() && cctx.Err() == nil {
			return so.String(), false, "exit:" + diag // the CLI itself refused / failed
		}
		return so.String(), false, diag // could not run it (environment, timeout): never a verdict
	}
	return so.String(), true, ""
}

func runCLI(c *run.Ctx, cs *Case) bool {
	if c.RareBin == "" {
		c.Count("cli_skipped_no_binary", 1)
		return true
	}
	k := &checker{c: c, cs: cs, ok: true}
	refTpl := cs.Tpl
	if cs.File != "" {
		refTpl = cs.Ref
	}
	ref := compile(stdBuilder(false), refTpl)
	if ref.st != stOK {
		abstain(c, "abstain_compile")
		return true
	}
	dir, err := os.MkdirTemp(c.WorkDir, "cli")
	if err != nil {
		c.Inconclusive("cannot create scratch dir: " + err.Error())
		return true
	}
	defer os.RemoveAll(dir)
	for i := range cs.Ctxs {
		ctx := &cs.Ctxs[i]
		passable := true
		for _, v := range ctx.E {
			passable = passable && cliSafe(v)
		}
		for _, v := range ctx.K {
			passable = passable && cliSafe(v)
		}
		if !passable {
			c.Count("cli_context_not_passable", 1) // argv / flag parsing would alter it
			continue
		}
		// the CLI adds its own special keys; none of them is used by the generated templates
		want, p := eval(ref, ctx)
		if p {
			abstain(c, "abstain_panic")
			continue
		}
		for _, noOpt := range []bool{false, true} {
			got, ok, diag := rareRun(c, cs, ctx, noOpt, dir)
			if !ok {
				c.Count("cli_run_failed", 1)
				// The same template compiled in-process without any error, with the
				// same functions loaded the same way: the CLI refusing it means
				// main.go's wiring (funcs registration, flags) diverges.
				if strings.HasPrefix(diag, "exit:") && inProcessCompiles(cs, !noOpt) {
					k.fail(k.fp("cli-exit"), fmt.Sprintf("rare (funcs file %s) expression %s failed: %s, but the same template compiles and evaluates in-process (value %s)",
						run.Q(cs.File), run.Q(cs.Tpl), diag, run.Q(want)))
					return false
				}
				c.Note("cli run failed: " + diag)
				continue
			}
			c.Count("comparisons", 1)
			c.Count("cmp_cli_vs_inprocess", 1)
			if got != want {
				what := "rare expression"
				if cs.File != "" {
					what = "rare --funcs <file> expression"
					if cs.Env {
						what = "RARE_FUNC_FILES=<file> rare expression"
					}
				}
				if noOpt {
					what += " --no-optimize"
				}
				k.fail(k.fp("cli"), fmt.Sprintf("%s %s printed %s, the in-process unoptimised value of %s is %s; funcs file %s; context %s",
					what, run.Q(cs.Tpl), run.Q(got), run.Q(refTpl), run.Q(want), run.Q(cs.File), ctxStr(ctx)))
				return false
			}
		}
	}
	return k.ok
}

func cliCases(c *run.Ctx) {
	N := c.N(48, 640)
	for i := 0; i < N; i++ {
		if !c.Mine(i) {
			continue
		}
		r := c.Rand("cli", i)
		g := newGen(r)
		g.pConst = modeOf(r)
		var cs *Case
		for try := 0; try < 30 && cs == nil; try++ {
			g.stateful, g.noCLI, g.users = false, false, nil
			if i%2 == 0 {
				tree := g.template(r.Range(1, 3), topScope())
				tpl, ok := Print(tree)
				if ok && !g.noCLI && cliTemplateOK(tpl) {
					cs = &Case{Kind: "cli", Tpl: tpl}
				}
				continue
			}
			g.redefine, g.redefined = i%4 == 1, nil // every second funcs case: a definition under a built-in's name
			fs, ok := g.genFuncs()
			if !ok {
				continue
			}
			file, ok := g.layout(fs)
			if !ok {
				continue
			}
			var parts []string
			if len(fs) >= 2 && i%3 == 1 {
				// the same definitions in two files: the second one may call functions of the first
				k := 1 + r.Intn(len(fs)-1)
				f1, ok1 := g.layout(fs[:k])
				f2, ok2 := g.layout(fs[k:])
				if ok1 && ok2 {
					parts = []string{f1, f2}
					file = f1 + "\n" + f2
				}
			}
			tree := g.callSite(fs, 2)
			both := builtinUse(tree, g.redefined)
			for _, f := range fs {
				both = both || builtinUse(f.Body, g.redefined)
			}
			if both {
				continue
			}
			if len(g.redefined) > 0 {
				c.Count("cli_cases_redefining_a_builtin", 1)
			}
			tpl, ok1 := Print(tree)
			inl, ok2 := inlineUsers(tree, fs)
			if !ok1 || !ok2 {
				continue
			}
			ref, ok3 := Print(inl)
			if ok3 && !g.noCLI && !g.stateful && cliTemplateOK(tpl) {
				cs = &Case{Kind: "cli", Tpl: tpl, Ref: ref, File: file, Files: parts, Env: r.Intn(3) == 0}
				if len(parts) > 0 {
					c.Count("cli_cases_with_two_funcs_files", 1)
				}
			}
		}
		if cs == nil {
			c.Count("discarded_unprintable", 1)
			continue
		}
		cs.Ctxs = []Ctx{genCtx(r, 0, true)}
		if r.Intn(3) == 0 {
			cs.Ctxs = append(cs.Ctxs, genCtx(r, 1, true))
		}
		c.Begin(cs, 300*time.Second)
		c.Nontrivial("cli", cs.File, cs.Tpl)
		c.Count("cli_cases", 1)
		runCase(c, cs)
		c.End()
	}
}

func inProcessCompiles(cs *Case, opt bool) bool {
	kb := stdBuilder(opt)
	if cs.File != "" {
		var st int
		kb, st, _ = funcsBuilder(cs.File, true, opt)
		if st != stOK {
			return false
		}
	}
	return compile(kb, cs.Tpl).st == stOK
}

// templates with a NUL byte cannot be passed in argv
func cliTemplateOK(t string) bool { return !strings.ContainsRune(t, 0) && t != "" && t != "-" }

// ---------------------------------------------------------------- global flags and funcs files

// A funcs-file function must behave like its inlined body under every global flag that
// changes what helpers print (--noformat, --color / --nocolor, --nounicode): main.go
// applies those flags and loads the funcs files in one Before hook, and constant
// sub-expressions of a body are folded when the file is loaded. Differential, both sides
// through the real binary with identical flags: `rare <flags> --funcs f expression
// '{fn {0}}'` against `rare <flags> expression '<body>'`, each optimised and with
// --no-optimize. No in-process model of the flags is involved.

var flagBodies = []string{
	"Total: {hi 1500000} of {hi {0}}",
	"{hf 1234567.5} / {hf {0}}",
	"{bytesize 1048576}/{bytesize {0}}",
	"{bytesizesi 1500000}/{bytesizesi {0}}",
	"{downscale 1500000}~{downscale {0}}",
	"{color red HIT} {color blue {0}}",
	"{bar 3 10 10}|{bar {1} 10 10}",
	"{percent 0.25}:{percent {2}}",
	"{repeat - 3}{hi 1000}{0}",
}

var flagSets = [][]string{{"--noformat"}, {"--color"}, {"--nocolor"}, {"--nounicode"}, {"--noformat", "--color"}, {"--nounicode", "--noformat"}, {"--nu", "--color"}, {}}

type flagRun struct {
	out  string
	ok   bool
	diag string
}

func rareFlagRun(c *run.Ctx, flags []string, funcsFile string, funcsFirst, noOpt bool, tpl string, data []string) flagRun {
	var args []string
	if funcsFile != "" && funcsFirst {
		args = append(args, "--funcs", funcsFile)
	}
	args = append(args, flags...)
	if funcsFile != "" && !funcsFirst {
		args = append(args, "--funcs", funcsFile)
	}
	args = append(args, "expression", "-n", "-r")
	if noOpt {
		args = append(args, "--no-optimize")
	}
	for _, e := range data {
		args = append(args, "--data="+e)
	}
	args = append(args, "--", tpl)
	cctx, cancel := context.WithTimeout(context.Background(), 90*time.Second)
	defer cancel()
	cmd := exec.CommandContext(cctx, c.RareBin, args...)
	var env []string
	for _, e := range os.Environ() {
		if strings.HasPrefix(e, "NO_COLOR=") || strings.HasPrefix(e, "RARE_FUNC_FILES=") {
			continue
		}
		env = append(env, e)
	}
	cmd.Env = env
	var so, se bytes.Buffer
	cmd.Stdout, cmd.Stderr = &so, &se
	if err := cmd.Run(); err != nil {
		return flagRun{so.String(), false, fmt.Sprintf("%v; stderr %s", err, run.Q(se.String()))}
	}
	return flagRun{so.String(), true, ""}
}

func runCLIFlags(c *run.Ctx, cs *Case) bool {
	if c.RareBin == "" {
		c.Count("cli_skipped_no_binary", 1)
		return true
	}
	k := &checker{c: c, cs: cs, ok: true}
	dir, err := os.MkdirTemp(c.WorkDir, "cliflags")
	if err != nil {
		c.Inconclusive("cannot create scratch dir: " + err.Error())
		return true
	}
	defer os.RemoveAll(dir)
	f := filepath.Join(dir, "gen.funcs")
	if err := os.WriteFile(f, []byte(cs.File), 0o644); err != nil {
		c.Inconclusive("cannot write funcs file: " + err.Error())
		return true
	}
	data := cs.Ctxs[0].E
	for _, noOpt := range []bool{false, true} {
		inl := rareFlagRun(c, cs.Flags, "", false, noOpt, cs.Ref, data)
		call := rareFlagRun(c, cs.Flags, f, cs.Env, noOpt, cs.Tpl, data)
		if !inl.ok || !call.ok {
			c.Count("cli_run_failed", 1)
			c.Note("cli flag run failed: " + inl.diag + call.diag)
			continue
		}
		c.Count("comparisons", 1)
		c.Count("cmp_cli_flags_call_vs_inline", 1)
		if inl.out != call.out {
			k.fail(k.fp("cli-flags"), fmt.Sprintf("rare %s --funcs <file> expression%s %s printed %s, but the inlined body %s under the same flags prints %s; funcs file %s; data %q",
				strings.Join(cs.Flags, " "), map[bool]string{true: " --no-optimize", false: ""}[noOpt], run.Q(cs.Tpl), run.Q(call.out), run.Q(cs.Ref), run.Q(inl.out), run.Q(cs.File), data))
			return false
		}
	}
	return k.ok
}

func cliFlagCases(c *run.Ctx) {
	N := c.N(27, 270)
	for i := 0; i < N; i++ {
		if !c.Mine(i) {
			continue
		}
		r := c.Rand("cliflags", i)
		body := flagBodies[i%len(flagBodies)]
		flags := flagSets[(i/len(flagBodies)+i)%len(flagSets)]
		name := "ff" + string(rune('a'+r.Intn(26)))
		file := name + " " + body + "\n"
		if r.Bool() {
			file = "# flags case\n\n" + name + " " + strings.Replace(body, " ", " \\\n   ", 1) + "\n"
			if !strings.Contains(body, " ") {
				file = name + " " + body + "\n"
			}
		}
		data := []string{r.Pick([]string{"2500000", "1234.5", "999", "0"}), r.Pick([]string{"7", "3"}), "0.5"}
		tpl := "{" + name + " {0} {1} {2}}"
		cs := &Case{Kind: "cliflags", Tpl: tpl, Ref: body, File: file, Flags: flags, Env: r.Bool(), Ctxs: []Ctx{{E: data, K: map[string]string{}}}}
		c.Begin(cs, 300*time.Second)
		c.Nontrivial("cliflags", strings.Join(flags, " "), body)
		c.Count("cli_flag_cases", 1)
		runCase(c, cs)
		c.End()
	}
}
