package p10

import (
	"bytes"
	"context"
	"errors"
	"fmt"
	"os"
	"os/exec"
	"path/filepath"
	"sort"
	"strings"
	"time"

	"verifharness/internal/run"
)

// A few real CLI runs tie the in-process observations to main.go's wiring:
// `rare expression` (optimised) / `--no-optimize`, `rare --funcs f expression`
// and RARE_FUNC_FILES. stdout (raw, no newline) must equal the in-process
// unoptimised value of the template (of the inlined body for funcs cases).

func rareRun(c *run.Ctx, cs *Case, ctx *Ctx, noOpt bool, dir string) (out string, ok bool, diag string) {
	var args []string
	env := append(os.Environ(), "NO_COLOR=1")
	if cs.File != "" {
		f := filepath.Join(dir, "gen.funcs")
		if err := os.WriteFile(f, []byte(cs.File), 0o644); err != nil {
			return "", false, err.Error()
		}
		if cs.Env {
			env = append(env, "RARE_FUNC_FILES="+f)
		} else {
			args = append(args, "--funcs", f)
		}
	}
	args = append(args, "--nocolor", "expression", "-n", "-r")
	if noOpt {
		args = append(args, "--no-optimize")
	}
	for _, e := range ctx.E {
		args = append(args, "--data="+e)
	}
	keys := make([]string, 0, len(ctx.K))
	for k := range ctx.K {
		keys = append(keys, k)
	}
	sort.Strings(keys)
	for _, k := range keys {
		args = append(args, "--key="+k+"="+ctx.K[k])
	}
	args = append(args, "--", cs.Tpl)
	cctx, cancel := context.WithTimeout(context.Background(), 90*time.Second)
	defer cancel()
	cmd := exec.CommandContext(cctx, c.RareBin, args...)
	cmd.Env = env
	var so, se bytes.Buffer
	cmd.Stdout, cmd.Stderr = &so, &se
	err := cmd.Run()
	if err != nil {
		diag = fmt.Sprintf("%v; stderr: %s", err, run.Q(se.String()))
		var ee *exec.ExitError
		if errors.As(err, &ee) && ee.Exited() && cctx.Err() == nil {
			return so.String(), false, "exit:" + diag // the CLI itself refused / failed
		}
		return so.String(), false, diag // could not run it (environment, timeout): never a verdict
	}
	return so.String(), true, ""
}

func runCLI(c *run.Ctx, cs *Case) bool {
	if c.RareBin == "" {
		c.Count("cli_skipped_no_binary", 1)
		return true
	}
	k := &checker{c: c, cs: cs, ok: true}
	refTpl := cs.Tpl
	if cs.File != "" {
		refTpl = cs.Ref
	}
	ref := compile(stdBuilder(false), refTpl)
	if ref.st != stOK {
		abstain(c, "abstain_compile")
		return true
	}
	dir, err := os.MkdirTemp(c.WorkDir, "cli")
	if err != nil {
		c.Inconclusive("cannot create scratch dir: " + err.Error())
		return true
	}
	defer os.RemoveAll(dir)
	for i := range cs.Ctxs {
		ctx := &cs.Ctxs[i]
		passable := true
		for _, v := range ctx.E {
			passable = passable && cliSafe(v)
		}
		for _, v := range ctx.K {
			passable = passable && cliSafe(v)
		}
		if !passable {
			c.Count("cli_context_not_passable", 1) // argv / flag parsing would alter it
			continue
		}
		// the CLI adds its own special keys; none of them is used by the generated templates
		want, p := eval(ref, ctx)
		if p {
			abstain(c, "abstain_panic")
			continue
		}
		for _, noOpt := range []bool{false, true} {
			got, ok, diag := rareRun(c, cs, ctx, noOpt, dir)
			if !ok {
				c.Count("cli_run_failed", 1)
				// The same template compiled in-process without any error, with the
				// same functions loaded the same way: the CLI refusing it means
				// main.go's wiring (funcs registration, flags) diverges.
				if strings.HasPrefix(diag, "exit:") && inProcessCompiles(cs, !noOpt) {
					k.fail(k.fp("cli-exit"), fmt.Sprintf("rare (funcs file %s) expression %s failed: %s, but the same template compiles and evaluates in-process (value %s)",
						run.Q(cs.File), run.Q(cs.Tpl), diag, run.Q(want)))
					return false
				}
				c.Note("cli run failed: " + diag)
				continue
			}
			c.Count("comparisons", 1)
			c.Count("cmp_cli_vs_inprocess", 1)
			if got != want {
				what := "rare expression"
				if cs.File != "" {
					what = "rare --funcs <file> expression"
					if cs.Env {
						what = "RARE_FUNC_FILES=<file> rare expression"
					}
				}
				if noOpt {
					what += " --no-optimize"
				}
				k.fail(k.fp("cli"), fmt.Sprintf("%s %s printed %s, the in-process unoptimised value of %s is %s; funcs file %s; context %s",
					what, run.Q(cs.Tpl), run.Q(got), run.Q(refTpl), run.Q(want), run.Q(cs.File), ctxStr(ctx)))
				return false
			}
		}
	}
	return k.ok
}

func cliCases(c *run.Ctx) {
	N := c.N(48, 640)
	for i := 0; i < N; i++ {
		if !c.Mine(i) {
			continue
		}
		r := c.Rand("cli", i)
		g := newGen(r)
		g.pConst = modeOf(r)
		var cs *Case
		for try := 0; try < 30 && cs == nil; try++ {
			g.stateful, g.noCLI, g.users = false, false, nil
			if i%2 == 0 {
				tree := g.template(r.Range(1, 3), topScope())
				tpl, ok := Print(tree)
				if ok && !g.noCLI && cliTemplateOK(tpl) {
					cs = &Case{Kind: "cli", Tpl: tpl}
				}
				continue
			}
			fs, ok := g.genFuncs()
			if !ok {
				continue
			}
			file, ok := g.layout(fs)
			if !ok {
				continue
			}
			tree := g.callSite(fs, 2)
			tpl, ok1 := Print(tree)
			inl, ok2 := inlineUsers(tree, fs)
			if !ok1 || !ok2 {
				continue
			}
			ref, ok3 := Print(inl)
			if ok3 && !g.noCLI && !g.stateful && cliTemplateOK(tpl) {
				cs = &Case{Kind: "cli", Tpl: tpl, Ref: ref, File: file, Env: r.Intn(3) == 0}
			}
		}
		if cs == nil {
			c.Count("discarded_unprintable", 1)
			continue
		}
		cs.Ctxs = []Ctx{genCtx(r, 0, true)}
		if r.Intn(3) == 0 {
			cs.Ctxs = append(cs.Ctxs, genCtx(r, 1, true))
		}
		c.Begin(cs, 300*time.Second)
		c.Nontrivial("cli", cs.File, cs.Tpl)
		c.Count("cli_cases", 1)
		runCase(c, cs)
		c.End()
	}
}

func inProcessCompiles(cs *Case, opt bool) bool {
	kb := stdBuilder(opt)
	if cs.File != "" {
		var st int
		kb, st, _ = funcsBuilder(cs.File, true, opt)
		if st != stOK {
			return false
		}
	}
	return compile(kb, cs.Tpl).st == stOK
}

// templates with a NUL byte cannot be passed in argv
func cliTemplateOK(t string) bool { return !strings.ContainsRune(t, 0) && t != "" && t != "-" }
