package p10

import (
	"fmt"
	"strings"
	"time"

	"verifharness/internal/run"
)

// Text-level funcs-file cases. The tree generator of funcs.go never writes an escape
// and breaks lines only at argument separators; here the body is TEXT with escaped
// characters outside braces (\\ \{ \} \n \t) and the continuation backslash may sit
// anywhere a line may be broken without losing characters (the loader trims each
// physical line, so a piece must not begin with white space), in particular directly
// after an escaped backslash. The statement's claim is layout independence:
// "a function loaded from a funcs file (with comments, blank lines and
// backslash-continued lines) behaves exactly like its body written inline".
//
// Reference programs: the inlined body (arguments substituted as text), and the same
// definition on one physical line (Canon).

type seg struct {
	kind int    // 0 literal text (already escaped), 1 {i}, 2 {key}, 3 call using {i}
	text string // rendering inside the body
	idx  int
}

var litRunes = []string{"a", "b", "Z", "0", "7", " ", " ", ".", ",", ":", ";", "=", "/", "-", "_", "(", ")", "[", "]", "<", ">", "|", "!", "?", "*", "+", "~", "^", "%", "$", "&", "@", "'", "é", "日",
	`\\`, `\\`, `\\`, `\{`, `\}`, `\n`, `\t`, `\"`}

var layoutCalls = []string{"{upper {%d}}", "{len {%d}}", "{prefix {%d} ab}", "{if {%d} yes no}", "{sumi {%d} 1}", "{coalesce {%d} none}", "{substr {%d} 0 2}"}

type targ struct {
	lit bool
	s   string // literal value (no characters that need escaping) or a reference like {1} / {k}
}

func (a targ) inBraces() string {
	if a.lit {
		return `"` + a.s + `"`
	}
	return a.s
}

func (a targ) topLevel() string { return a.s }

func genLayoutCase(r *run.Rand) *Case {
	name := "fn" + string(rune('a'+r.Intn(26))) + string(rune('a'+r.Intn(26)))
	np := r.Range(1, 3)
	var segs []seg
	n := r.Range(2, 7)
	for i := 0; i < n; i++ {
		switch r.Intn(5) {
		case 0, 1:
			var sb strings.Builder
			for k := r.Range(1, 6); k > 0; k-- {
				sb.WriteString(litRunes[r.Intn(len(litRunes))])
			}
			segs = append(segs, seg{kind: 0, text: sb.String()})
		case 2:
			ix := r.Intn(np)
			segs = append(segs, seg{kind: 1, text: fmt.Sprintf("{%d}", ix), idx: ix})
		case 3:
			segs = append(segs, seg{kind: 2, text: "{" + r.Pick([]string{"k", "src", "word"}) + "}"})
		default:
			ix := r.Intn(np)
			segs = append(segs, seg{kind: 3, text: fmt.Sprintf(layoutCalls[r.Intn(len(layoutCalls))], ix), idx: ix})
		}
	}
	// a body cannot begin or end with white space, nor end with a backslash (a last line ending in "\" is a continuation)
	if segs[0].kind == 0 {
		segs[0].text = strings.TrimLeft(segs[0].text, " ")
		if segs[0].text == "" {
			segs[0].text = "x"
		}
	}
	last := &segs[len(segs)-1]
	if last.kind == 0 {
		last.text = strings.TrimRight(last.text, " ")
		if last.text == "" || strings.HasSuffix(last.text, `\`) || strings.HasSuffix(last.text, `\n`) || strings.HasSuffix(last.text, `\t`) {
			last.text += "e"
		}
	}
	var body strings.Builder
	for _, s := range segs {
		body.WriteString(s.text)
	}
	B := body.String()
	// call site and inlined reference
	args := make([]targ, np)
	for i := range args {
		switch r.Intn(4) {
		case 0:
			args[i] = targ{lit: true, s: r.Pick([]string{"", "abc", "a b", "Hello World", "42", "x,y"})}
		case 1:
			args[i] = targ{s: "{k}"}
		default:
			args[i] = targ{s: fmt.Sprintf("{%d}", r.Intn(3))}
		}
	}
	nargs := np
	if r.Intn(4) == 0 {
		nargs = r.Range(1, np) // missing arguments read as empty ({name} without arguments is a key lookup, not a call)
	}
	var call strings.Builder
	call.WriteString("{" + name)
	for i := 0; i < nargs; i++ {
		call.WriteString(" " + args[i].inBraces())
	}
	call.WriteString("}")
	arg := func(i int) targ {
		if i < nargs {
			return args[i]
		}
		return targ{lit: true, s: ""}
	}
	var inl strings.Builder
	for _, s := range segs {
		switch s.kind {
		case 1:
			inl.WriteString(arg(s.idx).topLevel())
		case 3:
			inl.WriteString(strings.Replace(s.text, fmt.Sprintf("{%d}", s.idx), arg(s.idx).inBraces(), 1))
		default:
			inl.WriteString(s.text)
		}
	}
	pre, post := r.Pick([]string{"", "v=", "[ "}), r.Pick([]string{"", " ]", "!"})
	cs := &Case{Kind: "funcs", Tpl: pre + call.String() + post, Ref: pre + inl.String() + post, Canon: name + " " + B + "\n"}
	cs.File = layoutText(r, name, B)
	return cs
}

// layoutText breaks "name B" into physical lines. A break may be placed before any
// byte of B that is not white space and not inside a UTF-8 sequence; each broken line
// ends in "\" (optionally followed by blanks and a comment). Comment lines and blank
// lines may be interleaved, lines may be indented.
func layoutText(r *run.Rand, name, B string) string {
	var cand []int
	for i := 1; i < len(B); i++ {
		if B[i] == ' ' || B[i] == '\t' || B[i]&0xC0 == 0x80 {
			continue
		}
		cand = append(cand, i)
	}
	breaks := map[int]bool{}
	// directed: right after an escaped backslash (the line then ends in three backslashes)
	for i := 2; i < len(B); i++ {
		if B[i-2] == '\\' && B[i-1] == '\\' && r.Intn(2) == 0 && B[i] != ' ' && B[i]&0xC0 != 0x80 {
			// make sure B[i-2..i-1] is a complete escape pair: count the run of backslashes ending at i-1
			k := 0
			for j := i - 1; j >= 0 && B[j] == '\\'; j-- {
				k++
			}
			if k%2 == 0 {
				breaks[i] = true
			}
		}
	}
	for k := r.Intn(4); k > 0 && len(cand) > 0; k-- {
		breaks[cand[r.Intn(len(cand))]] = true
	}
	indent := func() string { return strings.Repeat(" ", r.Intn(4)) + []string{"", "\t"}[r.Intn(4)/3] }
	var sb strings.Builder
	noise := func() {
		for r.Intn(4) == 0 {
			if r.Bool() {
				sb.WriteString(indent() + "# " + r.Pick([]string{"comment", "{0}", "trailing \\", "x }"}) + "\n")
			} else {
				sb.WriteString(r.Pick([]string{"", "  ", "\t"}) + "\n")
			}
		}
	}
	noise()
	sb.WriteString(indent() + name + " ")
	if r.Intn(6) == 0 {
		sb.WriteString("\\\n") // the body may start on the next line: "name \" keeps the single separator
		noise()
		sb.WriteString(indent())
	}
	for i := 0; i < len(B); i++ {
		if breaks[i] {
			sb.WriteString("\\")
			switch r.Intn(5) {
			case 0:
				sb.WriteString(" # note")
			case 1:
				sb.WriteString("  ")
			case 2:
				sb.WriteString("#x")
			}
			sb.WriteString("\n")
			noise()
			sb.WriteString(indent())
		}
		sb.WriteByte(B[i])
	}
	if r.Intn(4) == 0 {
		sb.WriteString("  # end")
	}
	sb.WriteString("\n")
	noise()
	return sb.String()
}

func layoutCases(c *run.Ctx) {
	N := c.N(6000, 90000)
	for i := 0; i < N; i++ {
		if !c.Mine(i) {
			continue
		}
		r := c.Rand("layout", i)
		cs := genLayoutCase(r)
		cs.Ctxs = genCtxs(r, false)
		for j := range cs.Ctxs {
			cs.Ctxs[j] = cs.Ctxs[j].with(map[string]string{"k": r.Pick([]string{"", "kv", "a b", "7"}), "src": "in.log", "word": word(r)})
		}
		c.Begin(cs, 0)
		c.Nontrivial("layout", cs.File, cs.Tpl)
		c.Count("layout_cases", 1)
		c.Count("layout_continuation_lines", int64(strings.Count(cs.File, "\\\n")+strings.Count(cs.File, "\\ ")+strings.Count(cs.File, "\\#")))
		if strings.Contains(cs.File, "\\\\\\\n") || strings.Contains(cs.File, "\\\\\\ ") || strings.Contains(cs.File, "\\\\\\#") {
			c.Count("layout_break_after_escaped_backslash", 1)
		}
		if i < 2 {
			c.Sample(map[string]any{"kind": "funcs-layout", "file": cs.File, "call": cs.Tpl, "inlined": cs.Ref})
		}
		runCase(c, cs)
		c.End()
		if c.Violations() >= 6 {
			return
		}
	}
	_ = time.Second
}
