package p10

import (
	"strconv"
	"strings"
)

// The expression tree every generated template / funcs-file body is built
// from. Templates are PRINTED from trees (never parsed back), so that the
// inlined reference of a funcs-file call can be produced by substitution on
// trees, independently of rare's own parser.

type nk int

const (
	nLit  nk = iota // constant text
	nIdx            // {i}      index variable of the current scope
	nKey            // {name}   named key (passes through every sub-scope)
	nCall           // {name a b ..}
	nCat            // concatenation (a whole template, or one argument made of several parts)
	nMath           // {! formula}; A = tokens: nLit raw formula text, nIdx -> [i], nKey -> [name]
)

type Node struct {
	K      nk
	S      string // literal text | key name | helper name
	I      int    // index of nIdx
	A      []*Node
	User   bool // call of a funcs-file function
	NoLift bool // literal sits in (or under) an argument the helper requires to be constant
	Num    bool // literal is a canonical decimal number token inside a formula
	R      bool // sits in a restricted argument (count / divisor / position): only small or non-zero values may go there
}

func lit(s string) *Node   { return &Node{K: nLit, S: s} }
func idx(i int) *Node      { return &Node{K: nIdx, I: i} }
func key(s string) *Node   { return &Node{K: nKey, S: s} }
func cat(p ...*Node) *Node { return &Node{K: nCat, A: p} }
func call(name string, a ...*Node) *Node {
	return &Node{K: nCall, S: name, A: a}
}

func (n *Node) clone() *Node {
	if n == nil {
		return nil
	}
	c := *n
	if n.A != nil {
		c.A = make([]*Node, len(n.A))
		for i, a := range n.A {
			c.A[i] = a.clone()
		}
	}
	return &c
}

// shadowArg: argument positions whose sub-expression is evaluated in a fresh
// index scope ({0} = element / memo, {1} = element / index): documented for
// @map, @reduce, @filter and @for.
func shadowArg(name string, i int) bool {
	switch name {
	case "@map", "@filter", "@reduce":
		return i == 1
	case "@for":
		return i == 1 || i == 2
	}
	return false
}

// ---------------------------------------------------------------- printing

const (
	mkSep   = "\x01" // an argument separator (exactly one space in the plain rendering)
	mkClose = "\x02" // right before the closing brace of a call (nothing in the plain rendering)
)

func validConst(s string) bool {
	for _, r := range s {
		switch r {
		case '"', '\\', '{', '}', '\x01', '\x02':
			return false
		}
		if r < 0x20 || r == 0x7f {
			return false
		}
	}
	return true
}

func hasSpace(s string) bool { return strings.ContainsRune(s, ' ') }

// bare: can be written as an unquoted argument.
func bare(s string) bool {
	if s == "" {
		return false
	}
	for _, r := range s {
		if r == ' ' || r > 0x7e && !(r >= 0xc0 && r <= 0x24f) { // ASCII + Latin letters only
			return false
		}
	}
	return validConst(s)
}

type printer struct {
	marks bool
	fail  string
}

func (p *printer) sep() string {
	if p.marks {
		return mkSep
	}
	return " "
}

func (p *printer) closeMark() string {
	if p.marks {
		return mkClose
	}
	return ""
}

// flatten nested concatenations and merge adjacent literals
func flatten(n *Node, out []*Node) []*Node {
	if n.K != nCat {
		if n.K == nLit && len(out) > 0 && out[len(out)-1].K == nLit {
			m := *out[len(out)-1]
			m.S += n.S
			out[len(out)-1] = &m
			return out
		}
		return append(out, n)
	}
	for _, a := range n.A {
		out = flatten(a, out)
	}
	return out
}

// Template renders a tree as a whole template (top level: literals are raw text).
func (p *printer) Template(n *Node) string {
	var sb strings.Builder
	for _, part := range flatten(n, nil) {
		if part.K == nLit {
			if !validConst(part.S) {
				p.fail = "literal not printable"
			}
			sb.WriteString(part.S)
		} else {
			sb.WriteString(p.stmt(part, false))
		}
	}
	return sb.String()
}

func (p *printer) stmt(n *Node, inQuote bool) string {
	switch n.K {
	case nIdx:
		return "{" + strconv.Itoa(n.I) + "}"
	case nKey:
		return "{" + n.S + "}"
	case nMath:
		var sb strings.Builder
		sb.WriteString("{!")
		sb.WriteString(p.sep())
		for _, t := range n.A {
			switch t.K {
			case nLit:
				if !bare(t.S) {
					p.fail = "formula text not bare"
				}
				sb.WriteString(t.S)
			case nIdx:
				sb.WriteString("[" + strconv.Itoa(t.I) + "]")
			case nKey:
				sb.WriteString("[" + t.S + "]")
			default:
				p.fail = "formula variable bound to a non-variable"
			}
		}
		sb.WriteString("}")
		return sb.String()
	case nCall:
		var sb strings.Builder
		sb.WriteString("{")
		sb.WriteString(n.S)
		if len(n.A) == 0 {
			p.fail = "call without arguments is a key lookup"
		}
		for _, a := range n.A {
			sb.WriteString(p.sep())
			sb.WriteString(p.arg(a, inQuote))
		}
		sb.WriteString(p.closeMark())
		sb.WriteString("}")
		return sb.String()
	}
	p.fail = "not a statement"
	return ""
}

func (p *printer) arg(n *Node, inQuote bool) string {
	switch n.K {
	case nLit:
		if bare(n.S) {
			return n.S
		}
		if inQuote || !validConst(n.S) {
			p.fail = "quoted literal inside a quoted argument"
			return ""
		}
		return `"` + n.S + `"`
	case nIdx, nKey, nCall, nMath:
		return p.stmt(n, inQuote)
	case nCat:
		parts := flatten(n, nil)
		// drop empty literals
		kept := parts[:0:0]
		for _, q := range parts {
			if q.K == nLit && q.S == "" {
				continue
			}
			kept = append(kept, q)
		}
		if len(kept) == 0 {
			return p.arg(lit(""), inQuote)
		}
		if len(kept) == 1 {
			return p.arg(kept[0], inQuote)
		}
		need := false
		for _, q := range kept {
			if q.K == nLit && !bare(q.S) {
				need = true
			}
		}
		var sb strings.Builder
		if need {
			if inQuote {
				p.fail = "quoted concatenation inside a quoted argument"
				return ""
			}
			sb.WriteString(`"`)
		}
		for _, q := range kept {
			if q.K == nLit {
				if !validConst(q.S) {
					p.fail = "literal not printable"
				}
				sb.WriteString(q.S)
			} else {
				sb.WriteString(p.stmt(q, inQuote || need))
			}
		}
		if need {
			sb.WriteString(`"`)
		}
		return sb.String()
	}
	p.fail = "bad node"
	return ""
}

// Print renders a template; ok=false when the tree cannot be written in
// rare's syntax without escapes (such cases are discarded, never judged).
func Print(n *Node) (string, bool) {
	p := &printer{}
	s := p.Template(n)
	return s, p.fail == ""
}

// PrintMarked renders with break-opportunity markers (for funcs-file layout).
func PrintMarked(n *Node) (string, bool) {
	p := &printer{marks: true}
	s := p.Template(n)
	return s, p.fail == ""
}

func plainOfMarked(s string) string {
	return strings.ReplaceAll(strings.ReplaceAll(s, mkSep, " "), mkClose, "")
}

// ---------------------------------------------------------------- substitution

// subst returns body with every index variable of the body's own (outermost)
// scope replaced by the corresponding argument tree ("" when missing).
// Variables inside the sub-expression arguments of @map/@reduce/@filter/@for
// belong to the element scope and are left alone. ok=false when a formula
// variable would have to become something a formula cannot express.
func subst(body *Node, args []*Node) (*Node, bool) {
	ok := true
	var walk func(n *Node, shadow bool) *Node
	walk = func(n *Node, shadow bool) *Node {
		switch n.K {
		case nIdx:
			if shadow {
				return n.clone()
			}
			if n.I >= 0 && n.I < len(args) {
				return args[n.I].clone()
			}
			return lit("")
		case nLit, nKey:
			return n.clone()
		case nCat:
			c := &Node{K: nCat}
			for _, a := range n.A {
				c.A = append(c.A, walk(a, shadow))
			}
			return c
		case nCall:
			c := &Node{K: nCall, S: n.S, User: n.User}
			for i, a := range n.A {
				c.A = append(c.A, walk(a, shadow || shadowArg(n.S, i)))
			}
			return c
		case nMath:
			c := &Node{K: nMath}
			for _, t := range n.A {
				if t.K != nIdx || shadow {
					c.A = append(c.A, t.clone())
					continue
				}
				if t.I < 0 || t.I >= len(args) {
					ok = false // an absent argument is "" = not a number; no formula spelling for that
					continue
				}
				a := args[t.I]
				switch {
				case a.K == nIdx || a.K == nKey:
					c.A = append(c.A, a.clone())
				case a.K == nLit && canonNumber(a.S):
					// keep the sign attached the way a variable would carry it
					if strings.HasPrefix(a.S, "-") {
						c.A = append(c.A, &Node{K: nLit, S: "(" + a.S + ")"})
					} else {
						c.A = append(c.A, &Node{K: nLit, S: a.S})
					}
				default:
					ok = false
				}
			}
			return c
		}
		return n.clone()
	}
	r := walk(body, false)
	return r, ok
}

// canonNumber: decimal literal that strconv.ParseFloat and the formula
// tokenizer read identically (no leading zeros, no exponent, no hex).
func canonNumber(s string) bool {
	t := strings.TrimPrefix(s, "-")
	if t == "" {
		return false
	}
	ip, fp, hasDot := strings.Cut(t, ".")
	if ip == "" || (len(ip) > 1 && ip[0] == '0') {
		return false
	}
	for _, r := range ip {
		if r < '0' || r > '9' {
			return false
		}
	}
	if hasDot {
		if fp == "" {
			return false
		}
		for _, r := range fp {
			if r < '0' || r > '9' {
				return false
			}
		}
	}
	return len(t) <= 15
}

// walkAll visits every node.
func walkAll(n *Node, f func(*Node)) {
	f(n)
	for _, a := range n.A {
		walkAll(a, f)
	}
}
