package p10

import (
	"fmt"
	"testing"

	"verifharness/internal/run"
)

func TestDump(t *testing.T) {
	for i := 0; i < 40; i++ {
		r := run.NewRand(uint64(1), "C10", "diff", i)
		g := newGen(r)
		g.pConst = modeOf(r)
		tree := g.template(r.Range(1, 3), topScope())
		tpl, ok := Print(tree)
		ctxs := genCtxs(r, false)
		U := compile(stdBuilder(false), tpl)
		v, _ := eval(U, &ctxs[0])
		fmt.Printf("%v %q\n    => %q %s\n", ok, tpl, v, U.msg)
	}
	for i := 0; i < 25; i++ {
		r := run.NewRand(uint64(1), "C10", "funcs", i)
		g := newGen(r)
		g.pConst = modeOf(r)
		fs, ok := g.genFuncs()
		if !ok {
			continue
		}
		file, _ := g.layout(fs)
		tree := g.callSite(fs, 2)
		tpl, _ := Print(tree)
		inl, ok2 := inlineUsers(tree, fs)
		ref, ok3 := Print(inl)
		ctxs := genCtxs(r, false)
		U := compile(stdBuilder(false), ref)
		v, _ := eval(U, &ctxs[0])
		fmt.Printf("---- file:\n%s\n---- call %q\n     inl  %q %v %v\n    => %q %s\n", file, tpl, ref, ok2, ok3, v, U.msg)
	}
}
