package p20

import (
	"verifharness/internal/run"
)

// Single-column runes only (no East-Asian wide glyphs, no combining marks, no
// controls): ASCII incl. the characters that occur inside colour sequences,
// Latin-1 / Greek / Cyrillic letters, arrows, and the block / box characters
// rare's own renderers print.
var (
	asciiRunes = []rune("abcdefghijklmnopqrstuvwxyzABCDEFXYZ0123456789 _-.,:;[]()%#/|m[;3")
	multiRunes = []rune("äöüßéèñçøÅλπΩЖжяю→←↑↓…•█▉▊▋▌▍▎▏░▒▓─│┼■▁▂▃▄▅▆▇")
	sgrSeqs    = []string{"\x1b[0m", "\x1b[31m", "\x1b[32m", "\x1b[34;1m", "\x1b[1m", "\x1b[4m", "\x1b[38;5;196m", "\x1b[m", "\x1b[4;34;1m", "\x1b[36m"}
)

func genWidth(r *run.Rand) int {
	switch r.Intn(10) {
	case 0, 1:
		return r.Range(1, 5)
	case 2, 3, 4, 5:
		return r.Range(6, 40)
	case 6, 7, 8:
		return r.Range(41, 120)
	default:
		return r.Range(121, 200)
	}
}

// genVisLen picks a visible length relative to the width.
func genVisLen(r *run.Rand, w int, fit bool) int {
	var n int
	switch r.Intn(12) {
	case 0:
		n = 0
	case 1, 2:
		n = r.Range(1, 3)
	case 3, 4, 5:
		n = w + r.Range(-1, 1)
	case 6:
		n = r.Range(w+1, 2*w+5)
	case 7:
		n = r.Range(3*w, 5*w)
	case 8, 9:
		n = r.Range(0, w/2+1)
	default:
		n = r.Range(0, 2*w+5)
	}
	if n < 0 {
		n = 0
	}
	if n > 600 {
		n = 600
	}
	if fit && n > w {
		n = w - r.Intn(2)
		if n < 0 {
			n = 0
		}
	}
	return n
}

func genRunes(r *run.Rand, n int, mode int) []rune {
	out := make([]rune, n)
	for i := range out {
		switch mode {
		case 0:
			out[i] = asciiRunes[r.Intn(len(asciiRunes))]
		case 1:
			out[i] = multiRunes[r.Intn(len(multiRunes))]
		case 2: // bar-like: label, spaces, blocks
			if i < n/3 {
				out[i] = asciiRunes[r.Intn(26)]
			} else if i < n/3+2 {
				out[i] = ' '
			} else {
				out[i] = '█'
			}
		default:
			if r.Intn(4) == 0 {
				out[i] = multiRunes[r.Intn(len(multiRunes))]
			} else {
				out[i] = asciiRunes[r.Intn(len(asciiRunes))]
			}
		}
	}
	return out
}

// colourise inserts well-formed colour sequences into vis.
func colourise(r *run.Rand, vis []rune, w int) string {
	n := len(vis)
	type ins struct {
		pos int
		seq string
	}
	var at []ins
	add := func(pos int, seq string) {
		if pos < 0 {
			pos = 0
		}
		if pos > n {
			pos = n
		}
		at = append(at, ins{pos, seq})
	}
	pick := func() string { return sgrSeqs[r.Intn(len(sgrSeqs))] }
	switch r.Intn(6) {
	case 0: // whole text wrapped
		add(0, pick())
		add(n, "\x1b[0m")
	case 1: // segments, like rare's renderers (colour ... reset)
		k := r.Range(1, 4)
		for i := 0; i < k; i++ {
			a := r.Intn(n + 1)
			b := a + r.Intn(n-a+1)
			add(a, pick())
			add(b, "\x1b[0m")
		}
	case 2: // sequences around the cut position
		for _, d := range []int{-1, 0, 1} {
			if r.Bool() {
				add(w+d, pick())
			}
		}
		add(w, pick())
	case 3: // a run of adjacent sequences
		p := r.Intn(n + 1)
		for i := r.Range(2, 4); i > 0; i-- {
			add(p, pick())
		}
	case 4: // at the very start and the very end
		add(0, pick())
		add(0, pick())
		add(n, pick())
	default:
		for i := r.Range(1, 6); i > 0; i-- {
			add(r.Intn(n+1), pick())
		}
	}
	// stable insertion by position
	var out []rune
	for p := 0; p <= n; p++ {
		for _, in := range at {
			if in.pos == p {
				out = append(out, []rune(in.seq)...)
			}
		}
		if p < n {
			out = append(out, vis[p])
		}
	}
	return string(out)
}

func genText(r *run.Rand, w int, fit bool, alpha int, colourP float64) string {
	n := genVisLen(r, w, fit)
	vis := genRunes(r, n, alpha)
	if r.Chance(colourP) {
		return colourise(r, vis, w)
	}
	return string(vis)
}

// genHistory builds one history of 1..300 updates.
func genHistory(r *run.Rand) *Case {
	cs := &Case{Kind: "history"}
	cs.W = genWidth(r)
	cs.Trim = r.Intn(4) != 0
	cs.NoHide = r.Intn(12) == 0
	cs.Fmt = r.Intn(6) == 0
	fit := !cs.Trim && r.Intn(10) < 7 // trimming off: mostly texts that fit
	alpha := r.Intn(4)
	colourP := []float64{0, 0.3, 0.6, 1}[r.Intn(4)]

	var n int
	switch r.Intn(20) {
	case 0, 1, 2, 3, 4, 5, 6, 7, 8, 9:
		n = r.Range(1, 20)
	case 10, 11, 12, 13, 14, 15, 16:
		n = r.Range(21, 80)
	default:
		n = r.Range(81, 300)
	}
	// line pattern
	mode := r.Intn(6)
	span := r.Range(1, 30)
	if mode == 0 {
		span = r.Range(1, 4)
	}
	last := map[int]string{}
	cur := 0
	for i := 0; i < n; i++ {
		var l int
		switch mode {
		case 0, 1: // uniformly inside a window
			l = r.Intn(span)
		case 2: // repeated top-to-bottom sweeps, like a renderer
			l = i % span
		case 3: // random walk with jumps
			switch r.Intn(5) {
			case 0:
				cur += r.Range(1, 6)
			case 1:
				cur -= r.Range(1, 6)
			case 2:
				cur++
			case 3:
				cur--
			}
			if cur < 0 {
				cur = 0
			}
			if cur > 150 {
				cur = 150
			}
			l = cur
		case 4: // growing maximum with gaps, jumps back
			if r.Intn(3) == 0 {
				cur += r.Range(1, 4)
				if cur > 150 {
					cur = 150
				}
				l = cur
			} else {
				l = r.Intn(cur + 1)
			}
		default: // bottom-to-top sweeps
			l = span - 1 - i%span
		}
		var t string
		prev, had := last[l]
		switch {
		case had && r.Intn(6) == 0 && !containsEsc(prev): // shrink to a prefix
			pr := []rune(prev)
			t = string(pr[:r.Intn(len(pr)+1)])
		case had && r.Intn(8) == 0 && !fit: // grow
			t = prev + genText(r, cs.W, false, alpha, 0)
			if len([]rune(t)) > 700 {
				t = prev
			}
		default:
			t = genText(r, cs.W, fit, alpha, colourP)
		}
		last[l] = t
		cs.Ups = append(cs.Ups, Upd{L: l, T: t})
	}
	return cs
}

func containsEsc(s string) bool {
	for i := 0; i < len(s); i++ {
		if s[i] == 0x1b {
			return true
		}
	}
	return false
}
