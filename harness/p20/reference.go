package p20

import (
	"fmt"
	"strings"

	"verifharness/internal/run"
)

// Reference for the width cut, written from the property statement:
// "A line longer than the terminal width is cut to a prefix that neither
// exceeds the width in visible characters nor ends inside a colour escape
// sequence", and the screen must show "exactly the text most recently
// written" within that width.
//
// A colour escape sequence is ESC [ <digits and ;> m. Texts handed to the
// writers by this harness contain no other escape or control characters.

// visible returns the visible runes of s (colour sequences removed). ok is
// false when s ends inside a colour sequence or contains an ESC that does not
// start one.
func visible(s string) (vis []rune, ok bool) {
	rs := []rune(s)
	ok = true
	for i := 0; i < len(rs); i++ {
		if rs[i] != 0x1b {
			vis = append(vis, rs[i])
			continue
		}
		j := i + 1
		if j >= len(rs) || rs[j] != '[' {
			return vis, false
		}
		j++
		for j < len(rs) && ((rs[j] >= '0' && rs[j] <= '9') || rs[j] == ';') {
			j++
		}
		if j >= len(rs) || rs[j] != 'm' {
			return vis, false
		}
		i = j
	}
	return vis, ok
}

// expectRow is what a screen row must show for the latest text of its line:
// the visible text, limited to the first `width` visible characters when
// trimming is on; trailing blanks are not distinguishable from erased cells.
func expectRow(text string, width int, trim bool) string {
	v, _ := visible(text)
	if trim && len(v) > width {
		v = v[:width]
	}
	return strings.TrimRight(string(v), " ")
}

// checkCut judges what the writer emitted (out) for one text.
func checkCut(text, out string, width int, trim bool) (class, msg string) {
	if !trim {
		if out != text {
			return "notrim-altered", fmt.Sprintf("trimming is off but the text %s was written as %s", run.Q(text), run.Q(out))
		}
		return "", ""
	}
	if !strings.HasPrefix(text, out) {
		return "cut-not-prefix", fmt.Sprintf("width %d: written %s is not a prefix of the text %s", width, run.Q(out), run.Q(text))
	}
	vis, ok := visible(out)
	if !ok {
		return "cut-in-escape", fmt.Sprintf("width %d: written %s ends inside a colour escape sequence (text %s)", width, run.Q(out), run.Q(text))
	}
	if len(vis) > width {
		return "cut-too-wide", fmt.Sprintf("width %d: written %s has %d visible characters (text %s)", width, run.Q(out), len(vis), run.Q(text))
	}
	full, _ := visible(text)
	want := full
	if len(want) > width {
		want = want[:width]
	}
	if string(vis) != string(want) {
		return "cut-too-short", fmt.Sprintf("width %d: written %s shows %s, but %d columns have room for %s (text %s)",
			width, run.Q(out), run.Q(string(vis)), width, run.Q(string(want)), run.Q(text))
	}
	return "", ""
}
