package p20

// End to end: the real CLI writes to a pseudo terminal of a chosen width while
// its input arrives in chunks (so that several in-place renders happen); the
// bytes read from the pty master are interpreted by the same emulator. The
// reference for what each row must show is the --snapshot output of the same
// command on the same data (piped, so untrimmed and colourless), cut to the
// width by the reference of reference.go.

import (
	"bytes"
	"context"
	"fmt"
	"io"
	"os"
	"os/exec"
	"strings"
	"syscall"
	"time"
	"unsafe"

	"verifharness/internal/run"
)

type PtyCase struct {
	Args   []string `json:"args"`
	Cols   int      `json:"cols"`
	Rows   int      `json:"rows"`
	Chunks []string `json:"chunks"`
	PauseM int      `json:"pause_ms"`
}

func ioctl(fd int, req uintptr, arg unsafe.Pointer) error {
	_, _, e := syscall.Syscall(syscall.SYS_IOCTL, uintptr(fd), req, uintptr(arg))
	if e != 0 {
		return e
	}
	return nil
}

// openPty returns master and slave descriptors of a new pty with the given size.
func openPty(rows, cols int) (master, slave int, err error) {
	master, err = syscall.Open("/dev/ptmx", syscall.O_RDWR|syscall.O_NOCTTY|syscall.O_CLOEXEC, 0)
	if err != nil {
		return -1, -1, err
	}
	var unlock int32
	if err = ioctl(master, syscall.TIOCSPTLCK, unsafe.Pointer(&unlock)); err != nil {
		syscall.Close(master)
		return -1, -1, err
	}
	var n uint32
	if err = ioctl(master, syscall.TIOCGPTN, unsafe.Pointer(&n)); err != nil {
		syscall.Close(master)
		return -1, -1, err
	}
	slave, err = syscall.Open(fmt.Sprintf("/dev/pts/%d", n), syscall.O_RDWR|syscall.O_NOCTTY|syscall.O_CLOEXEC, 0)
	if err != nil {
		syscall.Close(master)
		return -1, -1, err
	}
	ws := struct{ Row, Col, X, Y uint16 }{uint16(rows), uint16(cols), 0, 0}
	if err = ioctl(slave, syscall.TIOCSWINSZ, unsafe.Pointer(&ws)); err != nil {
		syscall.Close(master)
		syscall.Close(slave)
		return -1, -1, err
	}
	return master, slave, nil
}

type cliOut struct {
	out      []byte
	stderr   string
	exit     int
	timedOut bool
	err      error
}

// runCLI runs rare with stdout on a pty (cols>0) or on a pipe, feeding stdin in chunks.
func runCLI(bin string, args []string, chunks []string, pause time.Duration, rows, cols int) cliOut {
	res := runCLIOnce(bin, args, chunks, pause, rows, cols)
	if res.err != nil || res.timedOut { // machine overloaded: one more try before giving up (never a verdict)
		res = runCLIOnce(bin, args, chunks, pause, rows, cols)
	}
	return res
}

// sinkFile as the cols argument of runCLI: stdout is a regular file (no pty, no pipe).
const sinkFile = -1

var scratchDir string

// stderrPtyCols > 0: the next runs get a pty of that width as standard error (set around single calls; shards are processes).
var stderrPtyCols int

func runCLIOnce(bin string, args []string, chunks []string, pause time.Duration, rows, cols int) (res cliOut) {
	ctx, cancel := context.WithTimeout(context.Background(), 90*time.Second)
	defer cancel()
	cmd := exec.CommandContext(ctx, bin, args...)
	cmd.Env = append(os.Environ(), "TERM=xterm")
	var errBuf bytes.Buffer
	cmd.Stderr = &errBuf
	if stderrPtyCols > 0 {
		// standard error is a (narrow) terminal of its own while standard output is not one: what is written to standard
		// output must not be cut to that terminal's width
		if m, sl, err := openPty(24, stderrPtyCols); err == nil {
			ef := os.NewFile(uintptr(sl), "pty-stderr")
			cmd.Stderr = ef
			defer ef.Close()
			go func() {
				buf := make([]byte, 4096)
				for {
					n, err := syscall.Read(m, buf)
					if err == syscall.EINTR {
						continue
					}
					if err != nil || n <= 0 {
						syscall.Close(m)
						return
					}
				}
			}()
		}
	}
	stdin, err := cmd.StdinPipe()
	if err != nil {
		res.err = err
		return res
	}
	var outBuf bytes.Buffer
	done := make(chan struct{})
	master := -1
	if cols > 0 {
		m, s, err := openPty(rows, cols)
		if err != nil {
			res.err = fmt.Errorf("pty: %w", err)
			return res
		}
		master = m
		sf := os.NewFile(uintptr(s), "pty-slave")
		cmd.Stdout = sf
		if err := cmd.Start(); err != nil {
			sf.Close()
			syscall.Close(master)
			res.err = err
			return res
		}
		sf.Close()
		go func() {
			defer close(done)
			buf := make([]byte, 32<<10)
			for {
				n, err := syscall.Read(master, buf)
				if n > 0 {
					outBuf.Write(buf[:n])
				}
				if err == syscall.EINTR {
					continue
				}
				if err != nil || n <= 0 {
					return // EIO: every slave descriptor is closed
				}
			}
		}()
	} else if cols == sinkFile {
		// stdout redirected to a regular file: "piped output" in rare's sense (not a character device)
		f, err := os.CreateTemp(scratchDir, "sink-*.out")
		if err != nil {
			res.err = err
			return res
		}
		cmd.Stdout = f
		if err := cmd.Start(); err != nil {
			f.Close()
			os.Remove(f.Name())
			res.err = err
			return res
		}
		go func() {
			defer close(done)
		}()
		defer func() {
			f.Close()
			if b, err := os.ReadFile(f.Name()); err == nil {
				res.out = b
			}
			os.Remove(f.Name())
		}()
	} else {
		pr, pw, err := os.Pipe()
		if err != nil {
			res.err = err
			return res
		}
		cmd.Stdout = pw
		if err := cmd.Start(); err != nil {
			pr.Close()
			pw.Close()
			res.err = err
			return res
		}
		pw.Close()
		go func() {
			defer close(done)
			io.Copy(&outBuf, pr)
			pr.Close()
		}()
	}
	for i, ch := range chunks {
		if i > 0 && pause > 0 {
			time.Sleep(pause) // only provokes intermediate renders; no verdict depends on it
		}
		if _, err := io.WriteString(stdin, ch); err != nil {
			break
		}
	}
	stdin.Close()
	werr := cmd.Wait()
	if ctx.Err() != nil {
		res.timedOut = true
	}
	<-done
	if master >= 0 {
		syscall.Close(master)
	}
	if cols != sinkFile {
		res.out = outBuf.Bytes()
	}
	res.stderr = errBuf.String()
	if werr != nil {
		if ee, ok := werr.(*exec.ExitError); ok {
			res.exit = ee.ExitCode()
		} else {
			res.err = werr
		}
	}
	return res
}

func head(s string, n int) string {
	if len(s) > n {
		return s[:n]
	}
	return s
}

func snapshotLines(out []byte) []string {
	s := string(out)
	s = strings.ReplaceAll(s, "\r\n", "\n")
	s = strings.TrimSuffix(s, "\n")
	if s == "" {
		return nil
	}
	return strings.Split(s, "\n")
}

// runPty executes one end-to-end case. Returns false when something was reported.
func runPty(c *run.Ctx, cs *Case) bool {
	p := cs.Pty
	if c.RareBin == "" {
		c.Inconclusive("pty case without the rare binary")
		return false
	}
	pause := time.Duration(p.PauseM) * time.Millisecond
	all := []string{strings.Join(p.Chunks, "")}
	snapArgs := append(append([]string(nil), p.Args...), "--snapshot")
	colourArgs := append([]string{"--color"}, snapArgs...)
	fp := func(class string) string {
		return "pty:" + class + ":" + run.Hash64(strings.Join(p.Args, "\x00"), fmt.Sprint(p.Cols), strings.Join(p.Chunks, "\x01"))
	}
	incon := func(what string, r cliOut) bool {
		if r.err != nil || r.timedOut {
			c.Inconclusive(fmt.Sprintf("pty case: %s could not be run (err=%v timeout=%v stderr=%s) args=%q", what, r.err, r.timedOut, run.Q(r.stderr), p.Args))
			return true
		}
		return false
	}

	// A: reference, piped, all data at once
	a := runCLI(c.RareBin, colourArgs, all, 0, 0, 0)
	if incon("reference snapshot", a) {
		return false
	}
	ref := snapshotLines(a.out)
	for i := range ref {
		v, _ := visible(ref[i])
		ref[i] = string(v)
	}
	// The bar graph renderer scales rows against a maximum that depends on which
	// intermediate renders happened (a renderer matter, outside C20), so the content of
	// its rows has no timing-independent reference: only the structural facts are judged.
	content := len(p.Args) > 0 && p.Args[0] != "bars"
	if len(ref) < 2 {
		c.Count("pty_abstain_no_output", 1)
		return true
	}
	// B: the same, chunked and with colours forced: when the rendering depends on the
	// update history or on colouring (a renderer matter, not the terminal writer's)
	// the reference is not well defined and the case is not judged.
	b := runCLI(c.RareBin, colourArgs, p.Chunks, pause, 0, 0)
	if incon("chunked snapshot", b) {
		return false
	}
	bl := snapshotLines(b.out)
	same := len(bl) == len(ref)
	if !same {
		c.Note(fmt.Sprintf("pty abstain: %d vs %d snapshot lines, args %q cols %d", len(bl), len(ref), p.Args, p.Cols))
	}
	for i := 0; same && content && i < len(ref)-1; i++ { // the last line is the rate/status footer
		v, ok := visible(bl[i])
		if !ok || strings.TrimRight(string(v), " ") != strings.TrimRight(ref[i], " ") {
			same = false
			c.Note(fmt.Sprintf("pty abstain: snapshot line %d all-at-once %s vs chunked+colour %s, args %q", i, run.Q(ref[i]), run.Q(bl[i]), p.Args))
		}
	}
	if !same {
		c.Count("pty_abstain_history_dependent_render", 1)
		return true
	}
	status := len(ref) - 1
	ok := true
	judge := func(name string, r cliOut, live bool) {
		scr := NewScreen(p.Cols, false)
		scr.Feed(r.out)
		c.Count("pty_bytes", int64(len(r.out)))
		if live {
			c.Count("pty_cursor_up_sequences", int64(scr.Ups))
			if scr.Ups > 0 {
				c.Count("pty_runs_with_inplace_rewrites", 1)
			}
		}
		report := func(class, msg string) {
			ok = false
			c.Violation(fp(name+"-"+class), fmt.Sprintf("%s on a %d-column pty, rare %s, input in %d chunk(s): %s", name, p.Cols, strings.Join(p.Args, " "), len(p.Chunks), msg), cs)
		}
		if len(scr.Unsupported) > 0 {
			c.Inconclusive(fmt.Sprintf("pty %s: output outside the modelled subset %v (args %q)", name, scr.Unsupported, p.Args))
			ok = false
			return
		}
		if scr.Malformed > 0 || scr.Truncated() {
			report("escape-cut", fmt.Sprintf("%d escape sequence(s) broken off in the middle", scr.Malformed))
			return
		}
		n := len(ref)
		if u := scr.UsedRows(); u > n {
			n = u
		}
		for i := 0; i < n; i++ {
			if i == status || (!content && i < len(ref)) {
				continue
			}
			exp := ""
			if i < len(ref) {
				exp = expectRow(ref[i], p.Cols, true)
			}
			c.Count("pty_row_checks", 1)
			if got := scr.Row(i); got != exp {
				report("row", fmt.Sprintf("row %d shows %s, expected %s (the first %d visible characters of snapshot line %s)", i, run.Q(got), run.Q(exp), p.Cols, run.Q(strings.Join(ref[i:min(i+1, len(ref))], ""))))
				return
			}
		}
		if scr.Wraps > 0 {
			report("wrap", fmt.Sprintf("%d character(s) wrapped past column %d", scr.Wraps, p.Cols))
			return
		}
		if scr.AboveTop > 0 {
			report("cursor-above-top", "cursor moved above the first line")
			return
		}
		if scr.R != len(ref) || scr.C != 0 {
			report("cursor", fmt.Sprintf("at exit the cursor is at row %d column %d, expected row %d column 0 (below the last of %d lines)", scr.R, scr.C, len(ref), len(ref)))
			return
		}
		if scr.Hidden {
			report("cursor-hidden", "at exit the cursor is still hidden")
			return
		}
	}
	// C: live in-place rendering on the pty
	liveArgs := p.Args
	if p.Cols < 60 || (p.Cols+len(p.Chunks))%3 == 0 {
		// the switch spelled out with the value it has anyway: trimming stays on
		liveArgs = append([]string{"--notrim=false"}, p.Args...)
		c.Count("pty_runs_with_an_explicit_false_switch", 1)
	}
	live := runCLI(c.RareBin, liveArgs, p.Chunks, pause, p.Rows, p.Cols)
	if incon("live run", live) {
		return false
	}
	judge("live", live, true)
	// E: no --snapshot, stdout redirected to a regular file: rare must choose the buffered writer by
	// itself ("will enable automatically when piping output") — the final lines top to bottom, no
	// cursor movement, erase or carriage-return sequences.
	if ok {
		if (p.Cols+p.Rows)%2 == 1 {
			stderrPtyCols = p.Cols
			c.Count("pty_file_sink_runs_with_stderr_on_a_narrow_terminal", 1)
		}
		e := runCLI(c.RareBin, append([]string{"--color"}, p.Args...), all, 0, 0, sinkFile)
		stderrPtyCols = 0
		if incon("run with stdout redirected to a file", e) {
			return false
		}
		c.Count("pty_file_sink_runs", 1)
		out := string(e.out)
		for _, bad := range []string{"\r", "\x1b[?25", "\x1b[0K", "\x1b[1A", "\x1b[2A", "\x1b[3A"} {
			if strings.Contains(out, bad) {
				ok = false
				c.Violation(fp("file-sink-control"), fmt.Sprintf("rare %s with stdout redirected to a regular file wrote the terminal control sequence %s: the buffered writer must be used for output that is not a terminal; output starts %s", strings.Join(p.Args, " "), run.Q(bad), run.Q(head(out, 200))), cs)
				break
			}
		}
		if ok && content {
			el := snapshotLines(e.out)
			if len(el) != len(ref) {
				ok = false
				c.Violation(fp("file-sink-lines"), fmt.Sprintf("rare %s with stdout redirected to a regular file wrote %d lines, --snapshot writes %d", strings.Join(p.Args, " "), len(el), len(ref)), cs)
			}
			for i := 0; ok && i < len(ref)-1; i++ {
				v, vok := visible(el[i])
				if !vok || strings.TrimRight(string(v), " ") != strings.TrimRight(ref[i], " ") {
					ok = false
					c.Violation(fp("file-sink-row"), fmt.Sprintf("rare %s with stdout redirected to a regular file: line %d is %s, --snapshot prints %s", strings.Join(p.Args, " "), i, run.Q(el[i]), run.Q(ref[i])), cs)
				}
			}
		}
	}
	// D: buffered writer (--snapshot) on the pty: trimmed like the live one
	if ok {
		d := runCLI(c.RareBin, snapArgs, all, 0, p.Rows, p.Cols)
		if incon("snapshot on pty", d) {
			return false
		}
		judge("snapshot", d, false)
	}
	c.Count("pty_runs", 1)
	if content {
		c.Count("pty_runs_content_judged", 1)
	}
	return ok
}

func genPty(r *run.Rand) *Case {
	p := &PtyCase{Rows: 60, PauseM: 130}
	switch r.Intn(8) {
	case 0:
		p.Cols = r.Range(5, 12)
	case 1, 2:
		p.Cols = r.Range(13, 40)
	case 3, 4, 5:
		p.Cols = r.Range(41, 90)
	default:
		p.Cols = r.Range(91, 120)
	}
	word := func(n int) string {
		b := make([]byte, n)
		for i := range b {
			b[i] = byte('a' + r.Intn(26))
		}
		return string(b)
	}
	distinct := func(k, n int) []string {
		seen := map[string]bool{}
		var out []string
		for len(out) < k {
			w := word(n)
			if !seen[w] {
				seen[w] = true
				out = append(out, w)
			}
		}
		return out
	}
	nchunks := r.Range(2, 5)
	perChunk := r.Range(20, 200)
	var lines []string
	switch r.Intn(8) / 3 {
	case 0: // histogram: keys of any length, all of them displayed
		k := r.Range(2, 8)
		var keys []string
		for _, n := range r.Perm(30)[:k] {
			keys = append(keys, distinct(1, n+1)[0]+fmt.Sprint(len(keys)))
		}
		p.Args = []string{"histo", "-m", `(\w+) (\d+)`, "-e", "{1}", "-n", fmt.Sprint(k + r.Intn(3))}
		switch r.Intn(4) {
		case 0:
			p.Args = append(p.Args, "-x")
		case 1:
			p.Args = append(p.Args, "-b")
		case 2:
			p.Args = append(p.Args, "--percentage")
		}
		for i := 0; i < nchunks*perChunk; i++ {
			lines = append(lines, keys[r.Intn(1+r.Intn(len(keys)))]+" 1")
		}
	case 1: // table: column names of one length >= any cell, row keys of any length
		nc, nr := r.Range(1, 6), r.Range(1, 8)
		cols := distinct(nc, r.Range(6, 12))
		var rows []string
		for i := 0; i < nr; i++ {
			rows = append(rows, word(r.Range(1, 24))+fmt.Sprint(i))
		}
		p.Args = []string{"table", "-m", `(\w+) (\w+)`, "-e", "{$ {1} {2}}"}
		switch r.Intn(3) {
		case 0:
			p.Args = append(p.Args, "-x")
		case 1:
			p.Args = append(p.Args, "--rowtotal")
		}
		for i := 0; i < nchunks*perChunk; i++ {
			lines = append(lines, cols[r.Intn(len(cols))]+" "+rows[r.Intn(len(rows))])
		}
	default: // bars: keys of one length <= 4 (the renderer pads to the longest key seen so far)
		k := r.Range(1, 7)
		keys := distinct(k, r.Range(2, 4))
		if r.Bool() {
			p.Args = []string{"bars", "-m", `(\w+) (\w+)`, "-e", "{1}"}
		} else {
			sub := distinct(r.Range(2, 3), r.Range(1, 6))
			p.Args = []string{"bars", "-m", `(\w+) (\w+)`, "-e", "{$ {1} {2}}"}
			if r.Bool() {
				p.Args = append(p.Args, "--stacked")
			}
			for i := 0; i < nchunks*perChunk; i++ {
				lines = append(lines, keys[r.Intn(len(keys))]+" "+sub[r.Intn(len(sub))])
			}
		}
		if len(lines) == 0 {
			for i := 0; i < nchunks*perChunk; i++ {
				lines = append(lines, keys[r.Intn(len(keys))]+" x")
			}
		}
	}
	for i := 0; i < nchunks; i++ {
		p.Chunks = append(p.Chunks, strings.Join(lines[i*perChunk:(i+1)*perChunk], "\n")+"\n")
	}
	return &Case{Kind: "pty", Pty: p}
}

func ptyCases(c *run.Ctx) {
	if c.RareBin == "" {
		c.Note("no rare binary: pty end-to-end part skipped")
		return
	}
	N := c.N(8, 96)
	for i := 0; i < N; i++ {
		if !c.Mine(i) {
			continue
		}
		cs := genPty(c.Rand("pty", i))
		c.Begin(cs, 300*time.Second)
		c.Count("pty_cases", 1)
		c.SetAdd("pty_widths", fmt.Sprint(cs.Pty.Cols))
		if i < 2 {
			c.Sample(map[string]any{"pty_args": cs.Pty.Args, "cols": cs.Pty.Cols, "chunks": len(cs.Pty.Chunks)})
		}
		runPty(c, cs)
		c.End()
	}
}
