// Package p20 decides C20: the live terminal shows the latest text of every
// line, within its width (pkg/multiterm: TermWriter, WriteLineNoWrap,
// VirtualTerm, BufferedTerm).
//
// The real writers are driven with generated update histories while os.Stdout
// is a scratch file; the bytes they emit are interpreted by the reference
// emulator in emu.go and the resulting screen / cursor / cursor visibility is
// compared with a line->text model kept by the harness. The width cut is judged
// by a reference written from the property statement (reference.go). The pty
// part (pty.go) runs the real CLI on /dev/ptmx.
package p20

import (
	"bytes"
	"encoding/json"
	"fmt"
	"os"
	"strings"
	"time"

	"rare/pkg/multiterm"

	"verifharness/internal/reg"
	"verifharness/internal/run"
)

func init() { reg.Register("C20", Run) }

// Upd is one per-line update.
type Upd struct {
	L int    `json:"l"`
	T string `json:"t"`
}

// Case is one C20 execution (a history, or a pty run).
type Case struct {
	Kind   string   `json:"kind"` // history | pty
	W      int      `json:"w,omitempty"`
	Trim   bool     `json:"trim,omitempty"`
	NoHide bool     `json:"nohide,omitempty"` // TermWriter.HideCursor=false
	Fmt    bool     `json:"fmt,omitempty"`    // use WriteForLinef("%s")
	Ups    []Upd    `json:"ups,omitempty"`
	Pinned string   `json:"pinned,omitempty"`
	Pty    *PtyCase `json:"pty,omitempty"`
}

type failure struct {
	class string
	msg   string
	incon bool // cannot be judged (output outside the modelled subset)
}

// ---------------------------------------------------------------- stdout capture

type capture struct {
	f   *os.File
	off int64
	old *os.File
	buf []byte
}

func newCapture(dir string) (*capture, error) {
	f, err := os.CreateTemp(dir, "c20-stdout-*")
	if err != nil {
		return nil, err
	}
	return &capture{f: f, buf: make([]byte, 64<<10)}, nil
}

func (k *capture) begin() {
	k.f.Truncate(0)
	k.f.Seek(0, 0)
	k.off = 0
	k.old = os.Stdout
	os.Stdout = k.f
}

// more returns the bytes written since the previous call (valid until the next call).
func (k *capture) more() []byte {
	var out []byte
	for {
		n, _ := k.f.ReadAt(k.buf, k.off)
		if n <= 0 {
			return out
		}
		k.off += int64(n)
		if out == nil && n < len(k.buf) {
			return k.buf[:n]
		}
		out = append(out, k.buf[:n]...)
	}
}

func (k *capture) end() {
	if k.old != nil {
		os.Stdout = k.old
		k.old = nil
	}
}

func (k *capture) close() {
	k.end()
	name := k.f.Name()
	k.f.Close()
	os.Remove(name)
}

// ---------------------------------------------------------------- the model

type model struct {
	text map[int]string
	max  int
}

func newModel() *model { return &model{text: map[int]string{}, max: -1} }
func (m *model) set(l int, t string) {
	m.text[l] = t
	if l > m.max {
		m.max = l
	}
}

// allFit reports whether every text of the history fits into w columns.
func allFit(cs *Case) bool {
	for _, u := range cs.Ups {
		if v, _ := visible(u.T); len(v) > cs.W {
			return false
		}
	}
	return true
}

func setTerm(cs *Case) {
	multiterm.AutoTrim = cs.Trim
	multiterm.VerifSetTermSize(24, cs.W)
}

func resetTerm() {
	multiterm.AutoTrim = false
	multiterm.VerifSetTermSize(24, 80)
}

func describe(cs *Case) string {
	b, _ := json.Marshal(cs.Ups)
	s := string(b)
	if len(s) > 1500 {
		s = s[:1500] + "…"
	}
	return fmt.Sprintf("width=%d trim=%v updates=%s", cs.W, cs.Trim, s)
}

// ---------------------------------------------------------------- live writer

type liveResult struct {
	rows    []string // final screen rows 0..max
	scr     *Screen
	bytes   int
	checked int64
}

// runLive drives the real TermWriter and judges the screen.
func runLive(k *capture, cs *Case) (res liveResult, fail *failure) {
	emuW := cs.W
	if !cs.Trim && !allFit(cs) {
		// trimming off and a text wider than the terminal: the statement only
		// speaks about the cut; what a wrapped line does to its neighbours is
		// not judged. The stream must still be right on an unbounded line.
		emuW = 0
	}
	scr := NewScreen(emuW, true)
	m := newModel()
	want := func(l int) string {
		t, ok := m.text[l]
		if !ok {
			return ""
		}
		return expectRow(t, cs.W, cs.Trim)
	}
	setTerm(cs)
	defer resetTerm()
	k.begin()
	defer k.end()
	var tw *multiterm.TermWriter
	step := -1
	panicked, val, stack := run.Guard(func() {
		tw = multiterm.New()
		if cs.NoHide {
			tw.HideCursor = false
		}
		for i, u := range cs.Ups {
			step = i
			if cs.Fmt && cs.W%2 == 1 {
				// a format without arguments: the text itself with its percent signs doubled
				tw.WriteForLinef(u.L, strings.ReplaceAll(u.T, "%", "%%"))
			} else if cs.Fmt {
				tw.WriteForLinef(u.L, "%s", u.T)
			} else {
				tw.WriteForLine(u.L, u.T)
			}
			b := k.more()
			res.bytes += len(b)
			scr.Feed(b)
			m.set(u.L, u.T)
			if fail != nil {
				continue
			}
			// the row just written, and its neighbours
			for l := u.L - 1; l <= u.L+1; l++ {
				if l < 0 {
					continue
				}
				res.checked++
				if got, exp := scr.Row(l), want(l); got != exp {
					which := "the updated row"
					if l != u.L {
						which = "a neighbouring row"
					}
					fail = &failure{class: "screen-row", msg: fmt.Sprintf("after update #%d (line %d <- %s): %s %d shows %s, expected %s",
						i, u.L, run.Q(u.T), which, l, run.Q(got), run.Q(exp))}
					break
				}
			}
		}
		step = len(cs.Ups)
		tw.Close()
		b := k.more()
		res.bytes += len(b)
		scr.Feed(b)
	})
	k.end()
	res.scr = scr
	if panicked {
		return res, &failure{class: "panic", msg: fmt.Sprintf("TermWriter panicked at step %d: %v\n%s", step, val, stack)}
	}
	if fail != nil {
		return res, fail
	}
	if len(scr.Unsupported) > 0 {
		return res, &failure{class: "unsupported", incon: true, msg: fmt.Sprintf("output contains sequences outside the modelled subset: %v", scr.Unsupported)}
	}
	if scr.Malformed > 0 || scr.Truncated() {
		return res, &failure{class: "escape-cut", msg: fmt.Sprintf("the emitted stream contains %d escape sequence(s) broken off in the middle (a colour sequence cut by the width trim looks like this)", scr.Malformed)}
	}
	n := m.max + 1
	if u := scr.UsedRows(); u > n {
		n = u
	}
	for l := 0; l < n; l++ {
		res.checked++
		got, exp := scr.Row(l), want(l)
		if l <= m.max {
			res.rows = append(res.rows, got)
		}
		if got != exp {
			return res, &failure{class: "screen-row", msg: fmt.Sprintf("after Close: row %d shows %s, expected %s (latest text written to line %d: %s)",
				l, run.Q(got), run.Q(exp), l, run.Q(m.text[l]))}
		}
	}
	if scr.Wraps > 0 {
		return res, &failure{class: "wrap", msg: fmt.Sprintf("%d character(s) were printed past the last column and wrapped to the next row", scr.Wraps)}
	}
	if scr.AboveTop > 0 {
		return res, &failure{class: "cursor-above-top", msg: "the writer moved the cursor above the line it started on"}
	}
	if scr.R != m.max+1 {
		return res, &failure{class: "cursor-row", msg: fmt.Sprintf("after Close the cursor is on row %d, expected row %d (below the last line %d)", scr.R, m.max+1, m.max)}
	}
	if scr.C != 0 {
		return res, &failure{class: "cursor-col", msg: fmt.Sprintf("after Close the cursor is in column %d, expected 0", scr.C)}
	}
	if scr.Hidden {
		return res, &failure{class: "cursor-hidden", msg: "after Close the cursor is still hidden (ESC[?25l without a later ESC[?25h)"}
	}
	return res, nil
}

// ---------------------------------------------------------------- buffered / virtual

func judgeLines(what string, out string, m *model, cs *Case) (lines []string, fail *failure) {
	if m.max < 0 {
		return nil, nil
	}
	if !strings.HasSuffix(out, "\n") {
		return nil, &failure{class: what, msg: fmt.Sprintf("%s output does not end with a newline: %s", what, run.Q(out))}
	}
	lines = strings.Split(strings.TrimSuffix(out, "\n"), "\n")
	if len(lines) != m.max+1 {
		return lines, &failure{class: what, msg: fmt.Sprintf("%s printed %d lines, expected %d (lines 0..%d): %s", what, len(lines), m.max+1, m.max, run.Q(out))}
	}
	for i, ln := range lines {
		if cl, msg := checkCut(m.text[i], ln, cs.W, cs.Trim); cl != "" {
			return lines, &failure{class: what, msg: fmt.Sprintf("%s line %d: %s", what, i, msg)}
		}
	}
	return lines, nil
}

func runBuffered(k *capture, cs *Case) (lines []string, fail *failure) {
	m := newModel()
	setTerm(cs)
	defer resetTerm()
	k.begin()
	defer k.end()
	var out string
	panicked, val, stack := run.Guard(func() {
		bt := multiterm.NewBufferedTerm()
		for _, u := range cs.Ups {
			if cs.Fmt && cs.W%2 == 1 {
				bt.WriteForLinef(u.L, strings.ReplaceAll(u.T, "%", "%%"))
			} else if cs.Fmt {
				bt.WriteForLinef(u.L, "%s", u.T)
			} else {
				bt.WriteForLine(u.L, u.T)
			}
			m.set(u.L, u.T)
		}
		if b := k.more(); len(b) > 0 {
			fail = &failure{class: "buffered", msg: fmt.Sprintf("BufferedTerm wrote %s before Close", run.Q(string(b)))}
			return
		}
		bt.Close()
		out = string(k.more())
		if !bt.IsClosed() {
			fail = &failure{class: "buffered", msg: "BufferedTerm.IsClosed() is false after Close"}
		}
	})
	k.end()
	if panicked {
		return nil, &failure{class: "panic", msg: fmt.Sprintf("BufferedTerm panicked: %v\n%s", val, stack)}
	}
	if fail != nil {
		return nil, fail
	}
	return judgeLines("buffered", out, m, cs)
}

func runVirtual(cs *Case) (fail *failure) {
	m := newModel()
	setTerm(cs)
	defer resetTerm()
	var buf bytes.Buffer
	panicked, val, stack := run.Guard(func() {
		vt := multiterm.NewVirtualTerm()
		for _, u := range cs.Ups {
			vt.WriteForLine(u.L, u.T)
			m.set(u.L, u.T)
			if g := vt.Get(u.L); g != u.T {
				fail = &failure{class: "virtual", msg: fmt.Sprintf("VirtualTerm.Get(%d) = %s right after writing %s", u.L, run.Q(g), run.Q(u.T))}
				return
			}
		}
		if vt.LineCount() != m.max+1 {
			fail = &failure{class: "virtual", msg: fmt.Sprintf("VirtualTerm.LineCount() = %d, expected %d", vt.LineCount(), m.max+1)}
			return
		}
		for l := 0; l <= m.max; l++ {
			if g := vt.Get(l); g != m.text[l] {
				fail = &failure{class: "virtual", msg: fmt.Sprintf("VirtualTerm.Get(%d) = %s, latest text written is %s", l, run.Q(g), run.Q(m.text[l]))}
				return
			}
		}
		vt.WriteToOutput(&buf)
	})
	if panicked {
		return &failure{class: "panic", msg: fmt.Sprintf("VirtualTerm panicked: %v\n%s", val, stack)}
	}
	if fail != nil {
		return fail
	}
	_, fail = judgeLines("virtual", buf.String(), m, cs)
	return fail
}

// runCuts judges WriteLineNoWrap on every text of the history.
func runCuts(cs *Case) (n int64, fail *failure) {
	setTerm(cs)
	defer resetTerm()
	var buf bytes.Buffer
	for _, u := range cs.Ups {
		buf.Reset()
		panicked, val, stack := run.Guard(func() { multiterm.WriteLineNoWrap(&buf, u.T) })
		if panicked {
			return n, &failure{class: "panic", msg: fmt.Sprintf("WriteLineNoWrap(%s) width %d panicked: %v\n%s", run.Q(u.T), cs.W, val, stack)}
		}
		n++
		if cl, msg := checkCut(u.T, buf.String(), cs.W, cs.Trim); cl != "" {
			return n, &failure{class: cl, msg: msg}
		}
	}
	// texts that themselves stop inside a colour sequence (a log line cut upstream): what such a sequence does to a
	// terminal is not the writer's business, but the writer must not crash on it and must write a prefix of the text,
	// nothing else, within the width
	for i, u := range cs.Ups {
		if i >= 24 {
			break
		}
		t := u.T + []string{"\x1b[3", "\x1b[", "\x1b", "\x1b[1;3"}[i%4]
		buf.Reset()
		panicked, val, stack := run.Guard(func() { multiterm.WriteLineNoWrap(&buf, t) })
		if panicked {
			return n, &failure{class: "panic", msg: fmt.Sprintf("WriteLineNoWrap(%s) width %d panicked: %v\n%s", run.Q(t), cs.W, val, stack)}
		}
		n++
		out := buf.String()
		if !cs.Trim {
			if out != t {
				return n, &failure{class: "notrim-altered", msg: fmt.Sprintf("trimming is off but the text %s was written as %s", run.Q(t), run.Q(out))}
			}
			continue
		}
		if !strings.HasPrefix(t, out) {
			return n, &failure{class: "cut-not-prefix", msg: fmt.Sprintf("width %d: written %s is not a prefix of the text %s (which ends inside a colour sequence)", cs.W, run.Q(out), run.Q(t))}
		}
		if vis, _ := visible(out); len(vis) > cs.W {
			return n, &failure{class: "cut-too-wide", msg: fmt.Sprintf("width %d: written %s has %d visible characters (text %s)", cs.W, run.Q(out), len(vis), run.Q(t))}
		}
	}
	return n, nil
}

// ---------------------------------------------------------------- one history

type histStats struct {
	rowChecks, cutChecks int64
	bytes                int
	ups                  int
	sgrLeak              bool
	erasePending         int
}

func judgeHistory(k *capture, cs *Case) (st histStats, fail *failure) {
	n, f := runCuts(cs)
	st.cutChecks = n
	if f != nil {
		return st, f
	}
	live, f := runLive(k, cs)
	st.rowChecks = live.checked
	st.bytes = live.bytes
	if live.scr != nil {
		st.ups = live.scr.Ups
		st.erasePending = live.scr.ErasesAtPending
		st.sgrLeak = live.scr.SGRActive && allBalanced(cs)
	}
	if f != nil {
		return st, f
	}
	lines, f := runBuffered(k, cs)
	if f != nil {
		return st, f
	}
	// the buffered writer prints the same final lines, top to bottom
	if live.scr.W == cs.W || !cs.Trim {
		for i, ln := range lines {
			v, _ := visible(ln)
			got := strings.TrimRight(string(v), " ")
			if i < len(live.rows) && got != live.rows[i] {
				return st, &failure{class: "buffered-vs-live", msg: fmt.Sprintf("line %d: buffered writer prints %s, the live screen shows %s", i, run.Q(got), run.Q(live.rows[i]))}
			}
			st.rowChecks++
		}
	}
	if f := runVirtual(cs); f != nil {
		return st, f
	}
	return st, nil
}

// allBalanced: every text of the history leaves the colour state reset.
func allBalanced(cs *Case) bool {
	for _, u := range cs.Ups {
		i := strings.LastIndex(u.T, "\x1b[")
		if i < 0 {
			continue
		}
		rest := u.T[i+2:]
		j := strings.IndexByte(rest, 'm')
		if j < 0 || !(rest[:j] == "" || rest[:j] == "0") {
			return false
		}
	}
	return true
}

func nontrivial(cs *Case) bool {
	seen := map[int]bool{}
	for _, u := range cs.Ups {
		if seen[u.L] {
			return true
		}
		seen[u.L] = true
		if v, _ := visible(u.T); len(v) > cs.W {
			return true
		}
	}
	return false
}

// shrink removes updates while the same class of failure persists.
func shrink(k *capture, cs *Case, class string) *Case {
	cur := *cs
	cur.Ups = append([]Upd(nil), cs.Ups...)
	budget := 600
	fails := func(c2 *Case) bool {
		budget--
		_, f := judgeHistory(k, c2)
		return f != nil && f.class == class
	}
	for chunk := len(cur.Ups) / 2; chunk >= 1 && budget > 0; {
		removed := false
		for at := 0; at+chunk <= len(cur.Ups) && budget > 0; {
			c2 := cur
			c2.Ups = append(append([]Upd(nil), cur.Ups[:at]...), cur.Ups[at+chunk:]...)
			if len(c2.Ups) > 0 && fails(&c2) {
				cur = c2
				removed = true
			} else {
				at += chunk
			}
		}
		if !removed || chunk > 1 {
			chunk /= 2
		}
	}
	// shorten texts
	budget += 300
	for i := range cur.Ups {
		for budget > 0 {
			r := []rune(cur.Ups[i].T)
			if len(r) < 2 || strings.ContainsRune(cur.Ups[i].T, 0x1b) {
				break
			}
			c2 := cur
			c2.Ups = append([]Upd(nil), cur.Ups...)
			c2.Ups[i].T = string(r[:len(r)/2])
			if !fails(&c2) {
				break
			}
			cur = c2
		}
	}
	return &cur
}

func runHistory(c *run.Ctx, k *capture, cs *Case, fpPrefix string) bool {
	st, f := judgeHistory(k, cs)
	c.Count("histories", 1)
	c.Count("updates", int64(len(cs.Ups)))
	c.Count("row_checks", st.rowChecks)
	c.Count("cut_checks", st.cutChecks)
	c.Count("cursor_up_sequences", int64(st.ups))
	// not judged: a full-width line followed by ESC[0K; terminals that keep the cursor on the
	// last column in the pending-wrap state (xterm) erase the last character there
	c.Count("obs_updates_full_width_then_erase", int64(st.erasePending))
	c.Max("max_history_len", int64(len(cs.Ups)))
	c.Max("max_stream_bytes", int64(st.bytes))
	if st.sgrLeak {
		// not judged (the statement is about text, not colour): every text ended with its
		// colour reset, yet a colour is still active after Close because the cut dropped the reset
		c.Count("obs_colour_left_active_by_cut", 1)
	}
	if cs.Trim {
		c.Count("histories_trim_on", 1)
	} else {
		c.Count("histories_trim_off", 1)
	}
	if f == nil {
		return true
	}
	if f.incon {
		c.Inconclusive("C20 " + f.class + ": " + f.msg + " :: " + describe(cs))
		return false
	}
	small := cs
	if cs.Pinned == "" && len(cs.Ups) > 1 {
		small = shrink(k, cs, f.class)
		if _, f2 := judgeHistory(k, small); f2 != nil && f2.class == f.class {
			f = f2
		} else {
			small = cs
		}
	}
	fp := fpPrefix + f.class + ":" + run.Hash64(describe(small))
	if cs.Pinned != "" {
		fp = cs.Pinned
	}
	c.Violation(fp, f.msg+" :: "+describe(small), small)
	return false
}

// ---------------------------------------------------------------- Run

func Run(c *run.Ctx) {
	k, err := newCapture(c.WorkDir)
	if err != nil {
		c.Inconclusive("cannot create the stdout scratch file: " + err.Error())
		return
	}
	defer k.close()
	scratchDir = c.WorkDir

	if c.Replay != nil {
		var cs Case
		if err := json.Unmarshal(c.Replay, &cs); err != nil {
			c.Inconclusive("bad replay: " + err.Error())
			return
		}
		c.Begin(&cs, 120*time.Second)
		if cs.Kind == "pty" && cs.Pty != nil {
			runPty(c, &cs)
		} else {
			runHistory(c, k, &cs, "")
		}
		c.End()
		return
	}

	pinned(c, k)
	dense(c, k)
	random(c, k)
	ptyCases(c)
}

// pinned: hand-written histories that are always executed (regression cases).
func pinned(c *run.Ctx, k *capture) {
	if c.Shard != 0 {
		return
	}
	red, rst := "\x1b[31m", "\x1b[0m"
	list := []Case{
		{W: 80, Trim: true, Ups: []Upd{{0, "a long first text"}, {0, "short"}}},
		{W: 80, Trim: true, Ups: []Upd{{3, "jump past the maximum"}, {0, "back to the top"}, {7, "further down"}, {2, "gap"}}},
		{W: 10, Trim: true, Ups: []Upd{{0, "0123456789"}, {1, "0123456789A"}, {0, "012345678"}}},
		{W: 5, Trim: true, Ups: []Upd{{0, red + "abcdefgh" + rst}, {1, "ab" + red + "cde" + rst + "fgh"}, {2, "abcd" + red + "e" + rst}}},
		{W: 4, Trim: true, Ups: []Upd{{0, "äöüßéè"}, {1, "█████▌"}, {0, "→"}}},
		{W: 1, Trim: true, Ups: []Upd{{0, "xy"}, {1, red + "z" + rst}, {0, ""}}},
		{W: 30, Trim: false, Ups: []Upd{{0, "no trimming, fits"}, {2, "x"}, {0, "y"}}},
		{W: 8, Trim: false, Ups: []Upd{{0, "wider than the terminal, trimming off"}, {1, "b"}, {0, "a"}}},
		{W: 20, Trim: true, NoHide: true, Ups: []Upd{{1, "cursor never hidden"}, {0, "x"}}},
		{W: 20, Trim: true, Fmt: true, Ups: []Upd{{0, "100% %s %d"}, {0, "%"}}},
	}
	for i := range list {
		cs := &list[i]
		cs.Kind = "history"
		c.Begin(cs, 0)
		if nontrivial(cs) {
			c.Nontrivial(describe(cs))
		}
		c.Count("pinned_cases", 1)
		runHistory(c, k, cs, "pinned:")
		c.End()
	}
}

// dense: every history of length <= 3 over 3 lines x 3 texts, at widths around
// the text lengths, trimming on and off.
func dense(c *run.Ctx, k *capture) {
	texts := []string{"a", "abcd", "\x1b[31mabcdef\x1b[0m"}
	lines := []int{0, 1, 2}
	maxLen := c.N(3, 4)
	type cfg struct {
		w    int
		trim bool
	}
	cfgs := []cfg{{1, true}, {4, true}, {5, true}, {6, true}, {6, false}, {80, true}}
	idx := 0
	for _, cf := range cfgs {
		var gen func(prefix []Upd)
		gen = func(prefix []Upd) {
			if len(prefix) > 0 {
				if c.Mine(idx) {
					cs := &Case{Kind: "history", W: cf.w, Trim: cf.trim, Ups: append([]Upd(nil), prefix...)}
					c.Begin(cs, 0)
					if nontrivial(cs) {
						c.Nontrivial(describe(cs))
					}
					c.Count("dense_cases", 1)
					runHistory(c, k, cs, "dense:")
					c.End()
				}
				idx++
			}
			if len(prefix) == maxLen || c.Violations() >= 6 {
				return
			}
			for _, l := range lines {
				for _, t := range texts {
					gen(append(prefix, Upd{l, t}))
				}
			}
		}
		gen(nil)
	}
}

func random(c *run.Ctx, k *capture) {
	N := c.N(24000, 450000)
	for i := 0; i < N; i++ {
		if !c.Mine(i) {
			continue
		}
		r := c.Rand("history", i)
		cs := genHistory(r)
		c.Begin(cs, 0)
		if nontrivial(cs) {
			c.Nontrivial(describe(cs))
		}
		c.Count("random_cases", 1)
		c.SetAdd("widths", fmt.Sprint(cs.W))
		if i < 4 {
			c.Sample(map[string]any{"width": cs.W, "trim": cs.Trim, "updates": len(cs.Ups), "first": cs.Ups[:min(4, len(cs.Ups))]})
		}
		runHistory(c, k, cs, "random:")
		c.End()
		if c.Violations() >= 6 {
			return
		}
	}
}
