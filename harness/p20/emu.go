package p20

// A reference emulator for exactly the VT100 subset that rare's in-place
// writer emits: CR, LF, CSI n A (cursor up), CSI 0 K (erase to end of line),
// CSI ?25 l / h (cursor visibility) and SGR (tracked, invisible). Written from
// ECMA-48 / the xterm control-sequence list, not from rare's code.
//
// Model:
//   * rows are unbounded downwards; row 0 is the row the cursor was on when the
//     writer started (scrolling at the bottom of a real screen is out of scope);
//   * every printable rune occupies one column (double-width glyphs and
//     combining marks are not generated);
//   * autowrap: a rune printed while the cursor column is >= width goes to
//     column 0 of the next row (counted in Wraps);
//   * LENIENT about the "pending wrap" state: after a rune lands in the last
//     column the cursor column is `width`; an erase-to-end-of-line issued there
//     erases nothing (an xterm would erase the last cell). So the emulator can
//     never accuse rare of something only some terminals do.
//
// Anything outside the subset (cursor addressing, erase display, tabs, other C0
// controls, non-CSI escapes) is recorded in Unsupported and never interpreted;
// a CSI interrupted by ESC / a control / a non-ASCII rune is counted in
// Malformed (this is what a colour sequence cut in the middle looks like).

import (
	"fmt"
	"strings"
	"unicode/utf8"
)

type Screen struct {
	W     int  // width in columns; 0 = unbounded
	ONLCR bool // LF is delivered as CR LF (tty output post-processing)

	rows   [][]rune
	R, C   int
	Hidden bool

	Wraps           int // autowraps performed
	AboveTop        int // cursor-up requests that would have left row 0
	Malformed       int
	Unsupported     []string
	Ups             int  // cursor-up sequences seen
	SGRActive       bool // last SGR was not a reset
	SGRCount        int
	Erases          int
	ErasesAtPending int // erase-to-end-of-line issued in the pending-wrap state (see above; not judged)
	ShowSeen        int
	HideSeen        int

	state   int // 0 ground, 1 esc, 2 csi
	csi     []rune
	pending []byte // incomplete UTF-8 tail of the previous Feed
}

func NewScreen(w int, onlcr bool) *Screen { return &Screen{W: w, ONLCR: onlcr} }

func (s *Screen) unsupported(what string) {
	if len(s.Unsupported) < 8 {
		s.Unsupported = append(s.Unsupported, what)
	}
}

func (s *Screen) row(i int) []rune {
	for len(s.rows) <= i {
		s.rows = append(s.rows, nil)
	}
	return s.rows[i]
}

func (s *Screen) put(r rune) {
	if s.W > 0 && s.C >= s.W {
		s.Wraps++
		s.R++
		s.C = 0
	}
	row := s.row(s.R)
	for len(row) <= s.C {
		row = append(row, ' ')
	}
	row[s.C] = r
	s.rows[s.R] = row
	s.C++
}

func (s *Screen) eraseRight() {
	row := s.row(s.R)
	if s.C < len(row) {
		s.rows[s.R] = row[:s.C]
	}
}

// Feed interprets more output bytes.
func (s *Screen) Feed(b []byte) {
	if len(s.pending) > 0 {
		b = append(append([]byte(nil), s.pending...), b...)
		s.pending = nil
	}
	for len(b) > 0 {
		if !utf8.FullRune(b) && len(b) < utf8.UTFMax {
			s.pending = append([]byte(nil), b...)
			return
		}
		r, n := utf8.DecodeRune(b)
		b = b[n:]
		s.rune(r)
	}
}

func (s *Screen) rune(r rune) {
	switch s.state {
	case 1: // after ESC
		if r == '[' {
			s.state = 2
			s.csi = s.csi[:0]
			return
		}
		s.state = 0
		if r == 0x1b {
			s.Malformed++
			s.state = 1
			return
		}
		s.unsupported(fmt.Sprintf("ESC %q", r))
		return
	case 2: // inside CSI
		switch {
		case r >= 0x30 && r <= 0x3f, r >= 0x20 && r <= 0x2f:
			s.csi = append(s.csi, r)
			if len(s.csi) > 64 {
				s.Malformed++
				s.state = 0
			}
			return
		case r >= 0x40 && r <= 0x7e:
			s.state = 0
			s.dispatch(string(s.csi), r)
			return
		default:
			// sequence broken off
			s.Malformed++
			s.state = 0
			// fall through: interpret r in the ground state
		}
	}
	switch {
	case r == 0x1b:
		s.state = 1
	case r == '\r':
		s.C = 0
	case r == '\n':
		s.R++
		if s.ONLCR {
			s.C = 0
		}
		s.row(s.R)
	case r == '\b':
		if s.C > 0 {
			s.C--
		}
	case r == 0x07:
	case r < 0x20 || r == 0x7f || (r >= 0x80 && r < 0xa0):
		s.unsupported(fmt.Sprintf("control %q", r))
	default:
		s.put(r)
	}
}

func atoiDefault(p string, def int) (int, bool) {
	if p == "" {
		return def, true
	}
	n := 0
	for _, ch := range p {
		if ch < '0' || ch > '9' {
			return 0, false
		}
		n = n*10 + int(ch-'0')
		if n > 1<<20 {
			return 0, false
		}
	}
	return n, true
}

func (s *Screen) dispatch(params string, final rune) {
	switch final {
	case 'm':
		for _, ch := range params {
			if !(ch >= '0' && ch <= '9') && ch != ';' && ch != ':' {
				s.unsupported("CSI " + params + "m")
				return
			}
		}
		s.SGRCount++
		s.SGRActive = !(params == "" || params == "0" || strings.HasSuffix(params, ";0"))
	case 'A':
		n, ok := atoiDefault(params, 1)
		if !ok {
			s.unsupported("CSI " + params + "A")
			return
		}
		if n == 0 {
			n = 1
		}
		s.Ups++
		s.R -= n
		if s.R < 0 {
			s.AboveTop++
			s.R = 0
		}
		if s.W > 0 && s.C >= s.W { // cursor motion leaves the pending-wrap state
			s.C = s.W - 1
		}
	case 'K':
		n, ok := atoiDefault(params, 0)
		if !ok || n != 0 {
			s.unsupported("CSI " + params + "K")
			return
		}
		s.Erases++
		if s.W > 0 && s.C >= s.W {
			s.ErasesAtPending++
		}
		s.eraseRight()
	case 'h', 'l':
		if params != "?25" {
			s.unsupported("CSI " + params + string(final))
			return
		}
		s.Hidden = final == 'l'
		if s.Hidden {
			s.HideSeen++
		} else {
			s.ShowSeen++
		}
	default:
		s.unsupported("CSI " + params + string(final))
	}
}

// Truncated reports whether the stream ended inside an escape sequence.
func (s *Screen) Truncated() bool { return s.state != 0 || len(s.pending) > 0 }

// Row returns the text of row i with trailing blanks removed (an erased cell
// and a space are the same thing on a screen).
func (s *Screen) Row(i int) string {
	if i < 0 || i >= len(s.rows) {
		return ""
	}
	return strings.TrimRight(string(s.rows[i]), " ")
}

// UsedRows is 1 + the index of the last row that shows anything.
func (s *Screen) UsedRows() int {
	for i := len(s.rows) - 1; i >= 0; i-- {
		if s.Row(i) != "" {
			return i + 1
		}
	}
	return 0
}
