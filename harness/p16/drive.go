package p16

import (
	"bytes"
	"encoding/base64"
	"errors"
	"fmt"
	"os"
	"os/exec"
	"path/filepath"
	"regexp"
	"strings"

	"rare/pkg/extractor"
	"rare/pkg/matchers"
	"rare/pkg/matchers/dissect"
	"rare/pkg/matchers/fastregex"
)

// Case is one C16 execution (JSON-replayable; byte strings are base64).
type Case struct {
	Kind    string   `json:"kind"`             // ext | filter | histo | expr
	Pinned  string   `json:"pinned,omitempty"` // name of the pinned witness, if it is one
	Matcher string   `json:"matcher,omitempty"` // regex | dissect
	Pattern string   `json:"pattern,omitempty"`
	Lines   []string `json:"lines_b64,omitempty"`
	Views   []string `json:"views"` // ".", "#", ".#"
	Repeat  int      `json:"repeat,omitempty"`
	Batch   int      `json:"batch,omitempty"`
	Workers int      `json:"workers,omitempty"`
	// Interleave: l0 l1 l2 l0 l1 l2 ... instead of l0 l0 ... l1 l1 ...
	Interleave bool `json:"interleave,omitempty"`
	// Sources > 1: the lines are dealt round-robin to that many inputs, one line per batch, so that
	// consecutive batches carry the SAME line number from different sources (what several files give)
	Sources int `json:"sources,omitempty"`
	// expr: rare expression -k key=value ... -d data ...
	Keys [][2]string `json:"keys_b64,omitempty"` // name (plain), value (base64)
	Data []string    `json:"data_b64,omitempty"`
	Runs int         `json:"runs,omitempty"`
	// exprself: the raw -k arguments (a name without '=', a name given more than once)
	Pairs []string `json:"pairs,omitempty"`
}

func b64(b []byte) string { return base64.StdEncoding.EncodeToString(b) }
func unb64(s string) []byte {
	b, _ := base64.StdEncoding.DecodeString(s)
	return b
}

func (cs *Case) lines() [][]byte {
	out := make([][]byte, len(cs.Lines))
	for i, l := range cs.Lines {
		out[i] = unb64(l)
	}
	return out
}

// ---------------------------------------------------------------- reference matcher

// refMatcher says what the match of a line is, independently of rare:
// Go regexp driven directly, or the documented dissect algorithm
// (search the constant delimiters in order, take the text between them).
type refMatcher struct {
	re    *regexp.Regexp
	names map[string]int
	// dissect
	dis    bool
	prefix string
	toks   []refTok
}

type refTok struct {
	name  string
	skip  bool
	until string
}

func newRef(cs *Case) (*refMatcher, error) {
	if cs.Matcher == "dissect" {
		r := &refMatcher{dis: true, names: map[string]int{}}
		p := cs.Pattern
		first := true
		gi := 0
		for {
			st := strings.Index(p, "%{")
			if st < 0 {
				if first {
					return nil, errors.New("dissect pattern without a token")
				}
				break
			}
			if first {
				r.prefix = p[:st]
				first = false
			}
			p = p[st+2:]
			en := strings.IndexByte(p, '}')
			if en < 0 {
				return nil, errors.New("unclosed token")
			}
			name := p[:en]
			p = p[en+1:]
			nx := strings.Index(p, "%{")
			if nx < 0 {
				nx = len(p)
			}
			t := refTok{name: name, until: p[:nx]}
			p = p[nx:]
			if name == "" || name[0] == '?' {
				t.skip = true
			} else {
				gi++
				r.names[name] = gi
			}
			r.toks = append(r.toks, t)
		}
		return r, nil
	}
	re, err := regexp.Compile(cs.Pattern)
	if err != nil {
		return nil, err
	}
	names := map[string]int{}
	for i, n := range re.SubexpNames() {
		if n != "" {
			names[n] = i
		}
	}
	return &refMatcher{re: re, names: names}, nil
}

func (r *refMatcher) match(line []byte) *matchInfo {
	if r.dis {
		s := string(line)
		pos, start := 0, 0
		if r.prefix != "" {
			i := strings.Index(s, r.prefix)
			if i < 0 {
				return nil
			}
			start = i
			pos = i + len(r.prefix)
		}
		caps := []string{""}
		for _, t := range r.toks {
			end := len(s)
			if t.until != "" {
				e := strings.Index(s[pos:], t.until)
				if e < 0 {
					return nil
				}
				end = pos + e
			}
			if !t.skip {
				caps = append(caps, s[pos:end])
			}
			pos = end + len(t.until)
		}
		caps[0] = s[start:pos]
		return &matchInfo{names: r.names, caps: caps, nnum: len(caps)}
	}
	idx := r.re.FindSubmatchIndex(line)
	if idx == nil {
		return nil
	}
	caps := make([]string, len(idx)/2)
	for i := range caps {
		if idx[2*i] >= 0 && idx[2*i+1] >= 0 {
			caps[i] = string(line[idx[2*i]:idx[2*i+1]])
		}
	}
	return &matchInfo{names: r.names, caps: caps, nnum: len(caps)}
}

// ---------------------------------------------------------------- the real thing, in process

func buildFactory(cs *Case) (matchers.Factory, error) {
	if cs.Matcher == "dissect" {
		d, err := dissect.CompileEx(cs.Pattern, false)
		if err != nil {
			return nil, err
		}
		return matchers.ToFactory(d), nil
	}
	r, err := fastregex.CompileEx(cs.Pattern, false)
	if err != nil {
		return nil, err
	}
	return matchers.ToFactory(r), nil
}

// runExt feeds the lines (each Repeat times) through extractor.New with the
// expression {view} and returns, per line, every Extracted text in arrival order.
func runExt(cs *Case, view string, lines [][]byte) ([][]string, error) {
	fac, err := buildFactory(cs)
	if err != nil {
		return nil, err
	}
	rep := max(cs.Repeat, 1)
	batch := max(cs.Batch, 1)
	order := make([]int, 0, len(lines)*rep)
	if cs.Interleave {
		for r := 0; r < rep; r++ {
			for i := range lines {
				order = append(order, i)
			}
		}
	} else {
		for i := range lines {
			for r := 0; r < rep; r++ {
				order = append(order, i)
			}
		}
	}
	ch := make(chan extractor.InputBatch)
	ext, err := extractor.New(ch, &extractor.Config{Matcher: fac, Extract: "{" + view + "}", Workers: max(cs.Workers, 1)})
	if err != nil {
		close(ch)
		return nil, err
	}
	nsrc := max(cs.Sources, 1)
	if nsrc > 1 {
		go func() {
			for p := range order {
				ch <- extractor.InputBatch{Batch: []extractor.BString{lines[order[p]]}, Source: fmt.Sprintf("c16-%d", p%nsrc), BatchStart: uint64(p/nsrc + 1)}
			}
			close(ch)
		}()
		outs := make([][]string, len(lines))
		for mb := range ext.ReadChan() {
			for _, m := range mb {
				var si int
				if _, err := fmt.Sscanf(m.Source, "c16-%d", &si); err != nil || si < 0 || si >= nsrc {
					return nil, fmt.Errorf("match with unknown source %q", m.Source)
				}
				p := (int(m.LineNumber)-1)*nsrc + si
				if p < 0 || p >= len(order) {
					return nil, fmt.Errorf("match with source %s line %d out of range", m.Source, m.LineNumber)
				}
				outs[order[p]] = append(outs[order[p]], strings.Clone(m.Extracted))
			}
		}
		return outs, nil
	}
	go func() {
		for s := 0; s < len(order); s += batch {
			e := min(s+batch, len(order))
			b := make([]extractor.BString, e-s)
			for k := s; k < e; k++ {
				b[k-s] = lines[order[k]]
			}
			ch <- extractor.InputBatch{Batch: b, Source: "c16", BatchStart: uint64(s + 1)}
		}
		close(ch)
	}()
	outs := make([][]string, len(lines))
	for mb := range ext.ReadChan() {
		for _, m := range mb {
			n := int(m.LineNumber) - 1
			if n < 0 || n >= len(order) {
				return nil, fmt.Errorf("match with line number %d out of range", m.LineNumber)
			}
			outs[order[n]] = append(outs[order[n]], strings.Clone(m.Extracted))
		}
	}
	return outs, nil
}

// ---------------------------------------------------------------- the real thing, CLI

func cliEnv() []string {
	return []string{"PATH=/usr/bin:/bin", "HOME=/nonexistent", "NO_COLOR=1", "TERM=dumb"}
}

func runCLI(bin, dir string, args ...string) (stdout, stderr []byte, err error) {
	cmd := exec.Command(bin, args...)
	cmd.Dir = dir
	cmd.Env = cliEnv()
	var so, se bytes.Buffer
	cmd.Stdout, cmd.Stderr = &so, &se
	err = cmd.Run()
	return so.Bytes(), se.Bytes(), err
}

func matcherArgs(cs *Case) []string {
	if cs.Matcher == "dissect" {
		return []string{"--dissect", cs.Pattern}
	}
	return []string{"--match", cs.Pattern}
}

// writeInput writes the lines (each Repeat times) as a file; lines must not contain \n or \r.
func writeInput(dir string, cs *Case, lines [][]byte) (string, error) {
	var buf bytes.Buffer
	for _, l := range lines {
		for r := 0; r < max(cs.Repeat, 1); r++ {
			buf.Write(l)
			buf.WriteByte('\n')
		}
	}
	p := filepath.Join(dir, "in.log")
	return p, os.WriteFile(p, buf.Bytes(), 0o644)
}
