// Package p16 decides C16: the JSON views {.}, {#} and {.#} of a match are one
// valid JSON object whose members decode to the captured group texts, and the
// same match always yields the same text.
//
// The real path is used: extractor.New with fastregex / dissect matchers and
// the expressions {.} {#} {.#} (in process), `rare filter`, `rare histo` and
// `rare expression` (CLI). The oracle is encoding/json (validity, decoding)
// and Go regexp / the documented dissect algorithm (what the captures are).
package p16

import (
	"encoding/json"
	"fmt"
	"os"
	"regexp"
	"strconv"
	"strings"
	"time"

	"verifharness/internal/reg"
	"verifharness/internal/run"
)

func init() { reg.Register("C16", Run) }

var allViews = []string{".", "#", ".#"}

func Run(c *run.Ctx) {
	if c.Replay != nil {
		var cs Case
		if err := json.Unmarshal(c.Replay, &cs); err != nil {
			c.Inconclusive("bad replay: " + err.Error())
			return
		}
		c.Begin(&cs, 300*time.Second)
		runCase(c, &cs)
		c.End()
		return
	}
	pinned(c)
	if c.Flavour == "race" {
		// concurrency flavour: the repeated-evaluation cases (8 workers) and a slice of the random ones
		detCases(c, c.N(40, 200))
		randomCases(c, c.N(100, 400))
		return
	}
	dense(c)
	randomCases(c, c.N(2000, 20000))
	detCases(c, c.N(96, 800))
	cliCases(c, c.N(24, 220))
	exprCases(c, c.N(32, 320))
	exprSelfCases(c, c.N(12, 120))
}

func opts(c *run.Ctx) genOpts {
	return genOpts{noRawCtl: c.KnownActive(fpRawControl), noLeadZero: c.KnownActive(fpLeadingZero)}
}

// execCase journals, runs and accounts one case.
func execCase(c *run.Ctx, cs *Case) {
	c.Begin(cs, 300*time.Second)
	runCase(c, cs)
	c.End()
}

func runCase(c *run.Ctx, cs *Case) {
	switch cs.Kind {
	case "ext":
		runExtCase(c, cs)
	case "cli":
		runCLICase(c, cs)
	case "expr":
		runExprCase(c, cs)
	case "exprself":
		runExprSelfCase(c, cs)
	default:
		c.Inconclusive("unknown case kind " + cs.Kind)
	}
}

// admit drops the lines of a generated case that fall into a defect class that
// is listed as known (any group text in the class), so that the rest of the
// space keeps being explored; the pinned witnesses keep exercising the classes.
func admit(c *run.Ctx, cs *Case) bool {
	noCtl, noLZ := c.KnownActive(fpRawControl), c.KnownActive(fpLeadingZero)
	if !noCtl && !noLZ {
		return len(cs.Lines) > 0
	}
	ref, err := newRef(cs)
	if err != nil {
		return true // reported by runCase
	}
	keep := cs.Lines[:0:0]
	for _, l := range cs.Lines {
		mi := ref.match(unb64(l))
		drop := false
		if mi != nil {
			for _, t := range mi.caps {
				if (noCtl && inRawControlClass(t)) || (noLZ && inLeadingZeroClass(t)) {
					drop = true
					break
				}
			}
		}
		if drop {
			c.Count("skipped_known_class_lines", 1)
		} else {
			keep = append(keep, l)
		}
	}
	cs.Lines = keep
	return len(keep) > 0
}

// ---------------------------------------------------------------- judging one line's outputs

func distinct(xs []string) []string {
	var out []string
	seen := map[string]bool{}
	for _, x := range xs {
		if !seen[x] {
			seen[x] = true
			out = append(out, x)
		}
	}
	return out
}

func flushStats(c *run.Ctx, st *stats) {
	c.Count("members_checked", st.members)
	c.Count("members_as_string", st.asString)
	c.Count("members_as_number", st.asNumber)
	c.Count("members_as_bool", st.asBool)
	if st.abstainFold > 0 {
		c.Count("abstained_unicode_case_fold_bool", st.abstainFold)
	}
}

// judgeOutputs: determinism over all produced texts of one (input, view), then
// validity + faithfulness of every distinct text. mini is the reduced replay case.
func judgeOutputs(c *run.Ctx, mini *Case, what, view string, mi *matchInfo, outs []string, orderFP string, id string, st *stats) {
	variants := distinct(outs)
	if len(variants) > 1 {
		fp := "nondeterministic:" + id
		named := strings.Contains(view, ".")
		isOrder := named && len(mi.names) >= 2 && orderOnly(mi, variants)
		if isOrder {
			fp = orderFP
		}
		if isOrder && mini.Pinned == "" && c.KnownActive(orderFP) {
			// the member-order defect is listed as known: outside its pinned witness,
			// repeated evaluation is compared modulo the position of the named members
			c.Count("order_only_differences_not_reported", 1)
		} else {
			c.Violation(fp, fmt.Sprintf("%s, view {%s}: %d evaluations of the same match gave %d different texts, e.g. %s and %s; expected one text every time",
				what, view, len(outs), len(variants), run.Q(variants[0]), run.Q(variants[1])), mini)
		}
	} else {
		c.Count("determinism_groups_identical", 1)
	}
	c.Count("repeat_evaluations_compared", int64(len(outs)))
	for _, text := range variants {
		c.Count("texts_decoded", 1)
		fps, msg := judgeText(view, mi, text, id, st)
		for _, fp := range fps {
			c.Violation(fp, fmt.Sprintf("%s, view {%s}: %s; observed %s; captures %s", what, view, msg, run.Q(text), capsString(mi)), mini)
		}
	}
}

func capsString(mi *matchInfo) string {
	var sb strings.Builder
	sb.WriteString("[")
	for i, t := range mi.caps {
		if i > 0 {
			sb.WriteString(" ")
		}
		if i >= 8 {
			sb.WriteString("…")
			break
		}
		name := ""
		for n, j := range mi.names {
			if j == i {
				name = n
			}
		}
		if len(t) > 60 {
			t = t[:60] + "…"
		}
		fmt.Fprintf(&sb, "%d%s=%q", i, map[bool]string{true: "(" + name + ")", false: ""}[name != ""], t)
	}
	sb.WriteString("]")
	return sb.String()
}

// ---------------------------------------------------------------- ext: in-process extractor

func runExtCase(c *run.Ctx, cs *Case) {
	ref, err := newRef(cs)
	if err != nil {
		c.Inconclusive(fmt.Sprintf("generated pattern %q does not compile in the reference: %v", cs.Pattern, err))
		return
	}
	lines := cs.lines()
	infos := make([]*matchInfo, len(lines))
	for i, l := range lines {
		infos[i] = ref.match(l)
		if mi := infos[i]; mi != nil {
			for _, t := range mi.caps {
				if needsEscape(t) || looksInferred(t) {
					c.Nontrivial(cs.Matcher, cs.Pattern, string(l))
					break
				}
			}
			c.Max("max_named_groups", int64(len(mi.names)))
		}
	}
	rep := max(cs.Repeat, 1)
	var st stats
	for _, view := range cs.Views {
		var outs [][]string
		p, val, stack := run.Guard(func() { outs, err = runExt(cs, view, lines) })
		if p {
			c.Violation("panic:"+run.Hash64(cs.Pattern, view, strings.Join(cs.Lines, ",")),
				fmt.Sprintf("pattern %q view {%s}: panic: %v\n%s", cs.Pattern, view, val, stack), cs)
			return
		}
		if err != nil {
			c.Inconclusive(fmt.Sprintf("pattern %q (%s) / expression {%s} rejected by rare: %v", cs.Pattern, cs.Matcher, view, err))
			return
		}
		for li, l := range lines {
			mi := infos[li]
			got := outs[li]
			if mi == nil || len(got) != rep {
				if !(mi == nil && len(got) == 0) {
					// which lines match / how often they are emitted is C01/C12, not C16
					c.Count("match_count_disagreements_not_judged", 1)
				}
				continue
			}
			c.Count("matches", int64(len(got)))
			c.Evals(1)
			c.Count("view_"+map[string]string{".": "named", "#": "numbered", ".#": "both"}[view], 1)
			mini := *cs
			mini.Lines = []string{cs.Lines[li]}
			mini.Views = []string{view}
			id := run.Hash64(cs.Matcher, cs.Pattern, string(l), view)
			what := fmt.Sprintf("%s %q on line %s (x%d, %d workers)", matcherWord(cs), cs.Pattern, run.Q(string(l)), rep, max(cs.Workers, 1))
			judgeOutputs(c, &mini, what, view, mi, got, fpNamedOrder, id, &st)
		}
	}
	flushStats(c, &st)
}

func matcherWord(cs *Case) string {
	if cs.Matcher == "dissect" {
		return "dissect"
	}
	return "regex"
}

// ---------------------------------------------------------------- cli: rare filter + rare histo on a file

var groupsRe = regexp.MustCompile(`\(Groups: ([0-9,]+)\)`)

func runCLICase(c *run.Ctx, cs *Case) {
	if c.RareBin == "" {
		c.Inconclusive("no rare binary")
		return
	}
	ref, err := newRef(cs)
	if err != nil {
		c.Inconclusive("reference does not compile " + cs.Pattern)
		return
	}
	lines := cs.lines()
	if len(lines) != 1 {
		c.Inconclusive("cli case needs exactly one line")
		return
	}
	line := lines[0]
	mi := ref.match(line)
	if mi == nil {
		return
	}
	for _, t := range mi.caps {
		if needsEscape(t) || looksInferred(t) {
			c.Nontrivial(cs.Matcher, cs.Pattern, string(line))
			break
		}
	}
	dir, err := os.MkdirTemp(c.WorkDir, "cli")
	if err != nil {
		c.Inconclusive("mkdir: " + err.Error())
		return
	}
	defer os.RemoveAll(dir)
	in, err := writeInput(dir, cs, lines)
	if err != nil {
		c.Inconclusive("write: " + err.Error())
		return
	}
	rep := max(cs.Repeat, 1)
	var st stats
	for _, view := range cs.Views {
		mini := *cs
		mini.Views = []string{view}
		id := run.Hash64("cli", cs.Matcher, cs.Pattern, string(line), view)
		what := fmt.Sprintf("rare filter %s %q -e '{%s}' on %d copies of line %s", matcherArgs(cs)[0], cs.Pattern, view, rep, run.Q(string(line)))
		// filter: one text per matched line
		args := append([]string{"filter"}, matcherArgs(cs)...)
		args = append(args, "-e", "{"+view+"}", in)
		so, se, err := runCLI(c.RareBin, dir, args...)
		c.Count("cli_runs", 1)
		if err != nil {
			if strings.Contains(string(se), "panic:") || strings.Contains(string(se), "goroutine ") {
				c.Violation("cli-crash:"+id, fmt.Sprintf("%s: crashed: %v\n%s", what, err, tailStr(string(se), 1500)), &mini)
			} else {
				c.Count("cli_rejected_not_judged", 1)
			}
			continue
		}
		text := strings.TrimSuffix(string(so), "\n")
		got := strings.Split(text, "\n")
		if len(got) != rep {
			c.Count("match_count_disagreements_not_judged", 1)
			continue
		}
		c.Count("matches", int64(len(got)))
		c.Count("cli_filter_matches", int64(len(got)))
		c.Evals(1)
		judgeOutputs(c, &mini, what, view, mi, got, fpNamedOrder, id, &st)

		// histo: identical lines keyed by the view must form one group
		args = append([]string{"histo"}, matcherArgs(cs)...)
		args = append(args, "-e", "{"+view+"}", in)
		so, se, err = runCLI(c.RareBin, dir, args...)
		c.Count("cli_runs", 1)
		if err != nil {
			if strings.Contains(string(se), "panic:") || strings.Contains(string(se), "goroutine ") {
				c.Violation("cli-crash:"+id, fmt.Sprintf("rare histo …: crashed: %v\n%s", err, tailStr(string(se), 1500)), &mini)
			} else {
				c.Count("cli_rejected_not_judged", 1)
			}
			continue
		}
		m := groupsRe.FindAllSubmatch(so, -1)
		if len(m) == 0 {
			c.Count("histo_summary_not_found_not_judged", 1)
			continue
		}
		groups, _ := strconv.Atoi(strings.ReplaceAll(string(m[len(m)-1][1]), ",", ""))
		c.Count("histo_runs_judged", 1)
		if groups != 1 {
			fp := "nondeterministic-histo:" + id
			isOrder := strings.Contains(view, ".") && len(mi.names) >= 2
			if isOrder {
				// the table shows the keys; with >= 2 named members and otherwise identical
				// lines the difference is attributed to the member-order class only when
				// filter (above) saw nothing but order differences
				if orderOnly(mi, distinct(got)) {
					fp = fpNamedOrder
				}
			}
			if fp == fpNamedOrder && cs.Pinned == "" && c.KnownActive(fpNamedOrder) {
				c.Count("order_only_differences_not_reported", 1)
			} else {
				c.Violation(fp, fmt.Sprintf("rare histo %s %q -e '{%s}' over %d identical lines %s ended with %d groups, expected 1:\n%s",
					matcherArgs(cs)[0], cs.Pattern, view, rep, run.Q(string(line)), groups, tailStr(string(so), 600)), &mini)
			}
		}
	}
	flushStats(c, &st)
}

func tailStr(s string, n int) string {
	if len(s) > n {
		return "…" + s[len(s)-n:]
	}
	return s
}

// ---------------------------------------------------------------- expr: rare expression -k/-d (buildSpecialKeyJson)

func runExprCase(c *run.Ctx, cs *Case) {
	if c.RareBin == "" {
		c.Inconclusive("no rare binary")
		return
	}
	mi := &matchInfo{names: map[string]int{}}
	var args0 []string
	for _, d := range cs.Data {
		v := string(unb64(d))
		mi.caps = append(mi.caps, v)
		args0 = append(args0, "-d="+v)
	}
	mi.nnum = len(mi.caps)
	for _, kv := range cs.Keys {
		v := string(unb64(kv[1]))
		mi.names[kv[0]] = len(mi.caps)
		mi.caps = append(mi.caps, v)
		args0 = append(args0, "-k="+kv[0]+"="+v)
	}
	for _, t := range mi.caps {
		if needsEscape(t) || looksInferred(t) {
			c.Nontrivial("expr", strings.Join(args0, "\x00"))
			break
		}
	}
	runs := max(cs.Runs, 1)
	var st stats
	for _, view := range cs.Views {
		mini := *cs
		mini.Views = []string{view}
		id := run.Hash64("expr", strings.Join(args0, "\x00"), view)
		args := append([]string{"expression", "-n"}, args0...)
		args = append(args, "{"+view+"}")
		what := fmt.Sprintf("rare %s", quoteArgs(args))
		var got []string
		bad := false
		for i := 0; i < runs; i++ {
			so, se, err := runCLI(c.RareBin, c.WorkDir, args...)
			c.Count("cli_runs", 1)
			if err != nil {
				if strings.Contains(string(se), "panic:") {
					c.Violation("cli-crash:"+id, fmt.Sprintf("%s: crashed: %v\n%s", what, err, tailStr(string(se), 1500)), &mini)
				} else {
					c.Count("cli_rejected_not_judged", 1)
				}
				bad = true
				break
			}
			got = append(got, string(so))
		}
		if bad {
			continue
		}
		c.Count("matches", int64(len(got)))
		c.Count("cli_expression_results", int64(len(got)))
		c.Evals(1)
		judgeOutputs(c, &mini, what, view, mi, got, fpExprOrder, id, &st)
	}
	flushStats(c, &st)
}

// runExprSelfCase: `rare expression -k …` with raw -k arguments of any shape (no '=', the same name
// more than once, '=' inside the value). Whatever text {name} resolves to in this very invocation is
// the text the member "name" of {.} and {.#} must decode to: the JSON view and the key lookup are two
// views of one argument list. The values are plain words, so no escaping or inference is in play.
func runExprSelfCase(c *run.Ctx, cs *Case) {
	if c.RareBin == "" {
		c.Inconclusive("no rare binary")
		return
	}
	var args0 []string
	var names []string
	seen := map[string]bool{}
	for _, p := range cs.Pairs {
		args0 = append(args0, "-k="+p)
		n, _, _ := strings.Cut(p, "=")
		if !seen[n] {
			seen[n] = true
			names = append(names, n)
		}
	}
	for _, d := range cs.Data {
		args0 = append(args0, "-d="+string(unb64(d)))
	}
	id := run.Hash64("exprself", strings.Join(args0, "\x00"))
	eval := func(expr string) (string, bool) {
		args := append(append([]string{"expression", "-n"}, args0...), expr)
		so, se, err := runCLI(c.RareBin, c.WorkDir, args...)
		c.Count("cli_runs", 1)
		if err != nil {
			if strings.Contains(string(se), "panic:") {
				c.Violation("cli-crash:"+id, fmt.Sprintf("rare %s: crashed: %v\n%s", quoteArgs(args), err, tailStr(string(se), 1500)), cs)
			} else {
				c.Count("cli_rejected_not_judged", 1)
			}
			return "", false
		}
		return string(so), true
	}
	want := map[string]string{}
	for _, n := range names {
		v, ok := eval("{" + n + "}")
		if !ok {
			return
		}
		want[n] = v
	}
	c.Nontrivial("exprself", strings.Join(args0, "\x00"))
	for _, view := range cs.Views {
		out, ok := eval("{" + view + "}")
		if !ok {
			return
		}
		c.Evals(1)
		c.Count("matches", 1)
		c.Count("cli_expression_self_results", 1)
		what := fmt.Sprintf("rare %s", quoteArgs(append(append([]string{"expression", "-n"}, args0...), "{"+view+"}")))
		dec := json.NewDecoder(strings.NewReader(out))
		dec.UseNumber()
		var obj map[string]any
		if err := dec.Decode(&obj); err != nil || dec.More() {
			c.Violation("invalid-json:expression-self:"+id, fmt.Sprintf("%s printed %q: not one JSON object (%v)", what, out, err), cs)
			continue
		}
		for _, n := range names {
			got, present := obj[n]
			gs := ""
			switch t := got.(type) {
			case string:
				gs = t
			case json.Number:
				gs = t.String()
			case bool:
				gs = fmt.Sprint(t)
			default:
				present = false
			}
			c.Count("self_members_compared", 1)
			if !present || gs != want[n] {
				c.Violation("unfaithful:expression-self:"+id, fmt.Sprintf("%s printed %q: member %q decodes to %q (present=%v) but {%s} is %q in the same invocation", what, out, n, gs, present, n, want[n]), cs)
				break
			}
		}
	}
}

func quoteArgs(a []string) string {
	var out []string
	for _, s := range a {
		out = append(out, fmt.Sprintf("%q", s))
	}
	return strings.Join(out, " ")
}

// ---------------------------------------------------------------- case lists

const wholeLine = `(?s)^(?P<v>.*)$`
const intPrefix = `(?s)^(?P<int>[0-9]*)(?P<rest>.*)$`

func emitDense(c *run.Ctx, idx *int, pattern, matcher string, lines [][]byte) {
	const chunk = 256
	for s := 0; s < len(lines); s += chunk {
		i := *idx
		*idx++
		if !c.Mine(i) {
			continue
		}
		cs := &Case{Kind: "ext", Matcher: matcher, Pattern: pattern, Views: allViews, Repeat: 2, Batch: 16, Workers: 2}
		for _, l := range lines[s:min(s+chunk, len(lines))] {
			cs.Lines = append(cs.Lines, b64(l))
		}
		if !admit(c, cs) {
			continue
		}
		c.Count("dense_cases", 1)
		execCase(c, cs)
	}
}

func dense(c *run.Ctx) {
	idx := 0
	// every byte alone, in an ASCII context, and in pairs
	var lines [][]byte
	for b := 0; b < 256; b++ {
		lines = append(lines, []byte{byte(b)}, []byte{'x', byte(b), 'y'}, []byte{byte(b), byte(b)})
	}
	interesting := map[byte]bool{}
	for _, b := range []byte{0x00, 0x01, 0x08, 0x09, 0x0a, 0x0b, 0x0c, 0x0d, 0x1f, 0x20, '"', '\\', '/', '0', '1', '.', 'u', 0x7f, 0x80, 0xbf, 0xc2, 0xc3, 0xe2, 0xed, 0xef, 0xf0, 0xf4, 0xff} {
		interesting[b] = true
	}
	for a := 0; a < 256; a++ {
		for b := 0; b < 256; b++ {
			if c.Thorough() || interesting[byte(a)] || interesting[byte(b)] {
				lines = append(lines, []byte{byte(a), byte(b)})
			}
		}
	}
	emitDense(c, &idx, wholeLine, "regex", lines)

	// numeric alphabet, every string up to length L
	L := c.N(4, 5)
	alpha := []byte("0179.-+e")
	lines = nil
	var gen func(p []byte)
	gen = func(p []byte) {
		if len(p) > 0 {
			lines = append(lines, append([]byte(nil), p...))
		}
		if len(p) == L {
			return
		}
		for _, a := range alpha {
			gen(append(p, a))
		}
	}
	gen(nil)
	emitDense(c, &idx, wholeLine, "regex", lines)
	emitDense(c, &idx, intPrefix, "regex", lines)

	// the shape lists, every case variant of true/false
	lines = nil
	for _, s := range numericShapes {
		lines = append(lines, []byte(s))
	}
	for _, s := range boolShapes {
		lines = append(lines, []byte(s))
	}
	for _, w := range []string{"true", "false"} {
		for m := 0; m < 1<<len(w); m++ {
			b := []byte(w)
			for i := range b {
				if m&(1<<i) != 0 {
					b[i] -= 32
				}
			}
			lines = append(lines, b)
		}
	}
	for _, s := range invalidSeqs {
		lines = append(lines, []byte(s), []byte("\""+s+"\\"))
	}
	for _, r := range validRunes {
		lines = append(lines, []byte(string(r)), []byte("\\"+string(r)+"\""))
	}
	for _, n := range []int{17, 19, 20, 40, 309, 310, 1000, 5000} {
		lines = append(lines, []byte(strings.Repeat("9", n)), []byte("1"+strings.Repeat("0", n)), []byte("0."+strings.Repeat("3", n)))
	}
	emitDense(c, &idx, wholeLine, "regex", lines)
	emitDense(c, &idx, intPrefix, "regex", lines)
	emitDense(c, &idx, "%{v}", "dissect", lines)
	// pairs of shapes as two named dissect fields / two regex groups
	var pairs [][]byte
	for i, a := range lines {
		if len(a) > 64 {
			continue
		}
		b := lines[(i*7+3)%len(lines)]
		if len(b) > 64 || strings.ContainsAny(string(a)+string(b), "|") {
			continue
		}
		pairs = append(pairs, []byte(string(a)+"|"+string(b)))
	}
	emitDense(c, &idx, "%{a}|%{b}", "dissect", pairs)
	emitDense(c, &idx, `(?s)^(?P<a>[^|]*)\|(?P<b>[^|]*)$`, "regex", pairs)
	c.Sample(map[string]any{"dense": "every byte alone / in context / in pairs; every string <= L over 0179.-+e; numeric, boolean, UTF-8 shape lists", "L": L})
}

func randomCases(c *run.Ctx, n int) {
	o := opts(c)
	o.short = c.Flavour == "race"
	for i := 0; i < n; i++ {
		if !c.Mine(i) {
			continue
		}
		r := c.Rand("random", i)
		cs := &Case{Kind: "ext", Views: allViews, Repeat: r.Range(1, 2), Batch: pickInt(r, 1, 7, 64), Workers: r.Range(1, 4), Interleave: r.Bool()}
		if r.Intn(3) == 0 {
			cs.Sources = r.Range(2, 4) // several inputs: equal line numbers arrive back to back in one worker
			cs.Workers = pickInt(r, 1, 1, 2)
			c.Count("multi_source_cases", 1)
		}
		nLines := r.Range(24, 48)
		var lines [][]byte
		if r.Intn(7) == 0 {
			cs.Matcher = "dissect"
			cs.Pattern, lines = genDissectCase(r, o, 5, nLines)
		} else {
			cs.Matcher = "regex"
			cs.Pattern, lines = genRegexCase(r, o, 5, nLines)
		}
		for _, l := range lines {
			cs.Lines = append(cs.Lines, b64(l))
		}
		if !admit(c, cs) {
			continue
		}
		c.Count("random_cases", 1)
		if i < 4 {
			c.Sample(map[string]any{"matcher": cs.Matcher, "pattern": cs.Pattern, "first_line": run.Q(string(unb64(cs.Lines[0]))), "lines": len(cs.Lines), "repeat": cs.Repeat, "workers": cs.Workers})
		}
		execCase(c, cs)
		if c.Violations() >= 20 {
			return
		}
	}
}

// detCases: the same match evaluated 200 times by one worker and by 8 workers.
func detCases(c *run.Ctx, n int) {
	o := opts(c)
	o.short = true // 200 evaluations per line and view: long texts add cost, not coverage (the dense and random cases have them)
	for i := 0; i < n; i++ {
		if !c.Mine(i) {
			continue
		}
		r := c.Rand("det", i)
		cs := &Case{Kind: "ext", Views: allViews, Repeat: 200, Batch: pickInt(r, 1, 5, 32), Workers: 1, Interleave: r.Bool()}
		if i%2 == 1 {
			cs.Workers = 8
		}
		nLines := r.Range(1, 3)
		var lines [][]byte
		// at least two named groups in most of them: that is where member order can move
		for try := 0; ; try++ {
			if r.Intn(6) == 0 {
				cs.Matcher = "dissect"
				cs.Pattern, lines = genDissectCase(r, o, 5, nLines)
			} else {
				cs.Matcher = "regex"
				cs.Pattern, lines = genRegexCase(r, o, 5, nLines)
			}
			if try > 20 || i%5 == 0 || strings.Count(cs.Pattern, "(?P<")+strings.Count(cs.Pattern, "%{") >= 2 {
				break
			}
		}
		cs.Lines = nil
		for _, l := range lines {
			cs.Lines = append(cs.Lines, b64(l))
		}
		if !admit(c, cs) {
			continue
		}
		c.Count("determinism_cases", 1)
		execCase(c, cs)
		if c.Violations() >= 20 {
			return
		}
	}
}

// cliCases: one line x 40 copies through `rare filter` and `rare histo`.
func cliCases(c *run.Ctx, n int) {
	o := opts(c)
	o.cli = true
	for i := 0; i < n; i++ {
		if !c.Mine(i) {
			continue
		}
		r := c.Rand("cli", i)
		cs := &Case{Kind: "cli", Views: allViews, Repeat: 40}
		var lines [][]byte
		for try := 0; try < 50; try++ {
			if r.Intn(4) == 0 {
				cs.Matcher = "dissect"
				cs.Pattern, lines = genDissectCase(r, o, 5, 1)
			} else {
				cs.Matcher = "regex"
				cs.Pattern, lines = genRegexCase(r, o, 5, 1)
			}
			// a file is line oriented and argv is NUL-free; an empty line is still a line
			if !strings.ContainsAny(string(lines[0]), "\n\r\x00") {
				break
			}
		}
		if strings.ContainsAny(string(lines[0]), "\n\r\x00") {
			continue
		}
		cs.Lines = []string{b64(lines[0])}
		if !admit(c, cs) {
			continue
		}
		c.Count("cli_cases", 1)
		execCase(c, cs)
		if c.Violations() >= 20 {
			return
		}
	}
}

// exprCases: rare expression -k a=… -d … '{.}' (the emulated special keys).
func exprCases(c *run.Ctx, n int) {
	o := opts(c)
	o.cli = true
	for i := 0; i < n; i++ {
		if !c.Mine(i) {
			continue
		}
		r := c.Rand("expr", i)
		cs := &Case{Kind: "expr", Views: allViews, Runs: 4}
		used := map[string]bool{}
		for k, nk := 0, r.Intn(7); k < nk; k++ {
			v := sanitize(cliValue(genText(r, o)), o)
			cs.Keys = append(cs.Keys, [2]string{genName(r, used), b64(v)})
		}
		for k, nd := 0, r.Intn(4); k < nd; k++ {
			v := sanitize(cliValue(genText(r, o)), o)
			cs.Data = append(cs.Data, b64(v))
		}
		c.Count("expr_cases", 1)
		execCase(c, cs)
		if c.Violations() >= 20 {
			return
		}
	}
}

// exprSelfCases: raw -k arguments of every shape the flag accepts.
func exprSelfCases(c *run.Ctx, n int) {
	word := func(r *run.Rand) string {
		const al = "abcdefghijklmnopqrstuvwxyz"
		b := make([]byte, 1+r.Intn(5))
		for i := range b {
			b[i] = al[r.Intn(len(al))]
		}
		return "w" + string(b)
	}
	for i := 0; i < n; i++ {
		if !c.Mine(i) {
			continue
		}
		r := c.Rand("exprself", i)
		cs := &Case{Kind: "exprself", Views: []string{".", ".#"}}
		var names []string
		for k, nk := 0, 1+r.Intn(3); k < nk; k++ {
			names = append(names, "k"+word(r))
		}
		for k, np := 0, 1+r.Intn(5); k < np; k++ {
			name := names[r.Intn(len(names))]
			switch r.Intn(4) {
			case 0:
				cs.Pairs = append(cs.Pairs, name) // no '='
			case 1:
				cs.Pairs = append(cs.Pairs, name+"="+word(r)+"="+word(r))
			default:
				cs.Pairs = append(cs.Pairs, name+"="+word(r))
			}
		}
		for k, nd := 0, r.Intn(3); k < nd; k++ {
			cs.Data = append(cs.Data, b64([]byte(word(r))))
		}
		c.Count("exprself_cases", 1)
		execCase(c, cs)
		if c.Violations() >= 20 {
			return
		}
	}
}

// ---------------------------------------------------------------- pinned witnesses (always executed, shard 0)

func pinnedCases() []*Case {
	eightKeys := [][2]string{}
	for _, k := range []string{"a", "b", "c", "d", "e", "f", "g", "h"} {
		eightKeys = append(eightKeys, [2]string{k, b64([]byte("v" + k))})
	}
	return []*Case{
		// control characters below 0x20 without a short escape are written raw
		{Kind: "ext", Pinned: "raw-control-ext", Matcher: "regex", Pattern: `(?P<v>.+)`, Lines: []string{b64([]byte("a\x01b"))}, Views: allViews, Repeat: 2, Batch: 1, Workers: 1},
		{Kind: "expr", Pinned: "raw-control-expr", Keys: [][2]string{{"v", b64([]byte("a\x1fb"))}}, Data: []string{b64([]byte("x\x0by"))}, Views: allViews, Runs: 1},
		// 007 is written as a bare number
		{Kind: "ext", Pinned: "leading-zero-ext", Matcher: "regex", Pattern: `(?P<v>\d+)`, Lines: []string{b64([]byte("007"))}, Views: allViews, Repeat: 2, Batch: 1, Workers: 1},
		// member names were written unescaped (a dissect token name is free text up to the closing brace)
		{Kind: "ext", Pinned: "member-name-unescaped", Matcher: "dissect", Pattern: `%{a"b}|%{c\d}`, Lines: []string{b64([]byte("x|y"))}, Views: allViews, Repeat: 2, Batch: 1, Workers: 1},
		// named members in map order
		{Kind: "ext", Pinned: "named-order-ext", Matcher: "regex", Pattern: `(?P<a>\d+) (?P<b>\d+)`, Lines: []string{b64([]byte("1 2"))}, Views: []string{".", ".#"}, Repeat: 200, Batch: 8, Workers: 1},
		{Kind: "cli", Pinned: "named-order-histo", Matcher: "regex", Pattern: `(?P<a>\d+) (?P<b>\d+) (?P<c>\d+) (?P<d>\d+)`, Lines: []string{b64([]byte("1 2 3 4"))}, Views: []string{"."}, Repeat: 200},
		{Kind: "expr", Pinned: "expression-key-order", Keys: eightKeys, Views: []string{"."}, Runs: 12},
	}
}

func pinned(c *run.Ctx) {
	if !c.Mine(0) {
		return
	}
	for _, cs := range pinnedCases() {
		if c.Flavour == "race" && cs.Kind != "ext" {
			continue
		}
		c.Count("pinned_witnesses_run", 1)
		execCase(c, cs)
	}
}

func pickInt(r *run.Rand, xs ...int) int { return xs[r.Intn(len(xs))] }
