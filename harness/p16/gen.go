package p16

import (
	"bytes"
	"fmt"
	"strings"

	"verifharness/internal/run"
)

// ---------------------------------------------------------------- capture texts

var numericShapes = []string{
	"0", "7", "42", "007", "00", "000", "010", "0.5", "00.5", "01.50", "1.", ".5", "-5", "+5", "-0", "-0.0", "0.0",
	"1e3", "1E3", "1e+3", "1e-3", "1.5e3", "1_0", "1,000", "١٢", "１２", "0x10", "0b1", "0o7", "1.5.2", "1..2", "..", ".",
	"-", "+", "--1", "1-", "1e", "e3", "1.0", "1.50", "3.14159", "100", "1000000", "9007199254740993", "18446744073709551616",
	"123456789012345678901234567890", "0.1234567890123456789012345678901234567890", "NaN", "Infinity", "-Infinity", "inf",
	"1 ", " 1", "1\n", "\t1", "1\x00", "0 ", "00 ", "½", "1²", "12a", "a12", "1/2", "1e999999", "0e0", "00e0", "0.", "00.",
	"0.0.0", "0..", "9", "09", "90", "0009", "0.00", "00.00", "10.01", "0123456789", "1234567890",
}

var boolShapes = []string{
	"true", "false", "True", "False", "TRUE", "FALSE", "tRuE", "fAlSe", "truE", "falsE", "tru", "fals", "truee", "falsee",
	"true ", " true", "true\n", "t rue", "yes", "no", "null", "NULL", "nil", "undefined", "falſe", "FALſE", "ｔｒｕｅ", "trüe",
	"true\x00", "\"true\"", "true,false", "truefalse", "0true", "true0",
}

var escapeAlphabet = []byte("\"\\/bnrtfu0'{}[]:, \x08\x09\x0a\x0c\x0d\x7f")

var validRunes = []rune{0x80, 0xA0, 0xE9, 0x7FF, 0x800, 0x2028, 0x2029, 0xFEFF, 0xFFFD, 0xFFFE, 0xFFFF, 0x10000, 0x1F600, 0x10FFFF,
	0x0660, 0x4E2D, 0x0301, 0x200B, 0x202E, 0xD7FF, 0xE000, 0x17F, 0x212A, 0x85}

var invalidSeqs = []string{
	"\x80", "\xbf", "\xc0\x80", "\xc0\xaf", "\xc1\xbf", "\xc2", "\xe0\x80\x80", "\xe0\xa0", "\xe2\x82", "\xed\xa0\x80", "\xed\xbf\xbf",
	"\xed\xa0\xbd\xed\xb8\x80", "\xf0\x80\x80\x80", "\xf0\x9f\x98", "\xf4\x90\x80\x80", "\xf5\x80\x80\x80", "\xf8\x88\x80\x80\x80",
	"\xfe", "\xff", "\xff\xfe", "\xef\xbb", "a\xffb", "\xe2\x28\xa1", "\xc3\x28", "\xa0\xa1",
}

var words = []string{"GET", "POST", "/index.html", "200", "404", "error", "ok", "user-1", "10.0.0.1", "a b", "x=y", "null", "-", "~", "Z"}

// control bytes that have no short escape in rare's table
var rawCtl = []byte{0x00, 0x01, 0x02, 0x03, 0x04, 0x05, 0x06, 0x07, 0x0b, 0x0e, 0x0f, 0x10, 0x11, 0x12, 0x13, 0x14, 0x15, 0x16,
	0x17, 0x18, 0x19, 0x1a, 0x1b, 0x1c, 0x1d, 0x1e, 0x1f}

type genOpts struct {
	noRawCtl   bool // stay out of the raw-control-character class (defect listed as known)
	noLeadZero bool // stay out of the leading-zero class (defect listed as known)
	cli        bool // text travels through a line-oriented file: no \n, \r
	short      bool // no multi-kilobyte texts
}

func genText(r *run.Rand, o genOpts) []byte {
	var b []byte
	k := r.Intn(100)
	if o.short && k >= 92 && k < 96 {
		k = 4 // a numeric shape instead of a long text
	}
	switch {
	case k < 4:
		// empty
	case k < 19:
		b = []byte(r.Pick(numericShapes))
	case k < 29:
		n := r.Range(1, 8)
		b = r.Bytes(n, []byte("0123456789.-+eE0017_"))
	case k < 35:
		b = []byte(r.Pick(boolShapes))
	case k < 48:
		// one or two arbitrary bytes, bare or in an ASCII context
		n := r.Range(1, 2)
		x := r.Bytes(n, nil)
		if r.Bool() {
			b = append(append([]byte("a"), x...), 'b')
		} else {
			b = x
		}
	case k < 56:
		b = r.Bytes(r.Range(1, 12), nil)
	case k < 68:
		b = r.Bytes(r.Range(1, 10), escapeAlphabet)
	case k < 74:
		// escape-looking text: A, \", \\n ...
		parts := []string{`A`, `\"`, `\\`, `\n`, `😀`, `\u`, `\x41`, `"`, `\`, `\\"`, `"}`, `{"a": 1}`, `", "b": "`}
		for i, n := 0, r.Range(1, 3); i < n; i++ {
			b = append(b, r.Pick(parts)...)
		}
	case k < 82:
		for i, n := 0, r.Range(1, 5); i < n; i++ {
			if r.Intn(3) == 0 {
				b = append(b, byte('a'+r.Intn(26)))
			} else {
				b = append(b, string(validRunes[r.Intn(len(validRunes))])...)
			}
		}
	case k < 90:
		for i, n := 0, r.Range(1, 3); i < n; i++ {
			if r.Intn(3) == 0 {
				b = append(b, byte('a'+r.Intn(26)))
			}
			b = append(b, r.Pick(invalidSeqs)...)
		}
	case k < 92:
		// control characters that need \u00XX
		for i, n := 0, r.Range(1, 4); i < n; i++ {
			if r.Bool() {
				b = append(b, byte('a'+r.Intn(26)))
			}
			b = append(b, rawCtl[r.Intn(len(rawCtl))])
		}
	case k < 94:
		// long digits
		n := r.Range(20, 400)
		if r.Intn(8) == 0 {
			n = r.Range(400, 3000)
		}
		b = r.Bytes(n, []byte("0123456789"))
		if r.Intn(4) == 0 {
			b[r.Intn(len(b))] = '.'
		}
	case k < 96:
		// long mixed
		n := r.Range(100, 3000)
		b = make([]byte, 0, n)
		for len(b) < n {
			b = append(b, genText(r, genOpts{})[:]...)
			if len(b) > 4000 {
				break
			}
		}
	default:
		b = []byte(r.Pick(words))
	}
	return sanitize(b, o)
}

// sanitize keeps a text out of the classes the options exclude.
func sanitize(b []byte, o genOpts) []byte {
	if o.noRawCtl {
		for i, c := range b {
			if c < 0x20 && c != '\b' && c != '\t' && c != '\n' && c != '\f' && c != '\r' {
				b[i] = c + 0x40
			}
		}
	}
	if o.cli {
		for i, c := range b {
			if c == '\n' || c == '\r' {
				b[i] = ' '
			}
		}
	}
	if o.noLeadZero && inLeadingZeroClass(string(b)) {
		b[0] = '1'
	}
	return b
}

// ---------------------------------------------------------------- patterns

var nameHeads = []byte("abcdefghijklmnopqrstuvwxyzABCDEFGHIJKLMNOPQRSTUVWXYZ_")
var nameTail = []byte("abcdefghijklmnopqrstuvwxyzABCDEFGHIJKLMNOPQRSTUVWXYZ_0123456789")

func genName(r *run.Rand, used map[string]bool) string {
	fixed := []string{"val", "a", "b", "status", "ip", "_", "_1", "A", "user_agent", "x0", "true", "null", "line", "src"}
	for {
		var n string
		if r.Intn(3) == 0 {
			n = r.Pick(fixed)
		} else {
			n = string(r.Bytes(1, nameHeads)) + string(r.Bytes(r.Range(0, 6), nameTail))
		}
		if !used[n] {
			used[n] = true
			return n
		}
	}
}

// dissect token names are free text up to the closing brace: they become JSON member names as they are
var hostileNames = []string{`a"b`, `c\d`, `"`, `\`, `q"`, `\"`, `a b`, `é`, "tab\tx", "x\x01y", "日本", `a/b`, `a.b`, `na me "quoted"`, `back\\slash`, "nl\x0b", `<&>`, `'`, "\u2028"}

func genDissectName(r *run.Rand, used map[string]bool) string {
	if r.Intn(3) == 0 {
		for try := 0; try < 8; try++ {
			if n := r.Pick(hostileNames); !used[n] {
				used[n] = true
				return n
			}
		}
	}
	return genName(r, used)
}

var delimiters = []byte("|;:#@~=&/! ,\t")

func classEsc(d byte) string { return fmt.Sprintf(`[^\x%02x]`, d) }
func litEsc(d byte) string   { return fmt.Sprintf(`\x%02x`, d) }

type field struct {
	text []byte // what the field contributes to the line
}

// genRegexCase builds a delimited-fields regex with 0..5 named groups (plus
// unnamed, optional and nested ones) and lines whose fields are generated texts.
func genRegexCase(r *run.Rand, o genOpts, maxNamed, nLines int) (pattern string, lines [][]byte) {
	nNamed := r.Intn(maxNamed + 1)
	nUnnamed := r.Intn(3)
	if nNamed+nUnnamed == 0 && r.Bool() {
		nUnnamed = 1
	}
	nPlain := r.Intn(2) // non-capturing fields
	total := nNamed + nUnnamed + nPlain
	if total == 0 {
		total, nPlain = 1, 1
	}
	kinds := make([]byte, 0, total) // N named, U unnamed, P plain
	for i := 0; i < nNamed; i++ {
		kinds = append(kinds, 'N')
	}
	for i := 0; i < nUnnamed; i++ {
		kinds = append(kinds, 'U')
	}
	for i := 0; i < nPlain; i++ {
		kinds = append(kinds, 'P')
	}
	perm := r.Perm(total)
	d := delimiters[r.Intn(len(delimiters))]
	if o.cli && (d == '\t' || d == ' ' || d == ',') {
		d = '|'
	}
	used := map[string]bool{}
	var sb strings.Builder
	anchored := r.Intn(4) != 0
	if anchored {
		sb.WriteString("^")
	}
	// per field: 0 plain [^d]*, 1 optional literal group, 2 nested pair (consumes one extra delimiter-free split inside)
	shape := make([]int, total)
	for i := 0; i < total; i++ {
		k := kinds[perm[i]]
		if i > 0 {
			sb.WriteString(litEsc(d))
		}
		body := classEsc(d) + "*"
		switch k {
		case 'P':
			sb.WriteString("(?:" + body + ")")
		case 'U':
			if r.Intn(5) == 0 {
				shape[i] = 1
				sb.WriteString("(zz)?")
			} else {
				sb.WriteString("(" + body + ")")
			}
		case 'N':
			n := genName(r, used)
			switch s := r.Intn(10); {
			case s == 0:
				shape[i] = 1
				sb.WriteString("(?P<" + n + ">zz)?")
			case s == 1 && len(used) < 6:
				// nested: outer named, inner named + unnamed split at the first '.'
				in := genName(r, used)
				sb.WriteString("(?P<" + n + ">(?P<" + in + ">" + classEsc(d) + "*?)(\\.[0-9]*)?)")
			default:
				sb.WriteString("(?P<" + n + ">" + body + ")")
			}
		}
	}
	if anchored {
		sb.WriteString("$")
	}
	pattern = sb.String()
	for li := 0; li < nLines; li++ {
		var line []byte
		for i := 0; i < total; i++ {
			if i > 0 {
				line = append(line, d)
			}
			if shape[i] == 1 {
				if r.Bool() {
					line = append(line, "zz"...)
				}
				continue
			}
			t := genText(r, o)
			t = bytes.ReplaceAll(t, []byte{d}, []byte("."))
			t = sanitize(t, o)
			line = append(line, t...)
		}
		lines = append(lines, line)
	}
	return pattern, lines
}

// genDissectCase: %{a}|%{}|%{?skipped}|%{b} with an optional literal prefix.
func genDissectCase(r *run.Rand, o genOpts, maxNamed, nLines int) (pattern string, lines [][]byte) {
	nNamed := r.Intn(maxNamed + 1)
	if nNamed == 0 {
		nNamed = 1
	}
	nSkip := r.Intn(3)
	total := nNamed + nSkip
	perm := r.Perm(total)
	ds := []byte("|;:#@~=&/!")
	d := ds[r.Intn(len(ds))]
	used := map[string]bool{}
	prefix := ""
	if r.Intn(3) == 0 {
		prefix = r.Pick([]string{"LOG ", "[", "k=", ">>"})
	}
	var sb strings.Builder
	sb.WriteString(prefix)
	for i := 0; i < total; i++ {
		if i > 0 {
			sb.WriteByte(d)
		}
		if perm[i] < nNamed {
			sb.WriteString("%{" + genDissectName(r, used) + "}")
		} else if r.Bool() {
			sb.WriteString("%{}")
		} else {
			sb.WriteString("%{?" + genDissectName(r, used) + "}")
		}
	}
	pattern = sb.String()
	for li := 0; li < nLines; li++ {
		line := []byte(prefix)
		for i := 0; i < total; i++ {
			if i > 0 {
				line = append(line, d)
			}
			t := genText(r, o)
			t = bytes.ReplaceAll(t, []byte{d}, []byte("."))
			t = sanitize(t, o)
			line = append(line, t...)
		}
		lines = append(lines, line)
	}
	return pattern, lines
}

// cliValue makes a text safe for a urfave/cli string-slice flag value (split on
// ',', surrounding white space trimmed, no NUL in argv) without changing what is
// interesting about it.
func cliValue(t []byte) []byte {
	t = bytes.ReplaceAll(t, []byte{0}, []byte{1})
	t = bytes.ReplaceAll(t, []byte(","), []byte(";"))
	if len(t) == 0 {
		return t
	}
	ok := func(c byte) bool { return c > 0x20 && c < 0x7f }
	if !ok(t[0]) || !ok(t[len(t)-1]) {
		t = append(append([]byte("<"), t...), '>')
	}
	return t
}
