package p16

import (
	"encoding/json"
	"fmt"
	"io"
	"math/big"
	"sort"
	"strconv"
	"strings"

	"verifharness/internal/run"
)

// Fingerprints of the defect classes that have a pinned witness (see pinned.go).
const (
	fpRawControl  = "invalid-json:raw-control-char"
	fpLeadingZero = "invalid-json:leading-zero-number"
	fpNamedOrder  = "nondeterministic:named-member-order"
	fpExprOrder   = "nondeterministic:expression-key-order"
)

// matchInfo is what the reference (Go regexp / by-construction split / CLI
// arguments) says the match is: group texts and the name table.
type matchInfo struct {
	names map[string]int // member name -> group index
	caps  []string       // group texts; "" for a group that did not participate
	nnum  int            // groups 0..nnum-1 are addressable by number
}

type member struct {
	key string
	val any // string | json.Number | bool | nil
}

func (m member) repr() string { return fmt.Sprintf("%q=%T:%v", m.key, m.val, m.val) }

// parseObject decodes text (already accepted by json.Valid) as ONE object with
// scalar members, keeping member order and duplicates.
func parseObject(text string) ([]member, error) {
	dec := json.NewDecoder(strings.NewReader(text))
	dec.UseNumber()
	tok, err := dec.Token()
	if err != nil {
		return nil, err
	}
	if d, ok := tok.(json.Delim); !ok || d != '{' {
		return nil, fmt.Errorf("top-level value is not an object (first token %v)", tok)
	}
	var out []member
	for dec.More() {
		kt, err := dec.Token()
		if err != nil {
			return nil, err
		}
		k, ok := kt.(string)
		if !ok {
			return nil, fmt.Errorf("member name is not a string: %v", kt)
		}
		vt, err := dec.Token()
		if err != nil {
			return nil, err
		}
		if d, ok := vt.(json.Delim); ok {
			return nil, fmt.Errorf("member %q is a composite value (%v)", k, d)
		}
		out = append(out, member{k, vt})
	}
	if _, err := dec.Token(); err != nil { // closing brace
		return nil, err
	}
	if _, err := dec.Token(); err != io.EOF {
		return nil, fmt.Errorf("data after the object")
	}
	return out, nil
}

// normalize applies the two textual repairs that correspond to the two
// invalid-JSON defect classes with a pinned witness, and says which were
// needed: raw control bytes inside strings become \u00XX, superfluous leading
// zeros of bare number tokens are dropped. It is only used to NAME a failure
// that encoding/json already established (so that any other kind of invalid
// output keeps its own fingerprint); it never turns a failure into a pass.
func normalize(out string) (fixed string, rawCtl, leadZero bool) {
	var sb strings.Builder
	inStr := false
	isDigit := func(b byte) bool { return b >= '0' && b <= '9' }
	for i := 0; i < len(out); i++ {
		b := out[i]
		if inStr {
			switch {
			case b == '\\' && i+1 < len(out):
				sb.WriteByte(b)
				i++
				sb.WriteByte(out[i])
			case b == '"':
				inStr = false
				sb.WriteByte(b)
			case b < 0x20:
				rawCtl = true
				fmt.Fprintf(&sb, `\u%04x`, b)
			default:
				sb.WriteByte(b)
			}
			continue
		}
		if b == '"' {
			inStr = true
			sb.WriteByte(b)
			continue
		}
		if isDigit(b) || (b == '-' && i+1 < len(out) && isDigit(out[i+1])) {
			j := i
			if b == '-' {
				sb.WriteByte('-')
				j++
			}
			for out[j] == '0' && j+1 < len(out) && isDigit(out[j+1]) {
				leadZero = true
				j++
			}
			for j < len(out) && (isDigit(out[j]) || strings.IndexByte(".eE+-", out[j]) >= 0) {
				sb.WriteByte(out[j])
				j++
			}
			i = j - 1
			continue
		}
		sb.WriteByte(b)
	}
	return sb.String(), rawCtl, leadZero
}

// decimal is mant * 10^exp.
type decimal struct {
	mant *big.Int
	exp  int64
}

// parseDecimal accepts the liberal "numeric-looking" shapes
// [+-]? (digits [. digits*] | . digits) ([eE][+-]?digits)?  (ASCII only).
func parseDecimal(s string) (decimal, bool) {
	i := 0
	neg := false
	if i < len(s) && (s[i] == '+' || s[i] == '-') {
		neg = s[i] == '-'
		i++
	}
	st := i
	for i < len(s) && s[i] >= '0' && s[i] <= '9' {
		i++
	}
	intPart := s[st:i]
	frac := ""
	if i < len(s) && s[i] == '.' {
		i++
		st = i
		for i < len(s) && s[i] >= '0' && s[i] <= '9' {
			i++
		}
		frac = s[st:i]
	}
	if intPart == "" && frac == "" {
		return decimal{}, false
	}
	var exp int64
	if i < len(s) && (s[i] == 'e' || s[i] == 'E') {
		i++
		st = i
		if i < len(s) && (s[i] == '+' || s[i] == '-') {
			i++
		}
		ds := i
		for i < len(s) && s[i] >= '0' && s[i] <= '9' {
			i++
		}
		if i == ds || i-ds > 9 {
			return decimal{}, false
		}
		e, err := strconv.ParseInt(s[st:i], 10, 64)
		if err != nil {
			return decimal{}, false
		}
		exp = e
	}
	if i != len(s) {
		return decimal{}, false
	}
	m, ok := new(big.Int).SetString(intPart+frac, 10)
	if !ok {
		return decimal{}, false
	}
	if neg {
		m.Neg(m)
	}
	d := decimal{m, exp - int64(len(frac))}
	// canonical: no trailing zeros in the mantissa, zero has exponent 0
	if d.mant.Sign() == 0 {
		d.exp = 0
		return d, true
	}
	ten := big.NewInt(10)
	q, r := new(big.Int), new(big.Int)
	for {
		q.QuoRem(d.mant, ten, r)
		if r.Sign() != 0 {
			break
		}
		d.mant.Set(q)
		d.exp++
	}
	return d, true
}

// numEqual: does the JSON number text n denote the same value as capture t?
func numEqual(n, t string) bool {
	if n == t {
		return true
	}
	a, ok1 := parseDecimal(n)
	b, ok2 := parseDecimal(t)
	return ok1 && ok2 && a.exp == b.exp && a.mant.Cmp(b.mant) == 0
}

func asciiLower(s string) string {
	b := []byte(s)
	for i, c := range b {
		if c >= 'A' && c <= 'Z' {
			b[i] = c + 32
		}
	}
	return string(b)
}

// fffd is what a JSON decoder (and `range` over a string) makes of a byte
// string: every byte that is not part of a valid UTF-8 sequence becomes U+FFFD.
func fffd(s string) string { return string([]rune(s)) }

type stats struct {
	members, asString, asNumber, asBool, abstainFold, emptyNumberedPresent int64
}

// faithful decides one member value against the capture text.
func faithful(v any, t string, st *stats) (ok bool, why string) {
	switch x := v.(type) {
	case string:
		st.asString++
		if x == fffd(t) {
			return true, ""
		}
		return false, fmt.Sprintf("string %s does not decode to the capture %s", run.Q(x), run.Q(t))
	case json.Number:
		st.asNumber++
		if numEqual(x.String(), t) {
			return true, ""
		}
		return false, fmt.Sprintf("number %s is not the value of the capture %s", x.String(), run.Q(t))
	case bool:
		st.asBool++
		lt := asciiLower(t)
		if (x && lt == "true") || (!x && lt == "false") {
			return true, ""
		}
		// Unicode-only case folding (e.g. "falſe"): whether that is "false in another
		// case" is not settled by the statement; not judged.
		if (x && strings.EqualFold(t, "true")) || (!x && strings.EqualFold(t, "false")) {
			st.abstainFold++
			return true, ""
		}
		return false, fmt.Sprintf("boolean %v for the capture %s", x, run.Q(t))
	case nil:
		return false, fmt.Sprintf("null for the capture %s", run.Q(t))
	}
	return false, fmt.Sprintf("unexpected JSON value %v", v)
}

// checkMembers: every member resolves to a group and is faithful; every named
// group (named views) and every non-empty numbered group (numbered views) is there.
func checkMembers(view string, mi *matchInfo, ms []member, st *stats) (class, msg string) {
	named := strings.Contains(view, ".")
	numbered := strings.Contains(view, "#")
	seenName := map[string]bool{}
	seenIdx := map[int]bool{}
	for _, m := range ms {
		idx, found := -1, false
		if named {
			if i, ok := mi.names[m.key]; ok {
				idx, found = i, true
				seenName[m.key] = true
			}
		}
		if !found && numbered {
			if i, err := strconv.Atoi(m.key); err == nil && strconv.Itoa(i) == m.key && i >= 0 && i < mi.nnum {
				idx, found = i, true
				seenIdx[i] = true
				if mi.caps[i] == "" {
					st.emptyNumberedPresent++
				}
			}
		}
		if !found {
			return "unexpected-member", fmt.Sprintf("member %q is not a group of this match for view {%s}", m.key, view)
		}
		t := ""
		if idx < len(mi.caps) {
			t = mi.caps[idx]
		}
		st.members++
		if ok, why := faithful(m.val, t, st); !ok {
			return "unfaithful", fmt.Sprintf("member %q: %s", m.key, why)
		}
	}
	if named {
		var names []string
		for n := range mi.names {
			names = append(names, n)
		}
		sort.Strings(names)
		for _, n := range names {
			if !seenName[n] {
				return "missing-member", fmt.Sprintf("named group %q is missing", n)
			}
		}
	}
	if numbered {
		for i, t := range mi.caps[:mi.nnum] {
			if t != "" && !seenIdx[i] {
				return "missing-member", fmt.Sprintf("non-empty numbered group %d (%s) is missing", i, run.Q(t))
			}
		}
	}
	return "", ""
}

// judgeText decides validity and faithfulness of one produced text. It returns
// the fingerprints to report (empty = fine) with one message.
// idHash identifies the failing input for the generic classes.
func judgeText(view string, mi *matchInfo, text, idHash string, st *stats) (fps []string, msg string) {
	if !json.Valid([]byte(text)) {
		// name the failure: is it exactly one of the pinned classes?
		fixed, rawCtl, leadZero := normalize(text)
		if (rawCtl || leadZero) && json.Valid([]byte(fixed)) {
			if ms, err := parseObject(fixed); err == nil {
				var tmp stats
				if cl, _ := checkMembers(view, mi, ms, &tmp); cl == "" {
					if rawCtl {
						fps = append(fps, fpRawControl)
					}
					if leadZero {
						fps = append(fps, fpLeadingZero)
					}
					what := []string{}
					if rawCtl {
						what = append(what, "a control character below 0x20 is written raw inside a string")
					}
					if leadZero {
						what = append(what, "a capture with leading zeros is written as a bare number")
					}
					return fps, "not valid JSON (" + strings.Join(what, "; ") + ")"
				}
			}
		}
		var se *json.SyntaxError
		err := json.Unmarshal([]byte(text), new(any))
		detail := ""
		if err != nil {
			detail = err.Error()
			if e, ok := err.(*json.SyntaxError); ok {
				se = e
				detail = fmt.Sprintf("%s at offset %d", e.Error(), se.Offset)
			}
		}
		return []string{"invalid-json:" + idHash}, "not valid JSON: " + detail
	}
	ms, err := parseObject(text)
	if err != nil {
		return []string{"not-one-object:" + idHash}, "valid JSON but not one object with scalar members: " + err.Error()
	}
	if cl, m := checkMembers(view, mi, ms, st); cl != "" {
		return []string{cl + ":" + idHash}, m
	}
	return nil, ""
}

// orderOnly: do the variants differ only in where the NAMED members stand?
// (same multiset of members, same sequence of the non-named ones)
func orderOnly(mi *matchInfo, variants []string) bool {
	var canon0, rest0 string
	for i, v := range variants {
		fixed, _, _ := normalize(v)
		ms, err := parseObject(fixed)
		if err != nil {
			return false
		}
		var all, rest []string
		for _, m := range ms {
			all = append(all, m.repr())
			if _, ok := mi.names[m.key]; !ok {
				rest = append(rest, m.repr())
			}
		}
		sort.Strings(all)
		c, r := strings.Join(all, "\x00"), strings.Join(rest, "\x00")
		if i == 0 {
			canon0, rest0 = c, r
		} else if c != canon0 || r != rest0 {
			return false
		}
	}
	return true
}

// escaping / inference classes of a capture (non-triviality rule and known-class filters)

func needsEscape(t string) bool {
	for i := 0; i < len(t); i++ {
		if t[i] < 0x20 || t[i] == '"' || t[i] == '\\' {
			return true
		}
	}
	return false
}

func looksInferred(t string) bool {
	if _, ok := parseDecimal(t); ok {
		return true
	}
	l := asciiLower(t)
	return l == "true" || l == "false"
}

// inRawControlClass: the capture contains a control byte below 0x20 other than \b \t \n \f \r.
func inRawControlClass(t string) bool {
	for i := 0; i < len(t); i++ {
		b := t[i]
		if b < 0x20 && b != '\b' && b != '\t' && b != '\n' && b != '\f' && b != '\r' {
			return true
		}
	}
	return false
}

// inLeadingZeroClass: ASCII digits, optionally ".digits", starting with 0 followed by a digit.
func inLeadingZeroClass(t string) bool {
	if len(t) < 2 || t[0] != '0' || t[1] < '0' || t[1] > '9' {
		return false
	}
	dots := 0
	for i := 0; i < len(t); i++ {
		switch {
		case t[i] >= '0' && t[i] <= '9':
		case t[i] == '.' && dots == 0 && i+1 < len(t):
			dots++
		default:
			return false
		}
	}
	return true
}
