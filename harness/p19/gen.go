package p19

import (
	"math"
	"strconv"
	"strings"

	"verifharness/internal/run"
)

// ---------------------------------------------------------------- dense token sequences

var denseOperands = []string{"2", "3", "0.5", "x", "[0]"}
var allBinOps = []string{"+", "-", "*", "/", "^", "%", "<<", ">>", "&", "|", "<", "<=", ">", ">=", "==", "&&", "||"}
var denseSigns = []string{"-", "!"}

// denseEnum calls emit for every token sequence of at most L tokens that is
// well-formed by the token grammar (operand/operator alternation, balanced
// groups, at most one sign before an operand, juxtaposed groups, abs( .. )).
// The reference parser later drops the ones outside the reference grammar
// (shift/bit operators mixed with other operators in one chain).
func denseEnum(L int, emit func(toks []string)) {
	buf := make([]string, 0, L)
	var rec func(depth int, wantOperand, prevSign bool)
	rec = func(depth int, wantOperand, prevSign bool) {
		n := len(buf)
		if !wantOperand && depth == 0 && n > 0 {
			emit(buf)
		}
		rem := L - n
		// a token may be added if the sequence can still be completed
		fits := func(d int, operand bool) bool {
			need := d
			if operand {
				need++
			}
			return need <= rem-1
		}
		push := func(t string, d int, operand, sign bool) {
			if !fits(d, operand) {
				return
			}
			buf = append(buf, t)
			rec(d, operand, sign)
			buf = buf[:len(buf)-1]
		}
		if wantOperand {
			for _, o := range denseOperands {
				push(o, depth, false, false)
			}
			push("(", depth+1, true, false)
			push("abs(", depth+1, true, false)
			if !prevSign {
				for _, s := range denseSigns {
					push(s, depth, true, true)
				}
			}
			return
		}
		for _, o := range allBinOps {
			push(o, depth, true, false)
		}
		if depth > 0 {
			push(")", depth-1, false, false)
		}
		push("(", depth+1, true, false) // juxtaposition
	}
	rec(0, true, false)
}

// ---------------------------------------------------------------- random trees

// names that can only be written in brackets: letters outside ASCII (their UTF-8 bytes include 0x85 and 0xA0, which
// are white space in Latin-1 and nothing of the kind here)
var boxedOnlyNames = []string{"prixà", "Åm", "вход", "Šířka", "größe"}

var randNames = []string{"x", "y", "z", "n", "val", "count", "ab", "t1", "k2", "size", "Rate", "X"}
var randFuncs = []string{"abs", "sin", "asin", "cos", "acos", "tan", "atan", "sqrt", "floor", "ceil", "round", "exp", "exp2", "log", "log10", "log2"}
var randLits = []string{
	"0", "1", "2", "3", "4", "5", "7", "8", "10", "16", "31", "63", "64", "100", "255", "1000", "65536",
	"123456789", "9007199254740993", "9223372036854775807", "18446744073709551616", "1000000000000000000",
	"0.5", "0.25", "3.25", "123.456", "0.1", "2.50", "10.0", "0.000000001", "1.5", "2.5", "0.0",
	"0x0", "0x1", "0x1BC", "0xff", "0xFF", "0x10", "0x7fffffffffffffff", "0xdeadBEEF", "0x1e", "0xE", "0xfe", "0x2E", "0xbe",
	"0b0", "0b1", "0b1101", "0b11111111", "0b10",
}

type treeGen struct {
	r     *run.Rand
	nvars int // number of distinct variables available
	leafs int
}

func (g *treeGen) leaf() *node {
	g.leafs++
	r := g.r
	if r.Intn(100) < 45 {
		var t string
		switch r.Intn(5) {
		case 0:
			t = strconv.Itoa(r.Intn(20))
		case 1:
			t = strconv.Itoa(r.Intn(100)) + "." + strconv.Itoa(r.Intn(10)) + strconv.Itoa(1+r.Intn(9))
		default:
			t = r.Pick(randLits)
		}
		if len(t) > 1 && t[0] == '0' && t[1] != '.' && t[1] != 'x' && t[1] != 'b' {
			t = "1" + t
		}
		v, st, _ := literal(t)
		if st != stOK {
			t, v = "2", 2
		}
		return &node{k: nNum, v: v, txt: t}
	}
	switch r.Intn(3) {
	case 0:
		return &node{k: nIdx, idx: r.Intn(g.nvars), boxed: true}
	case 1:
		if r.Intn(6) == 0 {
			// keys come from dissect tokens, -k pairs and JSON members: any text may stand between the brackets
			return &node{k: nKey, key: boxedOnlyNames[r.Intn(len(boxedOnlyNames))], boxed: true}
		}
		return &node{k: nKey, key: randNames[r.Intn(g.nvars*2)%len(randNames)], boxed: true}
	default:
		return &node{k: nKey, key: randNames[r.Intn(g.nvars*2)%len(randNames)]}
	}
}

func (g *treeGen) tree(depth int) *node {
	r := g.r
	if depth <= 0 || g.leafs > 40 {
		return g.leaf()
	}
	p := r.Intn(100)
	switch {
	case p < 56:
		op := allBinOps[r.Intn(len(allBinOps))]
		if r.Intn(3) == 0 { // favour the levels the statement orders
			op = r.Pick([]string{"+", "-", "*", "/", "^", "%", "<", "==", "&&", "||"})
		}
		return &node{k: nBin, op: op, l: g.tree(depth - 1), r: g.tree(depth - 1 - r.Intn(2))}
	case p < 64:
		return &node{k: nUn, op: r.Pick(denseSigns), l: g.tree(depth - 1)}
	case p < 73:
		return &node{k: nUn, op: r.Pick(randFuncs), l: g.tree(depth - 1)}
	case p < 80:
		return &node{k: nBin, op: "*", implied: true, l: g.tree(depth - 1 - r.Intn(2)), r: g.tree(depth - 1)}
	}
	return g.leaf()
}

// printer

type printer struct {
	r       *run.Rand
	spaces  int // 0 none, 1 around binary operators, 2 random
	extra   int // percent chance of a redundant group
	ambPerc int // percent chance of leaving a statement-ambiguous spelling
}

func (p *printer) sp() string {
	switch p.spaces {
	case 1:
		return " "
	case 2:
		if p.r.Intn(2) == 0 {
			return " "
		}
	}
	return ""
}

func (p *printer) group(inner string) string {
	if p.spaces == 2 && p.r.Intn(4) == 0 {
		return "( " + inner + " )"
	}
	return "(" + inner + ")"
}

func leafText(n *node) string {
	switch n.k {
	case nNum:
		return n.txt
	case nIdx:
		return "[" + strconv.Itoa(n.idx) + "]"
	default:
		if n.boxed {
			return "[" + n.key + "]"
		}
		return n.key
	}
}

func isSign(n *node) bool { return n.k == nUn && (n.op == "-" || n.op == "!") }
func isLeaf(n *node) bool { return n.k == nNum || n.k == nIdx || n.k == nKey }
func isFunc(n *node) bool { return n.k == nUn && !isSign(n) }

// top prints a node where a full chain is allowed.
func (p *printer) top(n *node) string {
	switch {
	case isLeaf(n):
		return leafText(n)
	case isFunc(n):
		return n.op + "(" + p.top(n.l) + ")"
	case isSign(n):
		return n.op + p.primary(n.l)
	case n.implied:
		return p.primary(n.l) + "(" + p.top(n.r) + ")"
	}
	s := p.sp()
	return p.child(n.l, n, 0) + s + n.op + s + p.child(n.r, n, 1)
}

// primary prints a node as a single unsigned operand.
func (p *printer) primary(n *node) string {
	if isLeaf(n) || isFunc(n) {
		return p.top(n)
	}
	return p.group(p.top(n))
}

func (p *printer) child(ch, par *node, side int) string {
	need := false
	switch {
	case isLeaf(ch) || isFunc(ch):
	case isSign(ch):
		if par.op == "^" && side == 0 && p.r.Intn(100) >= p.ambPerc {
			need = true
		}
	default: // binary
		chSB := !ch.implied && isShiftBit(ch.op)
		parSB := isShiftBit(par.op)
		lc, lp := level(ch.op), level(par.op)
		switch {
		case chSB || parSB:
			need = !(ch.op == par.op && !ch.implied && side == 0)
		case lc < lp:
			need = true
		case lc == lp && side == 1:
			need = true
		case ch.implied && par.op == "^":
			need = p.r.Intn(100) >= p.ambPerc
		}
		if ch.implied && side == 1 && lp >= 4 && p.r.Intn(100) >= p.ambPerc {
			need = true
		}
	}
	if !need && p.r.Intn(100) < p.extra {
		need = true
	}
	if need {
		return p.group(p.top(ch))
	}
	return p.top(ch)
}

// ---------------------------------------------------------------- bindings

var valuePool = []float64{0, 1, -1, 2, 3, 7, -2.5, 0.5, 0.25, 1.5, 10, 63, 64, -7, 255, 1e-9, 1e18, -1e18,
	4611686018427387904, 9223372036854775808, 1e300, math.MaxFloat64, 5e-324, 123.456, -0.75, 1e6, 4294967296}

func randValue(r *run.Rand) float64 {
	switch p := r.Intn(100); {
	case p < 40:
		return float64(r.Range(-12, 12))
	case p < 55:
		return float64(r.Range(-1000, 1000)) / 8
	case p < 85:
		return valuePool[r.Intn(len(valuePool))]
	case p < 93:
		return (r.Float() - 0.5) * math.Pow(10, float64(r.Range(-6, 20)))
	case p < 95:
		return math.NaN()
	case p < 97:
		return math.Inf(1 - 2*r.Intn(2))
	case p < 98:
		return math.Copysign(0, -1)
	}
	return float64(r.I64() >> uint(r.Intn(60)))
}

func fstr(v float64) string { return strconv.FormatFloat(v, 'g', -1, 64) }

// ---------------------------------------------------------------- malformed formulas

var leadOps = []string{"*", "/", "^", "%", "<<", ">>", "&", "|", "<", "<=", ">", ">=", "==", "&&", "||"}

// malform applies one malforming edit of class cl to a well-formed formula.
// ok=false when the class does not apply to this formula.
func malform(r *run.Rand, f string, cl int) (string, bool) {
	toks, st, _ := lex(f)
	if st != stOK || len(toks) == 0 {
		return "", false
	}
	pick := func(pred func(t rtok) bool) (rtok, bool) {
		var c []rtok
		for _, t := range toks {
			if pred(t) {
				c = append(c, t)
			}
		}
		if len(c) == 0 {
			return rtok{}, false
		}
		return c[r.Intn(len(c))], true
	}
	switch cl {
	case 0: // unbalanced parentheses
		switch r.Intn(3) {
		case 0:
			t := toks[r.Intn(len(toks))]
			return f[:t.pos] + "(" + f[t.pos:], true
		case 1:
			t := toks[r.Intn(len(toks))]
			return f[:t.end] + ")" + f[t.end:], true
		default:
			t, ok := pick(func(t rtok) bool { return t.k == kLP || t.k == kRP })
			if !ok {
				return f + ")", true
			}
			return f[:t.pos] + f[t.end:], true
		}
	case 1: // empty group
		t, ok := pick(func(t rtok) bool { return t.k == kNum || t.k == kBox })
		if !ok {
			return "", false
		}
		return f[:t.pos] + r.Pick([]string{"()", "( )", "abs()"}) + f[t.end:], true
	case 2: // leading binary operator (of the formula or of a group)
		op := r.Pick(leadOps)
		if t, ok := pick(func(t rtok) bool { return t.k == kLP }); ok && r.Intn(2) == 0 {
			return f[:t.end] + op + " " + f[t.end:], true
		}
		return op + " " + f, true
	case 3: // trailing binary operator
		op := r.Pick(allBinOps)
		if t, ok := pick(func(t rtok) bool { return t.k == kRP }); ok && r.Intn(2) == 0 {
			return f[:t.pos] + " " + op + f[t.pos:], true
		}
		return f + " " + op, true
	case 4: // two adjacent binary operators, the second not unary-capable
		t, ok := pick(func(t rtok) bool { return t.k == kOp })
		if !ok {
			return "", false
		}
		return f[:t.end] + " " + r.Pick(leadOps) + " " + f[t.end:], true
	case 5: // literal directly after a group
		t, ok := pick(func(t rtok) bool { return t.k == kRP })
		if !ok {
			return "", false
		}
		return f[:t.end] + r.Pick([]string{"3", "x", "[0]", "0.5", "0x1F"}) + f[t.end:], true
	case 6: // impossible numeric literal
		t, ok := pick(func(t rtok) bool { return t.k == kNum })
		if !ok {
			return "", false
		}
		return f[:t.pos] + r.Pick([]string{"1.2.3", "0b102", "0x1g", "0b2", "3..5"}) + f[t.end:], true
	case 7: // trailing unary operator
		tail := r.Pick([]string{" + -", "*!", " - -", "/ !", " < -", "^-"})
		if t, ok := pick(func(t rtok) bool { return t.k == kRP }); ok && r.Intn(2) == 0 {
			return f[:t.pos] + tail + f[t.pos:], true
		}
		if r.Intn(4) == 0 {
			return r.Pick([]string{"-", "!", "(-)", "2(!)", "abs(-)"}), true
		}
		return f + tail, true
	case 8: // a variable bracket that is not closed / not opened
		t, ok := pick(func(t rtok) bool { return t.k == kBox })
		if !ok {
			if r.Intn(2) == 0 {
				return "[" + f, true
			}
			return f + "]", true
		}
		if strings.Count(f, "[") != 1 {
			return "", false // another bracket could pair with the one that is left
		}
		if r.Intn(2) == 0 {
			return f[:t.end-1] + f[t.end:], true // "[x" ...
		}
		return f[:t.pos] + f[t.pos+1:], true // ... "x]"
	}
	return "", false
}

const malformClasses = 9

func hasAny(s string, subs ...string) bool {
	for _, x := range subs {
		if strings.Contains(s, x) {
			return true
		}
	}
	return false
}
