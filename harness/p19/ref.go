package p19

// Reference model for C19, written from the property statement and
// docs/usage/math.md only. It never calls rare.
//
// Levels (statement): ^  >  * / % (and implied multiplication)  >  + -  >
// comparisons  >  && ||, equal levels left to right, parentheses first.
// Unary - / ! and named functions bind to the operand / group that follows.
// The statement does not place shift and bit operators: a chain (the operator
// sequence of one parenthesis level) that contains one of them must consist of
// that single operator only, otherwise the formula is outside the reference
// grammar ("unsupported" = the oracle abstains).
//
// A chain is resolved the textbook way: fold all operators of the highest
// level left to right, then the next level, ... (no precedence climbing).

import (
	"math"
	"strconv"
	"strings"
)

type status int

const (
	stOK          status = iota
	stMalformed          // must be rejected at compile time
	stUnsupported        // docs/statement silent: neither accepted nor rejected by the oracle
)

// ---------------------------------------------------------------- lexer

const (
	kNum = iota
	kName
	kBox
	kLP
	kRP
	kOp   // one of the 17 binary operators ('-' doubles as the unary sign by position)
	kBang // '!'
)

type rtok struct {
	k        int
	s        string
	pos, end int
}

var binOps2 = []string{"<<", ">>", "<=", ">=", "==", "&&", "||"}

const binOps1 = "+-*/^%&|<>"

var funcs = map[string]func(float64) float64{
	"abs": math.Abs,
	"sin": math.Sin, "asin": math.Asin, "cos": math.Cos, "acos": math.Acos, "tan": math.Tan, "atan": math.Atan,
	"sqrt":  math.Sqrt,
	"floor": math.Floor, "ceil": math.Ceil, "round": math.Round,
	"exp": math.Exp, "exp2": math.Exp2, "log": math.Log, "log10": math.Log10, "log2": math.Log2,
}

func isDigit(b byte) bool { return b >= '0' && b <= '9' }
func isAlpha(b byte) bool { return (b >= 'a' && b <= 'z') || (b >= 'A' && b <= 'Z') }

func lex(s string) ([]rtok, status, string) {
	var out []rtok
	for i := 0; i < len(s); {
		b := s[i]
		switch {
		case b == ' ':
			i++
		case isDigit(b) || b == '.':
			j := i
			for j < len(s) && (isDigit(s[j]) || isAlpha(s[j]) || s[j] == '.' || s[j] == '_') {
				j++
			}
			out = append(out, rtok{k: kNum, s: s[i:j], pos: i, end: j})
			i = j
		case isAlpha(b):
			j := i
			for j < len(s) && (isDigit(s[j]) || isAlpha(s[j])) {
				j++
			}
			if j < len(s) && (s[j] == '.' || s[j] == '_') {
				return nil, stUnsupported, "name followed by . or _"
			}
			out = append(out, rtok{k: kName, s: s[i:j], pos: i, end: j})
			i = j
		case b == '[':
			j := strings.IndexByte(s[i:], ']')
			if j < 0 {
				return nil, stMalformed, "unterminated [..]"
			}
			j += i
			inner := s[i+1 : j]
			if inner == "" {
				return nil, stUnsupported, "empty [..]"
			}
			for k := 0; k < len(inner); k++ {
				if !isDigit(inner[k]) && !isAlpha(inner[k]) && inner[k] < 0x80 {
					return nil, stUnsupported, "non-alphanumeric key in [..]"
				}
			}
			out = append(out, rtok{k: kBox, s: inner, pos: i, end: j + 1})
			i = j + 1
		case b == '(':
			out = append(out, rtok{k: kLP, s: "(", pos: i, end: i + 1})
			i++
		case b == ')':
			out = append(out, rtok{k: kRP, s: ")", pos: i, end: i + 1})
			i++
		case b == '!':
			out = append(out, rtok{k: kBang, s: "!", pos: i, end: i + 1})
			i++
		default:
			matched := false
			if i+1 < len(s) {
				for _, o := range binOps2 {
					if s[i:i+2] == o {
						out = append(out, rtok{k: kOp, s: o, pos: i, end: i + 2})
						i += 2
						matched = true
						break
					}
				}
			}
			if matched {
				continue
			}
			if strings.IndexByte(binOps1, b) >= 0 {
				out = append(out, rtok{k: kOp, s: string(b), pos: i, end: i + 1})
				i++
				continue
			}
			if b == ']' {
				return nil, stMalformed, "] without ["
			}
			// '=' alone is listed in math.md but "==" is what the statement's
			// operator set (17 operators) contains: abstain.
			return nil, stUnsupported, "character " + strconv.Quote(string(b))
		}
	}
	return out, stOK, ""
}

// literal classifies a numeric token. Documented spellings only: base-10
// digits with an optional fraction, 0x hex, 0b binary.
func literal(t string) (float64, status, string) {
	if strings.HasPrefix(t, "0x") || strings.HasPrefix(t, "0b") {
		base := uint64(16)
		if t[1] == 'b' {
			base = 2
		}
		d := t[2:]
		if d == "" {
			return 0, stMalformed, "prefix without digits"
		}
		var v uint64
		for i := 0; i < len(d); i++ {
			var x uint64
			c := d[i]
			switch {
			case isDigit(c):
				x = uint64(c - '0')
			case c >= 'a' && c <= 'f':
				x = uint64(c-'a') + 10
			case c >= 'A' && c <= 'F':
				x = uint64(c-'A') + 10
			case c == '_' || c == '.' || c == 'p' || c == 'P':
				return 0, stUnsupported, "exotic hex/binary spelling"
			default:
				return 0, stMalformed, "bad digit in literal"
			}
			if x >= base {
				return 0, stMalformed, "bad digit in literal"
			}
			if v > (math.MaxInt64-x)/base {
				return 0, stUnsupported, "prefixed literal beyond int64"
			}
			v = v*base + x
		}
		return float64(v), stOK, ""
	}
	dots, digitsBefore, digitsAfter := 0, 0, 0
	for i := 0; i < len(t); i++ {
		c := t[i]
		switch {
		case isDigit(c):
			if dots == 0 {
				digitsBefore++
			} else {
				digitsAfter++
			}
		case c == '.':
			dots++
		default:
			// 1e5, 2x, 1_000, 0o17, 0X1F ...: not documented
			return 0, stUnsupported, "undocumented literal spelling"
		}
	}
	if dots > 1 {
		return 0, stMalformed, "two decimal points"
	}
	if digitsBefore == 0 || (dots == 1 && digitsAfter == 0) {
		return 0, stUnsupported, "bare decimal point"
	}
	if digitsBefore > 1 && t[0] == '0' {
		return 0, stUnsupported, "leading zero (base-0 parsing is undocumented)"
	}
	v, err := strconv.ParseFloat(t, 64)
	if err != nil {
		return 0, stUnsupported, "literal out of float64 range"
	}
	return v, stOK, ""
}

// ---------------------------------------------------------------- AST

const (
	nNum = iota
	nIdx
	nKey
	nUn  // sign '-' / '!' or a named function
	nBin // binary (op "*" with implied=true for a(b))
)

type node struct {
	k        int
	v        float64
	idx      int
	key      string
	op       string
	implied  bool
	l, r     *node
	pos, end int // span of a leaf in the formula text
	boxed    bool
	txt      string // generator only: spelling of a literal
}

type parsed struct {
	root *node
	// amb: the statement does not fix the value (unary sign directly before
	// an operand that is raised to a power or juxtaposed; juxtaposition next
	// to ^ * / %): only the crash and constant<->variable clauses are judged.
	amb    bool
	ambWhy string
	nums   []*node
	vars   []*node
	binops int
	pairs  []string // adjacent operator pairs of every chain (coverage)
	ops    []string
}

type parser struct {
	t   []rtok
	i   int
	st  status
	why string
	out *parsed
}

func (p *parser) fail(st status, why string) {
	if p.st == stOK {
		p.st, p.why = st, why
	}
}

func (p *parser) peek() *rtok {
	if p.i < len(p.t) {
		return &p.t[p.i]
	}
	return nil
}

// parseFormula is the reference grammar.
func parseFormula(s string) (*parsed, status, string) {
	toks, st, why := lex(s)
	if st != stOK {
		return nil, st, why
	}
	// numeric tokens first: an undocumented spelling makes the whole formula unjudged
	bad := ""
	for _, t := range toks {
		if t.k == kNum {
			_, ls, lw := literal(t.s)
			if ls == stUnsupported {
				return nil, stUnsupported, lw
			}
			if ls == stMalformed && bad == "" {
				bad = lw
			}
		}
		if t.k == kName {
			switch strings.ToLower(t.s) {
			case "inf", "infinity", "nan":
				return nil, stUnsupported, "name that reads as a float"
			}
		}
	}
	depth := 0
	for _, t := range toks {
		if t.k == kLP {
			depth++
		}
		if t.k == kRP {
			depth--
			if depth < 0 {
				return nil, stMalformed, "unbalanced parentheses"
			}
		}
	}
	if depth != 0 {
		return nil, stMalformed, "unbalanced parentheses"
	}
	if bad != "" {
		return nil, stMalformed, bad
	}
	p := &parser{t: toks, out: &parsed{}}
	if len(toks) == 0 {
		return nil, stUnsupported, "empty formula"
	}
	root := p.chain()
	if p.st == stOK && p.i != len(p.t) {
		p.fail(stUnsupported, "trailing tokens")
	}
	if p.st != stOK {
		return nil, p.st, p.why
	}
	p.out.root = root
	return p.out, stOK, ""
}

type operand struct {
	n      *node
	signed bool // carries a '-' / '!' prefix
	group  bool // ends with ')'
}

func isShiftBit(op string) bool { return op == "<<" || op == ">>" || op == "&" || op == "|" }

func level(op string) int {
	switch op {
	case "^":
		return 5
	case "*", "/", "%":
		return 4
	case "+", "-":
		return 3
	case "==", "<=", ">=", "<", ">":
		return 2
	case "&&", "||":
		return 1
	}
	return 0
}

// chain parses operand (op operand | juxtaposed-group)* up to ')' or the end.
func (p *parser) chain() *node {
	type opItem struct {
		op      string
		implied bool
	}
	var opnds []operand
	var ops []opItem
	first := p.operand(true)
	if p.st != stOK {
		return nil
	}
	opnds = append(opnds, first)
	for p.st == stOK {
		t := p.peek()
		if t == nil || t.k == kRP {
			break
		}
		switch t.k {
		case kLP:
			ops = append(ops, opItem{"*", true})
			opnds = append(opnds, p.operand(false))
		case kOp:
			p.i++
			ops = append(ops, opItem{t.s, false})
			opnds = append(opnds, p.operand(true))
		case kBang:
			p.fail(stUnsupported, "'!' where an operator is expected")
		default:
			last := opnds[len(opnds)-1]
			if last.group && !(t.k == kName && funcs[t.s] != nil) {
				p.fail(stMalformed, "literal directly after a group")
			} else {
				p.fail(stUnsupported, "two operands without an operator")
			}
		}
	}
	if p.st != stOK {
		return nil
	}
	// coverage + ambiguity bookkeeping
	for i, o := range ops {
		name := o.op
		if o.implied {
			name = "juxt"
		}
		p.out.ops = append(p.out.ops, name)
		if i > 0 {
			prev := ops[i-1].op
			if ops[i-1].implied {
				prev = "juxt"
			}
			p.out.pairs = append(p.out.pairs, prev+" "+name)
		}
	}
	p.out.binops += len(ops)
	hasSB := false
	for _, o := range ops {
		if !o.implied && isShiftBit(o.op) {
			hasSB = true
		}
	}
	if hasSB {
		for _, o := range ops {
			if o.implied || o.op != ops[0].op {
				p.fail(stUnsupported, "shift/bit operator mixed with another operator without parentheses")
				return nil
			}
		}
	}
	for i, o := range ops {
		left := opnds[i]
		if o.op == "^" && left.signed {
			p.amb(`unary sign on the base of ^`)
		}
		if o.implied {
			if left.signed {
				p.amb("unary sign on a juxtaposed operand")
			}
			if i > 0 && !ops[i-1].implied && level(ops[i-1].op) >= 4 {
				p.amb("juxtaposition right of ^ * / %")
			}
			// a(b)^c: the exponent binds before any multiplication under every convention
			// (juxtaposition is at most as tight as ^), so a*(b^c) is THE parse: judged.
		}
	}
	// fold by level, highest first, left to right
	ns := make([]*node, len(opnds))
	for i := range opnds {
		ns[i] = opnds[i].n
	}
	if hasSB {
		acc := ns[0]
		for i, o := range ops {
			acc = &node{k: nBin, op: o.op, l: acc, r: ns[i+1]}
		}
		return acc
	}
	for lv := 5; lv >= 1; lv-- {
		for i := 0; i < len(ops); {
			if level(ops[i].op) == lv {
				ns[i] = &node{k: nBin, op: ops[i].op, implied: ops[i].implied, l: ns[i], r: ns[i+1]}
				ns = append(ns[:i+1], ns[i+2:]...)
				ops = append(ops[:i], ops[i+1:]...)
			} else {
				i++
			}
		}
	}
	return ns[0]
}

func (p *parser) amb(why string) {
	if !p.out.amb {
		p.out.amb, p.out.ambWhy = true, why
	}
}

func (p *parser) operand(allowSign bool) operand {
	var res operand
	t := p.peek()
	sign := ""
	if allowSign && t != nil && ((t.k == kOp && t.s == "-") || t.k == kBang) {
		sign = t.s
		p.i++
		t = p.peek()
		if t != nil && ((t.k == kOp && t.s == "-") || t.k == kBang) {
			p.fail(stUnsupported, "stacked unary operators")
			return res
		}
	}
	if t == nil || t.k == kRP {
		if t != nil && p.i > 0 && p.t[p.i-1].k == kLP {
			p.fail(stMalformed, "empty group")
		} else if sign != "" {
			p.fail(stMalformed, "trailing unary operator")
		} else {
			p.fail(stMalformed, "trailing binary operator")
		}
		return res
	}
	var n *node
	switch t.k {
	case kOp:
		if t.s == "+" {
			p.fail(stUnsupported, "unary plus")
		} else {
			p.fail(stMalformed, "binary operator where an operand is expected")
		}
		return res
	case kNum:
		v, _, _ := literal(t.s)
		n = &node{k: nNum, v: v, pos: t.pos, end: t.end}
		p.out.nums = append(p.out.nums, n)
		p.i++
	case kBox:
		n = boxNode(t)
		if n == nil {
			p.fail(stUnsupported, "index with leading zero / too long")
			return res
		}
		p.out.vars = append(p.out.vars, n)
		p.i++
	case kName:
		if f := funcs[t.s]; f != nil {
			if p.i+1 < len(p.t) && p.t[p.i+1].k == kLP {
				// no space between the name and its group in documented use
				if p.t[p.i+1].pos != t.end {
					p.fail(stUnsupported, "space between function name and group")
					return res
				}
				p.i += 2
				inner := p.groupBody()
				if p.st != stOK {
					return res
				}
				n = &node{k: nUn, op: t.s, l: inner}
				res.group = true
			} else {
				p.fail(stUnsupported, "function name without a group")
				return res
			}
		} else {
			n = &node{k: nKey, key: t.s, pos: t.pos, end: t.end}
			p.out.vars = append(p.out.vars, n)
			p.i++
		}
	case kLP:
		if p.i > 0 && !allowSign && p.t[p.i-1].end != t.pos {
			p.fail(stUnsupported, "space before a juxtaposed group")
			return res
		}
		p.i++
		n = p.groupBody()
		if p.st != stOK {
			return res
		}
		res.group = true
	default:
		p.fail(stUnsupported, "unexpected token")
		return res
	}
	if sign != "" {
		n = &node{k: nUn, op: sign, l: n}
		res.signed = true
	}
	res.n = n
	return res
}

func (p *parser) groupBody() *node {
	if t := p.peek(); t != nil && t.k == kRP {
		p.fail(stMalformed, "empty group")
		return nil
	}
	inner := p.chain()
	if p.st != stOK {
		return nil
	}
	t := p.peek()
	if t == nil || t.k != kRP {
		p.fail(stMalformed, "unbalanced parentheses")
		return nil
	}
	p.i++
	return inner
}

func boxNode(t *rtok) *node {
	allDigits := true
	for i := 0; i < len(t.s); i++ {
		if !isDigit(t.s[i]) {
			allDigits = false
		}
	}
	if allDigits {
		if (len(t.s) > 1 && t.s[0] == '0') || len(t.s) > 6 {
			return nil
		}
		idx, _ := strconv.Atoi(t.s)
		return &node{k: nIdx, idx: idx, pos: t.pos, end: t.end, boxed: true}
	}
	if isDigit(t.s[0]) {
		return nil // [1x]: silent in the docs
	}
	return &node{k: nKey, key: t.s, pos: t.pos, end: t.end, boxed: true}
}

// ---------------------------------------------------------------- evaluation

// binding of a formula's variables.
type env struct {
	idx  map[int]float64
	keys map[string]float64
	zero bool // every variable reads 0 (models a compile-time probe)
}

type flags struct {
	taint    bool // value not fixed by statement/docs (see notes): no value comparison
	hazMod   bool // % with a right operand that truncates to 0
	hazShift bool // << / >> with a negative right operand
	unbound  bool
}

const two63 = 9223372036854775808.0

func inInt(v float64) bool { return v > -two63 && v < two63 } // false for NaN

func b2f(b bool) float64 {
	if b {
		return 1
	}
	return 0
}

func eval(n *node, e *env, f *flags) float64 {
	switch n.k {
	case nNum:
		return n.v
	case nIdx:
		if e.zero {
			return 0
		}
		v, ok := e.idx[n.idx]
		if !ok {
			f.unbound = true
		}
		return v
	case nKey:
		if e.zero {
			return 0
		}
		v, ok := e.keys[n.key]
		if !ok {
			f.unbound = true
		}
		return v
	case nUn:
		x := eval(n.l, e, f)
		switch n.op {
		case "-":
			return -x
		case "!":
			if x != x {
				f.taint = true // truthiness of NaN: silent
			}
			return b2f(x == 0)
		case "round":
			if fr := math.Abs(x) - math.Floor(math.Abs(x)); fr == 0.5 {
				f.taint = true // rounding mode for ties: silent
			}
		}
		return funcs[n.op](x)
	}
	l := eval(n.l, e, f)
	saved := f.taint
	f.taint = false
	r := eval(n.r, e, f)
	rt := f.taint // the right operand's value is not fixed by the statement
	f.taint = saved || rt
	switch n.op {
	case "+":
		return l + r
	case "-":
		return l - r
	case "*":
		return l * r
	case "/":
		return l / r
	case "^":
		return math.Pow(l, r)
	case "%", "<<", ">>", "&", "|":
		// hazards first: they only depend on the right operand. A right operand
		// whose own value is not fixed (rt) or that is outside int64 (the
		// conversion is platform-defined; amd64 yields MinInt64) may or may not hit
		// the class: flagged, so that the generator stays out while it is known.
		shift := n.op == "<<" || n.op == ">>"
		if rt {
			if n.op == "%" {
				f.hazMod = true
			}
			if shift {
				f.hazShift = true
			}
		}
		if !inInt(r) && shift {
			f.hazShift = true
		}
		if inInt(r) && n.op == "%" && int64(r) == 0 {
			f.hazMod = true
		}
		if inInt(r) && shift && int64(r) < 0 {
			f.hazShift = true
		}
		if !inInt(l) || !inInt(r) {
			f.taint = true // float->int64 conversion out of range: unspecified
			return 0
		}
		a, b := int64(l), int64(r)
		if r < 0 && n.op != "&" && n.op != "|" {
			// negative right operand of % << >> (even one that truncates to 0):
			// crash clause only, the value is not fixed by the documentation
			f.taint = true
		}
		switch n.op {
		case "%":
			if b == 0 {
				f.hazMod, f.taint = true, true
				return 0
			}
			return float64(a % b)
		case "<<":
			if b < 0 {
				f.hazShift, f.taint = true, true
				return 0
			}
			if b > 62 {
				f.taint = true
				return 0
			}
			res := a << uint(b)
			if res>>uint(b) != a {
				f.taint = true // overflow: silent
			}
			return float64(res)
		case ">>":
			if b < 0 {
				f.hazShift, f.taint = true, true
				return 0
			}
			if b > 63 {
				f.taint = true
				return 0
			}
			return float64(a >> uint(b))
		case "&":
			return float64(a & b)
		default:
			return float64(a | b)
		}
	case "<":
		return b2f(l < r)
	case "<=":
		return b2f(l <= r)
	case ">":
		return b2f(l > r)
	case ">=":
		return b2f(l >= r)
	case "==":
		return b2f(l == r)
	case "&&":
		if l != l || r != r {
			f.taint = true
		}
		return b2f(l != 0 && r != 0)
	case "||":
		if l != l || r != r {
			f.taint = true
		}
		return b2f(l != 0 || r != 0)
	}
	panic("p19 reference: unknown operator " + n.op)
}

func sameFloat(a, b float64) bool {
	if a != a || b != b {
		return a != a && b != b
	}
	return math.Float64bits(a) == math.Float64bits(b)
}
