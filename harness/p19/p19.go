// Package p19 decides C19: `{! ..}` math formulas evaluate to the value of
// their parse under the documented order of operations, constants and
// variables bound to the same value are interchangeable (the compile-time
// simplifier is invisible), malformed formulas are rejected at compile time
// and nothing crashes.
package p19

import (
	"encoding/json"
	"fmt"
	"sort"
	"strconv"
	"strings"
	"time"

	"rare/pkg/expressions"
	"rare/pkg/expressions/stdlib"
	"rare/pkg/expressions/stdmath"

	"verifharness/internal/reg"
	"verifharness/internal/run"
)

func init() { reg.Register("C19", Run) }

// Known defect classes (fingerprints are the entries of known.d/C19.json).
const (
	fpMod        = "panic:mod-zero-right"          // a % b with int64(b)==0 (also reached by the compile-time probe)
	fpShift      = "panic:shift-negative-right"    // a << b / a >> b with int64(b)<0 (ditto)
	fpTrailUnary = "panic:trailing-unary-operator" // formula or group ending in a unary - / !
)

// Bind is one variable binding; values are strings exactly as the match data
// would carry them ("NaN", "+Inf" and non-numeric text are representable).
type Bind struct {
	Idx  map[string]string `json:"idx,omitempty"` // "0" -> value of [0]
	Keys map[string]string `json:"keys,omitempty"`
}

// Case is one C19 execution (and the replay format).
type Case struct {
	Kind   string `json:"kind"` // formula | malformed | nonnumeric | dense
	F      string `json:"f,omitempty"`
	Binds  []Bind `json:"binds,omitempty"`
	Block  int    `json:"block,omitempty"`
	L      int    `json:"L,omitempty"`
	Pinned string `json:"pinned,omitempty"`
	Quoted bool   `json:"quoted,omitempty"`
}

// ---------------------------------------------------------------- binding sets

type bindSet struct {
	binds   []Bind
	envs    []*env
	kctx    []*expressions.KeyBuilderContextArray
	numeric bool
}

func newBindSet(binds []Bind) *bindSet {
	bs := &bindSet{binds: binds, numeric: true}
	for _, b := range binds {
		e := &env{idx: map[int]float64{}, keys: map[string]float64{}}
		maxIdx := -1
		for k, v := range b.Idx {
			i, err := strconv.Atoi(k)
			if err != nil || i < 0 || i > 1000 {
				continue
			}
			f, err := strconv.ParseFloat(v, 64)
			if err != nil {
				bs.numeric = false
			}
			e.idx[i] = f
			if i > maxIdx {
				maxIdx = i
			}
		}
		kc := &expressions.KeyBuilderContextArray{Elements: make([]string, maxIdx+1), Keys: map[string]string{}}
		for k, v := range b.Idx {
			if i, err := strconv.Atoi(k); err == nil && i >= 0 && i <= maxIdx {
				kc.Elements[i] = v
			}
		}
		for k, v := range b.Keys {
			f, err := strconv.ParseFloat(v, 64)
			if err != nil {
				bs.numeric = false
			}
			e.keys[k] = f
			kc.Keys[k] = v
		}
		bs.envs = append(bs.envs, e)
		bs.kctx = append(bs.kctx, kc)
	}
	return bs
}

// mctx is the stdmath.Context handed to the compiled formula.
type mctx struct {
	e        *env
	extraIdx int
	extraKey string
	extraVal float64
}

func (m *mctx) GetMatch(i int) float64 {
	if i == m.extraIdx {
		return m.extraVal
	}
	return m.e.idx[i]
}

func (m *mctx) GetKey(k string) float64 {
	if m.extraKey != "" && k == m.extraKey {
		return m.extraVal
	}
	return m.e.keys[k]
}

// ---------------------------------------------------------------- runner

type runner struct {
	c  *run.Ctx
	kb *expressions.KeyBuilder

	kMod, kShift, kTrail bool // known classes still active: generators stay out
	nontriv              int
}

type opts struct {
	kb     bool
	subst  bool
	sample bool
}

func classify(val any, f string) string {
	msg := fmt.Sprint(val)
	switch {
	case strings.Contains(msg, "integer divide by zero") && strings.Contains(f, "%"):
		return fpMod
	case strings.Contains(msg, "negative shift amount") && hasAny(f, "<<", ">>"):
		return fpShift
	}
	return ""
}

func firstLines(s string, n int) string {
	l := strings.Split(s, "\n")
	var keep []string
	for _, x := range l {
		if strings.Contains(x, "rare/") || strings.Contains(x, "/repo/") || strings.Contains(x, "/tmp/wt") {
			keep = append(keep, strings.TrimSpace(x))
		}
		if len(keep) >= n {
			break
		}
	}
	return strings.Join(keep, " | ")
}

func (r *runner) panicViolation(where string, val any, stack string, cs *Case, fallbackClass string) {
	fp := classify(val, cs.F)
	if fp == "" {
		fp = fallbackClass
	}
	if fp == "" {
		fp = "panic:" + run.Hash64(cs.F)
	}
	r.c.Violation(fp, fmt.Sprintf("formula %s: panic during %s: %v [%s]; expected: a value or a compile error, never a panic",
		run.Q(cs.F), where, val, firstLines(stack, 4)), cs)
}

func fmtF(v float64) string { return strconv.FormatFloat(v, 'g', -1, 64) }

// formula runs every clause of the property on one well-formed formula.
// It returns false when the case was skipped (known class / outside grammar).
func (r *runner) formula(cs *Case, bs *bindSet, o opts) bool {
	c := r.c
	pr, st, why := parseFormula(cs.F)
	if st != stOK {
		c.Count("outside_reference_grammar", 1)
		if c.Replay != nil {
			c.Note("replayed formula is outside the reference grammar: " + why)
		}
		return false
	}
	n := len(bs.envs)
	refv := make([]float64, n)
	fl := make([]flags, n)
	var hz flags
	eval(pr.root, &env{zero: true}, &hz)
	for i, e := range bs.envs {
		refv[i] = eval(pr.root, e, &fl[i])
		hz.hazMod = hz.hazMod || fl[i].hazMod
		hz.hazShift = hz.hazShift || fl[i].hazShift
		if fl[i].unbound {
			c.Inconclusive("harness: formula " + run.Q(cs.F) + " references an unbound variable")
			return false
		}
	}
	if cs.Pinned == "" && ((hz.hazMod && r.kMod) || (hz.hazShift && r.kShift)) {
		c.Count("skipped_known_class", 1)
		return false
	}
	if hz.hazMod || hz.hazShift {
		c.Count("crash_only_zero_or_negative_right_operand", 1)
	}

	// --- compile (direct)
	var expr stdmath.Expr
	var err error
	if p, val, stack := run.Guard(func() { expr, err = stdmath.Compile(cs.F) }); p {
		r.panicViolation("stdmath.Compile", val, stack, cs, "")
		return true
	}
	if err != nil {
		c.Violation("rejects-wellformed:"+run.Hash64(cs.F),
			fmt.Sprintf("formula %s is well-formed by the documented grammar but stdmath.Compile fails: %v", run.Q(cs.F), err), cs)
		return true
	}
	got := make([]float64, n)
	m := &mctx{extraIdx: -1}
	compared := 0
	for i, e := range bs.envs {
		m.e = e
		if p, val, stack := run.Guard(func() { got[i] = expr.Eval(m) }); p {
			r.panicViolation("Eval with "+bindStr(bs.binds[i]), val, stack, cs, "")
			return true
		}
		if pr.amb || fl[i].taint {
			c.Count("value_abstained", 1)
			continue
		}
		compared++
		if !sameFloat(got[i], refv[i]) {
			c.Violation("value:"+run.Hash64(cs.F),
				fmt.Sprintf("formula %s with %s: stdmath gives %s, the parse under the documented order of operations gives %s",
					run.Q(cs.F), bindStr(bs.binds[i]), fmtF(got[i]), fmtF(refv[i])), cs)
			return true
		}
	}
	c.Count("values_compared", int64(compared))
	c.Count("formulas", 1)
	if compared > 0 {
		c.Count("formulas_value_checked", 1)
	}
	if pr.binops > 0 && r.nontriv < 40000 {
		r.nontriv++
		c.Nontrivial(cs.F)
	}
	for _, pq := range pr.pairs {
		c.SetAdd("adjacent_operator_pairs", pq)
	}
	for _, op := range pr.ops {
		c.SetAdd("operators", op)
	}
	c.Max("max_binary_operators", int64(pr.binops))
	c.Max("max_formula_bytes", int64(len(cs.F)))

	// --- {! ..} through the key builder
	if o.kb {
		tmpl := "{! " + cs.F + "}"
		if cs.Quoted {
			tmpl = "{! \"" + cs.F + "\"}"
		}
		var ckb *expressions.CompiledKeyBuilder
		var cerr *expressions.CompilerErrors
		if p, val, stack := run.Guard(func() { ckb, cerr = r.kb.Compile(tmpl) }); p {
			r.panicViolation("KeyBuilder.Compile("+tmpl+")", val, stack, cs, "")
			return true
		}
		if cerr != nil {
			c.Violation("kb-rejects-wellformed:"+run.Hash64(cs.F),
				fmt.Sprintf("template %s does not compile: %v", run.Q(tmpl), cerr), cs)
			return true
		}
		for i := range bs.envs {
			var out string
			if p, val, stack := run.Guard(func() { out = ckb.BuildKey(bs.kctx[i]) }); p {
				r.panicViolation("BuildKey("+tmpl+") with "+bindStr(bs.binds[i]), val, stack, cs, "")
				return true
			}
			if pr.amb || fl[i].taint || !bs.numeric {
				continue
			}
			// math.md: "the minimum number of decimals to represent the value": the
			// text must read back as exactly the reference value; the notation
			// (plain decimals today) is counted, not judged.
			c.Count("kb_outputs_compared", 1)
			back, perr := strconv.ParseFloat(out, 64)
			if perr != nil || !sameFloat(back, refv[i]) {
				c.Violation("kb-output:"+run.Hash64(cs.F),
					fmt.Sprintf("template %s with %s: BuildKey gives %s, expected the text of %s (e.g. %s)",
						run.Q(tmpl), bindStr(bs.binds[i]), run.Q(out), fmtF(refv[i]), run.Q(strconv.FormatFloat(refv[i], 'f', -1, 64))), cs)
				return true
			}
			if out == strconv.FormatFloat(refv[i], 'f', -1, 64) {
				c.Count("kb_outputs_plain_decimal", 1)
			}
		}
	}

	// --- constant <-> variable
	if o.subst && bs.numeric {
		if !r.substitute(cs, bs, pr, got) {
			return true
		}
	}
	if o.sample {
		c.Sample(map[string]any{"formula": cs.F, "binding": bs.binds[0], "value": fmtF(got[0]), "reference": fmtF(refv[0])})
	}
	return true
}

func bindStr(b Bind) string {
	var parts []string
	var ks []string
	for k := range b.Idx {
		ks = append(ks, k)
	}
	sort.Strings(ks)
	for _, k := range ks {
		parts = append(parts, "["+k+"]="+b.Idx[k])
	}
	ks = ks[:0]
	for k := range b.Keys {
		ks = append(ks, k)
	}
	sort.Strings(ks)
	for _, k := range ks {
		parts = append(parts, k+"="+b.Keys[k])
	}
	if len(parts) == 0 {
		return "no variables"
	}
	return strings.Join(parts, " ")
}

// substitute checks that replacing a constant by a variable bound to the same
// value, or a variable by the constant it is bound to, never changes the result
// rare computes (got = rare's values of the original under every binding).
func (r *runner) substitute(cs *Case, bs *bindSet, pr *parsed, got []float64) bool {
	c := r.c
	rr := c.Rand("subst", cs.F)
	// fresh variable
	maxIdx := 0
	for _, e := range bs.envs {
		for i := range e.idx {
			if i >= maxIdx {
				maxIdx = i + 1
			}
		}
	}
	for _, v := range pr.vars {
		if v.k == nIdx && v.idx >= maxIdx {
			maxIdx = v.idx + 1
		}
	}
	check := func(f2 string, i int, m *mctx, what string) bool {
		// the substituted formula may itself fall into a known class (a constant
		// right operand of % becomes a variable that the compile-time probe reads as 0)
		if r.kMod || r.kShift {
			if p2, st2, _ := parseFormula(f2); st2 == stOK {
				var h flags
				eval(p2.root, &env{zero: true}, &h)
				for _, e := range bs.envs {
					eval(p2.root, e, &h)
				}
				if (h.hazMod && r.kMod) || (h.hazShift && r.kShift) {
					c.Count("skipped_known_class_subst", 1)
					return true
				}
			}
		}
		cs2 := &Case{Kind: "formula", F: cs.F, Binds: cs.Binds, Quoted: cs.Quoted}
		var e2 stdmath.Expr
		var err error
		if p, val, stack := run.Guard(func() { e2, err = stdmath.Compile(f2) }); p {
			cs2.F = f2
			r.panicViolation("stdmath.Compile of "+run.Q(f2)+" ("+what+" in "+run.Q(cs.F)+")", val, stack, cs2, "")
			return false
		}
		if err != nil {
			c.Violation("subst-rejects:"+run.Hash64(cs.F),
				fmt.Sprintf("%s: %s compiles but %s does not: %v", what, run.Q(cs.F), run.Q(f2), err), cs2)
			return false
		}
		lo, hi := 0, len(bs.envs)
		if i >= 0 {
			lo, hi = i, i+1
		}
		for k := lo; k < hi; k++ {
			m.e = bs.envs[k]
			var v2 float64
			if p, val, stack := run.Guard(func() { v2 = e2.Eval(m) }); p {
				cs2.F = f2
				r.panicViolation("Eval of "+run.Q(f2)+" ("+what+")", val, stack, cs2, "")
				return false
			}
			c.Count("subst_checks", 1)
			if !sameFloat(v2, got[k]) {
				c.Violation("subst:"+run.Hash64(cs.F),
					fmt.Sprintf("%s: %s gives %s but %s gives %s with %s (a constant and a variable bound to the same value must be interchangeable)",
						what, run.Q(cs.F), fmtF(got[k]), run.Q(f2), fmtF(v2), bindStr(bs.binds[k])), cs2)
				return false
			}
		}
		return true
	}
	// constant -> variable
	nums := pr.nums
	if len(nums) > 4 {
		p := rr.Perm(len(nums))
		nums = []*node{nums[p[0]], nums[p[1]], nums[p[2]]}
	}
	for j, nn := range nums {
		m := &mctx{extraIdx: -1, extraVal: nn.v}
		var sp string
		if (j+len(cs.F))%2 == 0 {
			m.extraIdx = maxIdx + 1
			sp = "[" + strconv.Itoa(m.extraIdx) + "]"
		} else {
			m.extraKey = "q9"
			sp = "q9"
			if j%2 == 1 {
				sp = "[q9]"
			}
		}
		f2 := cs.F[:nn.pos] + sp + cs.F[nn.end:]
		if !check(f2, -1, m, fmt.Sprintf("constant %s replaced by %s=%s", cs.F[nn.pos:nn.end], sp, fmtF(nn.v))) {
			return false
		}
	}
	// variable -> constant (one occurrence; the others stay bound)
	vars := pr.vars
	if len(vars) > 3 {
		p := rr.Perm(len(vars))
		vars = []*node{vars[p[0]], vars[p[1]]}
	}
	for _, vn := range vars {
		// per binding: two of them, rotating with the formula
		n := len(bs.envs)
		start := rr.Intn(n)
		for t := 0; t < 2 && t < n; t++ {
			i := (start + t) % n
			var v float64
			if vn.k == nIdx {
				v = bs.envs[i].idx[vn.idx]
			} else {
				v = bs.envs[i].keys[vn.key]
			}
			if v != v || v-v != 0 { // NaN / Inf have no literal
				continue
			}
			var sp string
			if v < 0 || (v == 0 && 1/v < 0) {
				sp = "(-" + strconv.FormatFloat(-v, 'f', -1, 64) + ")"
			} else {
				sp = strconv.FormatFloat(v, 'f', -1, 64)
			}
			if len(sp) > 40 {
				continue // 1e300 spelled out: fine for rare, just noise
			}
			f2 := cs.F[:vn.pos] + sp + cs.F[vn.end:]
			m := &mctx{extraIdx: -1}
			if !check(f2, i, m, fmt.Sprintf("variable %s replaced by its value %s", cs.F[vn.pos:vn.end], sp)) {
				return false
			}
		}
	}
	return true
}

// malformed: the formula must be rejected at compile time, directly and as {! ".."}.
func (r *runner) malformed(cs *Case) {
	c := r.c
	_, st, why := parseFormula(cs.F)
	if st != stMalformed {
		c.Count("malformed_not_judged", 1)
		return
	}
	// rare ignores blanks everywhere (inside a group even before tokenising), so
	// "(1 | | 2)" reads as "(1||2)". Whether blanks separate tokens is not
	// documented: a formula is judged malformed only if it still is without them.
	if strings.Contains(cs.F, " ") {
		if _, st2, _ := parseFormula(strings.ReplaceAll(cs.F, " ", "")); st2 != stMalformed {
			c.Count("malformed_not_judged", 1)
			return
		}
	}
	trailing := why == "trailing unary operator"
	if cs.Pinned == "" {
		if (trailing && r.kTrail) || (r.kMod && strings.Contains(cs.F, "%")) || (r.kShift && hasAny(cs.F, "<<", ">>")) {
			c.Count("skipped_known_class", 1)
			return
		}
	}
	fallback := ""
	var err error
	p, val, stack := run.Guard(func() { _, err = stdmath.Compile(cs.F) })
	if p {
		if trailing && strings.Contains(fmt.Sprint(val), "index out of range [0] with length 0") {
			fallback = fpTrailUnary
		}
		r.panicViolation("stdmath.Compile of a malformed formula ("+why+")", val, stack, cs, fallback)
		return
	}
	if err == nil {
		c.Violation("accepts-malformed:"+run.Hash64(cs.F),
			fmt.Sprintf("malformed formula %s (%s) compiles without error", run.Q(cs.F), why), cs)
		return
	}
	tmpl := "{! \"" + cs.F + "\"}"
	var cerr *expressions.CompilerErrors
	if p, val, stack := run.Guard(func() { _, cerr = r.kb.Compile(tmpl) }); p {
		r.panicViolation("KeyBuilder.Compile("+tmpl+") of a malformed formula ("+why+")", val, stack, cs, "")
		return
	}
	if cerr == nil {
		c.Violation("kb-accepts-malformed:"+run.Hash64(cs.F),
			fmt.Sprintf("template %s with a malformed formula (%s) compiles without error", run.Q(tmpl), why), cs)
		return
	}
	c.Count("malformed_rejected", 1)
	c.SetAdd("malformed_classes", why)
}

// nonnumeric: bindings that are not numbers must not crash {! ..}.
func (r *runner) nonnumeric(cs *Case) {
	c := r.c
	if _, st, _ := parseFormula(cs.F); st != stOK {
		return
	}
	bs := newBindSet(cs.Binds)
	tmpl := "{! " + cs.F + "}"
	var ckb *expressions.CompiledKeyBuilder
	var cerr *expressions.CompilerErrors
	if p, val, stack := run.Guard(func() { ckb, cerr = r.kb.Compile(tmpl) }); p {
		if fp := classify(val, cs.F); fp != "" && c.KnownActive(fp) {
			return // probed at compile time; counted by the pinned witnesses
		}
		r.panicViolation("KeyBuilder.Compile("+tmpl+")", val, stack, cs, "")
		return
	}
	if cerr != nil {
		return // judged by the formula cases
	}
	for i := range bs.kctx {
		if p, val, stack := run.Guard(func() { _ = ckb.BuildKey(bs.kctx[i]) }); p {
			if fp := classify(val, cs.F); fp != "" && c.KnownActive(fp) {
				continue
			}
			r.panicViolation("BuildKey("+tmpl+") with "+bindStr(bs.binds[i]), val, stack, cs, "")
			return
		}
		c.Count("nonnumeric_bindings_survived", 1)
	}
}

// spellings: "no formula or binding crashes": a word in front of a group that is spelled like a function but is not one of the
// documented lower-case names (ABS(x), Sqrt(x), nosuch(x)). Whether it is taken for a variable times a group, for the
// function, or rejected is not judged - compilation and evaluation must return.
func (r *runner) spellings() {
	c := r.c
	if c.Shard != 0 {
		return
	}
	words := []string{"ABS", "Abs", "Sqrt", "SQRT", "Floor", "LOG10", "Log2", "nosuch", "abs2", "sinh", "X", "é"}
	shapes := []string{"%s(x)", "%s(-3)", "1+%s([0])*2", "-%s(x)", "%s(x)(2)", "abs(%s(x))", "%s(abs(x))", "2^%s(4)", "%s (x)", "%s(x)-1"}
	one := []Bind{{Keys: map[string]string{"x": "3"}, Idx: map[string]string{"0": "2"}}, {Keys: map[string]string{"x": "-1.5"}, Idx: map[string]string{"0": "0"}}}
	for _, w := range words {
		for _, sh := range shapes {
			f := fmt.Sprintf(sh, w)
			cs := &Case{Kind: "spelling", F: f, Binds: one}
			c.Begin(cs, 60*time.Second)
			r.spelling(cs)
			c.End()
		}
	}
}

func (r *runner) spelling(cs *Case) {
	c := r.c
	var e stdmath.Expr
	var err error
	if p, val, stack := run.Guard(func() { e, err = stdmath.Compile(cs.F) }); p {
		r.panicViolation("stdmath.Compile", val, stack, cs, "")
		return
	}
	tmpl := "{! " + cs.F + "}"
	var ckb *expressions.CompiledKeyBuilder
	if p, val, stack := run.Guard(func() { ckb, _ = r.kb.Compile(tmpl) }); p {
		r.panicViolation("KeyBuilder.Compile("+tmpl+")", val, stack, cs, "")
		return
	}
	bs := newBindSet(cs.Binds)
	for i := range bs.kctx {
		if err == nil && e != nil {
			m := &mctx{extraIdx: -1, e: bs.envs[i]}
			if p, val, stack := run.Guard(func() { _ = e.Eval(m) }); p {
				r.panicViolation("Eval with "+bindStr(bs.binds[i]), val, stack, cs, "")
				return
			}
		}
		if ckb != nil {
			if p, val, stack := run.Guard(func() { _ = ckb.BuildKey(bs.kctx[i]) }); p {
				r.panicViolation("BuildKey("+tmpl+") with "+bindStr(bs.binds[i]), val, stack, cs, "")
				return
			}
		}
	}
	c.Count("function_like_spellings_survived", 1)
}

// ---------------------------------------------------------------- workloads

func Run(c *run.Ctx) {
	r := &runner{c: c, kb: stdlib.NewStdKeyBuilder()}
	r.kMod, r.kShift, r.kTrail = c.KnownActive(fpMod), c.KnownActive(fpShift), c.KnownActive(fpTrailUnary)
	if c.Replay != nil {
		var cs Case
		if err := json.Unmarshal(c.Replay, &cs); err != nil {
			c.Inconclusive("bad replay: " + err.Error())
			return
		}
		c.Begin(&cs, 120*time.Second)
		switch cs.Kind {
		case "dense":
			r.denseBlock(cs.L, cs.Block)
		case "malformed":
			cs.Pinned = "replay"
			r.malformed(&cs)
		case "nonnumeric":
			r.nonnumeric(&cs)
		case "spelling":
			r.spelling(&cs)
		default:
			cs.Pinned = "replay"
			r.formula(&cs, newBindSet(cs.Binds), opts{kb: true, subst: true})
		}
		c.End()
		return
	}
	if c.Shard == 0 {
		r.pinned()
	}
	r.dense()
	r.random()
	r.malformedRandom()
	r.spellings()
	r.misc()
}

// pinned: the witnesses of the known classes are always executed (they are the
// regression cases once the defects are fixed) plus the documented examples.
func (r *runner) pinned() {
	c := r.c
	b := func(kv ...string) []Bind {
		bd := Bind{Idx: map[string]string{}, Keys: map[string]string{}}
		for i := 0; i+1 < len(kv); i += 2 {
			if _, err := strconv.Atoi(kv[i]); err == nil {
				bd.Idx[kv[i]] = kv[i+1]
			} else {
				bd.Keys[kv[i]] = kv[i+1]
			}
		}
		return []Bind{bd}
	}
	forms := []Case{
		{Kind: "formula", F: "5 % [0]", Binds: b("0", "0"), Pinned: fpMod},
		{Kind: "formula", F: "5 % [0]", Binds: b("0", "3"), Pinned: fpMod},
		{Kind: "formula", F: "5 % 0", Binds: b(), Pinned: fpMod},
		{Kind: "formula", F: "x % 0.5", Binds: b("x", "7"), Pinned: fpMod},
		{Kind: "formula", F: "1 << [0]", Binds: b("0", "-1"), Pinned: fpShift},
		{Kind: "formula", F: "1 >> [0]", Binds: b("0", "-1"), Pinned: fpShift},
		{Kind: "formula", F: "1 << -1", Binds: b(), Pinned: fpShift},
		{Kind: "formula", F: "8 >> (x-1)", Binds: b("x", "3"), Pinned: fpShift},
		// docs/usage/math.md examples (x=4)
		{Kind: "formula", F: "2+2", Binds: b("x", "4"), Pinned: "doc"},
		{Kind: "formula", F: "2 * x", Binds: b("x", "4"), Pinned: "doc"},
		{Kind: "formula", F: "[x] * 4", Binds: b("x", "4"), Pinned: "doc"},
		{Kind: "formula", F: "abs(-4)", Binds: b("x", "4"), Pinned: "doc"},
		{Kind: "formula", F: "(2+2)*3", Binds: b("x", "4"), Pinned: "doc"},
		{Kind: "formula", F: "2(1+1) ", Binds: b("x", "4"), Pinned: "doc"},
		{Kind: "formula", F: "0x1BC + 0b1101 + 123.456", Binds: b("x", "4"), Pinned: "doc"},
	}
	for i := range forms {
		cs := &forms[i]
		c.Begin(cs, 60*time.Second)
		r.formula(cs, newBindSet(cs.Binds), opts{kb: true, subst: true})
		c.Count("pinned_cases", 1)
		c.End()
	}
	// operator contexts of implied multiplication and of 0x literals ending in e/E (a digit string
	// ending in "e" followed by a sign must not be read as an exponent): every binary operator on
	// either side; the reference decides which spellings the statement defines (the rest only
	// serve the "must not crash" clause).
	ctxOps := []string{"+", "-", "*", "/", "^", "%", "<<", ">>", "&", "|", "=", "<", ">", "<=", ">=", "&&", "||"}
	ctxPats := []string{"2(3)%s2", "2%s3(2)", "x(3)%s[0]", "(x)(3)%s2", "[0]%s2(x)", "0x1e%s1", "0xfe%sx", "0xE%s(2)", "3%s0x1e-1", "0x2E%s0b101+1", "x%s0xbe+[0]", "2(0x1e)%s3"}
	for _, pat := range ctxPats {
		for _, op := range ctxOps {
			for _, sp := range []string{"", " "} {
				cs := &Case{Kind: "formula", F: fmt.Sprintf(pat, sp+op+sp), Binds: denseBinds(), Pinned: "ctx"}
				c.Begin(cs, 60*time.Second)
				r.formula(cs, newBindSet(cs.Binds), opts{kb: true, subst: true})
				c.Count("context_cases", 1)
				c.End()
			}
		}
	}
	for _, f := range []string{"-", "2 + -", "(!)", "2*(3/-)", "abs(-)"} {
		cs := &Case{Kind: "malformed", F: f, Pinned: fpTrailUnary}
		c.Begin(cs, 60*time.Second)
		r.malformed(cs)
		c.Count("pinned_cases", 1)
		c.End()
	}
}

var denseValues = [][2]string{{"0", "1"}, {"1", "-2.5"}, {"-2.5", "7"}, {"1e+18", "1e-09"}, {"1e-09", "1e+18"}, {"7", "0"}}

func denseBinds() []Bind {
	var out []Bind
	for _, p := range denseValues {
		out = append(out, Bind{Idx: map[string]string{"0": p[1]}, Keys: map[string]string{"x": p[0]}})
	}
	return out
}

const denseBlockSize = 512

func (r *runner) dense() {
	c := r.c
	L := c.N(6, 7)
	total := 0
	denseEnum(L, func([]string) { total++ })
	blocks := (total + denseBlockSize - 1) / denseBlockSize
	c.Note(fmt.Sprintf("dense: %d token sequences of <= %d tokens in %d blocks", total, L, blocks))
	// one pass over the enumeration per shard; only its own blocks are executed
	r.denseRun(L, func(b int) bool { return c.Mine(b) })
}

func (r *runner) denseBlock(L, block int) {
	r.denseRun(L, func(b int) bool { return b == block })
}

func (r *runner) denseRun(L int, mine func(block int) bool) {
	c := r.c
	binds := denseBinds()
	bs := newBindSet(binds)
	idx := 0
	cur := -1
	open := false
	stop := false
	var sb strings.Builder
	denseEnum(L, func(toks []string) {
		i := idx
		idx++
		if stop {
			return
		}
		b := i / denseBlockSize
		if !mine(b) {
			return
		}
		if b != cur {
			if open && c.Replay == nil {
				c.End()
			}
			cur = b
			if c.Replay == nil {
				c.Begin(&Case{Kind: "dense", Block: b, L: L}, 300*time.Second)
				open = true
			}
		}
		sb.Reset()
		for _, t := range toks {
			sb.WriteString(t)
		}
		cs := &Case{Kind: "formula", F: sb.String(), Binds: binds}
		// the key-builder path is ~3x the cost of the direct one: every formula up
		// to 5 tokens, every 4th beyond (by enumeration index)
		o := opts{kb: len(toks) <= 5 || i%4 == 0, subst: len(toks) <= 6 || i%2 == 0, sample: i == 20011}
		if r.formula(cs, bs, o) {
			c.Evals(len(binds))
			c.Count("dense_formulas", 1)
		}
		if c.Violations() >= 6 {
			stop = true
		}
	})
	if open && c.Replay == nil {
		c.End()
	}
}

// bindText: the text a variable is bound to. Mostly the shortest spelling of a float; one in eight is a plain run of
// digits the way a log carries big counters and ids (15-25 digits, around the sizes of 2^53, MaxInt64 and MaxUint64):
// the same digits written as a constant in the formula must give the same value.
var bigDigitTexts = []string{"9007199254740993", "9223372036854775807", "9223372036854775808", "18446744073709551615", "18446744073709551616",
	"99999999999999999999", "100000000000000000000", "12345678901234567890", "20000000000000000000", "1000000000000000000000000"}

func bindText(r *run.Rand) string {
	if r.Intn(8) != 0 {
		return fstr(randValue(r))
	}
	if r.Intn(2) == 0 {
		return r.Pick(bigDigitTexts)
	}
	n := r.Range(15, 25)
	b := make([]byte, n)
	for i := range b {
		b[i] = byte('0' + r.Intn(10))
	}
	if b[0] == '0' {
		b[0] = '1' + byte(r.Intn(9))
	}
	return string(b)
}

func (r *runner) randomCase(i int) *Case {
	c := r.c
	rr := c.Rand("random", i)
	g := &treeGen{r: rr, nvars: 1 + rr.Intn(4)}
	depth := 1 + rr.Intn(6)
	t := g.tree(depth)
	p := &printer{r: rr, spaces: rr.Intn(3), extra: []int{0, 10, 30}[rr.Intn(3)], ambPerc: 8}
	f := p.top(t)
	nb := 4
	var binds []Bind
	for k := 0; k < nb; k++ {
		bd := Bind{Idx: map[string]string{}, Keys: map[string]string{}}
		for v := 0; v < g.nvars; v++ {
			bd.Idx[strconv.Itoa(v)] = bindText(rr)
		}
		for v := 0; v < g.nvars*2 && v < len(randNames); v++ {
			bd.Keys[randNames[v]] = bindText(rr)
		}
		for _, nm := range boxedOnlyNames {
			bd.Keys[nm] = bindText(rr)
		}
		binds = append(binds, bd)
	}
	cs := &Case{Kind: "formula", F: f, Binds: binds, Quoted: p.spaces == 2 && rr.Intn(2) == 0}
	// printer/parser self-check of the harness (not a verdict on rare)
	if pr, st, _ := parseFormula(f); st == stOK && !pr.amb {
		bs := newBindSet(binds)
		var f1, f2 flags
		a := eval(t, bs.envs[0], &f1)
		b := eval(pr.root, bs.envs[0], &f2)
		if !f1.taint && !f2.taint && !sameFloat(a, b) {
			c.Inconclusive("harness: printed tree and reference parse disagree for " + run.Q(f))
		}
	} else if st != stOK {
		c.Inconclusive("harness: generated formula outside the reference grammar: " + run.Q(f))
	}
	return cs
}

func (r *runner) random() {
	c := r.c
	N := c.N(40000, 1000000)
	for i := 0; i < N; i++ {
		if !c.Mine(i) {
			continue
		}
		cs := r.randomCase(i)
		c.Begin(cs, 60*time.Second)
		if r.formula(cs, newBindSet(cs.Binds), opts{kb: true, subst: true, sample: i < 2}) {
			c.Count("random_formulas", 1)
		}
		c.End()
		if c.Violations() >= 6 {
			return
		}
	}
}

func (r *runner) malformedRandom() {
	c := r.c
	N := c.N(8000, 160000)
	for i := 0; i < N; i++ {
		if !c.Mine(i) {
			continue
		}
		rr := c.Rand("malformed", i)
		var base string
		if rr.Intn(3) == 0 {
			base = rr.Pick([]string{"2", "x", "[0]", "2+3", "(2+3)*x", "abs(x)", "2(3)", "x-1", "(x)", "2^3^2", "1<2&&3>2", "-x", "!x"})
		} else {
			base = r.randomCase(rr.Intn(1 << 30)).F
		}
		f, ok := malform(rr, base, i%malformClasses)
		if !ok {
			continue
		}
		cs := &Case{Kind: "malformed", F: f}
		c.Begin(cs, 60*time.Second)
		r.malformed(cs)
		c.End()
		if c.Violations() >= 6 {
			return
		}
	}
}

// misc: non-numeric bindings and deep / long formulas (no crash, no hang).
func (r *runner) misc() {
	c := r.c
	N := c.N(1500, 20000)
	junk := []string{"", "abc", "1e", "0x", "--1", " 1", "1 ", "1,5", "\x00", "١٢", "1_0", "+", "NaN", "Inf", "-Inf", "1e400", "0x1p-2"}
	for i := 0; i < N; i++ {
		if !c.Mine(i) {
			continue
		}
		cs := r.randomCase(1<<30 + i)
		rr := c.Rand("nonnumeric", i)
		for k := range cs.Binds {
			for _, key := range sortedKeys(cs.Binds[k].Idx) {
				if rr.Intn(2) == 0 {
					cs.Binds[k].Idx[key] = rr.Pick(junk)
				}
			}
			for _, key := range sortedKeys(cs.Binds[k].Keys) {
				if rr.Intn(2) == 0 {
					cs.Binds[k].Keys[key] = rr.Pick(junk)
				}
			}
		}
		cs.Kind = "nonnumeric"
		c.Begin(cs, 60*time.Second)
		r.nonnumeric(cs)
		c.End()
	}
	if c.Shard != 0 {
		return
	}
	depth := c.Pick(300, 3000) // a bound, not a count: the formulas stay below 64 KiB
	one := []Bind{{Keys: map[string]string{"x": "3"}, Idx: map[string]string{"0": "2"}}}
	deep := strings.Repeat("(", depth) + "x+1" + strings.Repeat(")*2", depth)
	long := "x" + strings.Repeat("+[0]*2-1", depth)
	unary := strings.Repeat("abs(-", depth) + "x" + strings.Repeat(")", depth)
	for _, f := range []string{deep, long, unary} {
		cs := &Case{Kind: "formula", F: f, Binds: one}
		c.Begin(cs, 120*time.Second)
		r.formula(cs, newBindSet(one), opts{kb: true, subst: true})
		c.Count("deep_or_long_formulas", 1)
		c.End()
	}
}

func sortedKeys(m map[string]string) []string {
	ks := make([]string, 0, len(m))
	for k := range m {
		ks = append(ks, k)
	}
	sort.Strings(ks)
	return ks
}
