// Package p05 decides C05: the pipeline is race-free, renders atomically and
// ends with a complete render.
//
// Monitors (DESIGN 4/C05):
//
//	(a) Go race detector: this package is run from the -race build of vh and it
//	    drives the -race build of the CLI; the orchestrator counts report blocks.
//	(b) sample/render exclusion: Sample and the render callback are bracketed
//	    with monotonic-clock stamps kept in per-role logs (no shared locks or
//	    atomics between sampler and renderer, so the monitor adds no
//	    happens-before edge that would hide a race from (a)); overlap is
//	    decided offline.
//	(c) offline event-log checker: completeness of the final render, nothing
//	    after it, monotone snapshots.
//	(d) termination with stuck-state evidence.
//	(e) porcupine over object-pool histories (thorough).
package p05

import (
	"bytes"
	"encoding/json"
	"fmt"
	"os"
	"os/exec"
	"path/filepath"
	"regexp"
	"runtime"
	"sort"
	"strconv"
	"strings"
	"sync"
	"sync/atomic"
	"syscall"
	"time"

	"rare/cmd/helpers"
	"rare/pkg/aggregation"
	"rare/pkg/aggregation/sorting"
	"rare/pkg/extractor"
	"rare/pkg/extractor/batchers"
	"rare/pkg/multiterm"
	"rare/pkg/multiterm/termrenderers"
	"rare/pkg/verifhook"

	"verifharness/internal/pipe"
	"verifharness/internal/reg"
	"verifharness/internal/run"
)

func init() { reg.Register("C05", Run) }

type Case struct {
	Kind  string `json:"kind"` // loop | cli | cli-follow | exprs | pool
	Index int    `json:"index"`
	Seed  uint64 `json:"seed"`
	Tier  string `json:"tier"`
	Rep   int    `json:"rep,omitempty"`
}

// ---------------------------------------------------------------- corpus

var keyPool = []string{"k0", "k1", "k2", "k3", "k4", "k5", "k6", "k7", "long-key-with-many-characters", "é日"}

const loopExtract = `{if {neq {3} E} {4}}`

func genLoop(r *run.Rand, big bool) *pipe.Workload {
	w := &pipe.Workload{Scenario: "loop", Matcher: pipe.MatcherSpec{Kind: "regex", Pattern: pipe.StructuredRegex},
		Extract: loopExtract, Ignore: append([]string(nil), pipe.StructuredIgnore...), Seed: r.U64()}
	nIn := r.Range(1, 12)
	for i := 0; i < nIn; i++ {
		var data []byte
		nLines := r.Range(0, 1500)
		if big {
			nLines = r.Range(500, 6000)
		}
		for n := 1; n <= nLines; n++ {
			class := "MMMMMMMEIJWWUU"[r.Intn(14)]
			data = append(data, fmt.Sprintf("f%d:%d:%c:%s\n", i, n, class, keyPool[r.Intn(len(keyPool))])...)
		}
		w.Inputs = append(w.Inputs, pipe.Input{Name: fmt.Sprintf("f%d", i), Data: data})
	}
	w.Cfg = pipe.GenConfig(r, false)
	if r.Intn(3) == 0 {
		// a matcher whose instances keep state of their own (dissect carves its results out of a per-instance pool): every
		// worker must have its own instance. Class U lines match here too and end with an empty key.
		w.Matcher = pipe.MatcherSpec{Kind: "dissect", Pattern: "%{f}:%{n}:%{c}:%{k}"}
		w.Extract = `{if {and {neq {3} E} {neq {3} U}} {4}}`
	}
	return w
}

// ---------------------------------------------------------------- loop monitor

type span struct{ a, b int64 } // monotonic nanoseconds

type renderEv struct {
	span
	counts  map[string]int64
	matched uint64
	total   int64
}

type loopMon struct {
	t0      time.Time
	samples []span // written by the aggregation goroutine only
	rmu     sync.Mutex
	renders []renderEv
	// returned is stamped after RunAggregationLoop returns
	returned int64
	// first point between two sample batches at which the matched total was below the matches already sampled
	lagAt                  int64
	lagMatched, lagSampled uint64
	batchPoints            int
}

func (m *loopMon) now() int64 { return int64(time.Since(m.t0)) }

type monAgg struct {
	inner *aggregation.MatchCounter
	m     *loopMon
	slow  time.Duration // a slow aggregator: every sample takes this long (inside the loop's critical section, where Sample runs)
}

func (a *monAgg) Sample(s string) {
	t := a.m.now()
	if a.slow > 0 {
		time.Sleep(a.slow)
	}
	a.inner.Sample(s)
	a.m.samples = append(a.m.samples, span{t, a.m.now()})
}
func (a *monAgg) ParseErrors() uint64 { return a.inner.ParseErrors() }

type loopObs struct {
	mon       *loopMon
	timedOut  bool
	panicked  string
	hookHits  map[string]int64
	finalVT   []string
	readErrs  int
	lingered  bool
	statusLen int
	slowAgg   bool
}

func runLoop(w *pipe.Workload, dir string, stretchMs int, linger bool, limit time.Duration) *loopObs {
	o := &loopObs{mon: &loopMon{t0: time.Now()}, lingered: linger}
	prev := runtime.GOMAXPROCS(0)
	if w.Cfg.GoMaxProcs > 0 {
		runtime.GOMAXPROCS(w.Cfg.GoMaxProcs)
	}
	defer runtime.GOMAXPROCS(prev)
	verifhook.Reset()
	defer verifhook.Reset()
	// the periodic renderer only runs for live output; keep it running here (verif-only hook)
	helpers.VerifSetLiveOutput(true)

	// stretch the run over several 100 ms render ticks with sleeps between
	// critical sections (before a batch is sent, before a match batch is sent)
	totalLines := 0
	for _, in := range w.Inputs {
		totalLines += bytes.Count(in.Data, []byte("\n"))
	}
	nb := totalLines/w.Cfg.Batch + len(w.Inputs) + 1
	readers := w.Cfg.Readers
	if readers > len(w.Inputs) && len(w.Inputs) > 0 {
		readers = len(w.Inputs)
	}
	per := time.Duration(stretchMs) * time.Millisecond * time.Duration(readers) / time.Duration(nb)
	if per > 40*time.Millisecond {
		per = 40 * time.Millisecond
	}
	// one run in four: the aggregator is the slow stage instead (readers and workers run freely, the match queue is
	// never empty, input ends while the loop is still sampling); the run is stretched by the samples themselves
	var slowSample time.Duration
	if run.NewRand(w.Seed, "slowagg").Intn(4) == 0 {
		matches := totalLines/2 + 1
		slowSample = time.Duration(stretchMs) * time.Millisecond / time.Duration(matches)
		if slowSample > 2*time.Millisecond {
			slowSample = 2 * time.Millisecond
		}
		per = 0
		o.slowAgg = true
	}
	var ctr atomic.Int64
	if per > 20*time.Microsecond {
		f := func() {
			n := ctr.Add(1)
			rr := run.NewRand(w.Seed, "stretch", int(n))
			time.Sleep(per/2 + time.Duration(rr.Intn(int(per)+1)))
		}
		verifhook.Set("batch.beforeSend", f)
		verifhook.Set("batch.beforeSendLast", f)
	}
	rs := run.NewRand(w.Seed, "sched")
	var afterBatchDelay func()
	slp := func(maxUs int) func() {
		var c2 atomic.Int64
		return func() {
			n := c2.Add(1)
			rr := run.NewRand(w.Seed, "hook", maxUs, int(n))
			if rr.Intn(3) == 0 {
				runtime.Gosched()
			} else {
				time.Sleep(time.Duration(rr.Intn(maxUs)+1) * time.Microsecond)
			}
		}
	}
	switch rs.Intn(5) {
	case 0:
		verifhook.Set("worker.beforeSend", slp(300))
	case 1:
		afterBatchDelay = slp(400)
		verifhook.Set("worker.afterRecv", slp(200))
	case 2:
		verifhook.Set("files.beforeClose", slp(30000))
		verifhook.Set("worker.beforeCloseOut", slp(30000))
	case 3:
		verifhook.Set("agg.beforeDone", slp(120000))
		verifhook.Set("agg.beforeFinalRender", slp(120000))
	}
	if rs.Intn(3) == 0 {
		d := []int{5, 40, 120, 250}[rs.Intn(4)]
		var once atomic.Int64
		verifhook.Set("files.afterSourceCount", func() {
			if once.Add(1) <= 2 {
				time.Sleep(time.Duration(d) * time.Millisecond)
			}
		})
	}

	done := make(chan struct{})
	var fatal atomic.Value
	go func() {
		defer close(done)
		defer func() {
			if r := recover(); r != nil {
				fatal.Store(fmt.Sprintf("panic in aggregation goroutine: %v", r))
			}
		}()
		paths, err := pipe.Materialise(w, dir)
		if err != nil {
			fatal.Store("materialise: " + err.Error())
			return
		}
		names := make(chan string)
		go func() {
			for _, p := range paths {
				names <- p
			}
			close(names)
		}()
		b := batchers.OpenFilesToChan(names, false, w.Cfg.Readers, w.Cfg.Batch, w.Cfg.Buffer)
		fac, err := pipe.BuildFactory(w.Matcher)
		if err != nil {
			fatal.Store("matcher: " + err.Error())
			return
		}
		ign, err := extractor.NewIgnoreExpressions(w.Ignore...)
		if err != nil {
			fatal.Store("ignore: " + err.Error())
			return
		}
		ext, err := extractor.New(b.BatchChan(), &extractor.Config{Matcher: fac, Extract: w.Extract, Workers: w.Cfg.Workers, Ignore: ign})
		if err != nil {
			fatal.Store("extract: " + err.Error())
			return
		}
		counter := aggregation.NewCounter()
		vt := multiterm.NewVirtualTerm()
		writer := termrenderers.NewHistogram(vt, 5)
		writer.ShowBar, writer.ShowPercentage = true, true
		sorter := sorting.NVValueSorter
		mon := o.mon
		// Between two sample batches the renderer may take the lock: whatever is
		// visible here is what a render at this instant would show.
		verifhook.Set("agg.afterSampleBatch", func() {
			if got, sampled := ext.MatchedLines(), uint64(len(mon.samples)); got < sampled && mon.lagAt == 0 {
				mon.lagAt, mon.lagMatched, mon.lagSampled = mon.now(), got, sampled
			}
			mon.batchPoints++
			if afterBatchDelay != nil {
				afterBatchDelay()
			}
		})
		helpers.RunAggregationLoop(ext, &monAgg{inner: counter, m: mon, slow: slowSample}, func() {
			t := mon.now()
			// what the real histogram command does in its render callback
			items := counter.ItemsSortedBy(5, sorter)
			writer.UpdateTotal(counter.Total())
			for i, it := range items {
				writer.WriteForLine(i, it.Name, it.Item.Count())
			}
			writer.WriteFooter(0, helpers.FWriteExtractorSummary(ext, counter.ParseErrors(), fmt.Sprintf("(Groups: %d)", counter.GroupCount())))
			st := b.StatusString()
			writer.WriteFooter(1, st)
			// snapshot for the offline checker
			ev := renderEv{counts: map[string]int64{}, matched: ext.MatchedLines(), total: counter.Total()}
			for _, it := range counter.Items() {
				ev.counts[it.Name] = it.Item.Count()
			}
			ev.a, ev.b = t, mon.now()
			mon.rmu.Lock()
			mon.renders = append(mon.renders, ev)
			o.statusLen += len(st)
			mon.rmu.Unlock()
		})
		mon.returned = mon.now()
		if linger {
			time.Sleep(230 * time.Millisecond) // > 2 ticker periods: a ticker that was not stopped renders again
		}
		writer.Close()
		o.readErrs = b.ReadErrors()
		for i := 0; i < vt.LineCount(); i++ {
			o.finalVT = append(o.finalVT, vt.Get(i))
		}
	}()
	select {
	case <-done:
	case <-time.After(limit):
		o.timedOut = true
		return o
	}
	if v := fatal.Load(); v != nil {
		o.panicked = v.(string)
	}
	o.hookHits = verifhook.Hits()
	return o
}

type finding struct{ class, msg string }

// judge is the offline checker over the recorded spans and snapshots.
func judge(o *loopObs, want map[string]int64, wantMatched uint64) (fs []finding, between int, sig string) {
	add := func(c, f string, a ...any) {
		if len(fs) < 8 {
			fs = append(fs, finding{c, fmt.Sprintf(f, a...)})
		}
	}
	m := o.mon
	if o.panicked != "" {
		add("panic", "%s", o.panicked)
		return
	}
	m.rmu.Lock()
	renders := append([]renderEv(nil), m.renders...)
	m.rmu.Unlock()
	sort.Slice(renders, func(i, j int) bool { return renders[i].a < renders[j].a })
	if len(renders) == 0 {
		add("no-final-render", "RunAggregationLoop returned without a single render")
		return
	}
	// (b) exclusion: no sample span overlaps a render span
	samples := m.samples // already time ordered (single goroutine)
	for ri, r := range renders {
		i := sort.Search(len(samples), func(i int) bool { return samples[i].b > r.a })
		if i < len(samples) && samples[i].a < r.b {
			add("sample-during-render", "render #%d ran from %dns to %dns while sample #%d ran from %dns to %dns (overlap)", ri, r.a, r.b, i, samples[i].a, samples[i].b)
			break
		}
	}
	for i := 1; i < len(renders); i++ {
		if renders[i].a < renders[i-1].b {
			add("renders-overlap", "render #%d started at %dns before render #%d ended at %dns", i, renders[i].a, i-1, renders[i-1].b)
			break
		}
	}
	if m.lagAt != 0 {
		add("matched-below-counts", "between two sample batches (at %dns, where the renderer may run) the matched total was %d although %d matches had already been sampled into the displayed counts", m.lagAt, m.lagMatched, m.lagSampled)
	}
	// (c) ordering and completeness
	final := renders[len(renders)-1]
	if len(samples) > 0 && samples[len(samples)-1].b > final.a {
		add("sample-after-final-render", "the last sample ended at %dns, after the last render started at %dns", samples[len(samples)-1].b, final.a)
	}
	if final.b > m.returned && m.returned > 0 {
		add("render-after-return", "a render ended at %dns, after RunAggregationLoop returned at %dns (the ticker was not stopped)", final.b, m.returned)
	}
	for _, r := range renders {
		if r.a > m.returned && m.returned > 0 {
			add("render-after-return", "a render started at %dns, after RunAggregationLoop returned at %dns", r.a, m.returned)
			break
		}
	}
	// the final render is the last one that started before the loop returned
	fi := len(renders) - 1
	for fi > 0 && m.returned > 0 && renders[fi].a > m.returned {
		fi--
	}
	final = renders[fi]
	if !equalCounts(final.counts, want) {
		add("final-render-incomplete", "the final render shows %s; the reference aggregation of the whole input is %s", showCounts(final.counts), showCounts(want))
	}
	if final.matched != wantMatched {
		add("final-matched", "the final render shows matched=%d, true matched count %d", final.matched, wantMatched)
	}
	for ri, r := range renders[:fi] {
		var sum int64
		for k, v := range r.counts {
			sum += v
			if v > want[k] {
				add("snapshot-exceeds-final", "intermediate render #%d shows %s=%d, above the final count %d", ri, k, v, want[k])
				break
			}
		}
		if int64(r.matched) < sum {
			add("matched-below-counts", "intermediate render #%d shows matched=%d below the sum of displayed counts %d", ri, r.matched, sum)
		}
		if sum != r.total {
			add("total-vs-counts", "intermediate render #%d: Total()=%d but per-key counts sum to %d", ri, r.total, sum)
		}
	}
	// evidence: renders with samples before and after; interleaving signature
	var oh run.OrderHash
	si := 0
	for ri, r := range renders {
		n := 0
		for si < len(samples) && samples[si].b <= r.a {
			si++
			n++
		}
		oh.Add(uint64(n))
		if ri < fi && si > 0 && si < len(samples) {
			between++
		}
	}
	sig = oh.Hex()
	return
}

func equalCounts(a, b map[string]int64) bool {
	if len(a) != len(b) {
		return false
	}
	for k, v := range a {
		if b[k] != v {
			return false
		}
	}
	return true
}

func showCounts(m map[string]int64) string {
	var ks []string
	for k := range m {
		ks = append(ks, k)
	}
	sort.Strings(ks)
	var sb strings.Builder
	for _, k := range ks {
		fmt.Fprintf(&sb, "%s=%d ", k, m[k])
	}
	return "{" + strings.TrimSpace(sb.String()) + "}"
}

// ---------------------------------------------------------------- Run

func Run(c *run.Ctx) {
	if c.Replay != nil {
		var cs Case
		if json.Unmarshal(c.Replay, &cs) == nil && cs.Kind != "" {
			one(c, cs)
		}
		return
	}
	type plan struct {
		kind string
		n    int
	}
	plans := []plan{{"loop", c.N(64, 640)}, {"cli", c.N(40, 400)}, {"cli-follow", c.N(6, 40)}, {"exprs", c.N(6, 40)}, {"logger", c.N(6, 40)}}
	if c.Thorough() {
		plans = append(plans, plan{"pool", 200})
	}
	idx := 0
	for _, p := range plans {
		for i := 0; i < p.n; i++ {
			if c.Mine(idx) {
				if !one(c, Case{Kind: p.kind, Index: i, Seed: c.Seed, Tier: c.Tier}) {
					return
				}
			}
			idx++
		}
		c.Checkpoint()
	}
}

func one(c *run.Ctx, cs Case) bool {
	switch cs.Kind {
	case "loop":
		return loopCase(c, cs)
	case "cli":
		cliCase(c, cs)
	case "cli-follow":
		cliFollow(c, cs)
	case "exprs":
		exprCase(c, cs)
	case "logger":
		loggerCase(c, cs)
	case "pool":
		poolCase(c, cs)
	}
	return true
}

func loopCase(c *run.Ctx, cs Case) bool {
	r := run.NewRand(cs.Seed, "C05", "loop", cs.Index)
	w := genLoop(r, cs.Index%5 == 0)
	stretch := []int{250, 450, 700, 1100}[r.Intn(4)]
	linger := cs.Index%3 == 0
	c.Begin(cs, 240*time.Second)
	defer c.End()
	dir := filepath.Join(c.WorkDir, "loop")
	os.RemoveAll(dir)
	os.MkdirAll(dir, 0o755)
	defer os.RemoveAll(dir)
	truth, err := pipe.Reference(w, dir)
	if err != nil {
		c.Inconclusive("reference: " + err.Error())
		return true
	}
	want := map[string]int64{}
	var wantMatched uint64
	for _, t := range truth {
		if t.Class == 'M' {
			want[t.Key]++
			wantMatched++
		}
	}
	o := runLoop(w, dir, stretch, linger, 150*time.Second)
	if o.timedOut {
		stuck, text := pipe.StuckEvidence()
		if stuck {
			c.Violation("no-termination:"+w.Cfg.String(), "input exhausted but the aggregation loop never returned; every rare goroutine is blocked with identical stacks in two dumps 2 s apart:\n"+text, cs)
		} else {
			c.Inconclusive("aggregation loop exceeded 150 s without stuck-state evidence: " + w.Cfg.String())
		}
		return false
	}
	fs, between, sig := judge(o, want, wantMatched)
	for _, f := range fs {
		c.Violation(f.class+":"+w.Cfg.String(), fmt.Sprintf("%s [config %s, %d inputs, %d lines, stretch %dms, linger %v]", f.msg, w.Cfg.String(), len(w.Inputs), len(truth), stretch, linger), cs)
	}
	if o.readErrs != 0 {
		c.Violation("read-errors:"+w.Cfg.String(), fmt.Sprintf("%d read errors on readable inputs", o.readErrs), cs)
	}
	c.Count("loop_runs", 1)
	if o.slowAgg {
		c.Count("loop_runs_with_a_slow_aggregator", 1)
	}
	c.Count("sample_events", int64(len(o.mon.samples)))
	c.Count("render_events", int64(len(o.mon.renders)))
	c.Count("between_batch_points_checked", int64(o.mon.batchPoints))
	c.Count("intermediate_renders_between_samples", int64(between))
	for k, v := range o.hookHits {
		c.Count("hook:"+k, v)
	}
	c.SetAdd("configs", w.Cfg.String())
	c.SetAdd("interleavings", sig)
	if between >= 1 {
		c.Nontrivial("loop", strconv.Itoa(cs.Index), w.Cfg.String(), sig)
	}
	if cs.Index < 3 {
		c.Sample(map[string]any{"kind": "loop", "config": w.Cfg.String(), "inputs": len(w.Inputs), "lines": len(truth), "samples": len(o.mon.samples),
			"renders": len(o.mon.renders), "renders_between_samples": between, "interleaving": sig})
	}
	return true
}

// ---------------------------------------------------------------- CLI under the race detector

var cliCommands = [][]string{
	{"histo", "-e", "{4}", "-x"},
	{"histo", "-e", "{4}", "-e", "{2}", "--sort", "text"},
	{"table", "-e", "{4}", "-e", "{3}", "--extra"},
	{"heatmap", "-e", "{4}", "-e", "{3}"},
	{"spark", "-e", "{4}", "-e", "{3}", "--notruncate"},
	{"bars", "-e", "{3}", "-e", "{4}", "-s"},
	{"bars", "-e", "{3}", "-e", "{4}"},
	{"analyze", "-e", "{2}", "-x"},
	{"reduce", "-g", "k={4}", "-a", "total={sumi {.} {2}}", "-a", "n={sumi {.} 1}"},
	{"filter", "-e", "{src}:{line}:{4}"},
	{"histo", "-e", "{4}", "-x"},
	{"histo", "-e", "{4}", "-x"},
}

func cliCase(c *run.Ctx, cs Case) {
	bin := c.RareRace
	if bin == "" {
		bin = c.RareBin
	}
	if bin == "" {
		c.Inconclusive("no rare binary for the CLI sub-check")
		return
	}
	r := run.NewRand(cs.Seed, "C05", "cli", cs.Index)
	w := genLoop(r, true)
	// 8..40 files
	for len(w.Inputs) < 8+r.Intn(32) {
		src := w.Inputs[r.Intn(len(w.Inputs))]
		w.Inputs = append(w.Inputs, pipe.Input{Name: fmt.Sprintf("g%d", len(w.Inputs)), Data: src.Data})
	}
	c.Begin(cs, 300*time.Second)
	defer c.End()
	dir := filepath.Join(c.WorkDir, "cli")
	os.RemoveAll(dir)
	os.MkdirAll(dir, 0o755)
	defer os.RemoveAll(dir)
	paths, err := pipe.Materialise(w, dir)
	if err != nil {
		c.Inconclusive("materialise: " + err.Error())
		return
	}
	command := cliCommands[cs.Index%len(cliCommands)]
	args := []string{"--nocolor"}
	if w.Matcher.Kind == "dissect" {
		args = append(args, command[0], "-d", w.Matcher.Pattern)
		c.Count("cli_runs_with_dissect_matcher", 1)
	} else {
		args = append(args, command[0], "-m", pipe.StructuredRegex)
	}
	args = append(args, command[1:]...)
	readers, workers, batch := 1+r.Intn(8), 1+r.Intn(16), 1+r.Intn(50)
	args = append(args, "-i", "{eq {3} I}", "-i", "{eq {3} J}", "--readers", strconv.Itoa(readers), "--workers", strconv.Itoa(workers), "--batch", strconv.Itoa(batch))
	unreadable := r.Intn(3) == 0
	// interrupted runs: SIGINT while readers are still opening files (half of them cannot be opened, so reader
	// goroutines keep writing to the deferred log) and the main goroutine flushes the log and renders for the last time
	interrupt := cs.Index%5 == 4 && command[0] != "filter"
	files := append([]string(nil), paths...)
	if interrupt {
		unreadable = false
		readers = 1 + r.Intn(2)
		args[len(args)-5] = strconv.Itoa(readers) // the value after --readers
		// one good file, then a long run of paths that cannot be opened (one reader slot steps through them,
		// logging each, while the other is busy with the good file), then the rest
		var mixed []string
		mixed = append(mixed, files[:min(1, len(files))]...)
		for j := 0; j < 300; j++ {
			mixed = append(mixed, filepath.Join(dir, fmt.Sprintf("gone-%d", j)))
		}
		mixed = append(mixed, files[min(1, len(files)):]...)
		files = mixed
		if readers < 2 {
			readers = 2
			args[len(args)-5] = "2"
		}
		c.Count("cli_interrupted_runs", 1)
	}
	if unreadable {
		// 1, --readers or --readers+1 paths that cannot be opened, anywhere in the argument list (also all in
		// front): every failed open must give its reader slot back, or the inputs behind them are never read
		k := []int{1, readers, readers + 1}[r.Intn(3)]
		for j := 0; j < k; j++ {
			at := 0
			if r.Intn(3) > 0 {
				at = r.Intn(len(files) + 1)
			}
			files = append(files[:at:at], append([]string{filepath.Join(dir, fmt.Sprintf("does-not-exist-%d", j))}, files[at:]...)...)
		}
		c.Count("cli_unopenable_paths", int64(k))
	}
	args = append(args, files...)
	// stretch the run over 0.4-1.5 s (several 100 ms render ticks); sleeps sit between critical sections
	lines := 0
	for _, in := range w.Inputs {
		lines += bytes.Count(in.Data, []byte("\n"))
	}
	nb := lines/batch + len(w.Inputs)
	targetUs := (400 + r.Intn(1100)) * 1000
	perUs := targetUs * min(readers, len(w.Inputs)) / nb * 2 // p0.5
	if perUs < 1 {
		perUs = 1
	}
	sc := []int{5, 40, 120, 250}[r.Intn(4)]
	points := fmt.Sprintf("batch.beforeSend=sleep:%dus:p0.5,worker.beforeSend=sleep:%dus:p0.3,files.afterSourceCount=sleep:%dms:n3,files.beforeClose=sleep:2ms,worker.beforeCloseOut=sleep:2ms",
		perUs, 1+perUs/4, sc)
	if !interrupt && cs.Index%2 == 0 {
		// the aggregation loop as the slow stage: the workers count their matches and then wait for the loop, so render
		// ticks fall between "counted" and "sampled", also for the last batches
		points = fmt.Sprintf("agg.afterSampleBatch=sleep:%dus,files.afterSourceCount=sleep:%dms:n3", max(200, targetUs/nb), sc)
		c.Count("cli_runs_with_a_slow_aggregation_loop", 1)
	}
	if interrupt {
		// keep the main goroutine between its last receive and the log flush for a while: what the reader
		// goroutines log in that window is ordered with the flush only by the logger's own lock
		points = fmt.Sprintf("batch.beforeSend=sleep:%dus:p0.5,worker.beforeSend=sleep:%dus:p0.3,files.afterSourceCount=sleep:4ms,agg.beforeFinalRender=sleep:400ms", perUs, 1+perUs/4)
	}
	cmd := exec.Command(bin, args...)
	cmd.Env = append(os.Environ(), "VERIF_POINTS="+points, "VERIF_SEED="+strconv.FormatUint(cs.Seed+uint64(cs.Index), 10), "VERIF_LIVE_OUTPUT=1")
	var stdout, stderr bytes.Buffer
	cmd.Stdout, cmd.Stderr = &stdout, &stderr
	if err := cmd.Start(); err != nil {
		c.Inconclusive("cannot start rare: " + err.Error())
		return
	}
	done := make(chan error, 1)
	go func() { done <- cmd.Wait() }()
	if interrupt {
		go func() {
			time.Sleep(time.Duration(150+r.Intn(400)) * time.Millisecond) // shapes the schedule only
			cmd.Process.Signal(syscall.SIGINT)
		}()
	}
	var werr error
	select {
	case werr = <-done:
	case <-time.After(90 * time.Second):
		cmd.Process.Signal(syscall.SIGQUIT)
		select {
		case <-done:
		case <-time.After(10 * time.Second):
			cmd.Process.Kill()
			<-done
		}
		dump := stderr.String()
		if stuckDump(dump) {
			c.Violation("cli-no-termination:"+command[0], fmt.Sprintf("rare %s did not end 90 s after its input was fully available; every rare goroutine in the SIGQUIT dump is blocked on a channel or lock:\n%s", command[0], tailStr(dump, 4000)), cs)
		} else {
			c.Inconclusive("rare " + command[0] + " exceeded 90 s without stuck-state evidence")
		}
		return
	}
	code := 0
	if ee, ok := werr.(*exec.ExitError); ok {
		code = ee.ExitCode()
	}
	es := stderr.String()
	if strings.Contains(es, "panic:") || strings.Contains(es, "fatal error:") {
		c.Violation("cli-crash:"+command[0], fmt.Sprintf("rare %s crashed: %s [args %q points %q]", command[0], tailStr(es, 2500), args[:len(args)-len(files)], points), cs)
		return
	}
	wantCode := 0
	if unreadable {
		wantCode = 2
	}
	if interrupt {
		// what an interrupted run exits with is not part of the statement: only races, crashes and hangs are judged
		c.Count("cli_race_runs", 1)
		c.SetAdd("cli_commands", command[0])
		return
	}
	if code != wantCode && code != 66 { // 66 = race detector's exit status, reports are read from the logs
		c.Violation("cli-exit:"+command[0], fmt.Sprintf("rare %s exit status %d, expected %d; stderr tail %s", command[0], code, wantCode, run.Q(tailStr(es, 400))), cs)
	}
	if command[0] == "histo" && len(command) == 4 && command[3] == "-x" && w.Matcher.Kind != "dissect" {
		// "the final render happens after the last match was sampled, so final output reflects all matches" - through
		// the command's own render callback: the histogram printed at the end (periodic renders were on all along:
		// VERIF_LIVE_OUTPUT) shows, for every key on it, the count of the whole input, and the summary the whole input's totals
		if msg := judgeFinalHisto(w, stdout.String()); msg != "" {
			c.Violation("cli-final-output:"+command[0], fmt.Sprintf("rare %s: %s [args %q points %q]\nfinal output:\n%s", command[0], msg, args[:len(args)-len(files)], points, tailStr(stdout.String(), 1500)), cs)
		} else {
			c.Count("cli_final_histograms_judged", 1)
		}
	}
	c.Count("cli_race_runs", 1)
	c.SetAdd("cli_commands", command[0])
	c.Nontrivial("cli", strconv.Itoa(cs.Index), strings.Join(args[:len(args)-len(files)], " "), points)
	if cs.Index < 2 {
		c.Sample(map[string]any{"kind": "cli", "args": args[:len(args)-len(files)], "files": len(files), "points": points, "exit": code})
	}
}

func stuckDump(dump string) bool {
	n := 0
	for _, g := range strings.Split(dump, "\n\n") {
		if !strings.Contains(g, "rare/") || !strings.HasPrefix(strings.TrimSpace(g), "goroutine ") {
			continue
		}
		n++
		hdr := g[:strings.Index(g+"\n", "\n")]
		ok := false
		for _, st := range []string{"[chan send", "[chan receive", "[select", "[semacquire", "[sync."} {
			if strings.Contains(hdr, st) {
				ok = true
			}
		}
		if !ok {
			return false
		}
	}
	return n > 0
}

// cliFollow: -f on files that grow while the race-instrumented binary follows them; ended by SIGINT.
func cliFollow(c *run.Ctx, cs Case) {
	bin := c.RareRace
	if bin == "" {
		bin = c.RareBin
	}
	if bin == "" {
		return
	}
	r := run.NewRand(cs.Seed, "C05", "follow", cs.Index)
	c.Begin(cs, 120*time.Second)
	defer c.End()
	dir := filepath.Join(c.WorkDir, "follow")
	os.RemoveAll(dir)
	os.MkdirAll(dir, 0o755)
	defer os.RemoveAll(dir)
	nf := 1 + r.Intn(4)
	var paths []string
	for i := 0; i < nf; i++ {
		p := filepath.Join(dir, fmt.Sprintf("t%d.log", i))
		os.WriteFile(p, []byte(fmt.Sprintf("t%d:0:M:k0\n", i)), 0o644)
		paths = append(paths, p)
	}
	args := []string{"--nocolor", "histo", "-m", pipe.StructuredRegex, "-e", "{4}", "-f", "--batch", strconv.Itoa(1 + r.Intn(5))}
	if r.Intn(2) == 0 {
		args = append(args, "--poll")
	}
	args = append(args, paths...)
	cmd := exec.Command(bin, args...)
	cmd.Env = append(os.Environ(), "VERIF_LIVE_OUTPUT=1")
	var stdout, stderr bytes.Buffer
	cmd.Stdout, cmd.Stderr = &stdout, &stderr
	if err := cmd.Start(); err != nil {
		c.Inconclusive("cannot start rare: " + err.Error())
		return
	}
	done := make(chan error, 1)
	go func() { done <- cmd.Wait() }()
	for step := 1; step <= 25; step++ {
		for i, p := range paths {
			f, err := os.OpenFile(p, os.O_APPEND|os.O_WRONLY, 0o644)
			if err == nil {
				fmt.Fprintf(f, "t%d:%d:M:%s\n", i, step, keyPool[r.Intn(4)])
				f.Close()
			}
		}
		time.Sleep(time.Duration(10+r.Intn(40)) * time.Millisecond)
	}
	cmd.Process.Signal(os.Interrupt)
	select {
	case <-done:
	case <-time.After(30 * time.Second):
		cmd.Process.Signal(syscall.SIGQUIT)
		select {
		case <-done:
		case <-time.After(10 * time.Second):
			cmd.Process.Kill()
			<-done
		}
		c.Inconclusive("rare histo -f did not exit within 30 s of SIGINT")
		return
	}
	es := stderr.String()
	if strings.Contains(es, "panic:") || strings.Contains(es, "fatal error:") {
		c.Violation("cli-follow-crash", fmt.Sprintf("rare histo -f crashed: %s [args %q]", tailStr(es, 2500), args[:len(args)-len(paths)]), cs)
		return
	}
	c.Count("cli_follow_runs", 1)
}

func tailStr(s string, n int) string {
	if len(s) > n {
		return s[len(s)-n:]
	}
	return s
}

// judgeFinalHisto: `histo -e {4} -x` with the structured regex and the ignore rules I and J over a loop corpus: the
// key of a line f:n:class:key is its last field; classes M, E and W are matched, I and J ignored, U does not match.
func judgeFinalHisto(w *pipe.Workload, out string) string {
	want := map[string]int64{}
	var matched, read, ignored int64
	for _, in := range w.Inputs {
		for _, ln := range bytes.Split(in.Data, []byte("\n")) {
			if len(ln) == 0 {
				continue
			}
			read++
			f := strings.SplitN(string(ln), ":", 4)
			if len(f) != 4 || len(f[2]) != 1 {
				continue
			}
			switch f[2] {
			case "I", "J":
				ignored++
			case "M", "E", "W":
				if f[3] == "" {
					ignored++ // empty key
				} else {
					want[f[3]]++
					matched++
				}
			}
		}
	}
	lines := strings.Split(strings.TrimRight(out, "\n"), "\n")
	shown := 0
	sawSummary := false
	for _, ln := range lines {
		if strings.HasPrefix(ln, "Matched:") {
			sawSummary = true
			m := summaryRe.FindStringSubmatch(strings.ReplaceAll(ln, ",", ""))
			if m == nil {
				return "the summary line cannot be read: " + run.Q(ln)
			}
			gm, _ := strconv.ParseInt(m[1], 10, 64)
			gr, _ := strconv.ParseInt(m[2], 10, 64)
			if gm != matched || gr != read {
				return fmt.Sprintf("the final summary says %d / %d, the whole input has %d matched of %d lines", gm, gr, matched, read)
			}
			break
		}
		f := strings.Fields(ln)
		if len(f) < 2 {
			continue
		}
		n, ok := want[f[0]]
		if !ok {
			continue
		}
		got, err := strconv.ParseInt(strings.ReplaceAll(f[1], ",", ""), 10, 64)
		if err != nil {
			continue
		}
		shown++
		if got != n {
			return fmt.Sprintf("the final histogram shows %s = %d, the whole input has %d", run.Q(f[0]), got, n)
		}
	}
	if !sawSummary {
		return "the final output has no summary line"
	}
	if wantRows := min(5, len(want)); shown < wantRows {
		return fmt.Sprintf("the final histogram shows %d of the %d rows it has room for", shown, wantRows)
	}
	return ""
}

var summaryRe = regexp.MustCompile(`Matched: (\d+) / (\d+)`)
