package p05

import (
	"os"
	"strconv"
	"sync"
	"time"

	"rare/pkg/logger"

	"verifharness/internal/run"
)

// loggerCase: the deferred logger is the one piece of shared state that reader goroutines write (open and
// read errors) while the main goroutine switches it between buffered and immediate mode (DeferLogs at the
// start of the aggregation loop, ImmediateLogs when the command ends, also after SIGINT while readers are
// still running). In the real program the two sides overlap only for microseconds, so the CLI runs cannot be
// expected to show an unsynchronised access there; this workload calls the same API from both sides for a
// few hundred cycles under the race detector (reports are collected by the orchestrator). stderr is
// pointed at /dev/null for the duration so that the shard's own stderr keeps its diagnostics.
func loggerCase(c *run.Ctx, cs Case) {
	c.Begin(cs, 120*time.Second)
	defer c.End()
	r := run.NewRand(cs.Seed, "C05", "logger", cs.Index)
	devnull, err := os.OpenFile(os.DevNull, os.O_WRONLY, 0)
	if err != nil {
		c.Inconclusive("cannot open /dev/null: " + err.Error())
		return
	}
	saved := os.Stderr
	os.Stderr = devnull
	defer func() {
		logger.ImmediateLogs()
		os.Stderr = saved
		devnull.Close()
	}()
	writers := 2 + r.Intn(5)
	cycles := 40 + r.Intn(80)
	stop := make(chan struct{})
	var wg sync.WaitGroup
	var lines [8]int64
	for w := 0; w < writers; w++ {
		wg.Add(1)
		go func(w int) {
			defer wg.Done()
			for i := 0; ; i++ {
				select {
				case <-stop:
					return
				default:
				}
				switch i % 3 {
				case 0:
					logger.Printf("Error opening file f%d-%d: no such file", w, i)
				case 1:
					logger.Print("Error reading file: ", w, i)
				default:
					logger.Println("Read errors")
				}
				lines[w]++
				if i%7 == 0 {
					time.Sleep(time.Duration(1+w) * 20 * time.Microsecond)
				}
			}
		}(w)
	}
	for k := 0; k < cycles; k++ {
		logger.DeferLogs()
		time.Sleep(time.Duration(50+r.Intn(400)) * time.Microsecond)
		logger.ImmediateLogs()
		if k%5 == 0 {
			time.Sleep(time.Duration(r.Intn(200)) * time.Microsecond)
		}
	}
	close(stop)
	wg.Wait()
	var total int64
	for _, n := range lines {
		total += n
	}
	c.Count("logger_lines_written", total)
	c.Count("logger_mode_switches", int64(2*cycles))
	c.Count("logger_runs", 1)
	c.Nontrivial("logger", strconv.Itoa(cs.Index))
}
