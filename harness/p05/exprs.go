package p05

import (
	"fmt"
	"os"
	"path/filepath"
	"runtime"
	"strconv"
	"strings"
	"sync"
	"sync/atomic"
	"time"
	"unsafe"

	"github.com/anishathalye/porcupine"

	"rare/pkg/expressions"
	"rare/pkg/expressions/funcfile"
	"rare/pkg/expressions/funclib"
	"rare/pkg/slicepool"

	"verifharness/internal/pipe"
	"verifharness/internal/run"
)

// expressions whose stages keep shared state (object pools, the date-format
// cache): one compiled instance evaluated from many goroutines.
var sharedExprs = []string{
	`{@join {@map {@split {1} ","} "{sumi {0} {2}}"} "+"}`,
	`{@reduce {@split {1} ","} "{sumi {0} {1}}" 0}`,
	`{@join {@filter {@split {1} ","} "{gt {0} {2}}"} ","}`,
	`{@join {@for 0 {lt {0} {2}} {sumi {0} 1}} ","}`,
	`{! [2] * 3 + [3]}`,
	`{! ([2] + 1) ^ 2 - [3] / 4}`,
	`{timeformat {time {4} cache} RFC3339 utc}`,
	`{twice {2}}-{addk {3} {2}}`,
	`{@join {@map {@split {1} ","} "{twice {0}}"} ","}-{! [2]+[3]}`,
	// every helper family once, with dynamic arguments: stages that keep a
	// scratch buffer, cache or pool inside the compiled expression are shared
	// by all workers
	`{bucket {3} 7}|{bucketrange {3} 1000}|{bucketrange -{3} 50}|{expbucket {3}}|{clamp {2} 2 6}`,
	`{sumi {2} {3}}|{subi {3} {2}}|{multi {2} {3} 3}|{divi {3} 7}|{modi {3} 7}|{maxi {2} {3}}|{mini {2} {3}}`,
	`{sumf {2} 0.5}|{subf {3} 0.25}|{multf {2} 1.5}|{divf {3} 8}|{floor {divf {3} 8}}|{ceil {divf {3} 8}}|{round {divf {3} 7} 2}`,
	`{log10 {sumi {3} 1}}|{log2 {sumi {3} 1}}|{ln {sumi {3} 1}}|{pow {2} 2}|{sqrt {3}}`,
	`{eq {2} 3}|{neq {2} 3}|{lt {2} {3}}|{gt {2} {3}}|{lte {2} 4}|{gte {2} 4}|{not {eq {2} 3}}|{and {2} {3}}|{or "" {2}}`,
	`{if {gt {3} 5000} big small}|{unless {gt {3} 5000} small}|{switch {eq {2} 1} one {eq {2} 2} two other}|{coalesce "" {2}}|{isint {2}}|{isnum {1}}`,
	`{len {1}}|{like {1} 1}|{prefix {1} 1}|{suffix {1} 9}|{upper {4}}|{lower {4}}|{substr {4} 2 7}|{select {0} 1}|{format "%5s|%-5s" {2} {3}}|{tab {2} {3}}`,
	`{csv {1} {2} {4}}|{hi {3}}|{hf {divf {3} 7}}|{percent {divf {2} 10}}|{bytesize {multi {3} 1000}}|{bytesizesi {multi {3} 1000}}|{downscale {multi {3} 1000}}`,
	`{basename a/b/{3}.log}|{dirname a/{2}/c.log}|{extname x.{3}}`,
	`{timeformat {time {4}} RFC1123Z America/New_York}|{timeattr {time {4}} yearweek}|{timeattr {time {4}} quarter}|{buckettime {4} hour}|{duration {2}h{2}m}|{durationformat {3}}`,
	`{@len {@split {1} ","}}|{@in {2} {@ 1 3 5 7}}|{@select {@split {1} ","} 0}|{@join {@slice {@split {1} ","} -2} "/"}|{@join {@range {2}} ","}|{$ {2} {3}}`,
	`{repeat = {2}}|{bar {2} 9 12}|{color red {2}}`,
	`{.}|{#}|{@}|{src}:{line}`,
}

const funcsFile = "# helpers for the concurrency workload\ntwice {sumi {0} {0}}\naddk {sumi {0} \\\n  {1} 1}\n"

func exprCase(c *run.Ctx, cs Case) {
	r := run.NewRand(cs.Seed, "C05", "exprs", cs.Index)
	c.Begin(cs, 120*time.Second)
	defer c.End()
	kb := funclib.NewKeyBuilder()
	dir := filepath.Join(c.WorkDir, "funcs")
	os.MkdirAll(dir, 0o755)
	defer os.RemoveAll(dir)
	ff := filepath.Join(dir, "f.funcs")
	os.WriteFile(ff, []byte(funcsFile), 0o644)
	defs, err := funcfile.LoadDefinitionsFile(kb, ff)
	if err != nil {
		c.Inconclusive("funcs file does not load: " + err.Error())
		return
	}
	kb.Funcs(defs)
	var compiled []*expressions.CompiledKeyBuilder
	for _, e := range sharedExprs {
		ck, cerr := kb.Compile(e)
		if cerr != nil {
			c.Inconclusive("expression does not compile: " + e + ": " + cerr.Error())
			return
		}
		compiled = append(compiled, ck)
	}
	// contexts: each goroutine owns distinct values, so a context leaked through a pool shows as a wrong value
	const G = 16
	N := 600
	mk := func(g, i int) *pipe.Ctx {
		rr := run.NewRand(cs.Seed, "ctx", g, i)
		var parts []string
		for k := 0; k < 1+rr.Intn(6); k++ {
			parts = append(parts, strconv.Itoa(rr.Intn(50)))
		}
		list := strings.Join(parts, ",")
		a, b := strconv.Itoa(rr.Intn(9)), strconv.Itoa(g*1000+i)
		ts := time.Unix(int64(1500000000+g*86400+i*61), 0).UTC().Format(time.RFC3339)
		line := list + " " + a + " " + b + " " + ts
		idx := []int{0, len(line), 0, len(list), len(list) + 1, len(list) + 1 + len(a), len(list) + 2 + len(a), len(list) + 2 + len(a) + len(b), len(line) - len(ts), len(line)}
		return &pipe.Ctx{Line: line, Idx: idx, Names: map[string]int{}, Src: "s", LineNo: uint64(i)}
	}
	// sequential truth
	truth := make([][]string, G)
	for g := 0; g < G; g++ {
		truth[g] = make([]string, 0, N*len(compiled))
		for i := 0; i < N; i++ {
			ctx := mk(g, i)
			for _, ck := range compiled {
				truth[g] = append(truth[g], ck.BuildKey(ctx))
			}
		}
	}
	var wg sync.WaitGroup
	var bad atomic.Value
	start := make(chan struct{})
	for g := 0; g < G; g++ {
		wg.Add(1)
		go func(g int) {
			defer wg.Done()
			defer func() {
				if rec := recover(); rec != nil {
					bad.Store(fmt.Sprintf("panic in concurrent evaluation: %v", rec))
				}
			}()
			<-start
			k := 0
			for i := 0; i < N; i++ {
				ctx := mk(g, i)
				for ei, ck := range compiled {
					got := ck.BuildKey(ctx)
					if got != truth[g][k] && bad.Load() == nil {
						bad.Store(fmt.Sprintf("expression %s on line %q: concurrent evaluation gives %q, sequential evaluation %q", sharedExprs[ei], ctx.Line, got, truth[g][k]))
					}
					k++
				}
			}
		}(g)
	}
	close(start)
	wg.Wait()
	if v := bad.Load(); v != nil {
		c.Violation("concurrent-expression", v.(string), cs)
	}
	_ = r
	c.Count("concurrent_expression_evals", int64(G*N*len(compiled)))
	c.Nontrivial("exprs", strconv.Itoa(cs.Index))
}

// ---------------------------------------------------------------- object pool histories (porcupine)

type poolObj struct{ v int }

type poolIn struct {
	get bool
	ptr uintptr // Return(ptr)
}

// Sequential model: state = sorted list of pointers currently held by clients
// (as a string). Get may return any pointer that is not currently held (free or
// fresh); Return must return a held pointer.
func poolModel() porcupine.Model {
	return porcupine.Model{
		Init: func() interface{} { return "" },
		Step: func(state, input, output interface{}) (bool, interface{}) {
			held := state.(string)
			in := input.(poolIn)
			if in.get {
				p := fmt.Sprintf("|%x", output.(uintptr))
				if strings.Contains(held+"|", p+"|") {
					return false, state // handed out while still held
				}
				return true, held + p
			}
			p := fmt.Sprintf("|%x", in.ptr)
			i := strings.Index(held+"|", p+"|")
			if i < 0 {
				return false, state
			}
			return true, held[:i] + held[i+len(p):]
		},
		Equal: func(a, b interface{}) bool {
			// order-insensitive comparison of the held set
			x := strings.Split(a.(string), "|")
			y := strings.Split(b.(string), "|")
			if len(x) != len(y) {
				return false
			}
			m := map[string]int{}
			for _, s := range x {
				m[s]++
			}
			for _, s := range y {
				m[s]--
			}
			for _, v := range m {
				if v != 0 {
					return false
				}
			}
			return true
		},
	}
}

func poolCase(c *run.Ctx, cs Case) {
	r := run.NewRand(cs.Seed, "C05", "pool", cs.Index)
	c.Begin(cs, 120*time.Second)
	defer c.End()
	pool := slicepool.NewObjectPool[poolObj](r.Intn(4))
	const G = 8
	perG := 12 + r.Intn(30)
	t0 := time.Now()
	var mu sync.Mutex
	var ops []porcupine.Operation
	var stillHeld []*poolObj
	var wg sync.WaitGroup
	for g := 0; g < G; g++ {
		wg.Add(1)
		go func(g int) {
			defer wg.Done()
			rr := run.NewRand(cs.Seed, "poolg", cs.Index, g)
			var mine []*poolObj
			var local []porcupine.Operation
			for i := 0; i < perG; i++ {
				if len(mine) == 0 || rr.Intn(2) == 0 {
					call := int64(time.Since(t0))
					o := pool.Get()
					ret := int64(time.Since(t0))
					// exclusivity canary: nobody else may write this object while we hold it
					o.v = g*1000000 + i
					mine = append(mine, o)
					local = append(local, porcupine.Operation{ClientId: g, Input: poolIn{get: true}, Call: call, Output: ptrOf(o), Return: ret})
				} else {
					k := rr.Intn(len(mine))
					o := mine[k]
					mine = append(mine[:k], mine[k+1:]...)
					call := int64(time.Since(t0))
					pool.Return(o)
					ret := int64(time.Since(t0))
					local = append(local, porcupine.Operation{ClientId: g, Input: poolIn{ptr: ptrOf(o)}, Call: call, Output: uintptr(0), Return: ret})
				}
				if rr.Intn(4) == 0 {
					time.Sleep(time.Duration(rr.Intn(50)) * time.Microsecond)
				}
			}
			mu.Lock()
			ops = append(ops, local...)
			// objects still held when this client stops must stay reachable until the
			// history has been checked: pointer identity is the value of the history,
			// and a collected object's address can be handed out again by new()
			stillHeld = append(stillHeld, mine...)
			mu.Unlock()
		}(g)
	}
	wg.Wait()
	res, _ := porcupine.CheckOperationsVerbose(poolModel(), ops, 30*time.Second)
	runtime.KeepAlive(stillHeld)
	runtime.KeepAlive(pool)
	switch res {
	case porcupine.Illegal:
		c.Violation("pool-not-linearizable", fmt.Sprintf("object pool history of %d operations from %d goroutines is not linearizable against the free-set model (an object was handed out while held, or a returned object was lost)", len(ops), G), cs)
	case porcupine.Unknown:
		c.Inconclusive("porcupine timed out on a pool history")
	}
	c.Count("pool_histories", 1)
	c.Count("pool_ops", int64(len(ops)))
	c.Nontrivial("pool", strconv.Itoa(cs.Index))
}

func ptrOf(o *poolObj) uintptr { return uintptr(unsafe.Pointer(o)) }
