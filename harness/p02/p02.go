// Package p02 decides C02: each emitted match carries its true source, line
// number, text and capture groups, stays correct while held, keeps input order
// with one reader and one worker, and default filter output is the matched line.
package p02

import (
	"bytes"
	"encoding/json"
	"fmt"
	"os"
	"os/exec"
	"path/filepath"
	"regexp"
	"runtime"
	"strconv"
	"strings"
	"time"

	"verifharness/internal/pipe"
	"verifharness/internal/reg"
	"verifharness/internal/run"
)

func init() { reg.Register("C02", Run) }

type Case struct {
	Kind  string `json:"kind"` // captures | structured | raw | reader-captures | reader-structured | dissect-pool | cli | pinned
	Index int    `json:"index"`
	Seed  uint64 `json:"seed"`
	Tier  string `json:"tier"`
	Name  string `json:"name,omitempty"`
}

// capture-rich matchers over "id=<file>:<n> key=<word> val=<num> opt=<a|b|bc> <junk>" lines
var capMatchers = []pipe.MatcherSpec{
	{Kind: "regex", Pattern: `id=(\w+):(\d+) key=(?P<key>\w+)( val=(?P<val>\d+))?(?: opt=(a|b(c)?))?`},
	{Kind: "regex", Pattern: `id=(?P<file>\w+):(?P<n>\d+)`},
	{Kind: "regex", Pattern: `^id=(\w+):(\d+)((?: \w+=\w*)*)(.*)$`},
	{Kind: "regex", Pattern: `(?:(key)|(val)|(opt))=(\w+)`},
	{Kind: "regex", Pattern: `key=((a+)|(b+)|(\w))+`},
	{Kind: "regex", Pattern: `KEY=(\w+)`, IgnoreCase: true},
	{Kind: "regex", Pattern: `id=([a-z0-9]+):([0-9]+)( key=(a|ab)(c|bcd)(d*))?`, Posix: true},
	{Kind: "regex", Pattern: `(?P<all>.*)`},
	{Kind: "regex", Pattern: `val=(\d*)(x)?`},
	{Kind: "dissect", Pattern: `id=%{id} key=%{key} val=%{val}`},
	{Kind: "dissect", Pattern: `id=%{file}:%{n} %{?skip}=%{rest}`},
	{Kind: "dissect", Pattern: `key=%{key} `},
	{Kind: "dissect", Pattern: `KEY=%{k} VAL=%{v}`, IgnoreCase: true},
	// token names with capitals, with and without -I: the name is not part of what -I folds
	{Kind: "dissect", Pattern: `KEY=%{Key} VAL=%{vAL}`, IgnoreCase: true},
	{Kind: "dissect", Pattern: `key=%{Key} val=%{vAL}`},
	// delimiters whose first byte repeats, on lines that carry one more of that byte just before them (key=aab, key=abbcd):
	// the leftmost occurrence starts inside a failed partial match
	{Kind: "dissect", Pattern: `key=%{pre}ab%{post} `, IgnoreCase: true},
	{Kind: "dissect", Pattern: `KEY=%{pre}BC%{post}`, IgnoreCase: true},
	{Kind: "dissect", Pattern: `key=%{pre}ab%{post} `},
	{Kind: "dissect", Pattern: `=%{pre}bc%{post}=%{more}`},
	{Kind: "none"},
}

var capExtracts = []string{`{0}`, `{0}`, `{1}|{2}`, `{key}/{val}`, `{Key}/{vAL}|{1}/{2}`, `{@}`, `{src}:{line}:{1}`, `{5}{4}{3}`, `{file}{n}`, `{9}x`, `{1}`, `[{1}|{2}|{3}|{key}|{tail}]`}

var words = []string{"a", "aa", "aab", "b", "bbb", "abcd", "abbcd", "x", "K9", "zed", "ab", "bcd"}

func genCaptures(r *run.Rand, reader bool, thorough bool, pauses int) *pipe.Workload {
	w := &pipe.Workload{Scenario: "captures", Matcher: capMatchers[r.Intn(len(capMatchers))], Extract: capExtracts[r.Intn(len(capExtracts))], Seed: r.U64()}
	if r.Intn(3) == 0 {
		w.Matcher = pipe.GenRegex(r) // generated pattern: literal-only with groups, nested / optional / lazy groups, anchors
	}
	nIn := 1
	if !reader {
		nIn = r.Range(1, 6)
	}
	for i := 0; i < nIn; i++ {
		name := fmt.Sprintf("f%d", i)
		var data []byte
		nLines := []int{0, 3, 40, 300, 1500, 4000}[r.Intn(6)]
		if nLines > 0 {
			nLines = r.Range(1, nLines)
		}
		for n := 1; n <= nLines; n++ {
			var sb bytes.Buffer
			if r.Intn(12) == 0 {
				// junk line (may or may not match)
				sb.Write(r.Bytes(r.Intn(30), []byte("abk=e y:1 \r\x00\xff")))
			} else {
				fmt.Fprintf(&sb, "id=%s:%d", name, n)
				if r.Intn(8) != 0 {
					k := "key"
					if r.Intn(6) == 0 {
						k = "KEY"
					}
					fmt.Fprintf(&sb, " %s=%s", k, words[r.Intn(len(words))])
				}
				if r.Intn(3) != 0 {
					fmt.Fprintf(&sb, " val=%d", r.Intn(100000))
				}
				if r.Intn(3) == 0 {
					fmt.Fprintf(&sb, " opt=%s", []string{"a", "b", "bc", "c"}[r.Intn(4)])
				}
				if r.Intn(4) == 0 {
					sb.WriteByte(' ')
					sb.Write(r.Bytes(r.Intn(60), []byte("abcxyz =:\t\r\x00\xff\xc3\xa9")))
				}
				if r.Intn(400) == 0 {
					// a line longer than the 128 KiB read buffer
					sb.WriteString(" pad=")
					sb.Write(bytes.Repeat([]byte("p"), r.Range(130*1024, 300*1024)))
				}
			}
			line := bytes.ReplaceAll(sb.Bytes(), []byte("\n"), []byte("n"))
			data = append(data, line...)
			switch {
			case n == nLines && r.Intn(3) == 0 && len(line) > 0:
			case r.Intn(5) == 0:
				data = append(data, '\r', '\n')
			default:
				data = append(data, '\n')
			}
		}
		if reader {
			name = "<stdin>"
		}
		w.Inputs = append(w.Inputs, pipe.Input{Name: name, Data: data})
	}
	w.Cfg = pipe.GenConfig(r, reader)
	if r.Intn(4) == 0 {
		w.Cfg.Workers, w.Cfg.Readers = 1, 1 // the ordered configuration
	}
	if reader {
		w.Inputs[0].Steps = pipe.GenSteps(r, len(w.Inputs[0].Data), pauses)
	}
	return w
}

// dissect-pool: one worker, > 3*1024 dissect matches so the IntPool refills
// several times while every earlier Indices slice is still held.
func genDissectPool(r *run.Rand) *pipe.Workload {
	w := &pipe.Workload{Scenario: "dissect-pool", Matcher: pipe.MatcherSpec{Kind: "dissect", Pattern: `id=%{file}:%{n} key=%{key};`}, Extract: `{n}:{key}`, Seed: r.U64()}
	var data []byte
	n := r.Range(3200, 5200)
	for i := 1; i <= n; i++ {
		data = append(data, fmt.Sprintf("id=f0:%d key=%s; t\n", i, words[r.Intn(len(words))])...)
	}
	w.Inputs = []pipe.Input{{Name: "f0", Data: data}}
	w.Cfg = pipe.GenConfig(r, false)
	w.Cfg.Workers = 1 + r.Intn(2)
	return w
}

func gen(cs Case) *pipe.Workload {
	r := run.NewRand(cs.Seed, "C02", cs.Kind, cs.Index)
	thorough := cs.Tier == "thorough"
	o := pipe.GenOpts{MaxInputs: 8, MaxLines: 2500, LongLines: true, Gunzip: true}
	switch cs.Kind {
	case "captures", "cli", "cli-color":
		return genCaptures(r, false, thorough, 0)
	case "reader-captures":
		p := 0
		if cs.Index%4 == 0 {
			p = 2
		}
		return genCaptures(r, true, thorough, p)
	case "structured":
		return pipe.GenStructured(r, o)
	case "reader-structured":
		o.ReaderMode = true
		o.MaxLines = 1200
		if cs.Index%4 == 0 {
			o.Pauses = 2
		}
		return pipe.GenStructured(r, o)
	case "raw":
		return pipe.GenRaw(r, o)
	case "dissect-pool":
		return genDissectPool(r)
	case "samelines":
		return pipe.GenSameLines(r)
	case "aligned":
		return pipe.GenAligned(r, false)
	case "reader-aligned":
		return pipe.GenAligned(r, true)
	case "pinned":
		return pinned(cs.Name)
	}
	return nil
}

func pinned(name string) *pipe.Workload {
	cfg := pipe.Config{Mode: "files", Batch: 2, Workers: 1, Readers: 1, Buffer: 1, GoMaxProcs: 2, Delay: "none", Consumer: "fast"}
	switch name {
	case "optional-groups":
		return &pipe.Workload{Scenario: "pinned:" + name, Matcher: pipe.MatcherSpec{Kind: "regex", Pattern: `(a)?(b)?c(?P<tail>d)?`},
			Extract: `[{1}|{2}|{tail}|{7}|{@}]`, Cfg: cfg, Seed: 5,
			Inputs: []pipe.Input{{Name: "f0", Data: []byte("c\nac\nbc\nabcd\nxx\nzzabc\n")}}}
	case "growing-lines":
		// each line longer than the previous: the read buffer regrows while earlier lines are held
		var data []byte
		for i, n := range []int{10, 70000, 140000, 20, 290000, 5, 600000, 33} {
			data = append(data, fmt.Sprintf("id=f0:%d key=%s val=%d ", i+1, words[i], i)...)
			data = append(data, bytes.Repeat([]byte{byte('a' + i)}, n)...)
			data = append(data, '\n')
		}
		c2 := cfg
		c2.Batch = 3
		return &pipe.Workload{Scenario: "pinned:" + name, Matcher: capMatchers[0], Extract: `{key}`, Cfg: c2, Seed: 6,
			Inputs: []pipe.Input{{Name: "f0", Data: data}}}
	}
	return nil
}

var pinnedNames = []string{"optional-groups", "growing-lines"}

var colorMatchers = []pipe.MatcherSpec{
	{Kind: "regex", Pattern: `(k(e)y)`}, {Kind: "regex", Pattern: `((i)(d))=`}, {Kind: "regex", Pattern: `(i(d(=)))`}, {Kind: "regex", Pattern: `(?P<x>k(e)y)=(\w+)`},
	{Kind: "regex", Pattern: `(key)|(val)`}, {Kind: "regex", Pattern: `((key)=(\w+))`}, {Kind: "regex", Pattern: `(k)(e)(y)`}, {Kind: "regex", Pattern: `()key()`},
	{Kind: "regex", Pattern: `(key)?=(\w*)`}, {Kind: "regex", Pattern: `(id=(\w+):(\d+))( key=(\w+))?`}, {Kind: "regex", Pattern: `(i)(d)(=)(f)(\d)(:)(\d+)( )(k)(e)(y)`},
	{Kind: "regex", Pattern: `(((((k)e)y)=)(\w))`}, {Kind: "regex", Pattern: `(?P<a>i)(d)(?P<b>=(f))`}, {Kind: "regex", Pattern: `(\w+)=((\w)(\w*))`}, {Kind: "regex", Pattern: `((a)|(b))+`},
	{Kind: "regex", Pattern: `(id)(=f\d:)((\d)\d*)`}, {Kind: "dissect", Pattern: `id=%{id} key=%{key} `}, {Kind: "dissect", Pattern: `%{a}=%{b}:%{c} `},
}

func Run(c *run.Ctx) {
	if c.Replay != nil {
		var cs Case
		if json.Unmarshal(c.Replay, &cs) == nil && cs.Kind != "" {
			one(c, cs)
		}
		return
	}
	type plan struct {
		kind string
		n    int
	}
	plans := []plan{
		{"captures", c.N(90, 1900)},
		{"reader-captures", c.N(32, 500)},
		{"structured", c.N(30, 600)},
		{"reader-structured", c.N(16, 300)},
		{"raw", c.N(30, 500)},
		{"dissect-pool", c.N(8, 100)},
		{"aligned", c.N(12, 200)},
		{"reader-aligned", c.N(6, 100)},
		{"samelines", c.N(48, 800)},
		{"cli", c.N(24, 300)},
		{"cli-color", c.N(18, 180)},
	}
	if c.Flavour != "plain" {
		plans = []plan{{"captures", 500}, {"reader-captures", 120}, {"structured", 150}, {"raw", 150}, {"dissect-pool", 40}, {"aligned", 40}, {"reader-aligned", 20}}
		if c.Flavour == "asan" {
			plans = []plan{{"captures", 200}, {"raw", 80}, {"dissect-pool", 20}, {"structured", 40}}
		}
	}
	idx := 0
	for _, nm := range pinnedNames {
		if c.Mine(idx) {
			if !one(c, Case{Kind: "pinned", Name: nm, Seed: c.Seed, Tier: c.Tier}) {
				return
			}
		}
		idx++
	}
	for _, p := range plans {
		for i := 0; i < p.n; i++ {
			if c.Mine(idx) {
				if !one(c, Case{Kind: p.kind, Index: i, Seed: c.Seed, Tier: c.Tier}) {
					return
				}
			}
			idx++
		}
		c.Checkpoint()
	}
}

var sink [][]byte

func churn() {
	// force collection and then overwrite freed memory with garbage, so a view
	// into memory that was wrongly released or recycled shows up as changed text
	runtime.GC()
	for i := 0; i < 64; i++ {
		b := make([]byte, 256*1024)
		for j := range b {
			b[j] = 0xA5
		}
		sink = append(sink, b)
	}
	sink = nil
	runtime.GC()
}

func one(c *run.Ctx, cs Case) bool {
	w := gen(cs)
	if w == nil {
		return true
	}
	c.Begin(cs, 600*time.Second)
	defer c.End()
	dir := filepath.Join(c.WorkDir, "c")
	truth, err := pipe.Reference(w, dir)
	if err != nil {
		c.Inconclusive("generator produced a workload the reference cannot evaluate: " + err.Error())
		return true
	}
	if cs.Kind == "cli" || cs.Kind == "cli-color" {
		cli(c, cs, w, truth)
		return true
	}
	os.RemoveAll(dir)
	os.MkdirAll(dir, 0o755)
	defer os.RemoveAll(dir)
	obs := pipe.Run(w, dir, 400*time.Second)
	if obs.TimedOut {
		stuck, text := pipe.StuckEvidence()
		if stuck {
			c.Violation("no-termination:"+w.Cfg.String(), "pipeline never closed its output; all rare goroutines blocked:\n"+text, cs)
		} else {
			c.Inconclusive("pipeline run exceeded 400 s without stuck-state evidence: " + w.Cfg.String())
		}
		return false
	}
	churn()
	fs := pipe.JudgeC02(w, dir, truth, obs)
	// C02 also needs "every matched line was emitted with these values": a match
	// that is missing entirely is C01's exactly-once; here we only require that
	// what was emitted is right. But if nothing at all was emitted although lines
	// match, the run observed nothing.
	for _, f := range fs {
		c.Violation(f.Class+":"+w.Scenario+":"+w.Matcher.Kind+":"+w.Cfg.String(), fmt.Sprintf("%s [scenario %s, config %s, matcher %s %q posix=%v icase=%v, extract %q]",
			f.Msg, w.Scenario, w.Cfg.String(), w.Matcher.Kind, w.Matcher.Pattern, w.Matcher.Posix, w.Matcher.IgnoreCase, w.Extract), cs)
	}
	multi := 0
	for i := range obs.Matches {
		if len(obs.Matches[i].Live.Indices) >= 4 {
			multi++
		}
	}
	c.Count("matches_held", int64(len(obs.Matches)))
	c.Count("matches_held_multi_group", int64(multi))
	c.Count("batches_observed", int64(len(obs.Tap)))
	c.Count("timer_flushes", int64(obs.TimerFlushes))
	if w.Cfg.Workers == 1 && (w.Cfg.Readers == 1 || w.Cfg.Mode == "reader" || len(w.Inputs) == 1) {
		c.Count("ordered_runs", 1)
	}
	c.SetAdd("configs", w.Cfg.String())
	c.SetAdd("matchers", w.Matcher.Kind+":"+w.Matcher.Pattern)
	c.SetAdd("interleavings", obs.InterleaveSig)
	if multi >= 1 && len(obs.Tap) >= 2 {
		c.Nontrivial(cs.Kind, strconv.Itoa(cs.Index), cs.Name, w.Cfg.String(), obs.InterleaveSig)
	}
	if cs.Index < 2 && cs.Kind == "captures" {
		c.Sample(map[string]any{"kind": cs.Kind, "config": w.Cfg.String(), "matcher": w.Matcher, "extract": w.Extract,
			"inputs": len(w.Inputs), "lines": len(truth), "matches_held": len(obs.Matches)})
	}
	return true
}

var sgr = regexp.MustCompile("\x1b\\[[0-9;]*m")

// cli: default output (colour off and forced on), -l, and -e with groups; 1 reader x 1 worker keeps order.
func cli(c *run.Ctx, cs Case, w *pipe.Workload, truth []pipe.LineTruth) {
	if c.RareBin == "" {
		c.Inconclusive("no rare binary for the CLI sub-check")
		return
	}
	w.Matcher = capMatchers[cs.Index%len(capMatchers)] // every matcher kind/flag reaches the CLI wiring
	r := run.NewRand(cs.Seed, "C02cli", cs.Index)
	mode := []string{"default", "color", "lineno", "extract"}[cs.Index%4]
	if cs.Kind == "cli-color" {
		// group shapes for the highlighter of the default output: nested, adjacent, empty, optional,
		// alternated, more than nine, named + numbered; "with colour codes removed the output is the line"
		w.Matcher = colorMatchers[cs.Index%len(colorMatchers)]
		mode = "color"
	}
	ordered := r.Intn(2) == 0
	if cs.Index%3 != 0 {
		// input names a file system allows and an output routine may trip over: printf verbs, blanks, colour-like text, non-ASCII
		odd := []string{"100%%.log", "cpu%util.log", "access%20log.txt", "%s", "%d%v%!", "a b.log", "é-日志.log", "tab\there", "x:1: y", "[0m.log", "-dash.log"}
		for i := range w.Inputs {
			w.Inputs[i].Name = fmt.Sprintf("%d_%s", i, odd[(cs.Index+i)%len(odd)])
		}
		c.Count("cli_runs_with_odd_input_names", 1)
	}
	dir := filepath.Join(c.WorkDir, "cli")
	os.RemoveAll(dir)
	os.MkdirAll(dir, 0o755)
	defer os.RemoveAll(dir)
	paths, err := pipe.Materialise(w, dir)
	if err != nil || len(paths) == 0 {
		return
	}
	extract := "{0}"
	if mode == "extract" {
		extract = "{src}:{line}:{1}|{key}|{2}"
	}
	w.Extract = extract
	truth, err = pipe.Reference(w, dir)
	if err != nil {
		c.Inconclusive("reference: " + err.Error())
		return
	}
	args := []string{"--nf"}
	if mode == "color" {
		args = append(args, "--color")
	} else {
		args = append(args, "--nocolor")
	}
	args = append(args, "filter")
	switch w.Matcher.Kind {
	case "regex":
		args = append(args, "-m", w.Matcher.Pattern)
		if w.Matcher.Posix {
			args = append(args, "-p")
		}
	case "dissect":
		args = append(args, "-d", w.Matcher.Pattern)
	}
	if w.Matcher.IgnoreCase {
		args = append(args, "-I")
	}
	if mode == "extract" {
		args = append(args, "-e", extract)
	}
	if mode == "lineno" {
		args = append(args, "-l")
	}
	// filter -n K: "print the first NUM lines seen" - with one reader and one worker these are the first K matches
	limit := 0
	if mode != "color" && r.Intn(3) == 0 {
		nm := 0
		for _, t := range truth {
			if t.Class == 'M' {
				nm++
			}
		}
		limit = []int{1, 2, nm / 2, nm - 1, nm, nm + 1, nm + 7}[r.Intn(7)]
		if limit > 0 {
			args = append(args, []string{"-n", "--num"}[r.Intn(2)], strconv.Itoa(limit))
			c.Count("cli_runs_with_line_limit", 1)
		} else {
			limit = 0
		}
	}
	if ordered {
		args = append(args, "--readers", "1", "--workers", "1")
	} else {
		args = append(args, "--readers", strconv.Itoa(w.Cfg.Readers), "--workers", strconv.Itoa(w.Cfg.Workers))
	}
	args = append(args, "--batch", strconv.Itoa(w.Cfg.Batch), "--batch-buffer", strconv.Itoa(w.Cfg.Buffer))
	args = append(args, paths...)
	cmd := exec.Command(c.RareBin, args...)
	cmd.Env = append(os.Environ(), "GOMAXPROCS="+strconv.Itoa(w.Cfg.GoMaxProcs))
	var stderr bytes.Buffer
	mpl := 0
	for _, p := range paths {
		mpl = max(mpl, len(p))
	}
	stdout := pipe.CapWriter{Max: pipe.OutputBound(w, mpl), OnOverflow: func() { cmd.Process.Kill() }}
	cmd.Stdout, cmd.Stderr = &stdout, &stderr
	done := make(chan error, 1)
	if err := cmd.Start(); err != nil {
		c.Inconclusive("cannot start rare: " + err.Error())
		return
	}
	go func() { done <- cmd.Wait() }()
	select {
	case <-done:
	case <-time.After(120 * time.Second):
		cmd.Process.Kill()
		<-done
		c.Inconclusive("rare filter did not finish within 120 s")
		return
	}
	ctxs := fmt.Sprintf("[cli mode=%s ordered=%v matcher %s %q, args %q]", mode, ordered, w.Matcher.Kind, w.Matcher.Pattern, args[:len(args)-len(paths)])
	fp := func(class string) string { return "cli-" + class + ":" + mode + ":" + w.Matcher.Kind }
	if stdout.Overflowed() {
		c.Violation(fp("runaway-output"), fmt.Sprintf("rare filter wrote more than %d bytes for inputs that cannot produce that much (lines are emitted without end); it was killed %s", stdout.Max, ctxs), cs)
		return
	}
	if strings.Contains(stderr.String(), "panic:") || strings.Contains(stderr.String(), "fatal error:") {
		c.Violation(fp("crash"), "rare crashed: "+stderr.String()[:min(1500, stderr.Len())]+" "+ctxs, cs)
		return
	}
	// expected lines in input order
	var want []string
	srcOf := map[string]string{}
	for i := range w.Inputs {
		srcOf[w.Inputs[i].Name] = paths[i]
	}
	for _, t := range truth {
		if t.Class != 'M' {
			continue
		}
		if mode == "color" && bytes.IndexByte(t.Text, 0x1b) >= 0 {
			continue
		}
		switch mode {
		case "default", "color":
			want = append(want, string(t.Text))
		case "lineno":
			want = append(want, fmt.Sprintf("%s %d: %s", srcOf[t.Source], t.LineNo, t.Text))
		case "extract":
			want = append(want, t.Key)
		}
	}
	outS := stdout.String()
	if mode == "color" {
		// drop output lines that came from input lines containing ESC (not judged), then strip SGR
		var kept []string
		for _, l := range strings.Split(strings.TrimSuffix(outS, "\n"), "\n") {
			s := sgr.ReplaceAllString(l, "")
			if strings.IndexByte(s, 0x1b) >= 0 {
				continue
			}
			kept = append(kept, s)
		}
		outS = strings.Join(kept, "\n")
		if len(kept) > 0 {
			outS += "\n"
		}
		if stdout.Len() == 0 {
			outS = ""
		}
	}
	var got []string
	if outS != "" {
		got = strings.Split(strings.TrimSuffix(outS, "\n"), "\n")
	}
	if mode == "color" && len(want) == 0 {
		got = nil // every matched line contained ESC
	}
	c.Count("cli_runs", 1)
	c.Count("cli_lines_compared", int64(len(want)))
	if limit > 0 && !ordered {
		// any K of the matched lines, each at most as often as it was matched
		if len(got) != min(limit, len(want)) {
			c.Violation(fp("line-limit"), fmt.Sprintf("-n %d with %d matched lines printed %d lines %s", limit, len(want), len(got), ctxs), cs)
			return
		}
		wm := map[string]int{}
		for _, l := range want {
			wm[l]++
		}
		for _, l := range got {
			wm[l]--
			if wm[l] < 0 {
				c.Violation(fp("line-limit"), fmt.Sprintf("-n %d: output line %s is printed more often than it was matched (or was never matched) %s", limit, run.Q(l), ctxs), cs)
				return
			}
		}
		c.Nontrivial("cli-limit", mode, strconv.Itoa(cs.Index))
		return
	}
	if limit > 0 && limit < len(want) {
		want = want[:limit]
	}
	if ordered {
		if len(got) != len(want) {
			c.Violation(fp("line-count"), fmt.Sprintf("%d output lines, expected %d %s", len(got), len(want), ctxs), cs)
			return
		}
		for i := range want {
			if got[i] != want[i] {
				c.Violation(fp("output-differs"), fmt.Sprintf("output line %d is %s, expected %s (matched input line, colour codes removed) %s", i+1, run.Q(got[i]), run.Q(want[i]), ctxs), cs)
				return
			}
		}
		c.Count("cli_ordered_runs", 1)
	} else {
		wm := map[string]int{}
		for _, l := range want {
			wm[l]++
		}
		for _, l := range got {
			wm[l]--
		}
		for l, n := range wm {
			if n != 0 {
				c.Violation(fp("output-multiset"), fmt.Sprintf("output line %s appears %+d times relative to the expected matched lines %s", run.Q(l), -n, ctxs), cs)
				return
			}
		}
	}
	if len(want) >= 2 {
		c.Nontrivial("cli", mode, strconv.Itoa(cs.Index))
	}
}
