package p15

import (
	"bufio"
	"bytes"
	"fmt"
	"os"
	"os/exec"
	"runtime"
	"strconv"
	"strings"
	"sync"
	"sync/atomic"
	"time"

	"rare/pkg/extractor/batchers"
	"rare/pkg/verifhook"

	"path/filepath"
	"verifharness/internal/run"
)

var lineWaitLimit = 180 * time.Second

// ldriver is what differs between the batch level and the CLI level.
type ldriver interface {
	start(m *lmon) error
	waitStarted(m *lmon) int
	hits(loc string) int64 // -1: not observable
	// finish: plain follow: wait for the stream to end by itself; otherwise end it
	finish(m *lmon, plain bool) int
	cleanup()
	diag() string
	// check may record a refutation visible without any delivery (mu held)
	check(m *lmon)
}

func genDeliveredBytes(f *lfile, from int) int {
	n := 0
	for i := from; i < len(f.got); i++ {
		n += len(f.got[i].text) + 1
	}
	return n
}

// runLines executes a line-level history through drv.
func runLines(c *run.Ctx, cs *Case, dir string, drv ldriver) (out outcome) {
	os.RemoveAll(dir)
	if err := os.MkdirAll(dir, 0o755); err != nil {
		out.inconclusive = "mkdir: " + err.Error()
		return
	}
	defer os.RemoveAll(dir)
	m := newLmon(dir, cs.Files)
	for _, f := range m.files {
		if err := m.prefill(f, cs.Prefill, cs.Tail); err != nil {
			out.inconclusive = "prefill: " + err.Error()
			return
		}
	}
	defer func() {
		for _, f := range m.files {
			if f.w != nil {
				f.w.Close()
			}
		}
	}()
	if err := drv.start(m); err != nil {
		out.inconclusive = "start: " + err.Error()
		return
	}
	defer drv.cleanup()

	cfg := fmt.Sprintf("%s level, reader=%s reopen=%v tail=%v files=%d batch=%d", cs.Level, cs.Kind, cs.Reopen, cs.Tail, cs.Files, cs.Batch)
	conclude := func(r int, what string) bool {
		switch r {
		case wOK:
			return false
		case wBad:
			m.mu.Lock()
			out.class, out.msg = m.bad.class, cfg+": "+m.bad.msg
			m.mu.Unlock()
		default:
			m.mu.Lock()
			out.inconclusive = fmt.Sprintf("%s: watchdog expired while waiting for %s (no stuck-state evidence is taken at this level); %s; %s", cfg, what, m.describe(), drv.diag())
			m.mu.Unlock()
		}
		return true
	}
	if conclude(drv.waitStarted(m), "following to start") {
		return
	}
	genFrom := make([]int, len(m.files)) // index into got where the current generation began
	noSentinel := false
	nudge := func() {
		if cs.Batch <= 1 || noSentinel {
			return
		}
		// a line only surfaces with the next line that arrives >= 250 ms after the last flush (documented)
		m.mu.Lock()
		var todo []*lfile
		for _, f := range m.files {
			if !f.removed && m.pending(f) {
				todo = append(todo, f)
			}
		}
		m.mu.Unlock()
		for _, f := range todo {
			m.appendLines(f, 1, 1, 0)
			c.Count("sentinel_lines", 1)
		}
	}
	drain := func() int {
		return m.waitL(lineWaitLimit, 300*time.Millisecond, nudge, func() bool {
			drv.check(m)
			return m.bad != nil || m.drained()
		})
	}

	for _, st := range cs.Steps {
		if st.File >= len(m.files) {
			continue
		}
		f := m.files[st.File]
		switch st.K {
		case "lines":
			if !f.removed {
				m.appendLines(f, st.Lines, st.Pieces, st.GapUs)
			}
		case "pause":
			time.Sleep(time.Duration(st.N) * time.Microsecond)
		case "drain":
			if conclude(drain(), "delivered == appended") {
				return
			}
		case "rot":
			if !cs.Reopen || f.removed {
				continue
			}
			if conclude(drain(), "drain before removal") {
				return
			}
			m.mu.Lock()
			prevBytes := genDeliveredBytes(f, genFrom[st.File])
			m.mu.Unlock()
			// how many lines fit the proviso for polling (new file shorter than what was delivered)
			nl := st.Lines
			if cs.Kind == "poll" {
				if prevBytes < 2 {
					continue
				}
				fit, sz := 0, 0
				for fit < nl {
					l := len(streamLinesOf(f.id, f.gen+1, fit, 1))
					if sz+l >= prevBytes {
						break
					}
					sz += l
					fit++
				}
				nl = fit
				if nl == 0 {
					continue // not even one line fits: skip the rotation rather than leave the defined domain
				}
			}
			hDel, hStat := drv.hits(hookDelete), drv.hits(hookStat)
			f.w.Close()
			f.w = nil
			m.mu.Lock()
			f.removed = true
			m.mu.Unlock()
			os.Remove(f.path)
			if st.How != "immediate" {
				if hDel >= 0 {
					// synchronise with the reader having noticed the removal (hook counters)
					m.waitL(90*time.Second, 0, nil, func() bool {
						if cs.Kind == "notify" {
							return drv.hits(hookDelete) > hDel
						}
						return drv.hits(hookStat) >= hStat+2
					})
				} else if cs.Kind == "notify" {
					time.Sleep(400 * time.Millisecond) // CLI: no hook to wait on; only shapes the schedule
				} else {
					time.Sleep(3 * time.Second)
				}
			}
			w, err := os.OpenFile(f.path, os.O_CREATE|os.O_EXCL|os.O_WRONLY|os.O_APPEND, 0o644)
			if err != nil {
				out.inconclusive = "re-create: " + err.Error()
				return
			}
			m.mu.Lock()
			f.gen++
			f.inGen, f.genByte = 0, 0
			f.w = w
			f.removed = false
			genFrom[st.File] = len(f.got)
			from := len(f.got)
			m.mu.Unlock()
			c.Count("recreate:"+cs.Level+":"+cs.Kind, 1)
			m.appendLines(f, nl, 1, 0)
			if cs.Kind == "poll" {
				noSentinel = true // keep the new file short until its first line has been seen
				r := m.waitL(lineWaitLimit, 0, nil, func() bool { return len(f.got) > from })
				noSentinel = false
				if conclude(r, "first line of the re-created file") {
					return
				}
			}
			if conclude(drain(), "lines of the re-created file") {
				return
			}
		}
	}
	if conclude(drain(), "delivered == appended at the end of the history") {
		return
	}
	plain := !cs.Reopen
	if plain {
		for _, f := range m.files {
			if f.w != nil {
				f.w.Close()
				f.w = nil
			}
			m.mu.Lock()
			f.removed = true
			m.mu.Unlock()
			os.Remove(f.path)
		}
	}
	r := drv.finish(m, plain)
	if plain && conclude(r, "the stream to end after every file was removed") {
		return
	}
	m.mu.Lock()
	defer m.mu.Unlock()
	if m.bad != nil {
		out.class, out.msg = m.bad.class, cfg+": "+m.bad.msg
		return
	}
	if plain {
		for _, f := range m.files {
			if !f.startUnknown && len(f.got) != len(f.expected) {
				out.class, out.msg = "line-count", fmt.Sprintf("%s: %s: stream ended with %d lines delivered, %d expected", cfg, f.id, len(f.got), len(f.expected))
				return
			}
		}
		c.Count("end_of_stream_after_removal", 1)
	}
	c.Count("lines_delivered_and_compared", m.lines)
	c.Count("batches", m.batches)
	return
}

// ---------------------------------------------------------------- batch level

type bdrv struct {
	cs      *Case
	b       *batchers.Batcher
	stop    atomic.Bool
	mu      sync.Mutex
	h       map[string]int64
	done    chan struct{}
	ending  atomic.Bool
	started atomic.Bool
	ghosts  int // named paths at which nothing exists (each is one read error by design)
	c       *run.Ctx
}

func (d *bdrv) hook(loc string) {
	d.mu.Lock()
	d.h[loc]++
	d.mu.Unlock()
	if d.stop.Load() && loc != "tail.beforeClose" {
		runtime.Goexit() // ends the reader goroutine; TailFilesToChan's deferred bookkeeping still runs
	}
}

func (d *bdrv) hits(loc string) int64 {
	d.mu.Lock()
	defer d.mu.Unlock()
	return d.h[loc]
}

func (d *bdrv) start(m *lmon) error {
	d.h = map[string]int64{}
	d.done = make(chan struct{})
	verifhook.Reset()
	for _, loc := range append([]string{"tail.beforeClose"}, allHooks...) {
		loc := loc
		verifhook.Set(loc, func() { d.hook(loc) })
	}
	names := make(chan string, len(m.files)+1)
	if !d.cs.Reopen && (d.cs.Batch+len(m.files))%2 == 1 && len(m.files) > 0 {
		// one more path, at which nothing exists (plain follow cannot open it: one read error, nothing to wait for): the
		// files that do exist are followed as ever, and the stream still ends once they are removed
		names <- filepath.Join(filepath.Dir(m.files[0].path), "ghost-never-there.log")
		d.ghosts = 1
		d.c.Count("batch_histories_with_an_unopenable_sibling", 1)
	}
	for _, f := range m.files {
		names <- f.path
	}
	close(names)
	d.b = batchers.TailFilesToChan(names, d.cs.Batch, 4, d.cs.Reopen, d.cs.Kind == "poll", d.cs.Tail)
	go func() {
		defer close(d.done)
		for b := range d.b.BatchChan() {
			m.mu.Lock()
			m.batches++
			f := m.byPath[b.Source]
			if f == nil {
				m.fail("batch-source", fmt.Sprintf("batch with unknown source %q", b.Source))
			} else {
				for i, l := range b.Batch {
					m.deliver(f, string(l), b.BatchStart+uint64(i))
				}
			}
			m.bcast()
			m.mu.Unlock()
		}
		m.mu.Lock()
		m.closed = true
		if !d.ending.Load() {
			for _, f := range m.files {
				if !f.removed {
					m.fail("ended-while-present", fmt.Sprintf("the batch channel was closed although %s still exists and was not removed", f.id))
				}
			}
		}
		m.bcast()
		m.mu.Unlock()
	}()
	return nil
}

func (d *bdrv) waitStarted(m *lmon) int {
	n := len(m.files)
	r := m.waitL(lineWaitLimit, 0, nil, func() bool { return d.b.ActiveFileCount() == n || d.b.ReadErrors() > d.ghosts })
	if r == wOK && d.b.ReadErrors() > d.ghosts {
		return wTimeout // the files exist: opening them failed for an environmental reason (inotify limits ...)
	}
	if r == wOK {
		d.started.Store(true)
	}
	return r
}

func (d *bdrv) finish(m *lmon, plain bool) int {
	if plain {
		start := time.Now()
		for {
			r := m.waitL(4*time.Second, 0, nil, func() bool { return m.closed })
			if r != wTimeout {
				return r
			}
			// not closed yet: is it structurally impossible that it ever will be? (two looks, one second apart)
			if ev, ok := tailEndStuck(); ok {
				time.Sleep(time.Second)
				ev2, ok2 := tailEndStuck()
				m.mu.Lock()
				closed := m.closed
				if ok2 && !closed {
					m.fail("no-end-after-removal", fmt.Sprintf("every followed file was removed after its data had been delivered, but the batch channel is never closed: %s (second look: %s)", ev, strings.SplitN(ev2, "\n", 2)[0]))
					m.mu.Unlock()
					return wBad
				}
				m.mu.Unlock()
			}
			if time.Since(start) > lineWaitLimit {
				return wTimeout
			}
		}
	}
	// still following (re-open): end the reader goroutines at their next hook point
	d.ending.Store(true)
	d.stop.Store(true)
	deadline := time.Now().Add(30 * time.Second)
	for i := 0; ; i++ {
		if d.cs.Kind == "notify" {
			for _, f := range m.files {
				if w, err := os.OpenFile(f.path, os.O_CREATE|os.O_WRONLY|os.O_APPEND, 0o644); err == nil {
					w.Write([]byte("#"))
					w.Close()
				}
			}
		}
		select {
		case <-d.done:
			return wOK
		case <-time.After(300 * time.Millisecond):
		}
		if time.Now().After(deadline) {
			return wTimeout
		}
	}
}

func (d *bdrv) cleanup() {
	d.ending.Store(true)
	d.stop.Store(true)
	select {
	case <-d.done:
	case <-time.After(3 * time.Second):
	}
	verifhook.Reset()
}

// check: a reader goroutine that ended (ActiveFileCount dropped) while every file is in place
func (d *bdrv) check(m *lmon) {
	if d.ending.Load() || !d.started.Load() {
		return
	}
	for _, f := range m.files {
		if f.removed {
			return
		}
	}
	if n := d.b.ActiveFileCount(); n < len(m.files) {
		m.fail("ended-while-present", fmt.Sprintf("only %d of %d followed files are still being read although none was removed (a reader ended while its file exists)", n, len(m.files)))
	}
}

func (d *bdrv) diag() string {
	d.mu.Lock()
	defer d.mu.Unlock()
	return fmt.Sprintf("active files %d, read errors %d, hook hits %v", d.b.ActiveFileCount(), d.b.ReadErrors(), d.h)
}

func runBatch(c *run.Ctx, cs *Case, dir string) outcome {
	d := &bdrv{cs: cs, c: c}
	out := runLines(c, cs, dir, d)
	if out.class == "" && out.inconclusive == "" && d.b != nil && d.b.ReadErrors() > d.ghosts {
		out.inconclusive = fmt.Sprintf("batch level: %d read errors reported by the batcher (environment)", d.b.ReadErrors())
	}
	return out
}

// ---------------------------------------------------------------- CLI level

type cdrv struct {
	c      *run.Ctx
	cs     *Case
	cmd    *exec.Cmd
	stderr bytes.Buffer
	done   chan struct{}
	ending atomic.Bool
	env    atomic.Bool
	argv   []string
}

func (d *cdrv) hits(string) int64 { return -1 }

func (d *cdrv) start(m *lmon) error {
	args := []string{"--nocolor", "filter", "-l", "--workers", "1", "--batch", strconv.Itoa(d.cs.Batch)}
	if d.cs.Reopen {
		// -F implies following; giving -f as well changes nothing
		args = append(args, [][]string{{"-F"}, {"-f", "-F"}, {"-F", "-f"}}[(d.cs.Batch+len(m.files))%3]...)
	} else {
		args = append(args, "-f")
	}
	if d.cs.Kind == "poll" {
		args = append(args, "--poll")
	}
	if d.cs.Tail {
		args = append(args, "--tail")
		for _, f := range m.files {
			f.startUnknown = true
		}
	}
	if (d.cs.Batch+len(m.files))%2 == 0 {
		// -z next to follow is noted ("Cannot combine -f and -z") and has no effect: the files are still followed
		args = append(args, "-z")
		d.c.Count("cli_follow_runs_with_gunzip_flag", 1)
	}
	for _, f := range m.files {
		args = append(args, f.path)
	}
	d.argv = args
	d.cmd = exec.Command(d.c.RareBin, args...)
	d.cmd.Env = append(os.Environ(), "VERIF_POINTS="+d.cs.Points, "VERIF_HOOK_LOG=")
	d.cmd.Stderr = &d.stderr
	so, err := d.cmd.StdoutPipe()
	if err != nil {
		return err
	}
	if err := d.cmd.Start(); err != nil {
		return err
	}
	d.done = make(chan struct{})
	go func() {
		defer close(d.done)
		rd := bufio.NewReaderSize(so, 1<<16)
		for {
			line, err := rd.ReadString('\n')
			if len(line) > 0 && strings.HasSuffix(line, "\n") {
				line = strings.TrimSuffix(line, "\n")
				// "<source> <lineno>: <text>"
				sp := strings.IndexByte(line, ' ')
				co := -1
				if sp > 0 {
					co = strings.Index(line[sp+1:], ": ")
				}
				m.mu.Lock()
				var f *lfile
				if sp > 0 && co >= 0 {
					f = m.byPath[line[:sp]]
				}
				if f == nil {
					m.fail("cli-output", fmt.Sprintf("unparseable output line %q of `rare %s`", line, strings.Join(args, " ")))
				} else {
					no, _ := strconv.ParseUint(line[sp+1:sp+1+co], 10, 64)
					m.deliver(f, line[sp+1+co+2:], no)
				}
				m.bcast()
				m.mu.Unlock()
			}
			if err != nil {
				break
			}
		}
		m.mu.Lock()
		m.closed = true
		if se := d.stderr.String(); strings.Contains(se, "too many open files") || strings.Contains(se, "Unable to open file") || strings.Contains(se, "no space left") {
			d.env.Store(true) // inotify instance limit etc.: environment, not the property
		} else if !d.ending.Load() && d.cs.Reopen {
			m.fail("ended-in-reopen", fmt.Sprintf("`rare %s` ended its output by itself: re-open follow keeps waiting for the path, whether or not a file is there at the moment; stderr: %s", strings.Join(args, " "), run.Q(d.stderr.String())))
		} else if !d.ending.Load() {
			for _, f := range m.files {
				if !f.removed {
					m.fail("ended-while-present", fmt.Sprintf("`rare %s` ended its output although %s still exists and was not removed; stderr: %s", strings.Join(args, " "), f.id, run.Q(d.stderr.String())))
				}
			}
		}
		m.bcast()
		m.mu.Unlock()
	}()
	return nil
}

func (d *cdrv) waitStarted(m *lmon) int {
	if !d.cs.Tail {
		return wOK
	}
	// --tail: nobody can tell from outside when the process has reached the end
	// of the file; append probe lines until the first one comes out. Whatever
	// was appended before that may or may not be part of the output (suffix rule).
	probe := func() {
		m.mu.Lock()
		var todo []*lfile
		for _, f := range m.files {
			if len(f.got) == 0 {
				todo = append(todo, f)
			}
		}
		m.mu.Unlock()
		for _, f := range todo {
			m.appendLines(f, 1, 1, 0)
			d.c.Count("tail_probe_lines", 1)
		}
	}
	return m.waitL(lineWaitLimit, 300*time.Millisecond, probe, func() bool {
		for _, f := range m.files {
			if len(f.got) == 0 {
				return false
			}
		}
		return true
	})
}

func (d *cdrv) finish(m *lmon, plain bool) int {
	if plain {
		r := m.waitL(lineWaitLimit, 0, nil, func() bool { return m.closed })
		if r == wOK {
			d.cmd.Wait()
			d.cmd = nil
		}
		return r
	}
	d.ending.Store(true)
	return wOK
}

func (d *cdrv) cleanup() {
	d.ending.Store(true)
	if d.cmd != nil && d.cmd.Process != nil {
		d.cmd.Process.Kill()
		<-d.done
		d.cmd.Wait()
	}
}

func (d *cdrv) check(m *lmon) {}

func (d *cdrv) diag() string {
	return fmt.Sprintf("command: rare %s; VERIF_POINTS=%q; stderr: %s", strings.Join(d.argv, " "), d.cs.Points, run.Q(d.stderr.String()))
}

func runCLI(c *run.Ctx, cs *Case, dir string) outcome {
	if c.RareBin == "" {
		return outcome{inconclusive: "no rare binary"}
	}
	d := &cdrv{c: c, cs: cs}
	out := runLines(c, cs, dir, d)
	if d.env.Load() {
		// one history not judged (the process never followed the file: removed before it was opened,
		// inotify limits ...); a note and a counter, not the verdict of the whole run
		c.Count("cli_histories_not_judged_environment", 1)
		c.Note("cli level: one history not judged, the rare process could not follow for an environmental reason: " + run.Q(d.stderr.String()))
		return outcome{}
	}
	return out
}
