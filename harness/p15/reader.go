package p15

import (
	"fmt"
	"os"
	"path/filepath"
	"runtime"
	"sort"
	"strings"
	"sync/atomic"
	"time"

	"rare/pkg/followreader"
	"rare/pkg/verifhook"

	"verifharness/internal/run"
)

// The fingerprint of DESIGN 6 #23.
const fpRecreate = "notify-reopen:recreate-before-delete-handled"

const (
	hookWait   = "notify.beforeWait"
	hookWrite  = "notify.afterWrite"
	hookDelete = "notify.afterDelete"
	hookStat   = "poll.beforeStat"
)

var allHooks = []string{hookWait, hookWrite, hookDelete, hookStat}

// watchdogs (wall clock). Their expiry alone is never a violation.
var (
	waitLimit   = 150 * time.Second // one synchronisation of the writer with the monitor
	snapAfter   = 1500 * time.Millisecond
	snapSpacing = 5200 * time.Millisecond
	pollCycles  = int64(8) // complete poll cycles without progress = the poller looked and did not deliver
	minTicks    = 12       // see canaryRoundTrip
)

const (
	wOK = iota
	wBad
	wStuck
	wTimeout
)

// outcome of one history
type outcome struct {
	class        string // "" = held
	msg          string
	inconclusive string
	known        bool // class is the known re-create class
}

type hist struct {
	c    *run.Ctx
	cs   *Case
	m    *mon
	dir  string
	path string
	w    *os.File
	done chan struct{}
	started chan struct{}
	gid  atomic.Int64
	rng  *run.Rand

	appended int64 // bytes that must be delivered (under m.mu)

	earlyGen              int // generation that was re-created before the reader had noticed the removal (-1: none)
	rotations             map[string]int
	stuckMsg              string
	timeoutMsg            string
}

func (h *hist) hook(loc string) {
	m := h.m
	if g := h.gid.Load(); g != 0 && goid() != g {
		// a reader left over from an earlier history (it was told to stop): end it here
		runtime.Goexit()
	}
	m.mu.Lock()
	m.hits[loc]++
	if loc != hookStat {
		m.ev(loc, -1)
	}
	if m.stop {
		m.bcast()
		m.mu.Unlock()
		runtime.Goexit()
	}
	if m.gateLoc == loc {
		my := m.armSeq
		m.held = loc
		m.heldSeq = my
		m.heldCnt[loc]++
		m.ev("held@"+loc, -1)
		m.bcast()
		// a hold ends with its release even if the writer re-arms before this goroutine is scheduled again:
		// a stale hold would otherwise be taken for an arrival at the NEW arming point (see notes/C15.md, false alarms)
		for m.gateLoc == loc && m.armSeq == my && !m.stop {
			ch := m.ch
			m.mu.Unlock()
			<-ch
			m.mu.Lock()
		}
		m.held = ""
		m.bcast()
		if m.stop {
			m.mu.Unlock()
			runtime.Goexit()
		}
	} else {
		m.bcast()
	}
	var sleep time.Duration = -1
	if d, ok := h.cs.Delays[loc]; ok && h.rng.Intn(1000) < d.PerMille {
		sleep = time.Duration(d.Us) * time.Microsecond
	}
	m.mu.Unlock()
	if sleep == 0 {
		runtime.Gosched()
	} else if sleep > 0 {
		time.Sleep(sleep)
	}
}

// consumerCheckpoint runs between two Read calls: stop, or be busy.
func (h *hist) consumerCheckpoint() bool {
	m := h.m
	m.mu.Lock()
	defer m.mu.Unlock()
	if m.stop {
		return false
	}
	// busy only once the reader has entered the newest generation: "delivered data followed by removal" is the
	// statement's premise; a file removed before the reader ever opened it may be skipped as a whole, and the next
	// one starts with the same bytes (busyAt does not count the prefill, so the threshold alone can be met early)
	if m.busyAt >= 0 && m.delivered >= m.busyAt && m.cur == len(m.gens)-1 {
		my := m.armSeq
		m.held = "consumer"
		m.heldSeq = my
		m.heldCnt["consumer"]++
		m.ev("busy", -1)
		m.bcast()
		for m.busyAt >= 0 && m.armSeq == my && !m.stop {
			ch := m.ch
			m.mu.Unlock()
			<-ch
			m.mu.Lock()
		}
		m.held = ""
		m.bcast()
		if m.stop {
			return false
		}
	}
	return true
}

func (h *hist) consumer(r followreader.FollowReader) {
	defer close(h.done)
	defer r.Close()
	h.gid.Store(goid())
	close(h.started)
	buf := make([]byte, h.cs.Buf)
	p, val, stack := run.Guard(func() {
		for i := 0; ; i++ {
			if !h.consumerCheckpoint() {
				return
			}
			if k := len(h.cs.ConsumerUs); k > 0 {
				if us := h.cs.ConsumerUs[i%k]; us > 0 {
					time.Sleep(time.Duration(us) * time.Microsecond)
				}
			}
			n, err := r.Read(buf)
			h.m.mu.Lock()
			stopped := h.m.stop
			h.m.mu.Unlock()
			if stopped {
				return
			}
			h.m.onRead(buf[:n], err)
			if err != nil {
				return
			}
		}
	})
	if p {
		h.m.mu.Lock()
		h.m.panicked = fmt.Sprint(val)
		h.m.fail("panic", fmt.Sprintf("Read panicked: %v\n%s", val, stack))
		h.m.bcast()
		h.m.mu.Unlock()
	}
}

// ---------------------------------------------------------------- writer side

func (h *hist) lastGen() *gen { return h.m.gens[len(h.m.gens)-1] }

// appendBytes registers n more bytes of the current generation in the model and then writes them.
func (h *hist) appendBytes(n, pieces int) {
	if n <= 0 {
		return
	}
	m := h.m
	m.mu.Lock()
	gi := len(m.gens) - 1
	g := m.gens[gi]
	from := len(g.content)
	g.content = streamBytes("r", gi, from+n)[:from+n]
	data := g.content[from:]
	h.appended += int64(n)
	m.ev("W", -1)
	m.bcast()
	m.mu.Unlock()
	if pieces < 1 {
		pieces = 1
	}
	step := (n + pieces - 1) / pieces
	for len(data) > 0 {
		k := step
		if k > len(data) {
			k = len(data)
		}
		h.w.Write(data[:k])
		data = data[k:]
	}
}

type waitSpec struct {
	what string
	pred func() bool // under m.mu
	// expectEOF: the wait is for the end of the stream after removal
	expectEOF bool
	// soft: expiry is not an error (the caller goes on)
	soft  bool
	limit time.Duration
}

// wait blocks the writer until pred holds. This is a synchronisation with the
// monitor; the clocks below only decide when to LOOK for stuck-state evidence
// and when to give up as inconclusive.
func (h *hist) wait(ws waitSpec) int {
	m := h.m
	start := time.Now()
	limit := ws.limit
	if limit == 0 {
		limit = waitLimit
	}
	var baseDelivered, baseReads int64 = -1, -1
	var baseStat int64
	var snapA *gsnap
	var snapAt time.Time
	var snapHits string
	ticks := 0 // loop rounds since snapshot A in which a timer fired and the canary thread answered
	hitsStr := func() string {
		var ks []string
		for k, v := range m.hits {
			ks = append(ks, fmt.Sprintf("%s=%d", k, v))
		}
		sort.Strings(ks)
		return strings.Join(ks, " ")
	}
	for {
		m.mu.Lock()
		if m.bad != nil {
			m.mu.Unlock()
			return wBad
		}
		if ws.pred() {
			m.mu.Unlock()
			return wOK
		}
		ch := m.ch
		// is there something that the reader owes us?
		undelivered := !m.drainedLocked()
		owes := (undelivered && m.held == "") || (ws.expectEOF && !m.eof)
		if m.delivered != baseDelivered || m.reads != baseReads {
			baseDelivered, baseReads = m.delivered, m.reads
			baseStat = m.hits[hookStat]
			snapA = nil
		}
		statNow := m.hits[hookStat]
		hs := hitsStr()
		disk := h.diskState()
		tail := strings.Join(m.tailLog, " ")
		m.mu.Unlock()

		if owes && !ws.soft {
			if h.cs.Kind == "poll" {
				if statNow-baseStat >= pollCycles && h.diskConfirms(ws.expectEOF) {
					h.stuckMsg = fmt.Sprintf("while waiting for %q the poller completed %d further poll cycles (poll.beforeStat %d -> %d, each with ReadAttempts=%d reads) and delivered nothing; %s; hook hits: %s; last events: %s",
						ws.what, statNow-baseStat, baseStat, statNow, h.cs.ReadAttempts, disk, hs, tail)
					return wStuck
				}
			} else if time.Since(start) >= snapAfter {
				if snapA == nil {
					s := notifySnap(h.gid.Load())
					if s.parked {
						snapA, snapAt, snapHits = &s, time.Now(), hs
						ticks = 0
					}
				} else if time.Since(snapAt) >= snapSpacing && ticks >= minTicks {
					s := notifySnap(h.gid.Load())
					if s.parked && s.stack == snapA.stack && s.readerG == snapA.readerG && hs == snapHits && h.diskConfirms(ws.expectEOF) {
						h.stuckMsg = fmt.Sprintf("while waiting for %q: the writer has finished, %s, and the reader goroutine %s is parked in the select of NotifyFollowReader.Read in two goroutine dumps %.1f s apart with identical stacks (the process kept being scheduled in between: %d timer rounds with a woken-from-syscall canary thread answering); rare's watcher goroutine (chan receive) and fsnotify's readEvents (epoll_wait) are parked in both, so no notification is in flight; hook hits unchanged (%s); last events: %s\n--- dump 1 ---\n%s--- dump 2 ---\n%s",
							ws.what, disk, s.readerG, time.Since(snapAt).Seconds(), ticks, hs, tail, snapA.text, s.text)
						return wStuck
					}
					snapA = nil
				}
			}
		}
		if time.Since(start) > limit {
			h.timeoutMsg = fmt.Sprintf("watchdog (%v) expired while waiting for %q without stuck-state evidence; %s; hook hits: %s; last events: %s", limit, ws.what, disk, hs, tail)
			return wTimeout
		}
		select {
		case <-ch:
		case <-time.After(250 * time.Millisecond):
			// the process is being scheduled: timers fire and a thread blocked in a
			// system call (like fsnotify's) is woken and answers
			if snapA != nil && canaryRoundTrip() {
				ticks++
			}
		}
	}
}

func (h *hist) diskState() string {
	st, err := os.Stat(h.path)
	m := h.m
	if err != nil {
		return fmt.Sprintf("the path does not exist on disk; model: generation %d of %d, offset %d of %d, removed=%v, %d bytes delivered", m.cur, len(m.gens), m.off, len(m.gens[m.cur].content), m.gens[m.cur].removed, m.delivered)
	}
	last := len(m.gens) - 1
	return fmt.Sprintf("the file on disk is generation %d with %d bytes; the reader has delivered up to generation %d offset %d (%d bytes in total, %d appended)",
		last, st.Size(), m.cur, m.off, m.delivered, h.appended)
}

// diskConfirms: the file system shows what the reader owes (bytes beyond the
// delivered offset / a re-created file; or, for the end of stream, no file).
func (h *hist) diskConfirms(expectEOF bool) bool {
	st, err := os.Stat(h.path)
	if expectEOF {
		return err != nil && os.IsNotExist(err)
	}
	if err != nil {
		return false
	}
	m := h.m
	m.mu.Lock()
	defer m.mu.Unlock()
	last := len(m.gens) - 1
	want := int64(len(m.gens[last].content))
	if st.Size() != want {
		return false
	}
	if m.cur == last {
		return int64(m.off) < want
	}
	return want > 0
}

func (h *hist) waitDrained(what string) int {
	return h.wait(waitSpec{what: what, pred: h.m.drainedLocked})
}

func (h *hist) release() {
	m := h.m
	m.mu.Lock()
	m.busyAt = -1
	m.gateLoc = ""
	m.bcast()
	m.mu.Unlock()
}

// arrive waits until the reader (or consumer) is held at loc.
func (h *hist) arrive(loc string) int {
	return h.wait(waitSpec{what: "reader held at " + loc, pred: func() bool { return h.m.held == loc && h.m.heldSeq == h.m.armSeq }})
}

func (h *hist) armBusy(poke int) {
	m := h.m
	m.mu.Lock()
	m.busyAt = h.appended + int64(poke)
	m.armSeq++
	m.bcast()
	m.mu.Unlock()
}

func (h *hist) armGate(loc string) {
	m := h.m
	m.mu.Lock()
	m.gateLoc = loc
	m.armSeq++
	m.bcast()
	m.mu.Unlock()
}

func (h *hist) noticedLocked(hDel, hStat int64) bool {
	if h.cs.Kind == "notify" {
		return h.m.hits[hookDelete] > hDel
	}
	return h.m.hits[hookStat] >= hStat+2
}

// removeFile marks the generation removed (EOF becomes legitimate for plain
// follow from here on) and removes the path.
func (h *hist) removeFile() {
	m := h.m
	m.mu.Lock()
	h.lastGen().removed = true
	m.ev("RM", -1)
	m.bcast()
	m.mu.Unlock()
	if h.w != nil {
		h.w.Close()
		h.w = nil
	}
	os.Remove(h.path)
}

// rot: remove the drained file and re-create it (re-open follow).
func (h *hist) rot(op Op) int {
	m := h.m
	how := op.How
	if how == "" {
		how = "noticed"
	}
	poke := op.Poke
	if strings.HasPrefix(how, "at:") && !strings.HasPrefix(how, "at:"+h.cs.Kind+".") {
		how = "immediate" // a hook point of the other reader kind is never reached
	}
	switch {
	case how == "busy":
		if poke < 1 {
			poke = 1
		}
		h.armBusy(poke)
		h.appendBytes(poke, 1)
		if r := h.arrive("consumer"); r != wOK {
			return r
		}
	case strings.HasPrefix(how, "at:") && how != "at:"+hookDelete:
		loc := how[3:]
		h.armGate(loc)
		if loc != hookStat && poke < 1 {
			poke = 1
		}
		h.appendBytes(poke, 1)
		if r := h.arrive(loc); r != wOK {
			return r
		}
		m.mu.Lock()
		dr := m.drainedLocked()
		m.mu.Unlock()
		if !dr {
			// held before everything was delivered: removal must wait for the drain
			h.release()
			if r := h.waitDrained("drain before removal"); r != wOK {
				return r
			}
			how = "immediate"
		}
	default:
		if r := h.waitDrained("drain before removal"); r != wOK {
			return r
		}
		if how == "at:"+hookDelete {
			h.armGate(hookDelete)
		}
	}
	m.mu.Lock()
	hDel, hStat := m.hits[hookDelete], m.hits[hookStat]
	prev := h.lastGen()
	prevDelivered := len(prev.content) - prev.start
	m.mu.Unlock()
	if h.cs.Kind == "poll" && prevDelivered < 2 {
		// the statement's proviso (new file shorter than what was delivered) cannot be met: not judged
		h.release()
		return wOK
	}
	h.removeFile()
	switch how {
	case "noticed":
		h.wait(waitSpec{what: "reader noticed the removal", soft: true, limit: 90 * time.Second,
			pred: func() bool { return h.noticedLocked(hDel, hStat) }})
	case "at:" + hookDelete:
		if r := h.arrive(hookDelete); r != wOK {
			return r
		}
	}
	n := op.N
	if h.cs.Kind == "poll" && n > prevDelivered-1 {
		n = prevDelivered - 1
	}
	m.mu.Lock()
	noticed := h.noticedLocked(hDel, hStat)
	gi := len(m.gens)
	if !noticed {
		h.earlyGen = gi
	}
	m.gens = append(m.gens, &gen{content: streamBytes("r", gi, n)[:0]})
	m.ev("MK", -1)
	m.bcast()
	m.mu.Unlock()
	h.rotations[how]++
	f, err := os.OpenFile(h.path, os.O_CREATE|os.O_EXCL|os.O_WRONLY|os.O_APPEND, 0o644)
	if err != nil {
		h.timeoutMsg = "cannot re-create the followed file: " + err.Error()
		return wTimeout
	}
	h.w = f
	if op.Gap > 0 {
		time.Sleep(time.Duration(op.Gap) * time.Microsecond)
	}
	h.appendBytes(n, 1)
	m.mu.Lock()
	hStat2 := m.hits[hookStat]
	held := m.held != ""
	m.mu.Unlock()
	if held && op.Settle > 0 {
		time.Sleep(time.Duration(op.Settle) * time.Microsecond)
	}
	h.release()
	if n > 0 {
		if h.cs.Kind == "notify" && op.NoWait {
			return wOK
		}
		return h.wait(waitSpec{what: "first byte of the re-created file", pred: func() bool {
			return m.cur == len(m.gens)-1 && m.off > 0
		}})
	}
	if h.cs.Kind == "poll" {
		// empty new file: wait until the poller has looked at it
		h.wait(waitSpec{what: "poller looked at the empty re-created file", soft: true, limit: 90 * time.Second,
			pred: func() bool { return m.hits[hookStat] >= hStat2+2 }})
	}
	return wOK
}

// sibling: activity on another file of the followed file's directory (never on the followed path itself).
func (h *hist) sibling(op Op) {
	base := filepath.Base(h.path)
	ext := filepath.Ext(base)
	names := []string{"old-" + base, base + ".1", "x" + base, base[1:], base + "~", strings.TrimSuffix(base, ext)}
	name := filepath.Join(h.dir, names[((op.N%len(names))+len(names))%len(names)])
	touch := func(p string) {
		if f, err := os.OpenFile(p, os.O_CREATE|os.O_WRONLY|os.O_APPEND, 0o644); err == nil {
			f.Write([]byte("sibling line\n"))
			f.Close()
		}
	}
	switch op.How {
	case "rm":
		touch(name)
		os.Remove(name)
	case "mv":
		touch(name)
		os.Rename(name, filepath.Join(h.dir, "moved-"+filepath.Base(name)))
	default:
		touch(name)
	}
	h.m.mu.Lock()
	h.m.siblingOps++
	h.m.mu.Unlock()
}

func (h *hist) execOps() int {
	m := h.m
	for _, op := range h.cs.Ops {
		m.mu.Lock()
		b := m.bad
		m.mu.Unlock()
		if b != nil {
			return wBad
		}
		switch op.K {
		case "app":
			h.appendBytes(op.N, op.W)
		case "pause":
			if op.N > 0 {
				time.Sleep(time.Duration(op.N) * time.Microsecond)
			} else {
				runtime.Gosched()
			}
		case "drain":
			if r := h.waitDrained("delivered == appended"); r != wOK {
				return r
			}
		case "busy":
			n := op.N
			if n < 1 {
				n = 1
			}
			h.armBusy(n)
			h.appendBytes(n, 1)
			if r := h.arrive("consumer"); r != wOK {
				return r
			}
		case "gate":
			if !strings.HasPrefix(op.Loc, h.cs.Kind+".") || op.Loc == hookDelete {
				continue // never reached in an in-place history
			}
			h.armGate(op.Loc)
			n := op.N
			if op.Loc != hookStat && n < 1 {
				n = 1
			}
			h.appendBytes(n, 1)
			if r := h.arrive(op.Loc); r != wOK {
				return r
			}
		case "release":
			h.release()
		case "sib":
			h.sibling(op)
		case "rot":
			if !h.cs.Reopen {
				continue
			}
			if r := h.rot(op); r != wOK {
				return r
			}
		case "rm":
			if h.cs.Reopen {
				continue
			}
			if op.How == "busy" {
				n := op.Poke
				if n < 1 {
					n = 1
				}
				h.armBusy(n)
				h.appendBytes(n, 1)
				if r := h.arrive("consumer"); r != wOK {
					return r
				}
			} else if r := h.waitDrained("drain before removal"); r != wOK {
				return r
			}
			h.removeFile()
			h.release()
			return h.wait(waitSpec{what: "end of stream after removal", expectEOF: true, pred: func() bool { return m.eof }})
		}
	}
	h.release()
	if r := h.waitDrained("delivered == appended at the end of the history"); r != wOK {
		return r
	}
	if h.cs.Kind == "poll" {
		// let the poller look a few more times: a late duplicate delivery would show up here
		m.mu.Lock()
		h0 := m.hits[hookStat]
		m.mu.Unlock()
		if r := h.wait(waitSpec{what: "three more poll cycles", soft: true, limit: 60 * time.Second,
			pred: func() bool { return m.hits[hookStat] >= h0+3 }}); r == wBad {
			return r
		}
	}
	return wOK
}

// stopReader ends a reader that is (legitimately) still waiting.
func (h *hist) stopReader() {
	m := h.m
	m.mu.Lock()
	m.stop = true
	m.busyAt = -1
	m.gateLoc = ""
	m.bcast()
	m.mu.Unlock()
	if h.w != nil {
		h.w.Close()
		h.w = nil
	}
	deadline := time.Now().Add(30 * time.Second)
	for i := 0; ; i++ {
		wait := 50 * time.Millisecond
		if i > 4 {
			wait = 500 * time.Millisecond
		}
		select {
		case <-h.done:
			return
		default:
		}
		if h.cs.Kind == "notify" {
			// any event on the path wakes the reader; its next hook point ends the goroutine
			if f, err := os.OpenFile(h.path, os.O_CREATE|os.O_WRONLY|os.O_APPEND, 0o644); err == nil {
				f.Write([]byte{'#'})
				f.Close()
			}
		}
		select {
		case <-h.done:
			return
		case <-time.After(wait):
		}
		if time.Now().After(deadline) {
			h.c.Count("reader_left_behind", 1)
			return
		}
	}
}

// runReaderOnce executes one reader-level history.
func runReaderOnce(c *run.Ctx, cs *Case, dir string) (out outcome) {
	h := &hist{c: c, cs: cs, m: newMon(cs.Reopen), dir: dir, path: filepath.Join(dir, "follow.log"),
		done: make(chan struct{}), started: make(chan struct{}), earlyGen: -1, rng: run.NewRand(int64(cs.DelaySeed), "delays"), rotations: map[string]int{}}
	os.RemoveAll(dir)
	if err := os.MkdirAll(dir, 0o755); err != nil {
		out.inconclusive = "mkdir: " + err.Error()
		return
	}
	defer os.RemoveAll(dir)
	m := h.m
	pre := streamBytes("r", 0, cs.Prefill)[:cs.Prefill]
	if err := os.WriteFile(h.path, pre, 0o644); err != nil {
		out.inconclusive = "prefill: " + err.Error()
		return
	}
	g0 := &gen{content: pre}
	if cs.Tail {
		g0.start = cs.Prefill
	}
	m.gens = []*gen{g0}
	m.off = g0.start

	verifhook.Reset()
	defer verifhook.Reset()
	for _, loc := range allHooks {
		loc := loc
		verifhook.Set(loc, func() { h.hook(loc) })
	}

	var r followreader.FollowReader
	var err error
	for try := 0; try < 8; try++ {
		if cs.Kind == "poll" {
			var p *followreader.PollingFollowReader
			p, err = followreader.NewPolling(h.path, cs.Reopen)
			if err == nil {
				p.PollDelay = time.Duration(cs.PollDelayUs) * time.Microsecond
				p.ReadAttempts = cs.ReadAttempts
				r = p
			}
		} else {
			r, err = followreader.NewNotify(h.path, cs.Reopen)
		}
		if err == nil {
			break
		}
		time.Sleep(time.Duration(200*(try+1)) * time.Millisecond) // inotify instance limit etc.: environment
	}
	if err != nil {
		out.inconclusive = "cannot open follow reader (environment): " + err.Error()
		return
	}
	if cs.Tail {
		if err := r.Drain(); err != nil {
			r.Close()
			out.inconclusive = "Drain: " + err.Error()
			return
		}
	}
	h.w, err = os.OpenFile(h.path, os.O_WRONLY|os.O_APPEND, 0o644)
	if err != nil {
		r.Close()
		out.inconclusive = "open for append: " + err.Error()
		return
	}
	go h.consumer(r)
	<-h.started

	res := h.execOps()
	h.stopReader()

	m.mu.Lock()
	defer m.mu.Unlock()
	// evidence counters
	c.Count("reads", m.reads)
	c.Count("sibling_file_events", m.siblingOps)
	c.Count("bytes_delivered_and_compared", m.delivered)
	c.Count("events_observed", m.events)
	for k, v := range m.hits {
		c.Count("hook_hits:"+k, v)
	}
	for k, v := range m.heldCnt {
		c.Count("held_at:"+k, v)
	}
	for k, v := range h.rotations {
		c.Count("recreate:"+cs.Kind+":"+k, int64(v))
	}
	c.Count("generations", int64(len(m.gens)))
	if m.eof {
		c.Count("end_of_stream_after_removal", 1)
	}
	c.SetAdd("distinct_interleavings", fmt.Sprintf("%016x", m.sig))
	if m.envErr != "" {
		out.inconclusive = "Read failed with an environment error: " + m.envErr
		return
	}
	cfg := fmt.Sprintf("reader=%s reopen=%v tail=%v", cs.Kind, cs.Reopen, cs.Tail)
	switch res {
	case wOK:
		if m.bad != nil {
			out.class, out.msg = m.bad.class, cfg+": "+m.bad.msg
		}
	case wBad:
		out.class, out.msg = m.bad.class, cfg+": "+m.bad.msg
	case wStuck:
		out.class = "lost-wakeup"
		what := "bytes appended to the followed file are never delivered"
		last := len(m.gens) - 1
		if m.gens[m.cur].removed && !cs.Reopen {
			what = "plain follow does not end after the drained file was removed"
			out.class = "no-end-after-removal"
		} else if m.cur < last {
			what = fmt.Sprintf("the re-created file (generation %d, %d bytes) is never read", last, len(m.gens[last].content))
			if cs.Kind == "notify" && cs.Reopen && h.earlyGen == last && m.cur == last-1 && m.off == len(m.gens[m.cur].content) {
				out.known = true
				what += "; it was re-created before the reader had handled the delete notification (notify.afterDelete not yet reached), so the Create/Write signal was consumed while the old file was still open and the reader now waits for a write event that already happened"
			}
		}
		out.msg = cfg + ": " + what + ". Evidence: " + h.stuckMsg
	case wTimeout:
		out.inconclusive = cfg + ": " + h.timeoutMsg
	}
	return
}
