package p15

import (
	"encoding/json"
	"fmt"
	"os"
	"path/filepath"
	"sync"
	"time"

	"verifharness/internal/reg"
	"verifharness/internal/run"
)

func init() { reg.Register("C15", Run) }

// ---------------------------------------------------------------- generators

func pickSize(r *run.Rand, buf int) int {
	var n int
	switch k := r.Intn(20); {
	case k < 6:
		n = r.Range(1, 16)
	case k < 12:
		n = r.Range(17, 700)
	case k < 16:
		n = r.Range(701, 20000)
	case k < 18:
		n = r.Range(20001, 140000)
	case k == 18:
		n = 131072 + r.Range(-2, 2) // the read buffer rare itself uses
	default:
		n = r.Range(140001, 300*1024)
	}
	if buf < 64 && n > 1500 {
		n = 1 + n%1500 // tiny consumer buffers: keep the number of Read calls bounded
	} else if buf < 4096 && n > 40000 {
		n = 1 + n%40000
	}
	return n
}

func smallSize(r *run.Rand) int {
	if r.Chance(0.7) {
		return r.Range(1, 40)
	}
	return r.Range(41, 3000)
}

func pickPause(r *run.Rand) int {
	switch r.Intn(6) {
	case 0:
		return 0
	case 1:
		return r.Range(1, 50)
	case 2, 3:
		return r.Range(50, 600)
	default:
		return r.Range(600, 3000)
	}
}

// genReader builds reader-level history idx. knownRecreate keeps the notify
// re-open generator out of the class of DESIGN 6 #23 (and only out of it).
func genReader(r *run.Rand, idx int, thorough, knownRecreate bool) *Case {
	cs := &Case{Level: "reader"}
	if idx&1 == 0 {
		cs.Kind = "notify"
	} else {
		cs.Kind = "poll"
	}
	cs.Reopen = idx>>1&1 == 1
	cs.Tail = idx>>2&1 == 1
	switch k := r.Intn(10); {
	case k < 3:
		cs.Prefill = 0
	case k < 6:
		cs.Prefill = r.Range(1, 300)
	case k < 9:
		cs.Prefill = r.Range(301, 9000)
	default:
		cs.Prefill = r.Range(100000, 280000)
	}
	cs.Buf = []int{1, 7, 64, 512, 4096, 65536, 131072, 131072, 262144}[r.Intn(9)]
	if cs.Buf < 64 && cs.Prefill > 3000 && !cs.Tail {
		cs.Prefill %= 3000
	}
	if cs.Kind == "poll" {
		cs.PollDelayUs = []int{200, 500, 1000, 2000}[r.Intn(4)]
		cs.ReadAttempts = []int{1, 2, 3, 5}[r.Intn(4)]
	}
	if r.Chance(0.5) {
		for i, n := 0, r.Range(1, 4); i < n; i++ {
			us := []int{0, 0, 30, 300, 2000}[r.Intn(5)]
			if cs.Buf < 512 {
				us = 0 // thousands of Read calls: keep the history short
			}
			cs.ConsumerUs = append(cs.ConsumerUs, us)
		}
	}
	locs := []string{hookWait, hookWrite, hookDelete}
	if cs.Kind == "poll" {
		locs = []string{hookStat}
	}
	for _, l := range locs {
		if r.Chance(0.35) {
			if cs.Delays == nil {
				cs.Delays = map[string]Delay{}
			}
			cs.Delays[l] = Delay{PerMille: []int{100, 300, 500, 1000}[r.Intn(4)], Us: []int{0, 20, 200, 1500}[r.Intn(4)]}
		}
	}
	cs.DelaySeed = r.U64() >> 12

	inGen := 0 // bytes of the current generation that will have been delivered
	if !cs.Tail {
		inGen = cs.Prefill
	}
	total := 0
	budget := 1500000
	if cs.Buf < 64 {
		budget = 6000
	}
	app := func(n int) {
		if total+n > budget {
			n = 1 + n%(1+budget/50)
		}
		w := 1
		if n > 4 && r.Chance(0.25) {
			w = r.Range(2, 4)
		}
		cs.Ops = append(cs.Ops, Op{K: "app", N: n, W: w})
		inGen += n
		total += n
	}
	burst := func(max int, small bool) {
		for i, k := 0, r.Range(1, max); i < k; i++ {
			if small {
				app(smallSize(r))
			} else {
				app(pickSize(r, cs.Buf))
			}
			if r.Chance(0.5) {
				cs.Ops = append(cs.Ops, Op{K: "pause", N: pickPause(r)})
			}
		}
	}
	nseg := r.Range(2, 5)
	if thorough {
		nseg = r.Range(2, 9)
	}
	noisy := r.Chance(0.4) // the directory is shared with look-alike files that come and go
	for s := 0; s < nseg; s++ {
		if noisy && r.Chance(0.6) {
			cs.Ops = append(cs.Ops, Op{K: "sib", How: []string{"touch", "rm", "rm", "mv"}[r.Intn(4)], N: r.Intn(6)})
			if r.Chance(0.5) {
				cs.Ops = append(cs.Ops, Op{K: "pause", N: pickPause(r)})
			}
		}
		k := r.Intn(10)
		switch {
		case k < 3:
			burst(5, false)
		case k < 5:
			// slow consumer: stays outside Read while the writer goes on (notifications coalesce)
			n := smallSize(r)
			cs.Ops = append(cs.Ops, Op{K: "busy", N: n})
			inGen += n
			total += n
			burst(4, r.Chance(0.6))
			cs.Ops = append(cs.Ops, Op{K: "release"})
		case k < 7:
			// reader held at a hook point inside Read while the writer goes on
			loc := hookStat
			n := 0
			if cs.Kind == "notify" {
				loc = []string{hookWait, hookWrite}[r.Intn(2)]
				n = smallSize(r)
			} else if r.Bool() {
				n = smallSize(r)
			}
			cs.Ops = append(cs.Ops, Op{K: "gate", Loc: loc, N: n})
			inGen += n
			total += n
			burst(4, r.Chance(0.6))
			cs.Ops = append(cs.Ops, Op{K: "release"})
		case k < 8:
			cs.Ops = append(cs.Ops, Op{K: "drain"})
		default:
			if !cs.Reopen {
				burst(3, false)
				continue
			}
			if inGen < 2 {
				app(r.Range(2, 400))
			}
			op := Op{K: "rot"}
			var hows []string
			switch {
			case cs.Kind == "poll":
				hows = []string{"noticed", "immediate", "busy", "at:" + hookStat}
			case knownRecreate:
				// #23 is open: re-create only once the reader has handled the delete notification
				hows = []string{"noticed", "at:" + hookDelete}
			default:
				hows = []string{"noticed", "at:" + hookDelete, "immediate", "busy", "at:" + hookWait}
			}
			op.How = hows[r.Intn(len(hows))]
			if op.How == "busy" || op.How == "at:"+hookWait {
				op.Poke = r.Range(1, 60)
				inGen += op.Poke
			}
			if cs.Kind == "poll" {
				op.N = r.Intn(inGen) // < what was delivered from the file being replaced
				if r.Chance(0.15) {
					op.N = 0
				}
			} else {
				op.N = []int{0, r.Range(1, 50), r.Range(1, 3000), pickSize(r, cs.Buf)}[r.Intn(4)]
				op.NoWait = r.Bool()
			}
			if r.Chance(0.3) {
				op.Gap = r.Range(50, 2000)
			}
			if r.Chance(0.4) {
				op.Settle = []int{100, 2000, 20000}[r.Intn(3)]
			}
			cs.Ops = append(cs.Ops, op)
			inGen = op.N
			total += op.N
			if r.Chance(0.7) {
				burst(3, r.Bool())
			}
		}
	}
	apps := 0
	for _, o := range cs.Ops {
		if o.K == "app" || o.K == "busy" || (o.K == "gate" && o.N > 0) || (o.K == "rot" && o.N > 0) {
			apps++
		}
	}
	for ; apps < 2; apps++ {
		app(pickSize(r, cs.Buf))
	}
	if !cs.Reopen && r.Chance(0.7) {
		op := Op{K: "rm"}
		if r.Chance(0.3) {
			op.How, op.Poke = "busy", r.Range(1, 40)
		}
		cs.Ops = append(cs.Ops, op)
	}
	return cs
}

// genLines builds a batch- or CLI-level history.
func genLines(r *run.Rand, idx int, level string, thorough, knownRecreate bool) *Case {
	cs := &Case{Level: level}
	if idx&1 == 0 {
		cs.Kind = "notify"
	} else {
		cs.Kind = "poll"
	}
	cs.Tail = idx>>1&1 == 1
	cs.Reopen = idx%8 >= 4 && (idx/8)%2 == 0 // a quarter of the cases follow with re-open
	cs.Files = r.Range(1, 4)
	if level == "cli" {
		cs.Files = r.Range(1, 2)
	}
	cs.Batch = []int{1, 1, 3, 1000}[r.Intn(4)]
	cs.Prefill = []int{0, 1, 7, 300}[r.Intn(4)]
	rot := cs.Reopen && !(cs.Kind == "notify" && knownRecreate && level == "cli")
	if cs.Reopen {
		cs.Files = 1
		if cs.Kind == "poll" {
			cs.Batch = 1
		}
	}
	if level == "cli" {
		switch {
		case cs.Kind == "notify" && r.Chance(0.6):
			cs.Points = fmt.Sprintf("notify.beforeWait=sleep:%dus:p0.5,notify.afterWrite=sleep:%dus:p0.3", r.Range(100, 3000), r.Range(100, 2000))
		case cs.Kind == "poll" && r.Chance(0.6):
			cs.Points = fmt.Sprintf("poll.beforeStat=sleep:%dms:p0.5", r.Range(1, 20))
		}
	}
	nsteps := r.Range(3, 7)
	if thorough {
		nsteps = r.Range(3, 12)
	}
	lines := 0
	for s := 0; s < nsteps; s++ {
		k := r.Intn(10)
		switch {
		case k < 6:
			st := LStep{K: "lines", File: r.Intn(cs.Files)}
			st.Lines = []int{1, 2, r.Range(1, 12), r.Range(10, 120), r.Range(100, 2500)}[r.Intn(5)]
			if r.Chance(0.4) {
				st.Pieces = r.Range(2, 5) // lines split across writes: partial lines must be reassembled
				st.GapUs = []int{0, 200, 3000, 30000}[r.Intn(4)]
			}
			lines += st.Lines
			cs.Steps = append(cs.Steps, st)
		case k < 7:
			cs.Steps = append(cs.Steps, LStep{K: "pause", N: []int{100, 2000, 30000, 280000}[r.Intn(4)]})
		case k < 8:
			cs.Steps = append(cs.Steps, LStep{K: "drain"})
		default:
			if !rot {
				continue
			}
			if lines == 0 {
				cs.Steps = append(cs.Steps, LStep{K: "lines", Lines: r.Range(2, 9)})
			}
			how := "noticed"
			if !(cs.Kind == "notify" && knownRecreate) && r.Bool() {
				how = "immediate"
			}
			cs.Steps = append(cs.Steps, LStep{K: "rot", File: 0, Lines: r.Range(1, 6), How: how})
			lines = 1
		}
	}
	for n := 0; lines < 2 && n < 2; n++ {
		cs.Steps = append(cs.Steps, LStep{K: "lines", File: 0, Lines: 2})
		lines += 2
	}
	return cs
}

// pinned cases: always executed. The first is the witness of DESIGN 6 #23 and
// stays as the regression case once the defect is repaired.
func pinned() []*Case {
	witness := &Case{Level: "reader", Kind: "notify", Reopen: true, Buf: 4096, Pinned: "witness-23", Repeat: 24,
		Ops: []Op{{K: "app", N: 64}, {K: "drain"}, {K: "rot", How: "busy", Poke: 16, N: 32, Settle: 40000}, {K: "drain"}}}
	ps := []*Case{witness}
	// one smoke history per configuration: in-place appends under a busy consumer, then removal / rotation
	for i := 0; i < 8; i++ {
		cs := &Case{Level: "reader", Buf: 4096, Prefill: 100, Pinned: fmt.Sprintf("smoke-%d", i), PollDelayUs: 500, ReadAttempts: 2}
		cs.Kind = []string{"notify", "poll"}[i&1]
		cs.Reopen = i>>1&1 == 1
		cs.Tail = i>>2&1 == 1
		cs.Ops = []Op{{K: "app", N: 10}, {K: "busy", N: 5}, {K: "app", N: 200000}, {K: "app", N: 3}, {K: "release"}, {K: "drain"}}
		if cs.Reopen {
			cs.Ops = append(cs.Ops, Op{K: "rot", How: "noticed", N: 20}, Op{K: "app", N: 500}, Op{K: "rot", How: "noticed", N: 0}, Op{K: "app", N: 70})
		} else {
			cs.Ops = append(cs.Ops, Op{K: "rm"})
		}
		ps = append(ps, cs)
	}
	return ps
}

// ---------------------------------------------------------------- running

func caseHash(cs *Case) string {
	b, _ := json.Marshal(cs)
	return run.Hash64(string(b))
}

func appendsOf(cs *Case) int {
	n := 0
	for _, o := range cs.Ops {
		switch o.K {
		case "app", "busy":
			n++
		case "gate", "rot":
			if o.N > 0 {
				n++
			}
			if o.Poke > 0 {
				n++
			}
		}
	}
	for _, s := range cs.Steps {
		if s.K == "lines" || s.K == "rot" {
			n++
		}
	}
	return n
}

var dirSeq struct {
	sync.Mutex
	n int
}

func workDir(c *run.Ctx) string {
	dirSeq.Lock()
	dirSeq.n++
	n := dirSeq.n
	dirSeq.Unlock()
	return filepath.Join(c.WorkDir, fmt.Sprintf("h%05d", n))
}

// execute runs one case (all levels) and reports.
func execute(c *run.Ctx, cs *Case) {
	rep := cs.Repeat
	if rep < 1 {
		rep = 1
	}
	var out outcome
	t0 := time.Now()
	defer func() {
		if os.Getenv("VERIF_C15_TRACE") != "" {
			b, _ := json.Marshal(cs)
			fmt.Fprintf(os.Stderr, "TRACE %.2fs class=%q inc=%q %s\n", time.Since(t0).Seconds(), out.class, out.inconclusive, b)
		}
	}()
	for i := 0; i < rep; i++ {
		switch cs.Level {
		case "batch":
			out = runBatch(c, cs, workDir(c))
		case "cli":
			out = runCLI(c, cs, workDir(c))
		default:
			out = runReaderOnce(c, cs, workDir(c))
		}
		c.Count("histories", 1)
		c.Count("histories:"+cs.Level, 1)
		if out.class != "" || out.inconclusive != "" {
			break
		}
	}
	c.SetAdd("configs", fmt.Sprintf("%s/%s/reopen=%v/tail=%v", cs.Level, cs.Kind, cs.Reopen, cs.Tail))
	if appendsOf(cs) >= 2 {
		c.Nontrivial(caseHash(cs))
	}
	c.Count("appends", int64(appendsOf(cs)))
	switch {
	case out.class != "":
		fp := out.class + ":" + caseHash(cs)
		if out.known {
			fp = fpRecreate
		}
		c.Violation(fp, out.msg, cs)
	case out.inconclusive != "":
		c.Inconclusive(out.inconclusive)
	default:
		c.Count("histories_held", 1)
	}
}

// Run is the C15 entry point.
func Run(c *run.Ctx) {
	caseLimit := 25 * time.Minute // own watchdogs decide long before; this one only guards the harness itself
	if c.Replay != nil {
		var cs Case
		if err := json.Unmarshal(c.Replay, &cs); err != nil {
			c.Inconclusive("replay: " + err.Error())
			return
		}
		c.Begin(&cs, caseLimit)
		if cs.Level == "cligroup" {
			runGroup(c, cs.Group)
		} else {
			if cs.Repeat > 0 && cs.Repeat < 24 {
				cs.Repeat = 24
			}
			execute(c, &cs)
		}
		c.End()
		return
	}
	known := c.KnownActive(fpRecreate)
	race := c.Flavour == "race"
	nReader, nBatch, nCLI := c.N(400, 5000), c.N(16, 200), c.N(8, 64)
	if race {
		nReader, nBatch, nCLI = 320, 24, 0
	}

	// CLI histories are separate processes that mostly wait: they run in the
	// background while the in-process histories run one at a time (the hook
	// points are process-global).
	var group []*Case
	for i := 0; i < nCLI; i++ {
		if c.Mine(i) {
			group = append(group, genLines(c.Rand("cli", i), i, "cli", c.Thorough(), known))
		}
	}
	var wg sync.WaitGroup
	if len(group) > 0 && c.RareBin != "" {
		c.Begin(&Case{Level: "cligroup", Group: group}, caseLimit)
		c.End()
		wg.Add(1)
		go func() {
			defer wg.Done()
			runGroup(c, group)
		}()
	}

	idx := 0
	for _, cs := range pinned() {
		if c.Mine(idx) {
			c.Begin(cs, caseLimit)
			execute(c, cs)
			c.End()
		}
		idx++
	}
	for i := 0; i < nReader; i++ {
		if !c.Mine(i) {
			continue
		}
		stream := "reader"
		if race {
			stream = "reader-race" // other histories than the plain flavour runs
		}
		cs := genReader(c.Rand(stream, i), i, c.Thorough(), known)
		c.Begin(cs, caseLimit)
		execute(c, cs)
		c.End()
		if i%64 == 0 {
			dropStreams()
			c.Checkpoint()
		}
		if c.Violations() >= 3 {
			break
		}
	}
	for i := 0; i < nBatch; i++ {
		if !c.Mine(i) {
			continue
		}
		stream := "batch"
		if race {
			stream = "batch-race"
		}
		cs := genLines(c.Rand(stream, i), i, "batch", c.Thorough(), known)
		c.Begin(cs, caseLimit)
		execute(c, cs)
		c.End()
	}
	wg.Wait()
	if known {
		c.Note("generator exclusion active: notify re-open histories re-create the file only after notify.afterDelete (" + fpRecreate + ")")
	}
}

// runGroup runs CLI histories concurrently (at most 3 at a time).
func runGroup(c *run.Ctx, group []*Case) {
	sem := make(chan struct{}, 3)
	var wg sync.WaitGroup
	for _, cs := range group {
		cs := cs
		wg.Add(1)
		sem <- struct{}{}
		go func() {
			defer wg.Done()
			defer func() { <-sem }()
			execute(c, cs)
		}()
	}
	wg.Wait()
	if len(group) > 1 {
		c.Evals(len(group) - 1)
	}
}
