// Package p15 decides C15: follow mode (-f / -F, inotify or --poll, with or
// without --tail) delivers every appended byte exactly once and in order,
// blocks while the file exists, ends on removal (plain follow) or continues
// with a re-created file from its first byte (re-open follow).
//
// The oracle is the statement turned into an executable model: the writer's
// log of appended bytes per file generation is the expected stream; every
// Read() result of the real reader is compared against it online.
package p15

import (
	"bytes"
	"fmt"
	"io"
	"strconv"
	"sync"
)

// ---------------------------------------------------------------- case

// Op is one step of a reader-level history (executed by the writer).
type Op struct {
	// K: app | pause | drain | busy | gate | release | rot | rm
	//   app     append N bytes (in W write calls, default 1)
	//   pause   sleep N microseconds (only varies timing; no verdict depends on it)
	//   drain   wait until delivered == appended
	//   busy    the consumer becomes busy (stays outside Read) as soon as everything
	//           up to and including the N bytes appended by this op is delivered
	//   gate    hold the reader at hook point Loc the next time it gets there;
	//           N>0 appends N bytes first-after-arming so that it does get there
	//   release end busy / gate
	//   rot     (re-open follow) remove the drained file and re-create it with N
	//           bytes; How = noticed | immediate | busy | at:<hook point>
	//   rm      (plain follow, last op) remove the drained file; the stream must end
	//   sib     something happens to ANOTHER file of the same directory whose name resembles the followed one
	//           (N picks the name: old-<base>, <base>.1, x<base>, <base minus its first letter>, <base>~, <base without
	//           extension>); How = touch (create / append) | rm (create, then remove) | mv (create, rename to another
	//           sibling name). The followed file stays in place, so nothing about the expected stream changes.
	K   string `json:"k"`
	N   int    `json:"n,omitempty"`
	W   int    `json:"w,omitempty"`
	Loc string `json:"loc,omitempty"`
	How string `json:"how,omitempty"`
	// rot: Poke bytes are appended to make the consumer busy / reach the gate,
	// Gap pauses (µs) between create and the first write of the new file,
	// NoWait skips waiting for the first byte of the new generation (notify only).
	// Settle pauses (µs) between the re-creation and the release of a held reader /
	// consumer, so that the notifications have normally been signalled by then
	// (shapes the schedule only).
	Poke   int  `json:"poke,omitempty"`
	Gap    int  `json:"gap,omitempty"`
	Settle int  `json:"settle,omitempty"`
	NoWait bool `json:"nowait,omitempty"`
}

// Delay is a seeded delay injected at a hook point inside Read.
type Delay struct {
	PerMille int `json:"pm"` // probability
	Us       int `json:"us"` // 0 = runtime.Gosched()
}

// LStep is one step of a line-level (batch / cli) history.
type LStep struct {
	// K: lines | drain | pause | rot
	K      string `json:"k"`
	File   int    `json:"file,omitempty"`
	Lines  int    `json:"lines,omitempty"`  // lines: how many; rot: lines in the new file
	Pieces int    `json:"pieces,omitempty"` // the bytes are written in this many write calls (lines split anywhere)
	GapUs  int    `json:"gap_us,omitempty"` // pause between pieces
	N      int    `json:"n,omitempty"`      // pause: µs
	How    string `json:"how,omitempty"`    // rot: noticed | immediate
}

// Case is one C15 execution.
type Case struct {
	Level  string `json:"level"` // reader | batch | cli | cligroup
	Kind   string `json:"kind"`  // notify | poll
	Reopen bool   `json:"reopen"`
	Tail   bool   `json:"tail"`
	// reader level
	Prefill      int              `json:"prefill,omitempty"` // bytes (reader) or lines (batch/cli) present before following starts
	Buf          int              `json:"buf,omitempty"`
	PollDelayUs  int              `json:"poll_delay_us,omitempty"`
	ReadAttempts int              `json:"read_attempts,omitempty"`
	Ops          []Op             `json:"ops,omitempty"`
	ConsumerUs   []int            `json:"consumer_us,omitempty"` // cyclic pauses between Read calls
	Delays       map[string]Delay `json:"delays,omitempty"`
	DelaySeed    uint64           `json:"delay_seed,omitempty"`
	// End: "rm" is expressed as the last op; "stop" = the harness ends the reader itself
	// Repeat: run the history up to this many times, stopping at the first
	// refutation (pinned witnesses of schedule-dependent defects: the one
	// remaining choice, Go's select among two ready channels, cannot be scripted)
	Repeat int    `json:"repeat,omitempty"`
	Pinned string `json:"pinned,omitempty"`
	// line level
	Files  int     `json:"files,omitempty"`
	Batch  int     `json:"batch,omitempty"`
	Steps  []LStep `json:"steps,omitempty"`
	Points string  `json:"points,omitempty"` // VERIF_POINTS for the CLI child
	// cligroup
	Group []*Case `json:"group,omitempty"`
}

// ---------------------------------------------------------------- content

// The content of generation g of stream id is a fixed function of (id, g):
// self-describing lines "<id>g<g>:<seq>:<filler>\n". A case therefore only
// stores sizes; a delivered byte identifies where it came from.

var (
	streamMu    sync.Mutex
	streamCache = map[string][]byte{}
	streamLines = map[string]int{}
)

func fillerLen(g, i int) int { return (i*7 + g*3 + (i/5)*11) % 43 }

func appendLine(b []byte, id string, g, i int) []byte {
	b = append(b, id...)
	b = append(b, 'g')
	b = strconv.AppendInt(b, int64(g), 10)
	b = append(b, ':')
	s := strconv.Itoa(i)
	for k := len(s); k < 6; k++ {
		b = append(b, '0')
	}
	b = append(b, s...)
	b = append(b, ':')
	n := fillerLen(g, i)
	for k := 0; k < n; k++ {
		b = append(b, byte('a'+(i+k*3+g)%26))
	}
	return append(b, '\n')
}

// streamBytes returns at least n bytes of the stream of (id, g).
func streamBytes(id string, g, n int) []byte {
	key := id + "g" + strconv.Itoa(g)
	streamMu.Lock()
	defer streamMu.Unlock()
	b := streamCache[key]
	i := streamLines[key]
	if len(b) < n {
		nb := make([]byte, len(b), n+n/4+256)
		copy(nb, b)
		b = nb
		for len(b) < n {
			b = appendLine(b, id, g, i)
			i++
		}
		streamCache[key] = b
		streamLines[key] = i
	}
	return b
}

// streamLinesOf returns lines [from, from+n) of (id, g), each with its "\n".
func streamLinesOf(id string, g, from, n int) []byte {
	var b []byte
	for i := from; i < from+n; i++ {
		b = appendLine(b, id, g, i)
	}
	return b
}

func dropStreams() {
	streamMu.Lock()
	streamCache = map[string][]byte{}
	streamLines = map[string]int{}
	streamMu.Unlock()
}

// ---------------------------------------------------------------- monitor (reader level)

type gen struct {
	content []byte // every byte written to this generation so far (registered BEFORE the write call)
	start   int    // offset of the first byte that must be delivered (gen 0 with --tail: the size at Drain)
	removed bool   // the writer has issued (or is about to issue) the removal
}

type bad struct {
	class string // fingerprint class
	msg   string
}

// mon is the model + monitor of one reader-level history. All fields under mu.
type mon struct {
	mu sync.Mutex
	ch chan struct{} // closed and replaced on every state change

	reopen bool

	gens      []*gen
	cur, off  int   // next expected byte: gens[cur].content[off]
	delivered int64 // bytes delivered and found equal to the model
	reads     int64 // Read calls returned
	eof       bool  // a legitimate (0, io.EOF) was seen
	eofSticky bool  // a second Read after EOF also returned (0, io.EOF)
	bad       *bad  // first refutation
	envErr    string

	// schedule control
	busyAt     int64  // consumer becomes busy when delivered >= busyAt (-1: off)
	gateLoc    string // hook point at which the reader is to be held ("" off)
	held       string // "" | "consumer" | hook point
	armSeq     int64  // incremented by every armBusy/armGate: identifies one hold episode
	heldSeq    int64  // the armSeq under which the current hold was taken
	stop       bool
	hits       map[string]int64
	heldCnt    map[string]int64
	sig        uint64 // order-sensitive hash of the observed event sequence
	events     int64
	tailLog    []string // last few events, for messages
	panicked   string
	siblingOps int64 // events caused on other files of the directory
}

func newMon(reopen bool) *mon {
	return &mon{ch: make(chan struct{}), reopen: reopen, busyAt: -1, hits: map[string]int64{}, heldCnt: map[string]int64{}}
}

func (m *mon) bcast() {
	close(m.ch)
	m.ch = make(chan struct{})
}

func mix64(z uint64) uint64 {
	z += 0x9e3779b97f4a7c15
	z = (z ^ (z >> 30)) * 0xbf58476d1ce4e5b9
	z = (z ^ (z >> 27)) * 0x94d049bb133111eb
	return z ^ (z >> 31)
}

// ev records an event in the interleaving signature (call with mu held).
func (m *mon) ev(kind string, n int) {
	h := uint64(len(kind))
	for i := 0; i < len(kind); i++ {
		h = h*131 + uint64(kind[i])
	}
	m.sig = mix64(m.sig ^ h)
	m.events++
	if len(m.tailLog) >= 24 {
		m.tailLog = m.tailLog[1:]
	}
	if n >= 0 {
		m.tailLog = append(m.tailLog, kind+"("+strconv.Itoa(n)+")")
	} else {
		m.tailLog = append(m.tailLog, kind)
	}
}

func (m *mon) fail(class, msg string) {
	if m.bad == nil {
		m.bad = &bad{class: class, msg: msg}
	}
}

// drainedLocked: everything appended so far has been delivered.
func (m *mon) drainedLocked() bool {
	last := len(m.gens) - 1
	if m.cur == last {
		return m.off == len(m.gens[last].content)
	}
	// the reader is still on an older generation: drained only if every later
	// generation is empty and the older one is complete
	if m.off != len(m.gens[m.cur].content) {
		return false
	}
	for g := m.cur + 1; g <= last; g++ {
		if len(m.gens[g].content) > m.gens[g].start {
			return false
		}
	}
	return true
}

func excerpt(b []byte) string {
	if len(b) > 48 {
		return fmt.Sprintf("%q…(%d bytes)", b[:48], len(b))
	}
	return fmt.Sprintf("%q", b)
}

// locate says where in the model the delivered bytes do occur (diagnostics).
func (m *mon) locate(data []byte) string {
	probe := data
	if len(probe) > 64 {
		probe = probe[:64]
	}
	if len(probe) < 8 {
		return "too short to locate"
	}
	for g, ge := range m.gens {
		if i := bytes.Index(ge.content, probe); i >= 0 {
			rel := ""
			switch {
			case g == m.cur && i < m.off:
				rel = fmt.Sprintf(" = %d bytes BEFORE the expected offset (duplicate delivery)", m.off-i)
			case g == m.cur && i > m.off:
				rel = fmt.Sprintf(" = %d bytes AFTER the expected offset (bytes skipped)", i-m.off)
			case g < m.cur:
				rel = " in an earlier generation (duplicate delivery)"
			case g > m.cur:
				rel = " in a later generation"
			}
			return fmt.Sprintf("they are the bytes at generation %d offset %d%s", g, i, rel)
		}
	}
	return "they occur nowhere in what was written"
}

// onRead judges one Read result.
func (m *mon) onRead(data []byte, err error) {
	m.mu.Lock()
	defer m.mu.Unlock()
	defer m.bcast()
	m.reads++
	n := len(data)
	if n > 0 {
		m.ev("R", -1)
		if m.eof {
			m.fail("data-after-eof", fmt.Sprintf("Read returned %d bytes %s after it had returned io.EOF", n, excerpt(data)))
			return
		}
		g := m.gens[m.cur]
		for m.off == len(g.content) && g.removed && m.cur+1 < len(m.gens) {
			// the removed generation is complete: the reader may only continue with the re-created file
			m.cur++
			g = m.gens[m.cur]
			m.off = g.start
		}
		if m.off+n <= len(g.content) && bytes.Equal(g.content[m.off:m.off+n], data) {
			m.off += n
			m.delivered += int64(n)
		} else {
			exp := g.content[m.off:]
			if len(exp) > n {
				exp = exp[:n]
			}
			first := 0
			for first < len(exp) && first < n && exp[first] == data[first] {
				first++
			}
			m.fail("stream-mismatch", fmt.Sprintf(
				"delivered bytes differ from the appended stream: generation %d, expected offset %d (generation has %d bytes, %d delivered so far in total): "+
					"Read returned %d bytes %s, the model has %s there (first difference at byte %d of this Read); %s",
				m.cur, m.off, len(g.content), m.delivered, n, excerpt(data), excerpt(exp), first, m.locate(data)))
			return
		}
	}
	switch {
	case err == nil:
		if n == 0 {
			m.ev("R0", -1) // allowed by io.Reader; counted, not judged
		}
	case err == io.EOF:
		m.ev("EOF", -1)
		g := m.gens[m.cur]
		switch {
		case m.reopen:
			m.fail("eof-in-reopen", fmt.Sprintf("re-open follow returned io.EOF (generation %d, removed=%v): it must keep waiting for the path", m.cur, g.removed))
		case !g.removed:
			m.fail("eof-while-present", fmt.Sprintf("Read returned (%d, io.EOF) while the followed file exists and was never removed (offset %d of %d)", n, m.off, len(g.content)))
		default:
			m.eof = true
		}
	default:
		m.ev("ERR", -1)
		if isEnvErr(err) {
			m.envErr = err.Error()
		} else {
			m.fail("read-error", fmt.Sprintf("Read returned error %q (n=%d) while following generation %d (removed=%v): the reader must block, not end", err.Error(), n, m.cur, m.gens[m.cur].removed))
		}
	}
}
