package p15

import (
	"fmt"
	"os"
	"path/filepath"
	"strings"
	"sync"
	"time"
)

// Line-level model shared by the batch level (batchers.TailFilesToChan) and the
// CLI level (`rare filter -f`): per followed file, the lines appended after the
// start position, generation after generation, are the expected sequence; the
// delivered lines (with their line numbers) are compared against it.

type dline struct {
	text string
	no   uint64
}

type lfile struct {
	id      string
	path    string
	gen     int
	inGen   int // lines written to the current generation (prefill included)
	genByte int // bytes written to the current generation
	w       *os.File
	removed bool

	skipped  int      // prefill lines skipped by --tail
	expected []string // every line that must be delivered, in order
	got      []dline
	startUnknown bool // CLI --tail: the start position is only known to be >= the prefill
	prevGenDeliveredBytes int
}

type lmon struct {
	mu     sync.Mutex
	ch     chan struct{}
	files  []*lfile
	byPath map[string]*lfile
	closed bool // the batch channel was closed / the CLI's stdout ended
	bad    *bad
	lines  int64
	batches int64
}

func newLmon(dir string, n int) *lmon {
	m := &lmon{ch: make(chan struct{}), byPath: map[string]*lfile{}}
	for i := 0; i < n; i++ {
		f := &lfile{id: fmt.Sprintf("f%d", i), path: filepath.Join(dir, fmt.Sprintf("f%d.log", i))}
		m.files = append(m.files, f)
		m.byPath[f.path] = f
	}
	return m
}

func (m *lmon) bcast() {
	close(m.ch)
	m.ch = make(chan struct{})
}

func (m *lmon) fail(class, msg string) {
	if m.bad == nil {
		m.bad = &bad{class: class, msg: msg}
	}
}

// deliver judges one delivered line (mu held). With a known start position the
// comparison is online; otherwise (CLI --tail) it happens in aligned().
func (m *lmon) deliver(f *lfile, text string, no uint64) {
	m.lines++
	idx := len(f.got)
	f.got = append(f.got, dline{text, no})
	if no != uint64(idx+1) {
		m.fail("line-number", fmt.Sprintf("%s: delivered line #%d of the followed stream carries line number %d (text %q)", f.id, idx+1, no, text))
		return
	}
	if f.startUnknown {
		return
	}
	if idx >= len(f.expected) {
		m.fail("line-extra", fmt.Sprintf("%s: line %q (number %d) delivered but only %d lines were appended after the start position (duplicate or invented line)", f.id, text, no, len(f.expected)))
		return
	}
	if f.expected[idx] != text {
		where := "it was never appended"
		for j, e := range f.expected {
			if e == text {
				if j < idx {
					where = fmt.Sprintf("it is expected line #%d (duplicate / re-delivery)", j+1)
				} else {
					where = fmt.Sprintf("it is expected line #%d (%d lines lost or out of order)", j+1, j-idx)
				}
				break
			}
		}
		m.fail("line-mismatch", fmt.Sprintf("%s: delivered line #%d is %q, expected %q; %s", f.id, idx+1, text, f.expected[idx], where))
	}
}

// drained reports (mu held) whether every appended line has been delivered.
// For an unknown start position: the last appended line (unique) has arrived,
// and then everything before it must line up from the end.
func (m *lmon) drained() bool {
	for _, f := range m.files {
		if !f.startUnknown {
			if len(f.got) < len(f.expected) {
				return false
			}
			continue
		}
		if len(f.expected) == 0 {
			continue
		}
		if len(f.got) == 0 || f.got[len(f.got)-1].text != f.expected[len(f.expected)-1] {
			return false
		}
		m.alignFromEnd(f)
	}
	return true
}

func (m *lmon) alignFromEnd(f *lfile) {
	k, n := len(f.got), len(f.expected)
	if k > n {
		m.fail("line-extra", fmt.Sprintf("%s: %d lines delivered but only %d were appended after following started with --tail", f.id, k, n))
		return
	}
	for i := 0; i < k; i++ {
		g, e := f.got[k-1-i].text, f.expected[n-1-i]
		if g == e {
			continue
		}
		if i == k-1 && strings.HasSuffix(e, g) {
			continue // --tail started in the middle of that line: not judged
		}
		m.fail("line-mismatch", fmt.Sprintf("%s (--tail): aligning the %d delivered lines with the end of the %d appended ones, delivered line #%d is %q where %q was appended (lost, duplicated or reordered line)", f.id, k, n, k-i, g, e))
		return
	}
}

func (m *lmon) pending(f *lfile) bool {
	if f.startUnknown {
		return len(f.expected) > 0 && (len(f.got) == 0 || f.got[len(f.got)-1].text != f.expected[len(f.expected)-1])
	}
	return len(f.got) < len(f.expected)
}

// appendLines registers n further lines of f's current generation and writes them.
func (m *lmon) appendLines(f *lfile, n, pieces, gapUs int) {
	if n <= 0 {
		return
	}
	data := streamLinesOf(f.id, f.gen, f.inGen, n)
	m.mu.Lock()
	for _, l := range strings.Split(strings.TrimSuffix(string(data), "\n"), "\n") {
		f.expected = append(f.expected, l)
	}
	f.inGen += n
	f.genByte += len(data)
	m.bcast()
	m.mu.Unlock()
	if pieces < 1 {
		pieces = 1
	}
	step := (len(data) + pieces - 1) / pieces
	for len(data) > 0 {
		k := step
		if k > len(data) {
			k = len(data)
		}
		f.w.Write(data[:k])
		data = data[k:]
		if gapUs > 0 && len(data) > 0 {
			time.Sleep(time.Duration(gapUs) * time.Microsecond)
		}
	}
}

// prefill writes the first n lines of generation 0 before following starts.
func (m *lmon) prefill(f *lfile, n int, tail bool) error {
	data := streamLinesOf(f.id, 0, 0, n)
	if err := os.WriteFile(f.path, data, 0o644); err != nil {
		return err
	}
	f.inGen = n
	f.genByte = len(data)
	if tail {
		f.skipped = n
	} else if n > 0 {
		f.expected = strings.Split(strings.TrimSuffix(string(data), "\n"), "\n")
	}
	w, err := os.OpenFile(f.path, os.O_WRONLY|os.O_APPEND, 0o644)
	f.w = w
	return err
}

// waitL blocks until pred (under mu) holds; every nudgeEvery the nudge function
// runs (sentinel lines for the timed batch flush). Returns wOK / wBad / wTimeout.
func (m *lmon) waitL(limit time.Duration, nudgeEvery time.Duration, nudge func(), pred func() bool) int {
	start := time.Now()
	last := time.Now()
	for {
		m.mu.Lock()
		if m.bad != nil {
			m.mu.Unlock()
			return wBad
		}
		if pred() {
			bad := m.bad != nil
			m.mu.Unlock()
			if bad {
				return wBad
			}
			return wOK
		}
		ch := m.ch
		m.mu.Unlock()
		if time.Since(start) > limit {
			return wTimeout
		}
		if nudge != nil && time.Since(last) >= nudgeEvery {
			nudge()
			last = time.Now()
		}
		select {
		case <-ch:
		case <-time.After(100 * time.Millisecond):
		}
	}
}

func (m *lmon) describe() string {
	var sb strings.Builder
	for _, f := range m.files {
		fmt.Fprintf(&sb, "%s: generation %d, %d lines expected, %d delivered, removed=%v; ", f.id, f.gen, len(f.expected), len(f.got), f.removed)
	}
	fmt.Fprintf(&sb, "stream closed=%v", m.closed)
	return sb.String()
}
