package p15

import (
	"errors"
	"os"
	"regexp"
	"runtime"
	"strconv"
	"strings"
	"sync"
	"syscall"
	"time"
)

// Stuck-state evidence for a lost wake-up (DESIGN 1.3): a watchdog alone never
// produces a violation. For the notify reader the evidence is a pair of
// goroutine dumps >= 5 s apart in both of which
//   - the consumer's goroutine is parked in the select of NotifyFollowReader.Read,
//   - every goroutine that could still be carrying an event to it is parked too
//     (rare's watcher goroutine in its channel receive, fsnotify's readEvents in
//     epoll_wait), i.e. no notification is in flight,
//   - the hook counters and the delivered count did not move in between,
// while the file system shows what should have been delivered.

var (
	goroutineHdr = regexp.MustCompile(`^goroutine (\d+) \[([^\]]*)\]:`)
	hexArgs      = regexp.MustCompile(`\(0x[0-9a-f, x.{}\[\]?]*\)|\+0x[0-9a-f]+|\{0x[^}]*\}`)
)

type gsnap struct {
	parked  bool   // qualifies as "reader parked, nothing in flight"
	why     string // why not
	readerG string
	stack   string // normalised stack of the reader goroutine
	text    string // the relevant goroutine blocks, verbatim
}

func allStacks() string {
	buf := make([]byte, 1<<20)
	for {
		n := runtime.Stack(buf, true)
		if n < len(buf) {
			return string(buf[:n])
		}
		buf = make([]byte, 2*len(buf))
	}
}

func goid() int64 {
	var buf [64]byte
	n := runtime.Stack(buf[:], false)
	s := string(buf[:n])
	s = strings.TrimPrefix(s, "goroutine ")
	if i := strings.IndexByte(s, ' '); i > 0 {
		id, _ := strconv.ParseInt(s[:i], 10, 64)
		return id
	}
	return -1
}

// notifySnap inspects the process for the notify reader run by goroutine gid.
func notifySnap(gid int64) gsnap {
	dump := allStacks()
	var s gsnap
	s.parked = true
	found := false
	for _, g := range strings.Split(dump, "\n\n") {
		m := goroutineHdr.FindStringSubmatch(g)
		if m == nil {
			continue
		}
		state := m[2]
		if i := strings.Index(state, ","); i >= 0 {
			state = state[:i]
		}
		switch {
		case m[1] == strconv.FormatInt(gid, 10):
			found = true
			s.readerG = m[1]
			s.text += g + "\n\n"
			body := g[strings.Index(g, "\n")+1:]
			s.stack = state + "\n" + hexArgs.ReplaceAllString(body, "")
			if !strings.Contains(g, "followreader.(*NotifyFollowReader).Read") {
				s.parked, s.why = false, "consumer goroutine is not inside NotifyFollowReader.Read"
			} else if state != "select" {
				s.parked, s.why = false, "reader goroutine state is "+state+", not select"
			}
		case strings.Contains(g, "followreader.(*NotifyFollowReader).startWatcher"):
			s.text += g + "\n\n"
			if state != "chan receive" {
				s.parked, s.why = false, "rare watcher goroutine state is "+state
			}
		case strings.Contains(g, "fsnotify.(*Watcher).readEvents"):
			s.text += g + "\n\n"
			if !(state == "syscall" && strings.Contains(g, "fdPoller).wait")) {
				s.parked, s.why = false, "fsnotify readEvents goroutine state is "+state
			}
		}
	}
	if !found {
		s.parked, s.why = false, "consumer goroutine not found"
	}
	return s
}

func isEnvErr(err error) bool {
	for _, e := range []error{syscall.EMFILE, syscall.ENFILE, syscall.ENOMEM, syscall.ENOSPC, syscall.EIO, syscall.EINTR, syscall.EAGAIN} {
		if errors.Is(err, e) {
			return true
		}
	}
	return false
}

// The two dumps are separated by wall-clock time, which proves nothing if the
// whole process was not running in between (frozen, throttled). So the interval
// only counts when, spread over it, a number of timer rounds completed in each
// of which a canary thread blocked in a raw read(2) - the same situation as
// fsnotify's thread in epoll_wait(2) - was woken by the kernel and answered.
var canary struct {
	once sync.Once
	w    *os.File
	ack  chan struct{}
	ok   bool
}

func canaryRoundTrip() bool {
	canary.once.Do(func() {
		r, w, err := os.Pipe()
		if err != nil {
			return
		}
		canary.w, canary.ack, canary.ok = w, make(chan struct{}, 1), true
		fd := int(r.Fd()) // blocking mode: the goroutine sits in the system call on its own thread
		go func() {
			defer r.Close()
			var b [1]byte
			for {
				n, err := syscall.Read(fd, b[:])
				if err == syscall.EINTR {
					continue
				}
				if n <= 0 || err != nil {
					return
				}
				canary.ack <- struct{}{}
			}
		}()
	})
	if !canary.ok {
		return false
	}
	if _, err := canary.w.Write([]byte{1}); err != nil {
		return false
	}
	select {
	case <-canary.ack:
		return true
	case <-time.After(2 * time.Second):
		return false
	}
}

// tailEndStuck: stuck-state evidence for "plain follow ends the stream once the followed files are
// removed" at batch level. The batch channel of TailFilesToChan is closed by its coordinator goroutine
// after wg.Wait(); the only goroutines that can release that wait are the per-file reader goroutines.
// When a goroutine dump shows NO per-file reader goroutine of TailFilesToChan any more (they all
// returned) while the channel is still open, nothing in the process can ever close it: the coordinator
// is blocked in WaitGroup.Wait for a Done that nobody is left to call, or it has returned without
// closing. Purely structural, no clock involved; a leftover reader goroutine of an earlier history in
// the same process makes the evidence unavailable (=> inconclusive), never wrong.
func tailEndStuck() (evidence string, ok bool) {
	dump := allStacks()
	readers, coord := 0, ""
	for _, g := range strings.Split(dump, "\n\n") {
		if !strings.Contains(g, "batchers.TailFilesToChan") {
			continue
		}
		if strings.Contains(g, "batchers.TailFilesToChan.func1.1(") || strings.Contains(g, "syncReaderToBatcherWithTimeFlush") {
			readers++
			continue
		}
		if strings.Contains(g, "batchers.TailFilesToChan.func1(") {
			coord = g
		}
	}
	if readers > 0 {
		return "", false
	}
	if coord == "" {
		return "no goroutine of TailFilesToChan is left at all (the coordinator returned without closing the channel)", true
	}
	if !strings.Contains(coord, "sync.(*WaitGroup).Wait") {
		return "", false // the coordinator is between Wait and close: about to finish
	}
	return "every per-file reader goroutine has returned and the coordinator is blocked in sync.WaitGroup.Wait:\n" + coord, true
}
