package p15

import (
	"errors"
	"regexp"
	"runtime"
	"strconv"
	"strings"
	"syscall"
)

// Stuck-state evidence for a lost wake-up (DESIGN 1.3): a watchdog alone never
// produces a violation. For the notify reader the evidence is a pair of
// goroutine dumps >= 5 s apart in both of which
//   - the consumer's goroutine is parked in the select of NotifyFollowReader.Read,
//   - every goroutine that could still be carrying an event to it is parked too
//     (rare's watcher goroutine in its channel receive, fsnotify's readEvents in
//     epoll_wait), i.e. no notification is in flight,
//   - the hook counters and the delivered count did not move in between,
// while the file system shows what should have been delivered.

var (
	goroutineHdr = regexp.MustCompile(`^goroutine (\d+) \[([^\]]*)\]:`)
	hexArgs      = regexp.MustCompile(`\(0x[0-9a-f, x.{}\[\]?]*\)|\+0x[0-9a-f]+|\{0x[^}]*\}`)
)

type gsnap struct {
	parked  bool   // qualifies as "reader parked, nothing in flight"
	why     string // why not
	readerG string
	stack   string // normalised stack of the reader goroutine
	text    string // the relevant goroutine blocks, verbatim
}

func allStacks() string {
	buf := make([]byte, 1<<20)
	for {
		n := runtime.Stack(buf, true)
		if n < len(buf) {
			return string(buf[:n])
		}
		buf = make([]byte, 2*len(buf))
	}
}

func goid() int64 {
	var buf [64]byte
	n := runtime.Stack(buf[:], false)
	s := string(buf[:n])
	s = strings.TrimPrefix(s, "goroutine ")
	if i := strings.IndexByte(s, ' '); i > 0 {
		id, _ := strconv.ParseInt(s[:i], 10, 64)
		return id
	}
	return -1
}

// notifySnap inspects the process for the notify reader run by goroutine gid.
func notifySnap(gid int64) gsnap {
	dump := allStacks()
	var s gsnap
	s.parked = true
	found := false
	for _, g := range strings.Split(dump, "\n\n") {
		m := goroutineHdr.FindStringSubmatch(g)
		if m == nil {
			continue
		}
		state := m[2]
		if i := strings.Index(state, ","); i >= 0 {
			state = state[:i]
		}
		switch {
		case m[1] == strconv.FormatInt(gid, 10):
			found = true
			s.readerG = m[1]
			s.text += g + "\n\n"
			body := g[strings.Index(g, "\n")+1:]
			s.stack = state + "\n" + hexArgs.ReplaceAllString(body, "")
			if !strings.Contains(g, "followreader.(*NotifyFollowReader).Read") {
				s.parked, s.why = false, "consumer goroutine is not inside NotifyFollowReader.Read"
			} else if state != "select" {
				s.parked, s.why = false, "reader goroutine state is "+state+", not select"
			}
		case strings.Contains(g, "followreader.(*NotifyFollowReader).startWatcher"):
			s.text += g + "\n\n"
			if state != "chan receive" {
				s.parked, s.why = false, "rare watcher goroutine state is "+state
			}
		case strings.Contains(g, "fsnotify.(*Watcher).readEvents"):
			s.text += g + "\n\n"
			if !(state == "syscall" && strings.Contains(g, "fdPoller).wait")) {
				s.parked, s.why = false, "fsnotify readEvents goroutine state is "+state
			}
		}
	}
	if !found {
		s.parked, s.why = false, "consumer goroutine not found"
	}
	return s
}

func isEnvErr(err error) bool {
	for _, e := range []error{syscall.EMFILE, syscall.ENFILE, syscall.ENOMEM, syscall.ENOSPC, syscall.EIO, syscall.EINTR, syscall.EAGAIN} {
		if errors.Is(err, e) {
			return true
		}
	}
	return false
}
