package p12

import (
	"reflect"
	"testing"

	"verifharness/internal/ref"
	"verifharness/internal/run"
)

// The reference against the examples of docs/usage/dissect.md and the statement.
func TestReferenceOnDocumentedExamples(t *testing.T) {
	type tc struct {
		pat, line string
		want      []int
	}
	for _, c := range []tc{
		{"prefix %{name} : %{value}", "prefix bob : 123", []int{0, 16, 7, 10, 13, 16}},
		{"prefix %{name} : %{value}", "Prefix bob : 123", nil},
		{"%{val};%{};%{?skip} - %{val2}", "Hello;a;b - there", []int{0, 17, 0, 5, 12, 17}},
		{"test", "abctestabc", []int{3, 7}},
		{"", "hello", []int{0, 0}},
		{"end %{nada}", "a end nothing", []int{2, 13, 6, 13}},
		{"mid %{val};%{val2} after", "string with mid 123;456 after k", []int{12, 29, 16, 19, 20, 23}},
		{"%{a} 50% off %{b}", "x 50% off y", []int{0, 11, 0, 1, 10, 11}},
		{"%{pct}% done", "42% done", []int{0, 8, 0, 2}},
		{"ab%{x}b", "abab", []int{0, 4, 2, 3}},
	} {
		rp, e := refCompile(c.pat)
		if e != errNone {
			t.Fatalf("%q: %s", c.pat, e)
		}
		if got := rp.find(c.line); !reflect.DeepEqual(got, c.want) {
			t.Errorf("%q on %q = %v, want %v", c.pat, c.line, got, c.want)
		}
	}
	for pat, want := range map[string]string{"unclosed %{": errUnclosed, "a %{a} %{a}": errDup, "a %{a}%{b}": errAdjacent, "%{a}%": errNone, "%{a}}%{b}": errNone} {
		if _, e := refCompile(pat); e != want {
			t.Errorf("%q: error %q, want %q", pat, e, want)
		}
	}
	rp, _ := refCompile("%{a} %{?b} %{} %{c}")
	if !reflect.DeepEqual(rp.names, map[string]int{"a": 1, "c": 2}) {
		t.Errorf("names %v", rp.names)
	}
}

// Second opinion: the shared reference in internal/ref (written separately)
// agrees with this package's reference on generated patterns and lines.
func TestAgreesWithSharedReference(t *testing.T) {
	pairs := 0
	for i := 0; i < 20000; i++ {
		r := run.NewRand("selftest", i)
		st := pickStyle(r)
		pat, _ := genPattern(r, st, genOpts{})
		mine, e1 := refCompile(pat)
		for _, ic := range []bool{false, true} {
			theirs, e2 := ref.CompileDissect(pat, ic)
			if (e1 != errNone) != (e2 != nil) {
				t.Fatalf("%q: error mismatch %q vs %v", pat, e1, e2)
			}
			if e2 != nil {
				continue
			}
			if !reflect.DeepEqual(mine.names, theirs.Names()) {
				t.Fatalf("%q: names %v vs %v", pat, mine.names, theirs.Names())
			}
			for _, l := range genLines(r, mine, st, 12, false) {
				var a []int
				if ic {
					a = mine.folded().find(lowerASCII(string(l.b)))
				} else {
					a = mine.find(string(l.b))
				}
				b := theirs.Find(l.b)
				if !eqInts(a, b) {
					t.Fatalf("%q ic=%v on %q: %v vs %v", pat, ic, l.b, a, b)
				}
				pairs++
			}
		}
	}
	t.Logf("%d pairs agreed", pairs)
}

func TestClassPredicates(t *testing.T) {
	for lit, want := range map[string]bool{"abc": false, "é": true, "É": true, "ß": true, "Ω": true, "日": false, "א": false, "€": false, "😀": false,
		"K": true, "\xff": true, "ḝ": false, "Ḝ": true, "İ": true} {
		if got := fragileLiteral(lit); got != want {
			t.Errorf("fragileLiteral(%q) = %v, want %v", lit, got, want)
		}
	}
	for pat, want := range map[string]bool{"a%b%{x}": false, "%{x}a%b": true, "%{x}%": true, "%{x} %{y}": false, "%{a}%%{b}": true, "50%": false} {
		if got := percentClass(pat); got != want {
			t.Errorf("percentClass(%q) = %v, want %v", pat, got, want)
		}
	}
}
