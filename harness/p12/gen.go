package p12

import (
	"strings"

	"verifharness/internal/run"
)

// ---------------------------------------------------------------- pattern generator

type style struct {
	name   string
	pieces []string // building blocks of literals and captures
	lits   []string // whole literals used as they are (may be empty)
	maxLit int      // max pieces per literal
}

var styles = []style{
	{name: "log", maxLit: 2,
		pieces: []string{"a", "b", "e", "t", "x", "T", "E", "0", "1", "7", " ", "-", ":", ".", "/"},
		lits:   []string{" ", " - ", ": ", "=", ";", ",", " [", "] ", "\"", "\" ", "/", " HTTP/", "GET ", "id=", "Key: ", "\t", "  ", "->", "::", ":", " - - [", "] \"", " \"-\" \""}},
	{name: "tiny", maxLit: 3, pieces: []string{"a", "b", "A", "B"}},
	{name: "tiny2", maxLit: 2, pieces: []string{"a", "A", ";"}},
	{name: "punct", maxLit: 3, pieces: []string{"%", "{", "}", "%%", "$", "a", "}", "{}", "x", "%}", ":", "X", "?"}},
	{name: "utf8", maxLit: 2, pieces: []string{"é", "É", "ß", "Ω", "ω", "日", "א", "€", "😀", "K", "k", "K", "a", "A", " ", "ḝ", "İ"}},
	{name: "utf8safe", maxLit: 2, pieces: []string{"日", "א", "€", "😀", "ḝ", "本", "a", "A", " ", "z", "Z"}},
	{name: "bytes", maxLit: 2, pieces: []string{"\xff", "\xc3", "\x80", "\x00", "\xe9", "a", "A", "\xc3\xa9", "\xa9", "\xe6\x97", "\xa5"}},
	{name: "mixed", maxLit: 3, pieces: []string{"a", "A", "b", " ", ":", "%", "é", "日", "\xff", "=", "Z", "z", "1", "}"}},
}

var nameA = []string{"a", "val", "name", "key1", "K", "ip", "x y", "a-b", "A"}
var nameB = []string{"b", "val2", "value", "key2", "k", "Ünï", "a.b", "0", "B"}

func tokName(r *run.Rand, i int) string {
	// distinct by construction: index suffix unless i < 2
	var n string
	switch i {
	case 0:
		n = r.Pick(nameA)
	case 1:
		n = r.Pick(nameB)
	default:
		n = r.Pick([]string{"c", "f", "status", "G", "日"}) + string(rune('0'+i))
	}
	switch r.Intn(10) {
	case 0:
		return "" // %{}
	case 1:
		return "?" + n // %{?name}
	case 2:
		if r.Intn(4) == 0 {
			return "?" // %{?}
		}
	}
	return n
}

func genLit(r *run.Rand, st *style) string {
	if len(st.lits) > 0 && r.Intn(3) != 0 {
		return r.Pick(st.lits)
	}
	n := r.Range(1, st.maxLit)
	var sb strings.Builder
	for i := 0; i < n; i++ {
		sb.WriteString(r.Pick(st.pieces))
	}
	return sb.String()
}

type genOpts struct {
	noPercent  bool // keep '%' out of trailing literals (known class compile:percent-in-literal is active)
	noNUL      bool // CLI arguments cannot carry NUL
	wellFormed bool
}

func clean(l string) bool { return !strings.ContainsAny(l, "%{}") }

// genPattern returns a pattern and, for single-fault malformed patterns whose
// literals are free of '%', '{' and '}', the error kind that must be reported.
func genPattern(r *run.Rand, st *style, o genOpts) (pat string, expect string) {
	for try := 0; try < 12; try++ {
		pat, expect = genPattern1(r, st, o)
		if o.noPercent && percentClass(pat) {
			continue
		}
		if o.noNUL && strings.IndexByte(pat, 0) >= 0 {
			continue
		}
		if o.wellFormed {
			if _, e := refCompile(pat); e != errNone {
				continue
			}
		}
		return pat, expect
	}
	return "p %{a} q", ""
}

func genPattern1(r *run.Rand, st *style, o genOpts) (string, string) {
	ntok := []int{0, 1, 1, 1, 1, 2, 2, 2, 2, 3, 3, 3, 4, 4, 5, 6}[r.Intn(16)]
	prefix := ""
	if r.Intn(100) >= 35 {
		prefix = genLit(r, st)
	}
	if ntok == 0 {
		return prefix, ""
	}
	names := make([]string, ntok)
	untils := make([]string, ntok)
	allClean := clean(prefix)
	for i := 0; i < ntok; i++ {
		names[i] = tokName(r, i)
		untils[i] = genLit(r, st)
		if o.noPercent {
			untils[i] = strings.ReplaceAll(untils[i], "%", "#")
		}
		// a literal must not itself open a token: the generator does not forbid
		// it (the reference parses the final text), but it keeps it rare
		if strings.Contains(untils[i], "%{") && r.Intn(4) != 0 {
			untils[i] = strings.ReplaceAll(untils[i], "%{", "{%")
		}
	}
	if r.Intn(100) < 40 {
		untils[ntok-1] = ""
	}
	for i := range untils {
		allClean = allClean && clean(untils[i]) && clean(names[i])
	}
	expect := ""
	fault := ""
	if !o.wellFormed && r.Intn(100) < 8 {
		switch r.Intn(3) {
		case 0:
			fault = errUnclosed
		case 1:
			if ntok >= 2 {
				fault = errAdjacent
			}
		case 2:
			if ntok >= 2 {
				fault = errDup
			}
		}
	}
	switch fault {
	case errAdjacent:
		untils[r.Intn(ntok-1)] = ""
	case errDup:
		i := r.Intn(ntok - 1)
		j := r.Range(i+1, ntok-1)
		if names[i] == "" || names[i][0] == '?' {
			names[i] = "dup"
		}
		names[j] = names[i]
	}
	var sb strings.Builder
	sb.WriteString(prefix)
	for i := 0; i < ntok; i++ {
		sb.WriteString("%{")
		sb.WriteString(names[i])
		if fault == errUnclosed && i == ntok-1 {
			break
		}
		sb.WriteString("}")
		sb.WriteString(untils[i])
	}
	if fault != "" && allClean {
		expect = fault
	}
	return sb.String(), expect
}

// ---------------------------------------------------------------- line generator

func flipASCII(r *run.Rand, s string, p int) string {
	b := []byte(s)
	for i, c := range b {
		if r.Intn(100) < p {
			switch {
			case c >= 'a' && c <= 'z':
				b[i] = c - 32
			case c >= 'A' && c <= 'Z':
				b[i] = c + 32
			}
		}
	}
	return string(b)
}

func junk(r *run.Rand, st *style, max int) string {
	n := r.Intn(max + 1)
	var sb strings.Builder
	for i := 0; i < n; i++ {
		switch r.Intn(6) {
		case 0:
			sb.WriteByte(byte('0' + r.Intn(10)))
		case 1:
			sb.WriteByte(byte('a' + r.Intn(26)))
		default:
			sb.WriteString(r.Pick(st.pieces))
		}
	}
	return sb.String()
}

func partial(r *run.Rand, lit string) string {
	if lit == "" {
		return ""
	}
	k := r.Range(1, len(lit))
	if r.Bool() {
		return lit[:k]
	}
	return lit[:len(lit)-1]
}

// buildMatch builds a line around the pattern structure. omit >= 0 leaves one
// literal out (near-miss); flip > 0 flips the case of literal letters.
func buildMatch(r *run.Rand, rp *refPat, st *style, omit int, flip int) []byte {
	lit := func(i int, s string) string {
		if i == omit {
			return ""
		}
		if flip > 0 {
			return flipASCII(r, s, flip)
		}
		return s
	}
	var sb strings.Builder
	switch r.Intn(5) {
	case 0:
	case 1:
		sb.WriteString(junk(r, st, 3))
	case 2:
		sb.WriteString(partial(r, rp.prefix))
	case 3:
		if rp.prefix != "" {
			sb.WriteString(rp.prefix[:1])
			sb.WriteString(rp.prefix[:1])
		}
	case 4:
		sb.WriteString(junk(r, st, 2))
		sb.WriteString(partial(r, rp.prefix))
	}
	sb.WriteString(lit(0, rp.prefix))
	for i, t := range rp.toks {
		// the capture
		switch r.Intn(9) {
		case 0: // empty
		case 1:
			sb.WriteString(partial(r, t.until)) // starts like its own delimiter
		case 2:
			sb.WriteString(junk(r, st, 2))
			sb.WriteString(partial(r, t.until))
		case 3:
			sb.WriteString(rp.prefix) // the prefix again
			sb.WriteString(junk(r, st, 1))
		case 4:
			if i+1 < len(rp.toks) {
				sb.WriteString(rp.toks[i+1].until) // the NEXT delimiter inside this capture
			}
			sb.WriteString(junk(r, st, 1))
		case 5:
			sb.WriteString(flipASCII(r, t.until, 60)) // the delimiter in another case
			sb.WriteString(junk(r, st, 1))
		default:
			sb.WriteString(junk(r, st, 4))
		}
		sb.WriteString(lit(i+1, t.until))
	}
	switch r.Intn(4) {
	case 0:
		sb.WriteString(junk(r, st, 3))
	case 1:
		if len(rp.toks) > 0 {
			sb.WriteString(rp.toks[len(rp.toks)-1].until)
			sb.WriteString(junk(r, st, 1))
		}
	}
	return []byte(sb.String())
}

type genLine struct {
	b    []byte
	near bool
}

func genLines(r *run.Rand, rp *refPat, st *style, n int, noNL bool) []genLine {
	out := make([]genLine, 0, n)
	nlit := 1
	if rp != nil {
		nlit += len(rp.toks)
	}
	for len(out) < n {
		var l genLine
		k := r.Intn(16)
		if rp == nil {
			k = 15
		}
		switch {
		case k < 6:
			l.b = buildMatch(r, rp, st, -1, 0)
		case k < 8: // case-varied literals
			l.b = buildMatch(r, rp, st, -1, []int{100, 50, 15}[r.Intn(3)])
		case k == 8: // one literal missing
			l.b = buildMatch(r, rp, st, r.Intn(nlit), 0)
			l.near = true
		case k == 9: // one byte deleted / replaced / line cut
			b := buildMatch(r, rp, st, -1, 0)
			if len(b) > 0 {
				i := r.Intn(len(b))
				switch r.Intn(3) {
				case 0:
					b = append(b[:i:i], b[i+1:]...)
				case 1:
					b[i] = r.Pick(st.pieces)[0]
				case 2:
					b = b[:i]
				}
			}
			l.b, l.near = b, true
		case k == 10: // whole line upper / lower
			b := buildMatch(r, rp, st, -1, 0)
			if r.Bool() {
				l.b = []byte(strings.ToUpper(string(b)))
			} else {
				l.b = []byte(lowerASCII(string(b)))
			}
			l.near = true
		case k == 11: // two matches in one line
			l.b = append(buildMatch(r, rp, st, -1, 0), buildMatch(r, rp, st, -1, 0)...)
		case k == 12: // literals only, glued
			var sb strings.Builder
			for _, x := range rp.literals() {
				sb.WriteString(x)
			}
			l.b = []byte(sb.String())
			l.near = true
		case k == 13:
			l.b = []byte(junk(r, st, 12))
		case k == 14:
			l.b = r.Bytes(r.Intn(24), nil)
		default:
			l.b = []byte(junk(r, st, 6))
		}
		if noNL {
			ok := len(l.b) > 0
			for _, c := range l.b {
				if c == '\n' || c == '\r' {
					ok = false
				}
			}
			if !ok {
				continue
			}
		}
		out = append(out, l)
	}
	return out
}
