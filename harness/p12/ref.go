package p12

import (
	"strings"
	"unicode"
	"unicode/utf8"
)

// The reference dissect: the statement of C12 and docs/usage/dissect.md,
// written literally. It never calls the code under test.
//
//   pattern  := prefix ( "%{" name "}" literal )*
//   a token starts at every "%{" that is not inside a token; its name runs to
//   the first "}"; its trailing literal runs to the next "%{" (or the end of
//   the pattern). A token that is never closed and two tokens with no literal
//   between them are errors. A blank name or a name starting with '?' is
//   skipped (consumes, no capture). Captured names are numbered 1.. in order.
//
//   match: first occurrence of the prefix; every token takes the text up to
//   the first following occurrence of its trailing literal (to the end of the
//   line when the literal is empty); group 0 = [start of prefix, end of the
//   last trailing literal].
//
// Ignore-case is defined by the statement for ASCII text only: lower-case both
// sides, then match case-sensitively.

type rtok struct {
	name  string
	until string
	skip  bool
}

type refPat struct {
	prefix string
	toks   []rtok
	names  map[string]int
	groups int
}

const (
	errNone     = ""
	errUnclosed = "unclosed"
	errAdjacent = "adjacent"
	errDup      = "duplicate"
)

func refCompile(pat string) (*refPat, string) {
	rp := &refPat{names: map[string]int{}}
	pos := strings.Index(pat, "%{")
	if pos < 0 {
		rp.prefix = pat
		return rp, errNone
	}
	rp.prefix = pat[:pos]
	for pos < len(pat) {
		// invariant: pat[pos:] begins with "%{"
		body := pat[pos+2:]
		cl := strings.IndexByte(body, '}')
		if cl < 0 {
			return nil, errUnclosed
		}
		name := body[:cl]
		rest := body[cl+1:]
		nx := strings.Index(rest, "%{")
		lit := rest
		if nx >= 0 {
			lit = rest[:nx]
			if lit == "" {
				return nil, errAdjacent
			}
			pos = len(pat) - len(rest) + nx
		} else {
			pos = len(pat)
		}
		t := rtok{name: name, until: lit}
		switch {
		case name == "":
			t.skip = true
		case name[0] == '?':
			t.skip = true
			t.name = name[1:]
		default:
			if _, dup := rp.names[name]; dup {
				return nil, errDup
			}
			rp.groups++
			rp.names[name] = rp.groups
		}
		rp.toks = append(rp.toks, t)
	}
	return rp, errNone
}

func lowerASCII(s string) string {
	for i := 0; i < len(s); i++ {
		if s[i] >= 'A' && s[i] <= 'Z' {
			b := []byte(s)
			for j := i; j < len(b); j++ {
				if b[j] >= 'A' && b[j] <= 'Z' {
					b[j] += 'a' - 'A'
				}
			}
			return string(b)
		}
	}
	return s
}

func isASCII(s string) bool {
	for i := 0; i < len(s); i++ {
		if s[i] >= 0x80 {
			return false
		}
	}
	return true
}

// folded returns the pattern with every literal ASCII-lower-cased (names kept).
func (p *refPat) folded() *refPat {
	q := &refPat{prefix: lowerASCII(p.prefix), names: p.names, groups: p.groups}
	q.toks = make([]rtok, len(p.toks))
	for i, t := range p.toks {
		q.toks[i] = rtok{name: t.name, skip: t.skip, until: lowerASCII(t.until)}
	}
	return q
}

// find is the case-sensitive specification. For ignore-case on ASCII text the
// caller passes the folded pattern and the lower-cased line.
func (p *refPat) find(line string) []int {
	at := strings.Index(line, p.prefix)
	if at < 0 {
		return nil
	}
	out := make([]int, 2+2*p.groups)
	out[0] = at
	cur := at + len(p.prefix)
	g := 1
	for _, t := range p.toks {
		stop := len(line)
		if t.until != "" {
			k := strings.Index(line[cur:], t.until)
			if k < 0 {
				return nil
			}
			stop = cur + k
		}
		if !t.skip {
			out[2*g] = cur
			out[2*g+1] = stop
			g++
		}
		cur = stop + len(t.until)
	}
	out[1] = cur
	return out
}

// literals lists prefix and trailing literals.
func (p *refPat) literals() []string {
	l := []string{p.prefix}
	for _, t := range p.toks {
		l = append(l, t.until)
	}
	return l
}

// ---------------------------------------------------------------- known classes

// percentClass: some token's trailing literal contains '%' (known finding
// compile:percent-in-literal: CompileEx ends a trailing literal at the first
// '%' instead of the first "%{"). Works on the raw text so that it also
// classifies patterns the reference rejects.
func percentClass(pat string) bool {
	i := strings.Index(pat, "%{")
	if i < 0 {
		return false
	}
	rest := pat[i:]
	for {
		if !strings.HasPrefix(rest, "%{") {
			return false
		}
		cl := strings.IndexByte(rest, '}')
		if cl < 0 {
			return false
		}
		rest = rest[cl+1:]
		nx := strings.Index(rest, "%{")
		lit := rest
		if nx >= 0 {
			lit = rest[:nx]
			rest = rest[nx:]
		} else {
			rest = ""
		}
		if strings.IndexByte(lit, '%') >= 0 {
			return true
		}
		if rest == "" {
			return false
		}
	}
}

// fragileRune: a non-ASCII rune that cannot match itself under rare's
// ignore-case search (known finding icase:non-ascii-literal): the search folds
// single BYTES as if they were Latin-1 code points while the needle was
// lower-cased as UTF-8. Affected: invalid UTF-8, every cased non-ASCII rune,
// and every two-byte rune whose lead byte lies in 0xC0..0xDE except 0xD7
// (U+0080..U+07BF without U+05C0..U+05FF).
func fragileRune(r rune, size int) bool {
	if r < 0x80 {
		return false
	}
	if r == utf8.RuneError && size <= 1 {
		return true
	}
	if unicode.ToLower(r) != r {
		return true
	}
	if size == 2 {
		lead := byte(0xC0 | (r >> 6))
		if lead >= 0xC0 && lead <= 0xDE && lead != 0xD7 {
			return true
		}
	}
	return false
}

func fragileLiteral(s string) bool {
	for i := 0; i < len(s); {
		r, n := utf8.DecodeRuneInString(s[i:])
		if fragileRune(r, n) {
			return true
		}
		i += n
	}
	return false
}

// fragileClass: under ignore-case some literal contains a fragile rune.
func (p *refPat) fragileClass() bool {
	for _, l := range p.literals() {
		if fragileLiteral(l) {
			return true
		}
	}
	return false
}
