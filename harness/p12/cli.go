package p12

import (
	"bytes"
	"context"
	"fmt"
	"os"
	"os/exec"
	"path/filepath"
	"strconv"
	"strings"
	"time"

	"verifharness/internal/run"
)

// cli: `rare filter --dissect=<pattern> [-I] -w 1 -l -e '={0}|{1}|..' file`
// against the reference, line by line (rows are attributed by the printed line
// number, not by output order).
func cli(c *run.Ctx) {
	if c.RareBin == "" {
		c.Note("no rare binary: CLI spot check skipped")
		return
	}
	// pinned CLI witnesses of the two known findings + one documentation example
	if c.Shard == 0 {
		for _, w := range []witness{
			{"é=%{x};", []string{"é=1;", "É=2;", "e=3;"}},
			{"%{pct}% done", []string{"42% done", "7 done"}},
			{"%{a} 50% off %{b}", []string{"x 50% off y", "x 50 off y"}},
			{"prefix %{name} : %{value}", []string{"prefix bob : 123", "Prefix amy : 9", "nope"}},
		} {
			var ls [][]byte
			for _, l := range w.lines {
				ls = append(ls, []byte(l))
			}
			cs := mkCase("cli", "cli-pinned", w.pat, "both", ls)
			c.Begin(cs, 60*time.Second)
			runCLI(c, cs)
			c.End()
		}
	}
	N := c.N(160, 2400)
	for i := 0; i < N; i++ {
		if !c.Mine(i) {
			continue
		}
		cs, _, _ := groupFor(c, "cli", i, genOpts{noNUL: true}, 0, true)
		cs.Kind = "cli"
		if cs.Lines == nil {
			cs.Lines = []string{b64([]byte("some line"))}
		}
		c.Begin(cs, 60*time.Second)
		runCLI(c, cs)
		c.End()
		if c.Violations() >= 6 {
			return
		}
	}
}

func runRare(c *run.Ctx, args []string) (stdout, stderr []byte, rc int, timedOut bool) {
	ctx, cancel := context.WithTimeout(context.Background(), 30*time.Second)
	defer cancel()
	cmd := exec.CommandContext(ctx, c.RareBin, args...)
	cmd.Env = append(os.Environ(), "NO_COLOR=1", "TERM=dumb")
	var so, se bytes.Buffer
	cmd.Stdout, cmd.Stderr = &so, &se
	err := cmd.Run()
	if ctx.Err() != nil {
		return so.Bytes(), se.Bytes(), -1, true
	}
	rc = 0
	if err != nil {
		if ee, ok := err.(*exec.ExitError); ok {
			rc = ee.ExitCode()
		} else {
			rc = -2
		}
	}
	return so.Bytes(), se.Bytes(), rc, false
}

func runCLI(c *run.Ctx, cs *Case) {
	pat, lines, err := cs.decode()
	if err != nil {
		c.Inconclusive("bad cli case")
		return
	}
	p := &patCtx{c: c, tag: cs.Tag, pat: pat}
	p.rp, p.rerr = refCompile(pat)
	p.percent = percentClass(pat)
	p.patASCII = isASCII(pat)
	if p.rp != nil {
		p.fragile = p.rp.fragileClass()
		p.fold = p.rp.folded()
	}
	fail := func(class, mode, msg string) {
		p.c.Violation(p.fp(class, nil, mode+"/cli/"+strings.Join(cs.Lines, ",")), msg, cs)
	}
	dir := filepath.Join(c.WorkDir, "cli")
	os.MkdirAll(dir, 0o755)
	file := filepath.Join(dir, "in-"+run.Hash64(cs.Pat, strings.Join(cs.Lines, ","))+".log")
	var buf bytes.Buffer
	for _, l := range lines {
		buf.Write(l)
		buf.WriteByte('\n')
	}
	if err := os.WriteFile(file, buf.Bytes(), 0o644); err != nil {
		c.Inconclusive("cannot write input file: " + err.Error())
		return
	}
	defer os.Remove(file)
	groups := 0
	if p.rp != nil {
		groups = p.rp.groups
	}
	// the leading "=" keeps the extraction non-empty: the extractor (not the
	// matcher) drops matches whose extracted key is empty
	expr := "={0}"
	for g := 1; g <= groups; g++ {
		expr += "|{" + strconv.Itoa(g) + "}"
	}
	render := func(line []byte, r []int) string {
		parts := make([]string, 0, len(r)/2)
		for g := 0; 2*g < len(r); g++ {
			parts = append(parts, string(line[r[2*g]:r[2*g+1]]))
		}
		return "=" + strings.Join(parts, "|")
	}
	modes := []string{"cs", "ic"}
	if cs.Modes == "cs" {
		modes = modes[:1]
	}
	csRows := map[int]string{}
	for _, mode := range modes {
		args := []string{"filter", "--dissect=" + pat, "-w", "1", "-l", "-e", expr}
		if mode == "ic" {
			args = append(args, "-I")
		}
		args = append(args, file)
		cmdline := fmt.Sprintf("rare filter --dissect=%q -w 1 -l -e %q%s FILE", pat, expr, map[string]string{"cs": "", "ic": " -I"}[mode])
		so, se, rc, to := runRare(c, args)
		if to {
			c.Inconclusive("rare did not finish within 30 s: " + cmdline)
			return
		}
		c.Count("cli_runs", 1)
		if bytes.Contains(se, []byte("panic:")) || bytes.Contains(se, []byte("goroutine ")) {
			fail("cli-panic", mode, fmt.Sprintf("%s crashed (rc=%d): %s", cmdline, rc, run.Q(string(se))))
			return
		}
		if p.rerr != errNone {
			if rc != 2 || len(so) != 0 {
				fail("cli", mode, fmt.Sprintf("%s: pattern has an %s; expected a usage failure (exit 2, no output), got rc=%d stdout=%s stderr=%s",
					cmdline, orOK(p.rerr), rc, run.Q(string(so)), run.Q(string(se))))
			}
			c.Count("cli_rejected_patterns", 1)
			continue
		}
		if rc != 0 && rc != 1 {
			fail("cli", mode, fmt.Sprintf("%s: well-formed pattern, but rc=%d stderr=%s", cmdline, rc, run.Q(string(se))))
			return
		}
		// rows: "<file> <n>: <extraction>"
		rows := map[int]string{}
		bad := ""
		for _, row := range bytes.Split(bytes.TrimSuffix(so, []byte("\n")), []byte("\n")) {
			if len(so) == 0 {
				break
			}
			s := string(row)
			if !strings.HasPrefix(s, file+" ") {
				bad = s
				break
			}
			s = s[len(file)+1:]
			k := strings.Index(s, ": ")
			if k < 0 {
				bad = string(row)
				break
			}
			ln, err := strconv.Atoi(s[:k])
			if err != nil || ln < 1 || ln > len(lines) {
				bad = string(row)
				break
			}
			if _, dup := rows[ln]; dup {
				bad = string(row) + " (line reported twice)"
				break
			}
			rows[ln] = s[k+2:]
		}
		if bad != "" {
			fail("cli", mode, fmt.Sprintf("%s: cannot attribute output row %s; stdout %s", cmdline, run.Q(bad), run.Q(string(so))))
			return
		}
		for i, l := range lines {
			got, present := rows[i+1]
			s := string(l)
			switch mode {
			case "cs":
				want := p.rp.find(s)
				if (want != nil) != present || present && got != render(l, want) {
					exp := "(no match)"
					if want != nil {
						exp = run.Q(render(l, want))
					}
					fail("cli", mode, fmt.Sprintf("%s: line %d %q: printed %s (present=%v), specification %s", cmdline, i+1, s, run.Q(got), present, exp))
					return
				}
				if present {
					csRows[i+1] = got
				}
			case "ic":
				if _, m := csRows[i+1]; m && !present {
					cls := "icase-lost"
					p.c.Violation(p.fp(cls, l, "ic/cli"), fmt.Sprintf("%s: line %d %q is printed without -I but not with -I", cmdline, i+1, s), cs)
					return
				}
				if p.patASCII && isASCII(s) {
					want := p.fold.find(lowerASCII(s))
					if (want != nil) != present || present && got != render(l, want) {
						exp := "(no match)"
						if want != nil {
							exp = run.Q(render(l, want))
						}
						fail("cli", mode, fmt.Sprintf("%s: line %d %q: printed %s (present=%v), specification on lower-cased text %s", cmdline, i+1, s, run.Q(got), present, exp))
						return
					}
				}
			}
			c.Count("cli_lines_judged", 1)
		}
	}
	c.Count("cli_cases", 1)
}
