// Package p12 decides C12: dissect matching equals its specification;
// ignore-case only adds matches (pkg/matchers/dissect, pkg/slicepool).
//
// Sub-checks (each a class of refuting event):
//
//	compile / compile-kind / names   CompileEx error-ness, error kind of single-fault patterns, SubexpNameTable
//	match                            case-sensitive FindSubmatchIndex == reference, any bytes
//	offsets                          every result ordered and within the line (both modes, any bytes)
//	icase-lost                       law (a): matched case-sensitively => matched with ignore-case (any bytes)
//	icase-ascii / icase-lower-law    law (b): ASCII pattern and line => ignore-case result == reference on
//	                                 lower-cased text == the real case-sensitive result on lower-cased pattern+line
//	stability                        index slices returned earlier re-read after later calls (> 3x1024 matches/instance)
//	cli                              rare filter --dissect ... [-I] -l -e '{0}|{1}|..' against the reference
package p12

import (
	"encoding/base64"
	"encoding/json"
	"fmt"
	"time"

	"verifharness/internal/reg"
	"verifharness/internal/run"
)

func init() { reg.Register("C12", Run) }

func Run(c *run.Ctx) {
	if c.Replay != nil {
		replay(c)
		return
	}
	n := &counters{}
	pinned(c, n)
	dense(c, n)
	random(c, n)
	n.flush(c)
	pn := &counters{repeat: true}
	pool(c, pn)
	pn.flush(c)
	if c.Flavour != "asan" {
		cli(c)
	}
}

func replay(c *run.Ctx) {
	var cs Case
	if err := json.Unmarshal(c.Replay, &cs); err != nil || cs.Pat == "" && cs.PatQ == "" {
		// dense journal entries carry only the pattern text
		var d struct {
			Dense string `json:"dense_b64"`
		}
		if json.Unmarshal(c.Replay, &d) == nil && d.Dense != "" {
			n := &counters{}
			c.Begin(&d, 0)
			densePattern(c, n, mustB64(d.Dense), denseLines(7))
			n.flush(c)
			c.End()
			return
		}
		c.Inconclusive("bad replay case")
		return
	}
	n := &counters{}
	c.Begin(&cs, 120*time.Second)
	switch cs.Kind {
	case "pool":
		runPool(c, n, &cs)
	case "cli":
		runCLI(c, &cs)
	default:
		runPairs(c, n, &cs, nil, true)
	}
	n.flush(c)
	c.End()
}

// ---------------------------------------------------------------- pinned witnesses

type witness struct {
	pat   string
	lines []string
}

// Always executed. The first two groups are the witnesses of the two known
// findings (regression cases once they are fixed); the rest pin documented
// examples and boundary shapes.
var witnesses = []witness{
	// icase:non-ascii-literal
	{"é=%{x};", []string{"é=1;", "É=1;", "xé=é=;;"}},
	{"Ω %{v}", []string{"Ω 5", "a Ω Ω"}},
	{"%{k}ß%{v}", []string{"aßb", "ßß"}},
	{"\xff%{v}", []string{"\xff1", "a\xff"}},
	{"K%{t}K", []string{"K273K", "k1k"}},
	{"日%{d}日", []string{"日5日", "x日日"}},
	// compile:percent-in-literal
	{"%{a} 50% off %{b}", []string{"x 50% off y", "x 50 off y", "x 50% off "}},
	{"%{pct}% done", []string{"42% done", "% done", "42 done"}},
	{"%{a}%", []string{"10%", "%", "10"}},
	{"cpu=%{c}%;mem=%{m}%", []string{"cpu=3%;mem=40%", "cpu=3;mem=40"}},
	{"%{a}%%{b}", []string{"1%2", "%", "12"}},
	// documentation examples
	{"prefix %{name} : %{value}", []string{"prefix bob : 123", "Prefix bob : 123", "prefix bob: 123"}},
	{"prefix %{name} : %{value} - %{?ignored}", []string{"prefix a : b - c", "prefix a : b c"}},
	{"%{ip} - - [%{timestamp}] \"%{verb} %{path} HTTP/%{?http-version}\" %{status} %{size} \"-\" \"%{useragent}\"",
		[]string{"104.238.185.46 - - [19/Aug/2019:02:26:25 +0000] \"GET / HTTP/1.1\" 200 546 \"-\" \"Mozilla/5.0 (StatusCake)\"",
			"104.238.185.46 - - [19/Aug/2019:02:26:25 +0000] \"get / http/1.1\" 200 546 \"-\" \"Mozilla/5.0 (StatusCake)\""}},
	// shapes
	{"", []string{"", "abc"}},
	{"test", []string{"atestb", "TEST", "tes"}},
	{"%{all}", []string{"", "whole line"}},
	{"%{}", []string{"", "x"}},
	{"ab%{x}b", []string{"abb", "abab", "aab", "ABxB", "ab"}},
	{"a%{x}ab%{y}b", []string{"aaabbb", "aab", "aabab"}},
	{"%{x}aa", []string{"aaa", "a", "baab aa"}},
	{"%{?s};%{};%{v}", []string{"1;2;3", ";;", "1;2"}},
	{"%{a", nil},
	{"x %{a}%{b}", nil},
	{"%{a} %{a}", nil},
	{"%{a} %{?a} %{} %{}", []string{"1 2 3 4"}},
}

func pinned(c *run.Ctx, n *counters) {
	if c.Shard != 0 {
		return
	}
	for _, w := range witnesses {
		var ls [][]byte
		for _, l := range w.lines {
			ls = append(ls, []byte(l))
		}
		cs := mkCase("pairs", "pinned", w.pat, "both", ls)
		c.Begin(cs, 0)
		runPairs(c, n, cs, nil, true)
		c.Count("pinned_cases", 1)
		c.End()
	}
}

// ---------------------------------------------------------------- dense small scope

var denseAlpha = []string{"a", "A", "b"}

func words(min, max int) []string {
	var out []string
	var rec func(p string)
	rec = func(p string) {
		if len(p) >= min {
			out = append(out, p)
		}
		if len(p) == max {
			return
		}
		for _, a := range denseAlpha {
			rec(p + a)
		}
	}
	rec("")
	return out
}

func denseLines(max int) [][]byte {
	var out [][]byte
	for _, w := range words(0, max) {
		out = append(out, []byte(w))
	}
	return out
}

func mustB64(s string) string {
	b, _ := base64.StdEncoding.DecodeString(s)
	return string(b)
}

// dense: every pattern of a small grammar over {a,A,b} x every line up to a
// length bound x both modes. ASCII only, so law (b) is judged on every pair.
func dense(c *run.Ctx, n *counters) {
	P, U, L := 1, 1, 7
	if c.Thorough() {
		P, U, L = 2, 2, 7
	}
	if c.Flavour == "asan" {
		P, U, L = 1, 1, 5
	}
	lines := denseLines(L)
	prefixes := words(0, P)
	mids := words(1, U)
	lasts := words(0, U)
	idx := 0
	emit := func(pat string) {
		if c.Mine(idx) {
			c.Begin(map[string]string{"dense": fmt.Sprintf("%q", pat), "dense_b64": b64([]byte(pat))}, 300*time.Second)
			densePattern(c, n, pat, lines)
			c.Count("dense_patterns", 1)
			if idx%64 == 0 {
				n.flush(c)
			}
			c.End()
		}
		idx++
	}
	for _, w := range words(0, 2) {
		emit(w) // no tokens
	}
	tok1 := []string{"%{x}", "%{}"}
	tok2 := [][2]string{{"%{x}", "%{y}"}, {"%{}", "%{y}"}, {"%{x}", "%{?y}"}, {"%{?x}", "%{}"}}
	for _, p := range prefixes {
		for _, l := range lasts {
			for _, t := range tok1 {
				emit(p + t + l)
			}
		}
	}
	for _, p := range prefixes {
		for _, m := range mids {
			for _, l := range lasts {
				for ti, t := range tok2 {
					if c.Thorough() && len(p) == 2 && ti >= 2 {
						continue // keep the thorough tier inside its budget
					}
					emit(p + t[0] + m + t[1] + l)
				}
			}
		}
	}
	if c.Thorough() {
		// three tokens, single-letter literals
		for _, p := range words(0, 1) {
			for _, m1 := range denseAlpha {
				for _, m2 := range denseAlpha {
					for _, l := range words(0, 1) {
						emit(p + "%{x}" + m1 + "%{}" + m2 + "%{z}" + l)
					}
				}
			}
		}
	}
}

func densePattern(c *run.Ctx, n *counters, pat string, lines [][]byte) {
	var p *patCtx
	panicked, val, stack := run.Guard(func() {
		p = newPat(c, n, "dense", pat, "both", "")
		if p.dead {
			return
		}
		for i, l := range lines {
			p.line(l, false, i%97 == 0)
			if p.bad && c.Violations() >= 6 {
				return
			}
		}
		p.group = mkCase("pairs", "dense", pat, "both", lines)
		p.stable("after all lines of the dense set were matched")
	})
	if panicked {
		var ln []byte
		if p != nil {
			ln = p.curLine
		}
		c.Violation("panic:"+run.Hash64(pat, string(ln)), fmt.Sprintf("pattern %q line %q: panic: %v\n%s", pat, ln, val, trim(stack)),
			mkCase("pairs", "dense", pat, "both", [][]byte{ln}))
	}
}

// ---------------------------------------------------------------- random groups

func pickStyle(r *run.Rand) *style { return &styles[r.Intn(len(styles))] }

// groupFor generates the i-th random group: pattern, modes, lines.
func groupFor(c *run.Ctx, stream string, i int, o genOpts, nlines int, noNL bool) (*Case, []bool, *style) {
	r := c.Rand(stream, i)
	st := pickStyle(r)
	o.noPercent = c.KnownActive(fpPercent)
	if nlines == 0 {
		nlines = r.Range(12, 30)
	}
	pat, expect := genPattern(r, st, o)
	rp, _ := refCompile(pat)
	modes := "both"
	if rp != nil && rp.fragileClass() && c.KnownActive(fpFragile) {
		// known finding icase:non-ascii-literal: stay out of exactly
		// (ignore-case x literal with a rune the byte-wise folding breaks)
		modes = "cs"
	}
	gl := genLines(r, rp, st, nlines, noNL)
	ls := make([][]byte, len(gl))
	near := make([]bool, len(gl))
	for k := range gl {
		ls[k], near[k] = gl[k].b, gl[k].near
	}
	if rp == nil {
		ls, near = nil, nil
	}
	cs := mkCase("pairs", stream, pat, modes, ls)
	cs.Expect = expect
	return cs, near, st
}

func random(c *run.Ctx, n *counters) {
	N := c.N(30000, 500000)
	if c.Flavour == "asan" {
		N = 20000
	}
	regBudget := 40000 // distinct non-trivial fingerprints registered per shard (evidence size)
	for i := 0; i < N; i++ {
		if !c.Mine(i) {
			continue
		}
		cs, near, st := groupFor(c, "random", i, genOpts{}, 0, false)
		cs.Tag = "random/" + st.name
		c.Begin(cs, 0)
		before := n.nontriv
		reg := regBudget > 0
		runPairs(c, n, cs, near, reg)
		if reg {
			regBudget -= int(n.nontriv - before)
		}
		if cs.Modes == "cs" {
			n.icSkippedKnown++
		}
		c.Count("random_groups", 1)
		c.SetAdd("styles", cs.Tag+"/"+cs.Modes)
		if i < 4 {
			c.Sample(map[string]any{"pattern": cs.PatQ, "modes": cs.Modes, "lines": cs.LinesQ[:min(5, len(cs.LinesQ))]})
		}
		if i%128 == 0 {
			n.flush(c)
		}
		c.End()
		if c.Violations() >= 6 {
			return
		}
	}
}

// ---------------------------------------------------------------- pool stability

// pool: one pattern, two instances of the same compiled Dissect used
// alternately (sequentially), each fed until it has produced Target
// successful matches (> 3 x 1024: the IntPool refills every 1024 carve-outs),
// every returned slice held and re-read.
func pool(c *run.Ctx, n *counters) {
	N := c.N(48, 480)
	if c.Flavour == "asan" {
		N = 32
	}
	for i := 0; i < N; i++ {
		if !c.Mine(i) {
			continue
		}
		var cs *Case
		for try := 0; ; try++ {
			cs, _, _ = groupFor(c, "pool", i*16+try, genOpts{wellFormed: true}, 24, false)
			pat, lines, _ := cs.decode()
			rp, _ := refCompile(pat)
			hits := 0
			for _, l := range lines {
				if rp.find(string(l)) != nil {
					hits++
				}
			}
			if hits >= 6 || try >= 15 {
				break
			}
		}
		cs.Kind = "pool"
		cs.Target = 3*1024 + 100 + 37*(i%9)
		c.Begin(cs, 120*time.Second)
		runPool(c, n, cs)
		c.Count("pool_instances", 2)
		c.End()
		if c.Violations() >= 6 {
			return
		}
	}
}

// matches: successful matches of the instance that has produced the fewest.
func (p *patCtx) matches() int {
	m := -1
	if p.csI != nil {
		m = len(p.holdCS.live)
	}
	if p.icI != nil && (m < 0 || len(p.holdIC.live) < m) {
		m = len(p.holdIC.live)
	}
	return m
}

func runPool(c *run.Ctx, n *counters, cs *Case) {
	pat, lines, err := cs.decode()
	if err != nil || len(lines) == 0 {
		c.Inconclusive("bad pool case")
		return
	}
	var cur []byte
	panicked, val, stack := run.Guard(func() {
		// two independent checkers = two instances per mode of the same pattern
		a := newPat(c, n, "pool", pat, cs.Modes, "")
		b := newPat(c, n, "pool", pat, cs.Modes, "")
		if a.dead || b.dead {
			return
		}
		a.group, b.group = cs, cs
		calls := 0
		maxCalls := cs.Target * 60
		for (a.matches() < cs.Target || b.matches() < cs.Target) && calls < maxCalls {
			l := lines[calls%len(lines)]
			cur = l
			// distinct line order per instance: b runs one line ahead
			a.line(l, false, false)
			b.line(lines[(calls+1)%len(lines)], false, false)
			calls++
			if calls%1024 == 0 {
				if !a.stable(fmt.Sprintf("after %d calls", calls)) || !b.stable(fmt.Sprintf("after %d calls (second instance)", calls)) {
					return
				}
			}
			if (a.bad || b.bad) && c.Violations() >= 6 {
				return
			}
		}
		a.stable(fmt.Sprintf("after %d calls", calls))
		b.stable(fmt.Sprintf("after %d calls (second instance)", calls))
		m := int64(min(a.matches(), b.matches()))
		c.Max("max_matches_held_one_pattern", m)
		if m >= int64(cs.Target) {
			c.Count("pool_targets_reached", 1)
		}
		c.Max("max_groups_pool", int64(a.rp.groups))
	})
	if panicked {
		c.Violation("panic:"+run.Hash64(pat, string(cur), "pool"), fmt.Sprintf("pattern %q line %q: panic: %v\n%s", pat, cur, val, trim(stack)), cs)
	}
}
