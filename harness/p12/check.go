package p12

import (
	"encoding/base64"
	"errors"
	"fmt"
	"strings"

	"rare/pkg/matchers"
	"rare/pkg/matchers/dissect"

	"verifharness/internal/run"
)

// Fingerprints of the two defects recorded in /verif/known.d/C12.json.
const (
	fpPercent = "compile:percent-in-literal"
	fpFragile = "icase:non-ascii-literal"
)

// Case is one replayable C12 execution: one pattern, a sequence of lines
// matched by one instance per mode.
type Case struct {
	Kind   string   `json:"kind"` // pairs | pool | cli
	Tag    string   `json:"tag,omitempty"`
	PatQ   string   `json:"pat"` // human-readable (Go-quoted); pat_b64 is authoritative
	Pat    string   `json:"pat_b64"`
	Modes  string   `json:"modes"` // cs | ic | both
	LinesQ []string `json:"lines,omitempty"`
	Lines  []string `json:"lines_b64"`
	Target int      `json:"target,omitempty"`     // pool: successful matches wanted per instance
	Expect string   `json:"expect_err,omitempty"` // single-fault malformed pattern: unclosed | adjacent | duplicate
}

func b64(b []byte) string { return base64.StdEncoding.EncodeToString(b) }

func mkCase(kind, tag, pat, modes string, lines [][]byte) *Case {
	cs := &Case{Kind: kind, Tag: tag, PatQ: fmt.Sprintf("%q", pat), Pat: b64([]byte(pat)), Modes: modes}
	for i, l := range lines {
		cs.Lines = append(cs.Lines, b64(l))
		if i < 40 {
			cs.LinesQ = append(cs.LinesQ, fmt.Sprintf("%q", l))
		}
	}
	return cs
}

func (cs *Case) decode() (pat string, lines [][]byte, err error) {
	p, err := base64.StdEncoding.DecodeString(cs.Pat)
	if err != nil {
		return "", nil, err
	}
	for _, l := range cs.Lines {
		b, err := base64.StdEncoding.DecodeString(l)
		if err != nil {
			return "", nil, err
		}
		lines = append(lines, b)
	}
	return string(p), lines, nil
}

// ---------------------------------------------------------------- hold monitor for []int

type holdInts struct {
	live   [][]int
	copies [][]int
}

func (h *holdInts) add(r []int) {
	if r == nil {
		return
	}
	h.live = append(h.live, r)
	h.copies = append(h.copies, append([]int(nil), r...))
}

func (h *holdInts) check() int {
	for i := range h.live {
		a, b := h.live[i], h.copies[i]
		if len(a) != len(b) {
			return i
		}
		for k := range a {
			if a[k] != b[k] {
				return i
			}
		}
	}
	return -1
}

func eqInts(a, b []int) bool {
	if (a == nil) != (b == nil) || len(a) != len(b) {
		return false
	}
	for i := range a {
		if a[i] != b[i] {
			return false
		}
	}
	return true
}

// offsetsOK: all offsets ordered and within the line.
func offsetsOK(r []int, n int) string {
	if r == nil {
		return ""
	}
	if len(r) < 2 || len(r)%2 != 0 {
		return fmt.Sprintf("result has %d entries", len(r))
	}
	if r[0] < 0 || r[1] < r[0] || r[1] > n {
		return fmt.Sprintf("group 0 [%d,%d) not within [0,%d]", r[0], r[1], n)
	}
	prev := r[0]
	for g := 1; 2*g < len(r); g++ {
		a, b := r[2*g], r[2*g+1]
		if a < prev || b < a || b > r[1] {
			return fmt.Sprintf("group %d [%d,%d) not ordered inside group 0 [%d,%d) after offset %d", g, a, b, r[0], r[1], prev)
		}
		prev = b
	}
	return ""
}

// ---------------------------------------------------------------- per-pattern checker

type counters struct {
	pairs, csCmp, icCmp, lawA, lawB, matchedCS, matchedIC, held, nontriv int64
	compiles, compileErrs, icSkippedKnown                                int64
	repeat                                                               bool // pool sequences repeat the same lines: counted as pool_calls, not as pairs
}

type patCtx struct {
	c     *run.Ctx
	tag   string
	pat   string
	modes string
	rp    *refPat
	rerr  string
	fold  *refPat

	patASCII bool
	percent  bool
	fragile  bool

	csI, icI, lowI matchers.Matcher // created through matchers.ToFactory, as the CLI does
	holdCS, holdIC holdInts

	curLine []byte
	curMode string
	bad     bool
	dead    bool // nothing to match with (rejected pattern or compile violation)
	n       *counters
	group   *Case // the whole sequence, for stability reports
}

func (p *patCtx) fp(class string, line []byte, mode string) string {
	switch class {
	case "compile", "compile-kind", "names", "match", "icase-ascii", "icase-lower-law", "icase-lost", "cli":
		if p.percent {
			return fpPercent
		}
	}
	if class == "icase-lost" && p.fragile {
		return fpFragile
	}
	return class + ":" + run.Hash64(p.pat, string(line), mode)
}

func (p *patCtx) fail(class string, line []byte, mode, msg string, cs *Case) {
	p.bad = true
	if cs == nil {
		var ls [][]byte
		if line != nil {
			ls = [][]byte{line}
		}
		cs = mkCase("pairs", p.tag, p.pat, "both", ls)
	}
	p.c.Violation(p.fp(class, line, mode), msg, cs)
}

func errKind(err error) string {
	switch {
	case err == nil:
		return errNone
	case errors.Is(err, dissect.ErrorUnclosedToken):
		return errUnclosed
	case errors.Is(err, dissect.ErrorSequentialToken):
		return errAdjacent
	case errors.Is(err, dissect.ErrorKeyConflict):
		return errDup
	}
	return "other:" + err.Error()
}

func namesEqual(a, b map[string]int) bool {
	if len(a) != len(b) {
		return false
	}
	for k, v := range a {
		if w, ok := b[k]; !ok || w != v {
			return false
		}
	}
	return true
}

// newPat compiles the pattern with the real code (both modes as requested) and
// with the reference, and judges errors and name tables. It returns nil when
// there is nothing to match with (rejected pattern, or a compile violation).
func newPat(c *run.Ctx, n *counters, tag, pat, modes, expect string) *patCtx {
	p := &patCtx{c: c, tag: tag, pat: pat, modes: modes, n: n}
	p.rp, p.rerr = refCompile(pat)
	p.patASCII = isASCII(pat)
	p.percent = percentClass(pat)
	if p.rp != nil {
		p.fragile = p.rp.fragileClass()
		p.fold = p.rp.folded()
	}
	type mode struct {
		name string
		ic   bool
	}
	var ms []mode
	if modes != "ic" {
		ms = append(ms, mode{"cs", false})
	}
	if modes != "cs" {
		ms = append(ms, mode{"ic", true})
	}
	for _, m := range ms {
		d, err := dissect.CompileEx(pat, m.ic)
		n.compiles++
		if err != nil {
			n.compileErrs++
		}
		if (err != nil) != (p.rerr != errNone) {
			p.fail("compile", nil, m.name, fmt.Sprintf("CompileEx(%q, ignoreCase=%v) error = %v; specification: %s",
				pat, m.ic, err, orOK(p.rerr)), nil)
			p.dead = true
			return p
		}
		if err != nil {
			if expect != "" && errKind(err) != expect {
				p.fail("compile-kind", nil, m.name, fmt.Sprintf("CompileEx(%q, ignoreCase=%v) error = %v; expected the %s-token error",
					pat, m.ic, err, expect), nil)
				p.dead = true
				return p
			}
			continue
		}
		if d == nil {
			p.fail("compile", nil, m.name, fmt.Sprintf("CompileEx(%q, ignoreCase=%v) returned (nil, nil)", pat, m.ic), nil)
			p.dead = true
			return p
		}
		if !namesEqual(d.SubexpNameTable(), p.rp.names) {
			p.fail("names", nil, m.name, fmt.Sprintf("SubexpNameTable of %q (ignoreCase=%v) = %v; specification %v",
				pat, m.ic, d.SubexpNameTable(), p.rp.names), nil)
			p.dead = true
			return p
		}
		inst := matchers.ToFactory(d).CreateInstance()
		if inst == nil || !namesEqual(inst.SubexpNameTable(), p.rp.names) {
			p.fail("names", nil, m.name, fmt.Sprintf("instance of %q (ignoreCase=%v) created through the factory has name table %v; specification %v",
				pat, m.ic, inst, p.rp.names), nil)
			p.dead = true
			return p
		}
		if m.ic {
			p.icI = inst
		} else {
			p.csI = inst
		}
	}
	if p.rerr != errNone {
		p.dead = true
		return p
	}
	// law (b) in its literal form needs the lower-cased pattern compiled
	// case-sensitively by the real code; lower-casing also lower-cases token
	// names, which may make two names collide: then only the reference form
	// of the law is judged.
	if p.icI != nil && p.patASCII {
		if d, err := dissect.CompileEx(lowerASCII(pat), false); err == nil && d != nil {
			p.lowI = matchers.ToFactory(d).CreateInstance()
		}
	}
	return p
}

func orOK(e string) string {
	if e == errNone {
		return "pattern is well-formed"
	}
	return e + " token error"
}

// line judges one line under every mode of this pattern. near marks lines the
// generator built as near-misses (for the non-triviality rule).
func (p *patCtx) line(line []byte, near bool, regNontrivial bool) {
	s := string(line)
	p.curLine = line
	want := p.rp.find(s)
	var got []int
	if p.csI != nil {
		p.curMode = "cs"
		in := append(make([]byte, 0, len(line)), line...)
		got = p.csI.FindSubmatchIndex(in)
		p.n.pairs++
		p.n.csCmp++
		if msg := offsetsOK(got, len(line)); msg != "" {
			p.fail("offsets", line, "cs", fmt.Sprintf("pattern %q line %q: %s; result %v", p.pat, s, msg, got), nil)
		}
		if !eqInts(got, want) {
			p.fail("match", line, "cs", fmt.Sprintf("pattern %q line %q: FindSubmatchIndex = %v, specification %v", p.pat, s, got, want), nil)
		}
		if got != nil {
			p.n.matchedCS++
			p.holdCS.add(got)
		}
		if string(in) != s {
			p.fail("input-modified", line, "cs", fmt.Sprintf("pattern %q: the input line %q was modified to %q", p.pat, s, in), nil)
		}
	}
	var wantI []int
	if p.icI != nil {
		p.curMode = "ic"
		in := append(make([]byte, 0, len(line)), line...)
		gotI := p.icI.FindSubmatchIndex(in)
		p.n.pairs++
		if msg := offsetsOK(gotI, len(line)); msg != "" {
			p.fail("offsets", line, "ic", fmt.Sprintf("pattern %q ignore-case line %q: %s; result %v", p.pat, s, msg, gotI), nil)
		}
		// law (a): a line matched case-sensitively still matches
		csMatched := want != nil
		if p.csI != nil {
			csMatched = got != nil
		}
		if csMatched {
			p.n.lawA++
			if gotI == nil {
				p.fail("icase-lost", line, "ic", fmt.Sprintf("pattern %q line %q matches case-sensitively (%v) but not with ignore-case", p.pat, s, orInts(got, want)), nil)
			}
		}
		// law (b): ASCII text => equals the case-sensitive result on lower-cased pattern and line
		if p.patASCII && isASCII(s) {
			low := lowerASCII(s)
			wantI = p.fold.find(low)
			p.n.icCmp++
			if !eqInts(gotI, wantI) {
				p.fail("icase-ascii", line, "ic", fmt.Sprintf("pattern %q ignore-case line %q: FindSubmatchIndex = %v, specification on lower-cased text %v", p.pat, s, gotI, wantI), nil)
			}
			if p.lowI != nil {
				p.curMode = "low"
				gl := p.lowI.FindSubmatchIndex([]byte(low))
				p.n.lawB++
				if !eqInts(gotI, gl) {
					p.fail("icase-lower-law", line, "ic", fmt.Sprintf("pattern %q ignore-case line %q = %v, but case-sensitive %q on %q = %v", p.pat, s, gotI, lowerASCII(p.pat), low, gl), nil)
				}
			}
		}
		if gotI != nil {
			p.n.matchedIC++
			p.holdIC.add(gotI)
		}
		if string(in) != s {
			p.fail("input-modified", line, "ic", fmt.Sprintf("pattern %q ignore-case: the input line %q was modified to %q", p.pat, s, in), nil)
		}
	}
	if len(p.rp.toks) >= 1 && (want != nil || wantI != nil || near) {
		p.n.nontriv++
		if regNontrivial {
			p.c.Nontrivial(p.pat, s)
		}
	}
}

func orInts(a, b []int) []int {
	if a != nil {
		return a
	}
	return b
}

// stable re-reads every index slice returned so far.
func (p *patCtx) stable(after string) bool {
	ok := true
	for _, h := range []struct {
		name string
		h    *holdInts
	}{{"cs", &p.holdCS}, {"ic", &p.holdIC}} {
		p.n.held += int64(len(h.h.live))
		if i := h.h.check(); i >= 0 {
			ok = false
			cs := p.group
			p.bad = true
			p.c.Violation("stability:"+run.Hash64(p.pat, h.name), fmt.Sprintf(
				"pattern %q (%s): index slice returned for successful match #%d was %v and reads %v %s",
				p.pat, h.name, i, h.h.copies[i], h.h.live[i], after), cs)
		}
	}
	return ok
}

func (n *counters) flush(c *run.Ctx) {
	if n.repeat {
		c.Count("pool_calls", n.pairs)
	} else {
		c.Count("pairs", n.pairs)
	}
	c.Count("cs_compared", n.csCmp)
	c.Count("ic_ascii_compared", n.icCmp)
	c.Count("law_a_checked", n.lawA)
	c.Count("law_b_checked", n.lawB)
	c.Count("matched_cs", n.matchedCS)
	c.Count("matched_ic", n.matchedIC)
	c.Count("slices_rechecked", n.held)
	c.Count("nontrivial_pairs", n.nontriv)
	c.Count("compiles", n.compiles)
	c.Count("compile_errors", n.compileErrs)
	c.Count("ic_skipped_known_class", n.icSkippedKnown)
	c.Evals(int(n.pairs))
	*n = counters{repeat: n.repeat}
}

// runPairs executes one "pairs" case: compile, match every line in order with
// one instance per mode, re-read all returned slices at the end.
func runPairs(c *run.Ctx, n *counters, cs *Case, near []bool, regNontrivial bool) bool {
	pat, lines, err := cs.decode()
	if err != nil {
		c.Inconclusive("bad case encoding: " + err.Error())
		return false
	}
	var p *patCtx
	ok := true
	panicked, val, stack := run.Guard(func() {
		p = newPat(c, n, cs.Tag, pat, cs.Modes, cs.Expect)
		if p.dead {
			return
		}
		p.group = cs
		for i, l := range lines {
			nr := false
			if i < len(near) {
				nr = near[i]
			}
			p.line(l, nr, regNontrivial)
		}
		p.stable("after the later lines of the sequence were matched")
	})
	if panicked {
		ok = false
		var ln []byte
		mode := "compile"
		if p != nil {
			ln, mode = p.curLine, p.curMode
		}
		var ls [][]byte
		if ln != nil {
			ls = [][]byte{ln}
		}
		c.Violation("panic:"+run.Hash64(pat, string(ln), mode),
			fmt.Sprintf("pattern %q line %q (%s): panic: %v\n%s", pat, ln, mode, val, trim(stack)), mkCase("pairs", cs.Tag, pat, "both", ls))
	}
	if p != nil && p.bad {
		ok = false
	}
	return ok
}

func trim(s string) string {
	l := strings.Split(s, "\n")
	if len(l) > 24 {
		l = l[:24]
	}
	return strings.Join(l, "\n")
}
