// Package p07 decides C07: the histogram counter, sub-key counter, table,
// accumulating-group and numerical aggregators (pkg/aggregation) hold exactly
// the fold of their sample history, after every prefix; count-style results
// do not depend on sample order; Table.Trim removes exactly the selected cells
// plus rows/columns left empty.
package p07

import (
	"encoding/json"
	"fmt"
	"math"
	"runtime"
	"runtime/debug"
	"sort"
	"strconv"
	"strings"
	"time"

	"rare/pkg/aggregation"
	"rare/pkg/aggregation/sorting"
	"rare/pkg/expressions/funclib"

	"verifharness/internal/reg"
	"verifharness/internal/run"
)

func init() { reg.Register("C07", Run) }

// fingerprints of the narrow classes that have a pinned witness (see known.d/C07.json)
const (
	fpQuantile  = "numerical:quantile-index-past-end"
	fpDelim     = "table:multibyte-delim"
	fpSentinel  = "table:minmax-sentinel"
	fpTrimEmpty = "trim:empty-column-kept"
	fpInfMinMax = "numerical:minmax-inf-sentinel"
)

// directSep separates key / sub-key / increment of a sample that is applied
// through SampleValue / SampleItem instead of Sample (keys may then contain NUL).
const directSep = "\x1f"

// Case is one replayable C07 execution.
type Case struct {
	Agg      string    `json:"agg"`              // counter | subkey | table | numerical | accum
	Delim    string    `json:"delim,omitempty"`  // table delimiter (Go-quoted)
	Direct   bool      `json:"direct,omitempty"` // counters: SampleValue/SampleItem with parts split on \x1f
	Samples  []string  `json:"samples"`          // Go-quoted (strconv.QuoteToASCII)
	Full     bool      `json:"full,omitempty"`   // full comparison after every prefix (else light + checkpoints)
	Trim     []string  `json:"trim,omitempty"`   // table: trim predicates, each applied to a fresh replay
	Perms    int       `json:"perms,omitempty"`  // count-style: number of re-orderings compared
	PermSeed uint64    `json:"perm_seed,omitempty"`
	Reverse  bool      `json:"reverse,omitempty"` // numerical
	Keep     bool      `json:"keep,omitempty"`    // numerical: KeepValuesForAnalysis
	Qs       []float64 `json:"qs,omitempty"`      // numerical: quantile arguments in [0,1]
	Acc      *AccDef   `json:"acc,omitempty"`
	Pinned   string    `json:"pinned,omitempty"` // literal fingerprint of a pinned witness
}

type fail struct {
	class string
	lit   string // literal fingerprint of a narrow class, if the failure is exactly that class
	msg   string
	n     int // failing prefix length (0: the whole history matters, e.g. re-ordering / trim)
}

type stats struct {
	prefix, full, perm, trim, fed, stat, order, parts int64
}

// env carries what the runners need from the context without touching it in hot loops.
type env struct {
	knownSentinel, knownTrim, knownQuantile, knownInf bool
}

func quoteAll(s []string) []string {
	out := make([]string, len(s))
	for i, x := range s {
		out[i] = strconv.QuoteToASCII(x)
	}
	return out
}

func unquoteAll(s []string) ([]string, error) {
	out := make([]string, len(s))
	for i, x := range s {
		u, err := strconv.Unquote(x)
		if err != nil {
			return nil, err
		}
		out[i] = u
	}
	return out, nil
}

func showHist(samples []string, n int) string {
	var sb strings.Builder
	sb.WriteString("[")
	for i := 0; i < n; i++ {
		if n > 16 && i == 6 {
			fmt.Fprintf(&sb, " …(%d elements in all)…", n)
			i = n - 9
			continue
		}
		if i > 0 {
			sb.WriteString(" ")
		}
		sb.WriteString(strconv.QuoteToASCII(samples[i]))
	}
	sb.WriteString("]")
	return sb.String()
}

func fullAt(cs *Case, n, total int) bool {
	return cs.Full || n <= 32 || n&(n-1) == 0 || n%1024 == 0 || n == total
}

// ---------------------------------------------------------------- histogram counter

func splitDirect(raw string) (parts []string, inc int64) {
	parts = strings.Split(raw, directSep)
	inc, _ = strconv.ParseInt(parts[len(parts)-1], 10, 64)
	return parts[:len(parts)-1], inc
}

func feedCounter(cs *Case, agg *aggregation.MatchCounter, raw string) {
	if cs.Direct {
		p, inc := splitDirect(raw)
		agg.SampleValue(p[0], inc)
	} else {
		agg.Sample(raw)
	}
}

func checkCounterFull(agg *aggregation.MatchCounter, ref *refCounter) *fail {
	if agg.ParseErrors() != ref.errs {
		return &fail{class: "parse-errors", msg: fmt.Sprintf("ParseErrors()=%d, fold gives %d", agg.ParseErrors(), ref.errs)}
	}
	if agg.GroupCount() != len(ref.counts) {
		return &fail{class: "group-count", msg: fmt.Sprintf("GroupCount()=%d, fold has %d keys", agg.GroupCount(), len(ref.counts))}
	}
	if agg.Total() != ref.total() {
		return &fail{class: "total", msg: fmt.Sprintf("Total()=%d, sum of increments is %d", agg.Total(), ref.total())}
	}
	items := agg.Items()
	if len(items) != len(ref.counts) {
		return &fail{class: "items", msg: fmt.Sprintf("Items() has %d entries, fold has %d keys", len(items), len(ref.counts))}
	}
	var seen map[string]struct{}
	if len(items) > 6 {
		seen = make(map[string]struct{}, len(items))
	}
	for i, it := range items {
		want, ok := ref.counts[it.Name]
		if !ok {
			return &fail{class: "items", msg: fmt.Sprintf("Items() contains key %s that was never sampled", run.Q(it.Name))}
		}
		if it.Item.Count() != want {
			return &fail{class: "count", msg: fmt.Sprintf("key %s: count %d, fold gives %d", run.Q(it.Name), it.Item.Count(), want)}
		}
		if seen != nil {
			if _, dup := seen[it.Name]; dup {
				return &fail{class: "items", msg: fmt.Sprintf("Items() lists key %s twice", run.Q(it.Name))}
			}
			seen[it.Name] = struct{}{}
		} else {
			for j := 0; j < i; j++ {
				if items[j].Name == it.Name {
					return &fail{class: "items", msg: fmt.Sprintf("Items() lists key %s twice", run.Q(it.Name))}
				}
			}
		}
	}
	return nil
}

func runCounter(cs *Case, samples []string, st *stats) *fail {
	agg := aggregation.NewCounter()
	ref := newRefCounter()
	var running int64
	for i, raw := range samples {
		feedCounter(cs, agg, raw)
		if cs.Direct {
			p, inc := splitDirect(raw)
			ref.direct(p[0], inc)
			running += inc
		} else if inc, ok := ref.feed(raw); ok {
			running += inc
		}
		n := i + 1
		st.prefix++
		st.fed++
		var f *fail
		if fullAt(cs, n, len(samples)) {
			st.full++
			f = checkCounterFull(agg, ref)
		} else {
			switch {
			case agg.ParseErrors() != ref.errs:
				f = &fail{class: "parse-errors", msg: fmt.Sprintf("ParseErrors()=%d, fold gives %d", agg.ParseErrors(), ref.errs)}
			case agg.GroupCount() != len(ref.counts):
				f = &fail{class: "group-count", msg: fmt.Sprintf("GroupCount()=%d, fold has %d keys", agg.GroupCount(), len(ref.counts))}
			case agg.Total() != running:
				f = &fail{class: "total", msg: fmt.Sprintf("Total()=%d, sum of increments is %d", agg.Total(), running)}
			}
		}
		if f != nil {
			f.n = n
			f.msg = fmt.Sprintf("histogram counter after prefix %d of %s: %s", n, showHist(samples, n), f.msg)
			return f
		}
	}
	for p := 0; p < cs.Perms; p++ {
		order := permute(cs, p, samples)
		a2 := aggregation.NewCounter()
		for _, raw := range order {
			feedCounter(cs, a2, raw)
		}
		st.perm++
		st.fed += int64(len(order))
		if f := checkCounterFull(a2, ref); f != nil {
			f.class = "order-" + f.class
			f.msg = fmt.Sprintf("histogram counter, re-ordering #%d (%s) of %s differs from the fold: %s", p, permName(p), showHist(samples, len(samples)), f.msg)
			return f
		}
	}
	return nil
}

func permName(p int) string {
	switch p {
	case 0:
		return "reversed"
	case 1:
		return "sorted"
	}
	return "shuffled"
}

func permute(cs *Case, p int, samples []string) []string {
	out := append([]string(nil), samples...)
	switch p {
	case 0:
		for i, j := 0, len(out)-1; i < j; i, j = i+1, j-1 {
			out[i], out[j] = out[j], out[i]
		}
	case 1:
		sort.Strings(out)
	default:
		r := run.NewRand(cs.PermSeed, p)
		for i := len(out) - 1; i > 0; i-- {
			j := r.Intn(i + 1)
			out[i], out[j] = out[j], out[i]
		}
	}
	return out
}

// ---------------------------------------------------------------- sub-key counter

func feedSubKey(cs *Case, agg *aggregation.SubKeyCounter, raw string) {
	if cs.Direct {
		p, inc := splitDirect(raw)
		agg.SampleValue(p[0], p[1], inc)
	} else {
		agg.Sample(raw)
	}
}

func checkSubKeyFull(agg *aggregation.SubKeyCounter, ref *refSubKey) *fail {
	if agg.ParseErrors() != ref.errs {
		return &fail{class: "parse-errors", msg: fmt.Sprintf("ParseErrors()=%d, fold gives %d", agg.ParseErrors(), ref.errs)}
	}
	subs := agg.SubKeys()
	want := ref.sortedSubs()
	if len(subs) != len(want) {
		return &fail{class: "subkeys", msg: fmt.Sprintf("SubKeys()=%q, fold gives %q", subs, want)}
	}
	for i := range want {
		if subs[i] != want[i] {
			return &fail{class: "subkeys", msg: fmt.Sprintf("SubKeys()=%q, fold gives (sorted) %q", subs, want)}
		}
	}
	items := agg.Items()
	if len(items) != len(ref.rows) {
		return &fail{class: "items", msg: fmt.Sprintf("Items() has %d rows, fold has %d keys", len(items), len(ref.rows))}
	}
	var seen map[string]struct{}
	if len(items) > 6 {
		seen = make(map[string]struct{}, len(items))
	}
	for i, it := range items {
		row, ok := ref.rows[it.Name]
		if !ok {
			return &fail{class: "items", msg: fmt.Sprintf("Items() contains key %s that was never sampled", run.Q(it.Name))}
		}
		if seen != nil {
			if _, dup := seen[it.Name]; dup {
				return &fail{class: "items", msg: fmt.Sprintf("Items() lists key %s twice", run.Q(it.Name))}
			}
			seen[it.Name] = struct{}{}
		} else {
			for j := 0; j < i; j++ {
				if items[j].Name == it.Name {
					return &fail{class: "items", msg: fmt.Sprintf("Items() lists key %s twice", run.Q(it.Name))}
				}
			}
		}
		vals := it.Item.Items()
		if len(vals) != len(want) {
			return &fail{class: "row-width", msg: fmt.Sprintf("key %s: Items() has %d values for %d sub-keys %q", run.Q(it.Name), len(vals), len(want), want)}
		}
		var sum int64
		for j, sk := range want {
			if vals[j] != row[sk] {
				return &fail{class: "cell", msg: fmt.Sprintf("key %s sub-key %s (index %d of %q): value %d, fold gives %d (row %v)", run.Q(it.Name), run.Q(sk), j, want, vals[j], row[sk], vals)}
			}
			sum += row[sk]
		}
		if it.Item.Count() != sum {
			return &fail{class: "row-count", msg: fmt.Sprintf("key %s: Count()=%d, sum of its sub-key values is %d", run.Q(it.Name), it.Item.Count(), sum)}
		}
	}
	return nil
}

func runSubKey(cs *Case, samples []string, st *stats) *fail {
	agg := aggregation.NewSubKeyCounter()
	ref := newRefSubKey()
	for i, raw := range samples {
		feedSubKey(cs, agg, raw)
		var newSub bool
		if cs.Direct {
			p, inc := splitDirect(raw)
			newSub = ref.direct(p[0], p[1], inc)
		} else {
			newSub = ref.feed(raw)
		}
		n := i + 1
		st.prefix++
		st.fed++
		var f *fail
		if newSub || fullAt(cs, n, len(samples)) {
			st.full++
			f = checkSubKeyFull(agg, ref)
		} else {
			switch {
			case agg.ParseErrors() != ref.errs:
				f = &fail{class: "parse-errors", msg: fmt.Sprintf("ParseErrors()=%d, fold gives %d", agg.ParseErrors(), ref.errs)}
			case len(agg.SubKeys()) != len(ref.subs):
				f = &fail{class: "subkeys", msg: fmt.Sprintf("SubKeys() has %d entries, fold has %d", len(agg.SubKeys()), len(ref.subs))}
			}
		}
		if f != nil {
			f.n = n
			f.msg = fmt.Sprintf("sub-key counter after prefix %d of %s: %s", n, showHist(samples, n), f.msg)
			return f
		}
	}
	for p := 0; p < cs.Perms; p++ {
		order := permute(cs, p, samples)
		a2 := aggregation.NewSubKeyCounter()
		for _, raw := range order {
			feedSubKey(cs, a2, raw)
		}
		st.perm++
		st.fed += int64(len(order))
		if f := checkSubKeyFull(a2, ref); f != nil {
			f.class = "order-" + f.class
			f.msg = fmt.Sprintf("sub-key counter, re-ordering #%d (%s) of %s differs from the fold: %s", p, permName(p), showHist(samples, len(samples)), f.msg)
			return f
		}
	}
	return nil
}

// ---------------------------------------------------------------- table

// trimMark starts a history element that is not a sample but a Trim with the
// predicate named after it (table only): samples, trim, more samples ...
const trimMark = "\x1eTRIM:"

func trimStep(raw string) (spec string, ok bool) {
	if strings.HasPrefix(raw, trimMark) {
		return raw[len(trimMark):], true
	}
	return "", false
}

func hasTrimSteps(samples []string) bool {
	for _, s := range samples {
		if strings.HasPrefix(s, trimMark) {
			return true
		}
	}
	return false
}

func feedTable(cs *Case, agg *aggregation.TableAggregator, raw string) {
	if spec, isTrim := trimStep(raw); isTrim {
		if pred, ok := trimPredicate(spec); ok {
			agg.Trim(pred)
		}
		return
	}
	if cs.Direct {
		p, inc := splitDirect(raw)
		agg.SampleItem(p[0], p[1], inc)
	} else {
		agg.Sample(raw)
	}
}

func checkTableFull(agg *aggregation.TableAggregator, ref *refTable, e *env) *fail {
	if agg.ParseErrors() != ref.errs {
		return &fail{class: "parse-errors", msg: fmt.Sprintf("ParseErrors()=%d, fold gives %d", agg.ParseErrors(), ref.errs)}
	}
	cols := agg.Columns()
	if len(cols) != len(ref.cols) || agg.ColumnCount() != len(ref.cols) {
		return &fail{class: "columns", msg: fmt.Sprintf("Columns()=%q ColumnCount()=%d, fold has %d columns %q", cols, agg.ColumnCount(), len(ref.cols), keysOf(ref.cols))}
	}
	for i, cname := range cols {
		if _, ok := ref.cols[cname]; !ok {
			return &fail{class: "columns", msg: fmt.Sprintf("Columns() contains %s which was never sampled (fold: %q)", run.Q(cname), keysOf(ref.cols))}
		}
		for j := 0; j < i && i < 8; j++ {
			if cols[j] == cname {
				return &fail{class: "columns", msg: fmt.Sprintf("Columns() lists %s twice", run.Q(cname))}
			}
		}
	}
	rows := agg.Rows()
	if len(rows) != len(ref.cells) || agg.RowCount() != len(ref.cells) {
		return &fail{class: "rows", msg: fmt.Sprintf("Rows() has %d rows, RowCount()=%d, fold has %d", len(rows), agg.RowCount(), len(ref.cells))}
	}
	var seen map[string]struct{}
	if len(rows) > 6 {
		seen = make(map[string]struct{}, len(rows))
	}
	for i, r := range rows {
		m, ok := ref.cells[r.Name()]
		if !ok {
			return &fail{class: "rows", msg: fmt.Sprintf("Rows() contains row %s which was never sampled", run.Q(r.Name()))}
		}
		if seen != nil {
			if _, dup := seen[r.Name()]; dup {
				return &fail{class: "rows", msg: fmt.Sprintf("Rows() lists row %s twice", run.Q(r.Name()))}
			}
			seen[r.Name()] = struct{}{}
		} else {
			for j := 0; j < i; j++ {
				if rows[j].Name() == r.Name() {
					return &fail{class: "rows", msg: fmt.Sprintf("Rows() lists row %s twice", run.Q(r.Name()))}
				}
			}
		}
		var sum int64
		valCols := ref.cols
		if ref.everCols != nil {
			valCols = ref.everCols // after a trim: also the columns that are gone must read 0
		}
		for c := range valCols {
			if r.Value(c) != m[c] {
				return &fail{class: "cell", msg: fmt.Sprintf("cell (col %s, row %s): Value()=%d, fold gives %d", run.Q(c), run.Q(r.Name()), r.Value(c), m[c])}
			}
			sum += m[c]
		}
		if _, tainted := ref.taintRow[r.Name()]; !tainted && r.Sum() != sum {
			return &fail{class: "row-sum", msg: fmt.Sprintf("row %s: Sum()=%d, sum of its cells is %d", run.Q(r.Name()), r.Sum(), sum)}
		}
	}
	var grand int64
	for c := range ref.cols {
		want := ref.colTotal(c)
		if _, tainted := ref.taintCol[c]; !tainted && agg.ColTotal(c) != want {
			return &fail{class: "col-total", msg: fmt.Sprintf("column %s: ColTotal()=%d, sum of its cells is %d", run.Q(c), agg.ColTotal(c), want)}
		}
		grand += want
	}
	if len(ref.taintCol) == 0 && (agg.Sum() != grand || grand != ref.grand()) {
		return &fail{class: "grand-total", msg: fmt.Sprintf("Sum()=%d, sum of the column totals is %d, sum of all cells is %d", agg.Sum(), grand, ref.grand())}
	}
	if mn, mx, ok := ref.minmax(); ok {
		omn, omx := agg.ComputeMinMax()
		if omn != mn || omx != mx {
			// narrow class: every cell of the full grid equals the value the implementation uses as "nothing seen"
			sentMin := mn == math.MaxInt64 && omn == 0
			sentMax := mx == math.MinInt64 && omx == 0
			onlySentinel := (omn == mn || sentMin) && (omx == mx || sentMax)
			if onlySentinel {
				if !e.knownSentinel {
					return &fail{class: "minmax", lit: fpSentinel, msg: fmt.Sprintf("ComputeMinMax()=(%d,%d), min/max over the %dx%d grid (absent=0) is (%d,%d)", omn, omx, len(ref.cells), len(ref.cols), mn, mx)}
				}
			} else {
				return &fail{class: "minmax", msg: fmt.Sprintf("ComputeMinMax()=(%d,%d), min/max over the %dx%d grid (absent=0) is (%d,%d)", omn, omx, len(ref.cells), len(ref.cols), mn, mx)}
			}
		}
	}
	return nil
}

func keysOf(m map[string]struct{}) []string {
	out := make([]string, 0, len(m))
	for k := range m {
		out = append(out, k)
	}
	sort.Strings(out)
	return out
}

func runTable(cs *Case, samples []string, st *stats, e *env) *fail {
	delim, err := strconv.Unquote(cs.Delim)
	if err != nil || delim == "" {
		return &fail{class: "setup", msg: "bad delimiter in case"}
	}
	agg := aggregation.NewTable(delim)
	ref := newRefTable(delim)
	feedRef := func(r *refTable, raw string) (string, bool) {
		if cs.Direct {
			p, inc := splitDirect(raw)
			r.direct(p[0], p[1], inc)
			return p[0], true
		}
		return r.feed(raw)
	}
	colRunning := map[string]int64{}
	interleaved := hasTrimSteps(samples)
	for i, raw := range samples {
		feedTable(cs, agg, raw)
		spec, isTrim := trimStep(raw)
		var col string
		var ok bool
		if isTrim {
			pred, good := trimPredicate(spec)
			if !good {
				return &fail{class: "setup", msg: "unknown trim predicate " + spec}
			}
			ref.applyTrim(pred)
			st.trim++
			for k := range colRunning {
				delete(colRunning, k)
			}
			for c := range ref.cols {
				colRunning[c] = ref.colTotal(c)
			}
		} else {
			col, ok = feedRef(ref, raw)
		}
		if ok {
			var inc int64 = 1
			if cs.Direct {
				_, inc = splitDirect(raw)
			} else if parts := strings.Split(raw, delim); len(parts) >= 3 {
				inc, _ = parseInc(parts[2])
			}
			colRunning[col] += inc
		}
		n := i + 1
		st.prefix++
		st.fed++
		var f *fail
		// the sample right after a trim is compared in full as well (stale references to trimmed rows / columns)
		afterTrim := i > 0 && strings.HasPrefix(samples[i-1], trimMark)
		if isTrim || afterTrim || fullAt(cs, n, len(samples)) {
			st.full++
			f = checkTableFull(agg, ref, e)
			if f != nil && ref.trims > 0 {
				f.class = "interleaved-" + f.class
			}
		} else {
			_, colTainted := ref.taintCol[col]
			if colTainted {
				ok = false
			}
			switch {
			case agg.ParseErrors() != ref.errs:
				f = &fail{class: "parse-errors", msg: fmt.Sprintf("ParseErrors()=%d, fold gives %d", agg.ParseErrors(), ref.errs)}
			case agg.ColumnCount() != len(ref.cols):
				f = &fail{class: "columns", msg: fmt.Sprintf("ColumnCount()=%d, fold has %d", agg.ColumnCount(), len(ref.cols))}
			case agg.RowCount() != len(ref.cells):
				f = &fail{class: "rows", msg: fmt.Sprintf("RowCount()=%d, fold has %d", agg.RowCount(), len(ref.cells))}
			case ok && agg.ColTotal(col) != colRunning[col]:
				f = &fail{class: "col-total", msg: fmt.Sprintf("column %s: ColTotal()=%d, sum of its increments is %d", run.Q(col), agg.ColTotal(col), colRunning[col])}
			}
		}
		if f != nil {
			f.n = n
			f.msg = fmt.Sprintf("table (delim %s) after prefix %d of %s (%d trims so far): %s", cs.Delim, n, showHist(samples, n), ref.trims, f.msg)
			return f
		}
	}
	for p := 0; p < cs.Perms && !interleaved; p++ { // a history with trims in it is not order-independent
		order := permute(cs, p, samples)
		a2 := aggregation.NewTable(delim)
		for _, raw := range order {
			feedTable(cs, a2, raw)
		}
		st.perm++
		st.fed += int64(len(order))
		if f := checkTableFull(a2, ref, e); f != nil {
			f.class = "order-" + f.class
			f.msg = fmt.Sprintf("table (delim %s), re-ordering #%d (%s) of %s differs from the fold: %s", cs.Delim, p, permName(p), showHist(samples, len(samples)), f.msg)
			return f
		}
	}
	for _, spec := range cs.Trim {
		pred, ok := trimPredicate(spec)
		if !ok {
			return &fail{class: "setup", msg: "unknown trim predicate " + spec}
		}
		a2 := aggregation.NewTable(delim)
		for _, raw := range samples {
			feedTable(cs, a2, raw)
		}
		st.trim++
		st.fed += int64(len(samples))
		if f := checkTrim(a2, ref, spec, pred, e); f != nil {
			f.msg = fmt.Sprintf("table (delim %s) built from %s then Trim(%s): %s", cs.Delim, showHist(samples, len(samples)), spec, f.msg)
			return f
		}
	}
	return nil
}

// trimPredicate builds a pure predicate of (col,row,val) from its spec.
func trimPredicate(spec string) (func(col, row string, val int64) bool, bool) {
	name, arg, _ := strings.Cut(spec, ":")
	k, _ := strconv.ParseInt(arg, 10, 64)
	h := func(s string) uint64 {
		var x uint64 = 1469598103934665603
		for i := 0; i < len(s); i++ {
			x ^= uint64(s[i])
			x *= 1099511628211
		}
		x ^= uint64(k) * 0x9e3779b97f4a7c15
		x ^= x >> 29
		x *= 0xbf58476d1ce4e5b9
		x ^= x >> 32
		return x
	}
	switch name {
	case "all":
		return func(string, string, int64) bool { return true }, true
	case "none":
		return func(string, string, int64) bool { return false }, true
	case "col": // by column (what `spark` does when it drops old columns)
		return func(c, _ string, _ int64) bool { return h(c)&1 == 1 }, true
	case "col3":
		return func(c, _ string, _ int64) bool { return h(c)%3 != 0 }, true
	case "row":
		return func(_, r string, _ int64) bool { return h(r)&1 == 1 }, true
	case "row3":
		return func(_, r string, _ int64) bool { return h(r)%3 != 0 }, true
	case "cell":
		return func(c, r string, _ int64) bool { return h(c+"\x00\x00"+r)&1 == 1 }, true
	case "neg":
		return func(_, _ string, v int64) bool { return v < 0 }, true
	case "pos":
		return func(_, _ string, v int64) bool { return v > 0 }, true
	case "zero":
		return func(_, _ string, v int64) bool { return v == 0 }, true
	case "nonzero":
		return func(_, _ string, v int64) bool { return v != 0 }, true
	case "lt":
		return func(_, _ string, v int64) bool { return v < k }, true
	case "ge":
		return func(_, _ string, v int64) bool { return v >= k }, true
	case "rowis": // selects one row entirely (arg is the row name)
		return func(_, r string, _ int64) bool { return r == arg }, true
	case "colis":
		return func(c, _ string, _ int64) bool { return c == arg }, true
	}
	return nil, false
}

func checkTrim(agg *aggregation.TableAggregator, ref *refTable, spec string, pred func(col, row string, val int64) bool, e *env) *fail {
	agg.Trim(pred)
	// fold: remove exactly the selected (existing) cells, then rows / columns left without a cell
	remain := map[string]map[string]int64{}
	colsLeft := map[string]struct{}{}
	for row, m := range ref.cells {
		for col, v := range m {
			if pred(col, row, v) {
				continue
			}
			rm := remain[row]
			if rm == nil {
				rm = map[string]int64{}
				remain[row] = rm
			}
			rm[col] = v
			colsLeft[col] = struct{}{}
		}
	}
	rows := agg.Rows()
	got := map[string]*aggregation.TableRow{}
	for _, r := range rows {
		if _, dup := got[r.Name()]; dup {
			return &fail{class: "trim-rows", msg: fmt.Sprintf("Rows() lists row %s twice", run.Q(r.Name()))}
		}
		got[r.Name()] = r
	}
	for name := range got {
		if _, ok := remain[name]; !ok {
			if _, existed := ref.cells[name]; existed {
				return &fail{class: "trim-rows", msg: fmt.Sprintf("row %s has no cell left but is still listed by Rows()", run.Q(name))}
			}
			return &fail{class: "trim-rows", msg: fmt.Sprintf("Rows() contains row %s which was never sampled", run.Q(name))}
		}
	}
	for name := range remain {
		if _, ok := got[name]; !ok {
			return &fail{class: "trim-rows", msg: fmt.Sprintf("row %s still has %d unselected cells but is gone", run.Q(name), len(remain[name]))}
		}
	}
	// cells: over every column the table ever had
	for name, r := range got {
		for c := range ref.cols {
			want := remain[name][c] // removed or absent -> 0
			if r.Value(c) != want {
				_, present := remain[name][c]
				return &fail{class: "trim-cell", msg: fmt.Sprintf("cell (col %s, row %s): Value()=%d after Trim, expected %d (cell kept by the fold: %v, value before %d)", run.Q(c), run.Q(name), r.Value(c), want, present, ref.cells[name][c])}
			}
		}
	}
	// columns
	gotCols := map[string]struct{}{}
	for _, c := range agg.Columns() {
		gotCols[c] = struct{}{}
	}
	if agg.ColumnCount() != len(gotCols) {
		return &fail{class: "trim-columns", msg: fmt.Sprintf("ColumnCount()=%d but Columns() has %d distinct names", agg.ColumnCount(), len(gotCols))}
	}
	if agg.RowCount() != len(got) {
		return &fail{class: "trim-rows", msg: fmt.Sprintf("RowCount()=%d but Rows() has %d rows", agg.RowCount(), len(got))}
	}
	for c := range colsLeft {
		if _, ok := gotCols[c]; !ok {
			return &fail{class: "trim-columns", msg: fmt.Sprintf("column %s still has unselected cells but is gone from Columns()", run.Q(c))}
		}
	}
	var extraNarrow []string
	for c := range gotCols {
		if _, ok := colsLeft[c]; ok {
			continue
		}
		if _, existed := ref.cols[c]; !existed {
			return &fail{class: "trim-columns", msg: fmt.Sprintf("Columns() contains %s which was never sampled", run.Q(c))}
		}
		// column left empty by the fold but still listed. Narrow class: some row of the
		// table had NO cell in this column and the predicate is false for (col,row,0).
		narrow := false
		for row, m := range ref.cells {
			if _, has := m[c]; !has && !pred(c, row, 0) {
				narrow = true
				break
			}
		}
		if !narrow {
			return &fail{class: "trim-columns", msg: fmt.Sprintf("column %s was left without any cell but is still listed by Columns()", run.Q(c))}
		}
		extraNarrow = append(extraNarrow, c)
	}
	if len(extraNarrow) > 0 && !e.knownTrim {
		sort.Strings(extraNarrow)
		return &fail{class: "trim-columns", lit: fpTrimEmpty, msg: fmt.Sprintf("column(s) %q were left without any cell (all their cells were selected) but are still listed by Columns()=%q; expected %q", extraNarrow, keysOf(gotCols), keysOf(colsLeft))}
	}
	return nil
}

// ---------------------------------------------------------------- numerical

func numValue(raw string) (v float64, direct, ok bool) {
	switch raw {
	case "@nan":
		return math.NaN(), true, true
	case "@+inf":
		return math.Inf(1), true, true
	case "@-inf":
		return math.Inf(-1), true, true
	}
	f, err := strconv.ParseFloat(raw, 64)
	return f, false, err == nil
}

const eps = 2.220446049250313e-16

func runNumerical(cs *Case, samples []string, st *stats, e *env) *fail {
	agg := aggregation.NewNumericalAggregator(&aggregation.NumericalConfig{Reverse: cs.Reverse, KeepValuesForAnalysis: cs.Keep})
	ref := newRefNum()
	var rmin, rmax float64
	for i, raw := range samples {
		v, direct, ok := numValue(raw)
		if direct {
			agg.Samplef(v)
		} else {
			agg.Sample(raw)
		}
		if ok {
			if len(ref.vals) == 0 {
				rmin, rmax = v, v
			} else {
				if v < rmin {
					rmin = v
				}
				if v > rmax {
					rmax = v
				}
			}
			ref.add(v)
		} else {
			ref.errs++
		}
		n := i + 1
		cnt := len(ref.vals)
		st.prefix++
		st.fed++
		wrap := func(f *fail) *fail {
			f.n = n
			f.msg = fmt.Sprintf("numerical (reverse=%v keep=%v) after prefix %d of %s: %s", cs.Reverse, cs.Keep, n, showHist(samples, n), f.msg)
			return f
		}
		if agg.Count() != uint64(cnt) {
			return wrap(&fail{class: "count", msg: fmt.Sprintf("Count()=%d, the history has %d numeric samples", agg.Count(), cnt)})
		}
		if agg.ParseErrors() != ref.errs {
			return wrap(&fail{class: "parse-errors", msg: fmt.Sprintf("ParseErrors()=%d, the history has %d non-numeric samples", agg.ParseErrors(), ref.errs)})
		}
		if cnt == 0 {
			continue // statistics of an empty list are not defined by the statement
		}
		if !ref.hasNaN {
			if agg.Min() != rmin || agg.Max() != rmax {
				// narrow class: every sample so far is +Inf (or every one is -Inf) and the
				// implementation still reports its finite start value
				sMin := math.IsInf(rmin, 1) && agg.Min() == math.MaxFloat64
				sMax := math.IsInf(rmax, -1) && agg.Max() == -math.MaxFloat64
				f := &fail{class: "minmax", msg: fmt.Sprintf("Min()/Max()=%v/%v, the sample list has %v/%v", agg.Min(), agg.Max(), rmin, rmax)}
				if (agg.Min() == rmin || sMin) && (agg.Max() == rmax || sMax) {
					f.lit = fpInfMinMax
					if !e.knownInf {
						return wrap(f)
					}
				} else {
					return wrap(f)
				}
			}
		}
		if !(fullAt(cs, n, len(samples)) || n <= 64) {
			continue
		}
		st.full++
		if !ref.hasNaN && !ref.hasInf {
			st.stat++
			mean, sd := ref.meanSD()
			tolM := 1e-9*ref.maxAbs + 5e-324
			if d := math.Abs(agg.Mean() - mean); !(d <= tolM) {
				return wrap(&fail{class: "mean", msg: fmt.Sprintf("Mean()=%v, exact mean %v (|diff| %g > %g)", agg.Mean(), mean, d, tolM)})
			}
			if cnt >= 2 {
				tolS := 1e-9*sd + 4*float64(cnt)*eps*math.Sqrt(mean*mean+sd*sd) + 5e-324
				if d := math.Abs(agg.StdDev() - sd); !(d <= tolS) {
					return wrap(&fail{class: "stddev", msg: fmt.Sprintf("StdDev()=%v, sample standard deviation (n-1) of the list is %v (|diff| %g > %g; n=%d)", agg.StdDev(), sd, d, tolS, cnt)})
				}
			}
		}
		if cs.Keep {
			if f := checkOrderStats(cs, agg, ref, st, e); f != nil {
				return wrap(f)
			}
		}
	}
	return nil
}

func checkOrderStats(cs *Case, agg *aggregation.MatchNumerical, ref *refNum, st *stats, e *env) *fail {
	n := len(ref.vals)
	an := agg.Analyze()
	if ref.hasNaN {
		// order of NaN is not defined by the statement: only exercise the calls
		an.Median()
		an.Mode()
		for _, p := range cs.Qs {
			if quantilePastEnd(n, p) {
				continue
			}
			an.Quantile(p)
		}
		return nil
	}
	st.order++
	s := ref.sorted() // ascending
	at := func(i int) float64 { // i-th element (0-based) in analysis order
		if cs.Reverse {
			return s[n-1-i]
		}
		return s[i]
	}
	med := an.Median()
	if med != at((n-1)/2) && med != at(n/2) {
		return &fail{class: "median", msg: fmt.Sprintf("Median()=%v, middle order statistics of the %d samples are %v / %v", med, n, at((n-1)/2), at(n/2))}
	}
	// mode: one of the most frequent values
	best := 0
	for i := 0; i < n; {
		j := i
		for j < n && s[j] == s[i] {
			j++
		}
		if j-i > best {
			best = j - i
		}
		i = j
	}
	mode := an.Mode()
	cnt := 0
	for _, v := range s {
		if v == mode {
			cnt++
		}
	}
	if cnt != best {
		return &fail{class: "mode", msg: fmt.Sprintf("Mode()=%v occurs %d times, the most frequent value occurs %d times (sorted list %v)", mode, cnt, best, head(s))}
	}
	for _, p := range cs.Qs {
		past := quantilePastEnd(n, p)
		if past && e.knownQuantile {
			continue // generators stay out of this class while the finding is listed; the pinned witness covers it
		}
		var q float64
		pan, val, _ := run.Guard(func() { q = an.Quantile(p) })
		if pan {
			f := &fail{class: "quantile-panic", msg: fmt.Sprintf("Quantile(%v) on %d samples panics: %v (expected the order statistic of rank %d or %d)", p, n, val, n-1, n)}
			if past {
				f.lit = fpQuantile
			}
			return f
		}
		okRank := false
		pn := p * float64(n)
		for i := 0; i < n; i++ {
			if at(i) == q && math.Abs(float64(i+1)-pn) <= 1+1e-9 {
				okRank = true
				break
			}
		}
		if !okRank {
			return &fail{class: "quantile", msg: fmt.Sprintf("Quantile(%v)=%v on %d samples is not an element of rank within 1 of p*n=%v (analysis order, reverse=%v; sorted list %v)", p, q, n, pn, cs.Reverse, head(s))}
		}
	}
	return nil
}

// quantilePastEnd is the narrow class of the known finding: the product n*p,
// truncated, is not a valid index (p == 1, or p so close to 1 that n*p rounds to n).
func quantilePastEnd(n int, p float64) bool { return int(float64(n)*p) >= n }

func head(s []float64) string {
	if len(s) <= 12 {
		return fmt.Sprint(s)
	}
	return fmt.Sprintf("%v …(%d values) %v", s[:6], len(s), s[len(s)-3:])
}

// ---------------------------------------------------------------- accumulating group

func runAccum(cs *Case, samples []string, st *stats) *fail {
	if cs.Acc == nil {
		return &fail{class: "setup", msg: "no accumulator definition"}
	}
	agg := aggregation.NewAccumulatingGroup(funclib.NewKeyBuilder())
	for i, g := range cs.Acc.Groups {
		gexpr := "{" + strconv.Itoa(g) + "}"
		switch {
		case g == -1 && len(cs.Acc.Cols) > 0:
			gexpr = "{" + cs.Acc.Cols[0].Name + "}"
		case g == -3:
			gexpr = "{.}"
		case g < 0:
			gexpr = "{nosuchkey}"
		}
		if err := agg.AddGroupExpr("g"+strconv.Itoa(i), gexpr); err != nil {
			return &fail{class: "setup", msg: "AddGroupExpr: " + err.Error()}
		}
	}
	for _, cd := range cs.Acc.Cols {
		if err := agg.AddDataExpr(cd.Name, accExpr(cd), cd.Init); err != nil {
			return &fail{class: "setup", msg: "AddDataExpr " + accExpr(cd) + ": " + err.Error()}
		}
	}
	ref := newRefAccum(cs.Acc)
	eqRow := func(a, b []string) bool {
		if len(a) != len(b) {
			return false
		}
		for i := range a {
			if a[i] != b[i] {
				return false
			}
		}
		return true
	}
	for i, raw := range samples {
		agg.Sample(raw)
		g := ref.feed(raw)
		n := i + 1
		st.prefix++
		st.fed++
		wrap := func(f *fail) *fail {
			f.n = n
			f.msg = fmt.Sprintf("accumulating group %s after prefix %d of %s: %s", accShow(cs.Acc), n, showHist(samples, n), f.msg)
			return f
		}
		if agg.DataCount() != len(ref.data) {
			return wrap(&fail{class: "groups", msg: fmt.Sprintf("DataCount()=%d, fold has %d groups", agg.DataCount(), len(ref.data))})
		}
		if got := agg.Data(aggregation.GroupKey(g)); !eqRow(got, ref.data[g]) {
			return wrap(&fail{class: "data", msg: fmt.Sprintf("group %s: Data()=%q, fold gives %q", run.Q(g), got, ref.data[g])})
		}
		if !fullAt(cs, n, len(samples)) {
			continue
		}
		st.full++
		// the schema accessors the reduce renderer and CSV writer read
		if gc := agg.GroupCols(); len(gc) != len(cs.Acc.Groups) || agg.GroupColCount() != len(cs.Acc.Groups) {
			return wrap(&fail{class: "schema", msg: fmt.Sprintf("GroupCols()=%q GroupColCount()=%d, %d groups were defined", gc, agg.GroupColCount(), len(cs.Acc.Groups))})
		} else {
			for i, n := range gc {
				if n != "g"+strconv.Itoa(i) {
					return wrap(&fail{class: "schema", msg: fmt.Sprintf("GroupCols()=%q, group %d was named g%d", gc, i, i)})
				}
			}
		}
		if dc := agg.DataCols(); len(dc) != len(cs.Acc.Cols) || agg.ColCount() != len(cs.Acc.Groups)+len(cs.Acc.Cols) {
			return wrap(&fail{class: "schema", msg: fmt.Sprintf("DataCols()=%q ColCount()=%d, defined: %d groups + %d data columns", dc, agg.ColCount(), len(cs.Acc.Groups), len(cs.Acc.Cols))})
		} else {
			for i, n := range dc {
				if n != cs.Acc.Cols[i].Name {
					return wrap(&fail{class: "schema", msg: fmt.Sprintf("DataCols()=%q, column %d was named %q", dc, i, cs.Acc.Cols[i].Name)})
				}
			}
		}
		groups := agg.Groups(sorting.ByName)
		if len(groups) != len(ref.data) {
			return wrap(&fail{class: "groups", msg: fmt.Sprintf("Groups() has %d entries, fold has %d groups", len(groups), len(ref.data))})
		}
		seen := make(map[string]struct{}, len(groups))
		for _, gk := range groups {
			want, ok := ref.data[string(gk)]
			if !ok {
				return wrap(&fail{class: "groups", msg: fmt.Sprintf("Groups() contains %s which no sample produced", run.Q(string(gk)))})
			}
			if _, dup := seen[string(gk)]; dup {
				return wrap(&fail{class: "groups", msg: fmt.Sprintf("Groups() lists %s twice", run.Q(string(gk)))})
			}
			seen[string(gk)] = struct{}{}
			if got := agg.Data(gk); !eqRow(got, want) {
				return wrap(&fail{class: "data", msg: fmt.Sprintf("group %s: Data()=%q, fold gives %q", run.Q(string(gk)), got, want)})
			}
			if got := agg.DataNoCopy(gk); !eqRow(got, want) {
				return wrap(&fail{class: "data", msg: fmt.Sprintf("group %s: DataNoCopy()=%q, fold gives %q", run.Q(string(gk)), got, want)})
			}
			// the parts of a group key are the group values it was built from (an empty key has no parts)
			parts := gk.Parts()
			// (a group value may itself contain the separator - {0} of a multi-field element - so the count is judged only
			// when the key has exactly one separator per boundary between group expressions)
			if strings.Join(parts, nul) != string(gk) || (strings.Count(string(gk), nul) == len(cs.Acc.Groups)-1 && string(gk) != "" && len(parts) != len(cs.Acc.Groups)) {
				return wrap(&fail{class: "group-parts", msg: fmt.Sprintf("group %s: Parts()=%q for %d group expressions", run.Q(string(gk)), parts, len(cs.Acc.Groups))})
			}
			st.parts++
		}
	}
	return nil
}

func accShow(d *AccDef) string {
	var sb strings.Builder
	fmt.Fprintf(&sb, "groups=%v", d.Groups)
	for _, cd := range d.Cols {
		fmt.Fprintf(&sb, " %s:%s=%s", cd.Name, cd.Init, accExpr(cd))
	}
	return sb.String()
}

// ---------------------------------------------------------------- case driver

type runner struct {
	c  *run.Ctx
	e  env
	st stats
}

func newRunner(c *run.Ctx) *runner {
	return &runner{c: c, e: env{
		knownSentinel: c.KnownActive(fpSentinel),
		knownTrim:     c.KnownActive(fpTrimEmpty),
		knownQuantile: c.KnownActive(fpQuantile),
		knownInf:      c.KnownActive(fpInfMinMax),
	}}
}

func (r *runner) flush() {
	c := r.c
	c.Count("prefix_checks", r.st.prefix)
	c.Count("full_comparisons", r.st.full)
	c.Count("reorderings_compared", r.st.perm)
	c.Count("trims_compared", r.st.trim)
	c.Count("samples_fed", r.st.fed)
	c.Count("moment_comparisons", r.st.stat)
	c.Count("order_statistic_comparisons", r.st.order)
	c.Count("group_key_parts_checked", r.st.parts)
	r.st = stats{}
}

// exec runs one case (samples already decoded). cs.Samples may be nil on the
// hot path; it is filled in only when a violation has to be reported.
func (r *runner) exec(cs *Case, samples []string) bool {
	var f *fail
	e := r.e
	if cs.Pinned != "" {
		e = env{} // a pinned witness is always judged in full
	}
	pan, val, stack := run.Guard(func() {
		switch cs.Agg {
		case "counter":
			f = runCounter(cs, samples, &r.st)
		case "subkey":
			f = runSubKey(cs, samples, &r.st)
		case "table":
			f = runTable(cs, samples, &r.st, &e)
		case "numerical":
			f = runNumerical(cs, samples, &r.st, &e)
		case "accum":
			f = runAccum(cs, samples, &r.st)
		default:
			f = &fail{class: "setup", msg: "unknown aggregator " + cs.Agg}
		}
	})
	if pan {
		f = &fail{class: "panic", msg: fmt.Sprintf("%s aggregator panics on %s: %v\n%s", cs.Agg, showHist(samples, len(samples)), val, stack)}
	}
	if f == nil {
		return true
	}
	full := *cs
	full.Samples = quoteAll(samples)
	if f.n > 0 && f.n <= len(samples) {
		// the failing prefix alone reproduces it (the last element of a history is always compared in full): report the minimal case
		full.Samples = quoteAll(samples[:f.n])
		full.Trim, full.Perms, full.PermSeed = nil, 0, 0
	}
	b, _ := json.Marshal(&full)
	fp := cs.Agg + "-" + f.class + ":" + run.Hash64(string(b))
	if f.lit != "" {
		fp = f.lit
	}
	if cs.Pinned != "" {
		fp = cs.Pinned
	}
	if f.class == "setup" {
		r.c.Inconclusive("C07 harness set-up problem: " + f.msg)
		return false
	}
	r.c.Violation(fp, f.msg, &full)
	return false
}

func nontrivial(samples []string) bool {
	if len(samples) < 2 {
		return false
	}
	for _, s := range samples[1:] {
		if s != samples[0] {
			return true
		}
	}
	return false
}

func Run(c *run.Ctx) {
	// one shard is one sequential loop that allocates many tiny maps: keep the
	// collector from fighting the other shards (verdicts do not depend on this)
	debug.SetGCPercent(400)
	runtime.GOMAXPROCS(2)
	r := newRunner(c)
	defer r.flush()
	if c.Replay != nil {
		var cs Case
		if err := json.Unmarshal(c.Replay, &cs); err != nil {
			c.Inconclusive("bad replay: " + err.Error())
			return
		}
		samples, err := unquoteAll(cs.Samples)
		if err != nil {
			c.Inconclusive("bad replay (samples): " + err.Error())
			return
		}
		c.Begin(&cs, 120*time.Second)
		r.exec(&cs, samples)
		c.End()
		return
	}
	pinned(r)
	dense(r)
	random(r)
}
