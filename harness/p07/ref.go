package p07

// Reference folds, written from the property statement and docs/usage
// (aggregators.md): maps and naive loops. Nothing here calls or copies the
// aggregators under test.

import (
	"math"
	"math/big"
	"sort"
	"strconv"
	"strings"
)

const nul = "\x00"

// parseInc decides "integer increment": an optional sign followed by one or
// more ASCII digits, value inside int64. Everything else is a parse error.
// (The generators only produce clear integers and clear non-integers.)
func parseInc(s string) (int64, bool) {
	if s == "" {
		return 0, false
	}
	neg := false
	i := 0
	if s[0] == '-' || s[0] == '+' {
		neg = s[0] == '-'
		i = 1
	}
	if i == len(s) {
		return 0, false
	}
	var u uint64
	for ; i < len(s); i++ {
		d := s[i]
		if d < '0' || d > '9' {
			return 0, false
		}
		if u > (math.MaxUint64-uint64(d-'0'))/10 {
			return 0, false
		}
		u = u*10 + uint64(d-'0')
	}
	if neg {
		if u > 1<<63 {
			return 0, false
		}
		return int64(-u), true // two's complement: 1<<63 -> MinInt64
	}
	if u > math.MaxInt64 {
		return 0, false
	}
	return int64(u), true
}

// ---------------------------------------------------------------- histogram counter

type refCounter struct {
	counts map[string]int64
	errs   uint64
}

func newRefCounter() *refCounter { return &refCounter{counts: map[string]int64{}} }

// feed folds "key[NUL increment]".
func (r *refCounter) feed(raw string) (inc int64, ok bool) {
	parts := strings.Split(raw, nul)
	inc = 1
	if len(parts) >= 2 {
		v, good := parseInc(parts[1])
		if !good {
			r.errs++
			return 0, false
		}
		inc = v
	}
	r.counts[parts[0]] += inc
	return inc, true
}

func (r *refCounter) direct(key string, inc int64) { r.counts[key] += inc }

func (r *refCounter) total() int64 {
	var t int64
	for _, v := range r.counts {
		t += v
	}
	return t
}

// ---------------------------------------------------------------- sub-key counter

type refSubKey struct {
	rows map[string]map[string]int64
	subs map[string]struct{}
	errs uint64
}

func newRefSubKey() *refSubKey {
	return &refSubKey{rows: map[string]map[string]int64{}, subs: map[string]struct{}{}}
}

// feed folds "key[NUL sub-key[NUL increment]]"; reports whether a new sub-key appeared.
func (r *refSubKey) feed(raw string) (newSub bool) {
	parts := strings.Split(raw, nul)
	sub := ""
	if len(parts) >= 2 {
		sub = parts[1]
	}
	inc := int64(1)
	if len(parts) >= 3 {
		v, good := parseInc(parts[2])
		if !good {
			r.errs++
			return false
		}
		inc = v
	}
	return r.direct(parts[0], sub, inc)
}

func (r *refSubKey) direct(key, sub string, inc int64) (newSub bool) {
	row := r.rows[key]
	if row == nil {
		row = map[string]int64{}
		r.rows[key] = row
	}
	row[sub] += inc
	if _, ok := r.subs[sub]; !ok {
		r.subs[sub] = struct{}{}
		newSub = true
	}
	return
}

func (r *refSubKey) sortedSubs() []string {
	out := make([]string, 0, len(r.subs))
	for s := range r.subs {
		out = append(out, s)
	}
	sort.Strings(out)
	return out
}

// ---------------------------------------------------------------- table

type refTable struct {
	delim string
	cells map[string]map[string]int64 // row -> col -> value
	cols  map[string]struct{}
	errs  uint64

	// interleaved trims. The statement defines what a trim does to cells, rows and
	// columns, not what it does to the redundant totals: the total of a row / column
	// that lost some but not all of its cells is not judged ("tainted") until that
	// row / column disappears entirely; one that is created again later starts clean.
	trims    int
	taintRow map[string]struct{}
	taintCol map[string]struct{}
	everCols map[string]struct{} // every column name seen so far (set from the first trim on)
}

func newRefTable(delim string) *refTable {
	return &refTable{delim: delim, cells: map[string]map[string]int64{}, cols: map[string]struct{}{}}
}

// feed folds "column[delim row[delim increment]]".
func (r *refTable) feed(raw string) (col string, ok bool) {
	parts := strings.Split(raw, r.delim)
	row := ""
	if len(parts) >= 2 {
		row = parts[1]
	}
	inc := int64(1)
	if len(parts) >= 3 {
		v, good := parseInc(parts[2])
		if !good {
			r.errs++
			return "", false
		}
		inc = v
	}
	r.direct(parts[0], row, inc)
	return parts[0], true
}

func (r *refTable) direct(col, row string, inc int64) {
	m := r.cells[row]
	if m == nil {
		m = map[string]int64{}
		r.cells[row] = m
	}
	m[col] += inc
	r.cols[col] = struct{}{}
	if r.everCols != nil {
		r.everCols[col] = struct{}{}
	}
}

// applyTrim removes exactly the selected existing cells, then every row and
// column left without a cell.
func (r *refTable) applyTrim(pred func(col, row string, val int64) bool) {
	if r.everCols == nil {
		r.everCols = map[string]struct{}{}
		r.taintRow = map[string]struct{}{}
		r.taintCol = map[string]struct{}{}
	}
	for c := range r.cols {
		r.everCols[c] = struct{}{}
	}
	touched := map[string]struct{}{}
	for row, m := range r.cells {
		removed := false
		for col, v := range m {
			if pred(col, row, v) {
				delete(m, col)
				removed = true
				touched[col] = struct{}{}
			}
		}
		if len(m) == 0 {
			delete(r.cells, row)
			delete(r.taintRow, row)
		} else if removed {
			r.taintRow[row] = struct{}{}
		}
	}
	for c := range r.cols {
		has := false
		for _, m := range r.cells {
			if _, ok := m[c]; ok {
				has = true
				break
			}
		}
		if !has {
			delete(r.cols, c)
			delete(r.taintCol, c)
		} else if _, t := touched[c]; t {
			r.taintCol[c] = struct{}{}
		}
	}
	r.trims++
}

func (r *refTable) colTotal(col string) int64 {
	var t int64
	for _, m := range r.cells {
		t += m[col]
	}
	return t
}

func (r *refTable) rowSum(row string) int64 {
	var t int64
	for _, v := range r.cells[row] {
		t += v
	}
	return t
}

func (r *refTable) grand() int64 {
	var t int64
	for _, m := range r.cells {
		for _, v := range m {
			t += v
		}
	}
	return t
}

// minmax over the full row x column grid, absent cells = 0. ok=false for an empty grid.
func (r *refTable) minmax() (mn, mx int64, ok bool) {
	first := true
	for _, m := range r.cells {
		for c := range r.cols {
			v := m[c] // absent -> 0
			if first {
				mn, mx, first = v, v, false
				continue
			}
			if v < mn {
				mn = v
			}
			if v > mx {
				mx = v
			}
		}
	}
	return mn, mx, !first
}

// ---------------------------------------------------------------- numerical

const bigPrec = 4096

type refNum struct {
	vals   []float64
	errs   uint64
	sumx   *big.Float
	sumxx  *big.Float
	hasNaN bool
	hasInf bool
	maxAbs float64
}

func newRefNum() *refNum {
	return &refNum{sumx: new(big.Float).SetPrec(bigPrec), sumxx: new(big.Float).SetPrec(bigPrec)}
}

func (r *refNum) add(v float64) {
	r.vals = append(r.vals, v)
	switch {
	case math.IsNaN(v):
		r.hasNaN = true
	case math.IsInf(v, 0):
		r.hasInf = true
	default:
		x := new(big.Float).SetPrec(bigPrec).SetFloat64(v)
		r.sumx.Add(r.sumx, x)
		r.sumxx.Add(r.sumxx, new(big.Float).SetPrec(bigPrec).Mul(x, x))
		if a := math.Abs(v); a > r.maxAbs {
			r.maxAbs = a
		}
	}
}

// meanSD: exact sums, one rounding at the end. sd is the sample standard deviation (n-1).
func (r *refNum) meanSD() (mean, sd float64) {
	n := len(r.vals)
	if n == 0 {
		return 0, 0
	}
	bn := new(big.Float).SetPrec(bigPrec).SetInt64(int64(n))
	m := new(big.Float).SetPrec(bigPrec).Quo(r.sumx, bn)
	mean, _ = m.Float64()
	if n < 2 {
		return mean, 0
	}
	// sum (x-m)^2 = sumxx - sumx^2/n
	sq := new(big.Float).SetPrec(bigPrec).Mul(r.sumx, r.sumx)
	sq.Quo(sq, bn)
	ss := new(big.Float).SetPrec(bigPrec).Sub(r.sumxx, sq)
	ss.Quo(ss, new(big.Float).SetPrec(bigPrec).SetInt64(int64(n-1)))
	if ss.Sign() <= 0 {
		return mean, 0
	}
	ss.Sqrt(ss)
	sd, _ = ss.Float64()
	return
}

func (r *refNum) minMax() (mn, mx float64) {
	mn, mx = r.vals[0], r.vals[0]
	for _, v := range r.vals[1:] {
		if v < mn {
			mn = v
		}
		if v > mx {
			mx = v
		}
	}
	return
}

func (r *refNum) sorted() []float64 {
	s := append([]float64(nil), r.vals...)
	sort.Float64s(s)
	return s
}

// ---------------------------------------------------------------- accumulating group

// ColDef is one accumulator column. Kinds (expression templates are built from
// these in accExpr; the fold below is the documented meaning: "{.} represents
// the current value", "can reference past accumulators by key"):
//
//	sum   {sumi {.} {F}}      cur + field F
//	count {sumi {.} 1}        cur + 1
//	max   {maxi {.} {F}}      max(cur, field F)
//	min   {mini {.} {F}}      min(cur, field F)
//	last  {F}                 field F (string)
//	keep  {.}                 unchanged
//	cat   {.}{F};             cur + field F + ";" (string)
//	diff  {subi {A} {B}}      earlier column A - earlier column B
//	copy  [{A}]               "[" + earlier column A + "]"
type ColDef struct {
	Name string `json:"name"`
	Init string `json:"init"`
	Kind string `json:"kind"`
	F    int    `json:"f,omitempty"`
	A    string `json:"a,omitempty"`
	B    string `json:"b,omitempty"`
}

type AccDef struct {
	Groups []int    `json:"groups"` // field numbers; 0 = the whole element; negative = a group expression that asks for a key: -1 the first accumulator's name, -2 a name nobody defines, -3 {.} - a group is computed before its row exists, so all of them are empty
	Cols   []ColDef `json:"cols"`
}

type refAccum struct {
	def  *AccDef
	data map[string][]string
}

func newRefAccum(d *AccDef) *refAccum { return &refAccum{def: d, data: map[string][]string{}} }

func field(parts []string, raw string, i int) string {
	if i == 0 {
		return raw
	}
	if i-1 < len(parts) {
		return parts[i-1]
	}
	return ""
}

func (r *refAccum) feed(raw string) (group string) {
	parts := strings.Split(raw, nul)
	gp := make([]string, len(r.def.Groups))
	for i, g := range r.def.Groups {
		if g < 0 {
			gp[i] = "" // a key asked for while the group is being determined: there is no row to look into yet
			continue
		}
		gp[i] = field(parts, raw, g)
	}
	group = strings.Join(gp, nul)
	row, ok := r.data[group]
	if !ok {
		row = make([]string, len(r.def.Cols))
		for i, cd := range r.def.Cols {
			row[i] = cd.Init
		}
		r.data[group] = row
	}
	byName := func(n string) string {
		for i, cd := range r.def.Cols {
			if cd.Name == n {
				return row[i]
			}
		}
		return ""
	}
	atoi := func(s string) int {
		v, _ := strconv.Atoi(s)
		return v
	}
	for i, cd := range r.def.Cols {
		cur := row[i]
		switch cd.Kind {
		case "sum":
			row[i] = strconv.Itoa(atoi(cur) + atoi(field(parts, raw, cd.F)))
		case "count":
			row[i] = strconv.Itoa(atoi(cur) + 1)
		case "max":
			a, b := atoi(cur), atoi(field(parts, raw, cd.F))
			if b > a {
				a = b
			}
			row[i] = strconv.Itoa(a)
		case "min":
			a, b := atoi(cur), atoi(field(parts, raw, cd.F))
			if b < a {
				a = b
			}
			row[i] = strconv.Itoa(a)
		case "last":
			row[i] = field(parts, raw, cd.F)
		case "keep":
		case "cat":
			row[i] = cur + field(parts, raw, cd.F) + ";"
		case "diff":
			row[i] = strconv.Itoa(atoi(byName(cd.A)) - atoi(byName(cd.B)))
		case "copy":
			row[i] = "[" + byName(cd.A) + "]"
		}
	}
	return
}

func accExpr(cd ColDef) string {
	f := strconv.Itoa(cd.F)
	switch cd.Kind {
	case "sum":
		return "{sumi {.} {" + f + "}}"
	case "count":
		return "{sumi {.} 1}"
	case "max":
		return "{maxi {.} {" + f + "}}"
	case "min":
		return "{mini {.} {" + f + "}}"
	case "last":
		return "{" + f + "}"
	case "keep":
		return "{.}"
	case "cat":
		return "{.}{" + f + "};"
	case "diff":
		return "{subi {" + cd.A + "} {" + cd.B + "}}"
	case "copy":
		return "[{" + cd.A + "}]"
	}
	return ""
}
