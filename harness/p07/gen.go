package p07

import (
	"math"
	"strconv"
	"strings"
	"time"
	"unicode/utf8"

	"verifharness/internal/run"
)

// ---------------------------------------------------------------- pinned witnesses

// pinned runs, on every run, the minimal witnesses of the findings recorded in
// known.d/C07.json. While an entry is listed they show up as KNOWN-FINDING;
// once /repo is fixed and the entry removed they are ordinary regression cases.
func pinned(r *runner) {
	if !r.c.Mine(0) {
		return
	}
	cases := []*Case{
		{Agg: "numerical", Keep: true, Full: true, Samples: quoteAll([]string{"1", "2", "3"}), Qs: []float64{1.0}, Pinned: fpQuantile},
		{Agg: "numerical", Full: true, Samples: quoteAll([]string{"@+inf"}), Pinned: fpInfMinMax},
		{Agg: "numerical", Full: true, Samples: quoteAll([]string{"@-inf", "@-inf"}), Pinned: fpInfMinMax},
		{Agg: "table", Delim: strconv.QuoteToASCII("::"), Full: true, Samples: quoteAll([]string{"a::b::3"}), Pinned: fpDelim},
		{Agg: "table", Delim: strconv.QuoteToASCII("→"), Full: true, Samples: quoteAll([]string{"a→b→3", "a→c"}), Pinned: fpDelim},
		{Agg: "table", Delim: strconv.QuoteToASCII(" "), Full: true, Samples: quoteAll([]string{"a b 9223372036854775807"}), Pinned: fpSentinel},
		{Agg: "table", Delim: strconv.QuoteToASCII(" "), Full: true, Samples: quoteAll([]string{"a b -9223372036854775808"}), Pinned: fpSentinel},
		{Agg: "table", Delim: strconv.QuoteToASCII(" "), Full: true, Samples: quoteAll([]string{"c1 r1", "c2 r2"}), Trim: []string{"rowis:r1"}, Pinned: fpTrimEmpty},
	}
	for _, cs := range cases {
		samples, _ := unquoteAll(cs.Samples)
		r.c.Begin(cs, 60*time.Second)
		r.exec(cs, samples)
		r.c.Count("pinned_witnesses", 1)
		r.c.End()
	}
}

// ---------------------------------------------------------------- dense boxes

var denseIncs = []string{"\x01absent", "1", "-2", "0", "x", "", "9223372036854775807"}

func join2(delim, a, inc string) string {
	if inc == "\x01absent" {
		return a
	}
	return a + delim + inc
}

func join3(delim, a, b, inc string) string {
	if inc == "\x01absent" {
		return a + delim + b
	}
	return a + delim + b + delim + inc
}

var denseTrims = []string{"all", "none", "col:1", "row:1", "cell:1", "neg", "pos", "zero", "nonzero", "lt:1", "ge:1",
	"rowis:x", "rowis:", "rowis:0", "colis:a", "colis:", "colis:b", "col:2", "row:2", "cell:2", "cell:3", "col3:1", "row3:1"}

// denseEnum enumerates every history of length <= L over syms. Work is split
// into groups by the first two samples; group nsym^2 holds the histories of
// length 0 and 1. prep may adjust the case per history (h = stable history number).
func denseEnum(r *runner, name string, syms []string, L int, tmpl Case, prep func(cs *Case, h int)) {
	c := r.c
	ns := len(syms)
	groups := ns*ns + 1
	nontrivEvery := c.N(8, 64)
	for g := 0; g < groups; g++ {
		if !c.Mine(g) {
			continue
		}
		if c.Violations() >= 6 {
			return
		}
		c.Begin(map[string]any{"dense": name, "group": g, "L": L}, 300*time.Second)
		cs := tmpl
		seq := make([]string, 0, L)
		h := g * 1000003
		count := 0
		visit := func() {
			h++
			count++
			if prep != nil {
				prep(&cs, h)
			}
			if h%nontrivEvery == 0 && nontrivial(seq) {
				c.Nontrivial(name, strings.Join(seq, "\x02"))
			}
			r.exec(&cs, seq)
		}
		var dfs func()
		dfs = func() {
			visit()
			if len(seq) == L || c.Violations() >= 6 {
				return
			}
			for _, s := range syms {
				seq = append(seq, s)
				dfs()
				seq = seq[:len(seq)-1]
			}
		}
		if g == ns*ns {
			visit() // empty history
			for _, s := range syms {
				seq = append(seq[:0], s)
				visit()
			}
		} else if L >= 2 {
			seq = append(seq, syms[g/ns], syms[g%ns])
			dfs()
		}
		c.Evals(count - 1) // End() adds one
		c.Count("dense_histories", int64(count))
		c.Count("dense_"+name, int64(count))
		r.flush()
		c.End()
	}
}

func dense(r *runner) {
	c := r.c
	keys := []string{"", "a", "b"}
	subs := []string{"", "x", "0"}

	// histogram counter
	var csyms []string
	for _, k := range keys {
		for _, inc := range denseIncs {
			csyms = append(csyms, join2(nul, k, inc))
		}
	}
	denseEnum(r, "counter", csyms, c.N(4, 5), Case{Agg: "counter", Full: true}, nil)

	// more fields than the aggregator uses ({$ key inc note}, a trailing separator): the increment is the field right
	// after the key(s), whatever follows is not part of it
	xsyms := []string{"a", "a" + nul + "5" + nul + "extra", "a" + nul + "-2" + nul, "b" + nul + "3" + nul + "4", "a" + nul + "x" + nul + "1",
		"b" + nul + nul + "7", "a" + nul + "1" + nul + nul}
	denseEnum(r, "counter-extra-fields", xsyms, c.N(3, 4), Case{Agg: "counter", Full: true}, nil)
	x3syms := []string{"a" + nul + "x", "a" + nul + "x" + nul + "5" + nul + "extra", "a" + nul + "y" + nul + "-2" + nul,
		"b" + nul + "x" + nul + "3" + nul + "4", "a" + nul + "x" + nul + "q" + nul + "1", "b" + nul + "y" + nul + nul + "7"}
	denseEnum(r, "subkey-extra-fields", x3syms, c.N(3, 4), Case{Agg: "subkey", Full: true}, nil)
	denseEnum(r, "table-extra-fields", x3syms, c.N(3, 4), Case{Agg: "table", Delim: strconv.QuoteToASCII(nul), Full: true}, nil)

	// sub-key counter and table: full alphabet, and a reduced one one step longer
	mk3 := func(delim string, ks, ss, incs []string) []string {
		var out []string
		for _, k := range ks {
			out = append(out, k) // bare key: no sub-key / row at all
			for _, s := range ss {
				for _, inc := range incs {
					out = append(out, join3(delim, k, s, inc))
				}
			}
		}
		return out
	}
	redIncs := []string{"\x01absent", "-2", "x"}
	fullSyms := mk3(nul, keys, subs, denseIncs)
	redSyms := mk3(nul, keys[:2], subs, redIncs)
	denseEnum(r, "subkey", fullSyms, c.N(3, 4), Case{Agg: "subkey", Full: true}, nil)
	denseEnum(r, "subkey-reduced", redSyms, c.N(4, 5), Case{Agg: "subkey", Full: true}, nil)

	trim2 := make([]string, 2)
	trimPrep := func(cs *Case, h int) {
		n := len(denseTrims)
		trim2[0], trim2[1] = denseTrims[h%n], denseTrims[(h/n+h)%n]
		cs.Trim = trim2
		if c.Thorough() && h%2 == 0 {
			cs.Trim = trim2[:1] // the thorough box is ~65x larger: every second history gets one predicate
		}
	}
	tcase := Case{Agg: "table", Delim: strconv.QuoteToASCII(nul), Full: true}
	denseEnum(r, "table", fullSyms, c.N(3, 4), tcase, trimPrep)
	denseEnum(r, "table-reduced", redSyms, c.N(4, 5), tcase, trimPrep)
	// a printable one-byte delimiter (keys never contain it)
	tcase2 := Case{Agg: "table", Delim: strconv.QuoteToASCII(","), Full: true}
	denseEnum(r, "table-comma", mk3(",", keys[:2], subs, redIncs), c.N(3, 4), tcase2, trimPrep)

	// interleaved: samples, Trim, more samples (also on the row / column that was just trimmed away), more trims ...
	// compared in full after every element; what `rare spark` does on every refresh.
	var isyms []string
	for _, col := range []string{"", "a"} {
		for _, row := range []string{"", "x"} {
			isyms = append(isyms, col+nul+row, col+nul+row+nul+"-2")
		}
	}
	for _, t := range []string{"rowis:", "rowis:x", "colis:", "colis:a", "neg", "pos", "all", "cell:1", "row:1", "col:1"} {
		isyms = append(isyms, trimMark+t)
	}
	oneTrim := make([]string, 1)
	trimPrep1 := func(cs *Case, h int) {
		oneTrim[0] = denseTrims[h%len(denseTrims)]
		cs.Trim = oneTrim
	}
	denseEnum(r, "table-interleaved", isyms, c.N(4, 5), tcase, trimPrep1)
	ssyms := []string{"a" + nul + "x", "a" + nul + "y", "b" + nul + "x", "a" + nul + "x" + nul + "-1", "b",
		trimMark + "rowis:x", trimMark + "colis:a", trimMark + "pos", trimMark + "cell:2"}
	denseEnum(r, "table-interleaved-long", ssyms, c.N(5, 7), tcase, nil)

	// numerical
	nsyms := []string{"0", "1", "2", "-1.5", "1e3", "x", "010"}
	qs := []float64{0, 0.25, 0.5, 0.75, 0.9, 1.0}
	denseEnum(r, "numerical", nsyms, c.N(5, 7), Case{Agg: "numerical", Keep: true, Full: true, Qs: qs}, nil)
	denseEnum(r, "numerical-reverse", nsyms, c.N(5, 7), Case{Agg: "numerical", Keep: true, Reverse: true, Full: true, Qs: qs}, nil)
	denseEnum(r, "numerical-nokeep", nsyms, c.N(4, 5), Case{Agg: "numerical", Full: true}, nil)

	// accumulating group: element = group NUL value
	var asyms []string
	for _, g := range keys {
		for _, v := range []string{"1", "-2", "0"} {
			asyms = append(asyms, g+nul+v)
		}
	}
	defs := []*AccDef{
		{Groups: []int{1}, Cols: []ColDef{{Name: "s", Init: "0", Kind: "sum", F: 2}, {Name: "n", Init: "0", Kind: "count"},
			{Name: "d", Init: "", Kind: "diff", A: "s", B: "n"}, {Name: "m", Init: "-9", Kind: "max", F: 2}, {Name: "l", Init: "none", Kind: "last", F: 2}}},
		{Groups: nil, Cols: []ColDef{{Name: "c", Init: ">", Kind: "cat", F: 1}, {Name: "k", Init: "k0", Kind: "keep"},
			{Name: "lo", Init: "5", Kind: "min", F: 2}, {Name: "cp", Init: "", Kind: "copy", A: "lo"}}},
		{Groups: []int{2, 1}, Cols: []ColDef{{Name: "n", Init: "3", Kind: "count"}, {Name: "w", Init: "", Kind: "last", F: 0}}},
		{Groups: []int{0}, Cols: []ColDef{{Name: "s", Init: "0", Kind: "sum", F: 2}}},
		// group expressions that ask for a key (an accumulator's name, an unknown name, {.}): empty, whatever earlier samples left behind
		{Groups: []int{-1, 1}, Cols: []ColDef{{Name: "l", Init: "none", Kind: "last", F: 2}, {Name: "n", Init: "0", Kind: "count"}}},
		{Groups: []int{1, -3, -2}, Cols: []ColDef{{Name: "s", Init: "0", Kind: "sum", F: 2}}},
	}
	for i, d := range defs {
		denseEnum(r, "accum-"+strconv.Itoa(i), asyms, c.N(4, 6), Case{Agg: "accum", Full: true, Acc: d}, nil)
	}
	// ragged elements: fewer fields than the expressions reference (a field that is not there reads as empty,
	// never as a neighbouring field). Only string-valued columns, so that no helper's error marker is involved.
	ragged := []string{"a", "b", "a" + nul + "1", "b" + nul + "x" + nul + "z", "a" + nul + nul + "q", ""}
	rdefs := []*AccDef{
		{Groups: []int{1}, Cols: []ColDef{{Name: "l2", Init: "none", Kind: "last", F: 2}, {Name: "l3", Init: "", Kind: "last", F: 3}, {Name: "c2", Init: ">", Kind: "cat", F: 2}, {Name: "n", Init: "0", Kind: "count"}}},
		{Groups: []int{2}, Cols: []ColDef{{Name: "l1", Init: "", Kind: "last", F: 1}, {Name: "c3", Init: "", Kind: "cat", F: 3}}},
		{Groups: []int{3, 1}, Cols: []ColDef{{Name: "w", Init: "", Kind: "last", F: 0}, {Name: "l4", Init: "i", Kind: "last", F: 4}}},
	}
	for i, d := range rdefs {
		denseEnum(r, "accum-ragged-"+strconv.Itoa(i), ragged, c.N(4, 5), Case{Agg: "accum", Full: true, Acc: d}, nil)
	}
}

// ---------------------------------------------------------------- random histories

func random(r *runner) {
	c := r.c
	type stream struct {
		name string
		n    int
		gen  func(rr *run.Rand, c *run.Ctx) (*Case, []string)
	}
	streams := []stream{
		{"counter", c.N(1600, 16000), genCounter},
		{"subkey", c.N(1600, 16000), genSubKey},
		{"table", c.N(1600, 16000), genTable},
		{"numerical", c.N(1600, 16000), genNumerical},
		{"accum", c.N(1000, 10000), genAccum},
	}
	for _, s := range streams {
		for i := 0; i < s.n; i++ {
			if !c.Mine(i) {
				continue
			}
			if c.Violations() >= 6 {
				return
			}
			rr := c.Rand("random", s.name, i)
			cs, samples := s.gen(rr, c)
			cs.Samples = quoteAll(samples)
			c.Begin(cs, 180*time.Second)
			if nontrivial(samples) {
				c.Nontrivial(s.name, strings.Join(cs.Samples, " "), cs.Delim)
			}
			c.Count("random_cases", 1)
			c.Count("random_"+s.name, 1)
			c.Max("max_history_len", int64(len(samples)))
			if i < 2 {
				c.Sample(map[string]any{"agg": cs.Agg, "history_len": len(samples), "direct": cs.Direct, "delim": cs.Delim,
					"first_samples": cs.Samples[:min(5, len(cs.Samples))], "trim": cs.Trim, "perms": cs.Perms})
			}
			r.exec(cs, samples)
			r.flush()
			c.End()
		}
	}
}

func histLen(rr *run.Rand) int {
	switch x := rr.Intn(20); {
	case x < 4:
		return rr.Range(0, 8)
	case x < 12:
		return rr.Range(9, 100)
	case x < 18:
		return rr.Range(101, 1000)
	default:
		return rr.Range(1001, 5000)
	}
}

var keyShapes = []string{"", "a", "aa", "aaa", "b", "A", "0", "1", "9", "10", "-1", "é", "日本", "a b", " ", "\t", "\xff\xfe", "z\xffz",
	"GET /index.html", "200", "404", "a,b", "x:y", "{k}", "\\", "\"q\"", "\n", "\x01", "\x7f"}

// alphabet builds n keys; none contains a byte of forbid.
func alphabet(rr *run.Rand, n int, forbid string) []string {
	clean := func(s string) string {
		if forbid == "" {
			return s
		}
		var sb strings.Builder
		for i := 0; i < len(s); i++ {
			if strings.IndexByte(forbid, s[i]) < 0 {
				sb.WriteByte(s[i])
			}
		}
		return sb.String()
	}
	out := make([]string, 0, n)
	for len(out) < n {
		var k string
		switch rr.Intn(8) {
		case 0, 1:
			k = keyShapes[rr.Intn(len(keyShapes))]
		case 2, 3:
			k = strconv.Itoa(rr.Intn(3*n + 10))
		case 4:
			k = string(rr.Bytes(rr.Range(1, 3), []byte("abcxyz")))
		case 5:
			k = string(rr.Bytes(rr.Range(1, 12), nil))
		case 6:
			k = strings.Repeat(string(rr.Bytes(1, []byte("abk"))), rr.Range(1, 300))
		default:
			k = "k" + strconv.Itoa(len(out))
		}
		out = append(out, clean(k))
	}
	return out
}

func zipf(rr *run.Rand, n int) int {
	u := rr.Float()
	i := int(float64(n) * u * u)
	if i >= n {
		i = n - 1
	}
	return i
}

var junkIncs = []string{"x", "", "1.5", "abc", "--1", "1x", "-", "9.0", "one"}
var hugeIncs = []string{"9223372036854775807", "-9223372036854775808", "4611686018427387904", "-4611686018427387904", "-9223372036854775807", "1000000000000"}

// incString returns the increment text; present=false means no increment part.
func incString(rr *run.Rand) (s string, present bool) {
	switch x := rr.Intn(100); {
	case x < 55:
		return "", false
	case x < 75:
		return strconv.Itoa(rr.Range(-5, 20)), true
	case x < 83:
		return "0", true
	case x < 90:
		return hugeIncs[rr.Intn(len(hugeIncs))], true
	default:
		return junkIncs[rr.Intn(len(junkIncs))], true
	}
}

// extraFields: one sample in ten carries fields beyond the increment (or just a trailing separator); they belong to
// nothing the aggregator folds.
func extraFields(rr *run.Rand, delim string) string {
	if rr.Intn(10) != 0 {
		return ""
	}
	return delim + []string{"", "x", "7", "note", "-1" + delim + "2", delim}[rr.Intn(6)]
}

func directInc(rr *run.Rand) string {
	switch rr.Intn(6) {
	case 0:
		return strconv.FormatInt(rr.I64(), 10)
	case 1:
		return hugeIncs[rr.Intn(len(hugeIncs))]
	case 2:
		return "0"
	default:
		return strconv.Itoa(rr.Range(-5, 20))
	}
}

func pickSize(rr *run.Rand, sizes []int) int { return sizes[rr.Intn(len(sizes))] }

func genCounter(rr *run.Rand, c *run.Ctx) (*Case, []string) {
	cs := &Case{Agg: "counter", Perms: 3, PermSeed: rr.U64(), Direct: rr.Intn(5) == 0}
	n := histLen(rr)
	forbid := nul
	if cs.Direct {
		forbid = directSep
	}
	keys := alphabet(rr, pickSize(rr, []int{1, 2, 3, 5, 20, 200, 2000}), forbid)
	if cs.Direct && len(keys) > 1 {
		keys[1] = "a\x00b" // keys given to SampleValue are opaque
		keys[0] = "\x00"
	}
	cs.Full = n <= 200 && rr.Intn(3) == 0
	samples := make([]string, n)
	for i := range samples {
		k := keys[zipf(rr, len(keys))]
		if cs.Direct {
			samples[i] = k + directSep + directInc(rr)
		} else if inc, ok := incString(rr); ok {
			samples[i] = k + nul + inc + extraFields(rr, nul)
		} else {
			samples[i] = k
		}
	}
	return cs, samples
}

func genSubKey(rr *run.Rand, c *run.Ctx) (*Case, []string) {
	cs := &Case{Agg: "subkey", Perms: 3, PermSeed: rr.U64(), Direct: rr.Intn(5) == 0}
	n := histLen(rr)
	forbid := nul
	if cs.Direct {
		forbid = directSep
	}
	keys := alphabet(rr, pickSize(rr, []int{1, 2, 3, 5, 20, 200, 2000}), forbid)
	subs := alphabet(rr, pickSize(rr, []int{1, 2, 3, 8, 40}), forbid)
	if cs.Direct && len(subs) > 1 {
		subs[1] = "s\x00t"
	}
	cs.Full = n <= 200 && rr.Intn(3) == 0
	samples := make([]string, n)
	for i := range samples {
		k := keys[zipf(rr, len(keys))]
		s := subs[rr.Intn(len(subs))]
		switch {
		case cs.Direct:
			samples[i] = k + directSep + s + directSep + directInc(rr)
		case rr.Intn(12) == 0:
			samples[i] = k // no sub-key part at all
		default:
			if inc, ok := incString(rr); ok {
				samples[i] = k + nul + s + nul + inc + extraFields(rr, nul)
			} else {
				samples[i] = k + nul + s
			}
		}
	}
	return cs, samples
}

var oneByteDelims = []string{nul, nul, nul, " ", ",", "\t", ":", "|", "\xff"}
var multiByteDelims = []string{"::", "→", ", ", "ab", "\x00\x00", "--", "é", "=>"}

func genTable(rr *run.Rand, c *run.Ctx) (*Case, []string) {
	cs := &Case{Agg: "table", Perms: 2, PermSeed: rr.U64(), Direct: rr.Intn(6) == 0}
	delim := oneByteDelims[rr.Intn(len(oneByteDelims))]
	if !c.KnownActive(fpDelim) && rr.Intn(3) == 0 {
		// multi-byte delimiters (kept out only while the splitter finding is listed)
		delim = multiByteDelims[rr.Intn(len(multiByteDelims))]
	}
	cs.Delim = strconv.QuoteToASCII(delim)
	n := histLen(rr)
	if n > 3000 {
		n = 3000
	}
	forbid := delim + "\x1e"
	if cs.Direct {
		forbid = directSep + "\x1e"
	}
	cols := alphabet(rr, pickSize(rr, []int{1, 2, 3, 8, 60}), forbid)
	rows := alphabet(rr, pickSize(rr, []int{1, 2, 3, 20, 300, 2000}), forbid)
	cs.Full = n <= 100 && rr.Intn(3) == 0
	// half of the cases interleave Trim calls with the samples (then no re-ordering is compared)
	trimRounds := 0
	if rr.Intn(2) == 0 && n >= 2 {
		trimRounds = rr.Range(1, 4)
		if n > 300 && rr.Intn(2) == 0 {
			trimRounds = rr.Range(4, 12)
		}
		cs.Perms = 0
	}
	samples := make([]string, 0, n+trimRounds)
	prevCol, prevRow := "", ""
	forceCol, forceRow := false, false
	for i := 0; i < n; i++ {
		if trimRounds > 0 && i > 0 && rr.Intn(n) < trimRounds {
			spec := ""
			switch x := rr.Intn(20); {
			case x < 8: // the row just sampled goes away entirely, and is usually sampled again right away
				spec = "rowis:" + prevRow
				forceRow = rr.Intn(10) < 7
				forceCol = rr.Intn(2) == 0
			case x < 11:
				spec = "colis:" + prevCol
				forceCol = rr.Intn(10) < 7
				forceRow = rr.Intn(2) == 0
			case x < 13:
				spec = "all"
				forceRow, forceCol = rr.Intn(2) == 0, rr.Intn(2) == 0
			case x < 16:
				spec = []string{"col", "row", "cell", "col3", "row3"}[rr.Intn(5)] + ":" + strconv.Itoa(rr.Intn(1000))
				forceRow = rr.Intn(2) == 0
			default:
				spec = denseTrims[rr.Intn(len(denseTrims))]
			}
			samples = append(samples, trimMark+spec)
		}
		col := cols[rr.Intn(len(cols))]
		row := rows[zipf(rr, len(rows))]
		if forceCol {
			col = prevCol
		}
		if forceRow {
			row = prevRow
		}
		forceCol, forceRow = false, false
		var smp string
		switch {
		case cs.Direct:
			smp = col + directSep + row + directSep + directInc(rr)
		case rr.Intn(12) == 0:
			smp = col // no row part at all: row ""
			row = ""
		default:
			if inc, ok := incString(rr); ok {
				smp = col + delim + row + delim + inc + extraFields(rr, delim)
			} else {
				smp = col + delim + row
			}
		}
		samples = append(samples, smp)
		prevCol, prevRow = col, row
	}
	// trim predicates
	nt := rr.Range(1, 3)
	for k := 0; k < nt; k++ {
		spec := denseTrims[rr.Intn(len(denseTrims))]
		switch rr.Intn(6) {
		case 0:
			if x := rows[rr.Intn(len(rows))]; utf8.ValidString(x) {
				spec = "rowis:" + x
			}
		case 1:
			if x := cols[rr.Intn(len(cols))]; utf8.ValidString(x) {
				spec = "colis:" + x
			}
		case 2:
			spec = []string{"col", "row", "cell", "col3", "row3"}[rr.Intn(5)] + ":" + strconv.Itoa(rr.Intn(1000))
		case 3:
			spec = []string{"lt", "ge"}[rr.Intn(2)] + ":" + strconv.Itoa(rr.Range(-3, 6))
		}
		cs.Trim = append(cs.Trim, spec)
	}
	return cs, samples
}

var junkNums = []string{"abc", "", "1,5", "12a", "--1", " ", "1.2.3", "e5", "$4", "0x1F", "0b11", "0o17"}
var qPool = []float64{0, 0.001, 0.01, 0.1, 0.25, 0.5, 0.75, 0.9, 0.95, 0.99, 0.999, 1.0, 1 - 1.0/(1<<53), 1.0 / 3}

func genNumerical(rr *run.Rand, c *run.Ctx) (*Case, []string) {
	cs := &Case{Agg: "numerical", Keep: rr.Intn(7) != 0, Reverse: rr.Intn(3) == 0}
	n := histLen(rr)
	cs.Full = n <= 200 && rr.Intn(3) == 0
	nq := rr.Range(2, 6)
	for k := 0; k < nq; k++ {
		if rr.Intn(4) == 0 {
			cs.Qs = append(cs.Qs, rr.Float())
		} else {
			cs.Qs = append(cs.Qs, qPool[rr.Intn(len(qPool))])
		}
	}
	regime := rr.Intn(8)
	nonfinite := rr.Intn(25) == 0
	offset := math.Pow(10, float64(rr.Range(0, 6))) * float64(rr.Range(1, 9))
	scale := math.Pow(10, float64(rr.Range(-3, 3)))
	samples := make([]string, n)
	for i := range samples {
		if rr.Intn(33) == 0 {
			samples[i] = junkNums[rr.Intn(len(junkNums))]
			continue
		}
		if nonfinite && rr.Intn(10) == 0 {
			samples[i] = []string{"@nan", "@+inf", "@-inf"}[rr.Intn(3)]
			continue
		}
		var v float64
		switch regime {
		case 0: // few small integers: many ties
			v = float64(rr.Range(0, 6))
		case 1: // integers like response sizes
			v = float64(rr.Intn(100000))
		case 2: // uniform reals
			v = (rr.Float()*2 - 1) * scale * 100
		case 3: // large offset, small noise (ill-conditioned variance)
			v = offset + (rr.Float()-0.5)*scale
		case 4: // mixed magnitudes and signs
			v = (rr.Float() - 0.5) * math.Pow(10, float64(rr.Range(-6, 9)))
		case 5: // heavy tail
			u := rr.Float()
			v = math.Floor(1 / (1.0001 - u))
		case 6: // wide dynamic range up to 1e100
			v = (rr.Float() - 0.5) * math.Pow(10, float64(rr.Range(-100, 100)))
		default: // constant with rare outliers
			v = offset
			if rr.Intn(20) == 0 {
				v = offset * float64(rr.Range(-3, 3))
			}
		}
		if rr.Intn(2) == 0 && v == math.Trunc(v) && math.Abs(v) < 1e15 {
			samples[i] = strconv.FormatInt(int64(v), 10)
			if v >= 0 && rr.Intn(6) == 0 {
				// fixed-width, zero-padded decimal fields: still decimal (0100 is one hundred)
				samples[i] = strings.Repeat("0", rr.Range(1, 3)) + samples[i]
			}
		} else {
			samples[i] = strconv.FormatFloat(v, byte("gef"[rr.Intn(2)]), -1, 64)
		}
	}
	return cs, samples
}

var payloads = []string{"", "a", "GET", "x y", "é", "{k}", "\\", "日本", "0", "-", "long-" + strings.Repeat("z", 40)}

func genAccum(rr *run.Rand, c *run.Ctx) (*Case, []string) {
	cs := &Case{Agg: "accum"}
	n := histLen(rr)
	if n > 3000 {
		n = 3000
	}
	cs.Full = n <= 200 && rr.Intn(3) == 0
	d := &AccDef{}
	switch rr.Intn(6) {
	case 0:
	case 1:
		d.Groups = []int{1, 2}
	case 2:
		d.Groups = []int{2, 1}
	case 3:
		d.Groups = []int{0}
	default:
		d.Groups = []int{1}
	}
	if rr.Intn(8) == 0 {
		d.Groups = append(d.Groups, []int{-1, -2, -3}[rr.Intn(3)])
	}
	ncol := rr.Range(1, 5)
	// ragged: elements with 1..5 fields; only string-valued columns (no helper error markers to model)
	isRagged := rr.Intn(4) == 0
	if isRagged && rr.Bool() {
		d.Groups = []int{rr.Range(1, 5)}
	}
	var numeric []string
	for i := 0; i < ncol; i++ {
		cd := ColDef{Name: string(rune('a'+i)) + "c"}
		kinds := []string{"sum", "count", "max", "min", "last", "keep", "sum", "count"}
		if isRagged {
			kinds = []string{"last", "last", "keep", "count"}
		}
		if n <= 300 {
			kinds = append(kinds, "cat")
		}
		if len(numeric) >= 2 && !isRagged {
			kinds = append(kinds, "diff", "diff")
		}
		if i > 0 {
			kinds = append(kinds, "copy")
		}
		cd.Kind = kinds[rr.Intn(len(kinds))]
		switch cd.Kind {
		case "sum", "max", "min":
			cd.F = rr.Range(3, 4)
			cd.Init = []string{"0", "0", "5", "-3", "-100000", "100000"}[rr.Intn(6)]
			numeric = append(numeric, cd.Name)
		case "count":
			cd.Init = []string{"0", "0", "7"}[rr.Intn(3)]
			numeric = append(numeric, cd.Name)
		case "last":
			cd.F = rr.Range(0, 5)
			cd.Init = []string{"", "init"}[rr.Intn(2)]
		case "keep":
			cd.Init = []string{"", "k0", "0"}[rr.Intn(3)]
		case "cat":
			cd.F = []int{1, 2, 5}[rr.Intn(3)]
			cd.Init = []string{"", ">"}[rr.Intn(2)]
		case "diff":
			cd.A = numeric[rr.Intn(len(numeric))]
			cd.B = numeric[rr.Intn(len(numeric))]
			numeric = append(numeric, cd.Name)
		case "copy":
			cd.A = d.Cols[rr.Intn(len(d.Cols))].Name
		}
		d.Cols = append(d.Cols, cd)
	}
	cs.Acc = d
	g1 := alphabet(rr, pickSize(rr, []int{1, 2, 3, 10, 50, 500}), nul)
	g2 := alphabet(rr, pickSize(rr, []int{1, 2, 3}), nul)
	samples := make([]string, n)
	for i := range samples {
		f := []string{g1[zipf(rr, len(g1))], g2[rr.Intn(len(g2))], strconv.Itoa(rr.Range(-1000, 1000)), strconv.Itoa(rr.Range(-3, 3)), payloads[rr.Intn(len(payloads))]}
		if isRagged {
			f = f[:rr.Range(1, 5)]
		}
		samples[i] = strings.Join(f, nul)
	}
	if isRagged {
		c.Count("accum_ragged_cases", 1)
	}
	return cs, samples
}
