package ref

import (
	"errors"
	"strings"
)

// Dissect is the statement of C12, written from docs/usage/dissect.md and the
// property text: find the first occurrence of the leading literal; for each
// %{token} take the text up to the first following occurrence of its trailing
// literal (to end of line if it has none); %{} and %{?name} consume without
// capturing; group 0 spans from the leading literal through the last delimiter.
// Ignore-case is defined for ASCII only (lower-case both sides).
type Dissect struct {
	prefix string
	toks   []dtok
	names  map[string]int
	groups int
	fold   bool
}

type dtok struct {
	name  string
	until string
	skip  bool
}

func CompileDissect(pat string, ignoreCase bool) (*Dissect, error) {
	d := &Dissect{names: map[string]int{}, fold: ignoreCase}
	i := strings.Index(pat, "%{")
	if i < 0 {
		d.prefix = pat
		return d, nil
	}
	d.prefix = pat[:i]
	rest := pat[i:]
	for strings.HasPrefix(rest, "%{") {
		j := strings.Index(rest, "}")
		if j < 0 {
			return nil, errors.New("unclosed token")
		}
		name := rest[2:j]
		rest = rest[j+1:]
		k := strings.Index(rest, "%{")
		lit := rest
		if k >= 0 {
			lit = rest[:k]
			rest = rest[k:]
			if lit == "" {
				return nil, errors.New("adjacent tokens")
			}
		} else {
			rest = ""
		}
		t := dtok{name: name, until: lit}
		if name == "" || name[0] == '?' {
			t.skip = true
		} else {
			if _, dup := d.names[name]; dup {
				return nil, errors.New("duplicate key")
			}
			d.groups++
			d.names[name] = d.groups
		}
		d.toks = append(d.toks, t)
	}
	return d, nil
}

func (d *Dissect) Names() map[string]int { return d.names }

func asciiLower(s string) string {
	b := []byte(s)
	for i, c := range b {
		if c >= 'A' && c <= 'Z' {
			b[i] = c + 32
		}
	}
	return string(b)
}

func (d *Dissect) Find(line []byte) []int {
	s := string(line)
	prefix := d.prefix
	if d.fold {
		s = asciiLower(s)
		prefix = asciiLower(prefix)
	}
	start := strings.Index(s, prefix)
	if start < 0 {
		return nil
	}
	out := make([]int, 2+2*d.groups)
	out[0] = start
	pos := start + len(prefix)
	g := 1
	for _, t := range d.toks {
		until := t.until
		if d.fold {
			until = asciiLower(until)
		}
		end := len(s)
		if until != "" {
			k := strings.Index(s[pos:], until)
			if k < 0 {
				return nil
			}
			end = pos + k
		}
		if !t.skip {
			out[2*g], out[2*g+1] = pos, end
			g++
		}
		pos = end + len(until)
	}
	out[1] = pos
	return out
}
