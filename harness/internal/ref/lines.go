// Package ref holds the independent reference models (written from the
// documentation / property statements, never from rare's code).
package ref

// SplitLines is the statement of C04: segments between '\n' bytes; one trailing
// '\r' removed from newline-terminated segments; a final unterminated non-empty
// segment is a line; nothing follows a trailing newline.
func SplitLines(stream []byte) [][]byte {
	var out [][]byte
	start := 0
	for i, b := range stream {
		if b == '\n' {
			seg := stream[start:i]
			if len(seg) > 0 && seg[len(seg)-1] == '\r' {
				seg = seg[:len(seg)-1]
			}
			out = append(out, seg)
			start = i + 1
		}
	}
	if start < len(stream) {
		out = append(out, stream[start:])
	}
	return out
}
