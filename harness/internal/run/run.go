// Package run is the case runner shared by every property package: seeded
// PRNG streams, journal-before-run, recover(), watchdog, violation / known
// finding bookkeeping and the per-shard result file the orchestrator merges
// into evidence/<ID>.json.
package run

import (
	"crypto/sha256"
	"encoding/binary"
	"encoding/hex"
	"encoding/json"
	"fmt"
	"hash/fnv"
	"os"
	"path/filepath"
	"runtime"
	"runtime/debug"
	"sort"
	"strings"
	"sync"
	"sync/atomic"
	"time"
)

// ---------------------------------------------------------------- PRNG

// Rand is a splitmix64 stream. Deterministic, cheap, no global state.
type Rand struct{ s uint64 }

func mix(z uint64) uint64 {
	z += 0x9e3779b97f4a7c15
	z = (z ^ (z >> 30)) * 0xbf58476d1ce4e5b9
	z = (z ^ (z >> 27)) * 0x94d049bb133111eb
	return z ^ (z >> 31)
}

// NewRand derives a stream from integer/string keys.
func NewRand(keys ...any) *Rand {
	h := uint64(0x1234567)
	for _, k := range keys {
		switch v := k.(type) {
		case int:
			h = mix(h ^ uint64(v))
		case uint64:
			h = mix(h ^ v)
		case int64:
			h = mix(h ^ uint64(v))
		case string:
			f := fnv.New64a()
			f.Write([]byte(v))
			h = mix(h ^ f.Sum64())
		default:
			panic("NewRand: bad key type")
		}
	}
	return &Rand{s: h}
}

func (r *Rand) U64() uint64 {
	r.s += 0x9e3779b97f4a7c15
	z := r.s
	z = (z ^ (z >> 30)) * 0xbf58476d1ce4e5b9
	z = (z ^ (z >> 27)) * 0x94d049bb133111eb
	return z ^ (z >> 31)
}

// Intn returns a value in [0,n). n<=0 returns 0.
func (r *Rand) Intn(n int) int {
	if n <= 0 {
		return 0
	}
	return int(r.U64() % uint64(n))
}

// Range returns a value in [lo,hi] inclusive.
func (r *Rand) Range(lo, hi int) int {
	if hi <= lo {
		return lo
	}
	return lo + r.Intn(hi-lo+1)
}

func (r *Rand) Bool() bool            { return r.U64()&1 == 1 }
func (r *Rand) Chance(p float64) bool { return r.Float() < p }
func (r *Rand) Float() float64        { return float64(r.U64()>>11) / float64(1<<53) }
func (r *Rand) I64() int64            { return int64(r.U64()) }

// Pick returns one element of a string list.
func (r *Rand) Pick(xs []string) string { return xs[r.Intn(len(xs))] }

// Perm returns a permutation of 0..n-1.
func (r *Rand) Perm(n int) []int {
	p := make([]int, n)
	for i := range p {
		p[i] = i
	}
	for i := n - 1; i > 0; i-- {
		j := r.Intn(i + 1)
		p[i], p[j] = p[j], p[i]
	}
	return p
}

// Bytes returns n bytes drawn from alphabet (all 256 values when empty).
func (r *Rand) Bytes(n int, alphabet []byte) []byte {
	b := make([]byte, n)
	for i := range b {
		if len(alphabet) == 0 {
			b[i] = byte(r.U64())
		} else {
			b[i] = alphabet[r.Intn(len(alphabet))]
		}
	}
	return b
}

// ---------------------------------------------------------------- results

// Violation is one refuting observation.
type Violation struct {
	Fingerprint string `json:"fingerprint"` // class + minimal identity of the failing input
	Message     string `json:"message"`
	Case        any    `json:"case"` // serialised case, enough to replay
	Known       string `json:"known,omitempty"`
}

// Result is what one shard writes; the orchestrator merges shards.
type Result struct {
	Property     string              `json:"property"`
	Tier         string              `json:"tier"`
	Seed         uint64              `json:"seed"`
	Shard        int                 `json:"shard"`
	Shards       int                 `json:"shards"`
	Flavour      string              `json:"flavour"`
	Evaluations  int64               `json:"evaluations"`
	Nontrivial   []string            `json:"nontrivial"` // hex hashes (distinct)
	Samples      []any               `json:"samples"`
	Counters     map[string]int64    `json:"counters"`
	Sets         map[string][]string `json:"sets"` // named distinct-sets (interleavings, configs ...)
	Violations   []Violation         `json:"violations"`
	KnownHits    []Violation         `json:"known_hits"`
	Inconclusive []string            `json:"inconclusive"`
	Notes        []string            `json:"notes"`
	Completed    bool                `json:"completed"`
	WallS        float64             `json:"wall_s"`
}

// KnownFinding is one entry of /verif/known_findings.json.
type KnownFinding struct {
	Property    string `json:"property"`
	Status      string `json:"status"` // known | fixed
	Fingerprint string `json:"fingerprint"`
	What        string `json:"what"`
	Commit      string `json:"commit,omitempty"`
	Witness     any    `json:"witness,omitempty"`
}

// Ctx is handed to every property package.
type Ctx struct {
	Property string
	Tier     string // quick | thorough
	Seed     uint64
	Shard    int
	Shards   int
	OutDir   string
	WorkDir  string // scratch, removed by orchestrator
	Flavour  string // plain | race | asan
	Replay   json.RawMessage
	RareBin  string // path of the CLI built from /repo (may be empty)
	RareRace string

	mu      sync.Mutex
	res     Result
	nontriv map[[8]byte]struct{}
	sets    map[string]map[string]struct{}
	journal *os.File
	known   []KnownFinding
	start   time.Time
	maxViol int

	// watchdog
	caseStart atomic.Int64 // unix nano; 0 = idle
	caseLimit atomic.Int64 // nanoseconds
	lastCase  atomic.Value // string (json)
}

// Thorough reports whether the thorough tier was requested.
func (c *Ctx) Thorough() bool { return c.Tier == "thorough" }

// tierScale multiplies the case counts the property packages ask for ({quick, thorough}).
// The counts in the packages were sized on a machine under heavy load; measured on the idle
// 16-core sandbox most tiers ended in seconds, so they are deepened here in one place.
// Only count-like values (>= 16) are scaled, never small structural parameters (depths, repeats).
var tierScale = map[string][2]int{
	"C03": {2, 4}, "C04": {1, 3}, "C05": {1, 2}, "C06": {3, 5}, "C07": {2, 5}, "C08": {2, 8},
	"C09": {5, 20}, "C10": {2, 3}, "C11": {10, 30}, "C12": {10, 15}, "C13": {4, 5}, "C14": {4, 6},
	"C15": {1, 2}, "C16": {3, 8}, "C17": {2, 8}, "C18": {2, 8}, "C19": {3, 6}, "C20": {3, 5},
}

// N picks a case count by tier.
func (c *Ctx) N(quick, thorough int) int {
	v, idx := quick, 0
	if c.Thorough() {
		v, idx = thorough, 1
	}
	if s, ok := tierScale[c.Property]; ok && v >= 16 && s[idx] > 1 && os.Getenv("VERIF_NOSCALE") == "" {
		v *= s[idx]
	}
	return v
}

// Pick chooses a structural parameter (a depth, a length, a size bound) by tier. Unlike N it is never scaled: such
// values carry the stated bounds of a check (e.g. templates of at most 64 KiB), not a number of cases.
func (c *Ctx) Pick(quick, thorough int) int {
	if c.Thorough() {
		return thorough
	}
	return quick
}

// Mine reports whether case index i belongs to this shard.
func (c *Ctx) Mine(i int) bool { return i%c.Shards == c.Shard }

// Rand derives a PRNG for (seed, property, stream keys...). Case streams do
// not depend on the shard, so a case is the same whichever shard runs it.
func (c *Ctx) Rand(keys ...any) *Rand {
	all := append([]any{c.Seed, c.Property}, keys...)
	return NewRand(all...)
}

func New(property, tier string, seed uint64, shard, shards int, outDir, flavour string) *Ctx {
	c := &Ctx{Property: property, Tier: tier, Seed: seed, Shard: shard, Shards: shards,
		OutDir: outDir, Flavour: flavour, start: time.Now(), maxViol: 6}
	c.res = Result{Property: property, Tier: tier, Seed: seed, Shard: shard, Shards: shards,
		Flavour: flavour, Counters: map[string]int64{}}
	c.nontriv = map[[8]byte]struct{}{}
	c.sets = map[string]map[string]struct{}{}
	os.MkdirAll(outDir, 0o755)
	c.WorkDir = filepath.Join(outDir, fmt.Sprintf("work-%d", shard))
	os.MkdirAll(c.WorkDir, 0o755)
	j, err := os.OpenFile(filepath.Join(outDir, fmt.Sprintf("journal-%d.jsonl", shard)), os.O_CREATE|os.O_WRONLY|os.O_TRUNC, 0o644)
	if err == nil {
		c.journal = j
	}
	c.lastCase.Store("")
	go c.watchdog()
	return c
}

// LoadKnown reads known_findings.json (missing file = none).
func (c *Ctx) LoadKnown(path string) {
	files := []string{path}
	// work-in-progress entries while a check is being built (merged into the
	// committed file before the property is claimed)
	extra, _ := filepath.Glob(filepath.Join(filepath.Dir(path), "known.d", "*.json"))
	files = append(files, extra...)
	for _, f := range files {
		b, err := os.ReadFile(f)
		if err != nil {
			continue
		}
		var all []KnownFinding
		if json.Unmarshal(b, &all) != nil {
			continue
		}
		for _, k := range all {
			if k.Property == c.Property {
				c.known = append(c.known, k)
			}
		}
	}
}

// KnownActive lists fingerprints of status=known entries for this property
// (generators use it to stay out of exactly those input classes).
func (c *Ctx) KnownActive(fp string) bool {
	for _, k := range c.known {
		if k.Status == "known" && k.Fingerprint == fp {
			return true
		}
	}
	return false
}

// ---------------------------------------------------------------- journal + watchdog

// Begin journals the case (to disk, before it runs) and arms the watchdog.
// limit<=0 means the default (60 s).
func (c *Ctx) Begin(cs any, limit time.Duration) {
	b, _ := json.Marshal(cs)
	if c.journal != nil {
		c.journal.Write(append(b, '\n'))
	}
	c.lastCase.Store(string(b))
	if limit <= 0 {
		limit = 60 * time.Second
	}
	c.caseLimit.Store(int64(limit))
	c.caseStart.Store(time.Now().UnixNano())
}

// End disarms the watchdog and counts one evaluation.
func (c *Ctx) End() {
	c.caseStart.Store(0)
	atomic.AddInt64(&c.res.Evaluations, 1)
}

// Evals adds n evaluations (for inner loops that do not journal each step).
func (c *Ctx) Evals(n int) { atomic.AddInt64(&c.res.Evaluations, int64(n)) }

func (c *Ctx) watchdog() {
	for {
		time.Sleep(500 * time.Millisecond)
		st := c.caseStart.Load()
		if st == 0 {
			continue
		}
		if time.Now().UnixNano()-st < c.caseLimit.Load() {
			continue
		}
		// The case overran. Take three stack samples one second apart so the
		// orchestrator can tell "stuck in the same place" from "slow".
		var dumps []string
		for i := 0; i < 3; i++ {
			buf := make([]byte, 4<<20)
			n := runtime.Stack(buf, true)
			dumps = append(dumps, string(buf[:n]))
			time.Sleep(time.Second)
		}
		if c.caseStart.Load() != st {
			continue // it finished meanwhile: slow, not stuck
		}
		os.WriteFile(filepath.Join(c.OutDir, fmt.Sprintf("hang-%d.txt", c.Shard)),
			[]byte(strings.Join(dumps, "\n=========== next sample ===========\n")), 0o644)
		var cs any
		json.Unmarshal([]byte(c.lastCase.Load().(string)), &cs)
		c.mu.Lock()
		c.res.Notes = append(c.res.Notes, "watchdog fired")
		c.mu.Unlock()
		c.writeHang(cs)
		os.Exit(97)
	}
}

func (c *Ctx) writeHang(cs any) {
	b, _ := json.Marshal(map[string]any{"case": cs, "shard": c.Shard})
	os.WriteFile(filepath.Join(c.OutDir, fmt.Sprintf("hangcase-%d.json", c.Shard)), b, 0o644)
	c.flush(false)
}

// Guard runs f under recover(); a panic is returned with its stack.
func Guard(f func()) (panicked bool, val any, stack string) {
	defer func() {
		if r := recover(); r != nil {
			panicked = true
			val = r
			stack = string(debug.Stack())
		}
	}()
	f()
	return
}

// ---------------------------------------------------------------- observations

// Nontrivial records the fingerprint of a distinct non-trivial case.
func (c *Ctx) Nontrivial(parts ...string) {
	h := sha256.New()
	for _, p := range parts {
		h.Write([]byte(p))
		h.Write([]byte{0})
	}
	var k [8]byte
	copy(k[:], h.Sum(nil))
	c.mu.Lock()
	c.nontriv[k] = struct{}{}
	c.mu.Unlock()
}

// NontrivialBytes is Nontrivial for raw bytes.
func (c *Ctx) NontrivialBytes(b []byte) {
	s := sha256.Sum256(b)
	var k [8]byte
	copy(k[:], s[:8])
	c.mu.Lock()
	c.nontriv[k] = struct{}{}
	c.mu.Unlock()
}

// Sample keeps at most 6 literal cases for the evidence file.
func (c *Ctx) Sample(v any) {
	c.mu.Lock()
	if len(c.res.Samples) < 6 {
		c.res.Samples = append(c.res.Samples, v)
	}
	c.mu.Unlock()
}

// Count adds to a named counter.
func (c *Ctx) Count(name string, n int64) {
	c.mu.Lock()
	c.res.Counters[name] += n
	c.mu.Unlock()
}

// Max keeps the maximum of a named counter.
func (c *Ctx) Max(name string, n int64) {
	c.mu.Lock()
	if n > c.res.Counters[name] {
		c.res.Counters[name] = n
	}
	c.mu.Unlock()
}

// SetAdd adds a member to a named distinct-set (e.g. interleaving signatures).
func (c *Ctx) SetAdd(set, member string) {
	c.mu.Lock()
	m := c.sets[set]
	if m == nil {
		m = map[string]struct{}{}
		c.sets[set] = m
	}
	if len(m) < 200000 {
		m[member] = struct{}{}
	}
	c.mu.Unlock()
}

// Note records free text for the evidence file.
func (c *Ctx) Note(s string) {
	c.mu.Lock()
	if len(c.res.Notes) < 50 {
		c.res.Notes = append(c.res.Notes, s)
	}
	c.mu.Unlock()
}

// Inconclusive records a reason the verdict of this shard cannot be "held".
func (c *Ctx) Inconclusive(reason string) {
	c.mu.Lock()
	c.res.Inconclusive = append(c.res.Inconclusive, reason)
	c.mu.Unlock()
}

// Violation records a refuting observation. fingerprint identifies the
// specific failing input/call site; if it is listed as "known" in
// known_findings.json it is reported as KNOWN-FINDING instead.
func (c *Ctx) Violation(fingerprint, msg string, cs any) {
	c.mu.Lock()
	defer c.mu.Unlock()
	v := Violation{Fingerprint: fingerprint, Message: msg, Case: cs}
	for _, k := range c.known {
		if k.Status == "known" && k.Fingerprint == fingerprint {
			v.Known = k.What
			for _, e := range c.res.KnownHits {
				if e.Fingerprint == fingerprint {
					return
				}
			}
			c.res.KnownHits = append(c.res.KnownHits, v)
			return
		}
	}
	c.res.Counters["violations_total"]++
	for _, e := range c.res.Violations {
		if e.Fingerprint == fingerprint {
			return
		}
	}
	if len(c.res.Violations) < c.maxViol {
		c.res.Violations = append(c.res.Violations, v)
	}
}

// Violations returns how many distinct violations were recorded so far.
func (c *Ctx) Violations() int {
	c.mu.Lock()
	defer c.mu.Unlock()
	return len(c.res.Violations)
}

func (c *Ctx) flush(completed bool) {
	c.mu.Lock()
	defer c.mu.Unlock()
	c.res.Completed = completed
	c.res.WallS = time.Since(c.start).Seconds()
	c.res.Nontrivial = c.res.Nontrivial[:0]
	for k := range c.nontriv {
		c.res.Nontrivial = append(c.res.Nontrivial, hex.EncodeToString(k[:]))
	}
	sort.Strings(c.res.Nontrivial)
	c.res.Sets = map[string][]string{}
	for name, m := range c.sets {
		var l []string
		for k := range m {
			l = append(l, k)
		}
		sort.Strings(l)
		c.res.Sets[name] = l
	}
	b, _ := json.Marshal(&c.res)
	tmp := filepath.Join(c.OutDir, fmt.Sprintf("result-%d.json.tmp", c.Shard))
	os.WriteFile(tmp, b, 0o644)
	os.Rename(tmp, filepath.Join(c.OutDir, fmt.Sprintf("result-%d.json", c.Shard)))
}

// Finish writes the shard result.
func (c *Ctx) Finish() {
	c.caseStart.Store(0)
	c.flush(true)
	if c.journal != nil {
		c.journal.Close()
	}
}

// Checkpoint writes a partial (not completed) result, so that what was
// observed before a fatal crash is not lost.
func (c *Ctx) Checkpoint() { c.flush(false) }

// ---------------------------------------------------------------- helpers

// Hash64 hashes strings into a short hex id.
func Hash64(parts ...string) string {
	h := sha256.New()
	for _, p := range parts {
		h.Write([]byte(p))
		h.Write([]byte{0})
	}
	return hex.EncodeToString(h.Sum(nil)[:8])
}

// HashU64 folds ints into an order-sensitive signature.
type OrderHash struct{ h uint64 }

func (o *OrderHash) Add(v uint64) { o.h = mix(o.h ^ v) }
func (o *OrderHash) AddStr(s string) {
	f := fnv.New64a()
	f.Write([]byte(s))
	o.Add(f.Sum64())
}
func (o *OrderHash) Hex() string {
	var b [8]byte
	binary.BigEndian.PutUint64(b[:], o.h)
	return hex.EncodeToString(b[:])
}

// Q quotes a string for messages, bounded in length.
func Q(s string) string {
	if len(s) > 200 {
		return fmt.Sprintf("%q…(%d bytes)", s[:200], len(s))
	}
	return fmt.Sprintf("%q", s)
}
