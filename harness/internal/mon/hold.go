// Package mon holds the runtime monitors shared by property packages.
package mon

import "bytes"

// Hold is the snapshot-stability monitor: it keeps every slice handed out by
// the code under test together with a private copy taken at hand-out time, and
// can re-compare all of them later.
type Hold struct {
	live   [][]byte
	copies [][]byte
}

func (h *Hold) Add(b []byte) {
	h.live = append(h.live, b)
	h.copies = append(h.copies, append([]byte(nil), b...))
}

func (h *Hold) Len() int { return len(h.live) }

// Check returns the index of the first held slice whose contents changed, or -1.
func (h *Hold) Check() int {
	for i := range h.live {
		if !bytes.Equal(h.live[i], h.copies[i]) {
			return i
		}
	}
	return -1
}

// CheckLast re-checks only the most recent n entries (cheap online check).
func (h *Hold) CheckFrom(from int) int {
	if from < 0 {
		from = 0
	}
	for i := from; i < len(h.live); i++ {
		if !bytes.Equal(h.live[i], h.copies[i]) {
			return i
		}
	}
	return -1
}

func (h *Hold) Copy(i int) []byte { return h.copies[i] }
func (h *Hold) Live(i int) []byte { return h.live[i] }
